(* MethodContractRimi.v — Layer B, the method contract along the call graph for
   the two RIMI variants (shadow-stack only, and full):
   EVERY method of EVERY image, entered at its first instruction with the image
   loaded in code memory, returns to its caller; call-making methods keep their
   return address ONLY on the shadow stack (sst / lst through t3): pushes and
   pops are LIFO-matched, one slot per live call-making method, inside the
   shadow-stack window [ssp - ss_need, ssp) computed from the call DAG, and t3 is
   back at its entry value on return.  The return target of a call-making method
   is the content of its SHADOW slot (CallFrameRimi.rimi_call_epi_exec): no
   hypothesis on main-stack contents other than the s0 slot is used. *)
From Coq Require Import ZArith List String Bool Lia.
From Gigue Require Import WalkK.
From Gigue Require Import Types Bits Isa IsaProofs Enc EncProofs GenTables Builder Samplers Generator GenLemmas
  Machine MachineLemmas ImageSem GenWF GenWFProps SliceLemmas GenWF2 GenWF3 GenWF2Props SplitProofs
  BodyExec BodyBridge GenWF5 FrameExec CodeMem SwitchExec GenWF6 GenWF8 GenWF9 Walk CallFrame MethodContract CallFrameRimi.
Import ListNotations.
Open Scope list_scope.
Open Scope Z_scope.

Definition rimi (c : config) : Prop := c_variant c = GRimiSS \/ c_variant c = GRimiFull.

Lemma rimi_non_fixer c : rimi c -> non_fixer (c_variant c).
Proof. intros [H|H]; unfold non_fixer; auto. Qed.

Lemma rimi_ext c : rimi c -> variant_ext (gv c) = ExtRimi.
Proof. intros [H|H]; unfold gv; rewrite H; reflexivity. Qed.

Lemma rimi_call_frames_eq c :
  rimi c ->
  exists pro epi,
    build_prologue (bvariant_of (c_variant c)) m_used_s_regs m_local_vars_nb true = OK pro /\
    build_epilogue (bvariant_of (c_variant c)) m_used_s_regs m_local_vars_nb true = OK epi /\
    decode_all ExtRimi pro = Some rimi_call_pro /\ decode_all ExtRimi epi = Some rimi_call_epi.
Proof.
  intros [H|H]; rewrite H; eexists; eexists; (split; [vm_compute; reflexivity|]); (split; [vm_compute; reflexivity|]);
    split; vm_compute; reflexivity.
Qed.

(* shadow-stack bytes needed by one activation of a method: 8 per call-making method on the deepest chain *)
Fixpoint ss_need (ms : list method) (fuel : nat) (id : nat) : Z :=
  match fuel with
  | O => 0
  | S k =>
      match nth_error ms id with
      | None => 0
      | Some m => (if m_is_leaf m then 0 else 8) + fold_right (fun cal a => Z.max (ss_need ms k cal) a) 0 (m_callees m)
      end
  end.

Lemma NoDup_map_sub4 idx : NoDup idx -> (forall i, In i idx -> 4 <= i) -> NoDup (map (fun i => (Z.to_nat i - 4)%nat) idx).
Proof.
  intros Hnd. induction Hnd as [|x l Hni _ IH]; intros Hr; cbn [map]; constructor.
  - intros Hin. apply in_map_iff in Hin. destruct Hin as (y & Ey & Hy).
    pose proof (Hr x (or_introl eq_refl)). pose proof (Hr y (or_intror Hy)).
    assert (x = y) by lia. subst y. contradiction.
  - apply IH. intros i Hi. apply Hr. right. exact Hi.
Qed.

Section MCR.
Variable c : config.
Variable script : list draw.
Variable img : image.
Hypothesis Hsucc : successful c script img.
Hypothesis Hrimi : rimi c.
Variable L : layout.

Let ms := im_methods img.
Let v := gv c.
Let dr := c_data_reg c.

Record rplaced : Prop := {
  rp_regions : regions_ok L;
  rp_data : placement c L;
  rp_stack : stack_placement L;
  rp_code64 : code_hi L < W64;
  rp_small : code_hi L - code_lo L < 2147483648 - 2048;
  rp_ss_pos : 0 <= ss_lo L;
  rp_ss_stk : ss_hi L <= stk_lo L \/ stk_hi L <= ss_lo L;
  rp_ss_data : ss_hi L <= data_lo L \/ data_hi L <= ss_lo L;
  rp_methods : Forall (fun m => m_addr m mod 4 = 0 /\ code_lo L <= m_addr m /\
                               m_addr m + 4 * zlen (m_instrs m) <= code_hi L /\
                               (halt_at L < m_addr m \/ m_addr m + 4 * zlen (m_instrs m) <= halt_at L) /\
                               jit_lo L <= m_addr m) ms
}.
Hypothesis HP : rplaced.

Definition rcode_loaded (s : mstate) : Prop :=
  Forall (fun m => code_at (mem s) (m_addr m) (map generate (m_instrs m))) ms.

(* memory may change only in the data image, the main-stack window [lo, hi) and the shadow-stack window [slo, shi) *)
Definition rmem_frame (s s' : mstate) (lo hi slo shi : Z) : Prop :=
  forall a, 0 <= a -> (a < data_lo L \/ data_lo L + dsz c <= a) -> (a < lo \/ hi <= a) -> (a < slo \/ shi <= a) ->
            mget (mem s') a = mget (mem s) a.

Lemma rmem_frame_trans s1 s2 s3 lo hi slo shi lo' hi' slo' shi' :
  rmem_frame s1 s2 lo hi slo shi -> rmem_frame s2 s3 lo' hi' slo' shi' ->
  lo <= lo' -> hi' <= hi -> slo <= slo' -> shi' <= shi -> rmem_frame s1 s3 lo hi slo shi.
Proof.
  intros H1 H2 Hlo Hhi Hslo Hshi a Ha Hd Hr Hs. rewrite H2 by (try assumption; lia). apply H1; assumption.
Qed.

Lemma rframe_same_code s s' lo hi slo shi :
  rmem_frame s s' lo hi slo shi -> stk_lo L <= lo -> hi <= stk_hi L -> ss_lo L <= slo -> shi <= ss_hi L -> same_code L s s'.
Proof.
  intros H Hlo Hhi Hslo Hshi a Ha. pose proof (rp_regions HP) as RO. pose proof (ro_code L RO). pose proof (ro_stk L RO).
  pose proof (ro_data L RO). pose proof (ro_ss L RO). pose proof (pl_fit c L (rp_data HP)).
  apply H; lia.
Qed.

Lemma rcode_loaded_same s s' : same_code L s s' -> rcode_loaded s -> rcode_loaded s'.
Proof.
  intros Hs Hc. unfold rcode_loaded in *. pose proof (rp_methods HP) as PM.
  rewrite Forall_forall in *. intros m Hm. destruct (PM m Hm) as (_ & Hlo & Hhi & _).
  eapply (code_at_same L (mem s) (mem s')); [exact Hs|exact Hlo| |apply Hc; exact Hm].
  rewrite map_length. unfold zlen in Hhi. exact Hhi.
Qed.

Definition rcontract (need ssn : Z) (cnt : nat) (m : method) : Prop :=
  forall s, rcode_loaded s -> pc s = m_addr m -> env_ok v L dr s ->
    let S := rget s 2 in let P := rget s 28 in
    S mod 8 = 0 -> need <= S < W64 -> stk_lo L <= S - need -> S <= stk_hi L ->
    P mod 8 = 0 -> ssn <= P < W64 -> ss_lo L <= P - ssn -> P <= ss_hi L ->
    0 <= rget s 8 < W64 -> 0 <= rget s 1 < W64 ->
    exists s', run v L cnt s = (Next s', cnt) /\ pc s' = (u64 (rget s 1 + 0) / 2) * 2 /\
      (forall r, 0 <= r -> wr c r = false -> rget s' r = rget s r) /\
      rmem_frame s s' (S - need) S (P - ssn) P /\ dom s' = dom s /\ cfi s' = cfi s /\ env_ok v L dr s'.

(* the block lies on the JIT side and (RIMI full) the state is in the JIT domain *)
Lemma rside s A n : env_ok v L dr s -> jit_lo L <= A -> side_ok v L A n (dom s).
Proof.
  intros [_ Hd] Hj. unfold v, gv, side_ok in *. destruct Hrimi as [E|E]; rewrite E in *; cbn [variant_of] in *; [exact I|].
  right. split; assumption.
Qed.

Lemma rimg_struct : Forall (method_struct c ms) ms.
Proof.
  destruct Hsucc as [Hc Hr]. destruct (cfg_ok_facts c Hc) as [F R]. destruct (cfg_ok_sizes c Hc) as [Hnb Hms].
  exact (run_gen_struct c script img [] (rimi_non_fixer c Hrimi) F Hms Hnb Hr).
Qed.

Lemma rimg_wf : image_wf c img.
Proof. exact (proj1 (successful_wf c script img Hsucc)). Qed.

Lemma rimg_mok2 m : In m ms -> mok2 c m.
Proof.
  intros Hm. destruct (iw_layout c img rimg_wf) as (e & d & HPo).
  pose proof (p2_methods _ _ _ _ _ _ HPo) as Ms. rewrite Forall_forall in Ms. apply Ms. exact Hm.
Qed.

Lemma rimg_placed m : In m ms ->
  m_addr m mod 4 = 0 /\ code_lo L <= m_addr m /\ m_addr m + 4 * zlen (m_instrs m) <= code_hi L /\
  (halt_at L < m_addr m \/ m_addr m + 4 * zlen (m_instrs m) <= halt_at L) /\ jit_lo L <= m_addr m.
Proof. intros Hm. pose proof (rp_methods HP) as PM. rewrite Forall_forall in PM. apply PM. exact Hm. Qed.

Lemma rframe_any m : frame_of c m = 24.
Proof. unfold frame_of. destruct Hrimi as [E|E]; rewrite E; destruct (m_is_leaf m); reflexivity. Qed.

(* ---- leaf methods ---- *)
Lemma rleaf_case m : In m ms -> m_depth m = 0 -> m_calls m = 0 -> rcontract 24 0 (List.length (m_instrs m)) m.
Proof.
  intros Hm Hd Hcalls s Hcode Hpc He S P HSal HSr HSlo HShi HPal HPr HPlo HPhi Hs0 Hra.
  pose proof (leaf_methods_run c script img Hsucc (rimi_non_fixer c Hrimi)) as HL.
  rewrite Forall_forall in HL. specialize (HL m Hm Hd Hcalls L s).
  destruct (rimg_placed m Hm) as (Hal & Hlo & Hhi & Hh & Hjit).
  unfold rcode_loaded in Hcode. rewrite Forall_forall in Hcode. specialize (Hcode m Hm).
  cbv zeta in HL. rewrite Hpc in HL.
  destruct HL as (s' & Rn & Pc & Rg & M & D & C & He'); try assumption;
    try (apply (rp_regions HP)); try (apply (rp_data HP)); try (apply (rp_stack HP));
    try (unfold zlen in *; pose proof (rp_code64 HP); lia); try (apply rside; assumption); try lia.
  exists s'. split; [exact Rn|]. split; [exact Pc|]. split; [exact Rg|].
  split; [|auto]. intros a Ha Hdta Hr _. apply M; try assumption. fold S. lia.
Qed.

Lemma rwr_facts : wr c 1 = false /\ wr c 2 = false /\ wr c 8 = false /\ wr c dr = false /\ dr <> 1 /\ dr <> 2 /\ dr <> 8 /\ 0 < dr
                  /\ wr c 28 = false /\ dr <> 28.
Proof.
  destruct Hsucc as [Hc _]. destruct (cfg_ok_facts c Hc) as [F R].
  destruct reserved_not_caller_saved as (N1 & N2 & N8).
  destruct (caller_saved_facts _ (cr_data c R)) as (Hr & D1 & D2 & D8).
  pose proof (placement_layout_ok c L Hc (rp_data HP)) as LO. destruct (l_dr _ _ _ _ LO) as [Hd0 Hdw].
  assert (Hprot : is_protected (c_variant c) = true) by (destruct Hrimi as [E|E]; rewrite E; reflexivity).
  pose proof (cr_special c R Hprot) as D28.
  assert (W28 : wr c 28 = false).
  { unfold wr, in_zlist. destruct (existsb (Z.eqb 28) (usable_registers c)) eqn:E; [|reflexivity].
    apply existsb_exists in E. destruct E as (y & Hy & Ey). apply Z.eqb_eq in Ey. subst y.
    exfalso. unfold usable_registers in Hy.
    assert (Hy' : In 28 (filter (fun r => negb (r =? c_special_reg c)) (filter (fun r => negb (r =? c_data_reg c)) (c_registers c))))
      by (destruct Hrimi as [E|E]; rewrite E in Hy; exact Hy).
    apply filter_In in Hy'. destruct Hy' as [_ Hy'].
    unfold cfg_ok in Hc. apply andb_prop in Hc. destruct Hc as [Hc _]. apply andb_prop in Hc. destruct Hc as [Hc _].
    apply andb_prop in Hc. destruct Hc as [_ Hrg]. unfold cfg_registers in Hrg. rewrite Hprot in Hrg.
    apply andb_prop in Hrg. destruct Hrg as [_ Hsp]. apply andb_prop in Hsp. destruct Hsp as [Hsp _].
    apply Z.eqb_eq in Hsp. rewrite Hsp in Hy'. cbn in Hy'. discriminate. }
  repeat split; try (apply wr_not_caller_saved; assumption); try assumption.
Qed.

(* ---- methods that make calls ---- *)
(* CORRUPTING THE MAIN-STACK FRAME: at every position p of the method's own body that is not the
   second instruction of a call stub, the untampered run reaches p; if at that moment the
   method's own 24-byte main-stack frame [S - 24, S) is overwritten ARBITRARILY (mem' agrees with
   the memory outside the frame), the continued run - the rest of the body, all further callees,
   the epilogue - takes exactly as many steps as the untampered continuation and returns to the
   same address, the one saved on the SHADOW stack; t3, sp and ra are restored. *)
Definition rtamper_concl (m : method) (s : mstate) : Prop :=
  let S := rget s 2 in let P := rget s 28 in
  exists idx, Forall2 (site_ok c ms m) idx (m_callees m) /\
  forall p : nat, (p <= Z.to_nat (m_body m))%nat ->
    (forall i, In i idx -> p <> (Z.to_nat i - 4 + 1)%nat) ->
    exists k sk, run v L k s = (Next sk, k) /\ pc sk = m_addr m + 4 * (4 + Z.of_nat p) /\
      forall mem', (forall a, a < S - 24 \/ S <= a -> mget mem' a = mget (mem sk) a) ->
        0 <= load_bytes mem' (S - 24) 8 < W64 ->
        exists n s1 s2, run v L n sk = (Next s1, n) /\ run v L n (set_mem sk mem') = (Next s2, n) /\
          pc s1 = (u64 (rget s 1 + 0) / 2) * 2 /\ pc s2 = pc s1 /\
          rget s2 28 = P /\ rget s2 2 = S /\ rget s2 1 = rget s 1.

Section CallCase.
Variable f : nat.
Variable id : nat.
Variable m : method.
Hypothesis Hid : nth_error ms id = Some m.
Hypothesis Hnl : m_is_leaf m = false.
Hypothesis IHc : forall cal cm, In cal (m_callees m) -> nth_error ms cal = Some cm ->
  rcontract (need_method c ms f cal) (ss_need ms f cal) (steps_method ms f cal) cm.

Let N := need_method c ms (S f) id.
Let SSN := ss_need ms (S f) id.

Lemma N_eq : N = 24 + fold_right (fun cal a => Z.max (need_method c ms f cal) a) 0 (m_callees m).
Proof. unfold N. cbn [need_method]. rewrite Hid, (rframe_any m). reflexivity. Qed.

Lemma SSN_eq : SSN = 8 + fold_right (fun cal a => Z.max (ss_need ms f cal) a) 0 (m_callees m).
Proof. unfold SSN. cbn [ss_need]. rewrite Hid, Hnl. reflexivity. Qed.

Lemma rcall_both : forall s, rcode_loaded s -> pc s = m_addr m -> env_ok v L dr s ->
    let S := rget s 2 in let P := rget s 28 in
    S mod 8 = 0 -> N <= S < W64 -> stk_lo L <= S - N -> S <= stk_hi L ->
    P mod 8 = 0 -> SSN <= P < W64 -> ss_lo L <= P - SSN -> P <= ss_hi L ->
    0 <= rget s 8 < W64 -> 0 <= rget s 1 < W64 ->
    (exists s', run v L (steps_method ms (Datatypes.S f) id) s = (Next s', steps_method ms (Datatypes.S f) id) /\ pc s' = (u64 (rget s 1 + 0) / 2) * 2 /\
      (forall r, 0 <= r -> wr c r = false -> rget s' r = rget s r) /\
      rmem_frame s s' (S - N) S (P - SSN) P /\ dom s' = dom s /\ cfi s' = cfi s /\ env_ok v L dr s') /\
    rtamper_concl m s.
Proof.
  intros s Hcode Hpc He S P HSal HSr HSlo HShi HPal HPr HPlo HPhi Hs0 Hra.
  assert (Hm : In m ms) by (eapply nth_error_In; exact Hid).
  destruct rwr_facts as (W1 & W2 & W8 & Wd & D1 & D2 & D8 & D0 & W28 & D28).
  destruct Hsucc as [Hc Hr]. destruct (cfg_ok_facts c Hc) as [F R].
  pose proof (placement_layout_ok c L Hc (rp_data HP)) as LO.
  pose proof (rp_regions HP) as RO. destruct (rp_stack HP) as [Hsc Hsp0].
  pose proof (pl_stack c L (rp_data HP)) as Hsd. pose proof (pl_fit c L (rp_data HP)) as Hdf.
  pose proof (pl_pos c L (rp_data HP)) as Hd0.
  pose proof N_eq as HN. pose proof (fold_max_nonneg c (need_method c ms f) (m_callees m)) as Hmx.
  pose proof SSN_eq as HSN. pose proof (fold_max_nonneg c (ss_need ms f) (m_callees m)) as Hsmx.
  pose proof (rp_ss_pos HP) as Hss0. pose proof (rp_ss_stk HP) as Hsst. pose proof (rp_ss_data HP) as Hssd.
  pose proof (ro_ss L RO) as Hssc.
  (* structure *)
  pose proof rimg_struct as HS. rewrite Forall_forall in HS.
  destruct (HS m Hm) as (pro & body & epi & body0 & idx & Ei & Hpro & Hepi & Hdec & Hl0 & Hlb & Hsites & Hdis & Hunc).
  rewrite Hnl in Hpro, Hepi. cbn [negb] in Hpro, Hepi.
  destruct (rimi_call_frames_eq c Hrimi) as (p' & e' & Hp' & He' & Dp & De).
  rewrite Hpro in Hp'. rewrite Hepi in He'. inversion Hp'; inversion He'; subst p' e'. clear Hp' He'.
  assert (Lpro : List.length pro = 4%nat) by (apply decode_all_Forall2 in Dp; rewrite (Forall2_len' _ _ _ Dp); reflexivity).
  assert (Lepi : List.length epi = 5%nat) by (apply decode_all_Forall2 in De; rewrite (Forall2_len' _ _ _ De); reflexivity).
  destruct (rimg_mok2 m Hm) as (Sh & Len & Hb0).
  assert (Ecs : m_call_size m = 3).
  { rewrite (sh_cs c m Sh). destruct Hrimi as [E|E]; rewrite E; reflexivity. }
  assert (Epro : m_pro m = 4).
  { rewrite (sh_pro c m Sh), Hnl. destruct Hrimi as [E|E]; rewrite E; reflexivity. }
  assert (Lbody : Z.of_nat (List.length body) = m_body m) by (rewrite Hlb, Hl0; apply Z2Nat.id; exact Hb0).
  destruct (rimg_placed m Hm) as (Hal & Hlo & Hhi & Hh & Hjit).
  set (A := m_addr m) in *.
  set (nb := List.length body).
  assert (Hlen : zlen (m_instrs m) = 4 + Z.of_nat nb + 5).
  { unfold zlen. rewrite Ei, !app_length, Lpro, Lepi. unfold nb. lia. }
  pose proof (ro_code L RO) as Hc0. pose proof (rp_code64 HP) as Hc64.
  unfold rcode_loaded in Hcode. pose proof Hcode as Hcode_all. rewrite Forall_forall in Hcode. pose proof (Hcode m Hm) as Hcm.
  set (ws := map generate (m_instrs m)) in *.
  assert (Ews : ws = map generate pro ++ map generate body ++ map generate epi) by (unfold ws; rewrite Ei, !map_app; reflexivity).
  (* ---------- prologue ---------- *)
  destruct (rimi_call_pro_exec v L Hsc Hssc s A Hpc HSal ltac:(fold S; lia) ltac:(fold S; lia) HShi HPal ltac:(fold P; lia) ltac:(fold P; lia) HPhi)
    as (s2 & E2 & P2 & Sp2 & Pp2 & R2 & M2 & Dm2 & C2).
  fold S in M2. fold P in M2.
  assert (Run1 : run v L 4 s = (Next s2, 4%nat)).
  { change 4%nat with (List.length rimi_call_pro).
    apply (run_block v L rimi_call_pro (map generate pro) A s s2 RO); try assumption.
    - unfold v. rewrite (rimi_ext c Hrimi). apply Forall2_map_generate. apply decode_all_Forall2. exact Dp.
    - reflexivity.
    - rewrite Ews in Hcm. intros j w Hj. apply Hcm. apply nth_error_app_l. exact Hj.
    - rewrite map_length, Lpro. lia.
    - rewrite map_length, Lpro. lia.
    - apply rside; [exact He|lia]. }
  (* ---------- the invariant of the body walk ---------- *)
  set (InvX := fun (X : Z) (s' : mstate) =>
     rcode_loaded s' /\ env_ok v L dr s' /\ (rget s' 2 = S - 24 /\ rget s' 28 = P - 8) /\
     (forall r, 0 <= r -> wr c r = false -> r <> 1 -> r <> 2 -> r <> 28 -> rget s' r = rget s r) /\
     load_bytes (mem s') (S - 24) 8 = X /\ load_bytes (mem s') (P - 8) 8 = rget s 1 /\
     rmem_frame s s' (S - N) S (P - SSN) P /\ dom s' = dom s /\ cfi s' = cfi s).
  set (Inv := InvX (rget s 8)).
  assert (Mf2 : rmem_frame s s2 (S - N) S (P - SSN) P).
  { intros a Ha Hdta Hrg Hsg. rewrite M2. rewrite !mget_store_other by lia. reflexivity. }
  assert (I2 : Inv s2).
  { unfold Inv, InvX. split.
    { apply (rcode_loaded_same s s2); [|exact Hcode_all]. eapply rframe_same_code; [exact Mf2|lia|lia|lia|lia]. }
    split.
    { destruct He as [E1 E2']. constructor; [rewrite R2 by lia; exact E1|rewrite Dm2; exact E2']. }
    split; [split; [exact Sp2|exact Pp2]|]. split; [intros r Hr0 _ _ Hn2 Hn28; apply R2; assumption|].
    split.
    { rewrite M2. rewrite load_store_other by lia. rewrite load_store_same by lia.
      change (2 ^ (8 * Z.of_nat 8)) with W64. apply Z.mod_small. exact Hs0. }
    split.
    { rewrite M2. rewrite load_store_same by lia. change (2 ^ (8 * Z.of_nat 8)) with W64. apply Z.mod_small. exact Hra. }
    split; [exact Mf2|]. split; assumption. }
  (* ---------- the body walk ---------- *)
  set (addr := fun j : nat => A + 4 * (4 + Z.of_nat j)).
  set (sites := map (fun i => (Z.to_nat i - 4)%nat) idx).
  set (sc := map (fun x : Z * nat => ((Z.to_nat (fst x) - 4)%nat, (2 + steps_method ms f (snd x))%nat)) (combine idx (m_callees m))).
  assert (Hlenic : List.length idx = List.length (m_callees m)) by (apply (Forall2_len' _ _ _ Hsites)).
  assert (Esites : map fst sc = sites).
  { unfold sc, sites. rewrite map_map. cbn [fst].
    rewrite <- (map_fst_combine idx (m_callees m) Hlenic) at 2. rewrite map_map. reflexivity. }
  assert (Hidx : forall i, In i idx -> 4 <= i /\ i + 3 <= 4 + Z.of_nat nb).
  { intros i Hi. destruct (Forall2_In_l _ _ _ i Hsites Hi) as (cal & _ & (cm & stub & _ & _ & _ & B1 & B2)).
    rewrite Epro, Ecs in *. unfold nb. lia. }
  assert (Hsite_in : forall j, In j sites -> exists i, In i idx /\ Z.of_nat j = i - 4).
  { intros j Hj. unfold sites in Hj. apply in_map_iff in Hj. destruct Hj as (i & <- & Hi).
    exists i. split; [exact Hi|]. specialize (Hidx i Hi). lia. }
  assert (Hapart : forall i j, In i sites -> In j sites -> i <> j -> (i + 3 <= j \/ j + 3 <= i)%nat).
  { intros i j Hi Hj Hne. destruct (Hsite_in i Hi) as (zi & Hzi & Ei'). destruct (Hsite_in j Hj) as (zj & Hzj & Ej').
    unfold disjoint_slots in Hdis. rewrite Ecs in Hdis.
    destruct (ForallOrdPairs_In Hdis zi zj Hzi Hzj) as [E|[H|H]]; [lia|lia|lia]. }
  assert (Hfit : forall i, In i sites -> (i + 2 <= nb)%nat).
  { intros i Hi. destruct (Hsite_in i Hi) as (zi & Hzi & Ei'). specialize (Hidx zi Hzi). lia. }
  assert (Hnd : NoDup sites).
  { unfold sites. apply NoDup_map_sub4; [|intros i Hi; apply (Hidx i Hi)].
    unfold disjoint_slots in Hdis. rewrite Ecs in Hdis. apply (slots_NoDup 3); [lia|exact Hdis]. }
  assert (Hplain_step : forall X j s', (j < nb)%nat -> is_site sites j = false -> second sites j = false ->
            InvX X s' -> pc s' = addr j ->
            exists s1, run v L 1 s' = (Next s1, 1%nat) /\ pc s1 = addr (j + 1)%nat /\ InvX X s1).
  { intros X j s' Hj Hns Hnsec (I1 & I2' & (I3 & I3p) & I4 & I5 & I6 & I7 & I8 & I9) Hpcj.
    (* the position is not covered by a stub *)
    assert (Hnc : ~ covered idx (List.length pro + j)).
    { intros (i & Hi & Hc'). specialize (Hidx i Hi). rewrite Lpro in Hc'.
      assert (Hin : In (Z.to_nat i - 4)%nat sites) by (unfold sites; apply in_map_iff; exists i; auto).
      destruct (Nat.eq_dec j (Z.to_nat i - 4)) as [->|Hne].
      - rewrite (In_is_site sites _ Hin) in Hns. discriminate.
      - assert (j = (Z.to_nat i - 4 + 1)%nat) by lia. subst j.
        assert (second sites (Z.to_nat i - 4 + 1) = true).
        { unfold second. apply existsb_exists. exists (Z.to_nat i - 4)%nat. split; [exact Hin|apply Nat.eqb_refl]. }
        congruence. }
    assert (Hjb : (j < List.length body)%nat) by exact Hj.
    pose proof (Hunc j Hjb Hnc) as Hnth.
    destruct (nth_error body0 j) as [g|] eqn:Eg; [|exfalso; apply nth_error_None in Eg; lia].
    rewrite Forall_forall in Hdec. destruct (Hdec g (nth_error_In _ _ Eg)) as (i & Hdi & Hbi).
    (* one machine step *)
    destruct (step_body v L dr (dsz c) (wr c) LO s' i I2' ltac:(rewrite Hpcj; unfold addr; lia)
                ltac:(rewrite Hpcj; unfold addr; lia) Hbi) as (s1 & Ex & Pc1 & Fr & He1).
    assert (Hcj : code_at (mem s') (addr j) [generate g]).
    { pose proof I1 as I1'. unfold rcode_loaded in I1'. rewrite Forall_forall in I1'. pose proof (I1' m Hm) as Hcm'. fold A in Hcm'. fold ws in Hcm'.
      intros k w Hk. destruct k as [|k]; [|destruct k; discriminate]. cbn in Hk. inversion Hk; subst w.
      replace (addr j + 4 * Z.of_nat 0) with (A + 4 * Z.of_nat (4 + j)%nat) by (unfold addr; lia).
      apply Hcm'. rewrite Ews. rewrite nth_error_app2 by (rewrite map_length; lia).
      rewrite map_length, Lpro. replace (4 + j - 4)%nat with j by lia.
      rewrite nth_error_app1 by (rewrite map_length; exact Hjb).
      rewrite nth_error_map, Hnth. reflexivity. }
    exists s1. split; [|split].
    - change 1%nat with (List.length [i]).
      apply (run_block v L [i] [generate g] (addr j) s' s1 RO).
      + constructor; [|constructor]. unfold v. exact Hdi.
      + cbn. rewrite (body_instr_no_domsw _ _ _ _ _ Hbi). reflexivity.
      + exact Hcj.
      + unfold addr. clear - Hal. Z.div_mod_to_equations; lia.
      + unfold addr. lia.
      + unfold addr. cbn [List.length]. lia.
      + unfold addr. cbn [List.length]. destruct Hh; [left; lia|right; lia].
      + apply rside; [exact I2'|unfold addr; lia].
      + cbn [exec_at]. rewrite Hpcj, Z.eqb_refl, Ex. reflexivity.
    - rewrite Pc1, Hpcj. unfold addr. lia.
    - destruct Fr as (Rf & Mf & Df & Cf). unfold InvX.
      assert (Mf' : rmem_frame s' s1 (S - N) S (P - SSN) P) by (intros a Ha Hd' _ _; apply Mf; assumption).
      split; [apply (rcode_loaded_same s' s1); [|exact I1]; eapply rframe_same_code; [exact Mf'|lia|lia|lia|lia]|].
      split; [exact He1|]. split; [split; [rewrite Rf by (lia || assumption); exact I3|rewrite Rf by (lia || assumption); exact I3p]|].
      split; [intros r Hr0 Hw N1' N2' N28'; rewrite Rf by assumption; apply I4; assumption|].
      split; [rewrite (load_bytes_ext 8 (mem s1) (mem s')); [exact I5|]; intros b Hb; apply Mf; lia|].
      split; [rewrite (load_bytes_ext 8 (mem s1) (mem s')); [exact I6|]; intros b Hb; apply Mf; lia|].
      split; [eapply rmem_frame_trans; [exact I7|exact Mf'|lia|lia|lia|lia]|]. split; congruence. }
  assert (Hsite_step : forall X j k s', In (j, k) sc -> InvX X s' -> pc s' = addr j ->
            exists s1, run v L k s' = (Next s1, k) /\ pc s1 = addr (j + 2)%nat /\ InvX X s1).
  { intros X j k s' Hjk (I1 & I2' & (I3 & I3p) & I4 & I5 & I6 & I7 & I8 & I9) Hpcj.
    unfold sc in Hjk. apply in_map_iff in Hjk. destruct Hjk as ([i cal] & Ejk & Hic). cbn [fst snd] in Ejk.
    inversion Ejk as [[Ej Ek]]. clear Ejk.
    assert (Hi : In i idx) by (eapply in_combine_l; exact Hic).
    assert (Hcal : In cal (m_callees m)) by (eapply in_combine_r; exact Hic).
    pose proof (Forall2_combine_In _ _ _ _ _ Hsites Hic) as Hso.
    pose proof (Hidx i Hi) as Hib.
    assert (Eji : Z.of_nat j = i - 4) by lia.
    (* the call edge *)
    pose proof (call_sites_run c script img (conj Hc Hr) (rimi_non_fixer c Hrimi)) as HE.
    rewrite Forall_forall in HE. destruct (HE m Hm i cal Hso) as (cm & Hcm' & Hedge). fold ms in Hcm'.
    assert (Hcmin : In cm ms) by (eapply nth_error_In; exact Hcm').
    destruct (rimg_placed cm Hcmin) as (Hal' & Hlo' & Hhi' & Hh' & Hjit').
    pose proof I1 as I1'. unfold rcode_loaded in I1'. rewrite Forall_forall in I1'.
    assert (EA : addr j = A + i * 4) by (unfold addr; lia).
    pose proof (rp_small HP) as Hsmall.
    destruct (Hedge L s' RO ltac:(lia) (I1' m Hm)) as (s1 & R1 & Pc1 & Ra1 & M1 & D1' & C1 & Rg1);
      fold A; rewrite <- ?EA; try assumption.
    { unfold addr. clear - Hal. Z.div_mod_to_equations; lia. }
    { unfold addr. lia. }
    { unfold addr. lia. }
    { unfold addr. destruct Hh; [left; lia|right; lia]. }
    { apply rside; [exact I2'|unfold addr; lia]. }
    { unfold in_pair_range, addr. pose proof (zlen_nonneg (m_instrs cm)). lia. }
    { Z.div_mod_to_equations; lia. }
    { pose proof (zlen_nonneg (m_instrs cm)). lia. }
    { unfold addr. lia. }
    { unfold addr. lia. }
    (* the callee *)
    pose proof (IHc cal cm Hcal Hcm') as Hcon.
    pose proof (fold_max_ge c (need_method c ms f) (m_callees m) cal Hcal) as Hge.
    assert (Hneed0 : 0 <= need_method c ms f cal).
    { destruct f as [|f']; cbn [need_method]; [lia|]. rewrite Hcm'.
      pose proof (fold_max_nonneg c (need_method c ms f') (m_callees cm)).
      assert (0 <= frame_of c cm); [|lia].
      unfold frame_of. destruct (m_is_leaf cm); [vm_compute; discriminate|].
      destruct Hrimi as [E|E]; rewrite E; vm_compute; discriminate. }
    pose proof (fold_max_ge c (ss_need ms f) (m_callees m) cal Hcal) as Hsge.
    assert (Hsneed0 : 0 <= ss_need ms f cal).
    { destruct f as [|f']; cbn [ss_need]; [lia|]. rewrite Hcm'.
      pose proof (fold_max_nonneg c (ss_need ms f') (m_callees cm)). destruct (m_is_leaf cm); lia. }
    assert (I1s : rcode_loaded s1).
    { apply (rcode_loaded_same s' s1); [|exact I1]. intros a _. rewrite M1. reflexivity. }
    assert (Hsp1 : rget s1 2 = S - 24) by (rewrite Rg1 by lia; exact I3).
    assert (Hpp1 : rget s1 28 = P - 8) by (rewrite Rg1 by lia; exact I3p).
    destruct (Hcon s1 I1s Pc1) as (s3 & R3 & Pc3 & Rg3 & Mf3 & D3 & C3 & He3).
    { destruct I2' as [X1 X2]. constructor; [rewrite Rg1 by lia; exact X1|rewrite D1'; exact X2]. }
    { rewrite Hsp1. clear - HSal. Z.div_mod_to_equations; lia. }
    { rewrite Hsp1. lia. }
    { rewrite Hsp1. lia. }
    { rewrite Hsp1. lia. }
    { rewrite Hpp1. clear - HPal. Z.div_mod_to_equations; lia. }
    { rewrite Hpp1. lia. }
    { rewrite Hpp1. lia. }
    { rewrite Hpp1. lia. }
    { rewrite Rg1 by lia. rewrite I4 by (lia || assumption). exact Hs0. }
    { rewrite Ra1. unfold addr. lia. }
    exists s3. split; [|split].
    - change (run v L (2 + steps_method ms f cal) s' = (Next s3, (2 + steps_method ms f cal)%nat)).
      rewrite (run_app v L 2 (steps_method ms f cal) s' s1 R1). rewrite R3. reflexivity.
    - rewrite Pc3, Ra1. rewrite Z.add_0_r. rewrite u64_small by (unfold addr; lia).
      unfold addr. rewrite Nat2Z.inj_add. clear - Hal Eji Hib. Z.div_mod_to_equations; lia.
    - rewrite Hsp1, Hpp1 in Mf3. unfold InvX.
      assert (Mf' : rmem_frame s' s3 (S - N) S (P - SSN) P).
      { intros a Ha Hd' Hrg Hsg. rewrite Mf3; [rewrite M1; reflexivity|exact Ha|exact Hd'| |]; clear - Hrg Hsg HN HSN Hmx Hsmx Hge Hsge Hneed0 Hsneed0; lia. }
      split; [apply (rcode_loaded_same s' s3); [|exact I1]; eapply rframe_same_code; [exact Mf'|lia|lia|lia|lia]|].
      split; [exact He3|]. split; [split; [rewrite Rg3 by (lia || assumption); exact Hsp1|rewrite Rg3 by (lia || assumption); exact Hpp1]|].
      split.
      { intros r Hr0 Hw N1' N2' N28'. rewrite Rg3 by assumption. rewrite Rg1 by assumption. apply I4; assumption. }
      split.
      { rewrite (load_bytes_ext 8 (mem s3) (mem s')); [exact I5|]. intros b Hb. change (Z.of_nat 8) with 8 in Hb.
        rewrite Mf3; [rewrite M1; reflexivity| | | |]; clear - Hb Hsd Hdf HSr HSlo HShi HPr HPlo HPhi Hsst Hssd Hss0 Hsp0 HN HSN Hmx Hsmx Hge Hsge Hneed0 Hsneed0; lia. }
      split.
      { rewrite (load_bytes_ext 8 (mem s3) (mem s')); [exact I6|]. intros b Hb. change (Z.of_nat 8) with 8 in Hb.
        rewrite Mf3; [rewrite M1; reflexivity| | | |]; clear - Hb Hsd Hdf HSr HSlo HShi HPr HPlo HPhi Hsst Hssd Hss0 Hsp0 HN HSN Hmx Hsmx Hge Hsge Hneed0 Hsneed0; lia. }
      split; [eapply rmem_frame_trans; [exact I7|exact Mf'|lia|lia|lia|lia]|]. split; congruence. }
  (* walk the body *)
  rewrite <- Esites in Hnd, Hapart, Hfit, Hplain_step.
  assert (Tamper : rtamper_concl m s).
  { unfold rtamper_concl. exists idx. split; [exact Hsites|]. fold S. fold P. intros p Hp Hnin.
    assert (Hpnb : (p <= nb)%nat) by (unfold nb; rewrite Hlb, Hl0; exact Hp).
    assert (Hsecp : second (map fst sc) p = false).
    { unfold second. destruct (existsb (fun i => Nat.eqb p (i + 1)) (map fst sc)) eqn:E; [|reflexivity].
      apply existsb_exists in E. destruct E as (j & Hj & E). apply Nat.eqb_eq in E. rewrite Esites in Hj.
      destruct (Hsite_in j Hj) as (zi & Hzi & Ezi). exfalso. apply (Hnin zi Hzi). specialize (Hidx zi Hzi). lia. }
    assert (Hinp : inside 2 sc p = false) by (rewrite inside2_second; exact Hsecp).
    assert (Hplain2 : forall X j s', (j < nb)%nat -> is_site (map fst sc) j = false -> inside 2 sc j = false ->
              InvX X s' -> pc s' = addr j ->
              exists s1, run v L 1 s' = (Next s1, 1%nat) /\ pc s1 = addr (j + 1)%nat /\ InvX X s1).
    { intros X j s' Hj Hns Hni. rewrite inside2_second in Hni. apply Hplain_step; assumption. }
    assert (Hapart2 : forall i j, In i (map fst sc) -> In j (map fst sc) -> i <> j -> (i + 2 + 1 <= j \/ j + 2 + 1 <= i)%nat).
    { intros i j Hi Hj Hne. destruct (Hapart i j Hi Hj Hne); lia. }
    destruct (walk_reach_k v L Inv addr 2 sc nb ltac:(lia) Hapart2 (Hplain2 (rget s 8)) (Hsite_step (rget s 8)) p s2 Hpnb Hinp I2)
      as (sk & k & Rk & Pk & Ik).
    { rewrite P2. unfold addr. lia. }
    exists (4 + k)%nat, sk. split; [rewrite (run_app v L 4 k s s2 Run1), Rk; reflexivity|].
    split; [rewrite Pk; unfold addr; reflexivity|].
    pose proof Ik as (K1 & K2 & (K3 & K3p) & K4 & K5 & K6 & K7 & K8 & K9).
    intros mem' Hmem' HX.
    set (X := load_bytes mem' (S - 24) 8) in *.
    set (sk' := set_mem sk mem').
    assert (Mfk : rmem_frame sk sk' (S - N) S (P - SSN) P).
    { intros a Ha Hdta Hrg Hsg. unfold sk'. cbn [set_mem mem]. apply Hmem'. clear - Hrg HN Hmx. lia. }
    assert (Ik' : InvX X sk').
    { unfold InvX. split.
      { apply (rcode_loaded_same sk sk'); [|exact K1]. eapply rframe_same_code; [exact Mfk|lia|lia|lia|lia]. }
      split; [destruct K2 as [Ke1 Ke2]; constructor; [exact Ke1|exact Ke2]|].
      split; [split; [exact K3|exact K3p]|]. split; [exact K4|].
      split; [reflexivity|].
      split.
      { unfold sk'. cbn [set_mem mem]. rewrite (load_bytes_ext 8 mem' (mem sk)); [exact K6|].
        intros b Hb. apply Hmem'. change (Z.of_nat 8) with 8 in Hb. lia. }
      split; [eapply rmem_frame_trans; [exact K7|exact Mfk|lia|lia|lia|lia]|]. split; [exact K8|exact K9]. }
    (* the two continuations *)
    destruct (walk_cnt v L Inv addr sc nb Hnd Hapart Hfit (Hplain_step (rget s 8)) (Hsite_step (rget s 8)) (nb - p)%nat p sk)
      as (s4 & n1 & R4 & P4 & I4' & Hn1).
    { lia. } { exact Hsecp. } { exact Ik. } { exact Pk. }
    destruct (walk_cnt v L (InvX X) addr sc nb Hnd Hapart Hfit (Hplain_step X) (Hsite_step X) (nb - p)%nat p sk')
      as (t4 & n2 & T4 & Q4 & U4' & Hn2).
    { lia. } { exact Hsecp. } { exact Ik'. } { exact Pk. }
    assert (En : n2 = n1) by (clear - Hn1 Hn2; lia). subst n2.
    assert (Hepi_run : forall Y u4, InvX Y u4 -> pc u4 = addr nb -> 0 <= Y < W64 ->
              exists u5, run v L 5 u4 = (Next u5, 5%nat) /\ pc u5 = (u64 (rget s 1 + 0) / 2) * 2 /\
                         rget u5 2 = S /\ rget u5 28 = P /\ rget u5 1 = rget s 1).
    { intros Y u4 (J1 & J2 & (J3 & J3p) & J4 & J5 & J6 & J7 & J8 & J9) Pu HY.
      destruct (rimi_call_epi_exec v L Hsc Hssc u4 (addr nb) S P Y (rget s 1) Pu J3 J3p HSal ltac:(fold S; lia) ltac:(lia) HShi
                  HPal ltac:(fold P; lia) ltac:(lia) HPhi J5 J6 HY Hra)
        as (u5 & E5 & P5 & Sp5 & Pp5 & S05 & Ra5 & R5 & M5 & D5 & C5).
      exists u5. split; [|split; [exact P5|split; [exact Sp5|split; [exact Pp5|exact Ra5]]]].
      change 5%nat with (List.length rimi_call_epi).
      apply (run_block v L rimi_call_epi (map generate epi) (addr nb) u4 u5 RO); try assumption.
      - unfold v. rewrite (rimi_ext c Hrimi). apply Forall2_map_generate. apply decode_all_Forall2. exact De.
      - reflexivity.
      - pose proof J1 as J1'. unfold rcode_loaded in J1'. rewrite Forall_forall in J1'. pose proof (J1' m Hm) as Hcm4.
        fold A in Hcm4. fold ws in Hcm4. rewrite Ews in Hcm4.
        intros k0 w Hk. replace (addr nb + 4 * Z.of_nat k0) with (A + 4 * Z.of_nat (4 + nb + k0)%nat) by (unfold addr; lia).
        apply Hcm4. rewrite nth_error_app2 by (rewrite map_length; lia). rewrite map_length, Lpro.
        rewrite nth_error_app2 by (rewrite map_length; unfold nb; lia). rewrite map_length.
        replace (4 + nb + k0 - 4 - List.length body)%nat with k0 by (unfold nb; clear; lia). exact Hk.
      - unfold addr. clear - Hal. Z.div_mod_to_equations; lia.
      - unfold addr. lia.
      - unfold addr. rewrite map_length, Lepi. lia.
      - unfold addr. rewrite map_length, Lepi. destruct Hh; [left; lia|right; lia].
      - apply rside; [exact J2|unfold addr; lia]. }
    destruct (Hepi_run (rget s 8) s4 I4' P4 Hs0) as (s5 & Ra & Pa & _ & _ & _).
    destruct (Hepi_run X t4 U4' Q4 HX) as (t5 & Rb & Pb & Sb & Ppb & Rab).
    exists (n1 + 5)%nat, s5, t5.
    split; [rewrite (run_app v L n1 5 sk s4 R4), Ra; reflexivity|].
    split; [rewrite (run_app v L n1 5 sk' t4 T4), Rb; reflexivity|].
    split; [exact Pa|]. split; [rewrite Pa, Pb; reflexivity|]. split; [exact Ppb|]. split; [exact Sb|exact Rab]. }
  destruct (walk_cnt v L Inv addr sc nb Hnd Hapart Hfit (Hplain_step (rget s 8)) (Hsite_step (rget s 8)) nb O s2) as (s4 & n & R4 & P4 & I4' & Hn).
  { lia. }
  { unfold second. destruct (existsb _ (map fst sc)) eqn:Ex; [|reflexivity].
    apply existsb_exists in Ex. destruct Ex as (x & _ & Ex). apply Nat.eqb_eq in Ex. lia. }
  { exact I2. }
  { rewrite P2. unfold addr. lia. }
  destruct I4' as (J1 & J2 & (J3 & J3p) & J4 & J5 & J6 & J7 & J8 & J9).
  (* ---------- epilogue ---------- *)
  destruct (rimi_call_epi_exec v L Hsc Hssc s4 (addr nb) S P (rget s 8) (rget s 1) P4 J3 J3p HSal ltac:(fold S; lia) ltac:(lia) HShi
              HPal ltac:(fold P; lia) ltac:(lia) HPhi J5 J6 Hs0 Hra)
    as (s5 & E5 & P5 & Sp5 & Pp5 & S05 & Ra5 & R5 & M5 & D5 & C5).
  assert (Run3 : run v L 5 s4 = (Next s5, 5%nat)).
  { change 5%nat with (List.length rimi_call_epi).
    apply (run_block v L rimi_call_epi (map generate epi) (addr nb) s4 s5 RO); try assumption.
    - unfold v. rewrite (rimi_ext c Hrimi). apply Forall2_map_generate. apply decode_all_Forall2. exact De.
    - reflexivity.
    - pose proof J1 as J1'. unfold rcode_loaded in J1'. rewrite Forall_forall in J1'. pose proof (J1' m Hm) as Hcm4.
      fold A in Hcm4. fold ws in Hcm4. rewrite Ews in Hcm4.
      intros k w Hk. replace (addr nb + 4 * Z.of_nat k) with (A + 4 * Z.of_nat (4 + nb + k)%nat) by (unfold addr; lia).
      apply Hcm4. rewrite nth_error_app2 by (rewrite map_length; lia). rewrite map_length, Lpro.
      rewrite nth_error_app2 by (rewrite map_length; unfold nb; lia). rewrite map_length.
      replace (4 + nb + k - 4 - List.length body)%nat with k by (unfold nb; clear; lia). exact Hk.
    - unfold addr. clear - Hal. Z.div_mod_to_equations; lia.
    - unfold addr. lia.
    - unfold addr. rewrite map_length, Lepi. lia.
    - unfold addr. rewrite map_length, Lepi. destruct Hh; [left; lia|right; lia].
    - apply rside; [exact J2|unfold addr; lia]. }
  assert (Hcount : steps_method ms (Datatypes.S f) id = (4 + (n + 5))%nat).
  { cbn [steps_method]. rewrite Hid.
    assert (Ws1 : wsum sc 0 = (2 * List.length (m_callees m) + fold_right (fun cal a => (steps_method ms f cal + a)%nat) O (m_callees m))%nat).
    { rewrite wsum_zero_all. unfold sc. rewrite sum_sites. rewrite (map_snd_combine idx (m_callees m) Hlenic).
      rewrite combine_length, Hlenic, Nat.min_id. reflexivity. }
    assert (Ws2 : wsum (map (fun x : nat * nat => (fst x, 1%nat)) sc) 0 = List.length (m_callees m)).
    { rewrite wsum_zero_all. unfold sc. rewrite map_map. rewrite sum_ones.
      rewrite combine_length, Hlenic, Nat.min_id. reflexivity. }
    rewrite Ws1, Ws2 in Hn. unfold zlen in Hlen. lia. }
  split; [|exact Tamper].
  rewrite Hcount.
  exists s5. split; [|split; [exact P5|]].
  { rewrite (run_app v L 4 (n + 5) s s2 Run1). rewrite (run_app v L n 5 s2 s4 R4). rewrite Run3. reflexivity. }
  split.
  { intros r Hr0 Hw. destruct (Z.eq_dec r 1) as [->|N1']; [exact Ra5|].
    destruct (Z.eq_dec r 2) as [->|N2']; [exact Sp5|]. destruct (Z.eq_dec r 8) as [->|N8']; [exact S05|].
    destruct (Z.eq_dec r 28) as [->|N28']; [exact Pp5|].
    rewrite R5 by assumption. apply J4; assumption. }
  split; [intros a Ha Hd' Hrg Hsg; rewrite M5; apply J7; assumption|].
  split; [congruence|]. split; [congruence|].
  destruct J2 as [X1 X2]. constructor; [rewrite R5 by lia; exact X1|rewrite D5; exact X2].
Qed.

Lemma rcall_case : rcontract N SSN (steps_method ms (S f) id) m.
Proof.
  intros s H1 H2 H3 S0 P0 H4 H5 H6 H7 H8 H9 H10 H11 H12 H13.
  exact (proj1 (rcall_both s H1 H2 H3 H4 H5 H6 H7 H8 H9 H10 H11 H12 H13)).
Qed.

Lemma rcall_tamper : forall s, rcode_loaded s -> pc s = m_addr m -> env_ok v L dr s ->
    rget s 2 mod 8 = 0 -> N <= rget s 2 < W64 -> stk_lo L <= rget s 2 - N -> rget s 2 <= stk_hi L ->
    rget s 28 mod 8 = 0 -> SSN <= rget s 28 < W64 -> ss_lo L <= rget s 28 - SSN -> rget s 28 <= ss_hi L ->
    0 <= rget s 8 < W64 -> 0 <= rget s 1 < W64 -> rtamper_concl m s.
Proof.
  intros s H1 H2 H3 H4 H5 H6 H7 H8 H9 H10 H11 H12 H13.
  exact (proj2 (rcall_both s H1 H2 H3 H4 H5 H6 H7 H8 H9 H10 H11 H12 H13)).
Qed.
End CallCase.

(* ---- every method, by induction on the call depth ---- *)
Theorem rmethod_contract_all : forall f id m,
  nth_error ms id = Some m -> (Z.to_nat (m_depth m) < f)%nat ->
  rcontract (need_method c ms f id) (ss_need ms f id) (steps_method ms f id) m.
Proof.
  induction f as [|f IH]; intros id m Hid Hd; [lia|].
  assert (Hm : In m ms) by (eapply nth_error_In; exact Hid).
  destruct (rimg_mok2 m Hm) as (Sh & _ & _).
  destruct (Z.eq_dec (m_calls m) 0) as [Hc0|Hc0].
  - (* leaf *)
    assert (Hd0 : m_depth m = 0) by (apply (sh_nocall c m Sh); lia).
    assert (Hcal : m_callees m = []).
    { pose proof (iw_done c img rimg_wf) as Dn. rewrite Forall_forall in Dn. specialize (Dn m Hm).
      unfold done in Dn. rewrite Hd0 in Dn. exact Dn. }
    assert (Hleaf : m_is_leaf m = true) by (unfold m_is_leaf; rewrite Hc0; reflexivity).
    cbn [need_method steps_method ss_need]. rewrite Hid, Hcal, (rframe_any m), Hleaf. cbn [fold_right].
    replace (24 + 0) with 24 by lia. replace (0 + 0) with 0 by lia. rewrite Nat.add_0_r. apply rleaf_case; assumption.
  - (* makes calls *)
    assert (Hnl : m_is_leaf m = false) by (unfold m_is_leaf; apply Z.eqb_neq; exact Hc0).
    apply (rcall_case f id m Hid Hnl).
    intros cal cm Hcal Hcm. apply IH; [exact Hcm|].
    pose proof (calls_decrease_depth c script img Hsucc) as CD. rewrite Forall_forall in CD.
    specialize (CD m Hm). rewrite Forall_forall in CD. specialize (CD cal Hcal). fold ms in CD. rewrite Hcm in CD.
    assert (Hcmin : In cm ms) by (eapply nth_error_In; exact Hcm).
    destruct (rimg_mok2 cm Hcmin) as (Shc & _ & _).
    pose proof (sh_depth c cm Shc). pose proof (sh_depth c m Sh). lia.
Qed.

Lemma rdepth_lt_max m : In m ms -> 0 <= m_depth m -> (Z.to_nat (m_depth m) < max_depth ms)%nat.
Proof.
  intros Hm Hd. unfold max_depth.
  assert (m_depth m <= fold_right (fun m a => Z.max (m_depth m) a) 0 ms).
  { clear Hd. induction ms as [|x tl IH]; [destruct Hm|]. cbn [fold_right]. destruct Hm as [<-|Hm]; [lia|].
    specialize (IH Hm). lia. }
  lia.
Qed.

(* THE THEOREM: every method of a RIMI image satisfies its contract, with the main-stack
   and shadow-stack bounds computed from the call DAG *)
Theorem every_rimi_method_returns : forall id m,
  nth_error ms id = Some m ->
  rcontract (need_method c ms (max_depth ms) id) (ss_need ms (max_depth ms) id) (steps_method ms (max_depth ms) id) m.
Proof.
  intros id m Hid. apply rmethod_contract_all; [exact Hid|].
  assert (Hm : In m ms) by (eapply nth_error_In; exact Hid).
  destruct (rimg_mok2 m Hm) as (Sh & _ & _). apply rdepth_lt_max; [exact Hm|apply (sh_depth c m Sh)].
Qed.

(* THE FRAME-CORRUPTION THEOREM: every call-making method of every RIMI image, at every position of
   its own body that is not the second instruction of a stub: arbitrary corruption of its
   main-stack frame changes neither the length nor the target of the rest of its execution *)
Theorem every_rimi_method_frame_corruption : forall id m,
  nth_error ms id = Some m -> m_is_leaf m = false ->
  forall s, rcode_loaded s -> pc s = m_addr m -> env_ok v L dr s ->
    rget s 2 mod 8 = 0 -> need_method c ms (max_depth ms) id <= rget s 2 < W64 ->
    stk_lo L <= rget s 2 - need_method c ms (max_depth ms) id -> rget s 2 <= stk_hi L ->
    rget s 28 mod 8 = 0 -> ss_need ms (max_depth ms) id <= rget s 28 < W64 ->
    ss_lo L <= rget s 28 - ss_need ms (max_depth ms) id -> rget s 28 <= ss_hi L ->
    0 <= rget s 8 < W64 -> 0 <= rget s 1 < W64 -> rtamper_concl m s.
Proof.
  intros id m Hid Hnl.
  assert (Hm : In m ms) by (eapply nth_error_In; exact Hid).
  destruct (rimg_mok2 m Hm) as (Sh & _ & _).
  assert (Hdm : (Z.to_nat (m_depth m) < max_depth ms)%nat) by (apply rdepth_lt_max; [exact Hm|apply (sh_depth c m Sh)]).
  destruct (max_depth ms) as [|f] eqn:Emd; [lia|].
  apply (rcall_tamper f id m Hid Hnl).
  intros cal cm Hcal Hcm. apply rmethod_contract_all; [exact Hcm|].
  pose proof (calls_decrease_depth c script img Hsucc) as CD. rewrite Forall_forall in CD.
  specialize (CD m Hm). rewrite Forall_forall in CD. specialize (CD cal Hcal). fold ms in CD. rewrite Hcm in CD.
  assert (Hcmin : In cm ms) by (eapply nth_error_In; exact Hcm).
  destruct (rimg_mok2 cm Hcmin) as (Shc & _ & _).
  pose proof (sh_depth c cm Shc). pose proof (sh_depth c m Sh). lia.
Qed.
End MCR.
