(* Types.v — record and instruction-object types shared by the regenerated
   tables (GenTables.v) and the hand-written model of gigue.
   Nothing here is specific to one revision of /repo. *)
From Coq Require Import ZArith List String.
Import ListNotations.
Open Scope Z_scope.

(* One entry of an INSTRUCTIONS_INFO-style dictionary, in dictionary order.
   [ii_key] is the dictionary key, [ii_name] the .name attribute of the info
   object (they differ for aliases).  [ii_x] = Some (xd, xs1, xs2) for
   RoCCCustomInstructionInfo objects. *)
Record iinfo := mk_iinfo {
  ii_key    : string;
  ii_name   : string;
  ii_opcode : Z;
  ii_funct3 : Z;
  ii_funct7 : Z;
  ii_type   : string;
  ii_class  : string;
  ii_mask   : Z;
  ii_val    : Z;
  ii_x      : option (Z * Z * Z);
  ii_alias  : bool
}.

(* gigue's Instruction objects, by layout class, holding the attribute values
   the objects hold *after* __init__ (already passed through format_to & co). *)
Inductive gi :=
| GR (name : string) (opcode funct3 funct7 rd rs1 rs2 : Z)
| GI (name : string) (opcode funct3 funct7 rd rs1 imm : Z)
| GU (name : string) (opcode rd imm : Z)
| GJ (name : string) (opcode rd imm : Z)
| GS (name : string) (opcode funct3 rs1 rs2 imm : Z)
| GB (name : string) (opcode funct3 rs1 rs2 imm : Z).

Definition gi_name (g : gi) : string :=
  match g with
  | GR n _ _ _ _ _ _ | GI n _ _ _ _ _ _ | GU n _ _ _ | GJ n _ _ _
  | GS n _ _ _ _ _ | GB n _ _ _ _ _ => n
  end.

(* A dumped fragment: the instruction objects a builder returned together with
   the 32-bit words their generate() returned. *)
Definition fragment := list (gi * Z).

Fixpoint lookup_info (tbl : list iinfo) (key : string) : option iinfo :=
  match tbl with
  | [] => None
  | e :: tl => if String.eqb (ii_key e) key then Some e else lookup_info tl key
  end.

(* Python dict union  a | b  : keys of a in order, then the keys of b not in a,
   values of b win.  (RIMI_INSTRUCTIONS_INFO | INSTRUCTIONS_INFO) *)
Definition dict_union (a b : list iinfo) : list iinfo :=
  map (fun e => match lookup_info b (ii_key e) with Some e' => e' | None => e end) a
  ++ filter (fun e => match lookup_info a (ii_key e) with Some _ => false | None => true end) b.

(* Per-generator-class attributes probed from an instance. *)
Record genattrs := mk_genattrs {
  ga_name            : string;
  ga_call_size       : Z;
  ga_int_call_size   : Z;
  ga_prologue_offset : Z;
  ga_epilogue_offset : Z;
  ga_call_offset     : Z;
  ga_registers       : list Z;     (* filtered usable registers for the default list *)
  ga_uses_tramp      : bool
}.
