(* MethodContract.v — Layer B, the method contract along the call graph, for
   the plain variants (no isolation, with or without trampolines):
   EVERY method of EVERY image, entered at its first instruction with the image
   loaded in code memory, returns to its caller: the machine - fetching and
   decoding the emitted bytes - executes the method and, recursively, all its
   callees; sp, s0, ra, the data register and every non-usable register are
   restored; memory changes only inside the data image and inside the stack
   window [sp - need, sp) where need is the bound computed from the call DAG. *)
From Coq Require Import ZArith List String Bool Lia.
From Gigue Require Import Types Bits Isa IsaProofs Enc EncProofs GenTables Builder Samplers Generator GenLemmas
  Machine MachineLemmas ImageSem GenWF GenWFProps SliceLemmas GenWF2 GenWF3 GenWF2Props SplitProofs
  BodyExec BodyBridge GenWF5 FrameExec CodeMem SwitchExec GenWF6 GenWF8 GenWF9 Walk CallFrame.
Import ListNotations.
Open Scope list_scope.
Open Scope Z_scope.

Definition plain (c : config) : Prop := c_variant c = GBase \/ c_variant c = GTramp.

Lemma plain_non_fixer c : plain c -> non_fixer (c_variant c).
Proof. intros [H|H]; unfold non_fixer; auto. Qed.

Lemma plain_ext c : plain c -> variant_ext (gv c) = ExtNone.
Proof. intros [H|H]; unfold gv; rewrite H; reflexivity. Qed.

Lemma plain_side c L A n d : plain c -> side_ok (gv c) L A n d.
Proof. intros [H|H]; unfold gv, side_ok; rewrite H; exact I. Qed.

(* the call-making frames of the plain variants *)
Lemma call_frames_eq c :
  plain c ->
  exists pro epi,
    build_prologue (bvariant_of (c_variant c)) m_used_s_regs m_local_vars_nb true = OK pro /\
    build_epilogue (bvariant_of (c_variant c)) m_used_s_regs m_local_vars_nb true = OK epi /\
    decode_all ExtNone pro = Some call_pro /\ decode_all ExtNone epi = Some call_epi.
Proof.
  intros [H|H]; rewrite H; eexists; eexists; (split; [vm_compute; reflexivity|]); (split; [vm_compute; reflexivity|]);
    split; vm_compute; reflexivity.
Qed.

(* the number of machine steps of one activation of a method, from the call DAG
   (fuel = depth + 1 suffices); equals ImageSem.count_method for the non-FIXER variants *)
Fixpoint steps_method (ms : list method) (fuel : nat) (id : nat) : nat :=
  match fuel with
  | O => O
  | S k =>
      match nth_error ms id with
      | None => O
      | Some m => (List.length (m_instrs m) + fold_right (fun cal a => (steps_method ms k cal + a)%nat) O (m_callees m))%nat
      end
  end.

Lemma steps_method_count c ms : non_fixer (c_variant c) ->
  Forall (fun m => zlen (m_instrs m) = m_total m) ms ->
  forall f id, Z.of_nat (steps_method ms f id) = count_method c ms f id.
Proof.
  intros Hnf Hl. induction f as [|f IH]; intros id; cbn [steps_method count_method]; [reflexivity|].
  destruct (nth_error ms id) as [m|] eqn:E; [|reflexivity].
  rewrite Forall_forall in Hl. specialize (Hl m (nth_error_In _ _ E)). unfold zlen in Hl.
  rewrite Nat2Z.inj_add, Hl.
  assert (Hs : fixer_skip c = 0) by (unfold fixer_skip; unfold non_fixer in Hnf; destruct (c_variant c); try reflexivity; destruct Hnf as [X|[X|[X|X]]]; discriminate).
  rewrite Hs.
  assert (Hsum : Z.of_nat (fold_right (fun cal a => (steps_method ms f cal + a)%nat) O (m_callees m)) =
                 fold_right (fun cal a => count_method c ms f cal + a) 0 (m_callees m)).
  { induction (m_callees m) as [|x tl IHl]; cbn [fold_right]; [reflexivity|]. rewrite Nat2Z.inj_add, IH, IHl. reflexivity. }
  rewrite Hsum. lia.
Qed.

Lemma Forall2_combine_In {A B} (R : A -> B -> Prop) la lb a b : Forall2 R la lb -> In (a, b) (combine la lb) -> R a b.
Proof.
  intros F. induction F as [|x y la' lb' Hxy _ IH]; intros Hin; [destruct Hin|].
  cbn [combine] in Hin. destruct Hin as [E|Hin]; [inversion E; subst; exact Hxy|exact (IH Hin)].
Qed.

Lemma map_fst_combine {A B} (la : list A) (lb : list B) : List.length la = List.length lb -> map fst (combine la lb) = la.
Proof.
  revert lb. induction la as [|a la IH]; intros [|b lb] H; cbn in *; try reflexivity; try discriminate.
  rewrite IH by lia. reflexivity.
Qed.

Lemma map_snd_combine {A B} (la : list A) (lb : list B) : List.length la = List.length lb -> map snd (combine la lb) = lb.
Proof.
  revert lb. induction la as [|a la IH]; intros [|b lb] H; cbn in *; try reflexivity; try discriminate.
  rewrite IH by lia. reflexivity.
Qed.

Lemma slots_NoDup cs idx : 0 < cs -> ForallOrdPairs (fun i j => i + cs <= j \/ j + cs <= i) idx -> NoDup idx.
Proof.
  intros Hcs H. induction H as [|x l Hx _ IH]; constructor; [|exact IH].
  intros Hin. rewrite Forall_forall in Hx. specialize (Hx x Hin). lia.
Qed.

Lemma NoDup_map_sub3 idx : NoDup idx -> (forall i, In i idx -> 3 <= i) -> NoDup (map (fun i => (Z.to_nat i - 3)%nat) idx).
Proof.
  intros Hnd. induction Hnd as [|x l Hni _ IH]; intros Hr; cbn [map]; constructor.
  - intros Hin. apply in_map_iff in Hin. destruct Hin as (y & Ey & Hy).
    pose proof (Hr x (or_introl eq_refl)). pose proof (Hr y (or_intror Hy)).
    assert (x = y) by lia. subst y. contradiction.
  - apply IH. intros i Hi. apply Hr. right. exact Hi.
Qed.

Lemma sum_sites {A} (h : A * nat -> nat) (g : nat -> nat) (l : list (A * nat)) :
  fold_right (fun x a => (snd x + a)%nat) O (map (fun x => (h x, (2 + g (snd x))%nat)) l) =
  (2 * List.length l + fold_right (fun cal a => (g cal + a)%nat) O (map snd l))%nat.
Proof. induction l as [|x tl IH]; cbn [map fold_right snd List.length]; [reflexivity|]. rewrite IH. lia. Qed.

Lemma sum_ones {A} (h : A -> nat) (l : list A) :
  fold_right (fun x a => (snd x + a)%nat) O (map (fun x => (h x, 1%nat)) l) = List.length l.
Proof. induction l as [|x tl IH]; cbn [map fold_right snd List.length]; [reflexivity|]. rewrite IH. reflexivity. Qed.

Section MC.
Variable c : config.
Variable script : list draw.
Variable img : image.
Hypothesis Hsucc : successful c script img.
Hypothesis Hplain : plain c.
Variable L : layout.

Let ms := im_methods img.
Let v := gv c.
Let dr := c_data_reg c.

Record placed : Prop := {
  pd_regions : regions_ok L;
  pd_data : placement c L;
  pd_stack : stack_placement L;
  pd_code64 : code_hi L < W64;
  pd_small : code_hi L - code_lo L < 2147483648 - 2048;
  pd_methods : Forall (fun m => m_addr m mod 4 = 0 /\ code_lo L <= m_addr m /\
                               m_addr m + 4 * zlen (m_instrs m) <= code_hi L /\
                               (halt_at L < m_addr m \/ m_addr m + 4 * zlen (m_instrs m) <= halt_at L)) ms
}.
Hypothesis HP : placed.

Definition code_loaded (s : mstate) : Prop :=
  Forall (fun m => code_at (mem s) (m_addr m) (map generate (m_instrs m))) ms.

Definition mem_frame (s s' : mstate) (lo hi : Z) : Prop :=
  forall a, 0 <= a -> (a < data_lo L \/ data_lo L + dsz c <= a) -> (a < lo \/ hi <= a) -> mget (mem s') a = mget (mem s) a.

Lemma mem_frame_refl s lo hi : mem_frame s s lo hi.
Proof. intros a _ _ _. reflexivity. Qed.

Lemma mem_frame_trans s1 s2 s3 lo hi lo' hi' :
  mem_frame s1 s2 lo hi -> mem_frame s2 s3 lo' hi' -> lo <= lo' -> hi' <= hi -> mem_frame s1 s3 lo hi.
Proof.
  intros H1 H2 Hlo Hhi a Ha Hd Hr. rewrite H2 by (try assumption; lia). apply H1; assumption.
Qed.

Lemma mem_frame_widen s s' lo hi lo' hi' : mem_frame s s' lo' hi' -> lo <= lo' -> hi' <= hi -> mem_frame s s' lo hi.
Proof. intros H Hlo Hhi a Ha Hd Hr. apply H; try assumption. lia. Qed.

(* a frame inside the stack region leaves the code image alone *)
Lemma frame_same_code s s' lo hi :
  mem_frame s s' lo hi -> stk_lo L <= lo -> hi <= stk_hi L -> same_code L s s'.
Proof.
  intros H Hlo Hhi a Ha. pose proof (pd_regions HP) as RO. pose proof (ro_code L RO). pose proof (ro_stk L RO).
  pose proof (ro_data L RO). pose proof (pl_fit c L (pd_data HP)).
  apply H; lia.
Qed.

Lemma code_loaded_same s s' : same_code L s s' -> code_loaded s -> code_loaded s'.
Proof.
  intros Hs Hc. unfold code_loaded in *. pose proof (pd_methods HP) as PM.
  rewrite Forall_forall in *. intros m Hm. destruct (PM m Hm) as (_ & Hlo & Hhi & _).
  eapply (code_at_same L (mem s) (mem s')); [exact Hs|exact Hlo| |apply Hc; exact Hm].
  rewrite map_length. unfold zlen in Hhi. exact Hhi.
Qed.

Definition contract (need : Z) (cnt : nat) (m : method) : Prop :=
  forall s, code_loaded s -> pc s = m_addr m -> env_ok v L dr s ->
    let S := rget s 2 in
    S mod 8 = 0 -> need <= S < W64 -> stk_lo L <= S - need -> S <= stk_hi L ->
    0 <= rget s 8 < W64 -> 0 <= rget s 1 < W64 ->
    exists s', run v L cnt s = (Next s', cnt) /\ pc s' = (u64 (rget s 1 + 0) / 2) * 2 /\
      (forall r, 0 <= r -> wr c r = false -> rget s' r = rget s r) /\
      mem_frame s s' (S - need) S /\ dom s' = dom s /\ cfi s' = cfi s /\ env_ok v L dr s'.

(* ---- what the Layer-A theorems say about this image ---- *)
Lemma img_struct : Forall (method_struct c ms) ms.
Proof.
  destruct Hsucc as [Hc Hr]. destruct (cfg_ok_facts c Hc) as [F R]. destruct (cfg_ok_sizes c Hc) as [Hnb Hms].
  exact (run_gen_struct c script img [] (plain_non_fixer c Hplain) F Hms Hnb Hr).
Qed.

Lemma img_wf : image_wf c img.
Proof. exact (proj1 (successful_wf c script img Hsucc)). Qed.

Lemma img_mok2 m : In m ms -> mok2 c m.
Proof.
  intros Hm. destruct (iw_layout c img img_wf) as (e & d & HPo).
  pose proof (p2_methods _ _ _ _ _ _ HPo) as Ms. rewrite Forall_forall in Ms. apply Ms. exact Hm.
Qed.

Lemma img_placed m : In m ms ->
  m_addr m mod 4 = 0 /\ code_lo L <= m_addr m /\ m_addr m + 4 * zlen (m_instrs m) <= code_hi L /\
  (halt_at L < m_addr m \/ m_addr m + 4 * zlen (m_instrs m) <= halt_at L).
Proof. intros Hm. pose proof (pd_methods HP) as PM. rewrite Forall_forall in PM. apply PM. exact Hm. Qed.

Lemma frame_leaf m : m_is_leaf m = true -> frame_of c m = 24.
Proof. intros H. unfold frame_of. rewrite H. reflexivity. Qed.
Lemma frame_call m : m_is_leaf m = false -> frame_of c m = 32.
Proof. intros H. unfold frame_of. rewrite H. destruct Hplain as [E|E]; rewrite E; reflexivity. Qed.

(* ---- leaf methods ---- *)
Lemma leaf_case m : In m ms -> m_depth m = 0 -> m_calls m = 0 -> contract 24 (List.length (m_instrs m)) m.
Proof.
  intros Hm Hd Hcalls s Hcode Hpc He S HSal HSr HSlo HShi Hs0 Hra.
  pose proof (leaf_methods_run c script img Hsucc (plain_non_fixer c Hplain)) as HL.
  rewrite Forall_forall in HL. specialize (HL m Hm Hd Hcalls L s).
  destruct (img_placed m Hm) as (Hal & Hlo & Hhi & Hh).
  unfold code_loaded in Hcode. rewrite Forall_forall in Hcode. specialize (Hcode m Hm).
  cbv zeta in HL. rewrite Hpc in HL.
  destruct HL as (s' & Rn & Pc & Rg & M & D & C & He'); try assumption;
    try (apply (pd_regions HP)); try (apply (pd_data HP)); try (apply (pd_stack HP));
    try (unfold zlen in *; pose proof (pd_code64 HP); lia); try (apply plain_side; exact Hplain); try lia.
  exists s'. split; [exact Rn|]. split; [exact Pc|]. split; [exact Rg|].
  split; [|auto]. intros a Ha Hdta Hr. apply M; try assumption. fold S. lia.
Qed.

(* ---- small facts ---- *)
Lemma Forall2_In_l {A B} (R : A -> B -> Prop) la lb a : Forall2 R la lb -> In a la -> exists b, In b lb /\ R a b.
Proof.
  intros F. induction F as [|x y la' lb' Hxy _ IH]; intros Hin; [destruct Hin|].
  destruct Hin as [<-|Hin]; [exists y; split; [left; reflexivity|exact Hxy]|].
  destruct (IH Hin) as (b & Hb & Hr). exists b. split; [right; exact Hb|exact Hr].
Qed.

Lemma fold_max_ge (g : nat -> Z) l x : In x l -> g x <= fold_right (fun cal a => Z.max (g cal) a) 0 l.
Proof.
  induction l as [|y tl IH]; intros Hin; [destruct Hin|]. cbn [fold_right].
  destruct Hin as [<-|Hin]; [lia|]. specialize (IH Hin). lia.
Qed.

Lemma fold_max_nonneg (g : nat -> Z) l : 0 <= fold_right (fun cal a => Z.max (g cal) a) 0 l.
Proof. induction l as [|y tl IH]; cbn [fold_right]; lia. Qed.

Lemma wr_facts : wr c 1 = false /\ wr c 2 = false /\ wr c 8 = false /\ wr c dr = false /\ dr <> 1 /\ dr <> 2 /\ dr <> 8 /\ 0 < dr.
Proof.
  destruct Hsucc as [Hc _]. destruct (cfg_ok_facts c Hc) as [F R].
  destruct reserved_not_caller_saved as (N1 & N2 & N8).
  destruct (caller_saved_facts _ (cr_data c R)) as (Hr & D1 & D2 & D8).
  pose proof (placement_layout_ok c L Hc (pd_data HP)) as LO. destruct (l_dr _ _ _ _ LO) as [Hd0 Hdw].
  repeat split; try (apply wr_not_caller_saved; assumption); try assumption.
Qed.

(* ---- methods that make calls ---- *)
Section CallCase.
Variable f : nat.
Variable id : nat.
Variable m : method.
Hypothesis Hid : nth_error ms id = Some m.
Hypothesis Hnl : m_is_leaf m = false.
Hypothesis IHc : forall cal cm, In cal (m_callees m) -> nth_error ms cal = Some cm ->
  contract (need_method c ms f cal) (steps_method ms f cal) cm.

Let N := need_method c ms (S f) id.

Lemma N_eq : N = 32 + fold_right (fun cal a => Z.max (need_method c ms f cal) a) 0 (m_callees m).
Proof. unfold N. cbn [need_method]. rewrite Hid, (frame_call m Hnl). reflexivity. Qed.

Lemma call_case : contract N (steps_method ms (S f) id) m.
Proof.
  intros s Hcode Hpc He S HSal HSr HSlo HShi Hs0 Hra.
  assert (Hm : In m ms) by (eapply nth_error_In; exact Hid).
  destruct wr_facts as (W1 & W2 & W8 & Wd & D1 & D2 & D8 & D0).
  destruct Hsucc as [Hc Hr]. destruct (cfg_ok_facts c Hc) as [F R].
  pose proof (placement_layout_ok c L Hc (pd_data HP)) as LO.
  pose proof (pd_regions HP) as RO. destruct (pd_stack HP) as [Hsc Hsp0].
  pose proof (pl_stack c L (pd_data HP)) as Hsd. pose proof (pl_fit c L (pd_data HP)) as Hdf.
  pose proof (pl_pos c L (pd_data HP)) as Hd0.
  pose proof N_eq as HN. pose proof (fold_max_nonneg (need_method c ms f) (m_callees m)) as Hmx.
  (* structure *)
  pose proof img_struct as HS. rewrite Forall_forall in HS.
  destruct (HS m Hm) as (pro & body & epi & body0 & idx & Ei & Hpro & Hepi & Hdec & Hl0 & Hlb & Hsites & Hdis & Hunc).
  rewrite Hnl in Hpro, Hepi. cbn [negb] in Hpro, Hepi.
  destruct (call_frames_eq c Hplain) as (p' & e' & Hp' & He' & Dp & De).
  rewrite Hpro in Hp'. rewrite Hepi in He'. inversion Hp'; inversion He'; subst p' e'. clear Hp' He'.
  assert (Lpro : List.length pro = 3%nat) by (apply decode_all_Forall2 in Dp; rewrite (Forall2_len' _ _ _ Dp); reflexivity).
  assert (Lepi : List.length epi = 4%nat) by (apply decode_all_Forall2 in De; rewrite (Forall2_len' _ _ _ De); reflexivity).
  destruct (img_mok2 m Hm) as (Sh & Len & Hb0).
  assert (Ecs : m_call_size m = 3).
  { rewrite (sh_cs c m Sh). destruct Hplain as [E|E]; rewrite E; reflexivity. }
  assert (Epro : m_pro m = 3).
  { rewrite (sh_pro c m Sh), Hnl. destruct Hplain as [E|E]; rewrite E; reflexivity. }
  assert (Lbody : Z.of_nat (List.length body) = m_body m) by (rewrite Hlb, Hl0; apply Z2Nat.id; exact Hb0).
  destruct (img_placed m Hm) as (Hal & Hlo & Hhi & Hh).
  set (A := m_addr m) in *.
  set (nb := List.length body).
  assert (Hlen : zlen (m_instrs m) = 3 + Z.of_nat nb + 4).
  { unfold zlen. rewrite Ei, !app_length, Lpro, Lepi. unfold nb. lia. }
  pose proof (ro_code L RO) as Hc0. pose proof (pd_code64 HP) as Hc64.
  unfold code_loaded in Hcode. pose proof Hcode as Hcode_all. rewrite Forall_forall in Hcode. pose proof (Hcode m Hm) as Hcm.
  set (ws := map generate (m_instrs m)) in *.
  assert (Ews : ws = map generate pro ++ map generate body ++ map generate epi) by (unfold ws; rewrite Ei, !map_app; reflexivity).
  (* ---------- prologue ---------- *)
  destruct (call_pro_exec v L Hsc s A Hpc HSal ltac:(fold S; lia) ltac:(fold S; lia) HShi)
    as (s2 & E2 & P2 & Sp2 & R2 & M2 & Dm2 & C2).
  assert (Run1 : run v L 3 s = (Next s2, 3%nat)).
  { change 3%nat with (List.length call_pro).
    apply (run_block v L call_pro (map generate pro) A s s2 RO); try assumption.
    - unfold v. rewrite (plain_ext c Hplain). apply Forall2_map_generate. apply decode_all_Forall2. exact Dp.
    - reflexivity.
    - rewrite Ews in Hcm. intros j w Hj. apply Hcm. apply nth_error_app_l. exact Hj.
    - rewrite map_length, Lpro. lia.
    - rewrite map_length, Lpro. lia.
    - apply plain_side. exact Hplain. }
  (* ---------- the invariant of the body walk ---------- *)
  set (Inv := fun s' : mstate =>
     code_loaded s' /\ env_ok v L dr s' /\ rget s' 2 = S - 32 /\
     (forall r, 0 <= r -> wr c r = false -> r <> 1 -> r <> 2 -> rget s' r = rget s r) /\
     load_bytes (mem s') (S - 32) 8 = rget s 8 /\ load_bytes (mem s') (S - 24) 8 = rget s 1 /\
     mem_frame s s' (S - N) S /\ dom s' = dom s /\ cfi s' = cfi s).
  assert (Mf2 : mem_frame s s2 (S - N) S).
  { intros a Ha Hdta Hrg. rewrite M2. rewrite !mget_store_other by lia. reflexivity. }
  assert (I2 : Inv s2).
  { unfold Inv. split.
    { apply (code_loaded_same s s2); [|exact Hcode_all]. eapply frame_same_code; [exact Mf2|lia|lia]. }
    split.
    { destruct He as [E1 E2']. constructor; [rewrite R2 by lia; exact E1|rewrite Dm2; exact E2']. }
    split; [exact Sp2|]. split; [intros r Hr0 _ _ Hn2; apply R2; assumption|].
    split.
    { rewrite M2. rewrite load_store_other by lia. rewrite load_store_same by lia.
      change (2 ^ (8 * Z.of_nat 8)) with W64. apply Z.mod_small. exact Hs0. }
    split.
    { rewrite M2. rewrite load_store_same by lia. change (2 ^ (8 * Z.of_nat 8)) with W64. apply Z.mod_small. exact Hra. }
    split; [exact Mf2|]. split; assumption. }
  (* ---------- the body walk ---------- *)
  set (addr := fun j : nat => A + 4 * (3 + Z.of_nat j)).
  set (sites := map (fun i => (Z.to_nat i - 3)%nat) idx).
  set (sc := map (fun x : Z * nat => ((Z.to_nat (fst x) - 3)%nat, (2 + steps_method ms f (snd x))%nat)) (combine idx (m_callees m))).
  assert (Hlenic : List.length idx = List.length (m_callees m)) by (apply (Forall2_len' _ _ _ Hsites)).
  assert (Esites : map fst sc = sites).
  { unfold sc, sites. rewrite map_map. cbn [fst].
    rewrite <- (map_fst_combine idx (m_callees m) Hlenic) at 2. rewrite map_map. reflexivity. }
  assert (Hidx : forall i, In i idx -> 3 <= i /\ i + 3 <= 3 + Z.of_nat nb).
  { intros i Hi. destruct (Forall2_In_l _ _ _ i Hsites Hi) as (cal & _ & (cm & stub & _ & _ & _ & B1 & B2)).
    rewrite Epro, Ecs in *. unfold nb. lia. }
  assert (Hsite_in : forall j, In j sites -> exists i, In i idx /\ Z.of_nat j = i - 3).
  { intros j Hj. unfold sites in Hj. apply in_map_iff in Hj. destruct Hj as (i & <- & Hi).
    exists i. split; [exact Hi|]. specialize (Hidx i Hi). lia. }
  assert (Hapart : forall i j, In i sites -> In j sites -> i <> j -> (i + 3 <= j \/ j + 3 <= i)%nat).
  { intros i j Hi Hj Hne. destruct (Hsite_in i Hi) as (zi & Hzi & Ei'). destruct (Hsite_in j Hj) as (zj & Hzj & Ej').
    unfold disjoint_slots in Hdis. rewrite Ecs in Hdis.
    destruct (ForallOrdPairs_In Hdis zi zj Hzi Hzj) as [E|[H|H]]; [lia|lia|lia]. }
  assert (Hfit : forall i, In i sites -> (i + 2 <= nb)%nat).
  { intros i Hi. destruct (Hsite_in i Hi) as (zi & Hzi & Ei'). specialize (Hidx zi Hzi). lia. }
  assert (Hnd : NoDup sites).
  { unfold sites. apply NoDup_map_sub3; [|intros i Hi; apply (Hidx i Hi)].
    unfold disjoint_slots in Hdis. rewrite Ecs in Hdis. apply (slots_NoDup 3); [lia|exact Hdis]. }
  assert (Hplain_step : forall j s', (j < nb)%nat -> is_site sites j = false -> second sites j = false ->
            Inv s' -> pc s' = addr j ->
            exists s1, run v L 1 s' = (Next s1, 1%nat) /\ pc s1 = addr (j + 1)%nat /\ Inv s1).
  { intros j s' Hj Hns Hnsec (I1 & I2' & I3 & I4 & I5 & I6 & I7 & I8 & I9) Hpcj.
    (* the position is not covered by a stub *)
    assert (Hnc : ~ covered idx (List.length pro + j)).
    { intros (i & Hi & Hc'). specialize (Hidx i Hi). rewrite Lpro in Hc'.
      assert (Hin : In (Z.to_nat i - 3)%nat sites) by (unfold sites; apply in_map_iff; exists i; auto).
      destruct (Nat.eq_dec j (Z.to_nat i - 3)) as [->|Hne].
      - rewrite (In_is_site sites _ Hin) in Hns. discriminate.
      - assert (j = (Z.to_nat i - 3 + 1)%nat) by lia. subst j.
        assert (second sites (Z.to_nat i - 3 + 1) = true).
        { unfold second. apply existsb_exists. exists (Z.to_nat i - 3)%nat. split; [exact Hin|apply Nat.eqb_refl]. }
        congruence. }
    assert (Hjb : (j < List.length body)%nat) by exact Hj.
    pose proof (Hunc j Hjb Hnc) as Hnth.
    destruct (nth_error body0 j) as [g|] eqn:Eg; [|exfalso; apply nth_error_None in Eg; lia].
    rewrite Forall_forall in Hdec. destruct (Hdec g (nth_error_In _ _ Eg)) as (i & Hdi & Hbi).
    (* one machine step *)
    destruct (step_body v L dr (dsz c) (wr c) LO s' i I2' ltac:(rewrite Hpcj; unfold addr; lia)
                ltac:(rewrite Hpcj; unfold addr; lia) Hbi) as (s1 & Ex & Pc1 & Fr & He1).
    assert (Hcj : code_at (mem s') (addr j) [generate g]).
    { pose proof I1 as I1'. unfold code_loaded in I1'. rewrite Forall_forall in I1'. pose proof (I1' m Hm) as Hcm'. fold A in Hcm'. fold ws in Hcm'.
      intros k w Hk. destruct k as [|k]; [|destruct k; discriminate]. cbn in Hk. inversion Hk; subst w.
      replace (addr j + 4 * Z.of_nat 0) with (A + 4 * Z.of_nat (3 + j)%nat) by (unfold addr; lia).
      apply Hcm'. rewrite Ews. rewrite nth_error_app2 by (rewrite map_length; lia).
      rewrite map_length, Lpro. replace (3 + j - 3)%nat with j by lia.
      rewrite nth_error_app1 by (rewrite map_length; exact Hjb).
      rewrite nth_error_map, Hnth. reflexivity. }
    exists s1. split; [|split].
    - change 1%nat with (List.length [i]).
      apply (run_block v L [i] [generate g] (addr j) s' s1 RO).
      + constructor; [|constructor]. unfold v. exact Hdi.
      + cbn. rewrite (body_instr_no_domsw _ _ _ _ _ Hbi). reflexivity.
      + exact Hcj.
      + unfold addr. Z.div_mod_to_equations; lia.
      + unfold addr. lia.
      + unfold addr. cbn [List.length]. lia.
      + unfold addr. cbn [List.length]. destruct Hh; [left; lia|right; lia].
      + apply plain_side. exact Hplain.
      + cbn [exec_at]. rewrite Hpcj, Z.eqb_refl, Ex. reflexivity.
    - rewrite Pc1, Hpcj. unfold addr. lia.
    - destruct Fr as (Rf & Mf & Df & Cf). unfold Inv.
      assert (Mf' : mem_frame s' s1 (S - N) S) by (intros a Ha Hd' _; apply Mf; assumption).
      split; [apply (code_loaded_same s' s1); [|exact I1]; eapply frame_same_code; [exact Mf'|lia|lia]|].
      split; [exact He1|]. split; [rewrite Rf by (lia || assumption); exact I3|].
      split; [intros r Hr0 Hw N1' N2'; rewrite Rf by assumption; apply I4; assumption|].
      split; [rewrite (load_bytes_ext 8 (mem s1) (mem s')); [exact I5|]; intros b Hb; apply Mf; lia|].
      split; [rewrite (load_bytes_ext 8 (mem s1) (mem s')); [exact I6|]; intros b Hb; apply Mf; lia|].
      split; [eapply mem_frame_trans; [exact I7|exact Mf'|lia|lia]|]. split; congruence. }
  assert (Hsite_step : forall j k s', In (j, k) sc -> Inv s' -> pc s' = addr j ->
            exists s1, run v L k s' = (Next s1, k) /\ pc s1 = addr (j + 2)%nat /\ Inv s1).
  { intros j k s' Hjk (I1 & I2' & I3 & I4 & I5 & I6 & I7 & I8 & I9) Hpcj.
    unfold sc in Hjk. apply in_map_iff in Hjk. destruct Hjk as ([i cal] & Ejk & Hic). cbn [fst snd] in Ejk.
    inversion Ejk as [[Ej Ek]]. clear Ejk.
    assert (Hi : In i idx) by (eapply in_combine_l; exact Hic).
    assert (Hcal : In cal (m_callees m)) by (eapply in_combine_r; exact Hic).
    pose proof (Forall2_combine_In _ _ _ _ _ Hsites Hic) as Hso.
    pose proof (Hidx i Hi) as Hib.
    assert (Eji : Z.of_nat j = i - 3) by lia.
    (* the call edge *)
    pose proof (call_sites_run c script img (conj Hc Hr) (plain_non_fixer c Hplain)) as HE.
    rewrite Forall_forall in HE. destruct (HE m Hm i cal Hso) as (cm & Hcm' & Hedge). fold ms in Hcm'.
    assert (Hcmin : In cm ms) by (eapply nth_error_In; exact Hcm').
    destruct (img_placed cm Hcmin) as (Hal' & Hlo' & Hhi' & Hh').
    pose proof I1 as I1'. unfold code_loaded in I1'. rewrite Forall_forall in I1'.
    assert (EA : addr j = A + i * 4) by (unfold addr; lia).
    pose proof (pd_small HP) as Hsmall.
    destruct (Hedge L s' RO ltac:(lia) (I1' m Hm)) as (s1 & R1 & Pc1 & Ra1 & M1 & D1' & C1 & Rg1);
      fold A; rewrite <- ?EA; try assumption.
    { unfold addr. Z.div_mod_to_equations; lia. }
    { unfold addr. lia. }
    { unfold addr. lia. }
    { unfold addr. destruct Hh; [left; lia|right; lia]. }
    { apply plain_side. exact Hplain. }
    { unfold in_pair_range, addr. pose proof (zlen_nonneg (m_instrs cm)). lia. }
    { Z.div_mod_to_equations; lia. }
    { pose proof (zlen_nonneg (m_instrs cm)). lia. }
    { unfold addr. lia. }
    { unfold addr. lia. }
    (* the callee *)
    pose proof (IHc cal cm Hcal Hcm') as Hcon.
    pose proof (fold_max_ge (need_method c ms f) (m_callees m) cal Hcal) as Hge.
    assert (Hneed0 : 0 <= need_method c ms f cal).
    { destruct f as [|f']; cbn [need_method]; [lia|]. rewrite Hcm'.
      pose proof (fold_max_nonneg (need_method c ms f') (m_callees cm)).
      assert (0 <= frame_of c cm); [|lia].
      unfold frame_of. destruct (m_is_leaf cm); [vm_compute; discriminate|].
      destruct Hplain as [E|E]; rewrite E; vm_compute; discriminate. }
    assert (I1s : code_loaded s1).
    { apply (code_loaded_same s' s1); [|exact I1]. intros a _. rewrite M1. reflexivity. }
    assert (Hsp1 : rget s1 2 = S - 32) by (rewrite Rg1 by lia; exact I3).
    destruct (Hcon s1 I1s Pc1) as (s3 & R3 & Pc3 & Rg3 & Mf3 & D3 & C3 & He3).
    { destruct I2' as [X1 X2]. constructor; [rewrite Rg1 by lia; exact X1|rewrite D1'; exact X2]. }
    { rewrite Hsp1. Z.div_mod_to_equations; lia. }
    { rewrite Hsp1. lia. }
    { rewrite Hsp1. lia. }
    { rewrite Hsp1. lia. }
    { rewrite Rg1 by lia. rewrite I4 by (lia || assumption). exact Hs0. }
    { rewrite Ra1. unfold addr. lia. }
    exists s3. split; [|split].
    - change (run v L (2 + steps_method ms f cal) s' = (Next s3, (2 + steps_method ms f cal)%nat)).
      rewrite (run_app v L 2 (steps_method ms f cal) s' s1 R1). rewrite R3. reflexivity.
    - rewrite Pc3, Ra1. rewrite Z.add_0_r. rewrite u64_small by (unfold addr; lia).
      unfold addr. rewrite Nat2Z.inj_add. Z.div_mod_to_equations; lia.
    - rewrite Hsp1 in Mf3. unfold Inv.
      assert (Mf' : mem_frame s' s3 (S - N) S).
      { intros a Ha Hd' Hrg. rewrite Mf3 by (try assumption; lia). rewrite M1. reflexivity. }
      split; [apply (code_loaded_same s' s3); [|exact I1]; eapply frame_same_code; [exact Mf'|lia|lia]|].
      split; [exact He3|]. split; [rewrite Rg3 by (lia || assumption); exact Hsp1|].
      split.
      { intros r Hr0 Hw N1' N2'. rewrite Rg3 by assumption. rewrite Rg1 by assumption. apply I4; assumption. }
      split.
      { rewrite (load_bytes_ext 8 (mem s3) (mem s')); [exact I5|]. intros b Hb. rewrite Mf3 by lia. rewrite M1. reflexivity. }
      split.
      { rewrite (load_bytes_ext 8 (mem s3) (mem s')); [exact I6|]. intros b Hb. rewrite Mf3 by lia. rewrite M1. reflexivity. }
      split; [eapply mem_frame_trans; [exact I7|exact Mf'|lia|lia]|]. split; congruence. }
  (* walk the body *)
  rewrite <- Esites in Hnd, Hapart, Hfit, Hplain_step.
  destruct (walk_cnt v L Inv addr sc nb Hnd Hapart Hfit Hplain_step Hsite_step nb O s2) as (s4 & n & R4 & P4 & I4' & Hn).
  { lia. }
  { unfold second. destruct (existsb _ (map fst sc)) eqn:Ex; [|reflexivity].
    apply existsb_exists in Ex. destruct Ex as (x & _ & Ex). apply Nat.eqb_eq in Ex. lia. }
  { exact I2. }
  { rewrite P2. unfold addr. lia. }
  destruct I4' as (J1 & J2 & J3 & J4 & J5 & J6 & J7 & J8 & J9).
  (* ---------- epilogue ---------- *)
  destruct (call_epi_exec v L Hsc s4 (addr nb) S (rget s 8) (rget s 1) P4 J3 HSal ltac:(fold S; lia) ltac:(lia) HShi J5 J6 Hs0 Hra)
    as (s5 & E5 & P5 & Sp5 & S05 & Ra5 & R5 & M5 & D5 & C5).
  assert (Run3 : run v L 4 s4 = (Next s5, 4%nat)).
  { change 4%nat with (List.length call_epi).
    apply (run_block v L call_epi (map generate epi) (addr nb) s4 s5 RO); try assumption.
    - unfold v. rewrite (plain_ext c Hplain). apply Forall2_map_generate. apply decode_all_Forall2. exact De.
    - reflexivity.
    - pose proof J1 as J1'. unfold code_loaded in J1'. rewrite Forall_forall in J1'. pose proof (J1' m Hm) as Hcm4.
      fold A in Hcm4. fold ws in Hcm4. rewrite Ews in Hcm4.
      intros k w Hk. replace (addr nb + 4 * Z.of_nat k) with (A + 4 * Z.of_nat (3 + nb + k)%nat) by (unfold addr; lia).
      apply Hcm4. rewrite nth_error_app2 by (rewrite map_length; lia). rewrite map_length, Lpro.
      rewrite nth_error_app2 by (rewrite map_length; unfold nb; lia). rewrite map_length.
      replace (3 + nb + k - 3 - List.length body)%nat with k by (unfold nb; lia). exact Hk.
    - unfold addr. Z.div_mod_to_equations; lia.
    - unfold addr. lia.
    - unfold addr. rewrite map_length, Lepi. lia.
    - unfold addr. rewrite map_length, Lepi. destruct Hh; [left; lia|right; lia].
    - apply plain_side. exact Hplain. }
  assert (Hcount : steps_method ms (Datatypes.S f) id = (3 + (n + 4))%nat).
  { cbn [steps_method]. rewrite Hid.
    assert (Ws1 : wsum sc 0 = (2 * List.length (m_callees m) + fold_right (fun cal a => (steps_method ms f cal + a)%nat) O (m_callees m))%nat).
    { rewrite wsum_zero_all. unfold sc. rewrite sum_sites. rewrite (map_snd_combine idx (m_callees m) Hlenic).
      rewrite combine_length, Hlenic, Nat.min_id. reflexivity. }
    assert (Ws2 : wsum (map (fun x : nat * nat => (fst x, 1%nat)) sc) 0 = List.length (m_callees m)).
    { rewrite wsum_zero_all. unfold sc. rewrite map_map. rewrite sum_ones.
      rewrite combine_length, Hlenic, Nat.min_id. reflexivity. }
    rewrite Ws1, Ws2 in Hn. unfold zlen in Hlen. lia. }
  rewrite Hcount.
  exists s5. split; [|split; [exact P5|]].
  { rewrite (run_app v L 3 (n + 4) s s2 Run1). rewrite (run_app v L n 4 s2 s4 R4). rewrite Run3. reflexivity. }
  split.
  { intros r Hr0 Hw. destruct (Z.eq_dec r 1) as [->|N1']; [exact Ra5|].
    destruct (Z.eq_dec r 2) as [->|N2']; [exact Sp5|]. destruct (Z.eq_dec r 8) as [->|N8']; [exact S05|].
    rewrite R5 by assumption. apply J4; assumption. }
  split; [intros a Ha Hd' Hrg; rewrite M5; apply J7; assumption|].
  split; [congruence|]. split; [congruence|].
  destruct J2 as [X1 X2]. constructor; [rewrite R5 by lia; exact X1|rewrite D5; exact X2].
Qed.
End CallCase.

(* ---- every method, by induction on the call depth ---- *)
Theorem method_contract_all : forall f id m,
  nth_error ms id = Some m -> (Z.to_nat (m_depth m) < f)%nat -> contract (need_method c ms f id) (steps_method ms f id) m.
Proof.
  induction f as [|f IH]; intros id m Hid Hd; [lia|].
  assert (Hm : In m ms) by (eapply nth_error_In; exact Hid).
  destruct (img_mok2 m Hm) as (Sh & _ & _).
  destruct (Z.eq_dec (m_calls m) 0) as [Hc0|Hc0].
  - (* leaf *)
    assert (Hd0 : m_depth m = 0) by (apply (sh_nocall c m Sh); lia).
    assert (Hcal : m_callees m = []).
    { pose proof (iw_done c img img_wf) as Dn. rewrite Forall_forall in Dn. specialize (Dn m Hm).
      unfold done in Dn. rewrite Hd0 in Dn. exact Dn. }
    assert (Hleaf : m_is_leaf m = true) by (unfold m_is_leaf; rewrite Hc0; reflexivity).
    cbn [need_method steps_method]. rewrite Hid, Hcal, (frame_leaf m Hleaf). cbn [fold_right].
    replace (24 + 0) with 24 by lia. rewrite Nat.add_0_r. apply leaf_case; assumption.
  - (* makes calls *)
    assert (Hnl : m_is_leaf m = false) by (unfold m_is_leaf; apply Z.eqb_neq; exact Hc0).
    apply (call_case f id m Hid Hnl).
    intros cal cm Hcal Hcm. apply IH; [exact Hcm|].
    pose proof (calls_decrease_depth c script img Hsucc) as CD. rewrite Forall_forall in CD.
    specialize (CD m Hm). rewrite Forall_forall in CD. specialize (CD cal Hcal). fold ms in CD. rewrite Hcm in CD.
    assert (Hcmin : In cm ms) by (eapply nth_error_In; exact Hcm).
    destruct (img_mok2 cm Hcmin) as (Shc & _ & _).
    pose proof (sh_depth c cm Shc). pose proof (sh_depth c m Sh). lia.
Qed.

Lemma depth_lt_max m : In m ms -> 0 <= m_depth m -> (Z.to_nat (m_depth m) < max_depth ms)%nat.
Proof.
  intros Hm Hd. unfold max_depth.
  assert (m_depth m <= fold_right (fun m a => Z.max (m_depth m) a) 0 ms).
  { clear Hd. induction ms as [|x tl IH]; [destruct Hm|]. cbn [fold_right]. destruct Hm as [<-|Hm]; [lia|].
    specialize (IH Hm). lia. }
  lia.
Qed.

(* THE THEOREM: every method of the image satisfies its contract, with the stack
   bound computed from the call DAG *)
Theorem every_method_returns : forall id m,
  nth_error ms id = Some m -> contract (need_method c ms (max_depth ms) id) (steps_method ms (max_depth ms) id) m.
Proof.
  intros id m Hid. apply method_contract_all; [exact Hid|].
  assert (Hm : In m ms) by (eapply nth_error_In; exact Hid).
  destruct (img_mok2 m Hm) as (Sh & _ & _). apply depth_lt_max; [exact Hm|apply (sh_depth c m Sh)].
Qed.
End MC.
