(* GenWF4.v — Layer A: the interpreter loop.  For every configuration and
   decision script, the interpreter loop of an emitted image is
       prologue ++ (one call stub per top-level element, in a shuffled order
                    that is a PERMUTATION of the element list) ++ epilogue,
   each stub built for the offset from its own address to the element's
   recorded address (and to the call trampoline when trampolines are enabled),
   PIC stubs loading a hit case within 1..cases (C05 / C04). *)
From Coq Require Import ZArith List String Bool Lia Permutation.
From Gigue Require Import Types Bits Isa Enc GenTables Builder Samplers Generator GenLemmas GenWF GenWF2.
Import ListNotations.
Open Scope Z_scope.

(* the stub the interpreter uses for one element, placed at address cur *)
Definition int_stub_for (c : config) (ms : list method) (ta : Z) (e : elt) (cur : Z) (stub : list gi) : Prop :=
  let b := bvariant_of (c_variant c) in
  let off := elt_addr ms e - cur in
  if uses_tramp (c_variant c) then
    match e with
    | EMethod _ => interp_method_call b off (ta - cur) = OK stub
    | EPic p => exists h, 1 <= h <= p_cases p /\ interp_pic_call b off (ta - cur) h (c_hit_reg c) = OK stub
    end
  else
    match e with
    | EMethod _ => method_base_call b off = OK stub
    | EPic p => exists h, 1 <= h <= p_cases p /\ pic_base_call b off h (c_hit_reg c) = OK stub
    end.

Inductive calls_chain (c : config) (ms : list method) (ta : Z) : list elt -> Z -> list gi -> Prop :=
| cc_nil cur : calls_chain c ms ta [] cur []
| cc_cons e tl cur stub rest :
    int_stub_for c ms ta e cur stub -> calls_chain c ms ta tl (cur + zlen stub * 4) rest ->
    calls_chain c ms ta (e :: tl) cur (stub ++ rest).

Definition int_ok (c : config) (ms : list method) (es : list elt) (ints : list gi) : Prop :=
  exists pro epi shuffled calls,
    base_prologue 10 0 true = OK pro /\ base_epilogue 10 0 true = OK epi /\
    Permutation es shuffled /\
    calls_chain c ms (jit_start_al c) shuffled (int_start_al c + zlen pro * 4) calls /\
    ints = pro ++ calls ++ epi.

Lemma interpreter_call_chain P c ms ta e cur :
  stable P ->
  hoare P (interpreter_call c e (elt_addr ms e) cur ta) (fun stub s => P s /\ int_stub_for c ms ta e cur stub).
Proof.
  intros St. unfold interpreter_call, int_stub_for.
  destruct (uses_tramp (c_variant c)); destruct e as [id|p].
  - apply hoare_lift_post. intros a Ha s H. split; [exact H|exact Ha].
  - eapply hoare_bind; [apply draw_randint_spec; exact St|]. intros h. apply hoare_pure_pre. intros Hh.
    apply hoare_lift_post. intros a Ha s H. split; [exact H|]. exists h. split; assumption.
  - apply hoare_lift_post. intros a Ha s H. split; [exact H|exact Ha].
  - eapply hoare_bind; [apply draw_randint_spec; exact St|]. intros h. apply hoare_pure_pre. intros Hh.
    apply hoare_lift_post. intros a Ha s H. split; [exact H|]. exists h. split; assumption.
Qed.

Lemma interpreter_calls_chain P c ms ta : forall es cur,
  stable P ->
  hoare P (interpreter_calls c ms es cur ta) (fun l s => P s /\ calls_chain c ms ta es cur l).
Proof.
  induction es as [|e tl IH]; intros cur St; cbn [interpreter_calls].
  - intros s H. cbn. split; [exact H|constructor].
  - eapply hoare_bind; [apply interpreter_call_chain; exact St|]. intros stub. apply hoare_pure_pre. intros Hs.
    eapply hoare_bind; [apply IH; exact St|]. intros rest. apply hoare_pure_pre. intros Hr.
    intros s H. cbn. split; [exact H|constructor; assumption].
Qed.

(* a list of length n that contains every index below n is a permutation of 0..n-1 *)
Lemma perm_of_range n p :
  List.length p = n -> is_perm_of_range n p = true -> Permutation (map Z.of_nat (seq 0 n)) p.
Proof.
  intros Hl Hp. apply NoDup_Permutation_bis.
  - apply FinFun.Injective_map_NoDup; [intros a b H; lia|apply seq_NoDup].
  - rewrite map_length, seq_length. lia.
  - intros x Hx. apply in_map_iff in Hx. destruct Hx as (k & <- & Hk). apply in_seq in Hk.
    clear Hl. revert Hp. induction n as [|m IH]; [lia|]. cbn [is_perm_of_range]. intros Hp.
    apply andb_prop in Hp. destruct Hp as [H1 H2].
    destruct (Nat.eq_dec k m) as [->|Hne].
    + apply existsb_exists in H1. destruct H1 as (y & Hy & E). apply Z.eqb_eq in E. subst y. exact Hy.
    + apply IH; [lia|exact H2].
Qed.

Lemma map_nth_seq {A} (l : list A) d : map (fun i => nth i l d) (seq 0 (List.length l)) = l.
Proof.
  induction l as [|x tl IH]; [reflexivity|]. cbn [List.length seq map nth]. f_equal.
  rewrite <- seq_shift, map_map. exact IH.
Qed.

Lemma shuffled_permutation {A} (es : list A) d perm :
  Permutation (map Z.of_nat (seq 0 (List.length es))) perm ->
  Permutation es (map (fun i => nth (Z.to_nat i) es d) perm).
Proof.
  intros H. apply (Permutation_map (fun i => nth (Z.to_nat i) es d)) in H.
  rewrite map_map in H.
  assert (E : map (fun x => nth (Z.to_nat (Z.of_nat x)) es d) (seq 0 (List.length es)) = es).
  { transitivity (map (fun i => nth i es d) (seq 0 (List.length es))); [|apply map_nth_seq].
    apply map_ext. intros a. rewrite Nat2Z.id. reflexivity. }
  rewrite E in H. exact H.
Qed.

Lemma draw_shuffle_perm P n :
  stable P -> hoare P (draw_shuffle n) (fun perm s => P s /\ Permutation (map Z.of_nat (seq 0 (Z.to_nat n))) perm).
Proof.
  intros St. unfold draw_shuffle.
  eapply hoare_bind; [apply next_draw_spec; exact St|]. intros dr. destruct dr; try apply hoare_fail.
  unfold mismatch.
  match goal with |- context [if ?b then _ else _] => destruct b eqn:Eb end; [|apply hoare_fail].
  apply andb_prop in Eb. destruct Eb as [Eb Hperm]. apply andb_prop in Eb. destruct Eb as [_ Hlen].
  apply Z.eqb_eq in Hlen. intros s H. cbn. split; [exact H|]. apply perm_of_range; [lia|exact Hperm].
Qed.

Lemma fill_interpretation_loop_ok c ms d es :
  hoare (objs_are ms d es) (fill_interpretation_loop c (jit_start_al c))
        (fun ints s => objs_are ms d es s /\ int_ok c ms es ints).
Proof.
  pose proof (objs_are_stable ms d es) as St. unfold fill_interpretation_loop.
  eapply hoare_bind; [apply hoare_lift|]. intros pro. apply hoare_pure_pre. intros Hpro.
  intros s HI. cbv beta zeta. destruct HI as (E1 & E2 & E3). rewrite E1, E3.
  assert (G : hoare (objs_are ms d es)
    (let* perm := draw_shuffle (zlen es) in
     let shuffled := map (fun i => nth (Z.to_nat i) es (EMethod O)) perm in
     let* calls := interpreter_calls c ms shuffled (int_start_al c + zlen pro * 4) (jit_start_al c) in
     let* epi := lift (base_epilogue 10 0 true) in
     let all := pro ++ calls ++ epi in
     if jit_start_al c <? int_start_al c + zlen all * 4 then fail EWrongAddress else ret all)
    (fun ints s' => objs_are ms d es s' /\ int_ok c ms es ints)).
  { eapply hoare_bind; [apply draw_shuffle_perm; exact St|]. intros perm. apply hoare_pure_pre. intros Hperm.
    assert (HP : Permutation es (map (fun i => nth (Z.to_nat i) es (EMethod O)) perm)).
    { apply shuffled_permutation. unfold zlen in Hperm. rewrite Nat2Z.id in Hperm. exact Hperm. }
    cbv zeta.
    eapply hoare_bind; [apply interpreter_calls_chain; exact St|]. intros calls. apply hoare_pure_pre. intros Hcalls.
    eapply hoare_bind; [apply hoare_lift|]. intros epi. apply hoare_pure_pre. intros Hepi.
    destruct (_ <? _); [apply hoare_fail|]. intros s0 H0. cbn. split; [exact H0|].
    exists pro, epi, (map (fun i => nth (Z.to_nat i) es (EMethod O)) perm), calls. auto. }
  exact (G s (conj E1 (conj E2 E3))).
Qed.

Lemma hoare_true {A} (P : gstate -> Prop) (m : M A) : hoare P m (fun _ _ => True).
Proof. intros s _. destruct (m s) as [[a s']|e]; exact I. Qed.

Theorem gen_main_int c :
  hoare (fun _ => True) (gen_main c) (fun img _ => int_ok c (im_methods img) (im_elements img) (im_int_instrs img)).
Proof.
  unfold gen_main.
  destruct (c_jit_start c <? c_int_start c); [apply hoare_fail|].
  destruct (c_nb_methods c =? 0); [apply hoare_fail|].
  eapply hoare_bind; [apply hoare_true|]. intros tramps. cbv zeta.
  eapply hoare_bind; [apply hoare_true|]. intros e.
  eapply hoare_bind; [apply hoare_true|]. intro.
  eapply hoare_bind with (Q := fun ints s => int_ok c (g_methods s) (g_elements s) ints).
  { intros s _. pose proof (fill_interpretation_loop_ok c (g_methods s) (g_depths s) (g_elements s) s
                              (conj eq_refl (conj eq_refl eq_refl))) as G.
    destruct (fill_interpretation_loop c (jit_start_al c) s) as [[ints s']|err]; [|exact I].
    destruct G as [(E1 & _ & E3) G]. rewrite E1, E3. exact G. }
  intros ints s HS. cbv beta zeta.
  assert (G : hoare (objs_are (g_methods s) (g_depths s) (g_elements s))
    (let* nop := lift nop_ in
     let* data := generate_data (c_data_strategy c) (c_data_size c) in
     let ss := match c_variant c with
               | GRimiSS | GRimiFull => zeros (Z.to_nat (align (c_ss_size c) 8))
               | _ => zeros 8
               end in
     ret (mk_image (map generate ints ++ repeat_z (generate nop)
                      (Z.to_nat ((jit_start_al c - (int_start_al c + zlen (map generate ints) * 4)) / 4)))
            (map generate (List.concat tramps) ++ flat_map (elt_words (g_methods s)) (g_elements s)) data ss
            (g_methods s) (g_elements s) tramps ints))
    (fun img _ => int_ok c (im_methods img) (im_elements img) (im_int_instrs img))).
  { eapply hoare_bind; [apply hoare_lift|]. intros nop. apply hoare_pure_pre. intros _.
    eapply hoare_bind; [apply generate_data_spec; apply objs_are_stable|]. intros data.
    intros s0 _. cbn. exact HS. }
  exact (G s (conj eq_refl (conj eq_refl eq_refl))).
Qed.

Theorem run_gen_int c script img rest :
  run_gen c script = OK (img, rest) -> int_ok c (im_methods img) (im_elements img) (im_int_instrs img).
Proof.
  intros H. unfold run_gen in H.
  pose proof (gen_main_int c (mk_gs script [] [] []) I) as G.
  destruct (gen_main c (mk_gs script [] [] [])) as [[im s]|e]; [|discriminate].
  inversion H; subst. exact G.
Qed.
