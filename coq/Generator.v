(* Generator.v — functional model of gigue's generators (generator.py,
   method.py, pic.py, trampoline.py, dataminer.py, rimi_generator.py,
   fixer_generator.py): the three phases in the same order, consuming a
   DECISION SCRIPT (the API-level results of the `random` module, with the
   arguments that determine each distribution) exactly where the Python
   consumes `random`.  Exceptions are error values; objects are records;
   in-place patching is list replacement. *)
From Coq Require Import ZArith List String Ascii Bool SpecFloat.
From Gigue Require Import Types Bits Enc GenTables Builder Samplers.
Import ListNotations.
Open Scope string_scope.
Open Scope Z_scope.
Open Scope list_scope.

(* ------------------------------------------------------------------ script *)
Inductive weights := WNone | WInts (l : list Z) | WFloats (l : list fl).

Inductive draw :=
| DChoice (n i : Z)
| DChoices (n k : Z) (w : weights) (idx : list Z)
| DRandint (a b v : Z)
| DSample (start stop step k : Z) (vals : list Z)
| DShuffle (n : Z) (perm : list Z)
| DGauss (mu sigma x : fl)
| DRandom (u : fl)
| DBytes (n : Z) (bytes : list Z).

Definition fl_eqb (a b : fl) : bool :=
  match a, b with
  | S754_zero s, S754_zero s' => Bool.eqb s s'
  | S754_infinity s, S754_infinity s' => Bool.eqb s s'
  | S754_nan, S754_nan => true
  | S754_finite s m e, S754_finite s' m' e' => Bool.eqb s s' && Pos.eqb m m' && Z.eqb e e'
  | _, _ => false
  end.

Fixpoint zlist_eqb (a b : list Z) : bool :=
  match a, b with
  | [], [] => true
  | x :: a', y :: b' => (x =? y) && zlist_eqb a' b'
  | _, _ => false
  end.
Fixpoint fllist_eqb (a b : list fl) : bool :=
  match a, b with
  | [], [] => true
  | x :: a', y :: b' => fl_eqb x y && fllist_eqb a' b'
  | _, _ => false
  end.
Definition weights_eqb (a b : weights) : bool :=
  match a, b with
  | WNone, WNone => true
  | WInts x, WInts y => zlist_eqb x y
  | WFloats x, WFloats y => fllist_eqb x y
  | WFloats x, WInts y => fllist_eqb x (map of_Z y)       (* int weights where floats are expected *)
  | _, _ => false
  end.

(* ------------------------------------------------------------------ config *)
Inductive gvariant := GBase | GTramp | GRimiSS | GRimiFull | GFixer.

Definition bvariant_of (v : gvariant) : bvariant :=
  match v with GBase | GTramp => BBase | GRimiSS => BRimiSS | GRimiFull => BRimiFull | GFixer => BFixer end.
Definition uses_tramp (v : gvariant) : bool := match v with GBase => false | _ => true end.
Definition attrs_of (v : gvariant) : genattrs :=
  match v with GBase => ga_base | GTramp => ga_tramp | GRimiSS => ga_rimiss | GRimiFull => ga_rimifull
             | GFixer => ga_fixer end.

Record config := mk_config {
  c_variant : gvariant;
  c_int_start : Z; c_jit_start : Z;
  c_jit_size : Z; c_nb_methods : Z;
  c_var_mean : fl; c_var_std : fl;
  c_depth_mean : Z; c_exp_depth : fl;           (* math.exp(-call_depth_mean) *)
  c_occ_mean : fl; c_occ_std : fl;
  c_pics_ratio : fl;
  c_mean_case : Z; c_exp_case : fl;             (* math.exp(-pics_mean_case_nb) *)
  c_data_size : Z; c_data_strategy : string;
  c_cmp_reg : Z; c_hit_reg : Z;
  c_registers : list Z; c_data_reg : Z;
  c_weights : list Z;
  c_special_reg : Z;                            (* rimi_ssp_reg / fixer_cmp_reg *)
  c_ss_size : Z;
  c_fuel : nat                                  (* bound on sampler iterations (not a Python notion) *)
}.

(* ---------------------------------------------------------------- elements *)
Record method := mk_method {
  m_addr : Z; m_body : Z; m_calls : Z; m_depth : Z; m_call_size : Z;
  m_pro : Z; m_epi : Z;
  m_instrs : list gi;
  m_callees : list nat                           (* ids of the callee methods *)
}.
Definition m_total (m : method) : Z := m_body m + m_pro m + m_epi m.
Definition m_is_leaf (m : method) : bool := m_calls m =? 0.

Record pic := mk_pic {
  p_addr : Z; p_cases : Z; p_methods : list nat; p_switch : list gi
}.
Definition switch_size (cases : Z) : Z := 3 * cases + 1.

Inductive elt := EMethod (id : nat) | EPic (p : pic).

Record gstate := mk_gs {
  g_script : list draw;
  g_methods : list method;                        (* by id = creation order *)
  g_depths : list (Z * list nat);                 (* call_depth_dict, insertion order of keys *)
  g_elements : list elt                           (* jit_elements *)
}.

Definition M (A : Type) := gstate -> res (A * gstate).
Definition ret {A} (a : A) : M A := fun s => OK (a, s).
Definition fail {A} (e : err) : M A := fun _ => Err e.
Definition mbind {A B} (m : M A) (f : A -> M B) : M B :=
  fun s => match m s with OK (a, s') => f a s' | Err e => Err e end.
Notation "'let*' x ':=' m 'in' k" := (mbind m (fun x => k)) (at level 200, x pattern, m at level 100, k at level 200).
Definition lift {A} (r : res A) : M A := fun s => match r with OK a => OK (a, s) | Err e => Err e end.

Definition next_draw : M draw :=
  fun s => match g_script s with
           | [] => Err (EScript "script exhausted")
           | d :: tl => OK (d, mk_gs tl (g_methods s) (g_depths s) (g_elements s))
           end.

Definition mismatch {A} (what : string) : M A := fail (EScript what).

(* random.choice(seq of length n): IndexError on an empty sequence *)
Definition draw_choice (n : Z) : M Z :=
  if n <=? 0 then fail EIndexError else
  let* d := next_draw in
  match d with
  | DChoice n' i => if (n' =? n) && (0 <=? i) && (i <? n) then ret i else mismatch "choice"
  | _ => mismatch "choice expected"
  end.

Definition draw_choices (n k : Z) (w : weights) : M (list Z) :=
  if (n <=? 0) && (0 <? k) then fail EIndexError else
  let* d := next_draw in
  match d with
  | DChoices n' k' w' idx =>
      if (n' =? n) && (k' =? k) && weights_eqb w w' && (Z.of_nat (List.length idx) =? k)
         && forallb (fun i => (0 <=? i) && (i <? n)) idx
      then ret idx else mismatch "choices"
  | _ => mismatch "choices expected"
  end.

Definition draw_randint (a b : Z) : M Z :=
  if b <? a then fail EValueError else
  let* d := next_draw in
  match d with
  | DRandint a' b' v => if (a' =? a) && (b' =? b) && (a <=? v) && (v <=? b) then ret v else mismatch "randint"
  | _ => mismatch "randint expected"
  end.

Definition draw_gauss (mu sigma : fl) : M fl :=
  let* d := next_draw in
  match d with
  | DGauss mu' sigma' x =>
      (* a Gaussian variate is a binary64 value: a script carrying anything else records no Python run *)
      if fl_eqb mu mu' && fl_eqb sigma sigma' && valid_binary prec emax x then ret x else mismatch "gauss"
  | _ => mismatch "gauss expected"
  end.

Definition draw_random : M fl :=
  let* d := next_draw in
  match d with DRandom u => ret u | _ => mismatch "random expected" end.

(* range(start, stop, step) for step < 0 *)
Definition range_len_neg (start stop step : Z) : Z :=
  if start <=? stop then 0 else (start - stop - 1) / (- step) + 1.

Fixpoint distinct (l : list Z) : bool :=
  match l with [] => true | x :: tl => negb (existsb (Z.eqb x) tl) && distinct tl end.

Definition draw_sample (start stop step k : Z) : M (list Z) :=
  let n := range_len_neg start stop step in
  if (n <? k) || (k <? 0) then fail EValueError else
  let* d := next_draw in
  match d with
  | DSample s' t' p' k' vals =>
      (* the recorded population must be the one the model expects: same length, and (when not
         empty) same first element, (when longer than one) same step - the same arithmetic
         progression, however the implementation denotes it (range(..) or an explicit list) *)
      if (range_len_neg s' t' p' =? n) && ((n =? 0) || (s' =? start)) && ((n <=? 1) || (p' =? step))
         && (k' =? k) && (Z.of_nat (List.length vals) =? k)
         && distinct vals
         && forallb (fun v => (stop <? v) && (v <=? start) && ((start - v) mod (- step) =? 0)) vals
      then ret vals else mismatch "sample"
  | _ => mismatch "sample expected"
  end.

Fixpoint is_perm_of_range (n : nat) (p : list Z) : bool :=
  match n with
  | O => true
  | S k => existsb (Z.eqb (Z.of_nat k)) p && is_perm_of_range k p
  end.

Definition draw_shuffle (n : Z) : M (list Z) :=
  let* d := next_draw in
  match d with
  | DShuffle n' perm =>
      if (n' =? n) && (Z.of_nat (List.length perm) =? n) && is_perm_of_range (Z.to_nat n) perm
      then ret perm else mismatch "shuffle"
  | _ => mismatch "shuffle expected"
  end.

Definition draw_bytes (n : Z) : M (list Z) :=
  let* d := next_draw in
  match d with
  | DBytes n' bs =>
      if (n' =? n) && (Z.of_nat (List.length bs) =? n) && forallb (fun b => (0 <=? b) && (b <? 256)) bs
      then ret bs else mismatch "randbytes"
  | _ => mismatch "randbytes expected"
  end.

(* --------------------------------------------------------------- samplers *)
(* generate_trunc_norm(mean, std, 0, 1.0): gauss re-drawn until inside *)
Fixpoint m_trunc_norm (fuel : nat) (mu sigma : fl) : M fl :=
  match fuel with
  | O => mismatch "trunc_norm fuel"
  | S k =>
      let* x := draw_gauss mu sigma in
      if fle fzero x && fle x fone then ret x else m_trunc_norm k mu sigma
  end.

Definition m_poisson (c : config) : M Z :=
  let* u := draw_random in
  match generate_poisson (c_fuel c) (c_depth_mean c) (c_exp_depth c) u with
  | Some k => ret k
  | None => mismatch "poisson does not terminate"
  end.

Definition m_ztp (c : config) : M Z :=
  if c_mean_case c =? 0 then fail EZeroDivision else
  let* u := draw_random in
  match generate_ztp (c_fuel c) (c_mean_case c) (c_exp_case c) u with
  | Some k => ret k
  | None => mismatch "ztp does not terminate"
  end.

(* --------------------------------------------------- random instructions *)
Definition nth_str (l : list string) (i : Z) : string := nth (Z.to_nat i) l "".
Definition nth_z (l : list Z) (i : Z) : Z := nth (Z.to_nat i) l 0.
Definition zlen {A} (l : list A) : Z := Z.of_nat (List.length l).

Definition str_ends_with (s suf : string) : bool :=
  let ls := String.length s in let lf := String.length suf in
  if Nat.ltb ls lf then false else String.eqb (substring (ls - lf) lf s) suf.

(* InstructionBuilder.define_memory_access_alignment: first key of ALIGNMENT
   (dictionary order) that the name ends with *)
Fixpoint alignment_of (al : list (string * Z)) (name : string) : res Z :=
  match al with
  | [] => Err EAlignment
  | (k, v) :: tl => if str_ends_with name k then OK v else alignment_of tl name
  end.

(* len(InstructionBuilder.size_offset(max_offset, call_size=3)) *)
Definition size_offset_len (mo : Z) : Z :=
  if mo <? 12 then (if mo =? 4 then 1 else 2)
  else mo / 12 + 1 + (if mo mod 12 =? 8 then 1 else 0).

Definition builder_names : list string :=
  ["build_random_r_instruction"; "build_random_i_instruction"; "build_random_u_instruction";
   "build_random_j_instruction"; "build_random_b_instruction"; "build_random_s_instruction";
   "build_random_l_instruction"].

Definition rimi_store_name (n : string) : res string :=
  if mem n ["sb"; "sh"; "sw"; "sd"] then OK (n ++ "1")%string else Err EKeyError.
Definition rimi_load_name (n : string) : res string :=
  if mem n ["lb"; "lbu"; "lh"; "lhu"; "lw"; "lwu"; "ld"] then OK (n ++ "1")%string else Err EKeyError.

Definition random_instruction (c : config) (regs : list Z) (max_offset : Z) : M gi :=
  let nregs := zlen regs in
  let* ks := draw_choices 7 1 (WInts (c_weights c)) in
  let k := match ks with [k] => k | _ => 0 end in
  if k =? 0 then
    let* i := draw_choice (zlen b_R_INSTRUCTIONS) in
    let* rs := draw_choices nregs 3 WNone in
    match rs with
    | [a; b; d] => lift (R_ (nth_str b_R_INSTRUCTIONS i) (nth_z regs d) (nth_z regs a) (nth_z regs b))
    | _ => mismatch "r regs"
    end
  else if k =? 1 then
    let* i := draw_choice (zlen b_I_INSTRUCTIONS) in
    let* rs := draw_choices nregs 2 WNone in
    let* imm := draw_randint 0 4095 in
    match rs with
    | [d; a] => lift (I_ (nth_str b_I_INSTRUCTIONS i) (nth_z regs d) (nth_z regs a) imm)
    | _ => mismatch "i regs"
    end
  else if k =? 2 then
    let* i := draw_choice (zlen b_U_INSTRUCTIONS) in
    let* d := draw_choice nregs in
    let* imm := draw_randint 0 4294967295 in
    lift (U_ (nth_str b_U_INSTRUCTIONS i) (nth_z regs d) imm)
  else if k =? 3 then
    let mo := if 2032 <=? max_offset then 4 else max_offset in
    let* d := draw_choice nregs in
    let* _ := draw_choice (size_offset_len mo) in
    lift (J_ (nth_z regs d) 4)
  else if k =? 4 then
    let* i := draw_choice (zlen b_B_INSTRUCTIONS) in
    let* rs := draw_choices (nregs + 1) 2 (WInts (50 :: map (fun _ => 5) regs)) in
    let* _ := draw_choice (size_offset_len max_offset) in
    match rs with
    | [a; b] => lift (B_ (nth_str b_B_INSTRUCTIONS i) (nth_z (0 :: regs) a) (nth_z (0 :: regs) b) 4)
    | _ => mismatch "b regs"
    end
  else if k =? 5 then
    let* i := draw_choice (zlen b_S_INSTRUCTIONS) in
    let name := nth_str b_S_INSTRUCTIONS i in
    let* r2 := draw_choice nregs in
    let* al := lift (alignment_of b_ALIGNMENT name) in
    let* v := draw_randint 0 (Z.min (c_data_size c - 8) 2047) in
    let imm := align v al in
    match c_variant c with
    | GRimiFull =>
        (* the base instruction is built first (its constructor may fail), then re-built as sX1
           from the base object's FIELDS *)
        let* base := lift (S_ name (c_data_reg c) (nth_z regs r2) imm) in
        let* n1 := lift (rimi_store_name name) in
        match base with
        | GS _ _ _ rs1 rs2 im => lift (RS_ n1 rs1 rs2 im)
        | _ => mismatch "store shape"
        end
    | _ => lift (S_ name (c_data_reg c) (nth_z regs r2) imm)
    end
  else
    let* i := draw_choice (zlen b_I_INSTRUCTIONS_LOAD) in
    let name := nth_str b_I_INSTRUCTIONS_LOAD i in
    let* d := draw_choice nregs in
    let* al := lift (alignment_of b_ALIGNMENT name) in
    let* v := draw_randint 0 (Z.min (c_data_size c - 8) 2047) in
    let imm := align v al in
    match c_variant c with
    | GRimiFull =>
        let* base := lift (I_ name (nth_z regs d) (c_data_reg c) imm) in
        let* n1 := lift (rimi_load_name name) in
        match base with
        | GI _ _ _ _ rd rs1 im => lift (RI_ n1 rd rs1 im)
        | _ => mismatch "load shape"
        end
    | _ => lift (I_ name (nth_z regs d) (c_data_reg c) imm)
    end.

(* Method.fill_body: body_size random instructions; max_offset counts down *)
Fixpoint fill_body (c : config) (regs : list Z) (n : nat) (remaining : Z) : M (list gi) :=
  match n with
  | O => ret []
  | S k =>
      let* i := random_instruction c regs (remaining * 4) in
      let* rest := fill_body c regs k (remaining - 1) in
      ret (i :: rest)
  end.

(* ----------------------------------------------------------------- methods *)
Definition usable_registers (c : config) : list Z :=
  let r1 := filter (fun r => negb (r =? c_data_reg c)) (c_registers c) in
  match c_variant c with
  | GRimiSS | GRimiFull | GFixer => filter (fun r => negb (r =? c_special_reg c)) r1
  | _ => r1
  end.

Definition method_size (c : config) : Z := c_jit_size c / c_nb_methods c.

(* Method.__init__ *)
Definition new_method (c : config) (addr body calls depth : Z) : res method :=
  let a := attrs_of (c_variant c) in
  let cs := ga_call_size a in
  if body / cs <? calls then Err ECallNumber else
  let leaf := calls =? 0 in
  let co := if leaf then 0 else ga_call_offset a in
  OK (mk_method addr body calls depth cs
        (ga_prologue_offset a + m_used_s_regs + co)
        (m_used_s_regs + co + ga_epilogue_offset a) [] []).

Definition opt_z (o : option Z) : res Z := match o with Some z => OK z | None => Err EValueError end.

(* the sizing draws of generate_method / generate_leaf_method *)
Definition size_method (c : config) (addr : Z) (leaf_only : bool) : M method :=
  let* v := m_trunc_norm (c_fuel c) (c_var_mean c) (c_var_std c) in
  let* us := draw_random in
  let* body := lift (opt_z (body_size_of (method_size c) us v)) in
  if leaf_only then lift (new_method c addr body 0 0)
  else
    let* occ := m_trunc_norm (c_fuel c) (c_occ_mean c) (c_occ_std c) in
    let cs := ga_call_size (attrs_of (c_variant c)) in
    let* calls := lift (opt_z (call_nb_of body cs occ)) in
    let* depth := (if 0 <? calls then m_poisson c else ret 0) in
    let* m := lift (new_method c addr body calls depth) in
    (* logger.debug(f"... {method.call_occupation()}") is evaluated eagerly *)
    if body =? 0 then fail EZeroDivision else ret m.

(* Method.fill_with_instructions *)
Definition fill_method (c : config) (m : method) : M method :=
  let b := bvariant_of (c_variant c) in
  let* pro := lift (build_prologue b m_used_s_regs m_local_vars_nb (negb (m_is_leaf m))) in
  let* body := fill_body c (usable_registers c) (Z.to_nat (m_body m))
                         (m_body m + m_pro m - zlen pro) in
  let* epi := lift (build_epilogue b m_used_s_regs m_local_vars_nb (negb (m_is_leaf m))) in
  ret (mk_method (m_addr m) (m_body m) (m_calls m) (m_depth m) (m_call_size m) (m_pro m) (m_epi m)
         (pro ++ body ++ epi) []).

Definition add_method (m : method) : M nat :=
  fun s => OK (List.length (g_methods s),
               mk_gs (g_script s) (g_methods s ++ [m]) (g_depths s) (g_elements s)).

Fixpoint depths_add (d : list (Z * list nat)) (depth : Z) (id : nat) : list (Z * list nat) :=
  match d with
  | [] => [(depth, [id])]
  | (k, l) :: tl => if k =? depth then (k, l ++ [id]) :: tl else (k, l) :: depths_add tl depth id
  end.

Definition register_method (id : nat) (depth : Z) : M unit :=
  fun s => OK (tt, mk_gs (g_script s) (g_methods s) (depths_add (g_depths s) depth id) (g_elements s)).

Definition push_element (e : elt) : M unit :=
  fun s => OK (tt, mk_gs (g_script s) (g_methods s) (g_depths s) (g_elements s ++ [e])).

Definition get_method (id : nat) : M method :=
  fun s => match nth_error (g_methods s) id with
           | Some m => OK (m, s)
           | None => Err (EScript "bad method id")
           end.

Definition set_method (id : nat) (m : method) : M unit :=
  fun s => OK (tt, mk_gs (g_script s)
                         (firstn id (g_methods s) ++ m :: skipn (S id) (g_methods s))
                         (g_depths s) (g_elements s)).

(* generate_pic: all case methods are SIZED first, then filled case by case *)
Fixpoint size_cases (c : config) (n : nat) (addr : Z) : M (list method) :=
  match n with
  | O => ret []
  | S k =>
      let* m := size_method c addr false in
      let* rest := size_cases c k (addr + m_total m * 4) in
      ret (m :: rest)
  end.

Fixpoint fill_cases (c : config) (ms : list method) : M (list method) :=
  match ms with
  | [] => ret []
  | m :: tl => let* m' := fill_method c m in let* rest := fill_cases c tl in ret (m' :: rest)
  end.

Fixpoint switch_instrs (c : config) (pic_addr : Z) (case_nb : Z) (ms : list method) : res (list gi) :=
  match ms with
  | [] => do r <- ret_; OK [r]
  | m :: tl =>
      let current := pic_addr + (case_nb * 3 + 2) * 4 in
      do sw <- build_switch_case (case_nb + 1) (m_addr m - current) (c_hit_reg c) (c_cmp_reg c);
      do rest <- switch_instrs c pic_addr (case_nb + 1) tl;
      OK (sw ++ rest)
  end.

Fixpoint add_methods (ms : list method) : M (list nat) :=
  match ms with
  | [] => ret []
  | m :: tl => let* id := add_method m in let* rest := add_methods tl in ret (id :: rest)
  end.

Fixpoint register_methods (ids : list nat) (ms : list method) : M unit :=
  match ids, ms with
  | id :: it, m :: mt => let* _ := register_method id (m_depth m) in register_methods it mt
  | _, _ => ret tt
  end.

Definition sum_totals (ms : list method) : Z := fold_right (fun m a => m_total m + a) 0 ms.

(* one iteration of the fill loop: returns (bytes-size in instructions, number of methods) *)
Definition add_element (c : config) (addr remaining : Z) : M (Z * Z) :=
  let w0 := fsub fone (c_pics_ratio c) in
  let* ks := draw_choices 2 1 (WFloats [w0; c_pics_ratio c]) in
  match ks with
  | [0] =>
      let* m := size_method c addr false in
      let* m' := fill_method c m in
      let* id := add_method m' in
      let* _ := push_element (EMethod id) in
      let* _ := register_method id (m_depth m') in
      ret (m_total m', 1)
  | [_] =>
      let* z := m_ztp c in
      let cases := Z.min z remaining in
      let maddr := addr + switch_size cases * 4 in
      let* ms := size_cases c (Z.to_nat cases) maddr in
      let* ms' := fill_cases c ms in
      let* sw := lift (switch_instrs c addr 0 ms') in
      let* ids := add_methods ms' in
      let* _ := push_element (EPic (mk_pic addr cases ids sw)) in
      let* _ := register_methods ids ms' in
      ret (switch_size cases + sum_totals ms', cases)
  | _ => mismatch "kind"
  end.

Fixpoint fill_loop (c : config) (fuel : nat) (addr count : Z) : M Z :=
  if c_nb_methods c <=? count then ret addr else
  match fuel with
  | O => mismatch "fill loop fuel"
  | S k =>
      let* r := add_element c addr (c_nb_methods c - count) in
      let '(size, nm) := r in
      fill_loop c k (addr + size * 4) (count + nm)
  end.

(* phase 1 *)
Definition fill_jit_code (c : config) (start : Z) : M Z :=
  let* leaf := size_method c start true in
  let* leaf' := fill_method c leaf in
  let* id := add_method leaf' in
  let* _ := push_element (EMethod id) in
  let* _ := register_method id 0 in
  fill_loop c (Z.to_nat (c_nb_methods c)) (start + m_total leaf' * 4) 1.

(* ------------------------------------------------------------------ phase 2 *)
Definition possible_callees (depths : list (Z * list nat)) (depth : Z) : list nat :=
  flat_map (fun kv => if fst kv <? depth then snd kv else []) depths.

Definition replace_slice {A} (l : list A) (i : nat) (new : list A) : list A :=
  (* l[i : i + len(new)] = new *)
  firstn i l ++ new ++ skipn (i + List.length new) l.

Fixpoint patch_calls (c : config) (self_addr : Z) (instrs : list gi) (idx : list Z) (callees : list method)
  : res (list gi) :=
  match idx, callees with
  | i :: it, cal :: ct =>
      let offset := m_addr cal - (self_addr + i * 4) in
      do stub <- method_base_call (bvariant_of (c_variant c)) offset;
      patch_calls c self_addr (replace_slice instrs (Z.to_nat i) stub) it ct
  | _, _ => OK instrs
  end.

Fixpoint get_methods (ids : list nat) : M (list method) :=
  match ids with
  | [] => ret []
  | id :: tl => let* m := get_method id in let* rest := get_methods tl in ret (m :: rest)
  end.

Definition nat_mem (x : nat) (l : list nat) : bool := existsb (Nat.eqb x) l.

Definition patch_method (c : config) (id : nat) : M unit :=
  let* m := get_method id in
  if m_depth m =? 0 then ret tt else
  fun s =>
    let pc := possible_callees (g_depths s) (m_depth m) in
    (let* picks := draw_choices (zlen pc) (m_calls m) WNone in
     let callee_ids := map (fun i => nth (Z.to_nat i) pc O) picks in
     (* check_callees *)
     if nat_mem id callee_ids then fail ERecursive else
     let* cms := get_methods callee_ids in
     if existsb (fun cm => nat_mem id (m_callees cm)) cms then fail EMutual else
     let cs := m_call_size m in
     let* idx := draw_sample (m_pro m + m_body m - cs) (m_pro m - 1) (- cs) (zlen callee_ids) in
     let* ins := lift (patch_calls c (m_addr m) (m_instrs m) idx cms) in
     set_method id (mk_method (m_addr m) (m_body m) (m_calls m) (m_depth m) (m_call_size m) (m_pro m)
                      (m_epi m) ins callee_ids)) s.

Fixpoint patch_ids (c : config) (ids : list nat) : M unit :=
  match ids with
  | [] => ret tt
  | id :: tl => let* _ := patch_method c id in patch_ids c tl
  end.

Definition element_method_ids (e : elt) : list nat :=
  match e with EMethod id => [id] | EPic p => p_methods p end.

Definition patch_jit_calls (c : config) : M unit :=
  fun s => patch_ids c (flat_map element_method_ids (g_elements s)) s.

(* ------------------------------------------------------------------ phase 3 *)
Definition elt_addr (ms : list method) (e : elt) : Z :=
  match e with
  | EMethod id => match nth_error ms id with Some m => m_addr m | None => 0 end
  | EPic p => p_addr p
  end.

Definition interpreter_call (c : config) (e : elt) (eaddr current tramp_addr : Z) : M (list gi) :=
  let b := bvariant_of (c_variant c) in
  let offset := eaddr - current in
  if uses_tramp (c_variant c) then
    let toff := tramp_addr - current in
    match e with
    | EMethod _ => lift (interp_method_call b offset toff)
    | EPic p =>
        let* h := draw_randint 1 (p_cases p) in
        lift (interp_pic_call b offset toff h (c_hit_reg c))
    end
  else
    match e with
    | EMethod _ => lift (method_base_call b offset)
    | EPic p =>
        let* h := draw_randint 1 (p_cases p) in
        lift (pic_base_call b offset h (c_hit_reg c))
    end.

Fixpoint interpreter_calls (c : config) (ms : list method) (es : list elt) (current tramp_addr : Z)
  : M (list gi) :=
  match es with
  | [] => ret []
  | e :: tl =>
      let* stub := interpreter_call c e (elt_addr ms e) current tramp_addr in
      let* rest := interpreter_calls c ms tl (current + zlen stub * 4) tramp_addr in
      ret (stub ++ rest)
  end.

Definition int_start_al (c : config) : Z := align (c_int_start c) 4.
Definition jit_start_al (c : config) : Z := align (c_jit_start c) 4.

Definition fill_interpretation_loop (c : config) (tramp_addr : Z) : M (list gi) :=
  let* pro := lift (base_prologue 10 0 true) in
  fun s =>
    (let es := g_elements s in
     let* perm := draw_shuffle (zlen es) in
     let shuffled := map (fun i => nth (Z.to_nat i) es (EMethod O)) perm in
     let* calls := interpreter_calls c (g_methods s) shuffled (int_start_al c + zlen pro * 4) tramp_addr in
     let* epi := lift (base_epilogue 10 0 true) in
     let all := pro ++ calls ++ epi in
     if jit_start_al c <? int_start_al c + zlen all * 4 then fail EWrongAddress
     else ret all) s.

(* ------------------------------------------------------------- data section *)
Fixpoint le_bytes (n : nat) (v : Z) : list Z :=
  match n with O => [] | S k => (v mod 256) :: le_bytes k (v / 256) end.

Fixpoint zeros (n : nat) : list Z := match n with O => [] | S k => 0 :: zeros k end.

Fixpoint data_chunks (strategy : string) (n : nat) (i : Z) : M (list Z) :=
  match n with
  | O => ret []
  | S k =>
      let* chunk :=
        (if String.eqb strategy "random" then draw_bytes 8
         else if String.eqb strategy "zeroes" then ret (zeros 8)
         else if String.eqb strategy "iterative32" then
           let j := Z.min 65535 i in ret (le_bytes 4 (j / 4) ++ le_bytes 4 (j / 4 + 1))
         else if String.eqb strategy "iterative64" then
           let j := Z.min 4294967295 i in ret (le_bytes 8 (j / 8))
         else fail EKeyError (* AttributeError: no such strategy *)) in
      let* rest := data_chunks strategy k (i + 8) in
      ret (chunk ++ rest)
  end.

(* Dataminer.generate_data: the strategy is looked up before the loop *)
Definition generate_data (strategy : string) (size : Z) : M (list Z) :=
  if negb (mem strategy ["random"; "zeroes"; "iterative32"; "iterative64"]) then fail EKeyError
  else data_chunks strategy (Z.to_nat (align size 8 / 8)) 0.

(* -------------------------------------------------------------------- main *)
Record image := mk_image {
  im_int : list Z;        (* words of int.bin (interpreter + nop fill) *)
  im_jit : list Z;        (* words of jit.bin *)
  im_data : list Z;       (* bytes *)
  im_ss : list Z;         (* bytes *)
  im_methods : list method;
  im_elements : list elt;
  im_tramps : list (list gi);
  im_int_instrs : list gi
}.

Definition elt_words (ms : list method) (e : elt) : list Z :=
  match e with
  | EMethod id => match nth_error ms id with Some m => map generate (m_instrs m) | None => [] end
  | EPic p =>
      map generate (p_switch p)
      ++ flat_map (fun id => match nth_error ms id with Some m => map generate (m_instrs m) | None => [] end)
                  (p_methods p)
  end.

Fixpoint repeat_z (x : Z) (n : nat) : list Z := match n with O => [] | S k => x :: repeat_z x k end.

Definition gen_main (c : config) : M image :=
  (* Generator.__init__ *)
  if c_jit_start c <? c_int_start c then fail EWrongAddress else
  if c_nb_methods c =? 0 then fail EZeroDivision else
  let b := bvariant_of (c_variant c) in
  (* phase 1 (trampolines first) *)
  let* tramps :=
    (if uses_tramp (c_variant c) then
       let* t1 := lift (build_call_jit_elt_trampoline b) in
       let* t2 := lift (build_ret_from_jit_elt_trampoline b) in
       ret [t1; t2]
     else ret []) in
  let start := jit_start_al c + zlen (List.concat tramps) * 4 in
  let* _ := fill_jit_code c start in
  (* phase 2 *)
  let* _ := patch_jit_calls c in
  (* phase 3 *)
  let* ints := fill_interpretation_loop c (jit_start_al c) in
  fun s =>
    (let ms := g_methods s in
     let jit_words := map generate (List.concat tramps) ++ flat_map (elt_words ms) (g_elements s) in
     let int_words := map generate ints in
     let fill := (jit_start_al c - (int_start_al c + zlen int_words * 4)) / 4 in
     let* nop := lift nop_ in
     let* data := generate_data (c_data_strategy c) (c_data_size c) in
     let ss := match c_variant c with
               | GRimiSS | GRimiFull => zeros (Z.to_nat (align (c_ss_size c) 8))
               | _ => zeros 8
               end in
     ret (mk_image (int_words ++ repeat_z (generate nop) (Z.to_nat fill)) jit_words data ss ms
            (g_elements s) tramps ints)) s.

Definition run_gen (c : config) (script : list draw) : res (image * list draw) :=
  match gen_main c (mk_gs script [] [] []) with
  | OK (im, s) => OK (im, g_script s)
  | Err e => Err e
  end.

(* plain-function constructor / accessors (convenient for the extracted driver) *)
Definition make_config v a b c d e f g h i j k l m n o p q r s t u w x : config :=
  mk_config v a b c d e f g h i j k l m n o p q r s t u w x.
