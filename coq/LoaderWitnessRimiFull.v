(* LoaderWitnessRimiFull.v — non-vacuity of LoaderRimiFull.rimifull_image_from_files: a concrete
   machine state built from the RIMI full witness image satisfies every
   hypothesis of the theorem (including: the call chains fit the emitted shadow stack). *)
From Coq Require Import ZArith List String Bool Lia.
From Gigue Require Import Types Bits Isa Enc GenTables Builder Samplers Generator Machine MachineLemmas ImageSem
  BodyExec FrameExec CodeMem GenWF5 GenWF7 MethodContract SaveRestore TrampExec TrampsInv TrampStubs WholeImage Loader Witness
  LoaderWitness CallFrameRimi MethodContractRimi RimiFullExec WholeImageRimiFull LoaderRimiFull.
Import ListNotations.
Open Scope list_scope.
Open Scope Z_scope.

(* ---- the witness state ---- *)
Definition wimg_f : image :=
  match run_gen wcfg_rimifull wscript_rimifull with
  | OK (img, _) => img
  | Err _ => mk_image [] [] [] [] [] [] [] []
  end.

Lemma wimg_successful_f : successful wcfg_rimifull wscript_rimifull wimg_f.
Proof.
  unfold successful, wimg_f. split; [vm_compute; reflexivity|].
  destruct (run_gen wcfg_rimifull wscript_rimifull) as [[img rest]|e] eqn:E.
  - assert (R : rest = []).
    { assert (X : match run_gen wcfg_rimifull wscript_rimifull with OK (_, []) => true | _ => false end = true)
        by (vm_compute; reflexivity).
      rewrite E in X. destruct rest; [reflexivity|discriminate]. }
    rewrite R. reflexivity.
  - assert (X : match run_gen wcfg_rimifull wscript_rimifull with OK _ => true | Err _ => false end = true)
      by (vm_compute; reflexivity).
    rewrite E in X. discriminate.
Qed.

Definition wwords_f : list Z := im_int wimg_f ++ im_jit wimg_f.

Definition wL_f : layout :=
  mk_layout 4096 5120 (5120 + 4 * zlen (im_jit wimg_f))
            1048576 (1048576 + zlen (im_data wimg_f))      (* data *)
            2097152 3145728                               (* stack: 1 MiB *)
            4194304 (4194304 + zlen (im_ss wimg_f))         (* shadow stack (unused by this variant) *)
            5242880.                                      (* the caller's return address *)

Definition ws0_f : mstate :=
  rset (rset (rset (rset (mk_mstate 4096 (PM.empty Z) (load_words (PM.empty Z) 4096 wwords_f) 0 []) 1 5242880) 2 3145728) 31 1048576)
       28 (4194304 + zlen (im_ss wimg_f)).

Lemma wwords_range_f : Forall (fun w => 0 <= w < 4294967296) wwords_f.
Proof.
  apply Forall_forall. intros w Hw.
  assert (H : forallb (fun w => (0 <=? w) && (w <? 4294967296)) wwords_f = true) by (vm_compute; reflexivity).
  rewrite forallb_forall in H. specialize (H w Hw). apply andb_prop in H. destruct H as [H1 H2].
  apply Z.leb_le in H1. apply Z.ltb_lt in H2. lia.
Qed.

Lemma ws0_init_f : Init wcfg_rimifull wimg_f (fNtot wcfg_rimifull wimg_f) wL_f ws0_f.
Proof.
  constructor.
  - vm_compute. split; [reflexivity|discriminate].
  - change (mem ws0_f) with (load_words (PM.empty Z) 4096 wwords_f). change (code_lo wL_f) with 4096.
    apply load_words_code_at; [lia|exact wwords_range_f].
  - vm_compute. reflexivity.
  - split; [reflexivity|]. vm_compute. reflexivity.
  - reflexivity.
  - split; [vm_compute; reflexivity|]. split; [vm_compute; reflexivity|].
    split; [vm_compute; discriminate|]. split; [vm_compute; discriminate|vm_compute; reflexivity].
  - split; [vm_compute; reflexivity|]. split; [vm_compute; reflexivity|].
    split; [vm_compute; split; [discriminate|reflexivity]|]. right. vm_compute. discriminate.
  - split; [vm_compute; reflexivity|]. split; [vm_compute; reflexivity|].
    split; [vm_compute; discriminate|]. split; [reflexivity|vm_compute; reflexivity].
  - vm_compute. repeat split; discriminate || reflexivity.
  - split; reflexivity.
  - unfold disjoint. repeat split; vm_compute; (left; discriminate) || (right; discriminate).
Qed.

(* every hypothesis of Loader.base_image_from_files is met by a concrete state,
   so its conclusion holds of it: the witness image runs to the halt address *)
Theorem rimifull_image_from_files_nonvacuous :
  exists s' n, run (gv wcfg_rimifull) wL_f n ws0_f = (Next s', n) /\ pc s' = halt_at wL_f /\ rget s' 28 = ss_hi wL_f /\ dom s' = 0 /\ cfi s' = [].
Proof.
  destruct (rimifull_image_from_files wcfg_rimifull wscript_rimifull wimg_f wimg_successful_f eq_refl ltac:(vm_compute; discriminate) wL_f ws0_f ws0_init_f)
    as (s' & eh & _ & _ & R & P & _ & P28 & _ & D & C).
  - reflexivity.
  - vm_compute. reflexivity.
  - apply pics_encodableb_sound. vm_compute. reflexivity.
  - vm_compute. discriminate.
  - intros r o Hin. unfold int_slots in Hin. cbn [In] in Hin.
    repeat (destruct Hin as [Hin|Hin]; [inversion Hin; subst; vm_compute; split; [discriminate|reflexivity]|]).
    destruct Hin.
  - exists s', (fimage_steps wimg_f eh). auto 10.
Qed.

(* the witness image does contain PICs and call-making methods (which use the shadow stack) *)
Example wimg_shape_f :
  existsb (fun e => match e with EPic _ => true | _ => false end) (im_elements wimg_f) = true /\
  existsb (fun m => negb (m_is_leaf m)) (im_methods wimg_f) = true /\ 8 < FSW wimg_f.
Proof. repeat split; vm_compute; reflexivity. Qed.

Print Assumptions rimifull_image_from_files_nonvacuous.
