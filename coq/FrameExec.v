(* FrameExec.v — Layer B, second step (specification side): memory round trips
   and the execution of the leaf-method frame (prologue / epilogue) around a
   block that leaves sp, s0, ra and the stack alone. *)
From Coq Require Import ZArith List Bool Lia FMapPositive.
From Gigue Require Import Isa Machine MachineLemmas BodyExec.
Import ListNotations.
Open Scope Z_scope.

(* ---------------------------------------------------------------- memory *)
Lemma load_bytes_ext : forall n m m' a,
  (forall b, a <= b < a + Z.of_nat n -> mget m b = mget m' b) -> load_bytes m a n = load_bytes m' a n.
Proof.
  induction n as [|k IH]; intros m m' a H; cbn [load_bytes]; [reflexivity|].
  rewrite (H a) by lia. rewrite (IH m m' (a + 1)); [reflexivity|]. intros b Hb. apply H. lia.
Qed.

Lemma mget_store_in_head m a n v : 0 <= a -> mget (store_bytes m a (S n) v) a = v mod 256.
Proof.
  intros Ha. cbn [store_bytes]. rewrite mget_store_other by lia. apply mget_add_same.
Qed.

Lemma load_store_same : forall n m a v,
  0 <= a -> load_bytes (store_bytes m a n v) a n = v mod 2 ^ (8 * Z.of_nat n).
Proof.
  induction n as [|k IH]; intros m a v Ha.
  - cbn. rewrite Z.mod_1_r. reflexivity.
  - cbn [load_bytes]. rewrite mget_store_in_head by exact Ha.
    cbn [store_bytes].
    rewrite (IH (PM.add (key a) (v mod 256) m) (a + 1) (v / 256)) by lia.
    rewrite Nat2Z.inj_succ. replace (8 * Z.succ (Z.of_nat k)) with (8 + 8 * Z.of_nat k) by lia.
    rewrite Z.pow_add_r by lia. change (2 ^ 8) with 256.
    assert (0 < 2 ^ (8 * Z.of_nat k)) by (apply Z.pow_pos_nonneg; lia).
    set (P := 2 ^ (8 * Z.of_nat k)) in *.
    rewrite Z.rem_mul_r by lia. lia.
Qed.

Lemma load_store_other n m a v b k :
  0 <= a -> 0 <= b -> (b + Z.of_nat k <= a \/ a + Z.of_nat n <= b) ->
  load_bytes (store_bytes m a n v) b k = load_bytes m b k.
Proof.
  intros Ha Hb Hd. apply load_bytes_ext. intros x Hx. apply mget_store_other; lia.
Qed.

(* ---------------------------------------------------------------- straight-line composition *)
Lemma exec_at_app v L : forall l1 l2 A s,
  exec_at v L A (l1 ++ l2) s =
  match exec_at v L A l1 s with
  | Next s1 => exec_at v L (A + 4 * Z.of_nat (List.length l1)) l2 s1
  | o => o
  end.
Proof.
  induction l1 as [|i tl IH]; intros l2 A s; cbn [app exec_at List.length].
  - replace (A + 4 * Z.of_nat 0) with A by lia. reflexivity.
  - destruct (pc s =? A); [|reflexivity]. destruct (exec v L s i) as [s1|s1|s1|f s1]; try reflexivity.
    rewrite IH. replace (A + 4 + 4 * Z.of_nat (List.length tl)) with (A + 4 * Z.of_nat (S (List.length tl))) by lia.
    reflexivity.
Qed.

Lemma rset_zero s x : rset s 0 x = s.
Proof. reflexivity. Qed.

(* ---------------------------------------------------------------- the leaf frame *)
Definition leaf_pro : list instr := [Iop ADDI 2 2 (-24); Store SD 2 8 0].
Definition leaf_epi : list instr := [Load LD 8 2 0; Iop ADDI 2 2 24; Jalr 0 1 0].
(* FIXER leaf epilogue up to the check; the taken beq skips the ecall and lands on the final jalr *)
Definition fixer_epi4 : list instr := [Load LD 8 2 0; Iop ADDI 2 2 24; Cfiret 28 0 0; Branch BEQ 1 28 8].

Section Leaf.
Variable v : variant.
Variable L : layout.
Variable dr dsize : Z.
Variable wr : Z -> bool.
Hypothesis HL : layout_ok L dr dsize wr.
Hypothesis Hwr1 : wr 1 = false.
Hypothesis Hwr2 : wr 2 = false.
Hypothesis Hwr8 : wr 8 = false.
Hypothesis Hdr : dr <> 1 /\ dr <> 2 /\ dr <> 8.
(* the stack is disjoint from the code image *)
Hypothesis Hstk_code : code_hi L <= stk_lo L \/ stk_hi L <= code_lo L.
Hypothesis Hstk_pos : 0 <= stk_lo L.

Lemma stack_access_ok s a st :
  a mod 8 = 0 -> stk_lo L <= a -> a + 8 <= stk_hi L -> access_ok v L ABase (dom s) a 8 st = None.
Proof.
  intros Hm Hlo Hhi. unfold access_ok, inr. rewrite Hm, Z.eqb_refl. cbn [negb].
  destruct ((code_lo L <=? a) && (a + 8 <=? code_hi L)) eqn:Ec.
  { apply andb_prop in Ec. destruct Ec as [E1 E2]. apply Z.leb_le in E1. apply Z.leb_le in E2. lia. }
  assert (Es : (stk_lo L <=? a) && (a + 8 <=? stk_hi L) = true).
  { apply andb_true_intro. split; apply Z.leb_le; lia. }
  rewrite Es. reflexivity.
Qed.

Definition same_outside (s s' : mstate) (S : Z) : Prop :=
  forall a, 0 <= a -> (a < data_lo L \/ data_lo L + dsize <= a) -> (a < S - 24 \/ S - 16 <= a) ->
            mget (mem s') a = mget (mem s) a.

Theorem leaf_contract is s A :
  Forall (body_instr v dr dsize wr) is -> env_ok v L dr s -> pc s = A -> 0 <= A ->
  A + 4 * (Z.of_nat (List.length is) + 5) < W64 ->
  let S := rget s 2 in
  S mod 8 = 0 -> 24 <= S < W64 -> stk_lo L <= S - 24 -> S <= stk_hi L ->
  0 <= rget s 8 < W64 ->
  exists s', exec_at v L A (leaf_pro ++ is ++ leaf_epi) s = Next s' /\
    pc s' = (u64 (rget s 1 + 0) / 2) * 2 /\
    (forall r, 0 <= r -> wr r = false -> rget s' r = rget s r) /\
    same_outside s s' S /\ dom s' = dom s /\ cfi s' = cfi s /\ env_ok v L dr s'.
Proof.
  intros Hbody He Hpc HA Hend S HSal HSr HSlo HShi Hs0.
  destruct Hdr as (Hd1 & Hd2 & Hd8).
  pose proof (l_stack _ _ _ _ HL) as Hsd. pose proof (l_data_fit _ _ _ _ HL) as Hdf.
  (* prologue *)
  unfold leaf_pro, leaf_epi. cbn [app]. cbn [exec_at]. rewrite Hpc, Z.eqb_refl. cbn [exec alui]. rewrite !Hpc.
  set (s1 := set_pc (rset s 2 (u64 (rget s 2 + -24))) (A + 4)).
  assert (Hsp1 : rget s1 2 = S - 24).
  { unfold s1. rewrite rget_set_pc, rget_rset_same by lia. rewrite u64_idem. apply u64_small. fold S. lia. }
  assert (Hpc1 : pc s1 = A + 4) by reflexivity.
  rewrite Hpc1, Z.eqb_refl. unfold do_store. cbn [swidth]. change (Z.of_nat 8) with 8.
  replace (u64 (rget s1 2 + 0)) with (S - 24) by (rewrite Hsp1, Z.add_0_r; symmetry; apply u64_small; lia).
  rewrite (stack_access_ok s1 (S - 24) true) by (try lia; Z.div_mod_to_equations; lia).
  set (s2 := set_pc (set_mem s1 (store_bytes (mem s1) (S - 24) 8 (rget s1 8))) (pc s1 + 4)).
  assert (Hr2 : forall r, rget s2 r = rget s1 r) by (intros r; reflexivity).
  assert (Hr1 : forall r, 0 <= r -> r <> 2 -> rget s1 r = rget s r).
  { intros r Hr Hne. unfold s1. rewrite rget_set_pc. apply rget_rset_other; lia. }
  assert (He2 : env_ok v L dr s2).
  { destruct He as [E1 E2]. constructor.
    - rewrite Hr2, Hr1 by (destruct (l_dr _ _ _ _ HL); lia). exact E1.
    - exact E2. }
  (* body *)
  rewrite exec_at_app.
  destruct (body_exec v L dr dsize wr HL is s2 (A + 4 + 4) Hbody He2 eq_refl ltac:(lia) ltac:(lia))
    as (s3 & E3 & P3 & (R3 & M3 & D3 & C3) & He3).
  rewrite E3.
  (* epilogue *)
  cbn [exec_at]. rewrite P3, Z.eqb_refl. cbn [exec]. unfold do_load. cbn [lwidth lext]. change (Z.of_nat 8) with 8.
  assert (Hsp3 : rget s3 2 = S - 24) by (rewrite R3 by (lia || assumption); rewrite Hr2; exact Hsp1).
  replace (u64 (rget s3 2 + 0)) with (S - 24) by (rewrite Hsp3, Z.add_0_r; symmetry; apply u64_small; lia).
  rewrite (stack_access_ok s3 (S - 24) false) by (try lia; Z.div_mod_to_equations; lia).
  assert (Hld : load_bytes (mem s3) (S - 24) 8 = rget s 8).
  { rewrite (load_bytes_ext 8 (mem s3) (mem s2)).
    - unfold s2. cbn [set_pc set_mem mem]. rewrite load_store_same by lia.
      rewrite Hr1 by lia. change (2 ^ (8 * Z.of_nat 8)) with W64. apply Z.mod_small. exact Hs0.
    - intros b Hb. apply M3; lia. }
  rewrite Hld.
  set (s4 := set_pc (rset s3 8 (rget s 8)) (pc s3 + 4)).
  assert (Hpc4 : pc s4 = A + 4 + 4 + 4 * Z.of_nat (List.length is) + 4) by (unfold s4; cbn [set_pc pc]; rewrite P3; reflexivity).
  rewrite Hpc4, Z.eqb_refl. cbn [alui].
  assert (Hsp4 : rget s4 2 = S - 24).
  { unfold s4. rewrite rget_set_pc, rget_rset_other by lia. exact Hsp3. }
  set (s5 := set_pc (rset s4 2 (u64 (rget s4 2 + 24))) (A + 4 + 4 + 4 * Z.of_nat (List.length is) + 4 + 4)).
  assert (Hpc5 : pc s5 = A + 4 + 4 + 4 * Z.of_nat (List.length is) + 4 + 4) by reflexivity.
  rewrite Hpc5, Z.eqb_refl.
  eexists. split; [reflexivity|].
  (* facts about the final state *)
  assert (Hreg5 : forall r, 0 <= r -> wr r = false -> rget s5 r = rget s r).
  { intros r Hr Hw. unfold s5. rewrite rget_set_pc.
    destruct (Z.eq_dec r 2) as [->|Hn2].
    - rewrite rget_rset_same by lia. rewrite u64_idem, Hsp4. replace (S - 24 + 24) with S by lia. apply u64_small. lia.
    - rewrite rget_rset_other by lia. unfold s4. rewrite rget_set_pc.
      destruct (Z.eq_dec r 8) as [->|Hn8].
      + rewrite rget_rset_same by lia. apply u64_small. exact Hs0.
      + rewrite rget_rset_other by lia. rewrite R3 by assumption. rewrite Hr2. apply Hr1; assumption. }
  rewrite rset_zero.
  split; [cbn [set_pc pc]; rewrite Hreg5 by (lia || assumption); reflexivity|].
  split; [intros r Hr Hw; rewrite rget_set_pc; apply Hreg5; assumption|].
  assert (Hdom5 : dom s5 = dom s).
  { unfold s5. cbn [set_pc dom]. rewrite dom_rset. unfold s4. cbn [set_pc dom]. rewrite dom_rset.
    rewrite D3. unfold s2, s1. cbn [set_pc set_mem dom]. apply dom_rset. }
  split.
  { intros a Ha Hout Hst. cbn [set_pc mem]. unfold s5. cbn [set_pc mem]. rewrite mem_rset.
    unfold s4. cbn [set_pc mem]. rewrite mem_rset. rewrite M3 by assumption.
    unfold s2. cbn [set_pc set_mem mem]. rewrite mget_store_other by lia. unfold s1. cbn [set_pc mem]. rewrite mem_rset. reflexivity. }
  split; [exact Hdom5|].
  split.
  { cbn [set_pc cfi]. unfold s5. cbn [set_pc cfi]. rewrite cfi_rset. unfold s4. cbn [set_pc cfi]. rewrite cfi_rset.
    rewrite C3. unfold s2, s1. cbn [set_pc set_mem cfi]. apply cfi_rset. }
  destruct He as [E1 E2]. constructor.
  - rewrite rget_set_pc. rewrite Hreg5; [exact E1|destruct (l_dr _ _ _ _ HL); lia|apply (l_dr _ _ _ _ HL)].
  - cbn [set_pc dom]. rewrite Hdom5. exact E2.
Qed.
Theorem leaf_contract_fixer is s A top rest :
  Forall (body_instr v dr dsize wr) is -> env_ok v L dr s -> pc s = A -> 0 <= A ->
  A + 4 * (Z.of_nat (List.length is) + 7) < W64 ->
  wr 28 = false -> dr <> 28 ->
  cfi s = top :: rest -> top = rget s 1 -> 0 <= rget s 1 < W64 ->
  let S := rget s 2 in
  S mod 8 = 0 -> 24 <= S < W64 -> stk_lo L <= S - 24 -> S <= stk_hi L ->
  0 <= rget s 8 < W64 ->
  exists s', exec_at v L A (leaf_pro ++ is ++ fixer_epi4) s = Next s' /\
    pc s' = A + 4 * (Z.of_nat (List.length is) + 5) + 8 /\
    (forall r, 0 <= r -> wr r = false -> r <> 28 -> rget s' r = rget s r) /\ rget s' 28 = top /\
    same_outside s s' S /\ dom s' = dom s /\ cfi s' = rest /\ env_ok v L dr s'.
Proof.
  intros Hbody He Hpc HA Hend Hwr28 Hd28 Hcfi Htop Hra S HSal HSr HSlo HShi Hs0.
  destruct Hdr as (Hd1 & Hd2 & Hd8).
  pose proof (l_stack _ _ _ _ HL) as Hsd. pose proof (l_data_fit _ _ _ _ HL) as Hdf.
  (* prologue *)
  unfold leaf_pro, fixer_epi4. cbn [app]. cbn [exec_at]. rewrite Hpc, Z.eqb_refl. cbn [exec alui]. rewrite !Hpc.
  set (s1 := set_pc (rset s 2 (u64 (rget s 2 + -24))) (A + 4)).
  assert (Hsp1 : rget s1 2 = S - 24).
  { unfold s1. rewrite rget_set_pc, rget_rset_same by lia. rewrite u64_idem. apply u64_small. fold S. lia. }
  assert (Hpc1 : pc s1 = A + 4) by reflexivity.
  rewrite Hpc1, Z.eqb_refl. unfold do_store. cbn [swidth]. change (Z.of_nat 8) with 8.
  replace (u64 (rget s1 2 + 0)) with (S - 24) by (rewrite Hsp1, Z.add_0_r; symmetry; apply u64_small; lia).
  rewrite (stack_access_ok s1 (S - 24) true) by (try lia; Z.div_mod_to_equations; lia).
  set (s2 := set_pc (set_mem s1 (store_bytes (mem s1) (S - 24) 8 (rget s1 8))) (pc s1 + 4)).
  assert (Hr2 : forall r, rget s2 r = rget s1 r) by (intros r; reflexivity).
  assert (Hr1 : forall r, 0 <= r -> r <> 2 -> rget s1 r = rget s r).
  { intros r Hr Hne. unfold s1. rewrite rget_set_pc. apply rget_rset_other; lia. }
  assert (He2 : env_ok v L dr s2).
  { destruct He as [E1 E2]. constructor.
    - rewrite Hr2, Hr1 by (destruct (l_dr _ _ _ _ HL); lia). exact E1.
    - exact E2. }
  (* body *)
  rewrite exec_at_app.
  destruct (body_exec v L dr dsize wr HL is s2 (A + 4 + 4) Hbody He2 eq_refl ltac:(lia) ltac:(lia))
    as (s3 & E3 & P3 & (R3 & M3 & D3 & C3) & He3).
  rewrite E3.
  (* epilogue *)
  cbn [exec_at]. rewrite P3, Z.eqb_refl. cbn [exec]. unfold do_load. cbn [lwidth lext]. change (Z.of_nat 8) with 8.
  assert (Hsp3 : rget s3 2 = S - 24) by (rewrite R3 by (lia || assumption); rewrite Hr2; exact Hsp1).
  replace (u64 (rget s3 2 + 0)) with (S - 24) by (rewrite Hsp3, Z.add_0_r; symmetry; apply u64_small; lia).
  rewrite (stack_access_ok s3 (S - 24) false) by (try lia; Z.div_mod_to_equations; lia).
  assert (Hld : load_bytes (mem s3) (S - 24) 8 = rget s 8).
  { rewrite (load_bytes_ext 8 (mem s3) (mem s2)).
    - unfold s2. cbn [set_pc set_mem mem]. rewrite load_store_same by lia.
      rewrite Hr1 by lia. change (2 ^ (8 * Z.of_nat 8)) with W64. apply Z.mod_small. exact Hs0.
    - intros b Hb. apply M3; lia. }
  rewrite Hld.
  set (s4 := set_pc (rset s3 8 (rget s 8)) (pc s3 + 4)).
  assert (Hpc4 : pc s4 = A + 4 + 4 + 4 * Z.of_nat (List.length is) + 4) by (unfold s4; cbn [set_pc pc]; rewrite P3; reflexivity).
  rewrite Hpc4, Z.eqb_refl. cbn [alui].
  assert (Hsp4 : rget s4 2 = S - 24).
  { unfold s4. rewrite rget_set_pc, rget_rset_other by lia. exact Hsp3. }
  set (s5 := set_pc (rset s4 2 (u64 (rget s4 2 + 24))) (A + 4 + 4 + 4 * Z.of_nat (List.length is) + 4 + 4)).
  assert (Hpc5 : pc s5 = A + 4 + 4 + 4 * Z.of_nat (List.length is) + 4 + 4) by reflexivity.
  rewrite Hpc5, Z.eqb_refl.
  assert (Hcfi5 : cfi s5 = top :: rest).
  { unfold s5. cbn [set_pc cfi]. rewrite cfi_rset. unfold s4. cbn [set_pc cfi]. rewrite cfi_rset.
    rewrite C3. unfold s2, s1. cbn [set_pc set_mem cfi]. rewrite cfi_rset. exact Hcfi. }
  rewrite Hcfi5.
  set (s6 := set_pc (rset (set_cfi s5 rest) 28 top) (A + 4 + 4 + 4 * Z.of_nat (List.length is) + 4 + 4 + 4)).
  assert (Hpc6 : pc s6 = A + 4 + 4 + 4 * Z.of_nat (List.length is) + 4 + 4 + 4) by reflexivity.
  rewrite Hpc6, Z.eqb_refl.
  assert (Hreg5 : forall r, 0 <= r -> wr r = false -> rget s5 r = rget s r).
  { intros r Hr Hw. unfold s5. rewrite rget_set_pc.
    destruct (Z.eq_dec r 2) as [->|Hn2].
    - rewrite rget_rset_same by lia. rewrite u64_idem, Hsp4. replace (S - 24 + 24) with S by lia. apply u64_small. lia.
    - rewrite rget_rset_other by lia. unfold s4. rewrite rget_set_pc.
      destruct (Z.eq_dec r 8) as [->|Hn8].
      + rewrite rget_rset_same by lia. apply u64_small. exact Hs0.
      + rewrite rget_rset_other by lia. rewrite R3 by assumption. rewrite Hr2. apply Hr1; assumption. }
  assert (Hreg6 : forall r, 0 <= r -> wr r = false -> r <> 28 -> rget s6 r = rget s r).
  { intros r Hr Hw Hn. unfold s6. rewrite rget_set_pc. rewrite rget_rset_other by lia. rewrite rget_set_cfi. apply Hreg5; assumption. }
  assert (H628 : rget s6 28 = top).
  { unfold s6. rewrite rget_set_pc, rget_rset_same by lia. apply u64_small. rewrite Htop. exact Hra. }
  cbn [btaken]. rewrite (Hreg6 1) by (lia || assumption). rewrite H628, <- Htop, Z.eqb_refl.
  eexists. split; [reflexivity|].
  split; [cbn [set_pc pc]; rewrite u64_small by lia; lia|].
  split; [intros r Hr Hw Hn; rewrite rget_set_pc; apply Hreg6; assumption|].
  split; [rewrite rget_set_pc; exact H628|].
  assert (Hdom5 : dom s5 = dom s).
  { unfold s5. cbn [set_pc dom]. rewrite dom_rset. unfold s4. cbn [set_pc dom]. rewrite dom_rset.
    rewrite D3. unfold s2, s1. cbn [set_pc set_mem dom]. apply dom_rset. }
  split.
  { intros a Ha Hout Hst. cbn [set_pc mem]. unfold s6. cbn [set_pc mem]. rewrite mem_rset. cbn [set_cfi mem].
    unfold s5. cbn [set_pc mem]. rewrite mem_rset.
    unfold s4. cbn [set_pc mem]. rewrite mem_rset. rewrite M3 by assumption.
    unfold s2. cbn [set_pc set_mem mem]. rewrite mget_store_other by lia. unfold s1. cbn [set_pc mem]. rewrite mem_rset. reflexivity. }
  split; [cbn [set_pc dom]; unfold s6; cbn [set_pc dom]; rewrite dom_rset; cbn [set_cfi dom]; exact Hdom5|].
  split; [cbn [set_pc cfi]; unfold s6; cbn [set_pc cfi]; rewrite cfi_rset; reflexivity|].
  destruct He as [E1 E2]. constructor.
  - rewrite rget_set_pc. rewrite Hreg6; [exact E1|destruct (l_dr _ _ _ _ HL); lia|apply (l_dr _ _ _ _ HL)|exact Hd28].
  - cbn [set_pc dom]. unfold s6. cbn [set_pc dom]. rewrite dom_rset. cbn [set_cfi dom]. rewrite Hdom5. exact E2.
Qed.

End Leaf.
