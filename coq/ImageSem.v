(* ImageSem.v — what "running an emitted image" means: the entry conditions the
   dynamic properties quantify over (Init), accepted configurations (cfg_ok),
   and the quantities computed statically from the model's structured image
   (static_count, stack_bound).  Definitions only. *)
From Coq Require Import ZArith List String Bool.
From Gigue Require Import Types Bits Isa Enc GenTables Builder Samplers Generator Machine MachineLemmas.
Import ListNotations.
Open Scope Z_scope.

Definition variant_of (g : gvariant) : variant :=
  match g with GBase => VBase | GTramp => VTramp | GRimiSS => VRimiSS | GRimiFull => VRimiFull | GFixer => VFixer end.

(* ---- accepted configurations (the property texts' quantifier) ---- *)
Definition in_list (x : Z) (l : list Z) : bool := existsb (Z.eqb x) l.
Definition fl_in_unit (x : fl) : bool := fle fzero x && fle x fone.

Definition reserved_of (c : config) : list Z :=
  c_data_reg c :: (match c_variant c with GRimiSS | GRimiFull | GFixer => [c_special_reg c] | _ => [] end).

Definition is_protected (v : gvariant) : bool := match v with GRimiSS | GRimiFull | GFixer => true | _ => false end.

Definition cfg_sizes (c : config) : bool :=
  (1 <=? c_nb_methods c) && (1 <=? c_jit_size c / c_nb_methods c) && (8 <=? c_data_size c)
  && fl_in_unit (c_var_mean c) && fl_in_unit (c_occ_mean c) && fl_in_unit (c_pics_ratio c)
  && (1 <=? c_mean_case c) && (0 <=? c_depth_mean c)
  && (c_int_start c <=? c_jit_start c) && (0 <=? c_int_start c).

(* usable registers: a non-empty sublist of the caller-saved set once the reserved ones are removed *)
Definition cfg_registers (c : config) : bool :=
  forallb (fun r => in_list r c_CALLER_SAVED_REG) (c_registers c)
  && in_list (c_data_reg c) c_CALLER_SAVED_REG
  && negb (match usable_registers c with [] => true | _ => false end)
  && (if is_protected (c_variant c)
      then (c_special_reg c =? 28) && negb (c_data_reg c =? 28) else true).

(* admissible PIC registers (DESIGN 6.2) *)
Definition cfg_pic_regs (c : config) : bool :=
  in_list (c_hit_reg c) c_CALLER_SAVED_REG && in_list (c_cmp_reg c) c_CALLER_SAVED_REG
  && negb (c_hit_reg c =? c_cmp_reg c)
  && negb (in_list (c_hit_reg c) (reserved_of c)) && negb (in_list (c_cmp_reg c) (reserved_of c))
  && (if uses_tramp (c_variant c) then negb (c_hit_reg c =? c_CALL_TMP_REG) else true).

Definition cfg_weights (c : config) : bool :=
  (Z.of_nat (List.length (c_weights c)) =? 7) && forallb (fun w => 0 <=? w) (c_weights c)
  && (0 <? fold_right Z.add 0 (c_weights c)).

Definition cfg_ok (c : config) : bool := cfg_sizes c && cfg_registers c && cfg_pic_regs c && cfg_weights c.

(* the reserved registers of the protected variants are t3 in the pinned tree *)
Lemma special_regs_are_t3 : (c_RIMI_SSP_REG =? 28) && (c_FIXER_CMP_REG =? 28) = true.
Proof. vm_compute. reflexivity. Qed.

(* ---- static quantities ---- *)
Definition frame_of (c : config) (m : method) : Z :=
  (m_used_s_regs + m_local_vars_nb +
   (if m_is_leaf m then 0 else match c_variant c with GRimiSS | GRimiFull => 0 | _ => 1 end)) * 8.

Definition fixer_skip (c : config) : Z := match c_variant c with GFixer => 1 | _ => 0 end.

(* instructions executed by one activation of a method, by recursion on depth
   (fuel = depth + 1 suffices: callees have strictly smaller depth) *)
Fixpoint count_method (c : config) (ms : list method) (fuel : nat) (id : nat) : Z :=
  match fuel with
  | O => 0
  | S k =>
      match nth_error ms id with
      | None => 0
      | Some m => m_total m - fixer_skip c + fold_right (fun cal a => count_method c ms k cal + a) 0 (m_callees m)
      end
  end.

Fixpoint need_method (c : config) (ms : list method) (fuel : nat) (id : nat) : Z :=
  match fuel with
  | O => 0
  | S k =>
      match nth_error ms id with
      | None => 0
      | Some m => frame_of c m + fold_right (fun cal a => Z.max (need_method c ms k cal) a) 0 (m_callees m)
      end
  end.

Definition max_depth (ms : list method) : nat := Z.to_nat (fold_right (fun m a => Z.max (m_depth m) a) 0 ms) + 1.

(* the hit case an interpreter stub loads: addi hit, x0, h *)
Definition hit_of_stub (c : config) (stub : list gi) : Z :=
  fold_right (fun g a => match g with
                         | GI _ 19 0 _ rd 0 imm => if rd =? c_hit_reg c then imm else a
                         | _ => a end) 1 stub.

(* ---- entry conditions ---- *)
Definition code_at (m : PM.t Z) (base : Z) (words : list Z) : Prop :=
  forall i w, nth_error words i = Some w -> load_bytes m (base + 4 * Z.of_nat i) 4 = w.

Definition bytes_at (m : PM.t Z) (base : Z) (bs : list Z) : Prop :=
  forall i b, nth_error bs i = Some b -> mget m (base + Z.of_nat i) = b.

Definition disjoint (a b c d : Z) : Prop := b <= c \/ d <= a.

Record Init (c : config) (img : image) (bound : Z) (L : layout) (s0 : mstate) : Prop := {
  i_code_al   : code_lo L mod 4 = 0 /\ 0 <= code_lo L;
  i_code      : code_at (mem s0) (code_lo L) (im_int img ++ im_jit img);
  i_jit       : jit_lo L = code_lo L + 4 * zlen (im_int img);
  i_code_hi   : code_hi L = jit_lo L + 4 * zlen (im_jit img) /\ code_hi L < W64;
  i_pc        : pc s0 = code_lo L;
  i_sp        : rget s0 2 = stk_hi L /\ stk_hi L mod 8 = 0 /\ bound <= stk_hi L - stk_lo L /\ 0 <= stk_lo L /\ stk_hi L < W64;
  i_ra        : rget s0 1 = halt_at L /\ halt_at L mod 4 = 0 /\ 0 <= halt_at L < W64 /\
                (halt_at L < code_lo L \/ code_hi L <= halt_at L);
  i_data      : rget s0 (c_data_reg c) = data_lo L /\ data_lo L mod 8 = 0 /\ 0 <= data_lo L /\
                data_hi L = data_lo L + zlen (im_data img) /\ data_hi L < W64;
  i_ss        : match c_variant c with
                | GRimiSS | GRimiFull => rget s0 (c_special_reg c) = ss_hi L /\ ss_lo L mod 8 = 0 /\ 0 <= ss_lo L /\
                                          ss_hi L = ss_lo L + zlen (im_ss img) /\ ss_hi L < W64
                | _ => True end;
  i_dom       : dom s0 = 0 /\ cfi s0 = [];
  i_disjoint  : disjoint (code_lo L) (code_hi L) (data_lo L) (data_hi L) /\
                disjoint (code_lo L) (code_hi L) (stk_lo L) (stk_hi L) /\
                disjoint (data_lo L) (data_hi L) (stk_lo L) (stk_hi L) /\
                disjoint (ss_lo L) (ss_hi L) (stk_lo L) (stk_hi L) /\
                disjoint (ss_lo L) (ss_hi L) (data_lo L) (data_hi L) /\
                disjoint (ss_lo L) (ss_hi L) (code_lo L) (code_hi L)
  (* all other registers and all other memory contents are arbitrary *)
}.

Definition successful (c : config) (script : list draw) (img : image) : Prop :=
  cfg_ok c = true /\ run_gen c script = OK (img, []).
