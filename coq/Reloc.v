(* Reloc.v — the generator is translation-equivariant: shifting the two start
   addresses by the same multiple of 4 changes NOTHING in the emitted words
   (interpreter, JIT, data, shadow stack) and shifts every recorded address by that
   amount, for every configuration and every decision script.  Hence no generated
   instruction materialises an absolute code or data address, and every theorem
   about the image at its generation address holds at any 4-aligned load address. *)
From Coq Require Import ZArith List String Bool Lia.
From Gigue Require Import Types Bits Enc GenTables Builder Samplers Generator GenLemmas ImageSem GenWF GenWFProps SliceLemmas GenWF2 GenWF2Props.
Import ListNotations.
Open Scope list_scope.
Open Scope Z_scope.

Section RELOC.
Variable d : Z.                      (* the relocation offset *)

Definition shc (c : config) : config :=
  mk_config (c_variant c) (c_int_start c + d) (c_jit_start c + d) (c_jit_size c) (c_nb_methods c)
    (c_var_mean c) (c_var_std c) (c_depth_mean c) (c_exp_depth c) (c_occ_mean c) (c_occ_std c) (c_pics_ratio c)
    (c_mean_case c) (c_exp_case c) (c_data_size c) (c_data_strategy c) (c_cmp_reg c) (c_hit_reg c)
    (c_registers c) (c_data_reg c) (c_weights c) (c_special_reg c) (c_ss_size c) (c_fuel c).

Definition shm (m : method) : method :=
  mk_method (m_addr m + d) (m_body m) (m_calls m) (m_depth m) (m_call_size m) (m_pro m) (m_epi m) (m_instrs m) (m_callees m).
Definition shp (p : pic) : pic := mk_pic (p_addr p + d) (p_cases p) (p_methods p) (p_switch p).
Definition she (e : elt) : elt := match e with EMethod id => EMethod id | EPic p => EPic (shp p) end.
Definition shs (s : gstate) : gstate :=
  mk_gs (g_script s) (map shm (g_methods s)) (g_depths s) (map she (g_elements s)).

(* m' run on the shifted state behaves as m on the original one, results related by phi *)
Definition rel {A B} (phi : A -> B) (m : M A) (m' : M B) : Prop :=
  forall s, m' (shs s) = match m s with OK (a, s1) => OK (phi a, shs s1) | Err e => Err e end.

Lemma rel_ret {A B} (phi : A -> B) a : rel phi (ret a) (ret (phi a)).
Proof. intros s. reflexivity. Qed.

Lemma rel_fail {A B} (phi : A -> B) e : rel phi (fail e) (fail e).
Proof. intros s. reflexivity. Qed.

Lemma rel_lift {A} (r : res A) : rel (fun x => x) (lift r) (lift r).
Proof. intros s. unfold lift. destruct r; reflexivity. Qed.

Lemma rel_lift_map {A B} (phi : A -> B) (r : res A) (r' : res B) :
  r' = match r with OK a => OK (phi a) | Err e => Err e end -> rel phi (lift r) (lift r').
Proof. intros E s. unfold lift. rewrite E. destruct r; reflexivity. Qed.

Lemma rel_bind {A B A' B'} (phi : A -> A') (psi : B -> B') m m' f f' :
  rel phi m m' -> (forall a, rel psi (f a) (f' (phi a))) -> rel psi (mbind m f) (mbind m' f').
Proof.
  intros Hm Hf s. unfold mbind. rewrite Hm. destruct (m s) as [[a s1]|e]; [apply Hf|reflexivity].
Qed.

(* the common case: results passed unchanged *)
Lemma rel_bind_id {A B B'} (psi : B -> B') (m m' : M A) f f' :
  rel (fun x => x) m m' -> (forall a, rel psi (f a) (f' a)) -> rel psi (mbind m f) (mbind m' f').
Proof. intros Hm Hf. eapply rel_bind; [exact Hm|exact Hf]. Qed.

Lemma rel_mismatch {A B} (phi : A -> B) w : rel phi (mismatch w) (mismatch w).
Proof. intros s. reflexivity. Qed.

(* ---- primitives: they only consume the script ---- *)
Lemma rel_next_draw : rel (fun x => x) next_draw next_draw.
Proof. intros s. unfold next_draw, shs. cbn [g_script]. destruct (g_script s); reflexivity. Qed.

Ltac sc := cbn [shc c_variant c_int_start c_jit_start c_jit_size c_nb_methods c_var_mean c_var_std c_depth_mean c_exp_depth
  c_occ_mean c_occ_std c_pics_ratio c_mean_case c_exp_case c_data_size c_data_strategy c_cmp_reg c_hit_reg c_registers
  c_data_reg c_weights c_special_reg c_ss_size c_fuel].

Ltac prim := intros; unfold draw_choice, draw_choices, draw_randint, draw_gauss, draw_random, draw_sample, draw_shuffle, draw_bytes;
  repeat match goal with |- rel _ (if ?b then _ else _) (if ?b then _ else _) => destruct b; [apply rel_fail|] end;
  apply rel_bind_id; [apply rel_next_draw|]; intros dr; destruct dr; try apply rel_mismatch;
  match goal with |- rel _ (if ?b then _ else _) (if ?b then _ else _) => destruct b; [apply rel_ret|apply rel_mismatch] | _ => apply rel_ret end.

Lemma rel_draw_choice n : rel (fun x => x) (draw_choice n) (draw_choice n). Proof. prim. Qed.
Lemma rel_draw_choices n k w : rel (fun x => x) (draw_choices n k w) (draw_choices n k w). Proof. prim. Qed.
Lemma rel_draw_randint a b : rel (fun x => x) (draw_randint a b) (draw_randint a b). Proof. prim. Qed.
Lemma rel_draw_gauss a b : rel (fun x => x) (draw_gauss a b) (draw_gauss a b). Proof. prim. Qed.
Lemma rel_draw_random : rel (fun x => x) draw_random draw_random. Proof. prim. Qed.
Lemma rel_draw_sample a b c k : rel (fun x => x) (draw_sample a b c k) (draw_sample a b c k). Proof. prim. Qed.
Lemma rel_draw_shuffle n : rel (fun x => x) (draw_shuffle n) (draw_shuffle n). Proof. prim. Qed.
Lemma rel_draw_bytes n : rel (fun x => x) (draw_bytes n) (draw_bytes n). Proof. prim. Qed.

Lemma rel_trunc_norm fuel mu sigma : rel (fun x => x) (m_trunc_norm fuel mu sigma) (m_trunc_norm fuel mu sigma).
Proof.
  induction fuel as [|k IH]; cbn [m_trunc_norm]; [apply rel_mismatch|].
  apply rel_bind_id; [apply rel_draw_gauss|]. intros x. destruct (fle fzero x && fle x fone); [apply rel_ret|exact IH].
Qed.

Lemma rel_poisson c : rel (fun x => x) (m_poisson c) (m_poisson (shc c)).
Proof. unfold m_poisson. unfold usable_registers, method_size; sc. apply rel_bind_id; [apply rel_draw_random|]. intros u. destruct (generate_poisson _ _ _ _); [apply rel_ret|apply rel_mismatch]. Qed.

Lemma rel_ztp c : rel (fun x => x) (m_ztp c) (m_ztp (shc c)).
Proof.
  unfold m_ztp. unfold usable_registers, method_size; sc. destruct (c_mean_case c =? 0); [apply rel_fail|].
  apply rel_bind_id; [apply rel_draw_random|]. intros u. destruct (generate_ztp _ _ _ _); [apply rel_ret|apply rel_mismatch].
Qed.

Ltac relstep :=
  match goal with
  | |- rel _ (mbind (lift _) _) (mbind (lift _) _) => apply rel_bind_id; [apply rel_lift|]; intro
  | |- rel _ (mbind (draw_choice _) _) _ => apply rel_bind_id; [apply rel_draw_choice|]; intro
  | |- rel _ (mbind (draw_choices _ _ _) _) _ => apply rel_bind_id; [apply rel_draw_choices|]; intro
  | |- rel _ (mbind (draw_randint _ _) _) _ => apply rel_bind_id; [apply rel_draw_randint|]; intro
  | |- rel _ (lift _) (lift _) => apply rel_lift
  | |- rel _ (mismatch _) _ => apply rel_mismatch
  | |- rel _ (fail _) _ => apply rel_fail
  | |- rel _ (ret _) _ => apply rel_ret
  | |- rel _ (if ?b then _ else _) (if ?b then _ else _) => destruct b
  | |- rel _ (match ?x with _ => _ end) (match ?x with _ => _ end) => destruct x
  end.

Lemma rel_random_instruction c regs mo : rel (fun x => x) (random_instruction c regs mo) (random_instruction (shc c) regs mo).
Proof. unfold random_instruction. unfold usable_registers, method_size; sc. repeat relstep. Qed.

Lemma rel_fill_body c regs n : forall rem, rel (fun x => x) (fill_body c regs n rem) (fill_body (shc c) regs n rem).
Proof.
  induction n as [|k IH]; intros rem; cbn [fill_body]; [apply (rel_ret (fun x => x))|].
  apply rel_bind_id; [apply rel_random_instruction|]. intros i.
  apply rel_bind_id; [apply IH|]. intros rest. apply (rel_ret (fun x => x)).
Qed.

(* ---- shifting is invisible to everything but the addresses ---- *)
Lemma shm_total m : m_total (shm m) = m_total m. Proof. reflexivity. Qed.
Lemma map_shm_len l : List.length (map shm l) = List.length l. Proof. apply map_length. Qed.

Lemma new_method_sh c addr body calls depth :
  new_method (shc c) (addr + d) body calls depth =
  match new_method c addr body calls depth with OK m => OK (shm m) | Err e => Err e end.
Proof. unfold new_method. unfold usable_registers, method_size; sc. destruct (body / _ <? calls); reflexivity. Qed.

Lemma rel_size_method c addr l : rel shm (size_method c addr l) (size_method (shc c) (addr + d) l).
Proof.
  unfold size_method. unfold usable_registers, method_size; sc.
  apply rel_bind_id; [apply rel_trunc_norm|]. intros v.
  apply rel_bind_id; [apply rel_draw_random|]. intros us.
  apply rel_bind_id; [apply rel_lift|]. intros body.
  destruct l.
  - apply rel_lift_map. apply new_method_sh.
  - apply rel_bind_id; [apply rel_trunc_norm|]. intros occ.
    apply rel_bind_id; [apply rel_lift|]. intros calls.
    apply rel_bind_id; [destruct (0 <? calls); [apply rel_poisson|apply (rel_ret (fun x => x))]|]. intros depth.
    eapply rel_bind; [apply rel_lift_map; apply new_method_sh|]. intros m.
    destruct (body =? 0); [apply rel_fail|apply rel_ret].
Qed.

Lemma rel_fill_method c m : rel shm (fill_method c m) (fill_method (shc c) (shm m)).
Proof.
  unfold fill_method. unfold usable_registers, method_size; sc. change (m_is_leaf (shm m)) with (m_is_leaf m). change (m_body (shm m)) with (m_body m).
  change (m_pro (shm m)) with (m_pro m).
  apply rel_bind_id; [apply rel_lift|]. intros pro.
  apply rel_bind_id; [apply rel_fill_body|]. intros body.
  apply rel_bind_id; [apply rel_lift|]. intros epi.
  apply (rel_ret shm).
Qed.

Lemma rel_add_method m : rel (fun x => x) (add_method m) (add_method (shm m)).
Proof. intros s. unfold add_method, shs. cbn [g_methods g_script g_depths g_elements]. rewrite map_length, map_app. reflexivity. Qed.

Lemma rel_register_method id depth : rel (fun x => x) (register_method id depth) (register_method id depth).
Proof. intros s. reflexivity. Qed.

Lemma rel_push_element e : rel (fun x => x) (push_element e) (push_element (she e)).
Proof. intros s. unfold push_element, shs. cbn [g_methods g_script g_depths g_elements]. rewrite map_app. reflexivity. Qed.

Lemma rel_get_method id : rel shm (get_method id) (get_method id).
Proof.
  intros s. unfold get_method, shs. cbn [g_methods]. rewrite nth_error_map.
  destruct (nth_error (g_methods s) id); reflexivity.
Qed.

Lemma rel_set_method id m : rel (fun x => x) (set_method id m) (set_method id (shm m)).
Proof.
  intros s. unfold set_method, shs. cbn [g_methods g_script g_depths g_elements].
  rewrite map_app. cbn [map]. rewrite firstn_map, skipn_map. reflexivity.
Qed.

Lemma rel_size_cases c n : forall addr, rel (map shm) (size_cases c n addr) (size_cases (shc c) n (addr + d)).
Proof.
  induction n as [|k IH]; intros addr; cbn [size_cases]; [apply (rel_ret (map shm))|].
  eapply rel_bind; [apply rel_size_method|]. intros m.
  rewrite shm_total. replace (addr + d + m_total m * 4) with (addr + m_total m * 4 + d) by lia.
  eapply rel_bind; [apply IH|]. intros rest. apply (rel_ret (map shm)).
Qed.

Lemma rel_fill_cases c ms : rel (map shm) (fill_cases c ms) (fill_cases (shc c) (map shm ms)).
Proof.
  induction ms as [|m tl IH]; cbn [fill_cases map]; [apply (rel_ret (map shm))|].
  eapply rel_bind; [apply rel_fill_method|]. intros m'.
  eapply rel_bind; [apply IH|]. intros rest. apply (rel_ret (map shm)).
Qed.

Lemma switch_instrs_sh c : forall ms addr n,
  switch_instrs (shc c) (addr + d) n (map shm ms) = switch_instrs c addr n ms.
Proof.
  induction ms as [|m tl IH]; intros addr n; cbn [switch_instrs map]; sc; [reflexivity|].
  change (m_addr (shm m)) with (m_addr m + d).
  replace (m_addr m + d - (addr + d + (n * 3 + 2) * 4)) with (m_addr m - (addr + (n * 3 + 2) * 4)) by lia.
  rewrite IH. reflexivity.
Qed.

Lemma rel_add_methods ms : rel (fun x => x) (add_methods ms) (add_methods (map shm ms)).
Proof.
  induction ms as [|m tl IH]; cbn [add_methods map]; [apply (rel_ret (fun x => x))|].
  eapply (rel_bind (fun x => x)); [apply rel_add_method|]. intros id.
  eapply (rel_bind (fun x => x)); [apply IH|]. intros rest. apply (rel_ret (fun x => x)).
Qed.

Lemma rel_register_methods : forall ids ms, rel (fun x => x) (register_methods ids ms) (register_methods ids (map shm ms)).
Proof.
  induction ids as [|id it IH]; intros [|m mt]; cbn [register_methods map]; try apply (rel_ret (fun x => x)).
  change (m_depth (shm m)) with (m_depth m).
  eapply (rel_bind (fun x => x)); [apply rel_register_method|]. intros _. apply IH.
Qed.

Lemma sum_totals_sh ms : sum_totals (map shm ms) = sum_totals ms.
Proof. induction ms as [|m tl IH]; cbn [sum_totals map fold_right]; [reflexivity|]. unfold sum_totals in IH. rewrite IH. reflexivity. Qed.

Lemma rel_add_element c addr remaining : rel (fun x => x) (add_element c addr remaining) (add_element (shc c) (addr + d) remaining).
Proof.
  unfold add_element. unfold usable_registers, method_size; sc.
  apply rel_bind_id; [apply rel_draw_choices|]. intros ks.
  destruct ks as [|k [|k2 tl]]; [apply rel_mismatch| |destruct k; apply rel_mismatch].
  destruct k.
  - (* a method *)
    eapply rel_bind; [apply rel_size_method|]. intros m.
    eapply rel_bind; [apply rel_fill_method|]. intros m'.
    eapply (rel_bind (fun x => x)); [apply rel_add_method|]. intros id.
    eapply (rel_bind (fun x => x)); [apply (rel_push_element (EMethod id))|]. intros _.
    change (m_depth (shm m')) with (m_depth m').
    eapply (rel_bind (fun x => x)); [apply rel_register_method|]. intros _.
    rewrite shm_total. apply (rel_ret (fun x => x)).
  - (* a PIC *)
    apply rel_bind_id; [apply rel_ztp|]. intros z.
    replace (addr + d + switch_size (Z.min z remaining) * 4) with (addr + switch_size (Z.min z remaining) * 4 + d) by lia.
    eapply rel_bind; [apply rel_size_cases|]. intros ms.
    eapply rel_bind; [apply rel_fill_cases|]. intros ms'.
    rewrite switch_instrs_sh.
    apply rel_bind_id; [apply rel_lift|]. intros sw.
    eapply (rel_bind (fun x => x)); [apply rel_add_methods|]. intros ids.
    eapply (rel_bind (fun x => x)); [apply (rel_push_element (EPic (mk_pic addr (Z.min z remaining) ids sw)))|]. intros _.
    eapply (rel_bind (fun x => x)); [apply rel_register_methods|]. intros _.
    rewrite sum_totals_sh. apply (rel_ret (fun x => x)).
  - (* a PIC (negative first index cannot occur, same code) *)
    apply rel_bind_id; [apply rel_ztp|]. intros z.
    replace (addr + d + switch_size (Z.min z remaining) * 4) with (addr + switch_size (Z.min z remaining) * 4 + d) by lia.
    eapply rel_bind; [apply rel_size_cases|]. intros ms.
    eapply rel_bind; [apply rel_fill_cases|]. intros ms'.
    rewrite switch_instrs_sh.
    apply rel_bind_id; [apply rel_lift|]. intros sw.
    eapply (rel_bind (fun x => x)); [apply rel_add_methods|]. intros ids.
    eapply (rel_bind (fun x => x)); [apply (rel_push_element (EPic (mk_pic addr (Z.min z remaining) ids sw)))|]. intros _.
    eapply (rel_bind (fun x => x)); [apply rel_register_methods|]. intros _.
    rewrite sum_totals_sh. apply (rel_ret (fun x => x)).
Qed.

Lemma rel_fill_loop c fuel : forall addr count, rel (fun a => a + d) (fill_loop c fuel addr count) (fill_loop (shc c) fuel (addr + d) count).
Proof.
  induction fuel as [|k IH]; intros addr count; cbn [fill_loop]; sc; destruct (c_nb_methods c <=? count);
    try apply (rel_ret (fun a => a + d)); try apply rel_mismatch.
  eapply (rel_bind (fun x => x)); [apply rel_add_element|]. intros [size nm].
  replace (addr + d + size * 4) with (addr + size * 4 + d) by lia. apply IH.
Qed.

Lemma rel_fill_jit_code c start : rel (fun a => a + d) (fill_jit_code c start) (fill_jit_code (shc c) (start + d)).
Proof.
  unfold fill_jit_code. unfold usable_registers, method_size; sc.
  eapply rel_bind; [apply rel_size_method|]. intros leaf.
  eapply rel_bind; [apply rel_fill_method|]. intros leaf'.
  eapply (rel_bind (fun x => x)); [apply rel_add_method|]. intros id.
  eapply (rel_bind (fun x => x)); [apply (rel_push_element (EMethod id))|]. intros _.
  eapply (rel_bind (fun x => x)); [apply rel_register_method|]. intros _.
  rewrite shm_total. replace (start + d + m_total leaf' * 4) with (start + m_total leaf' * 4 + d) by lia. apply rel_fill_loop.
Qed.

(* ---- phase 2 ---- *)
Lemma patch_calls_sh c : forall idx cms self instrs,
  patch_calls (shc c) (self + d) instrs idx (map shm cms) = patch_calls c self instrs idx cms.
Proof.
  induction idx as [|i it IH]; intros [|cm ct] self instrs; cbn [patch_calls map]; sc; try reflexivity.
  change (m_addr (shm cm)) with (m_addr cm + d).
  replace (m_addr cm + d - (self + d + i * 4)) with (m_addr cm - (self + i * 4)) by lia.
  destruct (method_base_call _ _); cbn [bind]; [apply IH|reflexivity].
Qed.

Lemma rel_get_methods ids : rel (map shm) (get_methods ids) (get_methods ids).
Proof.
  induction ids as [|id tl IH]; cbn [get_methods]; [apply (rel_ret (map shm))|].
  eapply rel_bind; [apply rel_get_method|]. intros m.
  eapply rel_bind; [apply IH|]. intros rest. apply (rel_ret (map shm)).
Qed.

Lemma existsb_shm (f : method -> bool) cms : (forall m, f (shm m) = f m) -> existsb f (map shm cms) = existsb f cms.
Proof. intros H. induction cms as [|m tl IH]; cbn [existsb map]; [reflexivity|]. rewrite H, IH. reflexivity. Qed.

Definition patch_body (c : config) (id : nat) (m : method) (pc : list nat) : M unit :=
  let* picks := draw_choices (zlen pc) (m_calls m) WNone in
  let callee_ids := map (fun i => nth (Z.to_nat i) pc O) picks in
  if nat_mem id callee_ids then fail ERecursive else
  let* cms := get_methods callee_ids in
  if existsb (fun cm => nat_mem id (m_callees cm)) cms then fail EMutual else
  let cs := m_call_size m in
  let* idx := draw_sample (m_pro m + m_body m - cs) (m_pro m - 1) (- cs) (zlen callee_ids) in
  let* ins := lift (patch_calls c (m_addr m) (m_instrs m) idx cms) in
  set_method id (mk_method (m_addr m) (m_body m) (m_calls m) (m_depth m) (m_call_size m) (m_pro m)
                   (m_epi m) ins callee_ids).

Lemma patch_method_eq c id :
  patch_method c id = (let* m := get_method id in
                       if m_depth m =? 0 then ret tt else fun s => patch_body c id m (possible_callees (g_depths s) (m_depth m)) s).
Proof. reflexivity. Qed.

Lemma rel_patch_body c id m pc : rel (fun x => x) (patch_body c id m pc) (patch_body (shc c) id (shm m) pc).
Proof.
  unfold patch_body. unfold usable_registers, method_size; sc.
  change (m_calls (shm m)) with (m_calls m). change (m_call_size (shm m)) with (m_call_size m).
  change (m_pro (shm m)) with (m_pro m). change (m_body (shm m)) with (m_body m). change (m_epi (shm m)) with (m_epi m).
  change (m_instrs (shm m)) with (m_instrs m). change (m_addr (shm m)) with (m_addr m + d). change (m_depth (shm m)) with (m_depth m).
  apply rel_bind_id; [apply rel_draw_choices|]. intros picks. cbv zeta.
  destruct (nat_mem id _); [apply rel_fail|].
  eapply rel_bind; [apply rel_get_methods|]. intros cms.
  rewrite (existsb_shm (fun cm => nat_mem id (m_callees cm))) by reflexivity.
  destruct (existsb _ cms); [apply rel_fail|].
  apply rel_bind_id; [apply rel_draw_sample|]. intros idx.
  rewrite patch_calls_sh.
  apply rel_bind_id; [apply rel_lift|]. intros ins.
  apply (rel_set_method id (mk_method (m_addr m) (m_body m) (m_calls m) (m_depth m) (m_call_size m) (m_pro m) (m_epi m) ins _)).
Qed.

Lemma rel_patch_method c id : rel (fun x => x) (patch_method c id) (patch_method (shc c) id).
Proof.
  rewrite patch_method_eq. eapply rel_bind; [apply rel_get_method|]. intros m.
  change (m_depth (shm m)) with (m_depth m).
  destruct (m_depth m =? 0); [apply (rel_ret (fun x => x))|].
  intros s. change (g_depths (shs s)) with (g_depths s). apply rel_patch_body.
Qed.

Lemma rel_patch_ids c ids : rel (fun x => x) (patch_ids c ids) (patch_ids (shc c) ids).
Proof.
  induction ids as [|id tl IH]; cbn [patch_ids]; [apply (rel_ret (fun x => x))|].
  eapply (rel_bind (fun x => x)); [apply rel_patch_method|]. intros _. exact IH.
Qed.

Lemma ids_she es : flat_map element_method_ids (map she es) = flat_map element_method_ids es.
Proof. induction es as [|e tl IH]; cbn [flat_map map]; [reflexivity|]. rewrite IH. destruct e; reflexivity. Qed.

Lemma rel_patch_jit_calls c : rel (fun x => x) (patch_jit_calls c) (patch_jit_calls (shc c)).
Proof. intros s. unfold patch_jit_calls. change (g_elements (shs s)) with (map she (g_elements s)). rewrite ids_she. apply rel_patch_ids. Qed.
(* ---- phase 3: the interpreter loop ---- *)
Definition elt_valid (ms : list method) (e : elt) : Prop :=
  match e with EMethod id => (id < List.length ms)%nat | EPic _ => True end.

Lemma elt_addr_sh ms e : elt_valid ms e -> elt_addr (map shm ms) (she e) = elt_addr ms e + d.
Proof.
  destruct e as [id|p]; cbn [elt_addr she elt_valid]; [|reflexivity].
  intros H. rewrite nth_error_map. destruct (nth_error ms id) as [m|] eqn:E; [reflexivity|].
  apply nth_error_None in E. lia.
Qed.

Lemma rel_interpreter_call c e eaddr cur ta :
  rel (fun x => x) (interpreter_call c e eaddr cur ta) (interpreter_call (shc c) (she e) (eaddr + d) (cur + d) (ta + d)).
Proof.
  unfold interpreter_call. sc.
  replace (eaddr + d - (cur + d)) with (eaddr - cur) by lia. replace (ta + d - (cur + d)) with (ta - cur) by lia.
  destruct (uses_tramp (c_variant c)); destruct e as [id|p]; cbn [she shp p_cases];
    try apply rel_lift; (apply rel_bind_id; [apply rel_draw_randint|]; intros h; apply rel_lift).
Qed.

Lemma rel_interpreter_calls c ms : forall es cur ta, Forall (elt_valid ms) es ->
  rel (fun x => x) (interpreter_calls c ms es cur ta) (interpreter_calls (shc c) (map shm ms) (map she es) (cur + d) (ta + d)).
Proof.
  induction es as [|e tl IH]; intros cur ta Hv; cbn [interpreter_calls map]; [apply (rel_ret (fun x => x))|].
  inversion Hv as [|? ? He Htl]; subst. rewrite (elt_addr_sh ms e He).
  apply rel_bind_id; [apply rel_interpreter_call|]. intros stub.
  replace (cur + d + zlen stub * 4) with (cur + zlen stub * 4 + d) by lia.
  apply rel_bind_id; [apply IH; exact Htl|]. intros rest. apply (rel_ret (fun x => x)).
Qed.

Hypothesis Hd4 : d mod 4 = 0.

Lemma int_start_sh c : int_start_al (shc c) = int_start_al c + d.
Proof. unfold int_start_al, align. sc. clear - Hd4. Z.div_mod_to_equations. lia. Qed.
Lemma jit_start_sh c : jit_start_al (shc c) = jit_start_al c + d.
Proof. unfold jit_start_al, align. sc. clear - Hd4. Z.div_mod_to_equations. lia. Qed.

Lemma fill_interpretation_loop_sh c ta s :
  Forall (elt_valid (g_methods s)) (g_elements s) -> (0 < List.length (g_methods s))%nat ->
  fill_interpretation_loop (shc c) (ta + d) (shs s) =
  match fill_interpretation_loop c ta s with OK (a, s1) => OK (a, shs s1) | Err e => Err e end.
Proof.
  intros Hv Hne. unfold fill_interpretation_loop, mbind at 1 3, lift.
  destruct (base_prologue 10 0 true) as [pro|e]; [|reflexivity].
  cbv beta zeta. change (g_elements (shs s)) with (map she (g_elements s)). change (g_methods (shs s)) with (map shm (g_methods s)).
  assert (Hz : zlen (map she (g_elements s)) = zlen (g_elements s)) by (unfold zlen; rewrite map_length; reflexivity).
  rewrite Hz, int_start_sh, jit_start_sh.
  assert (R : rel (fun x => x)
    (let* perm := draw_shuffle (zlen (g_elements s)) in
     let* calls := interpreter_calls c (g_methods s) (map (fun i => nth (Z.to_nat i) (g_elements s) (EMethod O)) perm)
                     (int_start_al c + zlen pro * 4) ta in
     let* epi := lift (base_epilogue 10 0 true) in
     if jit_start_al c <? int_start_al c + zlen (pro ++ calls ++ epi) * 4 then fail EWrongAddress else ret (pro ++ calls ++ epi))
    (let* perm := draw_shuffle (zlen (g_elements s)) in
     let* calls := interpreter_calls (shc c) (map shm (g_methods s))
                     (map (fun i => nth (Z.to_nat i) (map she (g_elements s)) (EMethod O)) perm)
                     (int_start_al c + d + zlen pro * 4) (ta + d) in
     let* epi := lift (base_epilogue 10 0 true) in
     if jit_start_al c + d <? int_start_al c + d + zlen (pro ++ calls ++ epi) * 4 then fail EWrongAddress else ret (pro ++ calls ++ epi))).
  { apply rel_bind_id; [apply rel_draw_shuffle|]. intros perm.
    assert (Em : map (fun i => nth (Z.to_nat i) (map she (g_elements s)) (EMethod O)) perm =
                 map she (map (fun i => nth (Z.to_nat i) (g_elements s) (EMethod O)) perm)).
    { rewrite map_map. apply map_ext. intros i. change (EMethod O) with (she (EMethod O)) at 1. apply map_nth. }
    rewrite Em. replace (int_start_al c + d + zlen pro * 4) with (int_start_al c + zlen pro * 4 + d) by lia.
    apply rel_bind_id.
    { apply rel_interpreter_calls. apply Forall_forall. intros e He. apply in_map_iff in He. destruct He as (i & <- & _).
      destruct (nth_in_or_default (Z.to_nat i) (g_elements s) (EMethod O)) as [Hin|Hdef].
      - rewrite Forall_forall in Hv. apply Hv. exact Hin.
      - rewrite Hdef. exact Hne. }
    intros calls. apply rel_bind_id; [apply rel_lift|]. intros epi.
    replace (jit_start_al c + d <? int_start_al c + d + zlen (pro ++ calls ++ epi) * 4)
      with (jit_start_al c <? int_start_al c + zlen (pro ++ calls ++ epi) * 4)
      by (destruct (Z.ltb_spec (jit_start_al c) (int_start_al c + zlen (pro ++ calls ++ epi) * 4)), (Z.ltb_spec (jit_start_al c + d) (int_start_al c + d + zlen (pro ++ calls ++ epi) * 4)); lia || reflexivity).
    destruct (_ <? _); [apply rel_fail|apply (rel_ret (fun x => x))]. }
  exact (R s).
Qed.

(* ---- the data section does not depend on addresses ---- *)
Lemma rel_data_chunks st n : forall i, rel (fun x => x) (data_chunks st n i) (data_chunks st n i).
Proof.
  induction n as [|k IH]; intros i; cbn [data_chunks]; [apply (rel_ret (fun x => x))|].
  apply rel_bind_id.
  { repeat match goal with |- context [if ?b then _ else _] => destruct b end;
      try apply rel_draw_bytes; try apply (rel_ret (fun x => x)); apply rel_fail. }
  intros chunk. apply rel_bind_id; [apply IH|]. intros rest. apply (rel_ret (fun x => x)).
Qed.

Lemma rel_generate_data st size : rel (fun x => x) (generate_data st size) (generate_data st size).
Proof. unfold generate_data. destruct (negb _); [apply rel_fail|apply rel_data_chunks]. Qed.

(* ---- the whole generator ---- *)
Definition shi (img : image) : image :=
  mk_image (im_int img) (im_jit img) (im_data img) (im_ss img) (map shm (im_methods img)) (map she (im_elements img))
           (im_tramps img) (im_int_instrs img).

Lemma elt_words_sh ms e : elt_words (map shm ms) (she e) = elt_words ms e.
Proof.
  destruct e as [id|p]; cbn [elt_words she shp p_switch p_methods].
  - rewrite nth_error_map. destruct (nth_error ms id); reflexivity.
  - f_equal. apply flat_map_ext. intros id. rewrite nth_error_map. destruct (nth_error ms id); reflexivity.
Qed.

Lemma jit_words_sh ms es : flat_map (elt_words (map shm ms)) (map she es) = flat_map (elt_words ms) es.
Proof. induction es as [|e tl IH]; cbn [flat_map map]; [reflexivity|]. rewrite elt_words_sh, IH. reflexivity. Qed.

Lemma step {A A' B B'} (phi : A -> A') (psi : B -> B') (m : M A) (m' : M A') f f' s :
  m' (shs s) = match m s with OK (a, s1) => OK (phi a, shs s1) | Err e => Err e end ->
  (forall a s1, m s = OK (a, s1) ->
     f' (phi a) (shs s1) = match f a s1 with OK (b, s2) => OK (psi b, shs s2) | Err e => Err e end) ->
  mbind m' f' (shs s) = match mbind m f s with OK (b, s2) => OK (psi b, shs s2) | Err e => Err e end.
Proof. intros H1 H2. unfold mbind. rewrite H1. destruct (m s) as [[a s1]|e]; [apply H2; reflexivity|reflexivity]. Qed.

Theorem gen_main_equivariant c script :
  cfg_ok c = true ->
  gen_main (shc c) (mk_gs script [] [] []) =
  match gen_main c (mk_gs script [] [] []) with OK (img, s1) => OK (shi img, shs s1) | Err e => Err e end.
Proof.
  intros Hc. destruct (cfg_ok_facts c Hc) as [F R]. destruct (cfg_ok_sizes c Hc) as [Hnb Hms].
  set (s0 := mk_gs script [] [] []). change s0 with (shs s0) at 1.
  unfold gen_main. sc.
  replace (c_jit_start c + d <? c_int_start c + d) with (c_jit_start c <? c_int_start c)
    by (destruct (Z.ltb_spec (c_jit_start c) (c_int_start c)), (Z.ltb_spec (c_jit_start c + d) (c_int_start c + d)); lia || reflexivity).
  destruct (c_jit_start c <? c_int_start c); [reflexivity|].
  destruct (c_nb_methods c =? 0); [reflexivity|].
  (* trampolines *)
  apply (step (fun x => x) shi).
  { destruct (uses_tramp (c_variant c)); [|reflexivity].
    unfold mbind, lift. destruct (build_call_jit_elt_trampoline _); [|reflexivity].
    destruct (build_ret_from_jit_elt_trampoline _); reflexivity. }
  intros tramps s1 Et.
  assert (Hs1 : s1 = s0).
  { destruct (uses_tramp (c_variant c)).
    - unfold mbind, lift in Et. destruct (build_call_jit_elt_trampoline _); [|discriminate].
      destruct (build_ret_from_jit_elt_trampoline _); [|discriminate]. cbn in Et. inversion Et. reflexivity.
    - cbn in Et. inversion Et. reflexivity. }
  subst s1. cbv zeta. rewrite !jit_start_sh.
  set (start := jit_start_al c + zlen (List.concat tramps) * 4).
  replace (jit_start_al c + d + zlen (List.concat tramps) * 4) with (start + d) by (unfold start; lia).
  (* phase 1 *)
  apply (step (fun a => a + d) shi); [apply rel_fill_jit_code|]. intros e s2 E1.
  pose proof (fill_jit_code_spec2 c start F Hms Hnb s0 (conj eq_refl (conj eq_refl eq_refl))) as H1.
  rewrite E1 in H1. destruct H1 as [HP1 Hn1].
  (* phase 2 *)
  apply (step (fun x => x) shi); [apply rel_patch_jit_calls|]. intros u s3 E2.
  pose proof (patch_jit_calls_spec2 c start e s2 (P1_P2 c start e s2 HP1 Hn1)) as H2.
  rewrite E2 in H2. destruct H2 as [HP2 _].
  (* phase 3 *)
  assert (Hv : Forall (elt_valid (g_methods s3)) (g_elements s3)).
  { pose proof (p2_tiles _ _ _ _ _ _ HP2) as T. clear - T. induction T as [a|id es a b c0 Hm _ IH|p es a b c0 _ _ _ _ _ IH]; constructor; try assumption.
    - cbn [elt_valid]. inversion Hm; subst. apply nth_error_Some. congruence.
    - exact I. }
  assert (Hne : (0 < List.length (g_methods s3))%nat).
  { pose proof (p2_count _ _ _ _ _ _ HP2). lia. }
  apply (step (fun x => x) shi); [apply (fill_interpretation_loop_sh c (jit_start_al c) s3 Hv Hne)|]. intros ints s4 E3.
  (* the tail *)
  rewrite !int_start_sh.
  replace (jit_start_al c + d - (int_start_al c + d + zlen (map generate ints) * 4)) with (jit_start_al c - (int_start_al c + zlen (map generate ints) * 4)) by lia.
  apply (step (fun x => x) shi); [apply rel_lift|]. intros nop s5 E4.
  apply (step (fun x => x) shi); [apply rel_generate_data|]. intros data s6 E5.
  cbn [ret]. unfold shi. cbn [im_int im_jit im_data im_ss im_methods im_elements im_tramps im_int_instrs].
  assert (E45 : s5 = s4) by (unfold lift in E4; destruct nop_; [inversion E4; reflexivity|discriminate]). subst s5.
  change (g_methods (shs s4)) with (map shm (g_methods s4)). change (g_elements (shs s4)) with (map she (g_elements s4)).
  rewrite jit_words_sh. reflexivity.
Qed.

(* THE THEOREM: for every accepted configuration and every decision script, generating at start
   addresses shifted by d (a multiple of 4) emits exactly the same words in all four files and
   shifts every recorded method / PIC address by d *)
Theorem run_gen_equivariant c script :
  cfg_ok c = true ->
  run_gen (shc c) script =
  match run_gen c script with OK (img, rest) => OK (shi img, rest) | Err e => Err e end.
Proof.
  intros Hc. unfold run_gen. rewrite (gen_main_equivariant c script Hc).
  destruct (gen_main c (mk_gs script [] [] [])) as [[img s1]|e]; reflexivity.
Qed.

Corollary files_position_independent c script img rest :
  cfg_ok c = true -> run_gen c script = OK (img, rest) ->
  exists img', run_gen (shc c) script = OK (img', rest) /\
    im_int img' = im_int img /\ im_jit img' = im_jit img /\ im_data img' = im_data img /\ im_ss img' = im_ss img /\
    im_int_instrs img' = im_int_instrs img /\ im_tramps img' = im_tramps img /\
    im_methods img' = map shm (im_methods img) /\ im_elements img' = map she (im_elements img).
Proof.
  intros Hc Hr. exists (shi img). rewrite (run_gen_equivariant c script Hc), Hr. repeat split; reflexivity.
Qed.
End RELOC.
