(* TrampStubs.v — the interpreter's trampoline call stubs with their decoded form
   exposed (same proofs as SplitProofs.interp_method_call_reaches /
   interp_pic_call_reaches, for any decoder extension). *)
From Coq Require Import ZArith List String Bool Lia.
From Gigue Require Import Types Bits Isa IsaProofs Enc EncProofs GenTables Builder Machine MachineLemmas SplitProofs.
Import ListNotations.
Open Scope list_scope.
Open Scope Z_scope.

Theorem interp_method_call_reaches_x x v L s A off toff :
  in_pair_range off -> 12 <= Z.abs off -> in_pair_range (toff - 8) -> 12 <= Z.abs (toff - 8) ->
  (A + toff) mod 2 = 0 -> pc s = A ->
  exists stub k1 i1 k2 j,
    build_interpreter_trampoline_method_call false off toff = OK stub /\ List.length stub = 4%nat /\
    decode_all x stub = Some [Auipc 6 k1; Iop ADDI 6 6 i1; Auipc 1 k2; Jalr 1 1 j] /\
    exists s', exec_at v L A [Auipc 6 k1; Iop ADDI 6 6 i1; Auipc 1 k2; Jalr 1 1 j] s = Next s' /\
    call_effect s s' (u64 (A + toff)) (u64 (A + 16)) /\ rget s' 6 = u64 (A + off) /\
    cfi s' = cfi s /\
    (forall r, 0 <= r -> r <> 1 -> r <> 6 -> rget s' r = rget s r).
Proof.
  intros Hr Hmin Hr2 Hmin2 Hev Hpc.
  unfold build_interpreter_trampoline_method_call. rewrite !split_offset_spec.
  destruct (Z.ltb_spec (Z.abs off) 12); [lia|].
  destruct (Z.ltb_spec (Z.abs (toff - 8)) 12); [lia|].
  pose proof (split_lo_range off). pose proof (split_hi_range off).
  pose proof (split_lo_range (toff - 8)). pose proof (split_hi_range (toff - 8)).
  cbn. unfold c_RA, c_X0, c_CALL_TMP_REG in *.
  eexists. eexists. eexists. eexists. eexists. split; [reflexivity|]. split; [reflexivity|].
  unfold decode_all. cbn [fold_right].
  rewrite !decode_auipc_wide by lia. rewrite decode_jalr_any by lia. rewrite decode_addi_any by lia.
  split; [reflexivity|].
  rewrite Hpc, !Z.eqb_refl. eexists. split; [reflexivity|].
  split; [constructor|split; [|split]].
  - fields_simpl. regs_simpl. rewrite pair_sum by assumption.
    replace (A + 4 + 4 + (toff - 8)) with (A + toff) by lia. apply jalr_target. assumption.
  - regs_simpl. f_equal. lia.
  - fields_simpl. reflexivity.
  - fields_simpl. reflexivity.
  - regs_simpl. cbn [alui]. regs_simpl. rewrite u64_idem. apply pair_sum. assumption.
  - fields_simpl. reflexivity.
  - intros r Hr0 Hn1 Hnh. regs_simpl. reflexivity.
Qed.

Theorem interp_pic_call_reaches_x x v L s A off toff h hit :
  in_pair_range off -> 20 <= Z.abs off -> in_pair_range (toff - 12) -> 20 <= Z.abs (toff - 12) ->
  (A + toff) mod 2 = 0 -> 0 <= h < 2048 -> 0 < hit < 32 -> hit <> 1 -> hit <> 6 -> pc s = A ->
  exists stub k1 i1 ih k2 j,
    build_interpreter_trampoline_pic_call false off toff h hit = OK stub /\ List.length stub = 5%nat /\
    decode_all x stub = Some [Auipc 6 k1; Iop ADDI 6 6 i1; Iop ADDI hit 0 ih; Auipc 1 k2; Jalr 1 1 j] /\
    exists s', exec_at v L A [Auipc 6 k1; Iop ADDI 6 6 i1; Iop ADDI hit 0 ih; Auipc 1 k2; Jalr 1 1 j] s = Next s' /\
    call_effect s s' (u64 (A + toff)) (u64 (A + 20)) /\ rget s' 6 = u64 (A + off) /\
    rget s' hit = h /\ cfi s' = cfi s /\
    (forall r, 0 <= r -> r <> 1 -> r <> 6 -> r <> hit -> rget s' r = rget s r).
Proof.
  intros Hr Hmin Hr2 Hmin2 Hev Hh Hhit Hh1 Hht Hpc.
  unfold build_interpreter_trampoline_pic_call. rewrite !split_offset_spec.
  destruct (Z.ltb_spec (Z.abs off) 20); [lia|].
  destruct (Z.ltb_spec (Z.abs (toff - 12)) 20); [lia|].
  pose proof (split_lo_range off). pose proof (split_hi_range off).
  pose proof (split_lo_range (toff - 12)). pose proof (split_hi_range (toff - 12)).
  cbn. unfold c_RA, c_X0, c_CALL_TMP_REG in *.
  eexists. eexists. eexists. eexists. eexists. eexists. split; [reflexivity|]. split; [reflexivity|].
  unfold decode_all. cbn [fold_right].
  rewrite !decode_auipc_wide by lia. rewrite decode_jalr_any by lia. rewrite !decode_addi_any by lia.
  split; [reflexivity|].
  rewrite Hpc, !Z.eqb_refl. eexists. split; [reflexivity|].
  split; [constructor|split; [|split; [|split]]].
  - fields_simpl. regs_simpl. rewrite pair_sum by assumption.
    replace (A + 4 + 4 + 4 + (toff - 12)) with (A + toff) by lia. apply jalr_target. assumption.
  - regs_simpl. f_equal. lia.
  - fields_simpl. reflexivity.
  - fields_simpl. reflexivity.
  - regs_simpl. cbn [alui]. regs_simpl. rewrite u64_idem. apply pair_sum. assumption.
  - regs_simpl. cbn [alui]. regs_simpl. change (rget s 0) with 0. rewrite ?u64_idem.
    apply u64_sext_small. assumption.
  - fields_simpl. reflexivity.
  - intros r Hr0 Hn1 Hnt Hnh. regs_simpl. reflexivity.
Qed.

Lemma interp_method_call_min off toff stub :
  build_interpreter_trampoline_method_call false off toff = OK stub -> 12 <= Z.abs off /\ 12 <= Z.abs (toff - 8).
Proof.
  unfold build_interpreter_trampoline_method_call. rewrite !split_offset_spec.
  destruct (Z.ltb_spec (Z.abs off) 12); [discriminate|].
  destruct (Z.ltb_spec (Z.abs (toff - 8)) 12); [discriminate|]. intros _. lia.
Qed.

Lemma interp_pic_call_min off toff h hit stub :
  build_interpreter_trampoline_pic_call false off toff h hit = OK stub -> 20 <= Z.abs off /\ 20 <= Z.abs (toff - 12).
Proof.
  unfold build_interpreter_trampoline_pic_call. rewrite !split_offset_spec.
  destruct (Z.ltb_spec (Z.abs off) 20); [discriminate|].
  destruct (Z.ltb_spec (Z.abs (toff - 12)) 20); [discriminate|]. intros _. lia.
Qed.
