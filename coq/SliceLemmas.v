(* SliceLemmas.v — list facts about Python slice assignment l[i:i+len(new)] = new
   (Generator.replace_slice): what it writes, what it leaves alone. *)
From Coq Require Import ZArith List Lia.
From Gigue Require Import Generator.
Import ListNotations.

Lemma nth_error_firstn_lt' {A} : forall (l : list A) n i, (i < n)%nat -> nth_error (firstn n l) i = nth_error l i.
Proof.
  induction l as [|x tl IH]; intros n i H.
  - rewrite firstn_nil. reflexivity.
  - destruct n as [|n]; [lia|]. destruct i as [|i]; [reflexivity|]. cbn [firstn nth_error]. apply IH. lia.
Qed.
Lemma nth_error_firstn_ge {A} : forall (l : list A) n i, (n <= i)%nat -> nth_error (firstn n l) i = None.
Proof. intros l n i H. apply nth_error_None. rewrite firstn_length. lia. Qed.
Lemma nth_error_skipn' {A} : forall (l : list A) n i, nth_error (skipn n l) i = nth_error l (n + i).
Proof.
  induction l as [|x tl IH]; intros n i.
  - rewrite skipn_nil. destruct i, n; reflexivity.
  - destruct n as [|n]; [reflexivity|]. cbn [skipn plus nth_error]. apply IH.
Qed.

Lemma list_ext {A} : forall (l l' : list A), (forall i, nth_error l i = nth_error l' i) -> l = l'.
Proof.
  induction l as [|x tl IH]; intros l' H.
  - destruct l' as [|y tl']; [reflexivity|]. specialize (H O). discriminate.
  - destruct l' as [|y tl']; [specialize (H O); discriminate|].
    pose proof (H O) as H0. cbn in H0. inversion H0; subst. f_equal. apply IH. intros i. exact (H (S i)).
Qed.

(* pointwise description of the slice assignment (in-bounds) *)
Lemma nth_error_replace_slice {A} (l : list A) i new k :
  (i + List.length new <= List.length l)%nat ->
  nth_error (replace_slice l i new) k =
    if (k <? i)%nat then nth_error l k
    else if (k <? i + List.length new)%nat then nth_error new (k - i)
    else nth_error l k.
Proof.
  intros Hb. unfold replace_slice.
  assert (Hf : List.length (firstn i l) = i) by (rewrite firstn_length; lia).
  destruct (Nat.ltb_spec k i) as [H1|H1].
  - rewrite nth_error_app1 by lia. apply nth_error_firstn_lt'. exact H1.
  - rewrite nth_error_app2 by lia. rewrite Hf.
    destruct (Nat.ltb_spec k (i + List.length new)) as [H2|H2].
    + rewrite nth_error_app1 by lia. reflexivity.
    + rewrite nth_error_app2 by lia. rewrite nth_error_skipn'. f_equal. lia.
Qed.

Definition window {A} (l : list A) (j n : nat) : list A := firstn n (skipn j l).

Lemma nth_error_window {A} (l : list A) j n k :
  nth_error (window l j n) k = if (k <? n)%nat then nth_error l (j + k) else None.
Proof.
  unfold window. destruct (Nat.ltb_spec k n) as [H|H].
  - rewrite nth_error_firstn_lt' by exact H. apply nth_error_skipn'.
  - apply nth_error_firstn_ge. exact H.
Qed.

(* the written window reads back the new slice *)
Lemma window_written {A} (l : list A) i new :
  (i + List.length new <= List.length l)%nat -> window (replace_slice l i new) i (List.length new) = new.
Proof.
  intros Hb. apply list_ext. intros k. rewrite nth_error_window.
  destruct (Nat.ltb_spec k (List.length new)) as [H|H].
  - rewrite nth_error_replace_slice by exact Hb.
    destruct (Nat.ltb_spec (i + k) i); [lia|]. destruct (Nat.ltb_spec (i + k) (i + List.length new)); [|lia].
    f_equal. lia.
  - symmetry. apply nth_error_None. exact H.
Qed.

(* a window disjoint from the written slice is untouched *)
Lemma window_untouched {A} (l : list A) i new j n :
  (i + List.length new <= List.length l)%nat ->
  (j + n <= i \/ i + List.length new <= j)%nat ->
  window (replace_slice l i new) j n = window l j n.
Proof.
  intros Hb Hd. apply list_ext. intros k. rewrite !nth_error_window.
  destruct (Nat.ltb_spec k n) as [H|H]; [|reflexivity].
  rewrite nth_error_replace_slice by exact Hb.
  destruct (Nat.ltb_spec (j + k) i) as [H1|H1]; [reflexivity|].
  destruct (Nat.ltb_spec (j + k) (i + List.length new)) as [H2|H2]; [lia|reflexivity].
Qed.
