(* GenWF.v — Layer A: invariants of the generator model that hold for EVERY
   accepted configuration and EVERY decision script (hence every seed), with no
   bound on the number of methods, sizes or depths. *)
From Coq Require Import ZArith List String Bool Lia.
From Gigue Require Import Types Bits Isa Enc EncProofs GenTables Builder Samplers Generator GenLemmas.
Import ListNotations.
Open Scope Z_scope.

(* ------------------------------------------------------------ Hoare triples *)
Definition hoare {A} (P : gstate -> Prop) (m : M A) (Q : A -> gstate -> Prop) : Prop :=
  forall s, P s -> match m s with OK (a, s') => Q a s' | Err _ => True end.

Lemma hoare_ret {A} (P : gstate -> Prop) (a : A) : hoare P (ret a) (fun x s => x = a /\ P s).
Proof. intros s H. cbn. auto. Qed.

Lemma hoare_fail {A} P e (Q : A -> gstate -> Prop) : hoare P (fail e) Q.
Proof. intros s H. exact I. Qed.

Lemma hoare_bind {A B} P (m : M A) Q (f : A -> M B) R :
  hoare P m Q -> (forall a, hoare (Q a) (f a) R) -> hoare P (mbind m f) R.
Proof.
  intros Hm Hf s HP. unfold mbind. specialize (Hm s HP).
  destruct (m s) as [[a s']|e]; [|exact I]. apply (Hf a s' Hm).
Qed.

Lemma hoare_conseq {A} (P P' : gstate -> Prop) (m : M A) (Q Q' : A -> gstate -> Prop) :
  (forall s, P' s -> P s) -> (forall a s, Q a s -> Q' a s) -> hoare P m Q -> hoare P' m Q'.
Proof.
  intros HP HQ H s Hs. specialize (H s (HP s Hs)). destruct (m s) as [[a s']|e]; [|exact I]. apply HQ. exact H.
Qed.

Lemma hoare_lift {A} P (r : res A) : hoare P (lift r) (fun a s => P s /\ r = OK a).
Proof. intros s H. unfold lift. destruct r; [split; auto|exact I]. Qed.

(* ---- everything but the script ---- *)
Definition same_objects (s s' : gstate) : Prop :=
  g_methods s' = g_methods s /\ g_depths s' = g_depths s /\ g_elements s' = g_elements s.

(* the script only ever loses a prefix *)
Definition script_suffix (s s' : gstate) : Prop := exists pre, g_script s = pre ++ g_script s'.

Definition stable (P : gstate -> Prop) : Prop :=
  forall s s', P s -> same_objects s s' -> script_suffix s s' -> P s'.

Lemma same_objects_refl s : same_objects s s. Proof. repeat split. Qed.
Lemma same_objects_trans a b c : same_objects a b -> same_objects b c -> same_objects a c.
Proof. intros (A1 & A2 & A3) (B1 & B2 & B3). repeat split; congruence. Qed.

Lemma next_draw_spec P : stable P -> hoare P next_draw (fun _ s => P s).
Proof.
  intros St s H. unfold next_draw. destruct (g_script s) as [|d tl] eqn:E; [exact I|].
  eapply St; [exact H|repeat split|]. exists [d]. cbn. exact E.
Qed.

Ltac draw_tac St :=
  eapply hoare_bind; [apply next_draw_spec; exact St|];
  intros d; destruct d; try (apply hoare_fail).

Lemma draw_choice_spec P n :
  stable P -> hoare P (draw_choice n) (fun i s => P s /\ 0 <= i < n).
Proof.
  intros St. unfold draw_choice. destruct (n <=? 0); [apply hoare_fail|].
  draw_tac St. unfold mismatch.
  destruct ((n0 =? n) && (0 <=? i) && (i <? n)) eqn:E; [|apply hoare_fail].
  apply andb_prop in E. destruct E as [E E3]. apply andb_prop in E. destruct E as [E1 E2].
  intros s H. cbn. split; [exact H|]. apply Z.leb_le in E2. apply Z.ltb_lt in E3. lia.
Qed.

Lemma draw_choices_spec P n k w :
  stable P ->
  hoare P (draw_choices n k w)
        (fun idx s => P s /\ zlen idx = k /\ Forall (fun i => 0 <= i < n) idx).
Proof.
  intros St. unfold draw_choices. destruct ((n <=? 0) && (0 <? k)); [apply hoare_fail|].
  draw_tac St. unfold mismatch.
  match goal with |- context [if ?c then _ else _] => destruct c eqn:E end; [|apply hoare_fail].
  apply andb_prop in E. destruct E as [E Hall]. apply andb_prop in E. destruct E as [E Hlen].
  intros s Hs. cbn. split; [exact Hs|]. split.
  - unfold zlen. apply Z.eqb_eq. exact Hlen.
  - apply Forall_forall. intros x Hx.
    rewrite forallb_forall in Hall. specialize (Hall x Hx).
    apply andb_prop in Hall. destruct Hall as [A B]. apply Z.leb_le in A. apply Z.ltb_lt in B. lia.
Qed.

Lemma draw_randint_spec P a b :
  stable P -> hoare P (draw_randint a b) (fun v s => P s /\ a <= v <= b).
Proof.
  intros St. unfold draw_randint. destruct (b <? a); [apply hoare_fail|].
  draw_tac St. unfold mismatch.
  match goal with |- context [if ?c then _ else _] => destruct c eqn:E end; [|apply hoare_fail].
  repeat (apply andb_prop in E; destruct E as [E ?]).
  intros s Hs. cbn. split; [exact Hs|].
  match goal with H1 : (a <=? _) = true, H2 : (_ <=? b) = true |- _ => apply Z.leb_le in H1; apply Z.leb_le in H2; lia end.
Qed.

Lemma draw_gauss_valid P mu sigma :
  stable P -> hoare P (draw_gauss mu sigma) (fun x s => P s /\ SpecFloat.valid_binary prec emax x = true).
Proof.
  intros St. unfold draw_gauss. draw_tac St. unfold mismatch.
  destruct (fl_eqb mu mu0 && fl_eqb sigma sigma0 && SpecFloat.valid_binary prec emax x) eqn:E; [|apply hoare_fail].
  apply andb_prop in E. destruct E as [_ E]. intros s H. cbn. split; [exact H|exact E].
Qed.

Lemma draw_gauss_spec P mu sigma : stable P -> hoare P (draw_gauss mu sigma) (fun _ s => P s).
Proof.
  intros St. eapply hoare_conseq; [intros s H; exact H| |apply draw_gauss_valid; exact St].
  intros a s [H _]. exact H.
Qed.

Lemma draw_random_spec P : stable P -> hoare P draw_random (fun _ s => P s).
Proof. intros St. unfold draw_random. draw_tac St. intros s H. cbn. exact H. Qed.

Lemma draw_sample_spec P start stop step k :
  stable P ->
  hoare P (draw_sample start stop step k)
    (fun vals s => P s /\ zlen vals = k /\
       Forall (fun v => stop < v <= start /\ (start - v) mod (- step) = 0) vals /\ distinct vals = true).
Proof.
  intros St. unfold draw_sample.
  destruct ((range_len_neg start stop step <? k) || (k <? 0)); [apply hoare_fail|].
  draw_tac St. unfold mismatch.
  match goal with |- context [if ?c then _ else _] => destruct c eqn:E end; [|apply hoare_fail].
  repeat (apply andb_prop in E; destruct E as [E ?]).
  intros s Hs. cbn. split; [exact Hs|]. split; [unfold zlen; apply Z.eqb_eq; assumption|]. split; [|assumption].
  apply Forall_forall. intros x Hx.
  match goal with Hf : forallb _ _ = true |- _ => rewrite forallb_forall in Hf; specialize (Hf x Hx);
    repeat (apply andb_prop in Hf; destruct Hf as [Hf ?]) end.
  repeat match goal with
         | H : (_ <? _) = true |- _ => apply Z.ltb_lt in H
         | H : (_ <=? _) = true |- _ => apply Z.leb_le in H
         | H : (_ =? _) = true |- _ => apply Z.eqb_eq in H
         end. lia.
Qed.

Lemma draw_shuffle_spec P n : stable P -> hoare P (draw_shuffle n) (fun perm s => P s /\ zlen perm = n).
Proof.
  intros St. unfold draw_shuffle. draw_tac St. unfold mismatch.
  match goal with |- context [if ?c then _ else _] => destruct c eqn:E end; [|apply hoare_fail].
  repeat (apply andb_prop in E; destruct E as [E ?]).
  intros s Hs. cbn. split; [exact Hs|]. unfold zlen. apply Z.eqb_eq. assumption.
Qed.

Lemma draw_bytes_spec P n : stable P -> hoare P (draw_bytes n) (fun _ s => P s).
Proof.
  intros St. unfold draw_bytes. draw_tac St. unfold mismatch.
  match goal with |- context [if ?c then _ else _] => destruct c eqn:E end; [|apply hoare_fail].
  intros s Hs. cbn. exact Hs.
Qed.

(* ------------------------------------------------ what a random instruction is *)
Definition in_zlist (x : Z) (l : list Z) : bool := existsb (Z.eqb x) l.

Definition strip1 (name : string) : string :=
  if Enc.mem name (b_RIMI_S_INSTRUCTIONS ++ b_RIMI_I_INSTRUCTIONS_LOAD)
  then substring 0 (String.length name - 1) name else name.
Definition mem_width (name : string) : Z := width_of_name (strip1 name).

Definition is_load_name (name : string) : bool := Enc.mem name (b_I_INSTRUCTIONS_LOAD ++ b_RIMI_I_INSTRUCTIONS_LOAD).

(* the data-section access discipline of C03 for one instruction object *)
Definition data_access_ok (c : config) (name : string) (base imm : Z) : bool :=
  (base =? c_data_reg c) && (0 <=? imm) && (imm mod mem_width name =? 0)
  && (imm + mem_width name <=? align (c_data_size c) 8) && (imm <=? 2047) && (0 <? mem_width name).

Definition rand_ok (c : config) (g : gi) : bool :=
  let U := usable_registers c in
  match g with
  | GR name _ _ _ rd _ _ => Enc.mem name b_R_INSTRUCTIONS && in_zlist rd U
  | GI name _ _ _ rd rs1 imm =>
      if is_load_name name then in_zlist rd U && data_access_ok c name rs1 imm
      else Enc.mem name b_I_INSTRUCTIONS && in_zlist rd U
  | GU name _ rd _ => Enc.mem name b_U_INSTRUCTIONS && in_zlist rd U
  | GJ name _ rd imm => String.eqb name "jal" && in_zlist rd U && (imm =? 4)
  | GB name _ _ _ _ imm => Enc.mem name b_B_INSTRUCTIONS && (imm =? 4)
  | GS name _ _ rs1 _ imm => Enc.mem name (b_S_INSTRUCTIONS ++ b_RIMI_S_INSTRUCTIONS) && data_access_ok c name rs1 imm
  end.

(* ---- constructor shapes (independent of the tables' contents) ---- *)
Lemma of_opt_OK {A} (o : option A) a : of_opt o = OK a -> o = Some a.
Proof. destruct o; cbn; congruence. Qed.

Lemma R_shape name rd rs1 rs2 g : R_ name rd rs1 rs2 = OK g -> exists o f3 f7, g = mkR name o f3 rd rs1 rs2 f7.
Proof. unfold R_, r_instr. destruct (lookup_info base_table name); cbn; intros H; inversion H; eauto. Qed.
Lemma I_shape name rd rs1 imm g : I_ name rd rs1 imm = OK g -> exists o f3 f7, g = mkI name o f3 rd rs1 imm f7.
Proof. unfold I_, i_instr. destruct (lookup_info base_table name); cbn; intros H; inversion H; eauto. Qed.
Lemma RI_shape name rd rs1 imm g : RI_ name rd rs1 imm = OK g -> exists o f3 f7, g = mkI name o f3 rd rs1 imm f7.
Proof. unfold RI_, i_instr. destruct (lookup_info rimi_table name); cbn; intros H; inversion H; eauto. Qed.
Lemma U_shape name rd imm g : U_ name rd imm = OK g -> exists o, g = mkU name o rd imm.
Proof. unfold U_, u_instr. destruct (lookup_info base_table name); cbn; intros H; inversion H; eauto. Qed.
Lemma J_shape rd imm g : J_ rd imm = OK g -> exists o, g = mkJ "jal" o rd imm.
Proof. unfold J_, j_instr. destruct (lookup_info base_table "jal"); cbn; intros H; inversion H; eauto. Qed.
Lemma B_shape name rs1 rs2 imm g : B_ name rs1 rs2 imm = OK g -> exists o f3, g = mkB name o f3 rs1 rs2 imm.
Proof. unfold B_, b_instr. destruct (lookup_info base_table name); cbn; intros H; inversion H; eauto. Qed.
Lemma S_shape name rs1 rs2 imm g : S_ name rs1 rs2 imm = OK g -> exists o f3, g = mkS name o f3 rs1 rs2 imm.
Proof. unfold S_, s_instr. destruct (lookup_info base_table name); cbn; intros H; inversion H; eauto. Qed.
Lemma RS_shape name rs1 rs2 imm g : RS_ name rs1 rs2 imm = OK g -> exists o f3, g = mkS name o f3 rs1 rs2 imm.
Proof. unfold RS_, s_instr. destruct (lookup_info rimi_table name); cbn; intros H; inversion H; eauto. Qed.

Lemma ft5 r : 0 <= r < 32 -> format_to r 5 = r.
Proof. intros. apply format_to_small; [lia|]. change (2 ^ 5) with 32. lia. Qed.

Lemma imm_field_small imm : 0 <= imm <= 2047 -> format_to (to_unsigned imm 12) 12 = imm.
Proof. intros. rewrite imm12_field by lia. apply Z.mod_small. lia. Qed.

Lemma imm_field_4 n : format_to_aligned (to_unsigned 4 n) n = 4 -> True. Proof. auto. Qed.

Lemma b_imm_4 : format_to_aligned (to_unsigned 4 13) 13 = 4. Proof. reflexivity. Qed.
Lemma j_imm_4 : format_to_aligned (to_unsigned 4 21) 21 = 4. Proof. reflexivity. Qed.

(* ---- list facts ---- *)
Lemma nth_z_in regs i : 0 <= i < zlen regs -> In (nth_z regs i) regs.
Proof.
  intros H. unfold nth_z. apply nth_In. unfold zlen in H. lia.
Qed.

Lemma nth_str_in l i : 0 <= i < zlen l -> In (nth_str l i) l.
Proof. intros H. unfold nth_str. apply nth_In. unfold zlen in H. lia. Qed.

Lemma in_zlist_In x l : In x l -> in_zlist x l = true.
Proof.
  intros H. unfold in_zlist. apply existsb_exists. exists x. split; [exact H|apply Z.eqb_refl].
Qed.

Lemma mem_In s l : In s l -> Enc.mem s l = true.
Proof. intros H. unfold Enc.mem. apply existsb_exists. exists s. split; [exact H|apply String.eqb_refl]. Qed.

Lemma mem_true_In s l : Enc.mem s l = true -> In s l.
Proof.
  unfold Enc.mem. intros H. apply existsb_exists in H. destruct H as (x & Hx & E).
  apply String.eqb_eq in E. subst. exact Hx.
Qed.

(* ---- facts about the regenerated name lists, by computation ---- *)
Lemma widths_of_names :
  forallb (fun n => match alignment_of b_ALIGNMENT n with
                    | OK a => (a =? width_of_name n) && in_zlist a [1; 2; 4; 8]
                    | Err _ => false end) (b_S_INSTRUCTIONS ++ b_I_INSTRUCTIONS_LOAD) = true.
Proof. vm_compute. reflexivity. Qed.

Lemma store_width_names : forallb (fun n => mem_width n =? width_of_name n) b_S_INSTRUCTIONS = true.
Proof. vm_compute. reflexivity. Qed.
Lemma load_width_names :
  forallb (fun n => (mem_width n =? width_of_name n) && is_load_name n) b_I_INSTRUCTIONS_LOAD = true.
Proof. vm_compute. reflexivity. Qed.
Lemma arith_not_load : forallb (fun n => negb (is_load_name n)) b_I_INSTRUCTIONS = true.
Proof. vm_compute. reflexivity. Qed.
Lemma rimi_store_names :
  forallb (fun n => match rimi_store_name n with
                    | OK n1 => (mem_width n1 =? width_of_name n) && Enc.mem n1 b_RIMI_S_INSTRUCTIONS
                    | Err _ => false end) b_S_INSTRUCTIONS = true.
Proof. vm_compute. reflexivity. Qed.
Lemma rimi_load_names :
  forallb (fun n => match rimi_load_name n with
                    | OK n1 => (mem_width n1 =? width_of_name n) && is_load_name n1 | Err _ => false end)
          b_I_INSTRUCTIONS_LOAD = true.
Proof. vm_compute. reflexivity. Qed.

Lemma hoare_pure_pre {A} (P : gstate -> Prop) (phi : Prop) (m : M A) Q :
  (phi -> hoare P m Q) -> hoare (fun s => P s /\ phi) m Q.
Proof. intros H s [HP Hphi]. exact (H Hphi s HP). Qed.

Lemma hoare_pure_pre2 {A} (P : gstate -> Prop) (phi psi : Prop) (m : M A) Q :
  (phi -> psi -> hoare P m Q) -> hoare (fun s => P s /\ phi /\ psi) m Q.
Proof. intros H s (HP & H1 & H2). exact (H H1 H2 s HP). Qed.

Lemma hoare_lift_post {A} (P : gstate -> Prop) (r : res A) (Q : A -> gstate -> Prop) :
  (forall a, r = OK a -> forall s, P s -> Q a s) -> hoare P (lift r) Q.
Proof. intros H s HP. unfold lift. destruct r as [a|e]; [apply (H a eq_refl s HP)|exact I]. Qed.

Record cfg_facts (c : config) : Prop := {
  cf_regs_range : Forall (fun r => 0 <= r < 32) (usable_registers c);
  cf_data_reg : 0 <= c_data_reg c < 32;
  cf_data_size : 8 <= c_data_size c
}.

Lemma usable_nth_ok c i :
  cfg_facts c -> 0 <= i < zlen (usable_registers c) ->
  0 <= nth_z (usable_registers c) i < 32 /\ in_zlist (nth_z (usable_registers c) i) (usable_registers c) = true.
Proof.
  intros F Hi. pose proof (nth_z_in _ _ Hi) as Hin. split.
  - pose proof (cf_regs_range c F) as R. rewrite Forall_forall in R. apply R. exact Hin.
  - apply in_zlist_In. exact Hin.
Qed.

Lemma align_spec_name name al :
  In name (b_S_INSTRUCTIONS ++ b_I_INSTRUCTIONS_LOAD) -> alignment_of b_ALIGNMENT name = OK al ->
  al = width_of_name name /\ (al = 1 \/ al = 2 \/ al = 4 \/ al = 8).
Proof.
  intros Hin Hal. pose proof widths_of_names as W. rewrite forallb_forall in W. specialize (W name Hin).
  rewrite Hal in W. apply andb_prop in W. destruct W as [W1 W2]. apply Z.eqb_eq in W1. split; [exact W1|].
  unfold in_zlist in W2. cbn in W2.
  repeat match type of W2 with (?a =? ?b) || _ = true => destruct (Z.eqb_spec a b); [auto|cbn [orb] in W2] end.
  discriminate.
Qed.

(* the access produced by the store / load builders satisfies the C03 discipline *)
Lemma data_access_from_draw c name v al :
  cfg_facts c -> In name (b_S_INSTRUCTIONS ++ b_I_INSTRUCTIONS_LOAD) ->
  alignment_of b_ALIGNMENT name = OK al -> 0 <= v <= Z.min (c_data_size c - 8) 2047 ->
  forall name', mem_width name' = width_of_name name ->
  data_access_ok c name' (c_data_reg c) (align v al) = true.
Proof.
  intros F Hin Hal Hv name' Hw.
  destruct (align_spec_name name al Hin Hal) as [E Hcases].
  pose proof (offset_in_bounds (c_data_size c) v al (cf_data_size c F) Hv Hcases) as (B1 & B2 & B3 & B4).
  unfold data_access_ok. rewrite Hw, <- E. rewrite Z.eqb_refl.
  repeat (apply andb_true_intro; split); try apply Z.leb_le; try apply Z.ltb_lt; try apply Z.eqb_eq; try lia.
Qed.

Theorem random_instruction_ok (P : gstate -> Prop) c mo :
  stable P -> cfg_facts c ->
  hoare P (random_instruction c (usable_registers c) mo) (fun g s => P s /\ rand_ok c g = true).
Proof.
  intros St F. unfold random_instruction.
  set (U := usable_registers c).
  eapply hoare_bind; [apply draw_choices_spec; exact St|]. intros ks. apply hoare_pure_pre2. intros _ _.
  set (k := match ks with [k] => k | _ => 0 end).
  destruct (k =? 0).
  { (* R *)
    eapply hoare_bind; [apply draw_choice_spec; exact St|]. intros i. apply hoare_pure_pre. intros Hi.
    eapply hoare_bind; [apply draw_choices_spec; exact St|]. intros rs. apply hoare_pure_pre2. intros Hlen Hall.
    destruct rs as [|a [|b [|d [|? ?]]]]; try apply hoare_fail.
    apply hoare_lift_post. intros g Hg s HP. split; [exact HP|].
    destruct (R_shape _ _ _ _ _ Hg) as (o & f3 & f7 & ->). unfold mkR. cbn [rand_ok].
    inversion Hall as [|? ? _ Hall']; subst. inversion Hall' as [|? ? _ Hall'']; subst. inversion Hall'' as [|? ? Hd _]; subst.
    destruct (usable_nth_ok c d F Hd) as [R1 R2]. fold U in R1, R2 |- *. rewrite ft5 by exact R1. rewrite R2.
    rewrite (mem_In _ _ (nth_str_in _ _ Hi)). reflexivity. }
  destruct (k =? 1).
  { (* I *)
    eapply hoare_bind; [apply draw_choice_spec; exact St|]. intros i. apply hoare_pure_pre. intros Hi.
    eapply hoare_bind; [apply draw_choices_spec; exact St|]. intros rs. apply hoare_pure_pre2. intros Hlen Hall.
    eapply hoare_bind; [apply draw_randint_spec; exact St|]. intros imm. apply hoare_pure_pre. intros Himm.
    destruct rs as [|d [|a [|? ?]]]; try apply hoare_fail.
    apply hoare_lift_post. intros g Hg s HP. split; [exact HP|].
    destruct (I_shape _ _ _ _ _ Hg) as (o & f3 & f7 & ->). unfold mkI. cbn [rand_ok].
    assert (Hn : is_load_name (nth_str b_I_INSTRUCTIONS i) = false).
    { pose proof arith_not_load as W. rewrite forallb_forall in W.
      apply negb_true_iff. apply W. apply nth_str_in. exact Hi. }
    rewrite Hn. inversion Hall as [|? ? Hd _]; subst.
    destruct (usable_nth_ok c d F Hd) as [R1 R2]. fold U in R1, R2 |- *. rewrite ft5 by exact R1. rewrite R2.
    rewrite (mem_In _ _ (nth_str_in _ _ Hi)). reflexivity. }
  destruct (k =? 2).
  { (* U *)
    eapply hoare_bind; [apply draw_choice_spec; exact St|]. intros i. apply hoare_pure_pre. intros Hi.
    eapply hoare_bind; [apply draw_choice_spec; exact St|]. intros d. apply hoare_pure_pre. intros Hd.
    eapply hoare_bind; [apply draw_randint_spec; exact St|]. intros imm. apply hoare_pure_pre. intros Himm.
    apply hoare_lift_post. intros g Hg s HP. split; [exact HP|].
    destruct (U_shape _ _ _ _ Hg) as (o & ->). unfold mkU. cbn [rand_ok].
    destruct (usable_nth_ok c d F Hd) as [R1 R2]. fold U in R1, R2 |- *. rewrite ft5 by exact R1. rewrite R2.
    rewrite (mem_In _ _ (nth_str_in _ _ Hi)). reflexivity. }
  destruct (k =? 3).
  { (* J *)
    eapply hoare_bind; [apply draw_choice_spec; exact St|]. intros d. apply hoare_pure_pre. intros Hd.
    eapply hoare_bind; [apply draw_choice_spec; exact St|]. intros x. apply hoare_pure_pre. intros _.
    apply hoare_lift_post. intros g Hg s HP. split; [exact HP|].
    destruct (J_shape _ _ _ Hg) as (o & ->). unfold mkJ. cbn [rand_ok]. rewrite j_imm_4.
    destruct (usable_nth_ok c d F Hd) as [R1 R2]. fold U in R1, R2 |- *. rewrite ft5 by exact R1. rewrite R2. reflexivity. }
  destruct (k =? 4).
  { (* B *)
    eapply hoare_bind; [apply draw_choice_spec; exact St|]. intros i. apply hoare_pure_pre. intros Hi.
    eapply hoare_bind; [apply draw_choices_spec; exact St|]. intros rs. apply hoare_pure_pre2. intros Hlen Hall.
    eapply hoare_bind; [apply draw_choice_spec; exact St|]. intros x. apply hoare_pure_pre. intros _.
    destruct rs as [|a [|b [|? ?]]]; try apply hoare_fail.
    apply hoare_lift_post. intros g Hg s HP. split; [exact HP|].
    destruct (B_shape _ _ _ _ _ Hg) as (o & f3 & ->). unfold mkB. cbn [rand_ok]. rewrite b_imm_4.
    rewrite (mem_In _ _ (nth_str_in _ _ Hi)). reflexivity. }
  destruct (k =? 5).
  { (* S *)
    eapply hoare_bind; [apply draw_choice_spec; exact St|]. intros i. apply hoare_pure_pre. intros Hi.
    eapply hoare_bind; [apply draw_choice_spec; exact St|]. intros r2. apply hoare_pure_pre. intros Hr2.
    eapply hoare_bind; [apply hoare_lift|]. intros al. apply hoare_pure_pre. intros Hal.
    eapply hoare_bind; [apply draw_randint_spec; exact St|]. intros v. apply hoare_pure_pre. intros Hv.
    set (name := nth_str b_S_INSTRUCTIONS i) in *.
    assert (Hin : In name (b_S_INSTRUCTIONS ++ b_I_INSTRUCTIONS_LOAD)).
    { apply in_or_app. left. apply nth_str_in. exact Hi. }
    assert (Hin' : In name b_S_INSTRUCTIONS) by (apply nth_str_in; exact Hi).
    destruct (align_spec_name name al Hin Hal) as [Eal Hcases].
    pose proof (offset_in_bounds (c_data_size c) v al (cf_data_size c F) Hv Hcases) as (B1 & B2 & B3 & B4).
    pose proof (cf_data_reg c F) as Hdr.
    destruct (c_variant c) eqn:Ev.
    1,2,3,5: (apply hoare_lift_post; intros g Hg s HP; split; [exact HP|];
      destruct (S_shape _ _ _ _ _ Hg) as (o & f3 & ->); unfold mkS; cbn [rand_ok];
      rewrite ft5 by exact Hdr; rewrite imm_field_small by lia;
      rewrite (mem_In name _ (in_or_app _ _ _ (or_introl Hin'))); cbn [andb];
      apply (data_access_from_draw c name v al F Hin Hal Hv);
      pose proof store_width_names as W; rewrite forallb_forall in W; specialize (W name Hin');
      apply Z.eqb_eq in W; exact W).
    (* RIMI full: rebuilt as the duplicated store from the base object's fields *)
    eapply hoare_bind; [apply hoare_lift|]. intros base. apply hoare_pure_pre. intros Hbase.
    eapply hoare_bind; [apply hoare_lift|]. intros n1. apply hoare_pure_pre. intros Hn1.
    destruct (S_shape _ _ _ _ _ Hbase) as (o & f3 & ->). unfold mkS.
    apply hoare_lift_post. intros g Hg s HP. split; [exact HP|].
    destruct (RS_shape _ _ _ _ _ Hg) as (o' & f3' & ->). unfold mkS. cbn [rand_ok].
    rewrite !ft5 by (rewrite ?ft5 by exact Hdr; exact Hdr).
    rewrite !imm_field_small by (rewrite ?imm_field_small by lia; lia).
    pose proof rimi_store_names as W.
    rewrite forallb_forall in W. specialize (W name Hin'). rewrite Hn1 in W.
    apply andb_prop in W. destruct W as [W Wm]. apply Z.eqb_eq in W.
    rewrite (mem_In n1 _ (in_or_app _ _ _ (or_intror (mem_true_In _ _ Wm)))). cbn [andb].
    apply (data_access_from_draw c name v al F Hin Hal Hv). exact W. }
  (* L *)
  eapply hoare_bind; [apply draw_choice_spec; exact St|]. intros i. apply hoare_pure_pre. intros Hi.
  eapply hoare_bind; [apply draw_choice_spec; exact St|]. intros d. apply hoare_pure_pre. intros Hd.
  eapply hoare_bind; [apply hoare_lift|]. intros al. apply hoare_pure_pre. intros Hal.
  eapply hoare_bind; [apply draw_randint_spec; exact St|]. intros v. apply hoare_pure_pre. intros Hv.
  set (name := nth_str b_I_INSTRUCTIONS_LOAD i) in *.
  assert (Hin : In name (b_S_INSTRUCTIONS ++ b_I_INSTRUCTIONS_LOAD)).
  { apply in_or_app. right. apply nth_str_in. exact Hi. }
  assert (Hin' : In name b_I_INSTRUCTIONS_LOAD) by (apply nth_str_in; exact Hi).
  destruct (align_spec_name name al Hin Hal) as [Eal Hcases].
  pose proof (offset_in_bounds (c_data_size c) v al (cf_data_size c F) Hv Hcases) as (B1 & B2 & B3 & B4).
  pose proof (cf_data_reg c F) as Hdr.
  destruct (usable_nth_ok c d F Hd) as [R1 R2]. fold U in R1, R2.
  pose proof load_width_names as W. rewrite forallb_forall in W. specialize (W name Hin').
  apply andb_prop in W. destruct W as [Hw Hl]. apply Z.eqb_eq in Hw.
  destruct (c_variant c) eqn:Ev.
  1,2,3,5: (apply hoare_lift_post; intros g Hg s HP; split; [exact HP|];
    destruct (I_shape _ _ _ _ _ Hg) as (o & f3 & f7 & ->); unfold mkI; cbn [rand_ok];
    rewrite Hl; rewrite !ft5 by assumption; rewrite imm_field_small by lia; fold U; rewrite R2; cbn [andb];
    apply (data_access_from_draw c name v al F Hin Hal Hv); exact Hw).
  eapply hoare_bind; [apply hoare_lift|]. intros base. apply hoare_pure_pre. intros Hbase.
  eapply hoare_bind; [apply hoare_lift|]. intros n1. apply hoare_pure_pre. intros Hn1.
  destruct (I_shape _ _ _ _ _ Hbase) as (o & f3 & f7 & ->). unfold mkI.
  apply hoare_lift_post. intros g Hg s HP. split; [exact HP|].
  destruct (RI_shape _ _ _ _ _ Hg) as (o' & f3' & f7' & ->). unfold mkI. cbn [rand_ok].
  pose proof rimi_load_names as W'.
  rewrite forallb_forall in W'. specialize (W' name Hin'). rewrite Hn1 in W'.
  apply andb_prop in W'. destruct W' as [Hw1 Hl1]. apply Z.eqb_eq in Hw1.
  rewrite Hl1. rewrite !ft5 by (rewrite ?ft5 by assumption; assumption).
  rewrite !imm_field_small by (rewrite ?imm_field_small by lia; lia).
  fold U. rewrite R2. cbn [andb].
  apply (data_access_from_draw c name v al F Hin Hal Hv). exact Hw1.
Qed.

(* ------------------------------------------------ instructions of a method *)
Definition res_list (r : res (list gi)) : list gi := match r with OK l => l | Err _ => [] end.

(* the prologue / epilogue instructions a variant's methods can contain *)
Definition frame_instrs (v : gvariant) : list gi :=
  let b := bvariant_of v in
  res_list (build_prologue b m_used_s_regs m_local_vars_nb false)
  ++ res_list (build_prologue b m_used_s_regs m_local_vars_nb true)
  ++ res_list (build_epilogue b m_used_s_regs m_local_vars_nb false)
  ++ res_list (build_epilogue b m_used_s_regs m_local_vars_nb true).

Definition zeqb4 (a b c d a' b' c' d' : Z) : bool := (a =? a') && (b =? b') && (c =? c') && (d =? d').
Definition gi_same (a b : gi) : bool :=
  match a, b with
  | GR n o f3 f7 rd r1 r2, GR n' o' f3' f7' rd' r1' r2' =>
      String.eqb n n' && zeqb4 o f3 f7 rd o' f3' f7' rd' && (r1 =? r1') && (r2 =? r2')
  | GI n o f3 f7 rd r1 im, GI n' o' f3' f7' rd' r1' im' =>
      String.eqb n n' && zeqb4 o f3 f7 rd o' f3' f7' rd' && (r1 =? r1') && (im =? im')
  | GU n o rd im, GU n' o' rd' im' => String.eqb n n' && (o =? o') && (rd =? rd') && (im =? im')
  | GJ n o rd im, GJ n' o' rd' im' => String.eqb n n' && (o =? o') && (rd =? rd') && (im =? im')
  | GS n o f3 r1 r2 im, GS n' o' f3' r1' r2' im' => String.eqb n n' && zeqb4 o f3 r1 r2 o' f3' r1' r2' && (im =? im')
  | GB n o f3 r1 r2 im, GB n' o' f3' r1' r2' im' => String.eqb n n' && zeqb4 o f3 r1 r2 o' f3' r1' r2' && (im =? im')
  | _, _ => false
  end.

Lemma gi_same_refl g : gi_same g g = true.
Proof.
  destruct g; cbn; unfold zeqb4; rewrite ?String.eqb_refl, ?Z.eqb_refl; reflexivity.
Qed.

Definition frame_ok (v : gvariant) (g : gi) : bool := existsb (gi_same g) (frame_instrs v).

(* instructions of a call stub inside a body: auipc / jalr through ra, and for
   FIXER the tag sequence through the reserved register *)
Definition stub_ok (fx : bool) (g : gi) : bool :=
  match g with
  | GU name _ rd _ => String.eqb name "auipc" && ((rd =? 1) || (fx && (rd =? 28)))
  | GI name _ _ _ rd rs1 _ =>
      (String.eqb name "jalr" && (rd =? 1) && (rs1 =? 1)) || (fx && String.eqb name "addi" && (rd =? 28) && (rs1 =? 28))
  | GR name _ _ _ rd rs1 _ => fx && String.eqb name "cficall" && (rd =? 0) && (rs1 =? 28)
  | _ => false
  end.

Definition is_fixer (v : gvariant) : bool := match v with GFixer => true | _ => false end.

Definition instr_ok (c : config) (g : gi) : bool :=
  rand_ok c g || frame_ok (c_variant c) g || stub_ok (is_fixer (c_variant c)) g.

Definition method_ok (c : config) (m : method) : Prop := Forall (fun g => instr_ok c g = true) (m_instrs m).
Definition Inv (c : config) (s : gstate) : Prop := Forall (method_ok c) (g_methods s).

Lemma Inv_stable c : stable (Inv c).
Proof. intros s s' H (E & _ & _) _. unfold Inv in *. rewrite E. exact H. Qed.

Lemma fill_body_ok P c n : forall rem,
  stable P -> cfg_facts c ->
  hoare P (fill_body c (usable_registers c) n rem) (fun l s => P s /\ Forall (fun g => rand_ok c g = true) l).
Proof.
  induction n as [|k IH]; intros rem St F; cbn [fill_body].
  - intros s H. cbn. split; [exact H|constructor].
  - eapply hoare_bind; [apply random_instruction_ok; assumption|]. intros g. apply hoare_pure_pre. intros Hg.
    eapply hoare_bind; [apply IH; assumption|]. intros rest. apply hoare_pure_pre. intros Hrest.
    intros s H. cbn. split; [exact H|constructor; assumption].
Qed.

Lemma frame_ok_prologue v cc pro :
  build_prologue (bvariant_of v) m_used_s_regs m_local_vars_nb cc = OK pro ->
  Forall (fun g => frame_ok v g = true) pro.
Proof.
  intros H. apply Forall_forall. intros g Hg. unfold frame_ok. apply existsb_exists. exists g.
  split; [|apply gi_same_refl]. unfold frame_instrs.
  destruct cc.
  - apply in_or_app. right. apply in_or_app. left. rewrite H. exact Hg.
  - apply in_or_app. left. rewrite H. exact Hg.
Qed.

Lemma frame_ok_epilogue v cc epi :
  build_epilogue (bvariant_of v) m_used_s_regs m_local_vars_nb cc = OK epi ->
  Forall (fun g => frame_ok v g = true) epi.
Proof.
  intros H. apply Forall_forall. intros g Hg. unfold frame_ok. apply existsb_exists. exists g.
  split; [|apply gi_same_refl]. unfold frame_instrs.
  destruct cc.
  - apply in_or_app. right. apply in_or_app. right. apply in_or_app. right. rewrite H. exact Hg.
  - apply in_or_app. right. apply in_or_app. right. apply in_or_app. left. rewrite H. exact Hg.
Qed.

Lemma Forall_weaken_instr c l (Q : gi -> bool) :
  (forall g, Q g = true -> instr_ok c g = true) -> Forall (fun g => Q g = true) l ->
  Forall (fun g => instr_ok c g = true) l.
Proof. intros H F. eapply Forall_impl; [|exact F]. exact H. Qed.

Lemma rand_instr_ok c g : rand_ok c g = true -> instr_ok c g = true.
Proof. intros H. unfold instr_ok. rewrite H. reflexivity. Qed.
Lemma frame_instr_ok c g : frame_ok (c_variant c) g = true -> instr_ok c g = true.
Proof. intros H. unfold instr_ok. rewrite H. apply orb_true_iff. left. apply orb_true_r. Qed.
Lemma stub_instr_ok c g : stub_ok (is_fixer (c_variant c)) g = true -> instr_ok c g = true.
Proof. intros H. unfold instr_ok. rewrite H. apply orb_true_r. Qed.

(* Method.fill_with_instructions: prologue ++ random body ++ epilogue *)
Lemma fill_method_ok P c m :
  stable P -> cfg_facts c ->
  hoare P (fill_method c m) (fun m' s => P s /\ method_ok c m' /\ m_addr m' = m_addr m /\ m_depth m' = m_depth m
                                         /\ m_calls m' = m_calls m /\ m_body m' = m_body m).
Proof.
  intros St F. unfold fill_method.
  eapply hoare_bind; [apply hoare_lift|]. intros pro. apply hoare_pure_pre. intros Hpro.
  eapply hoare_bind; [apply fill_body_ok; assumption|]. intros body. apply hoare_pure_pre. intros Hbody.
  eapply hoare_bind; [apply hoare_lift|]. intros epi. apply hoare_pure_pre. intros Hepi.
  intros s H. cbn. split; [exact H|]. split; [|repeat split].
  unfold method_ok. cbn [m_instrs]. apply Forall_app. split; [|apply Forall_app; split].
  - eapply Forall_weaken_instr; [apply frame_instr_ok|]. eapply frame_ok_prologue. exact Hpro.
  - eapply Forall_weaken_instr; [apply rand_instr_ok|]. exact Hbody.
  - eapply Forall_weaken_instr; [apply frame_instr_ok|]. eapply frame_ok_epilogue. exact Hepi.
Qed.

Lemma fill_method_ok' P c m :
  stable P -> cfg_facts c -> hoare P (fill_method c m) (fun m' s => P s /\ method_ok c m').
Proof.
  intros St F. eapply hoare_conseq; [intros s0 H0; exact H0| |apply fill_method_ok; assumption].
  intros a s0 (H1 & H2 & _). split; assumption.
Qed.

(* ------------------------------------------------ state-changing primitives *)
Lemma m_trunc_norm_spec P fuel mu sigma : stable P -> hoare P (m_trunc_norm fuel mu sigma) (fun _ s => P s).
Proof.
  intros St. induction fuel as [|k IH]; cbn [m_trunc_norm]; [apply hoare_fail|].
  eapply hoare_bind; [apply draw_gauss_spec; exact St|]. intros x.
  destruct (fle fzero x && fle x fone); [|exact IH]. intros s H. cbn. exact H.
Qed.

Lemma m_poisson_spec P c : stable P -> hoare P (m_poisson c) (fun _ s => P s).
Proof.
  intros St. unfold m_poisson. eapply hoare_bind; [apply draw_random_spec; exact St|]. intros u.
  destruct (generate_poisson _ _ _ u); [|apply hoare_fail]. intros s H. cbn. exact H.
Qed.

Lemma m_ztp_spec P c : stable P -> hoare P (m_ztp c) (fun _ s => P s).
Proof.
  intros St. unfold m_ztp. destruct (c_mean_case c =? 0); [apply hoare_fail|].
  eapply hoare_bind; [apply draw_random_spec; exact St|]. intros u.
  destruct (generate_ztp _ _ _ u); [|apply hoare_fail]. intros s H. cbn. exact H.
Qed.

Lemma new_method_instrs c addr body calls depth m :
  new_method c addr body calls depth = OK m -> m_instrs m = [] /\ m_depth m = depth /\ m_addr m = addr.
Proof.
  unfold new_method. destruct (_ <? calls); [discriminate|]. intros H. inversion H. cbn. auto.
Qed.

Lemma size_method_spec P c addr leaf :
  stable P -> hoare P (size_method c addr leaf) (fun m s => P s /\ m_instrs m = []).
Proof.
  intros St. unfold size_method.
  eapply hoare_bind; [apply m_trunc_norm_spec; exact St|]. intros v.
  eapply hoare_bind; [apply draw_random_spec; exact St|]. intros us.
  eapply hoare_bind; [apply hoare_lift|]. intros body. apply hoare_pure_pre. intros _.
  destruct leaf.
  - apply hoare_lift_post. intros m Hm s H. split; [exact H|]. apply (new_method_instrs _ _ _ _ _ _ Hm).
  - eapply hoare_bind; [apply m_trunc_norm_spec; exact St|]. intros occ.
    eapply hoare_bind; [apply hoare_lift|]. intros calls. apply hoare_pure_pre. intros _.
    eapply hoare_bind with (Q := fun _ s => P s).
    { destruct (0 <? calls); [apply m_poisson_spec; exact St|]. intros s H. cbn. exact H. }
    intros depth.
    eapply hoare_bind; [apply hoare_lift|]. intros m. apply hoare_pure_pre. intros Hm.
    destruct (body =? 0); [apply hoare_fail|]. intros s H. cbn. split; [exact H|].
    apply (new_method_instrs _ _ _ _ _ _ Hm).
Qed.

Lemma add_method_spec c m :
  hoare (fun s => Inv c s /\ method_ok c m) (add_method m) (fun _ s => Inv c s).
Proof.
  intros s [HI Hm]. unfold add_method. cbn. unfold Inv in *. cbn [g_methods].
  apply Forall_app. split; [exact HI|]. constructor; [exact Hm|constructor].
Qed.

Lemma register_method_spec c id d : hoare (Inv c) (register_method id d) (fun _ s => Inv c s).
Proof. intros s H. unfold register_method. cbn. exact H. Qed.
Lemma push_element_spec c e : hoare (Inv c) (push_element e) (fun _ s => Inv c s).
Proof. intros s H. unfold push_element. cbn. exact H. Qed.

Lemma hoare_pre_and {A} (P : gstate -> Prop) (phi : Prop) (m : M A) Q :
  phi -> hoare (fun s => P s /\ phi) m Q -> hoare P m Q.
Proof. intros Hphi H s HP. apply H. split; assumption. Qed.

Lemma add_methods_spec c ms :
  Forall (method_ok c) ms -> hoare (Inv c) (add_methods ms) (fun _ s => Inv c s).
Proof.
  induction ms as [|m tl IH]; intros HF; cbn [add_methods].
  - intros s H. cbn. exact H.
  - inversion HF as [|? ? Hm Htl]; subst.
    eapply hoare_bind; [eapply hoare_pre_and; [exact Hm|apply add_method_spec]|]. intros id.
    eapply hoare_bind; [apply IH; exact Htl|]. intros rest. intros s H. cbn. exact H.
Qed.

Lemma register_methods_spec c ids : forall ms, hoare (Inv c) (register_methods ids ms) (fun _ s => Inv c s).
Proof.
  induction ids as [|id it IH]; intros ms; cbn [register_methods].
  - intros s H. cbn. exact H.
  - destruct ms as [|m mt]; [intros s H; cbn; exact H|].
    eapply hoare_bind; [apply register_method_spec|]. intro. apply IH.
Qed.

Lemma size_cases_spec P c n : forall addr,
  stable P -> hoare P (size_cases c n addr) (fun ms s => P s).
Proof.
  induction n as [|k IH]; intros addr St; cbn [size_cases].
  - intros s H. cbn. exact H.
  - eapply hoare_bind; [apply size_method_spec; exact St|]. intros m. apply hoare_pure_pre. intros _.
    eapply hoare_bind; [apply IH; exact St|]. intros rest. intros s H. cbn. exact H.
Qed.

Lemma fill_cases_spec P c ms :
  stable P -> cfg_facts c -> hoare P (fill_cases c ms) (fun ms' s => P s /\ Forall (method_ok c) ms').
Proof.
  intros St F. induction ms as [|m tl IH]; cbn [fill_cases].
  - intros s H. cbn. split; [exact H|constructor].
  - eapply hoare_bind; [apply fill_method_ok'; assumption|]. intros m'.
    apply hoare_pure_pre. intros Hm.
    eapply hoare_bind; [exact IH|]. intros rest. apply hoare_pure_pre. intros Hrest.
    intros s H. cbn. split; [exact H|constructor; assumption].
Qed.

Lemma add_element_spec c addr remaining :
  cfg_facts c -> hoare (Inv c) (add_element c addr remaining) (fun _ s => Inv c s).
Proof.
  intros F. unfold add_element. pose proof (Inv_stable c) as St.
  eapply hoare_bind; [apply draw_choices_spec; exact St|]. intros ks. apply hoare_pure_pre2. intros _ _.
  destruct ks as [|k [|? ?]]; cbv beta iota; [apply hoare_fail| |destruct k; apply hoare_fail].
  destruct k as [|p|p].
  - eapply hoare_bind; [apply size_method_spec; exact St|]. intros m. apply hoare_pure_pre. intros _.
    eapply hoare_bind; [apply fill_method_ok'; assumption|]. intros m'.
    eapply hoare_bind; [apply add_method_spec|]. intros id.
    eapply hoare_bind; [apply push_element_spec|]. intro.
    eapply hoare_bind; [apply register_method_spec|]. intro. intros s H. cbn. exact H.
  - eapply hoare_bind; [apply m_ztp_spec; exact St|]. intros z.
    eapply hoare_bind; [apply size_cases_spec; exact St|]. intros ms.
    eapply hoare_bind; [apply fill_cases_spec; assumption|]. intros ms'. apply hoare_pure_pre. intros Hms.
    eapply hoare_bind; [apply hoare_lift|]. intros sw. apply hoare_pure_pre. intros _.
    eapply hoare_bind; [apply add_methods_spec; exact Hms|]. intros ids.
    eapply hoare_bind; [apply push_element_spec|]. intro.
    eapply hoare_bind; [apply register_methods_spec|]. intro. intros s H. cbn. exact H.
  - eapply hoare_bind; [apply m_ztp_spec; exact St|]. intros z.
    eapply hoare_bind; [apply size_cases_spec; exact St|]. intros ms.
    eapply hoare_bind; [apply fill_cases_spec; assumption|]. intros ms'. apply hoare_pure_pre. intros Hms.
    eapply hoare_bind; [apply hoare_lift|]. intros sw. apply hoare_pure_pre. intros _.
    eapply hoare_bind; [apply add_methods_spec; exact Hms|]. intros ids.
    eapply hoare_bind; [apply push_element_spec|]. intro.
    eapply hoare_bind; [apply register_methods_spec|]. intro. intros s H. cbn. exact H.
Qed.

Lemma fill_loop_spec c fuel : forall addr count,
  cfg_facts c -> hoare (Inv c) (fill_loop c fuel addr count) (fun _ s => Inv c s).
Proof.
  induction fuel as [|k IH]; intros addr count F; cbn [fill_loop].
  - destruct (c_nb_methods c <=? count); [intros s H; cbn; exact H|apply hoare_fail].
  - destruct (c_nb_methods c <=? count); [intros s H; cbn; exact H|].
    eapply hoare_bind; [apply add_element_spec; exact F|]. intros [size nm]. apply IH. exact F.
Qed.

Lemma fill_jit_code_spec c start :
  cfg_facts c -> hoare (Inv c) (fill_jit_code c start) (fun _ s => Inv c s).
Proof.
  intros F. unfold fill_jit_code. pose proof (Inv_stable c) as St.
  eapply hoare_bind; [apply size_method_spec; exact St|]. intros m. apply hoare_pure_pre. intros _.
  eapply hoare_bind; [apply fill_method_ok'; assumption|]. intros m'.
  eapply hoare_bind; [apply add_method_spec|]. intros id.
  eapply hoare_bind; [apply push_element_spec|]. intro.
  eapply hoare_bind; [apply register_method_spec|]. intro.
  apply fill_loop_spec. exact F.
Qed.

(* ---------------------------------------------------------------- phase 2 *)
Lemma sequence_OK {A} (l : list (res A)) out :
  sequence l = OK out -> Forall2 (fun r a => r = OK a) l out.
Proof.
  revert out. induction l as [|r tl IH]; intros out; cbn [sequence].
  - intros H; inversion H. constructor.
  - destruct r as [a|e]; cbn [bind]; [|discriminate].
    destruct (sequence tl) as [rest|e]; cbn [bind]; [|discriminate].
    intros H; inversion H; subst. constructor; [reflexivity|]. apply IH. reflexivity.
Qed.

Lemma base_call_stub_ok fx offset stub :
  build_method_base_call offset = OK stub -> Forall (fun g => stub_ok fx g = true) stub.
Proof.
  unfold build_method_base_call. destruct (split_offset offset 8) as [[lo hi]|e]; cbn [bind]; [|discriminate].
  intros H. apply sequence_OK in H.
  inversion H as [|? ? ? ? H1 H']; subst. inversion H' as [|? ? ? ? H2 H'']; subst. inversion H''; subst.
  destruct (U_shape _ _ _ _ H1) as (o & ->). destruct (I_shape _ _ _ _ _ H2) as (o' & f3 & f7 & ->).
  unfold mkU, mkI. repeat constructor; cbn [stub_ok]; rewrite ?ft5 by (vm_compute; split; discriminate);
    vm_compute; reflexivity.
Qed.

Lemma method_base_call_stub_ok v offset stub :
  method_base_call (bvariant_of v) offset = OK stub -> Forall (fun g => stub_ok (is_fixer v) g = true) stub.
Proof.
  unfold method_base_call. destruct v; cbn [bvariant_of is_fixer]; try apply base_call_stub_ok.
  unfold fixer_method_base_call. destruct (Z.abs offset <? 20); [discriminate|].
  destruct (sequence _) as [pre|e] eqn:Epre; cbn [bind]; [|discriminate].
  destruct (build_method_base_call (offset - 12)) as [call|e] eqn:Ecall; cbn [bind]; [|discriminate].
  intros H; inversion H; subst. apply Forall_app. split; [|eapply (base_call_stub_ok true); exact Ecall].
  apply sequence_OK in Epre.
  inversion Epre as [|? ? ? ? H1 H']; subst. inversion H' as [|? ? ? ? H2 H'']; subst.
  inversion H'' as [|? ? ? ? H3 H''']; subst. inversion H'''; subst.
  destruct (U_shape _ _ _ _ H1) as (o & ->). destruct (I_shape _ _ _ _ _ H2) as (o' & f3 & f7 & ->).
  unfold FX_, custom_instr in H3.
  destruct (lookup_info fixer_table "cficall") as [e|]; cbn in H3; [|discriminate].
  destruct (ii_x e) as [[[xd xs1] xs2]|]; cbn in H3; [|discriminate]. inversion H3; subst.
  unfold mkU, mkI, mkRoCC, mkR. repeat constructor; cbn [stub_ok];
    rewrite ?ft5 by (vm_compute; split; discriminate); vm_compute; reflexivity.
Qed.


Lemma Forall_firstn {A} (P : A -> Prop) : forall n l, Forall P l -> Forall P (firstn n l).
Proof.
  induction n as [|k IH]; intros l H; [constructor|]. destruct l as [|x tl]; [constructor|].
  inversion H; subst. cbn [firstn]. constructor; [assumption|apply IH; assumption].
Qed.
Lemma Forall_skipn {A} (P : A -> Prop) : forall n l, Forall P l -> Forall P (skipn n l).
Proof.
  induction n as [|k IH]; intros l H; [exact H|]. destruct l as [|x tl]; [constructor|].
  inversion H; subst. cbn [skipn]. apply IH; assumption.
Qed.

Lemma Forall_replace_slice {A} (P : A -> Prop) l i new :
  Forall P l -> Forall P new -> Forall P (replace_slice l i new).
Proof.
  intros Hl Hn. unfold replace_slice. apply Forall_app. split; [apply Forall_firstn; exact Hl|].
  apply Forall_app. split; [exact Hn|apply Forall_skipn; exact Hl].
Qed.

Lemma patch_calls_ok c self_addr : forall idx callees instrs out,
  Forall (fun g => instr_ok c g = true) instrs ->
  patch_calls c self_addr instrs idx callees = OK out -> Forall (fun g => instr_ok c g = true) out.
Proof.
  induction idx as [|i it IH]; intros callees instrs out Hin; cbn [patch_calls].
  - intros H; inversion H; subst. exact Hin.
  - destruct callees as [|cal ct]; [intros H; inversion H; subst; exact Hin|].
    destruct (method_base_call _ _) as [stub|e] eqn:Es; cbn [bind]; [|discriminate].
    apply IH. apply Forall_replace_slice; [exact Hin|].
    eapply Forall_weaken_instr; [apply stub_instr_ok|]. eapply method_base_call_stub_ok. exact Es.
Qed.

Lemma get_method_spec c id : hoare (Inv c) (get_method id) (fun m s => Inv c s /\ method_ok c m).
Proof.
  intros s H. unfold get_method. destruct (nth_error (g_methods s) id) as [m|] eqn:E; [|exact I].
  split; [exact H|]. unfold Inv in H. rewrite Forall_forall in H. apply H. eapply nth_error_In. exact E.
Qed.

Lemma get_methods_spec c ids : hoare (Inv c) (get_methods ids) (fun _ s => Inv c s).
Proof.
  induction ids as [|id tl IH]; cbn [get_methods].
  - intros s H. cbn. exact H.
  - eapply hoare_bind; [apply get_method_spec|]. intros m. apply hoare_pure_pre. intros _.
    eapply hoare_bind; [exact IH|]. intros rest. intros s H. cbn. exact H.
Qed.

Lemma set_method_spec c id m :
  hoare (fun s => Inv c s /\ method_ok c m) (set_method id m) (fun _ s => Inv c s).
Proof.
  intros s [HI Hm]. unfold set_method, Inv in *. cbv beta iota. cbn [g_methods].
  apply Forall_app. split; [apply Forall_firstn; exact HI|].
  constructor; [exact Hm|apply Forall_skipn; exact HI].
Qed.

Lemma patch_with_spec c id m (pcs : list nat) :
  method_ok c m ->
  hoare (Inv c)
    (let* picks := draw_choices (zlen pcs) (m_calls m) WNone in
     let callee_ids := map (fun i => nth (Z.to_nat i) pcs O) picks in
     if nat_mem id callee_ids then fail ERecursive else
     let* cms := get_methods callee_ids in
     if existsb (fun cm => nat_mem id (m_callees cm)) cms then fail EMutual else
     let cs := m_call_size m in
     let* idx := draw_sample (m_pro m + m_body m - cs) (m_pro m - 1) (- cs) (zlen callee_ids) in
     let* ins := lift (patch_calls c (m_addr m) (m_instrs m) idx cms) in
     set_method id (mk_method (m_addr m) (m_body m) (m_calls m) (m_depth m) (m_call_size m) (m_pro m)
                      (m_epi m) ins callee_ids)) (fun _ s' => Inv c s').
Proof.
  intros Hm. pose proof (Inv_stable c) as St.
  eapply hoare_bind; [apply draw_choices_spec; exact St|]. intros picks. apply hoare_pure_pre2. intros _ _.
  cbv zeta. destruct (nat_mem id _); [apply hoare_fail|].
  eapply hoare_bind; [apply get_methods_spec|]. intros cms.
  destruct (existsb _ cms); [apply hoare_fail|].
  eapply hoare_bind; [apply draw_sample_spec; exact St|]. intros idx.
  eapply hoare_conseq with (P := Inv c) (Q := fun _ s' => Inv c s');
    [intros s0 [H0 _]; exact H0|intros a s0 H0; exact H0|].
  eapply hoare_bind; [apply hoare_lift|]. intros ins. apply hoare_pure_pre. intros Hins.
  eapply hoare_pre_and; [|apply set_method_spec].
  unfold method_ok. cbn [m_instrs]. eapply patch_calls_ok; [exact Hm|exact Hins].
Qed.

Lemma patch_method_spec c id : hoare (Inv c) (patch_method c id) (fun _ s => Inv c s).
Proof.
  unfold patch_method.
  eapply hoare_bind; [apply get_method_spec|]. intros m. apply hoare_pure_pre. intros Hm.
  destruct (m_depth m =? 0); [intros s H; cbn; exact H|].
  intros s HI. cbv beta zeta. exact (patch_with_spec c id m _ Hm s HI).
Qed.

Lemma patch_ids_spec c ids : hoare (Inv c) (patch_ids c ids) (fun _ s => Inv c s).
Proof.
  induction ids as [|id tl IH]; cbn [patch_ids].
  - intros s H. cbn. exact H.
  - eapply hoare_bind; [apply patch_method_spec|]. intro. exact IH.
Qed.

Lemma patch_jit_calls_spec c : hoare (Inv c) (patch_jit_calls c) (fun _ s => Inv c s).
Proof. intros s H. unfold patch_jit_calls. exact (patch_ids_spec c _ s H). Qed.

(* ---------------------------------------------------------------- phase 3 *)
Lemma interpreter_call_spec c e ea cur ta : hoare (Inv c) (interpreter_call c e ea cur ta) (fun _ s => Inv c s).
Proof.
  pose proof (Inv_stable c) as St. unfold interpreter_call.
  destruct (uses_tramp (c_variant c)); destruct e as [id|p].
  - apply hoare_lift_post. intros a _ s H. exact H.
  - eapply hoare_bind; [apply draw_randint_spec; exact St|]. intros h. apply hoare_pure_pre. intros _.
    apply hoare_lift_post. intros a _ s H. exact H.
  - apply hoare_lift_post. intros a _ s H. exact H.
  - eapply hoare_bind; [apply draw_randint_spec; exact St|]. intros h. apply hoare_pure_pre. intros _.
    apply hoare_lift_post. intros a _ s H. exact H.
Qed.

Lemma interpreter_calls_spec c ms es : forall cur ta,
  hoare (Inv c) (interpreter_calls c ms es cur ta) (fun _ s => Inv c s).
Proof.
  induction es as [|e tl IH]; intros cur ta; cbn [interpreter_calls].
  - intros s H. cbn. exact H.
  - eapply hoare_bind; [apply interpreter_call_spec|]. intros stub.
    eapply hoare_bind; [apply IH|]. intros rest. intros s H. cbn. exact H.
Qed.

Lemma fill_interpretation_loop_spec c ta : hoare (Inv c) (fill_interpretation_loop c ta) (fun _ s => Inv c s).
Proof.
  pose proof (Inv_stable c) as St. unfold fill_interpretation_loop.
  eapply hoare_bind; [apply hoare_lift|]. intros pro. apply hoare_pure_pre. intros _.
  intros s HI. cbv beta zeta.
  assert (G : hoare (Inv c)
    (let* perm := draw_shuffle (zlen (g_elements s)) in
     let shuffled := map (fun i => nth (Z.to_nat i) (g_elements s) (EMethod O)) perm in
     let* calls := interpreter_calls c (g_methods s) shuffled (int_start_al c + zlen pro * 4) ta in
     let* epi := lift (base_epilogue 10 0 true) in
     let all := pro ++ calls ++ epi in
     if jit_start_al c <? int_start_al c + zlen all * 4 then fail EWrongAddress else ret all)
    (fun _ s' => Inv c s')).
  { eapply hoare_bind; [apply draw_shuffle_spec; exact St|]. intros perm. apply hoare_pure_pre. intros _.
    cbv zeta. eapply hoare_bind; [apply interpreter_calls_spec|]. intros calls.
    eapply hoare_bind; [apply hoare_lift|]. intros epi. apply hoare_pure_pre. intros _.
    destruct (_ <? _); [apply hoare_fail|]. intros s0 H0. cbn. exact H0. }
  exact (G s HI).
Qed.

(* ------------------------------------------------------------ whole generation *)
Lemma data_chunks_spec P strategy n : forall i, stable P -> hoare P (data_chunks strategy n i) (fun _ s => P s).
Proof.
  induction n as [|k IH]; intros i St; cbn [data_chunks].
  - intros s H. cbn. exact H.
  - eapply hoare_bind with (Q := fun _ s => P s).
    { repeat match goal with |- context [if ?b then _ else _] => destruct b end;
        try (apply draw_bytes_spec; exact St); try (intros s H; cbn; exact H); apply hoare_fail. }
    intros chunk. eapply hoare_bind; [apply IH; exact St|]. intros rest. intros s H. cbn. exact H.
Qed.

Lemma generate_data_spec P strategy size : stable P -> hoare P (generate_data strategy size) (fun _ s => P s).
Proof.
  intros St. unfold generate_data. destruct (negb _); [apply hoare_fail|]. apply data_chunks_spec. exact St.
Qed.

Theorem gen_main_methods_ok c :
  cfg_facts c -> hoare (Inv c) (gen_main c) (fun img _ => Forall (method_ok c) (im_methods img)).
Proof.
  intros F. pose proof (Inv_stable c) as St. unfold gen_main.
  destruct (c_jit_start c <? c_int_start c); [apply hoare_fail|].
  destruct (c_nb_methods c =? 0); [apply hoare_fail|].
  eapply hoare_bind with (Q := fun _ s => Inv c s).
  { destruct (uses_tramp (c_variant c)).
    - eapply hoare_bind; [apply hoare_lift|]. intros t1. apply hoare_pure_pre. intros _.
      eapply hoare_bind; [apply hoare_lift|]. intros t2. apply hoare_pure_pre. intros _.
      intros s H. cbn. exact H.
    - intros s H. cbn. exact H. }
  intros tramps.
  eapply hoare_bind; [apply fill_jit_code_spec; exact F|]. intro.
  eapply hoare_bind; [apply patch_jit_calls_spec|]. intro.
  eapply hoare_bind; [apply fill_interpretation_loop_spec|]. intros ints.
  intros s HI. cbv beta zeta.
  assert (G : hoare (Inv c)
    (let* nop := lift nop_ in
     let* data := generate_data (c_data_strategy c) (c_data_size c) in
     ret (mk_image
            (map generate ints ++
             repeat_z (generate nop)
               (Z.to_nat ((jit_start_al c - (int_start_al c + zlen (map generate ints) * 4)) / 4)))
            (map generate (List.concat tramps) ++ flat_map (elt_words (g_methods s)) (g_elements s)) data
            (match c_variant c with
             | GRimiSS | GRimiFull => zeros (Z.to_nat (align (c_ss_size c) 8))
             | _ => zeros 8 end) (g_methods s) (g_elements s) tramps ints))
    (fun img _ => im_methods img = g_methods s)).
  { eapply hoare_bind; [apply hoare_lift|]. intros nop. apply hoare_pure_pre. intros _.
    eapply hoare_bind; [apply generate_data_spec; exact St|]. intros data.
    intros s0 H0. cbn. reflexivity. }
  specialize (G s HI).
  match goal with |- match ?X with _ => _ end => destruct X as [[img s']|e] end; [|exact I].
  rewrite G. exact HI.
Qed.

(* For EVERY configuration satisfying cfg_facts and EVERY decision script: every
   instruction of every method of the emitted image is a random-body instruction
   obeying the data-access / register / forward-branch discipline, a prologue /
   epilogue instruction of the variant, or a call-stub instruction. *)
Theorem run_gen_methods_ok c script img rest :
  cfg_facts c -> run_gen c script = OK (img, rest) -> Forall (method_ok c) (im_methods img).
Proof.
  intros F H. unfold run_gen in H.
  pose proof (gen_main_methods_ok c F (mk_gs script [] [] [])) as G.
  assert (HI : Inv c (mk_gs script [] [] [])) by constructor.
  specialize (G HI). destruct (gen_main c _) as [[im s]|e]; [|discriminate].
  inversion H; subst. exact G.
Qed.
