(* Loader.v — Layer B, from the flat files to the structured image: when the
   words of int.bin followed by the words of jit.bin sit in code memory from the
   interpreter's (aligned) generation address on - the entry condition `Init` of
   ImageSem - every method, every PIC switch table and the interpreter loop are
   loaded at their recorded addresses (`image_loaded`), inside the code region
   and 4-aligned (`placed`, `placed2`).  Composed with
   WholeImage.base_image_returns this states property C01 for the variant
   without isolation and without trampolines directly over the emitted files. *)
From Coq Require Import ZArith List String Bool Lia Permutation.
From Gigue Require Import Types Bits Isa IsaProofs Enc EncProofs GenTables Builder Samplers Generator GenLemmas
  Machine MachineLemmas ImageSem GenWF GenWFProps SliceLemmas GenWF2 GenWF3 GenWF4 GenWF2Props SplitProofs
  BodyExec BodyBridge GenWF5 FrameExec CodeMem SwitchExec GenWF6 GenWF7 GenWF8 GenWF9 Walk CallFrame MethodContract
  SaveRestore TrampExec TrampsInv TrampStubs WholeImage.
Import ListNotations.
Open Scope list_scope.
Open Scope Z_scope.

(* ------------------------------------------------ the data file has size align(data_size, 8) *)
Lemma hoare_top {A} P (m : M A) : hoare P m (fun _ _ => True).
Proof. intros s _. destruct (m s) as [[a s']|e]; exact I. Qed.

Lemma le_bytes_len n x : List.length (le_bytes n x) = n.
Proof. revert x. induction n as [|k IH]; intros x; cbn; [reflexivity|]. rewrite IH. reflexivity. Qed.

Lemma zeros_len n : List.length (zeros n) = n.
Proof. induction n as [|k IH]; cbn; congruence. Qed.

Lemma draw_bytes_len n : hoare (fun _ => True) (draw_bytes n) (fun l _ => Z.of_nat (List.length l) = n).
Proof.
  intros s _. unfold draw_bytes, mbind, next_draw. destruct (g_script s) as [|d tl]; [exact I|].
  destruct d; try exact I.
  match goal with |- context [if ?b then _ else _] => destruct b eqn:E end; [|exact I].
  cbn. apply andb_prop in E. destruct E as [E _]. apply andb_prop in E. destruct E as [_ E].
  apply Z.eqb_eq in E. exact E.
Qed.

Lemma data_chunks_len strategy n : forall i,
  hoare (fun _ => True) (data_chunks strategy n i) (fun l _ => List.length l = (8 * n)%nat).
Proof.
  induction n as [|k IH]; intros i; cbn [data_chunks].
  - intros s _. cbn. reflexivity.
  - eapply hoare_bind with (Q := fun chunk _ => List.length chunk = 8%nat).
    { repeat match goal with |- context [if ?b then _ else _] => destruct b end.
      - eapply hoare_conseq; [| |apply (draw_bytes_len 8)]; [auto|]. intros l s H. cbn beta in H. lia.
      - intros s _. cbn. reflexivity.
      - intros s _. cbn. reflexivity.
      - intros s _. cbn. reflexivity.
      - apply hoare_fail. }
    intros chunk s Hc. unfold mbind. pose proof (IH (i + 8) s I) as G.
    destruct (data_chunks strategy k (i + 8) s) as [[rest s']|e]; [|exact I].
    cbn. rewrite app_length, Hc, G. lia.
Qed.

Lemma generate_data_len strategy size :
  0 <= size -> hoare (fun _ => True) (generate_data strategy size) (fun l _ => zlen l = align size 8).
Proof.
  intros Hs. unfold generate_data. destruct (negb _); [apply hoare_fail|].
  eapply hoare_conseq; [| |apply data_chunks_len]; [auto|].
  intros l s H. cbn beta in H. unfold zlen. rewrite H. unfold align.
  rewrite Nat2Z.inj_mul, Z2Nat.id by (Z.div_mod_to_equations; lia). change (Z.of_nat 8) with 8.
  Z.div_mod_to_equations; lia.
Qed.

Theorem gen_main_data_len c :
  0 <= c_data_size c -> hoare (fun _ => True) (gen_main c) (fun img _ => zlen (im_data img) = dsz c).
Proof.
  intros Hd. unfold gen_main.
  destruct (c_jit_start c <? c_int_start c); [apply hoare_fail|].
  destruct (c_nb_methods c =? 0); [apply hoare_fail|].
  eapply hoare_bind; [apply hoare_top|]. intros tramps.
  eapply hoare_bind; [apply hoare_top|]. intro.
  eapply hoare_bind; [apply hoare_top|]. intro.
  eapply hoare_bind; [apply hoare_top|]. intros ints.
  intros s _. cbv beta zeta.
  unfold mbind at 1. destruct (lift nop_ s) as [[nop s1]|e]; [|exact I].
  unfold mbind at 1.
  pose proof (generate_data_len (c_data_strategy c) (c_data_size c) Hd s1 I) as G.
  destruct (generate_data (c_data_strategy c) (c_data_size c) s1) as [[data s2]|e]; [|exact I].
  cbn. exact G.
Qed.

Lemma successful_data_len c script img : successful c script img -> zlen (im_data img) = dsz c.
Proof.
  intros [Hc Hr]. unfold run_gen in Hr.
  assert (Hd : 0 <= c_data_size c).
  { unfold cfg_ok, cfg_sizes in Hc. repeat (apply andb_prop in Hc; destruct Hc as [Hc ?]).
    repeat match goal with H : (_ && _) = true |- _ => apply andb_prop in H; destruct H end.
    match goal with H : (8 <=? c_data_size c) = true |- _ => apply Z.leb_le in H; lia end. }
  pose proof (gen_main_data_len c Hd (mk_gs script [] [] []) I) as G.
  destruct (gen_main c (mk_gs script [] [] [])) as [[im s]|e]; [|discriminate].
  inversion Hr; subst. exact G.
Qed.

(* the shadow-stack file is a whole number of 8-byte slots *)
Theorem gen_main_ss_len c : hoare (fun _ => True) (gen_main c) (fun img _ => zlen (im_ss img) mod 8 = 0).
Proof.
  unfold gen_main.
  destruct (c_jit_start c <? c_int_start c); [apply hoare_fail|].
  destruct (c_nb_methods c =? 0); [apply hoare_fail|].
  eapply hoare_bind; [apply hoare_top|]. intros tramps.
  eapply hoare_bind; [apply hoare_top|]. intro.
  eapply hoare_bind; [apply hoare_top|]. intro.
  eapply hoare_bind; [apply hoare_top|]. intros ints.
  intros s _. cbv beta zeta.
  unfold mbind at 1. destruct (lift nop_ s) as [[nop s1]|e]; [|exact I].
  unfold mbind at 1.
  destruct (generate_data (c_data_strategy c) (c_data_size c) s1) as [[data s2]|e]; [|exact I].
  cbn. unfold zlen.
  assert (H : forall x, Z.of_nat (List.length (zeros (Z.to_nat (align x 8)))) mod 8 = 0).
  { intros x. rewrite zeros_len. unfold align. destruct (Z_le_gt_dec 0 (x / 8 * 8)).
    - rewrite Z2Nat.id by assumption. apply Z.mod_mul. lia.
    - replace (Z.to_nat (x / 8 * 8)) with O by lia. reflexivity. }
  destruct (c_variant c); try apply H; reflexivity.
Qed.

Lemma successful_ss_len c script img : successful c script img -> zlen (im_ss img) mod 8 = 0.
Proof.
  intros [Hc Hr]. unfold run_gen in Hr.
  pose proof (gen_main_ss_len c (mk_gs script [] [] []) I) as G.
  destruct (gen_main c (mk_gs script [] [] [])) as [[im s]|e]; [|discriminate].
  inversion Hr; subst. exact G.
Qed.

(* ------------------------------------------------ code_at over concatenations *)
Lemma code_at_app m A xs ys : code_at m A (xs ++ ys) -> code_at m A xs /\ code_at m (A + 4 * zlen xs) ys.
Proof.
  intros H. split.
  - intros j w Hj. apply H. rewrite nth_error_app1; [exact Hj|]. apply nth_error_Some. congruence.
  - intros j w Hj. specialize (H (List.length xs + j)%nat w). rewrite nth_error_app2 in H by lia.
    replace (List.length xs + j - List.length xs)%nat with j in H by lia. specialize (H Hj).
    unfold zlen. rewrite Nat2Z.inj_add in H.
    replace (A + 4 * Z.of_nat (List.length xs) + 4 * Z.of_nat j) with (A + 4 * (Z.of_nat (List.length xs) + Z.of_nat j)) by lia.
    exact H.
Qed.

Lemma zlen_map_generate (l : list gi) : zlen (map generate l) = zlen l.
Proof. unfold zlen. rewrite map_length. reflexivity. Qed.

Lemma zlen_nonneg {A} (l : list A) : 0 <= zlen l.
Proof. unfold zlen. lia. Qed.

(* ------------------------------------------------ tiles => every method / switch table loaded *)
Section LD.
Variable ms : list method.
Variable mm : PM.t Z.
Hypothesis Hlen : Forall (fun m => zlen (m_instrs m) = m_total m) ms.

Definition meth_loaded (lo hi : Z) (id : nat) : Prop :=
  exists m, nth_error ms id = Some m /\ m_addr m mod 4 = 0 /\ lo <= m_addr m /\
            m_addr m + 4 * zlen (m_instrs m) <= hi /\ code_at mm (m_addr m) (map generate (m_instrs m)).

Definition elt_loaded (lo hi : Z) (e : elt) : Prop :=
  match e with
  | EMethod id => meth_loaded lo hi id
  | EPic p => p_addr p mod 4 = 0 /\ lo <= p_addr p /\ p_addr p + 4 * zlen (p_switch p) <= hi /\
              code_at mm (p_addr p) (map generate (p_switch p)) /\ Forall (meth_loaded lo hi) (p_methods p)
  end.

Lemma meth_loaded_widen lo hi lo' hi' id : lo' <= lo -> hi <= hi' -> meth_loaded lo hi id -> meth_loaded lo' hi' id.
Proof. intros H1 H2 (m & A & B & C & D & E). exists m. repeat split; try assumption; lia. Qed.

Lemma elt_loaded_widen lo hi lo' hi' e : lo' <= lo -> hi <= hi' -> elt_loaded lo hi e -> elt_loaded lo' hi' e.
Proof.
  intros H1 H2. destruct e as [id|p]; cbn [elt_loaded].
  - apply meth_loaded_widen; assumption.
  - intros (A & B & C & D & E). repeat split; try assumption; try lia.
    eapply Forall_impl; [|exact E]. intros id. apply meth_loaded_widen; assumption.
Qed.

Lemma mtiles_loaded : forall ids a b,
  mtiles ms ids a b -> a mod 4 = 0 -> code_at mm a (flat_map (method_words ms) ids) ->
  a <= b /\ b mod 4 = 0 /\ Forall (meth_loaded a b) ids.
Proof.
  intros ids a b H. induction H as [a|id ids m a b Hn Ha Ht IH]; intros Hal Hc.
  - split; [lia|]. split; [exact Hal|constructor].
  - cbn [flat_map] in Hc. apply code_at_app in Hc. destruct Hc as [C1 C2].
    unfold method_words in C1 at 1. unfold method_words in C2 at 1. rewrite Hn in C1, C2.
    rewrite zlen_map_generate in C2.
    pose proof Hlen as Hl. rewrite Forall_forall in Hl. specialize (Hl m (nth_error_In _ _ Hn)).
    pose proof (zlen_nonneg (m_instrs m)) as Hnn.
    assert (E : a + 4 * zlen (m_instrs m) = a + m_total m * 4) by lia.
    rewrite E in C2.
    destruct IH as (Hab & Hbal & F); [Z.div_mod_to_equations; lia|exact C2|].
    split; [lia|]. split; [exact Hbal|]. constructor.
    + exists m. rewrite Ha. repeat split; try assumption; lia.
    + eapply Forall_impl; [|exact F]. intros id'. apply meth_loaded_widen; lia.
Qed.

Lemma tiles_loaded : forall es a b,
  tiles ms es a b -> a mod 4 = 0 -> code_at mm a (flat_map (elt_words ms) es) ->
  a <= b /\ Forall (elt_loaded a b) es.
Proof.
  intros es a b H. induction H as [a|id es a b c Hm Ht IH|p es a b c Hpa Hpc Hps Hm Ht IH]; intros Hal Hc.
  - split; [lia|constructor].
  - cbn [flat_map] in Hc. rewrite elt_words_eq in Hc. apply code_at_app in Hc. destruct Hc as [C1 C2].
    destruct (mtiles_loaded [id] a b Hm Hal) as (Hab & Hbal & F).
    { cbn [flat_map]. rewrite app_nil_r. exact C1. }
    pose proof (mtiles_words ms [id] a b Hlen Hm) as W. cbn [flat_map] in W. rewrite app_nil_r in W.
    replace (a + 4 * zlen (method_words ms id)) with b in C2 by lia.
    destruct (IH Hbal C2) as (Hbc & F2).
    split; [lia|]. constructor.
    + cbn [elt_loaded]. inversion F; subst. eapply meth_loaded_widen; [| |eassumption]; lia.
    + eapply Forall_impl; [|exact F2]. intros e. apply elt_loaded_widen; lia.
  - cbn [flat_map] in Hc. rewrite elt_words_eq in Hc. apply code_at_app in Hc. destruct Hc as [C1 C2].
    apply code_at_app in C1. destruct C1 as [C0 C1]. rewrite zlen_map_generate in C1.
    pose proof (zlen_nonneg (p_switch p)) as Hnn.
    rewrite Hps in C1, Hnn.
    replace (a + 4 * switch_size (p_cases p)) with (a + switch_size (p_cases p) * 4) in C1 by lia.
    destruct (mtiles_loaded (p_methods p) _ b Hm) as (Hab & Hbal & F); [Z.div_mod_to_equations; lia|exact C1|].
    pose proof (mtiles_words ms (p_methods p) _ b Hlen Hm) as W.
    rewrite zlen_app, zlen_map_generate, Hps in C2.
    replace (a + 4 * (switch_size (p_cases p) + zlen (flat_map (method_words ms) (p_methods p)))) with b in C2 by lia.
    destruct (IH Hbal C2) as (Hbc & F2).
    split; [lia|]. constructor.
    + cbn [elt_loaded]. rewrite Hpa, Hps. repeat split; try assumption; try lia.
      eapply Forall_impl; [|exact F]. intros id. apply meth_loaded_widen; lia.
    + eapply Forall_impl; [|exact F2]. intros e. apply elt_loaded_widen; lia.
Qed.

Lemma all_methods_loaded es a b :
  Forall (elt_loaded a b) es -> flat_map element_method_ids es = seq 0 (List.length ms) ->
  forall id, (id < List.length ms)%nat -> meth_loaded a b id.
Proof.
  intros F E id Hid.
  assert (Hin : In id (flat_map element_method_ids es)) by (rewrite E; apply in_seq; lia).
  apply in_flat_map in Hin. destruct Hin as (e & He & Hie).
  rewrite Forall_forall in F. specialize (F e He).
  destruct e as [id'|p]; cbn [element_method_ids] in Hie; cbn [elt_loaded] in F.
  - destruct Hie as [<-|[]]. exact F.
  - destruct F as (_ & _ & _ & _ & F). rewrite Forall_forall in F. apply F. exact Hie.
Qed.
End LD.

(* ------------------------------------------------ the whole-image theorem over the flat files *)
(* the encodability side conditions of the PIC switch tables (finding F6 / PICs of
   2047 cases and more are outside) *)
Definition pics_encodable (img : image) : Prop :=
  Forall (fun e => match e with
                   | EMethod _ => True
                   | EPic p =>
                       Z.of_nat (List.length (p_methods p)) < 2047 /\
                       (forall addrs,
                          Forall2 (fun id a => exists m, nth_error (im_methods img) id = Some m /\ m_addr m = a) (p_methods p) addrs ->
                          Forall (fun mo => -1048576 <= mo < 1048576 /\ mo mod 2 = 0) (moffs_of (p_addr p) 0 addrs))
                   end) (im_elements img).

Section FLAT.
Variable c : config.
Variable script : list draw.
Variable img : image.
Hypothesis Hsucc : successful c script img.
Hypothesis Hplain : plain c.
Hypothesis Hdr6 : uses_tramp (c_variant c) = true -> c_data_reg c <> 6.
Variable L : layout.
Variable s0 : mstate.
Variable bound : Z.                                   (* the stack bound of the variant *)
Hypothesis HI : Init c img bound L s0.
Hypothesis Hbound : bound = Ntot c img.
Hypothesis Hat : code_lo L = int_start_al c.         (* loaded at the generation address *)
Hypothesis Hsmall : code_hi L - code_lo L < 2147483648 - 2048.
Hypothesis Hpics : pics_encodable img.

Let ms := im_methods img.
Let es := im_elements img.

Lemma flat_jit_lo : jit_lo L = jit_start_al c.
Proof.
  destruct (interpreter_padding_exact c script img Hsucc) as (E & _ & _).
  rewrite (i_jit _ _ _ _ _ HI), Hat. lia.
Qed.

Lemma flat_len : Forall (fun m => zlen (m_instrs m) = m_total m) ms.
Proof.
  destruct (successful_wf c script img Hsucc) as [W _]. destruct (iw_layout c img W) as (e' & d & HP).
  apply (Forall_len_total c). apply (p2_methods _ _ _ _ _ _ HP).
Qed.

Lemma flat_elements :
  Forall (elt_loaded ms (mem s0) (jit_lo L) (code_hi L)) es /\
  code_at (mem s0) (int_start_al c) (map generate (im_int_instrs img)) /\
  code_at (mem s0) (jit_start_al c) (map generate (List.concat (im_tramps img))) /\
  jit_start_al c + 4 * zlen (List.concat (im_tramps img)) <= code_hi L.
Proof.
  pose proof (i_code _ _ _ _ _ HI) as Hc. change (ImageSem.code_at (mem s0) (code_lo L) (im_int img ++ im_jit img))
    with (code_at (mem s0) (code_lo L) (im_int img ++ im_jit img)) in Hc.
  apply code_at_app in Hc. destruct Hc as [Ci Cj]. rewrite <- (i_jit _ _ _ _ _ HI) in Cj.
  destruct (interpreter_padding_exact c script img Hsucc) as (E & Hfit & fill & Ef).
  destruct (successful_wf c script img Hsucc) as [W _].
  destruct (jit_is_exact_tiling c script img Hsucc) as (e & T & Ee & Hids).
  rewrite (iw_jit c img W) in Cj. apply code_at_app in Cj. destruct Cj as [Ct Cj].
  rewrite zlen_map_generate in Cj. rewrite flat_jit_lo in Cj, Ct.
  assert (Hle' : jit_start_al c + zlen (List.concat (im_tramps img)) * 4 <= e).
  { pose proof (tiles_words ms es _ e flat_len T) as TW. pose proof (zlen_nonneg (flat_map (elt_words ms) es)). lia. }
  split; [|split; [|split]].
  - 
    replace (jit_start_al c + 4 * zlen (List.concat (im_tramps img))) with (jit_start_al c + zlen (List.concat (im_tramps img)) * 4) in Cj by lia.
    destruct (tiles_loaded ms (mem s0) flat_len es _ e T) as (Hle & F).
    { pose proof (align4_mod (c_jit_start c)). unfold jit_start_al. Z.div_mod_to_equations; lia. }
    { exact Cj. }
    eapply Forall_impl; [|exact F]. intros x. apply elt_loaded_widen.
    + rewrite flat_jit_lo. pose proof (zlen_nonneg (List.concat (im_tramps img))). lia.
    + destruct (i_code_hi _ _ _ _ _ HI) as [Eh _]. rewrite Eh, flat_jit_lo. lia.
  - rewrite Ef, Hat in Ci. apply code_at_app in Ci. exact (proj1 Ci).
  - exact Ct.
  - destruct (i_code_hi _ _ _ _ _ HI) as [Eh _]. rewrite Eh, flat_jit_lo. lia.
Qed.

Lemma flat_halt lo n : code_lo L <= lo -> lo + n <= code_hi L -> halt_at L < lo \/ lo + n <= halt_at L.
Proof.
  intros H1 H2. destruct (i_ra _ _ _ _ _ HI) as (_ & _ & _ & [Hh|Hh]); [left; lia|right; lia].
Qed.

Lemma flat_jit_ge : code_lo L <= jit_lo L.
Proof. rewrite (i_jit _ _ _ _ _ HI). pose proof (zlen_nonneg (im_int img)). lia. Qed.

Lemma flat_placed : placed c img L.
Proof.
  destruct (i_disjoint _ _ _ _ _ HI) as (D1 & D2 & D3 & D4 & D5 & D6). unfold disjoint in *.
  destruct (i_data _ _ _ _ _ HI) as (Hdr & Hdal & Hdpos & Hdhi & Hd64).
  destruct (i_sp _ _ _ _ _ HI) as (Hsp & Hsal & Hbnd & Hslo & Hs64).
  destruct (i_code_al _ _ _ _ _ HI) as [Hcal Hcpos].
  constructor.
  - constructor; [exact Hcpos|exact D2|exact D1|]. destruct D6; [right|left]; assumption.
  - constructor; try assumption.
    + rewrite Hdhi, (successful_data_len c script img Hsucc). lia.
    + destruct D3; [right|left]; assumption.
  - split; assumption.
  - exact (proj2 (i_code_hi _ _ _ _ _ HI)).
  - exact Hsmall.
  - destruct flat_elements as (F & _). destruct (jit_is_exact_tiling c script img Hsucc) as (e & _ & _ & Hids).
    apply Forall_forall. intros m Hm. apply In_nth_error in Hm. destruct Hm as (id & Hid).
    assert (Hlt : (id < List.length ms)%nat) by (apply nth_error_Some; unfold ms; congruence).
    destruct (all_methods_loaded ms (mem s0) es _ _ F Hids id Hlt) as (m' & Hn & A & B & C & _).
    unfold ms in Hn. rewrite Hid in Hn. inversion Hn; subst m'.
    pose proof flat_jit_ge. split; [exact A|]. split; [lia|]. split; [exact C|].
    replace (m_addr m + 4 * zlen (m_instrs m)) with (m_addr m + (4 * zlen (m_instrs m))) by lia.
    apply flat_halt; lia.
Qed.

Lemma flat_placed2 : placed2 c img L.
Proof.
  destruct flat_elements as (F & _ & _ & Ht).
  destruct (interpreter_padding_exact c script img Hsucc) as (E & Hfit & _).
  pose proof flat_jit_ge as Hj. pose proof flat_jit_lo as Hjl.
  destruct (i_code_hi _ _ _ _ _ HI) as [Eh _]. pose proof (zlen_nonneg (im_jit img)) as Hz.
  constructor.
  - split; [lia|]. split; [lia|].
    replace (int_start_al c + 4 * zlen (im_int_instrs img)) with (int_start_al c + (4 * zlen (im_int_instrs img))) by lia.
    apply flat_halt; lia.
  - unfold pics_encodable in Hpics. fold es in Hpics. rewrite Forall_forall in *. intros e He.
    specialize (F e He). specialize (Hpics e He). destruct e as [id|p]; [exact I|].
    cbn [elt_loaded] in F. destruct F as (A & B & C & _ & _). destruct Hpics as [P1 P2].
    unfold pic_placed. split; [exact A|]. split; [lia|]. split; [exact C|]. split.
    + replace (p_addr p + 4 * zlen (p_switch p)) with (p_addr p + (4 * zlen (p_switch p))) by lia. apply flat_halt; lia.
    + split; [exact P1|exact P2].
  - pose proof (zlen_nonneg (List.concat (im_tramps img))). split; [lia|]. split; [exact Ht|].
    replace (jit_start_al c + 4 * zlen (List.concat (im_tramps img))) with (jit_start_al c + (4 * zlen (List.concat (im_tramps img)))) by lia.
    apply flat_halt; lia.
Qed.

Lemma flat_loaded : image_loaded c img s0.
Proof.
  destruct flat_elements as (F & Ci & Ct & _). destruct (jit_is_exact_tiling c script img Hsucc) as (e & _ & _ & Hids).
  split; [|split; [|split]].
  - unfold code_loaded. apply Forall_forall. intros m Hm. apply In_nth_error in Hm. destruct Hm as (id & Hid).
    assert (Hlt : (id < List.length ms)%nat) by (apply nth_error_Some; unfold ms; congruence).
    destruct (all_methods_loaded ms (mem s0) es _ _ F Hids id Hlt) as (m' & Hn & _ & _ & _ & D).
    unfold ms in Hn. rewrite Hid in Hn. inversion Hn; subst m'. exact D.
  - exact Ci.
  - eapply Forall_impl; [|exact F]. intros x Hx. destruct x as [id|p]; [exact I|].
    cbn [elt_loaded] in Hx. exact (proj1 (proj2 (proj2 (proj2 Hx)))).
  - exact Ct.
Qed.

(* PROPERTY C01 over the emitted files, the two variants without isolation (without
   and with trampolines): from the entry conditions `Init` (files loaded at the generation
   address, sp at the top of a stack of Ntot bytes, ra = the halt address, the data
   register at the data section, everything else arbitrary) the machine runs to
   the halt address. *)
Theorem plain_image_from_files :
  (forall r o, In (r, o) int_slots -> 0 <= rget s0 r < W64) ->
  exists s' eh, map fst eh = im_elements img /\ Forall (fun x => hit_ok (fst x) (snd x)) eh /\
    run (gv c) L (image_steps c img eh) s0 = (Next s', image_steps c img eh) /\
    pc s' = halt_at L /\
    (forall r, 0 <= r -> wr c r = false -> ~ clob c r -> rget s' r = rget s0 r) /\
    mem_frame c L s0 s' (stk_hi L - Ntot c img) (stk_hi L) /\ dom s' = 0 /\ cfi s' = [].
Proof.
  intros Hsaved.
  destruct (i_sp _ _ _ _ _ HI) as (Hsp & Hsal & Hbnd & Hslo & Hs64).
  destruct (i_ra _ _ _ _ _ HI) as (Hra & Hhal & Hhr & _).
  destruct (i_data _ _ _ _ _ HI) as (Hdr & _).
  destruct (i_dom _ _ _ _ _ HI) as [Hdom Hcfi]. rewrite Hbound in Hbnd.
  destruct (plain_image_returns c script img Hsucc Hplain Hdr6 L flat_placed flat_placed2 s0) as (s' & eh & E1 & E2 & R & P & Rg & M & D & Cf).
  - rewrite Hsp. exact Hsal.
  - rewrite Hsp. lia.
  - rewrite Hsp. lia.
  - rewrite Hsp. lia.
  - exact Hsaved.
  - rewrite (i_pc _ _ _ _ _ HI). exact Hat.
  - exact flat_loaded.
  - constructor; [exact Hdr|]. unfold gv. destruct Hplain as [E|E]; rewrite E; exact I.
  - exists s', eh. split; [exact E1|]. split; [exact E2|]. split; [exact R|]. split.
    + rewrite P, Hra, Z.add_0_r, u64_small by lia. clear - Hhal. Z.div_mod_to_equations; lia.
    + split; [exact Rg|]. rewrite Hsp in M. split; [exact M|]. split; congruence.
Qed.
End FLAT.

(* the same with the hit cases fixed BEFORE any layout or state: one list eh, a static datum of
   the image, gives the executed-instruction count of every run *)
Theorem plain_image_from_files_static c script img :
  successful c script img -> plain c -> (uses_tramp (c_variant c) = true -> c_data_reg c <> 6) ->
  exists eh, map fst eh = im_elements img /\ Forall (fun x => hit_ok (fst x) (snd x)) eh /\
  forall L s0, Init c img (Ntot c img) L s0 -> code_lo L = int_start_al c ->
    code_hi L - code_lo L < 2147483648 - 2048 -> pics_encodable img ->
    (forall r o, In (r, o) int_slots -> 0 <= rget s0 r < W64) ->
    exists s', run (gv c) L (image_steps c img eh) s0 = (Next s', image_steps c img eh) /\ pc s' = halt_at L /\
      (forall r, 0 <= r -> wr c r = false -> ~ clob c r -> rget s' r = rget s0 r) /\
      mem_frame c L s0 s' (stk_hi L - Ntot c img) (stk_hi L) /\ dom s' = 0 /\ cfi s' = [].
Proof.
  intros Hs Hp H6. destruct (plain_image_steps_static c script img Hs Hp H6) as (eh & E1 & E2 & H).
  exists eh. split; [exact E1|]. split; [exact E2|].
  intros L s0 HI Hat Hsm Hpe Hsaved.
  destruct (i_sp _ _ _ _ _ HI) as (Hsp & Hsal & Hbnd & Hslo & Hs64).
  destruct (i_ra _ _ _ _ _ HI) as (Hra & Hhal & Hhr & _).
  destruct (i_data _ _ _ _ _ HI) as (Hdr & _).
  destruct (i_dom _ _ _ _ _ HI) as [Hdom Hcfi].
  destruct (H L (flat_placed c script img Hs L s0 _ HI Hat Hsm) (flat_placed2 c script img Hs L s0 _ HI Hat Hpe) s0)
    as (s' & R & P & Rg & M & D & Cf).
  - rewrite Hsp. exact Hsal.
  - rewrite Hsp. lia.
  - rewrite Hsp. lia.
  - rewrite Hsp. lia.
  - exact Hsaved.
  - rewrite (i_pc _ _ _ _ _ HI). exact Hat.
  - exact (flat_loaded c script img Hs L s0 _ HI Hat).
  - constructor; [exact Hdr|]. unfold gv. destruct Hp as [E|E]; rewrite E; exact I.
  - exists s'. split; [exact R|]. split.
    + rewrite P, Hra, Z.add_0_r, u64_small by lia. clear - Hhal. Z.div_mod_to_equations; lia.
    + split; [exact Rg|]. rewrite Hsp in M. split; [exact M|]. split; congruence.
Qed.

Print Assumptions plain_image_from_files.
Print Assumptions plain_image_from_files_static.
