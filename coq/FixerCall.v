(* FixerCall.v — Layer B, FIXER: the shape of the tagged call stubs, and the
   trampoline pair
     call_jit_elt:      addi sp,sp,-8 ; sd ra,0(sp) ; auipc ra,0 ; addi ra,ra,24 ;
                        auipc t3,0 ; addi t3,t3,16 ; cficall t3 ; jr t1
     ret_from_jit_elt:  ld ra,0(sp) ; addi sp,sp,8 ; ret
   (the tag pushed by the call trampoline is the address of the return trampoline,
   which is also the ra the element returns to). *)
From Coq Require Import ZArith List String Bool Lia FMapPositive.
From Gigue Require Import Types Bits Isa IsaProofs Enc EncProofs GenTables Builder Machine MachineLemmas SplitProofs
  BodyExec FrameExec CodeMem CallFrame TrampExec.
Import ListNotations.
Open Scope list_scope.
Open Scope Z_scope.

Lemma fixer_method_call_shape off stub :
  fixer_method_base_call off = OK stub ->
  (20 <= Z.abs off /\ 8 <= Z.abs (off - 12)) /\
  exists k2 j, decode_all ExtFixer stub = Some [Auipc 28 0; Iop ADDI 28 28 20; Cficall 0 28 0; Auipc 1 k2; Jalr 1 1 j].
Proof.
  unfold fixer_method_base_call. destruct (Z.ltb_spec (Z.abs off) 20); [discriminate|].
  unfold build_method_base_call. rewrite split_offset_spec.
  destruct (Z.ltb_spec (Z.abs (off - 12)) 8); [discriminate|].
  pose proof (split_lo_range (off - 12)). pose proof (split_hi_range (off - 12)).
  cbn. unfold c_RA, c_X0, c_FIXER_CMP_REG in *. intros E. inversion E; subst stub. clear E.
  split; [lia|].
  unfold decode_all. cbn [fold_right].
  rewrite !decode_auipc_wide by lia. rewrite decode_jalr_any by lia. rewrite decode_addi_any by lia.
  rewrite decode_cficall_any by lia. rewrite sext_0_20, sext_20_12.
  eexists. eexists. reflexivity.
Qed.

Lemma fixer_pic_call_shape off h hit stub :
  0 <= h < 2048 -> 0 < hit < 32 ->
  fixer_pic_base_call off h hit = OK stub ->
  (24 <= Z.abs off /\ 12 <= Z.abs (off - 16)) /\
  exists ih k2 j, decode_all ExtFixer stub = Some [Auipc 28 0; Iop ADDI 28 28 24; Cficall 0 28 0; Iop ADDI hit 0 ih; Auipc 1 k2; Jalr 1 1 j].
Proof.
  intros Hh Hhit. unfold fixer_pic_base_call. destruct (Z.ltb_spec (Z.abs off) 24); [discriminate|].
  unfold build_pic_base_call. replace (off - 12 - 4) with (off - 16) by lia. rewrite split_offset_spec.
  destruct (Z.ltb_spec (Z.abs (off - 16)) 12); [discriminate|].
  pose proof (split_lo_range (off - 16)). pose proof (split_hi_range (off - 16)).
  cbn. unfold c_RA, c_X0, c_FIXER_CMP_REG in *. intros E. inversion E; subst stub. clear E.
  split; [lia|].
  unfold decode_all. cbn [fold_right].
  rewrite !decode_auipc_wide by lia. rewrite decode_jalr_any by lia. rewrite !decode_addi_any by lia.
  rewrite decode_cficall_any by lia. rewrite sext_0_20, sext_24_12.
  eexists. eexists. eexists. reflexivity.
Qed.

(* ---- the trampoline pair ---- *)
Definition fx_tramp_call : list instr :=
  [Iop ADDI 2 2 (-8); Store SD 2 1 0; Auipc 1 0; Iop ADDI 1 1 24; Auipc 28 0; Iop ADDI 28 28 16; Cficall 0 28 0; Jalr 0 6 0].

Lemma fixer_tramp_pair_eq :
  exists t1 t2, build_call_jit_elt_trampoline BFixer = OK t1 /\ build_ret_from_jit_elt_trampoline BFixer = OK t2 /\
                decode_all ExtFixer t1 = Some fx_tramp_call /\ decode_all ExtFixer t2 = Some tramp_ret /\
                List.length t1 = 8%nat /\ List.length t2 = 3%nat.
Proof. eexists; eexists. repeat split; vm_compute; reflexivity. Qed.

Section FXE.
Variable L : layout.
Hypothesis Hstk_code : code_hi L <= stk_lo L \/ stk_hi L <= code_lo L.
Let v := VFixer.

(* call trampoline: eight steps; the caller's ra is pushed on the main stack, ra := the return
   trampoline (T + 32), THAT address is registered on the CFI stack, jump to t1 *)
Lemma fx_tramp_call_exec s T :
  pc s = T -> let S := rget s 2 in
  S mod 8 = 0 -> 8 <= S < W64 -> stk_lo L <= S - 8 -> S <= stk_hi L -> 0 <= T -> T + 32 < W64 ->
  exists s', exec_at v L T fx_tramp_call s = Next s' /\ pc s' = (u64 (rget s 6 + 0) / 2) * 2 /\
    rget s' 2 = S - 8 /\ rget s' 1 = T + 32 /\ cfi s' = (T + 32) :: cfi s /\
    (forall r, 0 <= r -> r <> 1 -> r <> 2 -> r <> 28 -> rget s' r = rget s r) /\
    mem s' = store_bytes (mem s) (S - 8) 8 (rget s 1) /\ dom s' = dom s.
Proof.
  intros Hpc S Hal Hr Hlo Hhi HT0 HT1. unfold fx_tramp_call. cbn [exec_at]. rewrite Hpc, Z.eqb_refl. cbn [exec alui]. rewrite !Hpc.
  set (s1 := set_pc (rset s 2 (u64 (rget s 2 + -8))) (T + 4)).
  assert (Hsp1 : rget s1 2 = S - 8).
  { unfold s1. rewrite rget_set_pc, rget_rset_same by lia. rewrite u64_idem. apply u64_small. fold S. lia. }
  assert (Hr1 : forall r, 0 <= r -> r <> 2 -> rget s1 r = rget s r).
  { intros r Hr0 Hne. unfold s1. rewrite rget_set_pc. apply rget_rset_other; lia. }
  change (pc s1) with (T + 4). rewrite Z.eqb_refl. unfold do_store. cbn [swidth]. change (Z.of_nat 8) with 8.
  replace (u64 (rget s1 2 + 0)) with (S - 8) by (rewrite Hsp1, Z.add_0_r; symmetry; apply u64_small; lia).
  rewrite (stack_ok v L Hstk_code s1 (S - 8) true) by (try lia; clear - Hal; Z.div_mod_to_equations; lia).
  set (s2 := set_pc (set_mem s1 (store_bytes (mem s1) (S - 8) 8 (rget s1 1))) (pc s1 + 4)).
  change (pc s2) with (T + 4 + 4). rewrite Z.eqb_refl.
  set (s3 := set_pc (rset s2 1 (T + 4 + 4 + 0 * 4096)) (T + 4 + 4 + 4)).
  change (pc s3) with (T + 4 + 4 + 4). rewrite Z.eqb_refl.
  set (s4 := set_pc (rset s3 1 (u64 (rget s3 1 + 24))) (T + 4 + 4 + 4 + 4)).
  change (pc s4) with (T + 4 + 4 + 4 + 4). rewrite Z.eqb_refl.
  set (s5 := set_pc (rset s4 28 (T + 4 + 4 + 4 + 4 + 0 * 4096)) (T + 4 + 4 + 4 + 4 + 4)).
  change (pc s5) with (T + 4 + 4 + 4 + 4 + 4). rewrite Z.eqb_refl.
  set (s6 := set_pc (rset s5 28 (u64 (rget s5 28 + 16))) (T + 4 + 4 + 4 + 4 + 4 + 4)).
  change (pc s6) with (T + 4 + 4 + 4 + 4 + 4 + 4). rewrite Z.eqb_refl.
  set (s7 := set_pc (set_cfi s6 (rget s6 28 :: cfi s6)) (T + 4 + 4 + 4 + 4 + 4 + 4 + 4)).
  change (pc s7) with (T + 4 + 4 + 4 + 4 + 4 + 4 + 4). rewrite Z.eqb_refl. rewrite rset_zero.
  eexists. split; [reflexivity|].
  assert (R31 : rget s3 1 = T + 8).
  { unfold s3. rewrite rget_set_pc, rget_rset_same by lia. rewrite u64_small by lia. lia. }
  assert (R41 : rget s4 1 = T + 32).
  { unfold s4. rewrite rget_set_pc, rget_rset_same by lia. rewrite u64_idem, R31. rewrite u64_small by lia. lia. }
  assert (R528 : rget s5 28 = T + 16).
  { unfold s5. rewrite rget_set_pc, rget_rset_same by lia. rewrite u64_small by lia. lia. }
  assert (R628 : rget s6 28 = T + 32).
  { unfold s6. rewrite rget_set_pc, rget_rset_same by lia. rewrite u64_idem, R528. rewrite u64_small by lia. lia. }
  assert (Hr7 : forall r, 0 <= r -> r <> 1 -> r <> 28 -> rget s7 r = rget s1 r).
  { intros r Hr0 N1 N28. change (rget s7 r) with (rget s6 r). unfold s6. rewrite rget_set_pc, rget_rset_other by lia.
    unfold s5. rewrite rget_set_pc, rget_rset_other by lia. unfold s4. rewrite rget_set_pc, rget_rset_other by lia.
    unfold s3. rewrite rget_set_pc, rget_rset_other by lia. reflexivity. }
  assert (R71 : rget s7 1 = T + 32).
  { change (rget s7 1) with (rget s6 1). unfold s6. rewrite rget_set_pc, rget_rset_other by lia.
    unfold s5. rewrite rget_set_pc, rget_rset_other by lia. exact R41. }
  split; [cbn [set_pc pc]; rewrite (Hr7 6), (Hr1 6) by lia; reflexivity|].
  split; [rewrite rget_set_pc, (Hr7 2) by lia; exact Hsp1|].
  split; [rewrite rget_set_pc; exact R71|].
  split.
  { cbn [set_pc cfi]. unfold s7. cbn [set_pc set_cfi cfi]. rewrite R628. f_equal;
    unfold s6, s5, s4, s3; cbn [set_pc cfi]; rewrite ?cfi_rset; unfold s2, s1; cbn [set_pc set_mem cfi]; rewrite ?cfi_rset; reflexivity. }
  split; [intros r Hr0 N1 N2 N28; rewrite rget_set_pc, (Hr7 r), (Hr1 r) by lia; reflexivity|].
  split.
  { cbn [set_pc mem]. unfold s7. cbn [set_pc set_cfi mem]. unfold s6, s5, s4, s3. cbn [set_pc mem]. rewrite !mem_rset.
    unfold s2. cbn [set_pc set_mem mem]. rewrite (Hr1 1) by lia. unfold s1. cbn [set_pc mem]. rewrite mem_rset. reflexivity. }
  cbn [set_pc dom]. unfold s7. cbn [set_pc set_cfi dom]. unfold s6, s5, s4, s3. cbn [set_pc dom]. rewrite !dom_rset.
  unfold s2, s1. cbn [set_pc set_mem dom]. rewrite ?dom_rset. reflexivity.
Qed.
End FXE.
