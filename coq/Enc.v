(* Enc.v — model of gigue's encoders: gigue/helpers.py (format_to,
   format_to_aligned, to_unsigned, to_signed, align), gigue/instructions.py,
   gigue/rimi/rimi_instructions.py, gigue/fixer/fixer_instructions.py.
   A literal mirror of the Python: same helpers, same order of |= and <<, same
   intermediate values, so a correspondence disagreement localises.
   Python ints are Z; & | << >> // % coincide with Z.land/lor/shiftl/shiftr//,mod. *)
From Coq Require Import ZArith List String Bool.
From Gigue Require Import Types Bits.
Import ListNotations.
Open Scope string_scope.
Open Scope Z_scope.
Notation "a ==s b" := (String.eqb a b) (at level 70).

(* ------------------------------------------------------------- helpers.py *)

Definition format_to (v n : Z) : Z := Z.land (Z.abs v) (Z.shiftl 1 n - 1).
Definition format_to_aligned (v n : Z) : Z := Z.land (Z.abs v) (Z.shiftl 1 n - 2).
Definition to_unsigned (v n : Z) : Z :=
  if 0 <=? v then v else (Z.shiftl 1 n - 1) - Z.abs v + 1.
Definition to_signed (v n : Z) : Z :=
  let sign_mask := Z.shiftl 1 (n - 1) in
  let mask := Z.shiftl 1 n - 1 in
  Z.lxor (Z.land v mask) sign_mask - sign_mask.
Definition align (v a : Z) : Z := (v / a) * a.

(* ------------------------------------------------ Instruction.__init__ s *)

Definition mkR (name : string) (opcode funct3 rd rs1 rs2 funct7 : Z) : gi :=
  GR name (format_to opcode 7) (format_to funct3 3) (format_to funct7 7)
     (format_to rd 5) (format_to rs1 5) (format_to rs2 5).

Definition mkI (name : string) (opcode funct3 rd rs1 imm funct7 : Z) : gi :=
  GI name (format_to opcode 7) (format_to funct3 3) (format_to funct7 7)
     (format_to rd 5) (format_to rs1 5) (format_to (to_unsigned imm 12) 12).

Definition mkU (name : string) (opcode rd imm : Z) : gi :=
  GU name (format_to opcode 7) (format_to rd 5) (format_to (to_unsigned imm 32) 32).

Definition mkJ (name : string) (opcode rd imm : Z) : gi :=
  GJ name (format_to opcode 7) (format_to rd 5) (format_to_aligned (to_unsigned imm 21) 21).

Definition mkS (name : string) (opcode funct3 rs1 rs2 imm : Z) : gi :=
  GS name (format_to opcode 7) (format_to funct3 3) (format_to rs1 5) (format_to rs2 5)
     (format_to (to_unsigned imm 12) 12).

Definition mkB (name : string) (opcode funct3 rs1 rs2 imm : Z) : gi :=
  GB name (format_to opcode 7) (format_to funct3 3) (format_to rs1 5) (format_to rs2 5)
     (format_to_aligned (to_unsigned imm 13) 13).

(* RoCCCustomInstruction.__init__: funct3 is rebuilt from xd/xs1/xs2 *)
Definition mkRoCC (name : string) (xd xs1 xs2 opcode rd rs1 rs2 funct7 : Z) : gi :=
  let xd' := format_to xd 1 in let xs1' := format_to xs1 1 in let xs2' := format_to xs2 1 in
  let funct3 := format_to (Z.shiftl xd' 2 + Z.shiftl xs1' 1 + xs2') 3 in
  mkR name opcode funct3 rd rs1 rs2 funct7.

(* ------------------------------------------------------------- generate() *)

Definition j_shuffle (imm : Z) : Z :=
  let s := Z.shiftl (Z.land (Z.shiftr imm 20) 1) 19 in
  let s := Z.lor s (Z.shiftl (Z.land (Z.shiftr imm 1) 1023) 9) in
  let s := Z.lor s (Z.shiftl (Z.land (Z.shiftr imm 11) 1) 8) in
  Z.lor s (Z.land (Z.shiftr imm 12) 255).

Definition s_shuffle (imm : Z) : Z * Z :=
  (Z.shiftl (Z.land imm 31) 7, Z.shiftl (Z.shiftr (Z.land imm 4064) 5) 25).

Definition b_shuffle (imm : Z) : Z * Z :=
  let s1 := Z.shiftl (Z.land (Z.shiftr imm 12) 1) 6 in
  let s1 := Z.lor s1 (Z.land (Z.shiftr imm 5) 63) in
  let s2 := Z.shiftl (Z.land (Z.shiftr imm 1) 15) 1 in
  let s2 := Z.lor s2 (Z.land (Z.shiftr imm 11) 1) in
  (s1, s2).

Definition generate (g : gi) : Z :=
  match g with
  | GR _ op f3 f7 rd rs1 rs2 =>
      let m := op in
      let m := Z.lor m (Z.shiftl rd 7) in
      let m := Z.lor m (Z.shiftl f3 12) in
      let m := Z.lor m (Z.shiftl rs1 15) in
      let m := Z.lor m (Z.shiftl rs2 20) in
      Z.lor m (Z.shiftl f7 25)
  | GI _ op f3 f7 rd rs1 imm =>
      let m := op in
      let m := Z.lor m (Z.shiftl rd 7) in
      let m := Z.lor m (Z.shiftl f3 12) in
      let m := Z.lor m (Z.shiftl rs1 15) in
      let m := Z.lor m (Z.shiftl imm 20) in
      Z.lor m (Z.shiftl f7 25)
  | GU _ op rd imm =>
      let m := op in
      let m := Z.lor m (Z.shiftl rd 7) in
      Z.lor m (Z.land imm 4294963200)
  | GJ _ op rd imm =>
      let m := op in
      let m := Z.lor m (Z.shiftl rd 7) in
      Z.lor m (Z.shiftl (j_shuffle imm) 12)
  | GS _ op f3 rs1 rs2 imm =>
      let '(s1, s2) := s_shuffle imm in
      let m := op in
      let m := Z.lor m s1 in
      let m := Z.lor m (Z.shiftl f3 12) in
      let m := Z.lor m (Z.shiftl rs1 15) in
      let m := Z.lor m (Z.shiftl rs2 20) in
      Z.lor m s2
  | GB _ op f3 rs1 rs2 imm =>
      let '(s1, s2) := b_shuffle imm in
      let m := op in
      let m := Z.lor m (Z.shiftl s2 7) in
      let m := Z.lor m (Z.shiftl f3 12) in
      let m := Z.lor m (Z.shiftl rs1 15) in
      let m := Z.lor m (Z.shiftl rs2 20) in
      Z.lor m (Z.shiftl s1 25)
  end.

Definition generate_bytes (g : gi) : list Z := le_bytes32 (generate g).

(* ------------------------------------------------ constructor classmethods *)

(* cls.r_instr / i_instr / ... : KeyError (None) when the name is not a key *)
Definition r_instr (tbl : list iinfo) (name : string) (rd rs1 rs2 : Z) : option gi :=
  match lookup_info tbl name with
  | Some e => Some (mkR name (ii_opcode e) (ii_funct3 e) rd rs1 rs2 (ii_funct7 e))
  | None => None
  end.
Definition i_instr (tbl : list iinfo) (name : string) (rd rs1 imm : Z) : option gi :=
  match lookup_info tbl name with
  | Some e => Some (mkI name (ii_opcode e) (ii_funct3 e) rd rs1 imm (ii_funct7 e))
  | None => None
  end.
Definition u_instr (tbl : list iinfo) (name : string) (rd imm : Z) : option gi :=
  match lookup_info tbl name with
  | Some e => Some (mkU name (ii_opcode e) rd imm)
  | None => None
  end.
Definition j_instr (tbl : list iinfo) (name : string) (rd imm : Z) : option gi :=
  match lookup_info tbl name with
  | Some e => Some (mkJ name (ii_opcode e) rd imm)
  | None => None
  end.
Definition s_instr (tbl : list iinfo) (name : string) (rs1 rs2 imm : Z) : option gi :=
  match lookup_info tbl name with
  | Some e => Some (mkS name (ii_opcode e) (ii_funct3 e) rs1 rs2 imm)
  | None => None
  end.
Definition b_instr (tbl : list iinfo) (name : string) (rs1 rs2 imm : Z) : option gi :=
  match lookup_info tbl name with
  | Some e => Some (mkB name (ii_opcode e) (ii_funct3 e) rs1 rs2 imm)
  | None => None
  end.
Definition custom_instr (tbl : list iinfo) (name : string) (rd rs1 rs2 : Z) : option gi :=
  match lookup_info tbl name with
  | Some e =>
      match ii_x e with
      | Some (xd, xs1, xs2) => Some (mkRoCC name xd xs1 xs2 (ii_opcode e) rd rs1 rs2 (ii_funct7 e))
      | None => None
      end
  | None => None
  end.

(* Every public constructor classmethod, by class and method name, applied to
   its positional arguments.  [base] is INSTRUCTIONS_INFO, [rimi] / [fixer] the
   extension tables. *)
Section Ctors.
  Variables (base rimi fixer : list iinfo).

  Definition r_ctor_names : list string :=
    ["add"; "addw"; "andr"; "mul"; "mulh"; "mulhsu"; "mulhu"; "mulw"; "orr"; "sll"; "sllw";
     "slt"; "sltu"; "sra"; "sraw"; "srl"; "srlw"; "sub"; "subw"; "xor"].
  Definition i_plain_names : list string :=
    ["addi"; "addiw"; "andi"; "jalr"; "lb"; "lbu"; "ld"; "lh"; "lhu"; "lw"; "lwu"; "ori";
     "slti"; "sltiu"; "xori"].
  Definition s_ctor_names : list string := ["sb"; "sh"; "sw"; "sd"].
  Definition b_ctor_names : list string := ["beq"; "bge"; "bgeu"; "blt"; "bltu"; "bne"].
  Definition rimi_i_names : list string :=
    ["lb1"; "lbu1"; "lh1"; "lhu1"; "lw1"; "lwu1"; "ld1"; "lst"; "chdom"].
  Definition rimi_s_names : list string := ["sb1"; "sh1"; "sw1"; "sd1"; "sst"].

  Definition mem (s : string) (l : list string) : bool := existsb (String.eqb s) l.

  Definition apply_ctor (cls name : string) (args : list Z) : option gi :=
    if cls ==s "RInstruction" then
      match args with
      | [rd; rs1; rs2] => if mem name r_ctor_names then r_instr base name rd rs1 rs2 else None
      | _ => None
      end
    else if cls ==s "IInstruction" then
      match args with
      | [rd; rs1; imm] =>
          if mem name i_plain_names then i_instr base name rd rs1 imm
          else if name ==s "slli" then i_instr base "slli" rd rs1 (Z.land imm 47)
          else if name ==s "srli" then i_instr base "srli" rd rs1 (Z.land imm 47)
          else if name ==s "srai" then i_instr base "srai" rd rs1 (Z.land imm 47)
          else if name ==s "slliw" then i_instr base "slliw" rd rs1 (Z.land imm 31)
          else if name ==s "srliw" then i_instr base "srliw" rd rs1 (Z.land imm 31)
          else if name ==s "sraiw" then i_instr base "sraiw" rd rs1 (Z.land imm 31)
          else None
      | [rs1] => if name ==s "jr" then i_instr base "jalr" 0 rs1 0 else None
      | [] =>
          if name ==s "ret" then i_instr base "jalr" 0 1 0
          else if name ==s "nop" then i_instr base "addi" 0 0 0
          else if name ==s "ebreak" then i_instr base "ebreak" 0 0 1
          else if name ==s "ecall" then i_instr base "ecall" 0 0 0
          else None
      | _ => None
      end
    else if cls ==s "UInstruction" then
      match args with
      | [rd; imm] => if mem name ["auipc"; "lui"] then u_instr base name rd imm else None
      | _ => None
      end
    else if cls ==s "JInstruction" then
      match args with
      | [rd; imm] => if name ==s "jal" then j_instr base "jal" rd imm else None
      | [imm] => if name ==s "j" then j_instr base "jal" 0 imm else None
      | _ => None
      end
    else if cls ==s "SInstruction" then
      match args with
      | [rs1; rs2; imm] => if mem name s_ctor_names then s_instr base name rs1 rs2 imm else None
      | _ => None
      end
    else if cls ==s "BInstruction" then
      match args with
      | [rs1; rs2; imm] => if mem name b_ctor_names then b_instr base name rs1 rs2 imm else None
      | _ => None
      end
    else if cls ==s "RIMIIInstruction" then
      match args with
      | [rd; rs1; imm] => if mem name rimi_i_names then i_instr rimi name rd rs1 imm else None
      | [] => if name ==s "retdom" then i_instr rimi "retdom" 0 1 0 else None
      | _ => None
      end
    else if cls ==s "RIMISInstruction" then
      match args with
      | [rs1; rs2; imm] => if mem name rimi_s_names then s_instr rimi name rs1 rs2 imm else None
      | _ => None
      end
    else if cls ==s "FIXERCustomInstruction" then
      match args with
      | [rd; rs1; rs2] => if mem name ["cficall"; "cfiret"] then custom_instr fixer name rd rs1 rs2 else None
      | _ => None
      end
    else None.
End Ctors.
