(* SplitProofs.v — the low/high split of a pc-relative offset is exact, and
   the call / address stubs reach exactly pc+offset on the reference machine. *)
From Coq Require Import ZArith List String Bool Lia.
From Gigue Require Import Types Bits Isa IsaProofs Enc EncProofs CtorSpec C12Defs C12Proofs GenTables
  Builder Machine MachineLemmas.
Import ListNotations.
Open Scope Z_scope.

Definition in_pair_range (off : Z) : Prop := - 2147483648 - 2048 <= off < 2147483648 - 2048.

Definition split_lo (off : Z) : Z := off mod 4096.
Definition split_hi (off : Z) : Z := ((off / 4096) mod 1048576) * 4096 + ((off / 2048) mod 2) * 4096.

Lemma split_offset_spec off m :
  split_offset off m = if Z.abs off <? m then Err EWrongOffset else OK (split_lo off, split_hi off).
Proof.
  unfold split_offset, split_lo, split_hi. destruct (Z.abs off <? m); [reflexivity|].
  f_equal. f_equal.
  - apply (land_ones_mod off 12). lia.
  - change 4294963200 with (Z.shiftl (Z.ones 20) 12). rewrite land_field by lia.
    change 2048 with (Z.shiftl (Z.ones 1) 11) at 1. rewrite land_field by lia.
    rewrite shiftl_mul by lia. pows. change (2 ^ 20) with 1048576. lia.
Qed.

(* the arithmetic heart: the value the auipc + low-immediate pair adds to pc *)
Definition pair_value (lo hi : Z) : Z := sext ((hi mod 4294967296) / 4096) 20 * 4096 + sext (lo mod 4096) 12.

Lemma split_ok off : in_pair_range off -> pair_value (split_lo off) (split_hi off) = off.
Proof.
  unfold in_pair_range, pair_value, split_lo, split_hi, sext. intros H.
  change (2 ^ (20 - 1)) with 524288. change (2 ^ 20) with 1048576.
  change (2 ^ (12 - 1)) with 2048. change (2 ^ 12) with 4096.
  rewrite (Z.mod_mod off 4096) by lia.
  set (lo := off mod 4096).
  set (q := (off / 4096) mod 1048576).
  set (b := (off / 2048) mod 2).
  assert (Hlo : 0 <= lo < 4096) by (apply Z.mod_pos_bound; lia).
  assert (Hq : 0 <= q < 1048576) by (apply Z.mod_pos_bound; lia).
  assert (Hb : 0 <= b < 2) by (apply Z.mod_pos_bound; lia).
  assert (Eb : b = lo / 2048).
  { subst b lo. Z.div_mod_to_equations; lia. }
  assert (Eh : ((q * 4096 + b * 4096) mod 4294967296) / 4096 = (q + b) mod 1048576).
  { Z.div_mod_to_equations; lia. }
  rewrite Eh.
  assert (Eoff : off = (off / 4096) * 4096 + lo) by (subst lo; Z.div_mod_to_equations; lia).
  assert (Equo : - 524289 <= off / 4096 < 524288) by (Z.div_mod_to_equations; lia).
  destruct (Z.ltb_spec lo 2048) as [Hl|Hl];
    destruct (Z.ltb_spec ((q + b) mod 1048576) 524288) as [Hh|Hh];
    subst q; Z.div_mod_to_equations; lia.
Qed.

(* ------------------------------------------------ decoding stub pieces *)

Lemma generate_mkU_wide name op rd imm :
  0 <= op < 128 -> 0 <= rd < 32 -> 0 <= imm ->
  generate (mkU name op rd imm) = op + rd * 128 + ((imm mod 4294967296) / 4096) * 4096.
Proof.
  intros Hop Hrd Himm. unfold mkU, generate.
  assert (E : format_to (to_unsigned imm 32) 32 = imm mod 4294967296).
  { unfold to_unsigned. destruct (Z.leb_spec 0 imm); [|lia].
    rewrite format_to_mod by lia. rewrite Z.abs_eq by lia. reflexivity. }
  rewrite E. ft_small.
  pose proof (Z.mod_pos_bound imm 4294967296 ltac:(lia)) as Hu.
  set (u := imm mod 4294967296) in *.
  change 4294963200 with (Z.shiftl (Z.ones 20) 12). rewrite (land_field u 20 12) by lia.
  sh2mul. pows. change (2 ^ 20) with 1048576.
  rewrite (Z.mod_small (u / 4096) 1048576) by (Z.div_mod_to_equations; lia).
  lor_low 128 7. lor_low 4096 12. reflexivity.
Qed.

Lemma decode_auipc_wide x name rd hi :
  0 <= rd < 32 -> 0 <= hi ->
  decode x (generate (mkU name 23 rd hi)) = Some (Auipc rd (sext ((hi mod 4294967296) / 4096) 20)).
Proof.
  intros Hrd Hhi.
  assert (Hq : 0 <= (hi mod 4294967296) / 4096 < 2 ^ 20).
  { change (2 ^ 20) with 1048576. Z.div_mod_to_equations; lia. }
  set (k := sext ((hi mod 4294967296) / 4096) 20).
  assert (Hk : -524288 <= k < 524288).
  { subst k. unfold sext. change (2 ^ (20 - 1)) with 524288. change (2 ^ 20) with 1048576 in *.
    destruct (Z.ltb_spec (hi mod 4294967296 / 4096) 524288); lia. }
  rewrite generate_mkU_wide by lia.
  apply via_spec.
  - unfold wf, isreg, simm. change (2 ^ (20 - 1)) with 524288.
    repeat (apply andb_true_intro; split); try apply Z.leb_le; try apply Z.ltb_lt; lia.
  - reflexivity.
  - cbn [encode_spec]. rewrite enc_U_sum. subst k. rewrite usig_sext by lia. reflexivity.
Qed.

Lemma enc_I_sext op f3 rd rs1 imm :
  enc_I op f3 rd rs1 imm = enc_I op f3 rd rs1 (sext (imm mod 4096) 12).
Proof.
  unfold enc_I. replace (usig (sext (imm mod 4096) 12) 12) with (usig imm 12); [reflexivity|].
  change (imm mod 4096) with (usig imm 12). symmetry. apply usig_sext; [lia|]. apply usig_range. lia.
Qed.

Lemma sext12_range v : 0 <= v < 4096 -> -2048 <= sext v 12 < 2048.
Proof.
  intros. unfold sext. change (2 ^ (12 - 1)) with 2048. change (2 ^ 12) with 4096.
  destruct (Z.ltb_spec v 2048); lia.
Qed.

Ltac wf_true :=
  unfold wf, isreg, simm; change (2 ^ (12 - 1)) with 2048;
  repeat (apply andb_true_intro; split); try apply Z.leb_le; try apply Z.ltb_lt; lia.

Lemma decode_jalr_any x name rd rs1 imm :
  0 <= rd < 32 -> 0 <= rs1 < 32 -> -2048 <= imm < 4096 ->
  decode x (generate (mkI name 103 0 rd rs1 imm 0)) = Some (Jalr rd rs1 (sext (imm mod 4096) 12)).
Proof.
  intros. rewrite generate_mkI by lia. rewrite enc_I_sext.
  pose proof (sext12_range (imm mod 4096) ltac:(apply Z.mod_pos_bound; lia)).
  apply via_spec; [wf_true | reflexivity | reflexivity].
Qed.

Lemma decode_addi_any x name rd rs1 imm :
  0 <= rd < 32 -> 0 <= rs1 < 32 -> -2048 <= imm < 4096 ->
  decode x (generate (mkI name 19 0 rd rs1 imm 0)) = Some (Iop ADDI rd rs1 (sext (imm mod 4096) 12)).
Proof.
  intros. rewrite generate_mkI by lia. rewrite enc_I_sext.
  pose proof (sext12_range (imm mod 4096) ltac:(apply Z.mod_pos_bound; lia)).
  apply via_spec; [wf_true | reflexivity | reflexivity].
Qed.

Lemma decode_chdom_any name rd rs1 imm :
  0 <= rd < 32 -> 0 <= rs1 < 32 -> -2048 <= imm < 4096 ->
  decode ExtRimi (generate (mkI name 91 1 rd rs1 imm 0)) = Some (Chdom rd rs1 (sext (imm mod 4096) 12)).
Proof.
  intros. rewrite generate_mkI by lia. rewrite enc_I_sext.
  pose proof (sext12_range (imm mod 4096) ltac:(apply Z.mod_pos_bound; lia)).
  apply via_spec; [wf_true | reflexivity | reflexivity].
Qed.

Lemma split_lo_range off : 0 <= split_lo off < 4096.
Proof. unfold split_lo. apply Z.mod_pos_bound. lia. Qed.
Lemma split_hi_range off : 0 <= split_hi off.
Proof.
  unfold split_hi.
  pose proof (Z.mod_pos_bound (off / 4096) 1048576 ltac:(lia)).
  pose proof (Z.mod_pos_bound (off / 2048) 2 ltac:(lia)). lia.
Qed.

(* ------------------------------------------------ machine-level pieces *)

Definition even_target (t : Z) : Prop := t mod 2 = 0.

Lemma jalr_target a : a mod 2 = 0 -> (u64 a / 2) * 2 = u64 a.
Proof.
  intros H. unfold u64, W64. Z.div_mod_to_equations; lia.
Qed.

(* after  auipc r, hi ; <low-immediate consumer>  at address P, the sum the
   consumer computes is P + off *)
Lemma pair_sum P off :
  in_pair_range off ->
  u64 (u64 (P + sext ((split_hi off mod 4294967296) / 4096) 20 * 4096) + sext (split_lo off mod 4096) 12)
  = u64 (P + off).
Proof.
  intros H. rewrite u64_add_l. f_equal.
  pose proof (split_ok off H) as E. unfold pair_value in E. lia.
Qed.

Definition decode_all (x : ext) (stub : list gi) : option (list instr) :=
  fold_right (fun g acc => match decode x (generate g), acc with
                           | Some i, Some l => Some (i :: l) | _, _ => None end) (Some []) stub.

Arguments mkI : simpl never.
Arguments mkU : simpl never.
Arguments mkJ : simpl never.
Arguments mkB : simpl never.
Arguments mkR : simpl never.
Arguments mkRoCC : simpl never.
Arguments generate : simpl never.
Arguments decode : simpl never.
Arguments Z.land : simpl never.
Arguments Z.modulo : simpl never.
Arguments Z.div : simpl never.
Arguments Z.mul : simpl never.
Arguments Z.add : simpl never.
Arguments Z.sub : simpl never.
Arguments Z.opp : simpl never.
Arguments split_lo : simpl never.
Arguments split_hi : simpl never.
Arguments sext : simpl never.
Arguments u64 : simpl never.
Arguments rset : simpl never.
Arguments rget : simpl never.

(* what a caller observes after a call-type stub *)
Record call_effect (s s' : mstate) (target ra_after : Z) : Prop := {
  ce_pc   : pc s' = target;
  ce_ra   : rget s' 1 = ra_after;
  ce_mem  : mem s' = mem s;
  ce_dom  : dom s' = dom s
}.

Lemma rset_x0 s v : rset s 0 v = s.
Proof. reflexivity. Qed.

Ltac regs_simpl :=
  repeat first
    [ rewrite rset_x0 | rewrite rget_set_pc | rewrite rget_set_cfi | rewrite rget_set_dom | rewrite rget_set_mem
    | rewrite rget_rset_same by lia | rewrite rget_rset_other by lia ].

Ltac fields_simpl :=
  repeat (progress (cbn [pc mem dom cfi set_pc set_cfi set_dom set_mem];
                    try rewrite pc_rset; try rewrite mem_rset; try rewrite dom_rset; try rewrite cfi_rset)).

Ltac fields_simpl_in E :=
  repeat (progress (cbn [pc mem dom cfi set_pc set_cfi set_dom set_mem] in E;
                    try rewrite pc_rset in E; try rewrite mem_rset in E; try rewrite dom_rset in E;
                    try rewrite cfi_rset in E)).

(* evaluate  exec_at v L A is s  (no evars involved) and name the final state *)
Ltac run_stub Hpc :=
  match goal with
  | |- exists s', exec_at ?v ?L ?A ?is ?s = Next s' /\ _ =>
      let E := fresh "E" in
      destruct (exec_at v L A is s) as [s1|s1|s1|f1 s1] eqn:E;
      do 8 (cbn [exec_at exec] in E; fields_simpl_in E; try rewrite Hpc in E; rewrite ?Z.eqb_refl in E);
      try discriminate E; inversion E; subst s1; clear E;
      eexists; split; [reflexivity|]
  end.

Lemma u64_sext_small h : 0 <= h < 2048 -> u64 (0 + sext (h mod 4096) 12) = h.
Proof.
  intros H. rewrite Z.mod_small by lia. unfold sext. change (2 ^ (12 - 1)) with 2048.
  destruct (Z.ltb_spec h 2048); [|lia]. apply u64_small. unfold W64. lia.
Qed.

(* --- method base call:  auipc ra, hi ; jalr ra, lo(ra) --- *)
Theorem method_base_call_reaches v L s A off :
  in_pair_range off -> 8 <= Z.abs off -> (A + off) mod 2 = 0 -> pc s = A ->
  exists stub is,
    build_method_base_call off = OK stub /\ List.length stub = 2%nat /\
    decode_all ExtNone stub = Some is /\
    exists s', exec_at v L A is s = Next s' /\
    call_effect s s' (u64 (A + off)) (u64 (A + 8)) /\ cfi s' = cfi s /\
    (forall r, 0 <= r -> r <> 1 -> rget s' r = rget s r).
Proof.
  intros Hr Hmin Hev Hpc.
  unfold build_method_base_call. rewrite split_offset_spec.
  destruct (Z.ltb_spec (Z.abs off) 8); [lia|].
  pose proof (split_lo_range off) as Hlo. pose proof (split_hi_range off) as Hhi.
  cbn. unfold c_RA, c_X0 in *.
  eexists. eexists. split; [reflexivity|]. split; [reflexivity|].
  unfold decode_all. cbn [fold_right].
  rewrite decode_auipc_wide by lia. rewrite decode_jalr_any by lia.
  split; [reflexivity|].
  run_stub Hpc.
  split; [constructor|split].
  - fields_simpl. regs_simpl. rewrite pair_sum by assumption. apply jalr_target. assumption.
  - regs_simpl. f_equal. lia.
  - fields_simpl. reflexivity.
  - fields_simpl. reflexivity.
  - fields_simpl. reflexivity.
  - intros r Hr0 Hne. regs_simpl. reflexivity.
Qed.

(* --- pc-relative register save:  auipc r, hi ; addi r, r, lo --- *)
Theorem reg_save_reaches v L s A off r :
  in_pair_range off -> 8 <= Z.abs off -> 0 < r < 32 -> pc s = A ->
  exists stub is,
    build_pc_relative_reg_save off r = OK stub /\ List.length stub = 2%nat /\
    decode_all ExtNone stub = Some is /\
    exists s', exec_at v L A is s = Next s' /\
    pc s' = A + 8 /\ rget s' r = u64 (A + off) /\ mem s' = mem s /\ cfi s' = cfi s /\ dom s' = dom s /\
    (forall r', 0 <= r' -> r' <> r -> rget s' r' = rget s r').
Proof.
  intros Hr Hmin Hreg Hpc.
  unfold build_pc_relative_reg_save. rewrite split_offset_spec.
  destruct (Z.ltb_spec (Z.abs off) 8); [lia|].
  pose proof (split_lo_range off) as Hlo. pose proof (split_hi_range off) as Hhi.
  cbn.
  eexists. eexists. split; [reflexivity|]. split; [reflexivity|].
  unfold decode_all. cbn [fold_right].
  rewrite decode_auipc_wide by lia. rewrite decode_addi_any by lia.
  split; [reflexivity|].
  run_stub Hpc.
  repeat split.
  - fields_simpl. lia.
  - regs_simpl. cbn [alui]. regs_simpl. rewrite u64_idem. apply pair_sum. assumption.
  - fields_simpl. reflexivity.
  - fields_simpl. reflexivity.
  - fields_simpl. reflexivity.
  - intros r' Hr0 Hne. regs_simpl. reflexivity.
Qed.

(* --- PIC base call:  addi hit, x0, h ; auipc ra, hi ; jalr ra, lo(ra)   (offset-4 is split) --- *)
Theorem pic_base_call_reaches v L s A off h hit :
  in_pair_range (off - 4) -> 12 <= Z.abs (off - 4) -> (A + off) mod 2 = 0 ->
  0 <= h < 2048 -> 0 < hit < 32 -> hit <> 1 -> pc s = A ->
  exists stub is,
    build_pic_base_call off h hit = OK stub /\ List.length stub = 3%nat /\
    decode_all ExtNone stub = Some is /\
    exists s', exec_at v L A is s = Next s' /\
    call_effect s s' (u64 (A + off)) (u64 (A + 12)) /\ rget s' hit = h /\ cfi s' = cfi s /\
    (forall r, 0 <= r -> r <> 1 -> r <> hit -> rget s' r = rget s r).
Proof.
  intros Hr Hmin Hev Hh Hhit Hne1 Hpc.
  unfold build_pic_base_call. rewrite split_offset_spec.
  destruct (Z.ltb_spec (Z.abs (off - 4)) 12); [lia|].
  pose proof (split_lo_range (off - 4)) as Hlo. pose proof (split_hi_range (off - 4)) as Hhi.
  cbn. unfold c_RA, c_X0 in *.
  eexists. eexists. split; [reflexivity|]. split; [reflexivity|].
  unfold decode_all. cbn [fold_right].
  rewrite decode_auipc_wide by lia. rewrite decode_jalr_any by lia. rewrite decode_addi_any by lia.
  split; [reflexivity|].
  run_stub Hpc.
  split; [constructor|split; [|split]].
  - fields_simpl. regs_simpl. rewrite pair_sum by assumption.
    replace (A + 4 + (off - 4)) with (A + off) by lia. apply jalr_target. assumption.
  - regs_simpl. f_equal. lia.
  - fields_simpl. reflexivity.
  - fields_simpl. reflexivity.
  - regs_simpl. cbn [alui]. regs_simpl. change (rget s 0) with 0. rewrite u64_idem. apply u64_sext_small. assumption.
  - fields_simpl. reflexivity.
  - intros r Hr0 Hn1 Hnh. regs_simpl. reflexivity.
Qed.

(* --- interpreter trampoline method call:
       auipc t1, hi_t ; addi t1, t1, lo_t ; auipc ra, hi_tr ; jalr ra, lo_tr(ra)
       (offset is split for the target, tramp_offset - 8 for the trampoline) --- *)
Theorem interp_method_call_reaches v L s A off toff :
  in_pair_range off -> 12 <= Z.abs off -> in_pair_range (toff - 8) -> 12 <= Z.abs (toff - 8) ->
  (A + toff) mod 2 = 0 -> pc s = A ->
  exists stub is,
    build_interpreter_trampoline_method_call false off toff = OK stub /\ List.length stub = 4%nat /\
    decode_all ExtNone stub = Some is /\
    exists s', exec_at v L A is s = Next s' /\
    call_effect s s' (u64 (A + toff)) (u64 (A + 16)) /\ rget s' c_CALL_TMP_REG = u64 (A + off) /\
    cfi s' = cfi s /\
    (forall r, 0 <= r -> r <> 1 -> r <> c_CALL_TMP_REG -> rget s' r = rget s r).
Proof.
  intros Hr Hmin Hr2 Hmin2 Hev Hpc.
  unfold build_interpreter_trampoline_method_call. rewrite !split_offset_spec.
  destruct (Z.ltb_spec (Z.abs off) 12); [lia|].
  destruct (Z.ltb_spec (Z.abs (toff - 8)) 12); [lia|].
  pose proof (split_lo_range off). pose proof (split_hi_range off).
  pose proof (split_lo_range (toff - 8)). pose proof (split_hi_range (toff - 8)).
  cbn. unfold c_RA, c_X0, c_CALL_TMP_REG in *.
  eexists. eexists. split; [reflexivity|]. split; [reflexivity|].
  unfold decode_all. cbn [fold_right].
  rewrite !decode_auipc_wide by lia. rewrite decode_jalr_any by lia. rewrite decode_addi_any by lia.
  split; [reflexivity|].
  run_stub Hpc.
  split; [constructor|split; [|split]].
  - fields_simpl. regs_simpl. rewrite pair_sum by assumption.
    replace (A + 4 + 4 + (toff - 8)) with (A + toff) by lia. apply jalr_target. assumption.
  - regs_simpl. f_equal. lia.
  - fields_simpl. reflexivity.
  - fields_simpl. reflexivity.
  - regs_simpl. cbn [alui]. regs_simpl. rewrite u64_idem. apply pair_sum. assumption.
  - fields_simpl. reflexivity.
  - intros r Hr0 Hn1 Hnh. regs_simpl. reflexivity.
Qed.

(* --- interpreter trampoline PIC call (5 instructions, tramp_offset - 12) --- *)
Theorem interp_pic_call_reaches v L s A off toff h hit :
  in_pair_range off -> 20 <= Z.abs off -> in_pair_range (toff - 12) -> 20 <= Z.abs (toff - 12) ->
  (A + toff) mod 2 = 0 -> 0 <= h < 2048 -> 0 < hit < 32 -> hit <> 1 -> hit <> c_CALL_TMP_REG -> pc s = A ->
  exists stub is,
    build_interpreter_trampoline_pic_call false off toff h hit = OK stub /\ List.length stub = 5%nat /\
    decode_all ExtNone stub = Some is /\
    exists s', exec_at v L A is s = Next s' /\
    call_effect s s' (u64 (A + toff)) (u64 (A + 20)) /\ rget s' c_CALL_TMP_REG = u64 (A + off) /\
    rget s' hit = h /\ cfi s' = cfi s /\
    (forall r, 0 <= r -> r <> 1 -> r <> c_CALL_TMP_REG -> r <> hit -> rget s' r = rget s r).
Proof.
  intros Hr Hmin Hr2 Hmin2 Hev Hh Hhit Hh1 Hht Hpc.
  unfold build_interpreter_trampoline_pic_call. rewrite !split_offset_spec.
  destruct (Z.ltb_spec (Z.abs off) 20); [lia|].
  destruct (Z.ltb_spec (Z.abs (toff - 12)) 20); [lia|].
  pose proof (split_lo_range off). pose proof (split_hi_range off).
  pose proof (split_lo_range (toff - 12)). pose proof (split_hi_range (toff - 12)).
  cbn. unfold c_RA, c_X0, c_CALL_TMP_REG in *.
  eexists. eexists. split; [reflexivity|]. split; [reflexivity|].
  unfold decode_all. cbn [fold_right].
  rewrite !decode_auipc_wide by lia. rewrite decode_jalr_any by lia. rewrite !decode_addi_any by lia.
  split; [reflexivity|].
  run_stub Hpc.
  split; [constructor|split; [|split; [|split]]].
  - fields_simpl. regs_simpl. rewrite pair_sum by assumption.
    replace (A + 4 + 4 + 4 + (toff - 12)) with (A + toff) by lia. apply jalr_target. assumption.
  - regs_simpl. f_equal. lia.
  - fields_simpl. reflexivity.
  - fields_simpl. reflexivity.
  - regs_simpl. cbn [alui]. regs_simpl. rewrite u64_idem. apply pair_sum. assumption.
  - regs_simpl. cbn [alui]. regs_simpl. change (rget s 0) with 0. rewrite ?u64_idem.
    apply u64_sext_small. assumption.
  - fields_simpl. reflexivity.
  - intros r Hr0 Hn1 Hnt Hnh. regs_simpl. reflexivity.
Qed.

(* --- RIMI full: the same two stubs ending in chdom (domain 0 -> 1, target in the JIT region) --- *)
Ltac run_stub_chdom Hpc Hdom Hin toff A k :=
  match goal with
  | |- exists s', exec_at ?v ?L ?A0 ?is ?s = Next s' /\ _ =>
      let E := fresh "E" in
      destruct (exec_at v L A0 is s) as [s1|s1|s1|f1 s1] eqn:E;
      do 8 (cbn [exec_at exec] in E; fields_simpl_in E; try rewrite Hpc in E; rewrite ?Z.eqb_refl in E);
      rewrite Hdom in E; cbn [Z.eqb negb] in E;
      match type of E with
      | context [inr _ _ ?T 4] =>
          let HT := fresh "HT" in
          assert (HT : T = u64 (A + toff));
          [ regs_simpl; rewrite pair_sum by assumption;
            match goal with |- context [u64 (?P + (toff - ?kk))] =>
              replace (P + (toff - kk)) with (A + toff) by lia end;
            apply jalr_target; assumption
          | rewrite HT in E; rewrite Hin in E; cbn [negb] in E ]
      end;
      try discriminate E; inversion E; subst s1; clear E;
      eexists; split; [reflexivity|]
  end.

Theorem rimi_interp_method_call_reaches L s A off toff :
  in_pair_range off -> 12 <= Z.abs off -> in_pair_range (toff - 8) -> 12 <= Z.abs (toff - 8) ->
  (A + toff) mod 2 = 0 -> pc s = A -> dom s = 0 ->
  inr (jit_lo L) (code_hi L) (u64 (A + toff)) 4 = true ->
  exists stub is,
    build_interpreter_trampoline_method_call true off toff = OK stub /\ List.length stub = 4%nat /\
    decode_all ExtRimi stub = Some is /\
    exists s', exec_at VRimiFull L A is s = Next s' /\
    pc s' = u64 (A + toff) /\ rget s' 1 = u64 (A + 16) /\ mem s' = mem s /\ dom s' = 1 /\
    rget s' c_CALL_TMP_REG = u64 (A + off) /\ cfi s' = cfi s /\
    (forall r, 0 <= r -> r <> 1 -> r <> c_CALL_TMP_REG -> rget s' r = rget s r).
Proof.
  intros Hr Hmin Hr2 Hmin2 Hev Hpc Hdom Hin.
  unfold build_interpreter_trampoline_method_call. rewrite !split_offset_spec.
  destruct (Z.ltb_spec (Z.abs off) 12); [lia|].
  destruct (Z.ltb_spec (Z.abs (toff - 8)) 12); [lia|].
  pose proof (split_lo_range off). pose proof (split_hi_range off).
  pose proof (split_lo_range (toff - 8)). pose proof (split_hi_range (toff - 8)).
  cbn. unfold c_RA, c_X0, c_CALL_TMP_REG in *.
  eexists. eexists. split; [reflexivity|]. split; [reflexivity|].
  unfold decode_all. cbn [fold_right].
  rewrite !decode_auipc_wide by lia. rewrite decode_chdom_any by lia. rewrite decode_addi_any by lia.
  split; [reflexivity|].
  run_stub_chdom Hpc Hdom Hin toff A 8.
  repeat split.
  all: try (fields_simpl; reflexivity).
  all: try (regs_simpl; f_equal; lia).
  all: try (regs_simpl; cbn [alui]; regs_simpl; rewrite u64_idem; apply pair_sum; assumption).
  all: intros r Hr0 Hn1 Hnh; regs_simpl; reflexivity.
Qed.

Theorem rimi_interp_pic_call_reaches L s A off toff h hit :
  in_pair_range off -> 20 <= Z.abs off -> in_pair_range (toff - 12) -> 20 <= Z.abs (toff - 12) ->
  (A + toff) mod 2 = 0 -> 0 <= h < 2048 -> 0 < hit < 32 -> hit <> 1 -> hit <> c_CALL_TMP_REG ->
  pc s = A -> dom s = 0 -> inr (jit_lo L) (code_hi L) (u64 (A + toff)) 4 = true ->
  exists stub is,
    build_interpreter_trampoline_pic_call true off toff h hit = OK stub /\ List.length stub = 5%nat /\
    decode_all ExtRimi stub = Some is /\
    exists s', exec_at VRimiFull L A is s = Next s' /\
    pc s' = u64 (A + toff) /\ rget s' 1 = u64 (A + 20) /\ mem s' = mem s /\ dom s' = 1 /\
    rget s' c_CALL_TMP_REG = u64 (A + off) /\ rget s' hit = h /\ cfi s' = cfi s /\
    (forall r, 0 <= r -> r <> 1 -> r <> c_CALL_TMP_REG -> r <> hit -> rget s' r = rget s r).
Proof.
  intros Hr Hmin Hr2 Hmin2 Hev Hh Hhit Hh1 Hht Hpc Hdom Hin.
  unfold build_interpreter_trampoline_pic_call. rewrite !split_offset_spec.
  destruct (Z.ltb_spec (Z.abs off) 20); [lia|].
  destruct (Z.ltb_spec (Z.abs (toff - 12)) 20); [lia|].
  pose proof (split_lo_range off). pose proof (split_hi_range off).
  pose proof (split_lo_range (toff - 12)). pose proof (split_hi_range (toff - 12)).
  cbn. unfold c_RA, c_X0, c_CALL_TMP_REG in *.
  eexists. eexists. split; [reflexivity|]. split; [reflexivity|].
  unfold decode_all. cbn [fold_right].
  rewrite !decode_auipc_wide by lia. rewrite decode_chdom_any by lia. rewrite !decode_addi_any by lia.
  split; [reflexivity|].
  run_stub_chdom Hpc Hdom Hin toff A 12.
  repeat split.
  all: try (fields_simpl; reflexivity).
  all: try (regs_simpl; f_equal; lia).
  all: try (regs_simpl; cbn [alui]; regs_simpl; rewrite u64_idem; apply pair_sum; assumption).
  all: try (regs_simpl; cbn [alui]; regs_simpl; change (rget s 0) with 0; rewrite ?u64_idem;
            apply u64_sext_small; assumption).
  all: intros r Hr0 Hn1 Hnt Hnh; regs_simpl; reflexivity.
Qed.

(* --- switch case:  addi cmp, x0, n ; bne cmp, hit, 8 ; jal x0, moff --- *)
Lemma decode_bne_any x name rs1 rs2 off :
  0 <= rs1 < 32 -> 0 <= rs2 < 32 -> -4096 <= off < 4096 -> off mod 2 = 0 ->
  decode x (generate (mkB name 99 1 rs1 rs2 off)) = Some (Branch BNE rs1 rs2 off).
Proof.
  intros. rewrite generate_mkB by lia.
  apply via_spec; [|reflexivity|reflexivity].
  unfold wf, isreg, simm. change (2 ^ (13 - 1)) with 4096.
  repeat (apply andb_true_intro; split); try apply Z.leb_le; try apply Z.ltb_lt; try apply Z.eqb_eq; lia.
Qed.

Lemma decode_jal_any x name rd off :
  0 <= rd < 32 -> -1048576 <= off < 1048576 -> off mod 2 = 0 ->
  decode x (generate (mkJ name 111 rd off)) = Some (Jal rd off).
Proof.
  intros. rewrite generate_mkJ by lia.
  apply via_spec; [|reflexivity|reflexivity].
  unfold wf, isreg, simm. change (2 ^ (21 - 1)) with 1048576.
  repeat (apply andb_true_intro; split); try apply Z.leb_le; try apply Z.ltb_lt; try apply Z.eqb_eq; lia.
Qed.

Definition switch_decoded (n moff hit cmp : Z) : list instr :=
  [Iop ADDI cmp 0 (sext (n mod 4096) 12); Branch BNE cmp hit 8; Jal 0 moff].

Theorem switch_case_decodes n moff hit cmp :
  0 < n < 2048 -> -1048576 <= moff < 1048576 -> moff mod 2 = 0 ->
  0 < hit < 32 -> 0 < cmp < 32 ->
  exists stub,
    build_switch_case n moff hit cmp = OK stub /\ List.length stub = 3%nat /\
    decode_all ExtNone stub = Some (switch_decoded n moff hit cmp).
Proof.
  intros Hn Hm Hev Hhit Hcmp.
  unfold build_switch_case. cbn. unfold c_X0 in *.
  eexists. split; [reflexivity|]. split; [reflexivity|].
  unfold decode_all. cbn [fold_right].
  rewrite decode_addi_any by lia. rewrite decode_bne_any by (try lia; reflexivity).
  rewrite decode_jal_any by lia. reflexivity.
Qed.

(* hit: the compare succeeds, the jal is executed and lands on pc_of_jal + moff *)
Theorem switch_case_hit v L s P n moff hit cmp :
  0 < n < 2048 -> 0 < hit < 32 -> 0 < cmp < 32 -> hit <> cmp -> pc s = P -> rget s hit = n ->
  exists s', exec_at v L P (switch_decoded n moff hit cmp) s = Next s' /\
    pc s' = u64 (P + 8 + moff) /\ mem s' = mem s /\ cfi s' = cfi s /\ dom s' = dom s /\
    (forall r, 0 <= r -> r <> cmp -> rget s' r = rget s r).
Proof.
  intros Hn Hhit Hcmp Hne Hpc Hv.
  assert (Hc : u64 (0 + sext (n mod 4096) 12) = n) by (apply u64_sext_small; lia).
  unfold switch_decoded.
  destruct (exec_at v L P _ s) as [s1|s1|s1|f1 s1] eqn:E;
  cbn [exec_at exec] in E; fields_simpl_in E; rewrite Hpc, Z.eqb_refl in E;
  cbn [btaken alui] in E;
  rewrite rget_set_pc, rget_rset_same in E by lia;
  rewrite rget_set_pc, rget_rset_other in E by lia;
  change (rget s 0) with 0 in E; rewrite Hc, Hv in E; rewrite (u64_small n) in E by (unfold W64; lia);
  rewrite Z.eqb_refl in E; cbn [negb] in E;
  fields_simpl_in E; rewrite ?Z.eqb_refl in E; fields_simpl_in E;
  try discriminate E.
  inversion E; subst s1; clear E. eexists; split; [reflexivity|].
  repeat split; try (fields_simpl; reflexivity).
  - fields_simpl. f_equal. lia.
  - intros r Hr0 Hnr. regs_simpl. reflexivity.
Qed.

(* miss: the first two instructions branch over the jal, to the next case *)
Theorem switch_case_miss v L s P n moff hit cmp :
  0 < n < 2048 -> 0 < hit < 32 -> 0 < cmp < 32 -> hit <> cmp -> pc s = P -> rget s hit <> n ->
  exists s', exec_at v L P (firstn 2 (switch_decoded n moff hit cmp)) s = Next s' /\
    pc s' = u64 (P + 12) /\ mem s' = mem s /\ cfi s' = cfi s /\ dom s' = dom s /\
    (forall r, 0 <= r -> r <> cmp -> rget s' r = rget s r).
Proof.
  intros Hn Hhit Hcmp Hne Hpc Hv.
  assert (Hc : u64 (0 + sext (n mod 4096) 12) = n) by (apply u64_sext_small; lia).
  unfold switch_decoded. cbn [firstn].
  destruct (exec_at v L P _ s) as [s1|s1|s1|f1 s1] eqn:E;
  cbn [exec_at exec] in E; fields_simpl_in E; rewrite Hpc, Z.eqb_refl in E;
  cbn [btaken alui] in E;
  rewrite rget_set_pc, rget_rset_same in E by lia;
  rewrite rget_set_pc, rget_rset_other in E by lia;
  change (rget s 0) with 0 in E; rewrite Hc in E; rewrite (u64_small n) in E by (unfold W64; lia);
  (destruct (Z.eqb_spec n (rget s hit)) as [Heq|Hneq]; [congruence|]); cbn [negb] in E;
  fields_simpl_in E; rewrite ?Z.eqb_refl in E; try discriminate E.
  inversion E; subst s1; clear E. eexists; split; [reflexivity|].
  repeat split; try (fields_simpl; reflexivity).
  - fields_simpl. f_equal. lia.
  - intros r Hr0 Hnr. regs_simpl. reflexivity.
Qed.

(* --- FIXER: tagged method / PIC calls --- *)
Lemma decode_cficall_any name rd rs1 rs2 :
  0 <= rd < 32 -> 0 <= rs1 < 32 -> 0 <= rs2 < 32 ->
  decode ExtFixer (generate (mkRoCC name 0 1 0 11 rd rs1 rs2 0)) = Some (Cficall rd rs1 rs2).
Proof.
  intros. rewrite generate_mkRoCC by lia.
  apply via_spec; [|reflexivity|reflexivity].
  unfold wf, isreg. repeat (apply andb_true_intro; split); try apply Z.leb_le; try apply Z.ltb_lt; lia.
Qed.

Lemma sext_0_20 : sext (0 mod 4294967296 / 4096) 20 = 0.  Proof. reflexivity. Qed.
Lemma sext_20_12 : sext (20 mod 4096) 12 = 20.  Proof. reflexivity. Qed.
Lemma sext_24_12 : sext (24 mod 4096) 12 = 24.  Proof. reflexivity. Qed.

Theorem fixer_method_call_reaches L s A off :
  in_pair_range (off - 12) -> 20 <= Z.abs off -> (A + off) mod 2 = 0 -> pc s = A ->
  exists stub is,
    fixer_method_base_call off = OK stub /\ List.length stub = 5%nat /\
    decode_all ExtFixer stub = Some is /\
    exists s', exec_at VFixer L A is s = Next s' /\
    call_effect s s' (u64 (A + off)) (u64 (A + 20)) /\
    cfi s' = u64 (A + 20) :: cfi s /\        (* exactly the return address is registered *)
    (forall r, 0 <= r -> r <> 1 -> r <> c_FIXER_CMP_REG -> rget s' r = rget s r).
Proof.
  intros Hr Hmin Hev Hpc.
  unfold fixer_method_base_call.
  destruct (Z.ltb_spec (Z.abs off) 20); [lia|].
  unfold build_method_base_call. rewrite split_offset_spec.
  destruct (Z.ltb_spec (Z.abs (off - 12)) 8); [lia|].
  pose proof (split_lo_range (off - 12)). pose proof (split_hi_range (off - 12)).
  cbn. unfold c_RA, c_X0, c_FIXER_CMP_REG in *.
  eexists. eexists. split; [reflexivity|]. split; [reflexivity|].
  unfold decode_all. cbn [fold_right].
  rewrite !decode_auipc_wide by lia. rewrite decode_jalr_any by lia. rewrite decode_addi_any by lia.
  rewrite decode_cficall_any by lia. rewrite sext_0_20, sext_20_12.
  split; [reflexivity|].
  run_stub Hpc.
  split; [constructor|split].
  - fields_simpl. regs_simpl. rewrite pair_sum by assumption.
    replace (A + 4 + 4 + 4 + (off - 12)) with (A + off) by lia. apply jalr_target. assumption.
  - regs_simpl. f_equal. lia.
  - fields_simpl. reflexivity.
  - fields_simpl. reflexivity.
  - fields_simpl. regs_simpl. cbn [alui]. regs_simpl. rewrite u64_idem, u64_add_l. do 2 f_equal. lia.
  - intros r Hr0 Hn1 Hnt. regs_simpl. reflexivity.
Qed.

Theorem fixer_pic_call_reaches L s A off h hit :
  in_pair_range (off - 16) -> 24 <= Z.abs off -> 12 <= Z.abs (off - 16) -> (A + off) mod 2 = 0 ->
  0 <= h < 2048 -> 0 < hit < 32 -> hit <> 1 -> hit <> c_FIXER_CMP_REG -> pc s = A ->
  exists stub is,
    fixer_pic_base_call off h hit = OK stub /\ List.length stub = 6%nat /\
    decode_all ExtFixer stub = Some is /\
    exists s', exec_at VFixer L A is s = Next s' /\
    call_effect s s' (u64 (A + off)) (u64 (A + 24)) /\ rget s' hit = h /\
    cfi s' = u64 (A + 24) :: cfi s /\
    (forall r, 0 <= r -> r <> 1 -> r <> c_FIXER_CMP_REG -> r <> hit -> rget s' r = rget s r).
Proof.
  intros Hr Hmin Hmin2 Hev Hh Hhit Hh1 Hht Hpc.
  unfold fixer_pic_base_call.
  destruct (Z.ltb_spec (Z.abs off) 24); [lia|].
  unfold build_pic_base_call. replace (off - 12 - 4) with (off - 16) by lia. rewrite split_offset_spec.
  destruct (Z.ltb_spec (Z.abs (off - 16)) 12); [lia|].
  pose proof (split_lo_range (off - 16)). pose proof (split_hi_range (off - 16)).
  cbn. unfold c_RA, c_X0, c_FIXER_CMP_REG in *.
  eexists. eexists. split; [reflexivity|]. split; [reflexivity|].
  unfold decode_all. cbn [fold_right].
  rewrite !decode_auipc_wide by lia. rewrite decode_jalr_any by lia. rewrite !decode_addi_any by lia.
  rewrite decode_cficall_any by lia. rewrite sext_0_20, sext_24_12.
  split; [reflexivity|].
  run_stub Hpc.
  split; [constructor|split; [|split]].
  - fields_simpl. regs_simpl. rewrite pair_sum by assumption.
    replace (A + 4 + 4 + 4 + 4 + (off - 16)) with (A + off) by lia. apply jalr_target. assumption.
  - regs_simpl. f_equal. lia.
  - fields_simpl. reflexivity.
  - fields_simpl. reflexivity.
  - regs_simpl. cbn [alui]. regs_simpl. change (rget s 0) with 0. rewrite ?u64_idem.
    apply u64_sext_small. assumption.
  - fields_simpl. regs_simpl. cbn [alui]. regs_simpl. rewrite u64_idem, u64_add_l. do 2 f_equal. lia.
  - intros r Hr0 Hn1 Hnt Hnh. regs_simpl. reflexivity.
Qed.

(* ------------------------------------------------ rejection / acceptance *)

Theorem split_rejects off m : Z.abs off < m -> split_offset off m = Err EWrongOffset.
Proof. intros H. unfold split_offset. destruct (Z.ltb_spec (Z.abs off) m); [reflexivity|lia]. Qed.

Theorem split_accepts off m : m <= Z.abs off -> exists lo hi, split_offset off m = OK (lo, hi).
Proof. intros H. unfold split_offset. destruct (Z.ltb_spec (Z.abs off) m); [lia|]. eauto. Qed.

Theorem stubs_reject :
  (forall off, Z.abs off < 8 -> build_method_base_call off = Err EWrongOffset) /\
  (forall off h r, Z.abs (off - 4) < 12 -> build_pic_base_call off h r = Err EWrongOffset) /\
  (forall off r, Z.abs off < 8 -> build_pc_relative_reg_save off r = Err EWrongOffset) /\
  (forall f off t, Z.abs off < 12 \/ Z.abs (t - 8) < 12 ->
     build_interpreter_trampoline_method_call f off t = Err EWrongOffset) /\
  (forall f off t h r, Z.abs off < 20 \/ Z.abs (t - 12) < 20 ->
     build_interpreter_trampoline_pic_call f off t h r = Err EWrongOffset) /\
  (forall off, Z.abs off < 20 -> fixer_method_base_call off = Err EWrongOffset) /\
  (forall off h r, Z.abs off < 24 -> fixer_pic_base_call off h r = Err EWrongOffset).
Proof.
  repeat split; intros.
  - unfold build_method_base_call. rewrite split_rejects by assumption. reflexivity.
  - unfold build_pic_base_call. rewrite split_rejects by assumption. reflexivity.
  - unfold build_pc_relative_reg_save. rewrite split_rejects by assumption. reflexivity.
  - unfold build_interpreter_trampoline_method_call.
    destruct (Z_lt_le_dec (Z.abs off) 12).
    + rewrite split_rejects by assumption. reflexivity.
    + destruct (split_accepts off 12 ltac:(lia)) as (lo & hi & E). rewrite E. cbn [bind].
      rewrite split_rejects by lia. reflexivity.
  - unfold build_interpreter_trampoline_pic_call.
    destruct (Z_lt_le_dec (Z.abs off) 20).
    + rewrite split_rejects by assumption. reflexivity.
    + destruct (split_accepts off 20 ltac:(lia)) as (lo & hi & E). rewrite E. cbn [bind].
      rewrite split_rejects by lia. reflexivity.
  - unfold fixer_method_base_call. destruct (Z.ltb_spec (Z.abs off) 20); [reflexivity|lia].
  - unfold fixer_pic_base_call. destruct (Z.ltb_spec (Z.abs off) 24); [reflexivity|lia].
Qed.

(* Disassembler.extract_pc_relative_offset recovers the offset from the pair *)
