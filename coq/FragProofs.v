(* FragProofs.v — static discipline of the parameter-free code fragments
   (prologues, epilogues, trampolines, nop, ret of the five variants), decided
   by computation on the fragments DUMPED from /repo on this run and decoded
   with the specification decoder.  Re-proved on every run. *)
From Coq Require Import ZArith List String Bool.
From Gigue Require Import Types Isa GenTables.
Import ListNotations.
Open Scope Z_scope.

Definition dec_frag (x : ext) (f : fragment) : option (list instr) :=
  fold_right (fun p acc => match decode x (snd p), acc with
                           | Some i, Some l => Some (i :: l) | _, _ => None end) (Some []) f.

Definition RA := 1.
Definition SP := 2.

(* ---- frames (C02) ---- *)
Definition sp_adjusts (l : list instr) : list Z :=
  flat_map (fun i => match i with Iop ADDI rd rs1 imm => if (rd =? SP) && (rs1 =? SP) then [imm] else [] | _ => [] end) l.
Definition writes_sp_otherwise (l : list instr) : bool :=
  existsb (fun i => match i with
                    | Iop ADDI rd rs1 _ => (rd =? SP) && negb (rs1 =? SP)
                    | Rop _ rd _ _ | Iop _ rd _ _ | Shift _ rd _ _ | Load _ rd _ _ | Lui rd _ | Auipc rd _
                    | Jal rd _ | Jalr rd _ _ | Load1 _ rd _ _ | Lst rd _ _ | Cfiret rd _ _ | Chdom rd _ _
                    | Retdom rd _ _ => rd =? SP
                    | _ => false end) l.
Definition saved_slots (l : list instr) : list (Z * Z) :=      (* (register, offset) stored through sp *)
  flat_map (fun i => match i with Store SD rs1 rs2 imm => if rs1 =? SP then [(rs2, imm)] else [] | _ => [] end) l.
Definition restored_slots (l : list instr) : list (Z * Z) :=
  flat_map (fun i => match i with Load LD rd rs1 imm => if rs1 =? SP then [(rd, imm)] else [] | _ => [] end) l.
Definition pair_eqb (a b : Z * Z) : bool := (fst a =? fst b) && (snd a =? snd b).
Fixpoint pairs_eqb (a b : list (Z * Z)) : bool :=
  match a, b with [], [] => true | x :: a', y :: b' => pair_eqb x y && pairs_eqb a' b' | _, _ => false end.

(* allocation = release, one adjustment each, every slot inside the frame and
   8-aligned, the same (register, slot) pairs saved and restored in order *)
Definition frame_symmetric (pro epi : list instr) : bool :=
  match sp_adjusts pro, sp_adjusts epi with
  | [d], [u] =>
      (d <? 0) && (d + u =? 0) && negb (writes_sp_otherwise pro) && negb (writes_sp_otherwise epi)
      && pairs_eqb (saved_slots pro) (restored_slots epi)
      && forallb (fun s => (0 <=? snd s) && (snd s + 8 <=? u) && (snd s mod 8 =? 0)) (saved_slots pro)
  | _, _ => false
  end.

(* only stores/loads of the fragment go through sp or the shadow pointer *)
Definition mem_bases_ok (allowed : list Z) (l : list instr) : bool :=
  forallb (fun i => match i with
                    | Load _ _ rs1 _ | Store _ rs1 _ _ | Load1 _ _ rs1 _ | Store1 _ rs1 _ _ | Lst _ rs1 _ | Sst rs1 _ _ =>
                        existsb (Z.eqb rs1) allowed
                    | _ => true end) l.

Definition ends_with_ret (l : list instr) : bool :=
  match rev l with Jalr 0 1 0 :: _ => true | _ => false end.

Definition no_custom (l : list instr) : bool :=
  forallb (fun i => match i with
                    | Load1 _ _ _ _ | Store1 _ _ _ _ | Lst _ _ _ | Sst _ _ _ | Chdom _ _ _ | Retdom _ _ _
                    | Cficall _ _ _ | Cfiret _ _ _ => false | _ => true end) l.

(* ---- RIMI (C09 / C10) ---- *)
Definition ra_on_main_stack (l : list instr) : bool :=
  existsb (fun i => match i with
                    | Store _ rs1 rs2 _ => (rs2 =? RA) && (rs1 =? SP)
                    | Load _ rd rs1 _ => (rd =? RA) && (rs1 =? SP)
                    | _ => false end) l.
Definition has_instr (p : instr -> bool) (l : list instr) : bool := existsb p l.
Definition is_push_ra (ssp : Z) (i : instr) : bool := match i with Sst rs1 rs2 0 => (rs1 =? ssp) && (rs2 =? RA) | _ => false end.
Definition is_pop_ra (ssp : Z) (i : instr) : bool := match i with Lst rd rs1 0 => (rd =? RA) && (rs1 =? ssp) | _ => false end.

(* the shadow pointer changes only as  addi ssp,ssp,-8 ; sst _,0(ssp)  and  lst _,0(ssp) ; addi ssp,ssp,8 *)
Fixpoint ssp_discipline (ssp : Z) (prev : option instr) (l : list instr) : bool :=
  match l with
  | [] => true
  | i :: tl =>
      (match i with
       | Iop ADDI rd rs1 imm =>
           if rd =? ssp then
             (rs1 =? ssp) &&
             (((imm =? -8) && match tl with Sst b _ 0 :: _ => b =? ssp | _ => false end)
              || ((imm =? 8) && match prev with Some (Lst _ b 0) => b =? ssp | _ => false end))
           else true
       | Rop _ rd _ _ | Iop _ rd _ _ | Shift _ rd _ _ | Load _ rd _ _ | Lui rd _ | Auipc rd _ | Jal rd _
       | Jalr rd _ _ | Load1 _ rd _ _ | Lst rd _ _ => negb (rd =? ssp)
       | _ => true
       end) && ssp_discipline ssp (Some i) tl
  end.

(* ---- FIXER (C11) ---- *)
Definition checked_return (t3 : Z) (l : list instr) : bool :=
  match rev l with
  | Jalr 0 1 0 :: Ecall :: Branch BEQ a b 8 :: Cfiret rd _ _ :: _ => (a =? RA) && (b =? t3) && (rd =? t3)
  | _ => false
  end.

Definition all_some {A} (l : list (option A)) : bool := forallb (fun o => match o with Some _ => true | None => false end) l.

Definition with_frag {A} (x : ext) (f : fragment) (k : list instr -> A) (d : A) : A :=
  match dec_frag x f with Some l => k l | None => d end.

(* ------------------------------------------------------------ the decisions *)
Definition frames_ok (x : ext) (pl pc el ec ip ie : fragment) : bool :=
  with_frag x pl (fun pl' => with_frag x el (fun el' => frame_symmetric pl' el') false) false
  && with_frag x pc (fun pc' => with_frag x ec (fun ec' => frame_symmetric pc' ec') false) false
  && with_frag x ip (fun ip' => with_frag x ie (fun ie' => frame_symmetric ip' ie') false) false
  && with_frag x el ends_with_ret false && with_frag x ec ends_with_ret false && with_frag x ie ends_with_ret false.

Lemma all_frames_symmetric :
  frames_ok ExtNone f_base_pro_leaf f_base_pro_call f_base_epi_leaf f_base_epi_call f_base_int_pro f_base_int_epi
  && frames_ok ExtNone f_tramp_pro_leaf f_tramp_pro_call f_tramp_epi_leaf f_tramp_epi_call f_tramp_int_pro f_tramp_int_epi
  && frames_ok ExtRimi f_rimiss_pro_leaf f_rimiss_pro_call f_rimiss_epi_leaf f_rimiss_epi_call f_rimiss_int_pro f_rimiss_int_epi
  && frames_ok ExtRimi f_rimifull_pro_leaf f_rimifull_pro_call f_rimifull_epi_leaf f_rimifull_epi_call f_rimifull_int_pro f_rimifull_int_epi
  && frames_ok ExtFixer f_fixer_pro_leaf f_fixer_pro_call f_fixer_epi_leaf f_fixer_epi_call f_fixer_int_pro f_fixer_int_epi
  = true.
Proof. vm_compute. reflexivity. Qed.

(* trampoline pairs push / pop one 8-byte slot (base, RIMI shadow-stack, FIXER) *)
Lemma trampoline_frames :
  with_frag ExtNone f_tramp_tramp_call (fun c => with_frag ExtNone f_tramp_tramp_ret (fun r => frame_symmetric c r) false) false
  && with_frag ExtRimi f_rimiss_tramp_call (fun c => with_frag ExtRimi f_rimiss_tramp_ret (fun r => frame_symmetric c r) false) false
  && with_frag ExtFixer f_fixer_tramp_call (fun c => with_frag ExtFixer f_fixer_tramp_ret (fun r => frame_symmetric c r) false) false
  = true.
Proof. vm_compute. reflexivity. Qed.

Definition all_frags (v : string) : list fragment :=
  if String.eqb v "base" then [f_base_pro_leaf; f_base_pro_call; f_base_epi_leaf; f_base_epi_call; f_base_int_pro; f_base_int_epi; f_base_nop; f_base_ret]
  else if String.eqb v "tramp" then [f_tramp_pro_leaf; f_tramp_pro_call; f_tramp_epi_leaf; f_tramp_epi_call; f_tramp_int_pro; f_tramp_int_epi; f_tramp_tramp_call; f_tramp_tramp_ret; f_tramp_nop; f_tramp_ret]
  else if String.eqb v "rimiss" then [f_rimiss_pro_leaf; f_rimiss_pro_call; f_rimiss_epi_leaf; f_rimiss_epi_call; f_rimiss_int_pro; f_rimiss_int_epi; f_rimiss_tramp_call; f_rimiss_tramp_ret; f_rimiss_nop; f_rimiss_ret]
  else if String.eqb v "rimifull" then [f_rimifull_pro_leaf; f_rimifull_pro_call; f_rimifull_epi_leaf; f_rimifull_epi_call; f_rimifull_int_pro; f_rimifull_int_epi; f_rimifull_tramp_call; f_rimifull_tramp_ret; f_rimifull_nop; f_rimifull_ret]
  else [f_fixer_pro_leaf; f_fixer_pro_call; f_fixer_epi_leaf; f_fixer_epi_call; f_fixer_int_pro; f_fixer_int_epi; f_fixer_tramp_call; f_fixer_tramp_ret; f_fixer_nop; f_fixer_ret].

(* every fragment word is an instruction of the variant's set (none custom for
   the unprotected variants), memory goes through sp / the shadow pointer only,
   and no fragment writes the data register, t-registers aside *)
Definition frags_decode_ok (x : ext) (v : string) (bases : list Z) (custom_free : bool) : bool :=
  forallb (fun f => with_frag x f (fun l => mem_bases_ok bases l && (if custom_free then no_custom l else true)) false)
          (all_frags v).

Lemma fragments_well_formed :
  frags_decode_ok ExtNone "base" [SP] true && frags_decode_ok ExtNone "tramp" [SP] true
  && frags_decode_ok ExtRimi "rimiss" [SP; c_RIMI_SSP_REG] false
  && frags_decode_ok ExtRimi "rimifull" [SP; c_RIMI_SSP_REG] false
  && frags_decode_ok ExtFixer "fixer" [SP] false = true.
Proof. vm_compute. reflexivity. Qed.

(* C09: in both RIMI variants method prologues / epilogues never put ra on the
   main stack; call-making methods push / pop it through the shadow pointer,
   which changes only in matched 8-byte steps; RIMI-full trampolines likewise *)
Definition rimi_method_frags_ok (pl pc el ec : fragment) : bool :=
  let ssp := c_RIMI_SSP_REG in
  forallb (fun f => with_frag ExtRimi f (fun l => negb (ra_on_main_stack l) && ssp_discipline ssp None l) false)
          [pl; pc; el; ec]
  && with_frag ExtRimi pc (has_instr (is_push_ra ssp)) false && with_frag ExtRimi ec (has_instr (is_pop_ra ssp)) false
  && with_frag ExtRimi pl (fun l => negb (has_instr (is_push_ra ssp) l)) false
  && with_frag ExtRimi el (fun l => negb (has_instr (is_pop_ra ssp) l)) false.

Lemma rimi_shadow_discipline :
  rimi_method_frags_ok f_rimiss_pro_leaf f_rimiss_pro_call f_rimiss_epi_leaf f_rimiss_epi_call
  && rimi_method_frags_ok f_rimifull_pro_leaf f_rimifull_pro_call f_rimifull_epi_leaf f_rimifull_epi_call
  && with_frag ExtRimi f_rimifull_tramp_call
       (fun l => negb (ra_on_main_stack l) && ssp_discipline c_RIMI_SSP_REG None l && has_instr (is_push_ra c_RIMI_SSP_REG) l) false
  && with_frag ExtRimi f_rimifull_tramp_ret
       (fun l => negb (ra_on_main_stack l) && ssp_discipline c_RIMI_SSP_REG None l && has_instr (is_pop_ra c_RIMI_SSP_REG) l) false
  = true.
Proof. vm_compute. reflexivity. Qed.

(* C10: the interpreter's own prologue / epilogue use base instructions only;
   the return trampoline's last instruction is the only retdom; the call
   trampoline ends with jr CALL_TMP_REG *)
Definition last_is (p : instr -> bool) (l : list instr) : bool := match rev l with i :: _ => p i | [] => false end.
Definition count_if (p : instr -> bool) (l : list instr) : nat := List.length (filter p l).
Definition is_retdom (i : instr) : bool := match i with Retdom 0 1 0 => true | _ => false end.
Definition is_any_retdom (i : instr) : bool := match i with Retdom _ _ _ => true | _ => false end.
Definition is_any_chdom (i : instr) : bool := match i with Chdom _ _ _ => true | _ => false end.

Lemma rimifull_domain_fragments :
  with_frag ExtRimi f_rimifull_int_pro no_custom false && with_frag ExtRimi f_rimifull_int_epi no_custom false
  && with_frag ExtRimi f_rimifull_tramp_ret (fun l => last_is is_retdom l && Nat.eqb (count_if is_any_retdom l) 1) false
  && with_frag ExtRimi f_rimifull_tramp_call
       (fun l => last_is (fun i => match i with Jalr 0 r 0 => r =? c_CALL_TMP_REG | _ => false end) l
                 && Nat.eqb (count_if is_any_retdom l) 0 && Nat.eqb (count_if is_any_chdom l) 0) false
  && forallb (fun f => with_frag ExtRimi f (fun l => Nat.eqb (count_if is_any_retdom l + count_if is_any_chdom l) 0) false)
       [f_rimifull_pro_leaf; f_rimifull_pro_call; f_rimifull_epi_leaf; f_rimifull_epi_call]
  = true.
Proof. vm_compute. reflexivity. Qed.

(* C11: every FIXER method epilogue ends with  cfiret t3 ; beq ra,t3,+8 ; ecall ; ret,
   and the call trampoline tags before jumping *)
Lemma fixer_checked_returns :
  with_frag ExtFixer f_fixer_epi_leaf (checked_return c_FIXER_CMP_REG) false
  && with_frag ExtFixer f_fixer_epi_call (checked_return c_FIXER_CMP_REG) false
  && with_frag ExtFixer f_fixer_tramp_call
       (fun l => has_instr (fun i => match i with Cficall _ r _ => r =? c_FIXER_CMP_REG | _ => false end) l
                 && last_is (fun i => match i with Jalr 0 r 0 => r =? c_CALL_TMP_REG | _ => false end) l) false
  = true.
Proof. vm_compute. reflexivity. Qed.

(* C04: fragment lengths are the sizes Method.__init__ and the generators assume *)
Definition flen (f : fragment) : Z := Z.of_nat (List.length f).
Definition sizes_ok (a : genattrs) (pl pc el ec ip ie : fragment) : bool :=
  (flen pl =? ga_prologue_offset a + m_used_s_regs)
  && (flen pc =? ga_prologue_offset a + m_used_s_regs + ga_call_offset a)
  && (flen el =? m_used_s_regs + ga_epilogue_offset a)
  && (flen ec =? m_used_s_regs + ga_call_offset a + ga_epilogue_offset a)
  && (flen ip =? c_INT_PROLOGUE_SIZE) && (flen ie =? c_INT_EPILOGUE_SIZE).

Lemma fragment_sizes :
  sizes_ok ga_base f_base_pro_leaf f_base_pro_call f_base_epi_leaf f_base_epi_call f_base_int_pro f_base_int_epi
  && sizes_ok ga_tramp f_tramp_pro_leaf f_tramp_pro_call f_tramp_epi_leaf f_tramp_epi_call f_tramp_int_pro f_tramp_int_epi
  && sizes_ok ga_rimiss f_rimiss_pro_leaf f_rimiss_pro_call f_rimiss_epi_leaf f_rimiss_epi_call f_rimiss_int_pro f_rimiss_int_epi
  && sizes_ok ga_rimifull f_rimifull_pro_leaf f_rimifull_pro_call f_rimifull_epi_leaf f_rimifull_epi_call f_rimifull_int_pro f_rimifull_int_epi
  && sizes_ok ga_fixer f_fixer_pro_leaf f_fixer_pro_call f_fixer_epi_leaf f_fixer_epi_call f_fixer_int_pro f_fixer_int_epi
  (* call stubs fit their slots: 2 <= 3 (base, RIMI), 5 <= 6 (FIXER); interpreter stubs 3 <= 3 / 5 <= 5 *)
  && (2 <=? ga_call_size ga_base) && (2 <=? ga_call_size ga_tramp) && (2 <=? ga_call_size ga_rimiss)
  && (2 <=? ga_call_size ga_rimifull) && (5 <=? ga_call_size ga_fixer)
  && (3 <=? ga_int_call_size ga_base) && (5 <=? ga_int_call_size ga_tramp) && (5 <=? ga_int_call_size ga_rimiss)
  && (5 <=? ga_int_call_size ga_rimifull) && (5 <=? ga_int_call_size ga_fixer) = true.
Proof. vm_compute. reflexivity. Qed.

(* the reserved registers are not in the register lists the random builders draw from *)
Definition not_in (r : Z) (l : list Z) : bool := negb (existsb (Z.eqb r) l).
Lemma reserved_registers_filtered :
  forallb (fun a => not_in c_DATA_REG (ga_registers a) && not_in c_SP (ga_registers a) && not_in c_RA (ga_registers a)
                    && not_in c_X0 (ga_registers a)
                    && forallb (fun s => not_in s (ga_registers a)) c_CALLEE_SAVED_REG)
          [ga_base; ga_tramp; ga_rimiss; ga_rimifull; ga_fixer]
  && not_in c_RIMI_SSP_REG (ga_registers ga_rimiss) && not_in c_RIMI_SSP_REG (ga_registers ga_rimifull)
  && not_in c_FIXER_CMP_REG (ga_registers ga_fixer) = true.
Proof. vm_compute. reflexivity. Qed.
