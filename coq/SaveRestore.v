(* SaveRestore.v — Layer B (specification side): a run of `sd r, off(sp)`
   instructions saves registers to distinct frame slots; the matching run of
   `ld r, off(sp)` restores them.  (Interpreter-loop frame.) *)
From Coq Require Import ZArith List Bool Lia FMapPositive.
From Gigue Require Import Isa Machine MachineLemmas BodyExec FrameExec CodeMem CallFrame.
Import ListNotations.
Open Scope Z_scope.

Definition stores (l : list (Z * Z)) : list instr := map (fun ro => Store SD 2 (fst ro) (snd ro)) l.
Definition loads (l : list (Z * Z)) : list instr := map (fun ro => Load LD (fst ro) 2 (snd ro)) l.

Fixpoint saved (m : PM.t Z) (sp : Z) (s : mstate) (l : list (Z * Z)) : PM.t Z :=
  match l with
  | [] => m
  | (r, o) :: tl => saved (store_bytes m (sp + o) 8 (rget s r)) sp s tl
  end.

Section SR.
Variable v : variant.
Variable L : layout.
Hypothesis Hstk_code : code_hi L <= stk_lo L \/ stk_hi L <= code_lo L.
Hypothesis Hstk_pos : 0 <= stk_lo L.

Definition slot_ok (sp : Z) (ro : Z * Z) : Prop :=
  0 <= snd ro /\ snd ro mod 8 = 0 /\ stk_lo L <= sp + snd ro /\ sp + snd ro + 8 <= stk_hi L /\ sp + snd ro < W64.

Lemma save_exec : forall l s0 s A,
  pc s = A -> (forall r, rget s r = rget s0 r) -> let sp := rget s0 2 in
  sp mod 8 = 0 -> 0 <= sp -> Forall (slot_ok sp) l ->
  exists s', exec_at v L A (stores l) s = Next s' /\ pc s' = A + 4 * Z.of_nat (List.length l) /\
    (forall r, rget s' r = rget s0 r) /\ mem s' = saved (mem s) sp s0 l /\ dom s' = dom s /\ cfi s' = cfi s.
Proof.
  induction l as [|[r o] tl IH]; intros s0 s A Hpc Hregs sp Hal Hsp HF; cbn [stores map exec_at List.length saved].
  - exists s. repeat split; try assumption; try reflexivity. lia.
  - inversion HF as [|? ? (H0 & Hm & Hlo & Hhi & H64) HF']; subst. cbn [fst snd] in *.
    rewrite Z.eqb_refl. cbn [exec]. unfold do_store. cbn [swidth]. change (Z.of_nat 8) with 8.
    rewrite (Hregs 2). fold sp. rewrite (u64_small (sp + o)) by lia.
    rewrite (stack_ok v L Hstk_code s (sp + o) true) by (try lia; Z.div_mod_to_equations; lia).
    rewrite (Hregs r).
    set (s1 := set_pc (set_mem s (store_bytes (mem s) (sp + o) 8 (rget s0 r))) (pc s + 4)).
    assert (Hp1 : pc s1 = pc s + 4) by reflexivity.
    assert (Hr1 : forall r', rget s1 r' = rget s0 r') by (intros r'; unfold s1; rewrite rget_set_pc, rget_set_mem; apply Hregs).
    destruct (IH s0 s1 (pc s + 4) Hp1 Hr1 Hal Hsp HF') as (s' & E & P & R & M & D & C).
    exists s'. fold (stores tl). rewrite E. split; [reflexivity|]. split; [rewrite P, Nat2Z.inj_succ; lia|].
    split; [exact R|]. split; [exact M|]. split; assumption.
Qed.

(* restoring: each load reads its slot (memory is not modified) *)
Lemma restore_exec : forall l s A sp,
  pc s = A -> rget s 2 = sp -> sp mod 8 = 0 -> 0 <= sp -> Forall (slot_ok sp) l ->
  Forall (fun ro => 0 < fst ro /\ fst ro <> 2) l ->
  exists s', exec_at v L A (loads l) s = Next s' /\ pc s' = A + 4 * Z.of_nat (List.length l) /\
    mem s' = mem s /\ dom s' = dom s /\ cfi s' = cfi s /\ rget s' 2 = sp /\
    (forall r, 0 <= r -> ~ In r (map fst l) -> rget s' r = rget s r) /\
    (NoDup (map fst l) -> forall r o, In (r, o) l -> rget s' r = u64 (load_bytes (mem s) (sp + o) 8)).
Proof.
  induction l as [|[r o] tl IH]; intros s A sp Hpc Hsp Hal Hsp0 HF HR; cbn [loads map exec_at List.length].
  - exists s. repeat split; try assumption; try reflexivity; try lia. intros _ r o [].
  - inversion HF as [|? ? (H0 & Hm & Hlo & Hhi & H64) HF']; subst. inversion HR as [|? ? (Hr0 & Hr2) HR']; subst.
    cbn [fst snd] in *.
    rewrite Z.eqb_refl. cbn [exec]. unfold do_load. cbn [lwidth lext]. change (Z.of_nat 8) with 8.
    rewrite (u64_small (rget s 2 + o)) by lia.
    rewrite (stack_ok v L Hstk_code s (rget s 2 + o) false) by (try lia; Z.div_mod_to_equations; lia).
    set (s1 := set_pc (rset s r (load_bytes (mem s) (rget s 2 + o) 8)) (pc s + 4)).
    assert (Hp1 : pc s1 = pc s + 4) by reflexivity.
    assert (Hs1 : rget s1 2 = rget s 2) by (unfold s1; rewrite rget_set_pc, rget_rset_other by lia; reflexivity).
    destruct (IH s1 (pc s + 4) (rget s 2) Hp1 Hs1 Hal Hsp0 HF' HR') as (s' & E & P & M & D & C & Sp & Ro & Rl).
    { exists s'. fold (loads tl). rewrite E. split; [reflexivity|]. split; [rewrite P, Nat2Z.inj_succ; lia|].
      assert (M1 : mem s1 = mem s) by (unfold s1; cbn [set_pc mem]; apply mem_rset).
      split; [rewrite M; exact M1|]. split; [rewrite D; unfold s1; cbn [set_pc dom]; apply dom_rset|].
      split; [rewrite C; unfold s1; cbn [set_pc cfi]; apply cfi_rset|]. split; [exact Sp|].
      split.
      * intros r' Hr' Hn. cbn [map fst In] in Hn. rewrite Ro by (try assumption; intros X; apply Hn; right; exact X).
        unfold s1. rewrite rget_set_pc, rget_rset_other by (try lia; intros X; apply Hn; left; exact X). reflexivity.
      * intros Hnd r' o' Hin. cbn [map fst] in Hnd. inversion Hnd as [|? ? Hni Hnd']; subst.
        destruct Hin as [Hin|Hin].
        -- inversion Hin; subst r' o'. rewrite Ro by (try lia; exact Hni).
           unfold s1. rewrite rget_set_pc, rget_rset_same by lia. reflexivity.
        -- rewrite (Rl Hnd' r' o' Hin). rewrite M1. reflexivity. }
Qed.

Lemma saved_mget_other : forall l m sp s a,
  0 <= sp -> 0 <= a -> Forall (fun ro => 0 <= snd ro /\ (a < sp + snd ro \/ sp + snd ro + 8 <= a)) l ->
  mget (saved m sp s l) a = mget m a.
Proof.
  induction l as [|[r o] tl IH]; intros m sp s a Hsp Ha HF; cbn [saved]; [reflexivity|].
  inversion HF as [|? ? [Ho Hd] HF']; subst. cbn [snd] in *.
  rewrite IH by assumption. apply mget_store_other; try lia.
Qed.

(* reading a slot back after the whole save *)
Lemma saved_other : forall l m sp s b k,
  0 <= sp -> 0 <= b -> Forall (fun ro => 0 <= snd ro /\ (b + Z.of_nat k <= sp + snd ro \/ sp + snd ro + 8 <= b)) l ->
  load_bytes (saved m sp s l) b k = load_bytes m b k.
Proof.
  induction l as [|[r o] tl IH]; intros m sp s b k Hsp Hb HF; cbn [saved]; [reflexivity|].
  inversion HF as [|? ? [Ho Hd] HF']; subst. cbn [snd] in *.
  rewrite IH by assumption. apply load_store_other; try lia.
Qed.

Lemma saved_read : forall l m sp s r o,
  0 <= sp -> Forall (fun ro => 0 <= snd ro) l ->
  ForallOrdPairs (fun a b => snd a + 8 <= snd b \/ snd b + 8 <= snd a) l ->
  In (r, o) l -> load_bytes (saved m sp s l) (sp + o) 8 = rget s r mod W64.
Proof.
  induction l as [|[r0 o0] tl IH]; intros m sp s r o Hsp Hpos Hd Hin; [destruct Hin|].
  cbn [saved]. inversion Hpos as [|? ? Ho0 Hpos']; subst. inversion Hd as [|? ? Hhd Htl]; subst. cbn [snd] in *.
  destruct Hin as [Hin|Hin].
  - inversion Hin; subst r0 o0. rewrite saved_other.
    + rewrite load_store_same by lia. reflexivity.
    + exact Hsp.
    + lia.
    + rewrite Forall_forall in Hhd, Hpos'. apply Forall_forall. intros [r' o'] Hx. specialize (Hhd _ Hx). specialize (Hpos' _ Hx).
      cbn [snd] in *. change (Z.of_nat 8) with 8. lia.
  - apply IH; assumption.
Qed.
End SR.
