(* RimiFullExec.v — Layer B, RIMI full: blocks ending in a domain switch, the shape
   of the interpreter's chdom stubs, and the trampoline pair
     call_jit_elt:      addi t3,t3,-8 ; sst ra,0(t3) ; auipc ra,0 ; addi ra,ra,12 ; jr t1
     ret_from_jit_elt:  lst ra,0(t3) ; addi t3,t3,8 ; retdom ra
   (the interpreter's return point lives on the shadow stack as well). *)
From Coq Require Import ZArith List String Bool Lia FMapPositive.
From Gigue Require Import Types Bits Isa IsaProofs Enc EncProofs GenTables Builder Machine MachineLemmas SplitProofs
  BodyExec FrameExec CodeMem CallFrame CallFrameRimi.
Import ListNotations.
Open Scope list_scope.
Open Scope Z_scope.

(* a block whose LAST instruction may switch the domain: all fetches happen before the switch *)
Theorem run_block_dsw v L : forall is ws A s s',
  regions_ok L ->
  Forall2 (fun w i => decode (variant_ext v) w = Some i) ws is ->
  forallb (fun i => negb (is_domsw i)) (removelast is) = true ->
  code_at (mem s) A ws -> A mod 4 = 0 -> code_lo L <= A -> A + 4 * Z.of_nat (List.length ws) <= code_hi L ->
  (halt_at L < A \/ A + 4 * Z.of_nat (List.length ws) <= halt_at L) ->
  side_ok v L A (Z.of_nat (List.length ws)) (dom s) ->
  exec_at v L A is s = Next s' ->
  run v L (List.length is) s = (Next s', List.length is).
Proof.
  induction is as [|i tl IH]; intros ws A s s' RO F2 Hnd Hc Hal Hlo Hhi Hh Hside He.
  - cbn [exec_at] in He. inversion He; subst. reflexivity.
  - inversion F2 as [|w ? ws' ? Hdec F2']; subst. cbn [exec_at] in He.
    destruct (Z.eqb_spec (pc s) A) as [Hpc|]; [|discriminate].
    destruct (code_at_tail _ _ _ _ Hc) as [Hw Hc'].
    cbn [List.length] in *. rewrite Nat2Z.inj_succ in *.
    assert (Hst : step v L s = exec v L s i).
    { apply (step_exec v L s w i); rewrite ?Hpc; try lia; try assumption.
      unfold fetch_dom_ok, side_ok in *. destruct v; try exact I. rewrite Hpc.
      destruct Hside as [[H1 H2]|[H1 H2]]; rewrite H2.
      - destruct (Z.ltb_spec A (jit_lo L)); [reflexivity|lia].
      - destruct (Z.ltb_spec A (jit_lo L)); [lia|reflexivity]. }
    destruct (exec v L s i) as [s1|s1|s1|f s1] eqn:Ex; try discriminate.
    cbn [run]. rewrite Hst.
    destruct tl as [|i2 tl'].
    + cbn [exec_at] in He. inversion He; subst. reflexivity.
    + change (removelast (i :: i2 :: tl')) with (i :: removelast (i2 :: tl')) in Hnd.
      cbn [forallb] in Hnd. apply andb_prop in Hnd. destruct Hnd as [Hni Hnd']. apply negb_true_iff in Hni.
      pose proof (exec_same_code v L s i s1 RO Ex) as Hsc.
      pose proof (exec_same_dom v L s i s1 Hni Ex) as Hsd.
      rewrite (IH ws' (A + 4) s1 s' RO F2' Hnd'); try lia; try assumption.
      * reflexivity.
      * eapply code_at_same; [exact Hsc|lia|lia|exact Hc'].
      * clear - Hal. Z.div_mod_to_equations; lia.
      * unfold side_ok in *. destruct v; try exact I. rewrite Hsd. lia.
Qed.

(* ---- the shape of the interpreter's chdom stubs ---- *)
Lemma rimi_interp_method_call_shape off toff stub :
  build_interpreter_trampoline_method_call true off toff = OK stub ->
  (12 <= Z.abs off /\ 12 <= Z.abs (toff - 8)) /\
  exists k1 i1 k2 j, decode_all ExtRimi stub = Some [Auipc 6 k1; Iop ADDI 6 6 i1; Auipc 1 k2; Chdom 1 1 j].
Proof.
  unfold build_interpreter_trampoline_method_call. rewrite !split_offset_spec.
  destruct (Z.ltb_spec (Z.abs off) 12); [discriminate|].
  destruct (Z.ltb_spec (Z.abs (toff - 8)) 12); [discriminate|].
  pose proof (split_lo_range off). pose proof (split_hi_range off).
  pose proof (split_lo_range (toff - 8)). pose proof (split_hi_range (toff - 8)).
  cbn. unfold c_RA, c_X0, c_CALL_TMP_REG in *. intros E. inversion E; subst stub. clear E.
  split; [lia|].
  unfold decode_all. cbn [fold_right].
  rewrite !decode_auipc_wide by lia. rewrite decode_chdom_any by lia. rewrite decode_addi_any by lia.
  eexists. eexists. eexists. eexists. reflexivity.
Qed.

Lemma rimi_interp_pic_call_shape off toff h hit stub :
  0 <= h < 2048 -> 0 < hit < 32 ->
  build_interpreter_trampoline_pic_call true off toff h hit = OK stub ->
  (20 <= Z.abs off /\ 20 <= Z.abs (toff - 12)) /\
  exists k1 i1 ih k2 j, decode_all ExtRimi stub = Some [Auipc 6 k1; Iop ADDI 6 6 i1; Iop ADDI hit 0 ih; Auipc 1 k2; Chdom 1 1 j].
Proof.
  intros Hh Hhit. unfold build_interpreter_trampoline_pic_call. rewrite !split_offset_spec.
  destruct (Z.ltb_spec (Z.abs off) 20); [discriminate|].
  destruct (Z.ltb_spec (Z.abs (toff - 12)) 20); [discriminate|].
  pose proof (split_lo_range off). pose proof (split_hi_range off).
  pose proof (split_lo_range (toff - 12)). pose proof (split_hi_range (toff - 12)).
  cbn. unfold c_RA, c_X0, c_CALL_TMP_REG in *. intros E. inversion E; subst stub. clear E.
  split; [lia|].
  unfold decode_all. cbn [fold_right].
  rewrite !decode_auipc_wide by lia. rewrite decode_chdom_any by lia. rewrite !decode_addi_any by lia.
  eexists. eexists. eexists. eexists. eexists. reflexivity.
Qed.

(* ---- the trampoline pair ---- *)
Definition rf_tramp_call : list instr := [Iop ADDI 28 28 (-8); Sst 28 1 0; Auipc 1 0; Iop ADDI 1 1 12; Jalr 0 6 0].
Definition rf_tramp_ret : list instr := [Lst 1 28 0; Iop ADDI 28 28 8; Retdom 0 1 0].

Section RFE.
Variable L : layout.
Hypothesis Hss_code : code_hi L <= ss_lo L \/ ss_hi L <= code_lo L.
Let v := VRimiFull.

(* call trampoline: five steps; the caller's ra is pushed on the SHADOW stack, ra := the return trampoline, jump to t1 *)
Lemma rf_tramp_call_exec s T :
  pc s = T -> let P := rget s 28 in
  P mod 8 = 0 -> 8 <= P < W64 -> ss_lo L <= P - 8 -> P <= ss_hi L -> 0 <= T -> T + 20 < W64 ->
  exists s', exec_at v L T rf_tramp_call s = Next s' /\ pc s' = (u64 (rget s 6 + 0) / 2) * 2 /\
    rget s' 28 = P - 8 /\ rget s' 1 = T + 20 /\
    (forall r, 0 <= r -> r <> 1 -> r <> 28 -> rget s' r = rget s r) /\
    mem s' = store_bytes (mem s) (P - 8) 8 (rget s 1) /\ dom s' = dom s /\ cfi s' = cfi s.
Proof.
  intros Hpc P Hal Hr Hlo Hhi HT0 HT1. unfold rf_tramp_call. cbn [exec_at]. rewrite Hpc, Z.eqb_refl. cbn [exec alui]. rewrite !Hpc.
  set (s1 := set_pc (rset s 28 (u64 (rget s 28 + -8))) (T + 4)).
  assert (Hp1 : rget s1 28 = P - 8).
  { unfold s1. rewrite rget_set_pc, rget_rset_same by lia. rewrite u64_idem. apply u64_small. fold P. lia. }
  assert (Hr1 : forall r, 0 <= r -> r <> 28 -> rget s1 r = rget s r).
  { intros r Hr0 Hne. unfold s1. rewrite rget_set_pc. apply rget_rset_other; lia. }
  change (pc s1) with (T + 4). rewrite Z.eqb_refl. unfold do_store. cbn [swidth]. change (Z.of_nat 8) with 8.
  replace (u64 (rget s1 28 + 0)) with (P - 8) by (rewrite Hp1, Z.add_0_r; symmetry; apply u64_small; lia).
  rewrite (shadow_ok v L Hss_code s1 (P - 8) true) by (try lia; clear - Hal; Z.div_mod_to_equations; lia).
  set (s2 := set_pc (set_mem s1 (store_bytes (mem s1) (P - 8) 8 (rget s1 1))) (pc s1 + 4)).
  change (pc s2) with (T + 4 + 4). rewrite Z.eqb_refl.
  set (s3 := set_pc (rset s2 1 (T + 4 + 4 + 0 * 4096)) (T + 4 + 4 + 4)).
  change (pc s3) with (T + 4 + 4 + 4). rewrite Z.eqb_refl.
  set (s4 := set_pc (rset s3 1 (u64 (rget s3 1 + 12))) (T + 4 + 4 + 4 + 4)).
  change (pc s4) with (T + 4 + 4 + 4 + 4). rewrite Z.eqb_refl. rewrite rset_zero.
  eexists. split; [reflexivity|].
  assert (R31 : rget s3 1 = T + 8).
  { unfold s3. rewrite rget_set_pc, rget_rset_same by lia. rewrite u64_small by lia. lia. }
  assert (R41 : rget s4 1 = T + 20).
  { unfold s4. rewrite rget_set_pc, rget_rset_same by lia. rewrite u64_idem, R31. rewrite u64_small by lia. lia. }
  assert (Hr4 : forall r, 0 <= r -> r <> 1 -> rget s4 r = rget s1 r).
  { intros r Hr0 Hne. unfold s4. rewrite rget_set_pc, rget_rset_other by lia. unfold s3. rewrite rget_set_pc, rget_rset_other by lia.
    reflexivity. }
  split; [cbn [set_pc pc]; rewrite (Hr4 6), (Hr1 6) by lia; reflexivity|].
  split; [rewrite rget_set_pc, (Hr4 28) by lia; exact Hp1|].
  split; [rewrite rget_set_pc; exact R41|].
  split; [intros r Hr0 N1 N2; rewrite rget_set_pc, (Hr4 r), (Hr1 r) by lia; reflexivity|].
  split.
  { cbn [set_pc mem]. unfold s4, s3. cbn [set_pc mem]. rewrite !mem_rset. unfold s2. cbn [set_pc set_mem mem].
    rewrite (Hr1 1) by lia. unfold s1. cbn [set_pc mem]. rewrite mem_rset. reflexivity. }
  split; [cbn [set_pc dom]; unfold s4, s3; cbn [set_pc dom]; rewrite !dom_rset; unfold s2, s1; cbn [set_pc set_mem dom]; rewrite ?dom_rset; reflexivity|].
  cbn [set_pc cfi]; unfold s4, s3; cbn [set_pc cfi]; rewrite !cfi_rset; unfold s2, s1; cbn [set_pc set_mem cfi]; rewrite ?cfi_rset; reflexivity.
Qed.

(* return trampoline: three steps; the interpreter's return point is popped from the shadow stack and the domain returns to 0 *)
Lemma rf_tramp_ret_exec s A P rae :
  pc s = A -> rget s 28 = P - 8 -> dom s = 1 ->
  P mod 8 = 0 -> 8 <= P < W64 -> ss_lo L <= P - 8 -> P <= ss_hi L ->
  load_bytes (mem s) (P - 8) 8 = rae -> 0 <= rae < W64 -> rae mod 2 = 0 ->
  (inr (code_lo L) (jit_lo L) rae 4 || (rae =? halt_at L)) = true ->
  exists s', exec_at v L A rf_tramp_ret s = Next s' /\ pc s' = rae /\
    rget s' 28 = P /\ rget s' 1 = rae /\
    (forall r, 0 <= r -> r <> 1 -> r <> 28 -> rget s' r = rget s r) /\
    mem s' = mem s /\ dom s' = 0 /\ cfi s' = cfi s.
Proof.
  intros Hpc Hp Hdom Hal Hr Hlo Hhi Hl0 H0 Hev Hin. unfold rf_tramp_ret. cbn [exec_at]. rewrite Hpc, Z.eqb_refl. cbn [exec].
  unfold do_load. cbn [lwidth lext]. change (Z.of_nat 8) with 8.
  replace (u64 (rget s 28 + 0)) with (P - 8) by (rewrite Hp, Z.add_0_r; symmetry; apply u64_small; lia).
  rewrite (shadow_ok v L Hss_code s (P - 8) false) by (try lia; clear - Hal; Z.div_mod_to_equations; lia). rewrite Hl0.
  set (s1 := set_pc (rset s 1 rae) (pc s + 4)).
  assert (Hpc1 : pc s1 = A + 4) by (unfold s1; cbn [set_pc pc]; lia).
  rewrite Hpc1, Z.eqb_refl. cbn [alui].
  assert (Hp1 : rget s1 28 = P - 8) by (unfold s1; rewrite rget_set_pc, rget_rset_other by lia; exact Hp).
  set (s2 := set_pc (rset s1 28 (u64 (rget s1 28 + 8))) (A + 4 + 4)).
  change (pc s2) with (A + 4 + 4). rewrite Z.eqb_refl.
  assert (R2 : rget s2 28 = P).
  { unfold s2. rewrite rget_set_pc, rget_rset_same by lia. rewrite u64_idem, Hp1. replace (P - 8 + 8) with P by lia. apply u64_small; lia. }
  assert (R1 : rget s2 1 = rae).
  { unfold s2. rewrite rget_set_pc, rget_rset_other by lia. unfold s1. rewrite rget_set_pc, rget_rset_same by lia. apply u64_small; lia. }
  assert (Hd2 : dom s2 = 1) by (unfold s2, s1; cbn [set_pc dom]; rewrite !dom_rset; exact Hdom).
  rewrite Hd2. cbn [Z.eqb negb]. rewrite R1.
  assert (Ht : u64 (rae + 0) / 2 * 2 = rae) by (rewrite Z.add_0_r, u64_small by exact H0; clear - Hev; Z.div_mod_to_equations; lia).
  rewrite Ht, Hin. cbn [negb].
  eexists. split; [reflexivity|]. rewrite rset_zero.
  split; [reflexivity|].
  split; [exact R2|]. split; [exact R1|].
  split.
  { intros r Hr0 N1 N28. change (rget (set_dom (set_pc s2 rae) 0) r) with (rget s2 r).
    unfold s2. rewrite rget_set_pc, rget_rset_other by lia. unfold s1. rewrite rget_set_pc, rget_rset_other by lia. reflexivity. }
  split; [cbn [set_dom set_pc mem]; unfold s2, s1; cbn [set_pc mem]; rewrite !mem_rset; reflexivity|].
  split; [reflexivity|].
  cbn [set_dom set_pc cfi]; unfold s2, s1; cbn [set_pc cfi]; rewrite !cfi_rset; reflexivity.
Qed.
End RFE.

(* the regenerated pair *)
Lemma rimifull_tramp_pair_eq :
  exists t1 t2, build_call_jit_elt_trampoline BRimiFull = OK t1 /\ build_ret_from_jit_elt_trampoline BRimiFull = OK t2 /\
                decode_all ExtRimi t1 = Some rf_tramp_call /\ decode_all ExtRimi t2 = Some rf_tramp_ret /\
                List.length t1 = 5%nat /\ List.length t2 = 3%nat.
Proof. eexists; eexists. repeat split; vm_compute; reflexivity. Qed.
