(* FrontEnds.v — the three front-ends as state-passing programs over an
   explicit process state (C08).  The seed -> stream map (Mersenne Twister) is
   an uninterpreted Section variable; the model of one generation is the pure
   function Generator.run_gen of (configuration, decision script). *)
From Coq Require Import ZArith List String Bool.
From Gigue Require Import Types Bits Enc GenTables Builder Samplers Generator.
Import ListNotations.
Open Scope Z_scope.

Section FrontEnds.
  (* random.seed(s): the stream of API-level decisions that follows *)
  Variable stream_of_seed : Z -> list draw.

  (* module- and class-level mutable objects reachable by the generators *)
  Variable globals : Type.

  Record pstate := mk_pstate { rng : list draw; glob : globals }.

  Definition files := (list Z * list Z * list Z * list Z)%type.
  Definition files_of (img : image) : files := (im_int img, im_jit img, im_data img, im_ss img).

  (* one generation from the current RNG state: returns the files (or the
     error) and the new process state; the globals are neither read through
     anything but the (pristine) tables nor written *)
  Definition generate (c : config) (p : pstate) : res files * pstate :=
    match run_gen c (rng p) with
    | OK (img, rest) => (OK (files_of img), mk_pstate rest (glob p))
    | Err e => (Err e, mk_pstate (rng p) (glob p))       (* draws consumed before the error are irrelevant below *)
    end.

  Definition seed_rng (s : Z) (p : pstate) : pstate := mk_pstate (stream_of_seed s) (glob p).

  (* constructing a generator consumes no draw and leaves the globals alone *)
  Definition construct (c : config) (p : pstate) : pstate := p.

  (* gigue CLI: construct, THEN seed, then main *)
  Definition cli (c : config) (s : Z) (p : pstate) : res files * pstate :=
    generate c (seed_rng s (construct c p)).
  (* toccata runner: seed, THEN construct, main (the gen_id draws come after the files are written) *)
  Definition runner (c : config) (s : Z) (p : pstate) : res files * pstate :=
    generate c (construct c (seed_rng s p)).
  (* programming interface: seed, construct, main *)
  Definition api (c : config) (s : Z) (p : pstate) : res files * pstate := runner c s p.

  Inductive job := Job (fe : nat) (c : config) (s : Z).     (* fe: 0 cli, 1 runner, 2 api *)
  Definition run_job (j : job) (p : pstate) : res files * pstate :=
    match j with
    | Job O c s => cli c s p
    | Job (S O) c s => runner c s p
    | Job _ c s => api c s p
    end.

  Fixpoint run_history (h : list job) (p : pstate) : pstate :=
    match h with [] => p | j :: tl => run_history tl (snd (run_job j p)) end.

  Theorem constructor_pure c p : construct c p = p.
  Proof. reflexivity. Qed.

  Theorem globals_frame j p : glob (snd (run_job j p)) = glob p.
  Proof.
    destruct j as [fe c s]. destruct fe as [|[|fe]]; cbn [run_job]; unfold api, cli, runner, generate, seed_rng, construct;
      cbn [rng glob]; destruct (run_gen c (stream_of_seed s)) as [[img rest]|e]; reflexivity.
  Qed.

  Theorem front_ends_agree c s p p' :
    fst (cli c s p) = fst (runner c s p') /\ fst (runner c s p) = fst (api c s p').
  Proof.
    unfold api, cli, runner, generate, seed_rng, construct; cbn [rng glob].
    destruct (run_gen c (stream_of_seed s)) as [[img rest]|e]; split; reflexivity.
  Qed.

  (* whatever was generated earlier in the process (any variants, configurations,
     seeds, succeeding or raising), the files of a seeded generation are the same *)
  Theorem history_independent h j p :
    fst (run_job j (run_history h p)) = fst (run_job j p).
  Proof.
    destruct j as [fe c s]. destruct fe as [|[|fe]]; cbn [run_job]; unfold api, cli, runner, generate, seed_rng, construct;
      cbn [rng glob]; destruct (run_gen c (stream_of_seed s)) as [[img rest]|e]; reflexivity.
  Qed.
End FrontEnds.
