(* CtorSpec.v — specification side of C12: what each constructor classmethod
   of gigue is *meant* to build (an Isa.instr), and the architectural operand
   ranges.  Imports only Isa: usable as a judge even when the regenerated
   tables or the encoder model no longer build. *)
From Coq Require Import ZArith List String Bool.
From Gigue Require Import Isa.
Import ListNotations.
Open Scope string_scope.
Open Scope Z_scope.
Notation "a ==s b" := (String.eqb a b) (at level 70).

Fixpoint assoc {A} (l : list (string * A)) (k : string) : option A :=
  match l with
  | [] => None
  | (k', v) :: tl => if String.eqb k' k then Some v else assoc tl k
  end.

Definition r_meaning : list (string * rop) :=
  [("add", ADD); ("addw", ADDW); ("andr", AND); ("mul", MUL); ("mulh", MULH); ("mulhsu", MULHSU);
   ("mulhu", MULHU); ("mulw", MULW); ("orr", OR); ("sll", SLL); ("sllw", SLLW); ("slt", SLT);
   ("sltu", SLTU); ("sra", SRA); ("sraw", SRAW); ("srl", SRL); ("srlw", SRLW); ("sub", SUB);
   ("subw", SUBW); ("xor", XOR)].
Definition i_meaning : list (string * (Z -> Z -> Z -> instr)) :=
  [("addi", Iop ADDI); ("addiw", Iop ADDIW); ("andi", Iop ANDI); ("jalr", Jalr);
   ("lb", Load LB); ("lbu", Load LBU); ("ld", Load LD); ("lh", Load LH); ("lhu", Load LHU);
   ("lw", Load LW); ("lwu", Load LWU); ("ori", Iop ORI); ("slti", Iop SLTI);
   ("sltiu", Iop SLTIU); ("xori", Iop XORI)].
Definition sh_meaning : list (string * shop) :=
  [("slli", SLLI); ("srli", SRLI); ("srai", SRAI); ("slliw", SLLIW); ("srliw", SRLIW); ("sraiw", SRAIW)].
Definition s_meaning : list (string * sop) := [("sb", SB); ("sh", SH); ("sw", SW); ("sd", SD)].
Definition b_meaning : list (string * bop) :=
  [("beq", BEQ); ("bge", BGE); ("bgeu", BGEU); ("blt", BLT); ("bltu", BLTU); ("bne", BNE)].
Definition rimi_i_meaning : list (string * (Z -> Z -> Z -> instr)) :=
  [("lb1", Load1 LB); ("lbu1", Load1 LBU); ("lh1", Load1 LH); ("lhu1", Load1 LHU);
   ("lw1", Load1 LW); ("lwu1", Load1 LWU); ("ld1", Load1 LD); ("lst", Lst); ("chdom", Chdom)].
Definition rimi_s_meaning : list (string * (Z -> Z -> Z -> instr)) :=
  [("sb1", Store1 SB); ("sh1", Store1 SH); ("sw1", Store1 SW); ("sd1", Store1 SD); ("sst", Sst)].

Definition ctor := (string * string)%type.   (* class name, classmethod name *)

Definition meaning (c : ctor) (args : list Z) : option instr :=
  let '(cls, name) := c in
  if cls ==s "RInstruction" then
    match args, assoc r_meaning name with
    | [rd; rs1; rs2], Some o => Some (Rop o rd rs1 rs2) | _, _ => None end
  else if cls ==s "IInstruction" then
    match args with
    | [rd; rs1; imm] =>
        match assoc i_meaning name, assoc sh_meaning name with
        | Some f, _ => Some (f rd rs1 imm)
        | None, Some o => Some (Shift o rd rs1 imm)
        | None, None => None
        end
    | [rs1] => if name ==s "jr" then Some (Jalr 0 rs1 0) else None
    | [] => if name ==s "ret" then Some (Jalr 0 1 0)
            else if name ==s "nop" then Some (Iop ADDI 0 0 0)
            else if name ==s "ebreak" then Some Ebreak
            else if name ==s "ecall" then Some Ecall else None
    | _ => None
    end
  else if cls ==s "UInstruction" then
    match args with
    | [rd; imm] => if name ==s "auipc" then Some (Auipc rd (imm / 4096))
                   else if name ==s "lui" then Some (Lui rd (imm / 4096)) else None
    | _ => None
    end
  else if cls ==s "JInstruction" then
    match args with
    | [rd; off] => if name ==s "jal" then Some (Jal rd off) else None
    | [off] => if name ==s "j" then Some (Jal 0 off) else None
    | _ => None
    end
  else if cls ==s "SInstruction" then
    match args, assoc s_meaning name with
    | [rs1; rs2; imm], Some o => Some (Store o rs1 rs2 imm) | _, _ => None end
  else if cls ==s "BInstruction" then
    match args, assoc b_meaning name with
    | [rs1; rs2; off], Some o => Some (Branch o rs1 rs2 off) | _, _ => None end
  else if cls ==s "RIMIIInstruction" then
    match args with
    | [rd; rs1; imm] => match assoc rimi_i_meaning name with Some f => Some (f rd rs1 imm) | None => None end
    | [] => if name ==s "retdom" then Some (Retdom 0 1 0) else None
    | _ => None
    end
  else if cls ==s "RIMISInstruction" then
    match args, assoc rimi_s_meaning name with
    | [rs1; rs2; imm], Some f => Some (f rs1 rs2 imm) | _, _ => None end
  else if cls ==s "FIXERCustomInstruction" then
    match args with
    | [rd; rs1; rs2] => if name ==s "cficall" then Some (Cficall rd rs1 rs2)
                        else if name ==s "cfiret" then Some (Cfiret rd rs1 rs2) else None
    | _ => None
    end
  else None.

Definition ctor_ext (c : ctor) : ext :=
  let cls := fst c in
  if (cls ==s "RIMIIInstruction") || (cls ==s "RIMISInstruction") then ExtRimi
  else if cls ==s "FIXERCustomInstruction" then ExtFixer else ExtNone.

(* The three shift constructors whose shamt mask is 0x2F in the pinned source
   (known finding F1): the positive theorem is stated for shift amounts whose
   bit 4 is clear; C12_*_refuted exhibits the failure when it is set. *)
Definition masked_2F (c : ctor) : bool :=
  (fst c ==s "IInstruction") && ((snd c ==s "slli") || (snd c ==s "srli") || (snd c ==s "srai")).

(* operand tuples "within architectural range" — the property's quantifier *)
Definition in_range (c : ctor) (args : list Z) : bool :=
  match meaning c args with
  | Some i =>
      wf i
      && (if fst c ==s "UInstruction"
          then match args with [_; imm] => imm mod 4096 =? 0 | _ => false end else true)
  | None => false
  end.

(* ... minus the known-finding guard: this is the domain of the positive theorem *)
Definition wf_args (c : ctor) (args : list Z) : bool :=
  match meaning c args with
  | Some i =>
      wf i
      && (if fst c ==s "UInstruction"
          then match args with [_; imm] => imm mod 4096 =? 0 | _ => false end else true)
      && (if masked_2F c
          then match args with [_; _; sh] => negb (Z.testbit sh 4) | _ => false end else true)
  | None => false
  end.
