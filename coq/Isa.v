(* Isa.v — the specification side: RV64IM (+ Zicsr/Zifencei system
   instructions) and the RIMI / FIXER custom instructions, written from the
   RISC-V unprivileged ISA manual's encoding tables and from the frozen custom
   encoding contract (DESIGN §3.1).  Independent of gigue: this file does not
   import GenTables, Enc or anything derived from /repo. *)
From Coq Require Import ZArith List Bool Lia.
Import ListNotations.
Open Scope Z_scope.

(* ------------------------------------------------------------------ AST *)

Inductive rop :=
| ADD | SUB | SLL | SLT | SLTU | XOR | SRL | SRA | OR | AND
| MUL | MULH | MULHSU | MULHU | DIV | DIVU | REM | REMU
| ADDW | SUBW | SLLW | SRLW | SRAW | MULW | DIVW | DIVUW | REMW | REMUW.
Inductive iop := ADDI | SLTI | SLTIU | XORI | ORI | ANDI | ADDIW.
Inductive shop := SLLI | SRLI | SRAI | SLLIW | SRLIW | SRAIW.
Inductive lop := LB | LH | LW | LD | LBU | LHU | LWU.
Inductive sop := SB | SH | SW | SD.
Inductive bop := BEQ | BNE | BLT | BGE | BLTU | BGEU.
Inductive csrop := CSRRW | CSRRS | CSRRC | CSRRWI | CSRRSI | CSRRCI.

Inductive instr :=
| Rop (o : rop) (rd rs1 rs2 : Z)
| Iop (o : iop) (rd rs1 imm : Z)              (* imm signed 12 bits *)
| Shift (o : shop) (rd rs1 shamt : Z)
| Load (o : lop) (rd rs1 imm : Z)
| Store (o : sop) (rs1 rs2 imm : Z)           (* mem[rs1+imm] <- rs2 *)
| Branch (o : bop) (rs1 rs2 off : Z)          (* off signed 13 bits, even *)
| Lui (rd imm20 : Z)                          (* imm20 signed 20 bits *)
| Auipc (rd imm20 : Z)
| Jal (rd off : Z)                            (* off signed 21 bits, even *)
| Jalr (rd rs1 imm : Z)
| Ecall | Ebreak
| Fence (rd rs1 imm : Z)
| FenceI (rd rs1 imm : Z)
| Csr (o : csrop) (rd rs1 csr : Z)            (* csr unsigned 12 bits *)
(* RIMI *)
| Load1 (o : lop) (rd rs1 imm : Z)
| Store1 (o : sop) (rs1 rs2 imm : Z)
| Lst (rd rs1 imm : Z)
| Sst (rs1 rs2 imm : Z)
| Chdom (rd rs1 imm : Z)
| Retdom (rd rs1 imm : Z)
(* FIXER (RoCC custom-0) *)
| Cficall (rd rs1 rs2 : Z)
| Cfiret (rd rs1 rs2 : Z).

(* Which custom sets a hart implements. *)
Inductive ext := ExtNone | ExtRimi | ExtFixer.

(* ------------------------------------------------------ raw word fields *)

Definition f_op  (w : Z) := w mod 128.
Definition f_rd  (w : Z) := (w / 128) mod 32.
Definition f_f3  (w : Z) := (w / 4096) mod 8.
Definition f_rs1 (w : Z) := (w / 32768) mod 32.
Definition f_rs2 (w : Z) := (w / 1048576) mod 32.
Definition f_f7  (w : Z) := (w / 33554432) mod 128.

Definition mkword (op rd f3 rs1 rs2 f7 : Z) : Z :=
  op + rd * 128 + f3 * 4096 + rs1 * 32768 + rs2 * 1048576 + f7 * 33554432.

Definition sext (v n : Z) : Z := if v <? 2 ^ (n - 1) then v else v - 2 ^ n.
Definition usig (v n : Z) : Z := v mod 2 ^ n.    (* two's complement, n bits *)

(* immediates, assembled from the raw fields as the manual's figures show *)
Definition immf_i (rs2 f7 : Z) := sext (rs2 + 32 * f7) 12.
Definition immf_s (rd f7 : Z) := sext (rd + 32 * f7) 12.
Definition immf_b (rd f7 : Z) :=
  sext (2 * (rd / 2) + 32 * (f7 mod 64) + 2048 * (rd mod 2) + 4096 * (f7 / 64)) 13.
Definition immf_u (f3 rs1 rs2 f7 : Z) := sext (f3 + 8 * rs1 + 256 * rs2 + 8192 * f7) 20.
Definition immf_j (f3 rs1 rs2 f7 : Z) :=
  sext (2 * (rs2 / 2) + 32 * (f7 mod 64) + 2048 * (rs2 mod 2)
        + 4096 * (f3 + 8 * rs1) + 1048576 * (f7 / 64)) 21.

(* ---------------------------------------------------------------- decode *)

Definition dec_op (f7 f3 : Z) : option rop :=
  match f7, f3 with
  | 0, 0 => Some ADD | 32, 0 => Some SUB | 0, 1 => Some SLL | 0, 2 => Some SLT
  | 0, 3 => Some SLTU | 0, 4 => Some XOR | 0, 5 => Some SRL | 32, 5 => Some SRA
  | 0, 6 => Some OR | 0, 7 => Some AND
  | 1, 0 => Some MUL | 1, 1 => Some MULH | 1, 2 => Some MULHSU | 1, 3 => Some MULHU
  | 1, 4 => Some DIV | 1, 5 => Some DIVU | 1, 6 => Some REM | 1, 7 => Some REMU
  | _, _ => None
  end.

Definition dec_op32 (f7 f3 : Z) : option rop :=
  match f7, f3 with
  | 0, 0 => Some ADDW | 32, 0 => Some SUBW | 0, 1 => Some SLLW | 0, 5 => Some SRLW
  | 32, 5 => Some SRAW
  | 1, 0 => Some MULW | 1, 4 => Some DIVW | 1, 5 => Some DIVUW | 1, 6 => Some REMW
  | 1, 7 => Some REMUW
  | _, _ => None
  end.

Definition dec_load (f3 : Z) : option lop :=
  match f3 with
  | 0 => Some LB | 1 => Some LH | 2 => Some LW | 3 => Some LD
  | 4 => Some LBU | 5 => Some LHU | 6 => Some LWU | _ => None
  end.

Definition dec_store (f3 : Z) : option sop :=
  match f3 with 0 => Some SB | 1 => Some SH | 2 => Some SW | 3 => Some SD | _ => None end.

Definition dec_branch (f3 : Z) : option bop :=
  match f3 with
  | 0 => Some BEQ | 1 => Some BNE | 4 => Some BLT | 5 => Some BGE
  | 6 => Some BLTU | 7 => Some BGEU | _ => None
  end.

Definition dec_csr (f3 : Z) : option csrop :=
  match f3 with
  | 1 => Some CSRRW | 2 => Some CSRRS | 3 => Some CSRRC
  | 5 => Some CSRRWI | 6 => Some CSRRSI | 7 => Some CSRRCI | _ => None
  end.

Definition omap {A B} (f : A -> B) (o : option A) : option B :=
  match o with Some a => Some (f a) | None => None end.

(* decoding from the six raw fields (w itself is only needed to recognise the
   two fully-specified SYSTEM words) *)
Definition decode_f (x : ext) (w op rd f3 rs1 rs2 f7 : Z) : option instr :=
  match op with
  | 51 (* OP *)      => omap (fun o => Rop o rd rs1 rs2) (dec_op f7 f3)
  | 59 (* OP-32 *)   => omap (fun o => Rop o rd rs1 rs2) (dec_op32 f7 f3)
  | 19 (* OP-IMM *)  =>
      match f3 with
      | 0 => Some (Iop ADDI rd rs1 (immf_i rs2 f7)) | 2 => Some (Iop SLTI rd rs1 (immf_i rs2 f7))
      | 3 => Some (Iop SLTIU rd rs1 (immf_i rs2 f7)) | 4 => Some (Iop XORI rd rs1 (immf_i rs2 f7))
      | 6 => Some (Iop ORI rd rs1 (immf_i rs2 f7)) | 7 => Some (Iop ANDI rd rs1 (immf_i rs2 f7))
      | 1 => if f7 / 2 =? 0 then Some (Shift SLLI rd rs1 (rs2 + 32 * (f7 mod 2))) else None
      | 5 => if f7 / 2 =? 0 then Some (Shift SRLI rd rs1 (rs2 + 32 * (f7 mod 2)))
             else if f7 / 2 =? 16 then Some (Shift SRAI rd rs1 (rs2 + 32 * (f7 mod 2)))
             else None
      | _ => None
      end
  | 27 (* OP-IMM-32 *) =>
      match f3 with
      | 0 => Some (Iop ADDIW rd rs1 (immf_i rs2 f7))
      | 1 => if f7 =? 0 then Some (Shift SLLIW rd rs1 rs2) else None
      | 5 => if f7 =? 0 then Some (Shift SRLIW rd rs1 rs2)
             else if f7 =? 32 then Some (Shift SRAIW rd rs1 rs2) else None
      | _ => None
      end
  | 3  (* LOAD *)    => omap (fun o => Load o rd rs1 (immf_i rs2 f7)) (dec_load f3)
  | 35 (* STORE *)   => omap (fun o => Store o rs1 rs2 (immf_s rd f7)) (dec_store f3)
  | 99 (* BRANCH *)  => omap (fun o => Branch o rs1 rs2 (immf_b rd f7)) (dec_branch f3)
  | 55 (* LUI *)     => Some (Lui rd (immf_u f3 rs1 rs2 f7))
  | 23 (* AUIPC *)   => Some (Auipc rd (immf_u f3 rs1 rs2 f7))
  | 111 (* JAL *)    => Some (Jal rd (immf_j f3 rs1 rs2 f7))
  | 103 (* JALR *)   => if f3 =? 0 then Some (Jalr rd rs1 (immf_i rs2 f7)) else None
  | 115 (* SYSTEM *) =>
      if w =? 115 then Some Ecall
      else if w =? 1048691 then Some Ebreak
      else omap (fun o => Csr o rd rs1 (rs2 + 32 * f7)) (dec_csr f3)
  | 15 (* MISC-MEM *) =>
      match f3 with
      | 0 => Some (Fence rd rs1 (immf_i rs2 f7)) | 1 => Some (FenceI rd rs1 (immf_i rs2 f7))
      | _ => None
      end
  | 11 (* custom-0 *) =>
      match x with
      | ExtRimi =>
          if f3 =? 7 then Some (Lst rd rs1 (immf_i rs2 f7))
          else omap (fun o => Load1 o rd rs1 (immf_i rs2 f7)) (dec_load f3)
      | ExtFixer =>
          if (f3 =? 2) && (f7 =? 0) then Some (Cficall rd rs1 rs2)
          else if (f3 =? 4) && (f7 =? 1) then Some (Cfiret rd rs1 rs2)
          else None
      | ExtNone => None
      end
  | 43 (* custom-1 *) =>
      match x with
      | ExtRimi =>
          if f3 =? 7 then Some (Sst rs1 rs2 (immf_s rd f7))
          else omap (fun o => Store1 o rs1 rs2 (immf_s rd f7)) (dec_store f3)
      | _ => None
      end
  | 91 (* custom-2 *) =>
      match x with
      | ExtRimi =>
          if f3 =? 1 then Some (Chdom rd rs1 (immf_i rs2 f7))
          else if f3 =? 0 then Some (Retdom rd rs1 (immf_i rs2 f7))
          else None
      | _ => None
      end
  | _ => None
  end.

Definition decode (x : ext) (w : Z) : option instr :=
  if (0 <=? w) && (w <? 4294967296)
  then decode_f x w (f_op w) (f_rd w) (f_f3 w) (f_rs1 w) (f_rs2 w) (f_f7 w)
  else None.

(* ----------------------------------------------------------- spec encoder *)

Definition enc_rop (o : rop) : Z * Z * Z :=   (* opcode, f3, f7 *)
  match o with
  | ADD => (51,0,0) | SUB => (51,0,32) | SLL => (51,1,0) | SLT => (51,2,0) | SLTU => (51,3,0)
  | XOR => (51,4,0) | SRL => (51,5,0) | SRA => (51,5,32) | OR => (51,6,0) | AND => (51,7,0)
  | MUL => (51,0,1) | MULH => (51,1,1) | MULHSU => (51,2,1) | MULHU => (51,3,1)
  | DIV => (51,4,1) | DIVU => (51,5,1) | REM => (51,6,1) | REMU => (51,7,1)
  | ADDW => (59,0,0) | SUBW => (59,0,32) | SLLW => (59,1,0) | SRLW => (59,5,0) | SRAW => (59,5,32)
  | MULW => (59,0,1) | DIVW => (59,4,1) | DIVUW => (59,5,1) | REMW => (59,6,1) | REMUW => (59,7,1)
  end.
Definition enc_iop (o : iop) : Z * Z :=
  match o with
  | ADDI => (19,0) | SLTI => (19,2) | SLTIU => (19,3) | XORI => (19,4) | ORI => (19,6)
  | ANDI => (19,7) | ADDIW => (27,0)
  end.
Definition enc_shop (o : shop) : Z * Z * Z :=  (* opcode, f3, f7 base *)
  match o with
  | SLLI => (19,1,0) | SRLI => (19,5,0) | SRAI => (19,5,32)
  | SLLIW => (27,1,0) | SRLIW => (27,5,0) | SRAIW => (27,5,32)
  end.
Definition enc_lop (o : lop) : Z :=
  match o with LB => 0 | LH => 1 | LW => 2 | LD => 3 | LBU => 4 | LHU => 5 | LWU => 6 end.
Definition enc_sop (o : sop) : Z := match o with SB => 0 | SH => 1 | SW => 2 | SD => 3 end.
Definition enc_bop (o : bop) : Z :=
  match o with BEQ => 0 | BNE => 1 | BLT => 4 | BGE => 5 | BLTU => 6 | BGEU => 7 end.
Definition enc_csrop (o : csrop) : Z :=
  match o with CSRRW => 1 | CSRRS => 2 | CSRRC => 3 | CSRRWI => 5 | CSRRSI => 6 | CSRRCI => 7 end.

Definition enc_I (op f3 rd rs1 imm : Z) : Z :=
  let u := usig imm 12 in mkword op rd f3 rs1 (u mod 32) (u / 32).
Definition enc_S (op f3 rs1 rs2 imm : Z) : Z :=
  let u := usig imm 12 in mkword op (u mod 32) f3 rs1 rs2 (u / 32).
Definition enc_B (op f3 rs1 rs2 off : Z) : Z :=
  let u := usig off 13 in
  mkword op (2 * ((u / 2) mod 16) + (u / 2048) mod 2) f3 rs1 rs2
         ((u / 32) mod 64 + 64 * ((u / 4096) mod 2)).
Definition enc_U (op rd imm20 : Z) : Z :=
  let u := usig imm20 20 in
  mkword op rd (u mod 8) ((u / 8) mod 32) ((u / 256) mod 32) (u / 8192).
Definition enc_J (op rd off : Z) : Z :=
  let u := usig off 21 in
  mkword op rd ((u / 4096) mod 8) ((u / 32768) mod 32)
         (2 * ((u / 2) mod 16) + (u / 2048) mod 2)
         ((u / 32) mod 64 + 64 * ((u / 1048576) mod 2)).

Definition encode_spec (i : instr) : Z :=
  match i with
  | Rop o rd rs1 rs2 => let '(op, f3, f7) := enc_rop o in mkword op rd f3 rs1 rs2 f7
  | Iop o rd rs1 imm => let '(op, f3) := enc_iop o in enc_I op f3 rd rs1 imm
  | Shift o rd rs1 sh => let '(op, f3, f7) := enc_shop o in mkword op rd f3 rs1 (sh mod 32) (f7 + sh / 32)
  | Load o rd rs1 imm => enc_I 3 (enc_lop o) rd rs1 imm
  | Store o rs1 rs2 imm => enc_S 35 (enc_sop o) rs1 rs2 imm
  | Branch o rs1 rs2 off => enc_B 99 (enc_bop o) rs1 rs2 off
  | Lui rd imm => enc_U 55 rd imm
  | Auipc rd imm => enc_U 23 rd imm
  | Jal rd off => enc_J 111 rd off
  | Jalr rd rs1 imm => enc_I 103 0 rd rs1 imm
  | Ecall => 115
  | Ebreak => 1048691
  | Fence rd rs1 imm => enc_I 15 0 rd rs1 imm
  | FenceI rd rs1 imm => enc_I 15 1 rd rs1 imm
  | Csr o rd rs1 csr => mkword 115 rd (enc_csrop o) rs1 (csr mod 32) (csr / 32)
  | Load1 o rd rs1 imm => enc_I 11 (enc_lop o) rd rs1 imm
  | Store1 o rs1 rs2 imm => enc_S 43 (enc_sop o) rs1 rs2 imm
  | Lst rd rs1 imm => enc_I 11 7 rd rs1 imm
  | Sst rs1 rs2 imm => enc_S 43 7 rs1 rs2 imm
  | Chdom rd rs1 imm => enc_I 91 1 rd rs1 imm
  | Retdom rd rs1 imm => enc_I 91 0 rd rs1 imm
  | Cficall rd rs1 rs2 => mkword 11 rd 2 rs1 rs2 0
  | Cfiret rd rs1 rs2 => mkword 11 rd 4 rs1 rs2 1
  end.

Definition ext_ok (x : ext) (i : instr) : bool :=
  match i with
  | Load1 _ _ _ _ | Store1 _ _ _ _ | Lst _ _ _ | Sst _ _ _ | Chdom _ _ _ | Retdom _ _ _ =>
      match x with ExtRimi => true | _ => false end
  | Cficall _ _ _ | Cfiret _ _ _ => match x with ExtFixer => true | _ => false end
  | _ => true
  end.

(* ------------------------------------------------------- well-formedness *)

Definition isreg (r : Z) : bool := (0 <=? r) && (r <? 32).
Definition simm (v n : Z) : bool := (- 2 ^ (n - 1) <=? v) && (v <? 2 ^ (n - 1)).
Definition is_w_shift (o : shop) : bool :=
  match o with SLLIW | SRLIW | SRAIW => true | _ => false end.

Definition wf (i : instr) : bool :=
  match i with
  | Rop _ rd rs1 rs2 | Cficall rd rs1 rs2 | Cfiret rd rs1 rs2 => isreg rd && isreg rs1 && isreg rs2
  | Iop _ rd rs1 imm | Load _ rd rs1 imm | Jalr rd rs1 imm | Load1 _ rd rs1 imm
  | Lst rd rs1 imm | Chdom rd rs1 imm | Retdom rd rs1 imm | Fence rd rs1 imm | FenceI rd rs1 imm =>
      isreg rd && isreg rs1 && simm imm 12
  | Shift o rd rs1 sh =>
      isreg rd && isreg rs1 && (0 <=? sh) && (sh <? (if is_w_shift o then 32 else 64))
  | Store _ rs1 rs2 imm | Store1 _ rs1 rs2 imm | Sst rs1 rs2 imm =>
      isreg rs1 && isreg rs2 && simm imm 12
  | Branch _ rs1 rs2 off => isreg rs1 && isreg rs2 && simm off 13 && (off mod 2 =? 0)
  | Lui rd imm | Auipc rd imm => isreg rd && simm imm 20
  | Jal rd off => isreg rd && simm off 21 && (off mod 2 =? 0)
  | Ecall | Ebreak => true
  | Csr _ rd rs1 csr =>
      isreg rd && isreg rs1 && (0 <=? csr) && (csr <? 4096)
  end.
