(* Property C14 — instruction identification is sound and unambiguous.
   Statements only; every proof is `exact` of a lemma proved elsewhere. *)
From Coq Require Import ZArith List String Bool.
From Gigue Require Import Types Bits Isa Enc Disasm DisasmProofs GenTables CtorSpec C12Defs C14Defs C14Proofs.
Import ListNotations.
Open Scope string_scope.
Open Scope Z_scope.

(* For every constructor and every in-range operand tuple (no guard: the
   0x2F-masked shifts included), first-match look-up in the matching table
   (INSTRUCTIONS_INFO, RIMI|base, FIXER|base — regenerated, in dictionary
   order) returns the constructor's own definition and its format. *)
Theorem C14_roundtrip_name_and_format : forall c, In c all_ctors -> ctor_identified c.
Proof. exact all_identified. Qed.

(* ... and the emitted word satisfies the (mask, value) pattern of NO other
   non-alias, non-placeholder definition of that table. *)
Theorem C14_unambiguous : forall c, In c all_ctors -> ctor_unambiguous c.
Proof. exact all_unambiguous. Qed.

(* Distinct non-alias definitions never share a (mask, value) pattern. *)
Theorem C14_no_duplicate_patterns :
  no_duplicate_patterns base_table && no_duplicate_patterns (dict_union rimi_table base_table)
  && no_duplicate_patterns (dict_union fixer_table base_table) = true.
Proof. exact no_dup_all. Qed.

(* Field extractors return the raw fields of the word, for EVERY word — the
   same raw fields the specification decoder (C12) reads, so the operand
   fields reported are the ones that were encoded. *)
Theorem C14_field_extractors : forall w,
  extract_opcode w = f_op w /\ extract_rd w = f_rd w /\ extract_funct3 w = f_f3 w /\
  extract_rs1 w = f_rs1 w /\ extract_rs2 w = f_rs2 w /\ extract_funct7 w = f_f7 w.
Proof. exact extract_fields. Qed.

Theorem C14_imm_i : forall w, 0 <= w < 4294967296 ->
  extract_imm_i w false = f_rs2 w + 32 * f_f7 w /\ extract_imm_i w true = immf_i (f_rs2 w) (f_f7 w).
Proof. exact extract_imm_i_spec. Qed.
Theorem C14_imm_s : forall w, 0 <= w < 4294967296 ->
  extract_imm_s w false = f_rd w + 32 * f_f7 w /\ extract_imm_s w true = immf_s (f_rd w) (f_f7 w).
Proof. exact extract_imm_s_spec. Qed.
Theorem C14_imm_b : forall w, 0 <= w < 4294967296 -> extract_imm_b w true = immf_b (f_rd w) (f_f7 w).
Proof. exact extract_imm_b_spec. Qed.
Theorem C14_imm_j : forall w, 0 <= w < 4294967296 ->
  extract_imm_j w true = immf_j (f_f3 w) (f_rs1 w) (f_rs2 w) (f_f7 w).
Proof. exact extract_imm_j_spec. Qed.
Theorem C14_imm_u : forall w, 0 <= w < 4294967296 ->
  extract_imm_u w true = immf_u (f_f3 w) (f_rs1 w) (f_rs2 w) (f_f7 w) * 4096.
Proof. exact extract_imm_u_spec. Qed.

(* MASK / MATCH constants of every definition fit in 32 bits and MATCH is the
   value under the mask (what the GNU helper prints; the Rocket BitPat is then
   exactly 32 characters). *)
Theorem C14_helper_constants :
  forallb helper_consts_ok (base_table ++ rimi_table ++ fixer_table) = true.
Proof. exact helper_consts_all. Qed.

Print Assumptions C14_roundtrip_name_and_format.
Print Assumptions C14_unambiguous.
Print Assumptions C14_no_duplicate_patterns.
Print Assumptions C14_field_extractors.
Print Assumptions C14_imm_i.
Print Assumptions C14_imm_s.
Print Assumptions C14_imm_b.
Print Assumptions C14_imm_j.
Print Assumptions C14_imm_u.
Print Assumptions C14_helper_constants.
