(* Property C16 — toccata's generation records describe the emitted binary
   exactly.  Statements only.  Together with C04 (the structured image IS the
   bytes, tied by the byte-exact generator correspondence) these say the records
   match the binary the runner wrote. *)
From Coq Require Import ZArith List String Bool.
From Gigue Require Import Types Bits Enc GenTables Builder Samplers Generator Records RecordProofs.
Import ListNotations.
Open Scope Z_scope.

Theorem C16_method_records_match : forall img r,
  In r (methods_info img) ->
  exists id m, In (EMethod id) (im_elements img) /\ nth_error (im_methods img) id = Some m /\
               r_addr r = m_addr m /\ r_full_size r = m_total m /\ r_calls r = m_calls m /\ r_depth r = m_depth m.
Proof. exact methods_info_faithful. Qed.

Theorem C16_pic_records_match : forall img pr,
  In pr (pics_info img) ->
  exists p, In (EPic p) (im_elements img) /\ pr_addr pr = p_addr p /\ pr_cases pr = p_cases p /\
            pr_full_size pr = pic_total (im_methods img) p /\
            pr_methods pr = flat_map (fun id => map rec_of (lookup_m (im_methods img) id)) (p_methods p).
Proof. exact pics_info_faithful. Qed.

Theorem C16_pic_total : forall img, gd_nb_pics (generation_data img) = zlen (pics_info img).
Proof. exact nb_pics_is_count. Qed.

(* mean method size = (sum of all method sizes) / (number of methods) and mean
   case number = (sum of cases) / (number of PICs), each ONE binary64 division *)
Theorem C16_means_exact : forall img,
  gd_mean_method_size (generation_data img) = mean_float (all_sizes img) /\
  gd_pics_mean_case_nb (generation_data img) = mean_float (map pr_cases (pics_info img)) /\
  (forall l, l <> [] -> mean_float l = fdiv (of_Z (sumZ l)) (of_Z (zlen l))) /\ mean_float [] = fzero.
Proof. exact means_are_exact_fractions. Qed.

Print Assumptions C16_method_records_match.
Print Assumptions C16_pic_records_match.
Print Assumptions C16_pic_total.
Print Assumptions C16_means_exact.
