(* Property C03 — data accesses are confined to the data section and aligned
   Statements only; every proof is `exact` of a lemma proved elsewhere.
   The FULL statement (all variants, accepted configurations, decision scripts,
   layouts and initial states) is kept visible as a Definition `..._statement`;
   what is machine-checked today is named `..._partial` (DESIGN 9, fall-back
   rule): theorems about every component the whole-image statement is made of
   (regenerated fragments by computation, stub execution on the reference
   machine for ALL offsets / addresses / states, arithmetic of the generator for
   ALL sizes), while the composition over whole images is tied by the
   byte-exact generator correspondence and judged on the reference machine. *)
From Coq Require Import ZArith List String Bool.
From Gigue Require Import Types Bits Isa Enc GenTables Builder BuilderTies Samplers Generator Machine MachineLemmas
  SplitProofs FragProofs GenLemmas ImageSem CtorSpec C12Defs C12Proofs.
Import ListNotations.
Open Scope Z_scope.


(* FULL statement (static part): every load / store of a method body goes
   through the data register with a non-negative, naturally aligned offset, the
   access lies inside the data image of length align(data_size, 8), and no
   instruction of the image writes the data register. *)
Definition body_mem_ok (c : config) (g : gi) : bool :=
  match g with
  | GI name _ _ _ rd rs1 imm =>
      if Enc.mem name (b_I_INSTRUCTIONS_LOAD ++ b_RIMI_I_INSTRUCTIONS_LOAD)
      then (rs1 =? c_data_reg c) && (imm mod width_of_name (if Enc.mem name b_RIMI_I_INSTRUCTIONS_LOAD then substring 0 (String.length name - 1) name else name) =? 0)
           && (imm + width_of_name (if Enc.mem name b_RIMI_I_INSTRUCTIONS_LOAD then substring 0 (String.length name - 1) name else name) <=? align (c_data_size c) 8)
           && negb (rd =? c_data_reg c)
      else negb (rd =? c_data_reg c)
  | GS name _ _ rs1 _ imm =>
      (rs1 =? c_data_reg c) && (imm mod width_of_name (if Enc.mem name b_RIMI_S_INSTRUCTIONS then substring 0 (String.length name - 1) name else name) =? 0)
      && (imm + width_of_name (if Enc.mem name b_RIMI_S_INSTRUCTIONS then substring 0 (String.length name - 1) name else name) <=? align (c_data_size c) 8)
  | GR _ _ _ _ rd _ _ | GU _ _ rd _ | GJ _ _ rd _ => negb (rd =? c_data_reg c)
  | GB _ _ _ _ _ _ => true
  end.

Definition C03_body_accesses_statement : Prop :=
  forall c script img, successful c script img ->
  Forall (fun m => Forall (fun g => body_mem_ok c g = true)
                          (firstn (Z.to_nat (m_body m)) (skipn (Z.to_nat (m_pro m)) (m_instrs m))))
         (im_methods img).

(* the arithmetic core, for ALL data sizes, draws and widths: the offset
   align(randint(0, min(size-8, 0x7FF)), width) is non-negative, aligned, fits
   the immediate, and the access ends inside the rounded data image *)
Theorem C03_offset_in_bounds_partial : forall size v a,
  8 <= size -> 0 <= v <= Z.min (size - 8) 2047 -> (a = 1 \/ a = 2 \/ a = 4 \/ a = 8) ->
  let o := align v a in
  0 <= o /\ o mod a = 0 /\ o + a <= align size 8 /\ o <= 2047.
Proof. exact offset_in_bounds. Qed.

(* the alignment the builders look up (regenerated ALIGNMENT order, regenerated
   name lists) is exactly the access width of each store / load *)
Theorem C03_alignment_is_width_partial :
  forallb (fun n => align_result_eqb (alignment_of b_ALIGNMENT n) (width_of_name n) && (0 <? width_of_name n))
          (b_S_INSTRUCTIONS ++ b_I_INSTRUCTIONS_LOAD) = true.
Proof. exact alignment_is_width. Qed.

(* the data register (and the other reserved registers) are not among the
   registers random instructions write *)
Theorem C03_no_write_data_reg_partial :
  forallb (fun a => not_in c_DATA_REG (ga_registers a) && not_in c_SP (ga_registers a) && not_in c_RA (ga_registers a)
                    && not_in c_X0 (ga_registers a)
                    && forallb (fun s => not_in s (ga_registers a)) c_CALLEE_SAVED_REG)
          [ga_base; ga_tramp; ga_rimiss; ga_rimifull; ga_fixer]
  && not_in c_RIMI_SSP_REG (ga_registers ga_rimiss) && not_in c_RIMI_SSP_REG (ga_registers ga_rimifull)
  && not_in c_FIXER_CMP_REG (ga_registers ga_fixer) = true.
Proof. exact reserved_registers_filtered. Qed.

(* the shadow-stack pointer changes only in the matched 8-byte steps of
   pushes and pops (prologues, epilogues, RIMI-full trampolines) *)
Theorem C03_ssp_discipline_partial :
  rimi_method_frags_ok f_rimiss_pro_leaf f_rimiss_pro_call f_rimiss_epi_leaf f_rimiss_epi_call
  && rimi_method_frags_ok f_rimifull_pro_leaf f_rimifull_pro_call f_rimifull_epi_leaf f_rimifull_epi_call
  && with_frag ExtRimi f_rimifull_tramp_call
       (fun l => negb (ra_on_main_stack l) && ssp_discipline c_RIMI_SSP_REG None l && has_instr (is_push_ra c_RIMI_SSP_REG) l) false
  && with_frag ExtRimi f_rimifull_tramp_ret
       (fun l => negb (ra_on_main_stack l) && ssp_discipline c_RIMI_SSP_REG None l && has_instr (is_pop_ra c_RIMI_SSP_REG) l) false
  = true.
Proof. exact rimi_shadow_discipline. Qed.

Print Assumptions C03_offset_in_bounds_partial.
Print Assumptions C03_alignment_is_width_partial.
Print Assumptions C03_no_write_data_reg_partial.
Print Assumptions C03_ssp_discipline_partial.
