(* Property C03 — data accesses are confined to the data section and aligned
   Statements only; every proof is `exact` of a lemma proved elsewhere.
   Theorems without suffix are proved at the strength stated in their comment
   (Layer A: every accepted configuration and decision script; Layer B:
   machine-level method contracts and whole-image theorems, DESIGN 10.3).
   `..._partial` marks a theorem that covers part of a clause (its comment says
   what is missing); a `Definition ..._statement` keeps a clause visible that is
   stated but not proved.  Clauses not proved are decided on every run by the
   judges on implementation images (byte-exact generator correspondence +
   extracted reference machine). *)
From Coq Require Import ZArith List String Bool.
From Gigue Require Import Types Bits Isa Enc GenTables Builder BuilderTies Samplers Generator Machine MachineLemmas
  SplitProofs FragProofs GenLemmas ImageSem CtorSpec C12Defs C12Proofs GenWF GenWFProps SliceLemmas FloatSign GenWF2 BodyExec BodyBridge GenWF5 Witness.
Import ListNotations.
Open Scope Z_scope.


(* PROVED for every accepted configuration, every decision script and every
   image the generator model emits (Layer A, no bound on sizes / counts /
   depths): every load / store of EVERY instruction of EVERY method (random
   body, prologue, epilogue, patched call stubs) either goes through the data
   register with a non-negative, naturally aligned offset that fits the signed
   12-bit immediate and whose access ends inside the data image of length
   align(data_size, 8), or goes through sp / t3 (frame and shadow-stack slots);
   and no method instruction writes the data register.
     mem_discipline c g := data_access_ok c name rs1 imm || (rs1 = sp) || (rs1 = t3)
     data_access_ok c name base imm := base = data_reg /\ 0 <= imm /\ imm mod width = 0 /\
                                       imm + width <= align(data_size, 8) /\ imm <= 2047 /\ 0 < width *)
Theorem C03_method_accesses : forall c script img, successful c script img ->
  Forall (fun m => Forall (fun g => mem_discipline c g = true /\ negb (dest_of g =? c_data_reg c) = true)
                          (m_instrs m)) (im_methods img).
Proof. exact methods_access_discipline. Qed.

(* the hypotheses are satisfiable: for each variant an accepted configuration
   and a recorded decision script on which the model emits an image *)
Theorem C03_nonvacuous : exists img, successful wcfg_rimifull wscript_rimifull img.
Proof. exact witness_rimifull. Qed.

(* PROVED (Layer B for method bodies, GenWF5 / BodyExec / BodyBridge) for every
   accepted configuration, decision script and emitted image: the random body
   of every depth-0 method decodes - word by word, with the independent decoder
   applied to the emitted words - to a block of instructions that the reference
   machine executes from ANY state in which the data register holds the data
   base (RIMI full: in the JIT domain), wherever the data section is placed
   (8-aligned, disjoint from code and stack):
     - one step per instruction, the pc advancing by 4 each time: no monitor
       fires (no misaligned / unmapped / code-writing / wrong-domain access,
       every word is a legal instruction of the variant);
     - every register outside the usable list (sp, ra, s0-s11, the data
       register, t3 when reserved) keeps its value;
     - memory outside the data image [data_lo, data_lo + align(data_size, 8))
       is untouched; dom and the CFI stack are unchanged.
   `_partial`: bodies of depth-0 methods only (prologues, epilogues, call
   stubs and trampolines are executed by the fragment / stub theorems; their
   composition along the call graph is not proved). *)
Theorem C03_leaf_bodies_execute_partial : forall c script img,
  successful c script img ->
  Forall (fun m => m_depth m = 0 ->
    exists pro body epi is,
      m_instrs m = (pro ++ body ++ epi)%list /\ List.length body = Z.to_nat (m_body m) /\
      Forall2 (fun g i => decode (variant_ext (gv c)) (generate g) = Some i) body is /\
      forall L s A,
        placement c L -> env_ok (gv c) L (c_data_reg c) s -> pc s = A -> 0 <= A ->
        A + 4 * Z.of_nat (List.length is) < W64 ->
        exists s', exec_at (gv c) L A is s = Next s' /\
                   pc s' = A + 4 * Z.of_nat (List.length body) /\
                   frame L (dsz c) (wr c) s s' /\ env_ok (gv c) L (c_data_reg c) s')
    (im_methods img).
Proof. exact leaf_bodies_execute. Qed.

(* STILL ONLY STATED (Layer B, execution of whole images): the dynamic reading
   "no executed store lands in the interpreter / JIT image" for arbitrary
   layouts and initial states. *)
Definition C03_no_code_write_statement : Prop :=
  forall c script img, successful c script img ->
  forall bound L s0, Init c img bound L s0 ->
  forall n s1 k, run (variant_of (c_variant c)) L n s0 = (s1, k) ->
  match s1 with Fault FStoreCode _ => False | _ => True end.

(* the arithmetic core, for ALL data sizes, draws and widths: the offset
   align(randint(0, min(size-8, 0x7FF)), width) is non-negative, aligned, fits
   the immediate, and the access ends inside the rounded data image *)
Theorem C03_offset_in_bounds_partial : forall size v a,
  8 <= size -> 0 <= v <= Z.min (size - 8) 2047 -> (a = 1 \/ a = 2 \/ a = 4 \/ a = 8) ->
  let o := align v a in
  0 <= o /\ o mod a = 0 /\ o + a <= align size 8 /\ o <= 2047.
Proof. exact offset_in_bounds. Qed.

(* the alignment the builders look up (regenerated ALIGNMENT order, regenerated
   name lists) is exactly the access width of each store / load *)
Theorem C03_alignment_is_width_partial :
  forallb (fun n => align_result_eqb (alignment_of b_ALIGNMENT n) (width_of_name n) && (0 <? width_of_name n))
          (b_S_INSTRUCTIONS ++ b_I_INSTRUCTIONS_LOAD) = true.
Proof. exact alignment_is_width. Qed.

(* the data register (and the other reserved registers) are not among the
   registers random instructions write *)
Theorem C03_no_write_data_reg_partial :
  forallb (fun a => not_in c_DATA_REG (ga_registers a) && not_in c_SP (ga_registers a) && not_in c_RA (ga_registers a)
                    && not_in c_X0 (ga_registers a)
                    && forallb (fun s => not_in s (ga_registers a)) c_CALLEE_SAVED_REG)
          [ga_base; ga_tramp; ga_rimiss; ga_rimifull; ga_fixer]
  && not_in c_RIMI_SSP_REG (ga_registers ga_rimiss) && not_in c_RIMI_SSP_REG (ga_registers ga_rimifull)
  && not_in c_FIXER_CMP_REG (ga_registers ga_fixer) = true.
Proof. exact reserved_registers_filtered. Qed.

(* the shadow-stack pointer changes only in the matched 8-byte steps of
   pushes and pops (prologues, epilogues, RIMI-full trampolines) *)
Theorem C03_ssp_discipline_partial :
  rimi_method_frags_ok f_rimiss_pro_leaf f_rimiss_pro_call f_rimiss_epi_leaf f_rimiss_epi_call
  && rimi_method_frags_ok f_rimifull_pro_leaf f_rimifull_pro_call f_rimifull_epi_leaf f_rimifull_epi_call
  && with_frag ExtRimi f_rimifull_tramp_call
       (fun l => negb (ra_on_main_stack l) && ssp_discipline c_RIMI_SSP_REG None l && has_instr (is_push_ra c_RIMI_SSP_REG) l) false
  && with_frag ExtRimi f_rimifull_tramp_ret
       (fun l => negb (ra_on_main_stack l) && ssp_discipline c_RIMI_SSP_REG None l && has_instr (is_pop_ra c_RIMI_SSP_REG) l) false
  = true.
Proof. exact rimi_shadow_discipline. Qed.

Print Assumptions C03_method_accesses.
Print Assumptions C03_nonvacuous.
Print Assumptions C03_leaf_bodies_execute_partial.
Print Assumptions C03_offset_in_bounds_partial.
Print Assumptions C03_alignment_is_width_partial.
Print Assumptions C03_no_write_data_reg_partial.
Print Assumptions C03_ssp_discipline_partial.
