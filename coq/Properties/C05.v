(* Property C05 — workload shape: every element called once, PIC runs the chosen case
   Statements only; every proof is `exact` of a lemma proved elsewhere.
   Theorems without suffix are proved at the strength stated in their comment
   (Layer A: every accepted configuration and decision script; Layer B:
   machine-level method contracts and whole-image theorems, DESIGN 10.3).
   `..._partial` marks a theorem that covers part of a clause (its comment says
   what is missing); a `Definition ..._statement` keeps a clause visible that is
   stated but not proved.  Clauses not proved are decided on every run by the
   judges on implementation images (byte-exact generator correspondence +
   extracted reference machine). *)
From Coq Require Import ZArith List String Bool.
From Gigue Require Import Types Bits Isa Enc GenTables Builder BuilderTies Samplers Generator Machine MachineLemmas
  SplitProofs FragProofs GenLemmas ImageSem CtorSpec C12Defs C12Proofs GenWF GenWFProps SliceLemmas GenWF2 GenWF3 GenWF4 GenWF2Props BodyExec BodyBridge GenWF5 FrameExec CodeMem SwitchExec GenWF7 Witness.
Import ListNotations.
Open Scope Z_scope.


(* PROVED (Layer A) for every accepted configuration, decision script and
   emitted image: the image contains exactly the requested number of methods *)
Theorem C05_method_count : forall c script img,
  successful c script img -> zlen (im_methods img) = c_nb_methods c.
Proof. exact method_count_exact. Qed.

(* PROVED: depth-0 methods have no callee; every deeper method has exactly its
   declared number of callees, each with its own disjoint call-site slot
   holding the call stub (C04_call_sites) *)
Theorem C05_callee_counts : forall c script img,
  successful c script img ->
  Forall (fun m => if m_depth m =? 0 then m_callees m = [] else zlen (m_callees m) = m_calls m) (im_methods img).
Proof. exact callee_counts_exact. Qed.

Theorem C05_call_sites : forall c script img,
  successful c script img -> Forall (sites_ok c (im_methods img)) (im_methods img).
Proof. exact call_sites_exact. Qed.

(* PROVED: the interpreter loop is  prologue ++ stubs ++ epilogue  where the stubs
   are one call per top-level element, over a PERMUTATION of the element list
   (every element called exactly once), each stub being the interpreter call
   (through the call trampoline when trampolines are enabled) built for the
   offset from the stub's own address to the element's recorded address, PIC
   stubs loading a hit case h with 1 <= h <= cases.
     int_ok c ms es ints := exists pro epi shuffled calls,
        base_prologue 10 0 true = OK pro /\ base_epilogue 10 0 true = OK epi /\ Permutation es shuffled /\
        calls_chain c ms (jit_start_al c) shuffled (int_start_al c + zlen pro * 4) calls /\ ints = pro ++ calls ++ epi *)
Theorem C05_interpreter_calls_each_element_once : forall c script img,
  successful c script img -> int_ok c (im_methods img) (im_elements img) (im_int_instrs img).
Proof. exact interpreter_calls_each_element_once. Qed.

(* PROVED (Layer B for PICs; GenWF7 / SwitchExec / CodeMem): for every accepted
   configuration, decision script and emitted image, and every PIC p whose jal
   offsets fit (its case methods lie within +-1 MiB of their switch entries:
   finding F6 is outside) and which has fewer than 2047 cases: put the EMITTED
   WORDS of its switch table at its recorded address in code memory, enter with
   the hit-case register holding h = 1 + k, k < cases: the reference machine -
   fetching and decoding those bytes - runs exactly 2k + 3 steps (two per missed
   case, three for the hit), never reaches the trailing ret, and arrives at the
   RECORDED ADDRESS of case method h, with memory, dom, the CFI stack and every
   register except the compare register unchanged.  Holds for any admissible
   pair of hit / compare registers (cfg_ok). *)
Theorem C05_pic_dispatch : forall c script img,
  successful c script img ->
  Forall (fun e => match e with
    | EMethod _ => True
    | EPic p =>
      forall addrs,
        Forall2 (fun id a => exists m, nth_error (im_methods img) id = Some m /\ m_addr m = a) (p_methods p) addrs ->
        Z.of_nat (List.length addrs) < 2047 ->
        Forall (fun mo => -1048576 <= mo < 1048576 /\ mo mod 2 = 0) (moffs_of (p_addr p) 0 addrs) ->
        forall L s k a,
          regions_ok L -> code_hi L < W64 ->
          let P := p_addr p in let ws := map generate (p_switch p) in
          code_at (mem s) P ws -> pc s = P -> P mod 4 = 0 -> code_lo L <= P ->
          P + 4 * Z.of_nat (List.length ws) <= code_hi L ->
          (halt_at L < P \/ P + 4 * Z.of_nat (List.length ws) <= halt_at L) ->
          side_ok (gv c) L P (Z.of_nat (List.length ws)) (dom s) ->
          nth_error addrs k = Some a -> 0 <= a < W64 -> rget s (c_hit_reg c) = 1 + Z.of_nat k ->
          exists s', run (gv c) L (2 * k + 3) s = (Next s', (2 * k + 3)%nat) /\
                     pc s' = a /\ mem s' = mem s /\ cfi s' = cfi s /\ dom s' = dom s /\
                     (forall r, 0 <= r -> r <> c_cmp_reg c -> rget s' r = rget s r)
    end) (im_elements img).
Proof. exact pic_dispatch. Qed.

Theorem C05_nonvacuous : exists img, successful wcfg_base wscript_base img.
Proof. exact witness_base. Qed.

(* a PIC switch case whose number equals the loaded hit case jumps to its
   method; any other falls to the next case — for ALL admissible register
   pairs (hit <> cmp), all states: by induction on the case list the switch
   runs exactly the chosen case and never falls through to its trailing ret *)
Theorem C05_switch_hit_partial : forall v L s P n moff hit cmp,
  0 < n < 2048 -> 0 < hit < 32 -> 0 < cmp < 32 -> hit <> cmp -> pc s = P -> rget s hit = n ->
  exists s', exec_at v L P (switch_decoded n moff hit cmp) s = Next s' /\
    pc s' = u64 (P + 8 + moff) /\ mem s' = mem s /\ cfi s' = cfi s /\ dom s' = dom s /\
    (forall r, 0 <= r -> r <> cmp -> rget s' r = rget s r).
Proof. exact switch_case_hit. Qed.

Theorem C05_switch_miss_partial : forall v L s P n moff hit cmp,
  0 < n < 2048 -> 0 < hit < 32 -> 0 < cmp < 32 -> hit <> cmp -> pc s = P -> rget s hit <> n ->
  exists s', exec_at v L P (firstn 2 (switch_decoded n moff hit cmp)) s = Next s' /\
    pc s' = u64 (P + 12) /\ mem s' = mem s /\ cfi s' = cfi s /\ dom s' = dom s /\
    (forall r, 0 <= r -> r <> cmp -> rget s' r = rget s r).
Proof. exact switch_case_miss. Qed.

(* the call site loads exactly the drawn hit case into the PIC's own register
   (any register but ra / CALL_TMP_REG), then reaches the PIC *)
Theorem C05_pic_call_loads_hit_partial : forall v L s A off toff h hit,
  in_pair_range off -> 20 <= Z.abs off -> in_pair_range (toff - 12) -> 20 <= Z.abs (toff - 12) ->
  (A + toff) mod 2 = 0 -> 0 <= h < 2048 -> 0 < hit < 32 -> hit <> 1 -> hit <> c_CALL_TMP_REG -> pc s = A ->
  exists stub is,
    build_interpreter_trampoline_pic_call false off toff h hit = OK stub /\ List.length stub = 5%nat /\
    decode_all ExtNone stub = Some is /\
    exists s', exec_at v L A is s = Next s' /\
    call_effect s s' (u64 (A + toff)) (u64 (A + 20)) /\ rget s' c_CALL_TMP_REG = u64 (A + off) /\
    rget s' hit = h /\ cfi s' = cfi s /\
    (forall r, 0 <= r -> r <> 1 -> r <> c_CALL_TMP_REG -> r <> hit -> rget s' r = rget s r).
Proof. exact interp_pic_call_reaches. Qed.

Theorem C05_case_count_capped_partial : forall z remaining,
  1 <= z -> 1 <= remaining -> 1 <= Z.min z remaining <= remaining.
Proof. exact case_cap. Qed.

Print Assumptions C05_method_count.
Print Assumptions C05_callee_counts.
Print Assumptions C05_call_sites.
Print Assumptions C05_interpreter_calls_each_element_once.
Print Assumptions C05_pic_dispatch.
Print Assumptions C05_nonvacuous.
Print Assumptions C05_switch_hit_partial.
Print Assumptions C05_switch_miss_partial.
Print Assumptions C05_pic_call_loads_hit_partial.
Print Assumptions C05_case_count_capped_partial.
