(* Property C13 — PC-relative call and address stubs reach exactly pc+offset.
   Statements only; every proof is `exact` of a lemma proved elsewhere.
   `in_pair_range o` is  -2^31-2^11 <= o < 2^31-2^11  for the offset o the stub
   actually splits (after its own pc correction).  Execution is on the
   reference machine (Machine.exec on the DECODED words of the stub, decoded
   by the independent specification decoder), from ANY state with pc = A. *)
From Coq Require Import ZArith List String Bool.
From Gigue Require Import Types Bits Isa Enc GenTables Builder Machine MachineLemmas SplitProofs.
Import ListNotations.
Open Scope Z_scope.

Theorem C13_split_exact : forall off,
  in_pair_range off -> pair_value (split_lo off) (split_hi off) = off.
Proof. exact split_ok. Qed.

Theorem C13_split_offset_model : forall off m,
  split_offset off m = if Z.abs off <? m then Err EWrongOffset else OK (split_lo off, split_hi off).
Proof. exact split_offset_spec. Qed.

Theorem C13_method_base_call : forall v L s A off,
  in_pair_range off -> 8 <= Z.abs off -> (A + off) mod 2 = 0 -> pc s = A ->
  exists stub is,
    build_method_base_call off = OK stub /\ List.length stub = 2%nat /\
    decode_all ExtNone stub = Some is /\
    exists s', exec_at v L A is s = Next s' /\
    call_effect s s' (u64 (A + off)) (u64 (A + 8)) /\ cfi s' = cfi s /\
    (forall r, 0 <= r -> r <> 1 -> rget s' r = rget s r).
Proof. exact method_base_call_reaches. Qed.

Theorem C13_pic_base_call : forall v L s A off h hit,
  in_pair_range (off - 4) -> 12 <= Z.abs (off - 4) -> (A + off) mod 2 = 0 ->
  0 <= h < 2048 -> 0 < hit < 32 -> hit <> 1 -> pc s = A ->
  exists stub is,
    build_pic_base_call off h hit = OK stub /\ List.length stub = 3%nat /\
    decode_all ExtNone stub = Some is /\
    exists s', exec_at v L A is s = Next s' /\
    call_effect s s' (u64 (A + off)) (u64 (A + 12)) /\ rget s' hit = h /\ cfi s' = cfi s /\
    (forall r, 0 <= r -> r <> 1 -> r <> hit -> rget s' r = rget s r).
Proof. exact pic_base_call_reaches. Qed.

Theorem C13_reg_save : forall v L s A off r,
  in_pair_range off -> 8 <= Z.abs off -> 0 < r < 32 -> pc s = A ->
  exists stub is,
    build_pc_relative_reg_save off r = OK stub /\ List.length stub = 2%nat /\
    decode_all ExtNone stub = Some is /\
    exists s', exec_at v L A is s = Next s' /\
    pc s' = A + 8 /\ rget s' r = u64 (A + off) /\ mem s' = mem s /\ cfi s' = cfi s /\ dom s' = dom s /\
    (forall r', 0 <= r' -> r' <> r -> rget s' r' = rget s r').
Proof. exact reg_save_reaches. Qed.

Theorem C13_interp_method_call : forall v L s A off toff,
  in_pair_range off -> 12 <= Z.abs off -> in_pair_range (toff - 8) -> 12 <= Z.abs (toff - 8) ->
  (A + toff) mod 2 = 0 -> pc s = A ->
  exists stub is,
    build_interpreter_trampoline_method_call false off toff = OK stub /\ List.length stub = 4%nat /\
    decode_all ExtNone stub = Some is /\
    exists s', exec_at v L A is s = Next s' /\
    call_effect s s' (u64 (A + toff)) (u64 (A + 16)) /\ rget s' c_CALL_TMP_REG = u64 (A + off) /\
    cfi s' = cfi s /\
    (forall r, 0 <= r -> r <> 1 -> r <> c_CALL_TMP_REG -> rget s' r = rget s r).
Proof. exact interp_method_call_reaches. Qed.

Theorem C13_interp_pic_call : forall v L s A off toff h hit,
  in_pair_range off -> 20 <= Z.abs off -> in_pair_range (toff - 12) -> 20 <= Z.abs (toff - 12) ->
  (A + toff) mod 2 = 0 -> 0 <= h < 2048 -> 0 < hit < 32 -> hit <> 1 -> hit <> c_CALL_TMP_REG -> pc s = A ->
  exists stub is,
    build_interpreter_trampoline_pic_call false off toff h hit = OK stub /\ List.length stub = 5%nat /\
    decode_all ExtNone stub = Some is /\
    exists s', exec_at v L A is s = Next s' /\
    call_effect s s' (u64 (A + toff)) (u64 (A + 20)) /\ rget s' c_CALL_TMP_REG = u64 (A + off) /\
    rget s' hit = h /\ cfi s' = cfi s /\
    (forall r, 0 <= r -> r <> 1 -> r <> c_CALL_TMP_REG -> r <> hit -> rget s' r = rget s r).
Proof. exact interp_pic_call_reaches. Qed.

Theorem C13_rimi_interp_method_call : forall L s A off toff,
  in_pair_range off -> 12 <= Z.abs off -> in_pair_range (toff - 8) -> 12 <= Z.abs (toff - 8) ->
  (A + toff) mod 2 = 0 -> pc s = A -> dom s = 0 ->
  inr (jit_lo L) (code_hi L) (u64 (A + toff)) 4 = true ->
  exists stub is,
    build_interpreter_trampoline_method_call true off toff = OK stub /\ List.length stub = 4%nat /\
    decode_all ExtRimi stub = Some is /\
    exists s', exec_at VRimiFull L A is s = Next s' /\
    pc s' = u64 (A + toff) /\ rget s' 1 = u64 (A + 16) /\ mem s' = mem s /\ dom s' = 1 /\
    rget s' c_CALL_TMP_REG = u64 (A + off) /\ cfi s' = cfi s /\
    (forall r, 0 <= r -> r <> 1 -> r <> c_CALL_TMP_REG -> rget s' r = rget s r).
Proof. exact rimi_interp_method_call_reaches. Qed.

Theorem C13_rimi_interp_pic_call : forall L s A off toff h hit,
  in_pair_range off -> 20 <= Z.abs off -> in_pair_range (toff - 12) -> 20 <= Z.abs (toff - 12) ->
  (A + toff) mod 2 = 0 -> 0 <= h < 2048 -> 0 < hit < 32 -> hit <> 1 -> hit <> c_CALL_TMP_REG ->
  pc s = A -> dom s = 0 -> inr (jit_lo L) (code_hi L) (u64 (A + toff)) 4 = true ->
  exists stub is,
    build_interpreter_trampoline_pic_call true off toff h hit = OK stub /\ List.length stub = 5%nat /\
    decode_all ExtRimi stub = Some is /\
    exists s', exec_at VRimiFull L A is s = Next s' /\
    pc s' = u64 (A + toff) /\ rget s' 1 = u64 (A + 20) /\ mem s' = mem s /\ dom s' = 1 /\
    rget s' c_CALL_TMP_REG = u64 (A + off) /\ rget s' hit = h /\ cfi s' = cfi s /\
    (forall r, 0 <= r -> r <> 1 -> r <> c_CALL_TMP_REG -> r <> hit -> rget s' r = rget s r).
Proof. exact rimi_interp_pic_call_reaches. Qed.

Theorem C13_fixer_method_call : forall L s A off,
  in_pair_range (off - 12) -> 20 <= Z.abs off -> (A + off) mod 2 = 0 -> pc s = A ->
  exists stub is,
    fixer_method_base_call off = OK stub /\ List.length stub = 5%nat /\
    decode_all ExtFixer stub = Some is /\
    exists s', exec_at VFixer L A is s = Next s' /\
    call_effect s s' (u64 (A + off)) (u64 (A + 20)) /\
    cfi s' = u64 (A + 20) :: cfi s /\
    (forall r, 0 <= r -> r <> 1 -> r <> c_FIXER_CMP_REG -> rget s' r = rget s r).
Proof. exact fixer_method_call_reaches. Qed.

Theorem C13_fixer_pic_call : forall L s A off h hit,
  in_pair_range (off - 16) -> 24 <= Z.abs off -> 12 <= Z.abs (off - 16) -> (A + off) mod 2 = 0 ->
  0 <= h < 2048 -> 0 < hit < 32 -> hit <> 1 -> hit <> c_FIXER_CMP_REG -> pc s = A ->
  exists stub is,
    fixer_pic_base_call off h hit = OK stub /\ List.length stub = 6%nat /\
    decode_all ExtFixer stub = Some is /\
    exists s', exec_at VFixer L A is s = Next s' /\
    call_effect s s' (u64 (A + off)) (u64 (A + 24)) /\ rget s' hit = h /\
    cfi s' = u64 (A + 24) :: cfi s /\
    (forall r, 0 <= r -> r <> 1 -> r <> c_FIXER_CMP_REG -> r <> hit -> rget s' r = rget s r).
Proof. exact fixer_pic_call_reaches. Qed.

Theorem C13_switch_case_decodes : forall n moff hit cmp,
  0 < n < 2048 -> -1048576 <= moff < 1048576 -> moff mod 2 = 0 ->
  0 < hit < 32 -> 0 < cmp < 32 ->
  exists stub,
    build_switch_case n moff hit cmp = OK stub /\ List.length stub = 3%nat /\
    decode_all ExtNone stub = Some (switch_decoded n moff hit cmp).
Proof. exact switch_case_decodes. Qed.

Theorem C13_switch_case_hit : forall v L s P n moff hit cmp,
  0 < n < 2048 -> 0 < hit < 32 -> 0 < cmp < 32 -> hit <> cmp -> pc s = P -> rget s hit = n ->
  exists s', exec_at v L P (switch_decoded n moff hit cmp) s = Next s' /\
    pc s' = u64 (P + 8 + moff) /\ mem s' = mem s /\ cfi s' = cfi s /\ dom s' = dom s /\
    (forall r, 0 <= r -> r <> cmp -> rget s' r = rget s r).
Proof. exact switch_case_hit. Qed.

Theorem C13_switch_case_miss : forall v L s P n moff hit cmp,
  0 < n < 2048 -> 0 < hit < 32 -> 0 < cmp < 32 -> hit <> cmp -> pc s = P -> rget s hit <> n ->
  exists s', exec_at v L P (firstn 2 (switch_decoded n moff hit cmp)) s = Next s' /\
    pc s' = u64 (P + 12) /\ mem s' = mem s /\ cfi s' = cfi s /\ dom s' = dom s /\
    (forall r, 0 <= r -> r <> cmp -> rget s' r = rget s r).
Proof. exact switch_case_miss. Qed.

(* offsets below the minimum distance are rejected with WrongOffsetException *)
Theorem C13_rejects :
  (forall off, Z.abs off < 8 -> build_method_base_call off = Err EWrongOffset) /\
  (forall off h r, Z.abs (off - 4) < 12 -> build_pic_base_call off h r = Err EWrongOffset) /\
  (forall off r, Z.abs off < 8 -> build_pc_relative_reg_save off r = Err EWrongOffset) /\
  (forall f off t, Z.abs off < 12 \/ Z.abs (t - 8) < 12 ->
     build_interpreter_trampoline_method_call f off t = Err EWrongOffset) /\
  (forall f off t h r, Z.abs off < 20 \/ Z.abs (t - 12) < 20 ->
     build_interpreter_trampoline_pic_call f off t h r = Err EWrongOffset) /\
  (forall off, Z.abs off < 20 -> fixer_method_base_call off = Err EWrongOffset) /\
  (forall off h r, Z.abs off < 24 -> fixer_pic_base_call off h r = Err EWrongOffset).
Proof. exact stubs_reject. Qed.

(* non-vacuity: a concrete negative offset near the wrap (0xFFFFF000 + 0x1000) *)
Example C13_nonvacuous : in_pair_range (-2048) /\ 8 <= Z.abs (-2048) /\
  pair_value (split_lo (-2048)) (split_hi (-2048)) = -2048.
Proof. unfold in_pair_range. repeat split; try reflexivity; vm_compute; intro; discriminate. Qed.

Print Assumptions C13_split_exact.
Print Assumptions C13_method_base_call.
Print Assumptions C13_pic_base_call.
Print Assumptions C13_reg_save.
Print Assumptions C13_interp_method_call.
Print Assumptions C13_interp_pic_call.
Print Assumptions C13_rimi_interp_method_call.
Print Assumptions C13_rimi_interp_pic_call.
Print Assumptions C13_fixer_method_call.
Print Assumptions C13_fixer_pic_call.
Print Assumptions C13_switch_case_decodes.
Print Assumptions C13_switch_case_hit.
Print Assumptions C13_switch_case_miss.
Print Assumptions C13_rejects.
