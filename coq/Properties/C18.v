(* Property C18 — a failed benchmark step is flagged, never fatal.
   The model keeps Python's exception semantics explicit (Ret | Raise): these
   theorems say no state of the input can make the parsing steps raise. *)
From Coq Require Import ZArith List String Ascii Bool.
From Gigue Require Import LogParse LogProofs.
Import ListNotations.
Open Scope Z_scope.

(* dump: for EVERY file state (absent/unreadable, undecodable, any ASCII
   content) a record is returned; dump_ok = 1 exactly when the three markers
   were found and well-formed, otherwise the flag is cleared with defaults *)
Theorem C18_dump_never_raises : forall f,
  exists d, parse_dump f = Ret d /\
    ((dd_ok d = 1 /\ exists s r e, extract_from_dump f = Ret (s, r, e) /\ dd_start d = s /\ dd_ret d = r /\ dd_end d = e)
     \/ (d = mk_dd 0 0 0 0 0 /\ exists x, extract_from_dump f = Raise x)).
Proof. exact parse_dump_total. Qed.

Theorem C18_rocket_log_never_raises : forall sa ra f t tk ck,
  exists d, parse_core_log (rocket_extract sa ra f) t tk ck = Ret d /\
    (e_emulation_ok d = 0 -> d = default_emu tk ck) /\
    (e_tracing_ok d = 0 -> e_instrs_nb d = 0 /\ e_instrs_type d = zero_hist tk /\ e_instrs_class d = zero_hist ck).
Proof. intros. apply parse_core_log_total. intros e. apply rocket_extract_raises. Qed.

Theorem C18_cva6_log_never_raises : forall sa ra f t tk ck,
  exists d, parse_core_log (cva6_extract sa ra f) t tk ck = Ret d /\
    (e_emulation_ok d = 0 -> d = default_emu tk ck) /\
    (e_tracing_ok d = 0 -> e_instrs_nb d = 0 /\ e_instrs_type d = zero_hist tk /\ e_instrs_class d = zero_hist ck).
Proof. intros. apply parse_core_log_total. intros e. apply cva6_extract_raises. Qed.

(* the only exceptions the extraction steps can raise are the ones caught *)
Theorem C18_dump_raise_classes : forall f e,
  extract_from_dump f = Raise e -> e = XMissingAddress \/ e = XEnvironment \/ e = XValueError.
Proof. exact extract_from_dump_raises. Qed.

(* non-vacuity: concrete malformed inputs hit the failure branches *)
Example C18_nonvacuous :
  parse_dump FAbsent = Ret (mk_dd 0 0 0 0 0) /\
  parse_dump (FText (lit "80zz <gigue_int_start>:")) = Ret (mk_dd 0 0 0 0 0) /\
  parse_dump (FText []) = Ret (mk_dd 0 0 0 0 0).
Proof. repeat split; reflexivity. Qed.

Print Assumptions C18_dump_never_raises.
Print Assumptions C18_rocket_log_never_raises.
Print Assumptions C18_cva6_log_never_raises.
Print Assumptions C18_dump_raise_classes.
