(* Property C04 — layout: exact tiling, true addresses, all transfers land on entries
   Statements only; every proof is `exact` of a lemma proved elsewhere.
   The FULL statement (all variants, accepted configurations, decision scripts,
   layouts and initial states) is kept visible as a Definition `..._statement`;
   what is machine-checked today is named `..._partial` (DESIGN 9, fall-back
   rule): theorems about every component the whole-image statement is made of
   (regenerated fragments by computation, stub execution on the reference
   machine for ALL offsets / addresses / states, arithmetic of the generator for
   ALL sizes), while the composition over whole images is tied by the
   byte-exact generator correspondence and judged on the reference machine. *)
From Coq Require Import ZArith List String Bool.
From Gigue Require Import Types Bits Isa Enc GenTables Builder BuilderTies Samplers Generator Machine MachineLemmas
  SplitProofs FragProofs GenLemmas ImageSem CtorSpec C12Defs C12Proofs.
Import ListNotations.
Open Scope Z_scope.


(* FULL statement (tiling): the JIT image is the concatenation of the
   trampolines and the elements, every recorded address is the byte position. *)
Definition id_size (ms : list method) (id : nat) : Z :=
  match nth_error ms id with Some m => m_total m | None => 0 end.
Fixpoint ids_tile (ms : list method) (ids : list nat) (addr : Z) : Prop :=
  match ids with
  | [] => True
  | id :: tl =>
      (exists m, nth_error ms id = Some m /\ m_addr m = addr /\ zlen (m_instrs m) = m_total m)
      /\ ids_tile ms tl (addr + 4 * id_size ms id)
  end.
Definition ids_size (ms : list method) (ids : list nat) : Z := fold_right (fun id a => id_size ms id + a) 0 ids.
Fixpoint tiles (ms : list method) (es : list elt) (addr : Z) : Prop :=
  match es with
  | [] => True
  | EMethod id :: tl => ids_tile ms [id] addr /\ tiles ms tl (addr + 4 * id_size ms id)
  | EPic p :: tl =>
      p_addr p = addr /\ zlen (p_switch p) = switch_size (p_cases p) /\
      ids_tile ms (p_methods p) (addr + 4 * switch_size (p_cases p)) /\
      tiles ms tl (addr + 4 * (switch_size (p_cases p) + ids_size ms (p_methods p)))
  end.

Definition C04_tiling_statement : Prop :=
  forall c script img, successful c script img ->
  tiles (im_methods img) (im_elements img) (jit_start_al c + 4 * zlen (List.concat (im_tramps img)))
  /\ 4 * zlen (im_int img) = jit_start_al c - int_start_al c.

(* fragment lengths are exactly the sizes Method.__init__ and the generators
   assume (a mis-sized element would shift everything after it), and call /
   interpreter stubs fit their slots *)
Theorem C04_fragment_sizes_partial : 
  sizes_ok ga_base f_base_pro_leaf f_base_pro_call f_base_epi_leaf f_base_epi_call f_base_int_pro f_base_int_epi
  && sizes_ok ga_tramp f_tramp_pro_leaf f_tramp_pro_call f_tramp_epi_leaf f_tramp_epi_call f_tramp_int_pro f_tramp_int_epi
  && sizes_ok ga_rimiss f_rimiss_pro_leaf f_rimiss_pro_call f_rimiss_epi_leaf f_rimiss_epi_call f_rimiss_int_pro f_rimiss_int_epi
  && sizes_ok ga_rimifull f_rimifull_pro_leaf f_rimifull_pro_call f_rimifull_epi_leaf f_rimifull_epi_call f_rimifull_int_pro f_rimifull_int_epi
  && sizes_ok ga_fixer f_fixer_pro_leaf f_fixer_pro_call f_fixer_epi_leaf f_fixer_epi_call f_fixer_int_pro f_fixer_int_epi
  (* call stubs fit their slots: 2 <= 3 (base, RIMI), 5 <= 6 (FIXER); interpreter stubs 3 <= 3 / 5 <= 5 *)
  && (2 <=? ga_call_size ga_base) && (2 <=? ga_call_size ga_tramp) && (2 <=? ga_call_size ga_rimiss)
  && (2 <=? ga_call_size ga_rimifull) && (5 <=? ga_call_size ga_fixer)
  && (3 <=? ga_int_call_size ga_base) && (5 <=? ga_int_call_size ga_tramp) && (5 <=? ga_int_call_size ga_rimiss)
  && (5 <=? ga_int_call_size ga_rimifull) && (5 <=? ga_int_call_size ga_fixer) = true.
Proof. exact fragment_sizes. Qed.

(* call-stub slots of a body: indices start - k*call_size for distinct k, stubs
   no longer than call_size: pairwise disjoint and inside [prologue, prologue+body) *)
Theorem C04_slots_disjoint_partial : forall pro body cs i j len,
  0 < cs -> 0 < len <= cs ->
  pro - 1 < i <= pro + body - cs -> pro - 1 < j <= pro + body - cs ->
  (pro + body - cs - i) mod cs = 0 -> (pro + body - cs - j) mod cs = 0 -> i <> j ->
  (i + len <= j \/ j + len <= i) /\ pro <= i /\ i + len <= pro + body.
Proof. exact slots_disjoint. Qed.

Theorem C04_patch_population_partial : forall pro body cs,
  0 < cs -> cs <= body -> range_len_neg (pro + body - cs) (pro - 1) (- cs) = body / cs.
Proof. exact patch_population. Qed.

(* a call stub built for offset = callee.address - site lands exactly on the
   callee's first instruction (all offsets, all addresses) *)
Theorem C04_call_targets_partial : forall v L s A off,
  in_pair_range off -> 8 <= Z.abs off -> (A + off) mod 2 = 0 -> pc s = A ->
  exists stub is,
    build_method_base_call off = OK stub /\ List.length stub = 2%nat /\
    decode_all ExtNone stub = Some is /\
    exists s', exec_at v L A is s = Next s' /\
    call_effect s s' (u64 (A + off)) (u64 (A + 8)) /\ cfi s' = cfi s /\
    (forall r, 0 <= r -> r <> 1 -> rget s' r = rget s r).
Proof. exact method_base_call_reaches. Qed.

(* switch jumps: case k's jal, at its own address, lands on method_offset past it *)
Theorem C04_switch_targets_partial : forall v L s P n moff hit cmp,
  0 < n < 2048 -> 0 < hit < 32 -> 0 < cmp < 32 -> hit <> cmp -> pc s = P -> rget s hit = n ->
  exists s', exec_at v L P (switch_decoded n moff hit cmp) s = Next s' /\
    pc s' = u64 (P + 8 + moff) /\ mem s' = mem s /\ cfi s' = cfi s /\ dom s' = dom s /\
    (forall r, 0 <= r -> r <> cmp -> rget s' r = rget s r).
Proof. exact switch_case_hit. Qed.

Print Assumptions C04_fragment_sizes_partial.
Print Assumptions C04_slots_disjoint_partial.
Print Assumptions C04_patch_population_partial.
Print Assumptions C04_call_targets_partial.
Print Assumptions C04_switch_targets_partial.
