(* Property C04 — layout: exact tiling, true addresses, all transfers land on entries
   Statements only; every proof is `exact` of a lemma proved elsewhere.
   Theorems without suffix are proved at the strength stated in their comment
   (Layer A: every accepted configuration and decision script; Layer B:
   machine-level method contracts and whole-image theorems, DESIGN 10.3).
   `..._partial` marks a theorem that covers part of a clause (its comment says
   what is missing); a `Definition ..._statement` keeps a clause visible that is
   stated but not proved.  Clauses not proved are decided on every run by the
   judges on implementation images (byte-exact generator correspondence +
   extracted reference machine). *)
From Coq Require Import ZArith List String Bool.
From Gigue Require Import Types Bits Isa Enc GenTables Builder BuilderTies Samplers Generator Machine MachineLemmas
  SplitProofs FragProofs GenLemmas ImageSem CtorSpec C12Defs C12Proofs GenWF GenWFProps SliceLemmas FloatSign GenWF2 GenWF3 GenWF4 GenWF2Props BodyExec BodyBridge GenWF5 FrameExec CodeMem SwitchExec GenWF6 GenWF8 Witness.
Import ListNotations.
Open Scope Z_scope.


(* PROVED (Layer A, GenWF2/GenWF3) for every accepted configuration, every
   decision script and every image the model emits - no bound on the number
   of elements, sizes or depths.

   tiles ms es a b : walking the element list from address a ends at b, where
     - a method element's recorded address is the current address and the next
       element starts m_total*4 bytes later;
     - a PIC's recorded address is the current address, its switch has
       3*cases+1 instructions, its case methods follow back to back, each at
       its recorded address.

   That a sized body length ceil(size * (1 +/- v)) is never negative - without
   which a method would occupy fewer words than its recorded size - is derived
   from Coq's SpecFloat definitions of the binary64 operations (FloatSign.v:
   1 - v >= +0 for every binary64 v in [0, 1], products and ceilings of
   non-negative values are non-negative); the model accepts only binary64
   Gaussian variates from a script. *)
Theorem C04_exact_tiling : forall c script img,
  successful c script img ->
  exists e, GenWF2.tiles (im_methods img) (im_elements img)
                         (jit_start_al c + zlen (List.concat (im_tramps img)) * 4) e /\
            jit_start_al c + zlen (im_jit img) * 4 = e /\
            flat_map element_method_ids (im_elements img) = seq 0 (List.length (im_methods img)).
Proof. exact jit_is_exact_tiling. Qed.

(* every recorded element address equals the byte position of its first word in jit.bin *)
Theorem C04_element_addresses : forall c script img,
  successful c script img ->
  forall es1 e es2, im_elements img = (es1 ++ e :: es2)%list ->
  exists pre rest, im_jit img = (pre ++ elt_words (im_methods img) e ++ rest)%list /\
                   jit_start_al c + zlen pre * 4 = elt_addr (im_methods img) e.
Proof. exact element_address_is_position. Qed.

(* PROVED, no side condition: the interpreter file is padded to exactly the
   distance between the two (4-aligned) start addresses, and whenever an image
   is produced the interpreter loop ends at or before the JIT start (otherwise
   generation fails with an error instead of emitting files) *)
Theorem C04_interpreter_padding : forall c script img,
  successful c script img ->
  zlen (im_int img) * 4 = jit_start_al c - int_start_al c /\
  int_start_al c + zlen (im_int_instrs img) * 4 <= jit_start_al c /\
  exists fill, im_int img = (map generate (im_int_instrs img) ++ fill)%list.
Proof. exact interpreter_padding_exact. Qed.

(* PROVED, no side condition: every callee of every method owns one slot inside
   the method's body ([pro, pro+body)); slots are pairwise at least a call-size
   apart (disjoint); the slot holds exactly the call stub built for
   offset = callee's recorded address - slot address.
     sites_ok c ms m := exists idx, Forall2 (site_ok c ms m) idx (m_callees m) /\ disjoint_slots (m_call_size m) idx
     site_ok c ms m i cal := exists cm stub, nth_error ms cal = Some cm /\
        method_base_call (variant) (m_addr cm - (m_addr m + i*4)) = OK stub /\
        window (m_instrs m) i (length stub) = stub /\ m_pro m <= i /\ i + m_call_size m <= m_pro m + m_body m *)
Theorem C04_call_sites : forall c script img,
  successful c script img -> Forall (sites_ok c (im_methods img)) (im_methods img).
Proof. exact call_sites_exact. Qed.

(* PROVED (Layer B, call edges; GenWF8 / CodeMem): non-FIXER variants, every
   image: every call site (slot i of method m, callee cal) executed by the
   reference machine from the EMITTED WORDS in place - pc at the slot - reaches in
   exactly two steps the RECORDED ADDRESS of the callee (the first instruction of
   a method), with ra = slot address + 8 and memory, dom, CFI and every other
   register unchanged; for every distance the auipc pair can express. *)
Theorem C04_call_sites_run : forall c script img,
  successful c script img -> non_fixer (c_variant c) ->
  Forall (fun m => forall i cal, site_ok c (im_methods img) m i cal ->
    exists cm, nth_error (im_methods img) cal = Some cm /\
      forall L s,
        let A := m_addr m + i * 4 in
        regions_ok L -> 0 <= i ->
        code_at (mem s) (m_addr m) (map generate (m_instrs m)) ->
        pc s = A -> A mod 4 = 0 -> code_lo L <= A -> A + 8 <= code_hi L ->
        (halt_at L < A \/ A + 8 <= halt_at L) ->
        side_ok (gv c) L A 2 (dom s) ->
        in_pair_range (m_addr cm - A) -> m_addr cm mod 2 = 0 -> 0 <= m_addr cm < W64 -> A + 8 < W64 -> 0 <= A ->
        exists s', run (gv c) L 2 s = (Next s', 2%nat) /\
          pc s' = m_addr cm /\ rget s' 1 = A + 8 /\ mem s' = mem s /\ dom s' = dom s /\ cfi s' = cfi s /\
          (forall r, 0 <= r -> r <> 1 -> rget s' r = rget s r))
    (im_methods img).
Proof. exact call_sites_run. Qed.

Theorem C04_nonvacuous : exists img, successful wcfg_fixer wscript_fixer img.
Proof. exact witness_fixer. Qed.

(* fragment lengths are exactly the sizes Method.__init__ and the generators
   assume (a mis-sized element would shift everything after it), and call /
   interpreter stubs fit their slots *)
Theorem C04_fragment_sizes_partial : 
  sizes_ok ga_base f_base_pro_leaf f_base_pro_call f_base_epi_leaf f_base_epi_call f_base_int_pro f_base_int_epi
  && sizes_ok ga_tramp f_tramp_pro_leaf f_tramp_pro_call f_tramp_epi_leaf f_tramp_epi_call f_tramp_int_pro f_tramp_int_epi
  && sizes_ok ga_rimiss f_rimiss_pro_leaf f_rimiss_pro_call f_rimiss_epi_leaf f_rimiss_epi_call f_rimiss_int_pro f_rimiss_int_epi
  && sizes_ok ga_rimifull f_rimifull_pro_leaf f_rimifull_pro_call f_rimifull_epi_leaf f_rimifull_epi_call f_rimifull_int_pro f_rimifull_int_epi
  && sizes_ok ga_fixer f_fixer_pro_leaf f_fixer_pro_call f_fixer_epi_leaf f_fixer_epi_call f_fixer_int_pro f_fixer_int_epi
  (* call stubs fit their slots: 2 <= 3 (base, RIMI), 5 <= 6 (FIXER); interpreter stubs 3 <= 3 / 5 <= 5 *)
  && (2 <=? ga_call_size ga_base) && (2 <=? ga_call_size ga_tramp) && (2 <=? ga_call_size ga_rimiss)
  && (2 <=? ga_call_size ga_rimifull) && (5 <=? ga_call_size ga_fixer)
  && (3 <=? ga_int_call_size ga_base) && (5 <=? ga_int_call_size ga_tramp) && (5 <=? ga_int_call_size ga_rimiss)
  && (5 <=? ga_int_call_size ga_rimifull) && (5 <=? ga_int_call_size ga_fixer) = true.
Proof. exact fragment_sizes. Qed.

(* call-stub slots of a body: indices start - k*call_size for distinct k, stubs
   no longer than call_size: pairwise disjoint and inside [prologue, prologue+body) *)
Theorem C04_slots_disjoint_partial : forall pro body cs i j len,
  0 < cs -> 0 < len <= cs ->
  pro - 1 < i <= pro + body - cs -> pro - 1 < j <= pro + body - cs ->
  (pro + body - cs - i) mod cs = 0 -> (pro + body - cs - j) mod cs = 0 -> i <> j ->
  (i + len <= j \/ j + len <= i) /\ pro <= i /\ i + len <= pro + body.
Proof. exact slots_disjoint. Qed.

Theorem C04_patch_population_partial : forall pro body cs,
  0 < cs -> cs <= body -> range_len_neg (pro + body - cs) (pro - 1) (- cs) = body / cs.
Proof. exact patch_population. Qed.

(* a call stub built for offset = callee.address - site lands exactly on the
   callee's first instruction (all offsets, all addresses) *)
Theorem C04_call_targets_partial : forall v L s A off,
  in_pair_range off -> 8 <= Z.abs off -> (A + off) mod 2 = 0 -> pc s = A ->
  exists stub is,
    build_method_base_call off = OK stub /\ List.length stub = 2%nat /\
    decode_all ExtNone stub = Some is /\
    exists s', exec_at v L A is s = Next s' /\
    call_effect s s' (u64 (A + off)) (u64 (A + 8)) /\ cfi s' = cfi s /\
    (forall r, 0 <= r -> r <> 1 -> rget s' r = rget s r).
Proof. exact method_base_call_reaches. Qed.

(* switch jumps: case k's jal, at its own address, lands on method_offset past it *)
Theorem C04_switch_targets_partial : forall v L s P n moff hit cmp,
  0 < n < 2048 -> 0 < hit < 32 -> 0 < cmp < 32 -> hit <> cmp -> pc s = P -> rget s hit = n ->
  exists s', exec_at v L P (switch_decoded n moff hit cmp) s = Next s' /\
    pc s' = u64 (P + 8 + moff) /\ mem s' = mem s /\ cfi s' = cfi s /\ dom s' = dom s /\
    (forall r, 0 <= r -> r <> cmp -> rget s' r = rget s r).
Proof. exact switch_case_hit. Qed.

Print Assumptions C04_exact_tiling.
Print Assumptions C04_element_addresses.
Print Assumptions C04_interpreter_padding.
Print Assumptions C04_call_sites.
Print Assumptions C04_call_sites_run.
Print Assumptions C04_nonvacuous.
Print Assumptions C04_fragment_sizes_partial.
Print Assumptions C04_slots_disjoint_partial.
Print Assumptions C04_patch_population_partial.
Print Assumptions C04_call_targets_partial.
Print Assumptions C04_switch_targets_partial.
