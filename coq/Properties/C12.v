(* Property C12 — encoder fidelity for base, RIMI and FIXER instructions.
   Statements only; every proof is `exact` of a lemma proved elsewhere. *)
From Coq Require Import ZArith List String.
From Gigue Require Import Types Bits Isa IsaProofs Enc GenTables C12Defs C12Proofs.
Import ListNotations.
Open Scope string_scope.
Open Scope Z_scope.

(* For every constructor classmethod (77, base + RIMI + FIXER) and every
   operand tuple within architectural range, the emitted word is a 32-bit
   value, its little-endian bytes are generate_bytes, and the independent
   decoder (Isa.decode, with the frozen custom-encoding contract) reads back
   exactly the intended instruction with exactly those operands.
   Guard (known finding F1): for slli/srli/srai, bit 4 of the shamt is clear. *)
Theorem C12_encoder_fidelity : forall c, In c all_ctors -> ctor_faithful c.
Proof. exact all_ctors_faithful. Qed.

(* The constructor universe above is the current set of public constructors. *)
Theorem C12_ctor_universe : same_ctor_sets dumped_ctors all_ctors = true.
Proof. exact ctor_universe_tie. Qed.

(* The specification decoder is a left inverse of the specification encoder
   (so it is injective on well-formed instructions: a sound judge). *)
Theorem C12_spec_decoder_sound :
  forall x i, wf i = true -> ext_ok x i = true -> decode x (encode_spec i) = Some i.
Proof. exact decode_encode_spec. Qed.

(* U format, general form: any 32-bit value, upper 20 bits encoded. *)
Theorem C12_U_general : forall x name op rd imm,
  (op = 23 \/ op = 55) -> 0 <= rd < 32 -> -2147483648 <= imm < 4294967296 ->
  let k := sext ((imm mod 4294967296) / 4096) 20 in
  decode x (generate (mkU name op rd imm)) = Some (if op =? 23 then Auipc rd k else Lui rd k).
Proof. exact decode_mkU. Qed.

(* Known finding F1, machine-checked: the full statement is FALSE for the three
   64-bit shift-immediate constructors ... *)
Theorem C12_slli_refuted : shift_refuted "slli" SLLI.  Proof. exact slli_refuted. Qed.
Theorem C12_srli_refuted : shift_refuted "srli" SRLI.  Proof. exact srli_refuted. Qed.
Theorem C12_srai_refuted : shift_refuted "srai" SRAI.  Proof. exact srai_refuted. Qed.
(* ... and the guard is exactly the complement: whenever bit 4 is set the
   emitted word encodes shamt - 16. *)
Theorem C12_masked_shift_wrong : forall name o rd rs1 sh,
  In (name, o) [("slli", SLLI); ("srli", SRLI); ("srai", SRAI)] ->
  0 <= rd < 32 -> 0 <= rs1 < 32 -> 0 <= sh < 64 -> Z.testbit sh 4 = true ->
  exists g, apply_c ("IInstruction", name) [rd; rs1; sh] = Some g /\
            decode ExtNone (generate g) = Some (Shift o rd rs1 (sh - 16)).
Proof. exact masked_shift_wrong. Qed.

Example C12_nonvacuous :
  wf_args ("BInstruction", "bne") [5; 6; -4094] = true /\
  wf_args ("IInstruction", "srai") [31; 1; 47] = true /\
  wf_args ("RIMISInstruction", "sst") [28; 1; -2048] = true.
Proof. exact wf_args_inhabited. Qed.

Print Assumptions C12_encoder_fidelity.
Print Assumptions C12_ctor_universe.
Print Assumptions C12_spec_decoder_sound.
Print Assumptions C12_U_general.
Print Assumptions C12_slli_refuted.
Print Assumptions C12_srli_refuted.
Print Assumptions C12_srai_refuted.
Print Assumptions C12_masked_shift_wrong.
