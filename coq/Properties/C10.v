(* Property C10 — RIMI full: domain switches and duplicated accesses are disciplined
   Statements only; every proof is `exact` of a lemma proved elsewhere.
   Theorems without suffix are proved at the strength stated in their comment
   (Layer A: every accepted configuration and decision script; Layer B:
   machine-level method contracts and whole-image theorems, DESIGN 10.3).
   `..._partial` marks a theorem that covers part of a clause (its comment says
   what is missing); a `Definition ..._statement` keeps a clause visible that is
   stated but not proved.  Clauses not proved are decided on every run by the
   judges on implementation images (byte-exact generator correspondence +
   extracted reference machine). *)
From Coq Require Import ZArith List String Bool.
From Gigue Require Import Types Bits Isa Enc GenTables Builder BuilderTies Samplers Generator Machine MachineLemmas
  SplitProofs FragProofs GenLemmas ImageSem CtorSpec C12Defs C12Proofs GenWF5 BodyExec CodeMem MethodContract SaveRestore WholeImage Loader
  CallFrameRimi MethodContractRimi RimiFullExec WholeImageRimiFull LoaderRimiFull.
Import ListNotations.
Open Scope Z_scope.


(* FULL statement (static part): the interpreter image contains no duplicated
   or shadow-stack memory instruction. *)
Definition gi_is_rimi_mem (g : gi) : bool :=
  Enc.mem (gi_name g) (b_RIMI_S_INSTRUCTIONS ++ b_RIMI_I_INSTRUCTIONS_LOAD ++ ["lst"; "sst"]%string).
Definition C10_int_has_no_custom_mem_statement : Prop :=
  forall c script img, successful c script img -> c_variant c = GRimiFull ->
  Forall (fun g => gi_is_rimi_mem g = false) (im_int_instrs img).

(* interpreter prologue / epilogue use base instructions only; retdom is the
   last (and only) domain instruction of the return trampoline; the call
   trampoline ends with jr CALL_TMP_REG; no prologue / epilogue switches domain *)
Theorem C10_domain_fragments_partial : 
  with_frag ExtRimi f_rimifull_int_pro no_custom false && with_frag ExtRimi f_rimifull_int_epi no_custom false
  && with_frag ExtRimi f_rimifull_tramp_ret (fun l => last_is is_retdom l && Nat.eqb (count_if is_any_retdom l) 1) false
  && with_frag ExtRimi f_rimifull_tramp_call
       (fun l => last_is (fun i => match i with Jalr 0 r 0 => r =? c_CALL_TMP_REG | _ => false end) l
                 && Nat.eqb (count_if is_any_retdom l) 0 && Nat.eqb (count_if is_any_chdom l) 0) false
  && forallb (fun f => with_frag ExtRimi f (fun l => Nat.eqb (count_if is_any_retdom l + count_if is_any_chdom l) 0) false)
       [f_rimifull_pro_leaf; f_rimifull_pro_call; f_rimifull_epi_leaf; f_rimifull_epi_call] = true.
Proof. exact rimifull_domain_fragments. Qed.

(* the interpreter's call stubs end in chdom: executed in domain 0 they enter
   domain 1 exactly at the call trampoline (any offsets, addresses, states) *)
Theorem C10_interp_call_switches_domain_partial : forall L s A off toff,
  in_pair_range off -> 12 <= Z.abs off -> in_pair_range (toff - 8) -> 12 <= Z.abs (toff - 8) ->
  (A + toff) mod 2 = 0 -> pc s = A -> dom s = 0 ->
  inr (jit_lo L) (code_hi L) (u64 (A + toff)) 4 = true ->
  exists stub is,
    build_interpreter_trampoline_method_call true off toff = OK stub /\ List.length stub = 4%nat /\
    decode_all ExtRimi stub = Some is /\
    exists s', exec_at VRimiFull L A is s = Next s' /\
    pc s' = u64 (A + toff) /\ rget s' 1 = u64 (A + 16) /\ mem s' = mem s /\ dom s' = 1 /\
    rget s' c_CALL_TMP_REG = u64 (A + off) /\ cfi s' = cfi s /\
    (forall r, 0 <= r -> r <> 1 -> r <> c_CALL_TMP_REG -> rget s' r = rget s r).
Proof. exact rimi_interp_method_call_reaches. Qed.

Theorem C10_interp_pic_call_switches_domain_partial : forall L s A off toff h hit,
  in_pair_range off -> 20 <= Z.abs off -> in_pair_range (toff - 12) -> 20 <= Z.abs (toff - 12) ->
  (A + toff) mod 2 = 0 -> 0 <= h < 2048 -> 0 < hit < 32 -> hit <> 1 -> hit <> c_CALL_TMP_REG ->
  pc s = A -> dom s = 0 -> inr (jit_lo L) (code_hi L) (u64 (A + toff)) 4 = true ->
  exists stub is,
    build_interpreter_trampoline_pic_call true off toff h hit = OK stub /\ List.length stub = 5%nat /\
    decode_all ExtRimi stub = Some is /\
    exists s', exec_at VRimiFull L A is s = Next s' /\
    pc s' = u64 (A + toff) /\ rget s' 1 = u64 (A + 20) /\ mem s' = mem s /\ dom s' = 1 /\
    rget s' c_CALL_TMP_REG = u64 (A + off) /\ rget s' hit = h /\ cfi s' = cfi s /\
    (forall r, 0 <= r -> r <> 1 -> r <> c_CALL_TMP_REG -> r <> hit -> rget s' r = rget s r).
Proof. exact rimi_interp_pic_call_reaches. Qed.

(* PROVED (Layer B), RIMI full, WHOLE IMAGE over the emitted files
   (LoaderRimiFull.rimifull_image_from_files): for every accepted configuration,
   decision script and emitted image, from ImageSem.Init (domain 0, files at the
   generation address, t3 at the top of the emitted shadow stack, call chains
   within its capacity) the run on the reference machine, whose monitors enforce
   exactly the discipline of C10 -
     fetch:   an instruction below jit_lo is fetched in domain 0, one at or above
              it in domain 1 (FDomainFetch otherwise);
     chdom:   only from domain 0, only to a target inside the JIT region;
     retdom:  only from domain 1, only to the interpreter region (or the halt address);
     duplicated loads / stores: only in domain 1 and only inside the data section;
     base loads / stores: never inside the data section (FDomainAccess) -
   ends at the halt address WITHOUT ANY FAULT, in domain 0: control enters JIT
   code only through the chdom of an interpreter stub into the call trampoline
   and leaves it only through the retdom of the return trampoline, strictly
   alternating (the executed sequence is prologue, then per element: stub ending
   in chdom, call trampoline, element, return trampoline ending in retdom, then
   the epilogue); every access JIT code makes to the data section is a duplicated
   one made in domain 1. *)
Theorem C10_rimifull_whole_image : forall c script img,
  successful c script img -> c_variant c = GRimiFull -> c_data_reg c <> 6 ->
  forall L s0, Init c img (fNtot c img) L s0 -> code_lo L = int_start_al c ->
    code_hi L - code_lo L < 2147483648 - 2048 -> pics_encodable img ->
    FSW img <= zlen (im_ss img) ->
    (forall r o, In (r, o) int_slots -> 0 <= rget s0 r < W64) ->
    exists s' eh, map fst eh = im_elements img /\ Forall (fun x => fhit_ok (fst x) (snd x)) eh /\
      run (gv c) L (fimage_steps img eh) s0 = (Next s', fimage_steps img eh) /\ pc s' = halt_at L /\
      (forall r, 0 <= r -> wr c r = false -> ~ fclob c r -> rget s' r = rget s0 r) /\
      rget s' 28 = ss_hi L /\
      rmem_frame c L s0 s' (stk_hi L - fNtot c img) (stk_hi L) (ss_hi L - FSW img) (ss_hi L) /\ dom s' = 0 /\ cfi s' = [].
Proof. exact rimifull_image_from_files. Qed.

(* the method contract in the JIT domain (both RIMI variants; for RIMI full
   `env_ok` says dom = 1 at entry and at exit: a method never leaves the JIT domain) *)
Theorem C10_methods_stay_in_jit_domain_partial : forall c script img,
  successful c script img -> rimi c ->
  forall L, rplaced c img L ->
  forall id m, nth_error (im_methods img) id = Some m ->
  rcontract c img L (need_method c (im_methods img) (max_depth (im_methods img)) id)
            (ss_need (im_methods img) (max_depth (im_methods img)) id)
            (steps_method (im_methods img) (max_depth (im_methods img)) id) m.
Proof. exact every_rimi_method_returns. Qed.

Print Assumptions C10_rimifull_whole_image.
Print Assumptions C10_methods_stay_in_jit_domain_partial.
Print Assumptions C10_domain_fragments_partial.
Print Assumptions C10_interp_call_switches_domain_partial.
Print Assumptions C10_interp_pic_call_switches_domain_partial.
