(* Property C01 — every generated image executes to a clean return
   Statements only; every proof is `exact` of a lemma proved elsewhere.
   Theorems without suffix are proved at the strength stated in their comment
   (Layer A: every accepted configuration and decision script; Layer B:
   machine-level method contracts and whole-image theorems, DESIGN 10.3).
   `..._partial` marks a theorem that covers part of a clause (its comment says
   what is missing); a `Definition ..._statement` keeps a clause visible that is
   stated but not proved.  Clauses not proved are decided on every run by the
   judges on implementation images (byte-exact generator correspondence +
   extracted reference machine). *)
From Coq Require Import ZArith List String Bool.
From Gigue Require Import Types Bits Isa Enc GenTables Builder BuilderTies Samplers Generator Machine MachineLemmas
  SplitProofs FragProofs GenLemmas ImageSem CtorSpec C12Defs C12Proofs GenWF GenWFProps SliceLemmas FloatSign GenWF2 BodyExec BodyBridge GenWF5 FrameExec CodeMem SwitchExec GenWF6 GenWF4 GenWF7 GenWF8 GenWF9 Walk CallFrame MethodContract CallFrameRimi MethodContractRimi SaveRestore TrampExec TrampsInv TrampStubs WholeImage Loader Witness LoaderWitness WholeImageRimi LoaderRimi LoaderWitnessRimi RimiFullExec WholeImageRimiFull LoaderRimiFull LoaderWitnessRimiFull
  GenWF9F WalkK FixerTamper FixerCall MethodContractFixer WholeImageFixer LoaderFixer WitnessFixer LoaderWitnessFixer Trace.
Import ListNotations.
Open Scope Z_scope.


(* FULL statement: every image a generator can emit halts by returning to the
   caller's return address, without any fault of the reference machine (fetch
   outside the image, illegal instruction for the variant, misaligned /
   unmapped / wrong-domain access). *)
Definition C01_clean_return_statement : Prop :=
  forall c script img, successful c script img ->
  forall bound L s0, Init c img bound L s0 ->
  (bound = 88 + 8 + fold_right (fun m a => Z.max (need_method c (im_methods img) (max_depth (im_methods img)) 0) a) 0 (im_methods img) -> True) ->
  exists n s1, run (variant_of (c_variant c)) L n s0 = (Halt s1, n).

(* the hand-written builder model, at the generators' parameters, IS the code
   dumped from /repo on this run (instruction objects and words) *)
Theorem C01_fragments_tied_partial : 
  ties_for BBase false f_base_pro_leaf f_base_pro_call f_base_epi_leaf f_base_epi_call f_base_int_pro
           f_base_int_epi f_base_tramp_call f_base_tramp_ret f_base_nop f_base_ret
  && ties_for BBase true f_tramp_pro_leaf f_tramp_pro_call f_tramp_epi_leaf f_tramp_epi_call f_tramp_int_pro
           f_tramp_int_epi f_tramp_tramp_call f_tramp_tramp_ret f_tramp_nop f_tramp_ret
  && ties_for BRimiSS true f_rimiss_pro_leaf f_rimiss_pro_call f_rimiss_epi_leaf f_rimiss_epi_call
           f_rimiss_int_pro f_rimiss_int_epi f_rimiss_tramp_call f_rimiss_tramp_ret f_rimiss_nop f_rimiss_ret
  && ties_for BRimiFull true f_rimifull_pro_leaf f_rimifull_pro_call f_rimifull_epi_leaf f_rimifull_epi_call
           f_rimifull_int_pro f_rimifull_int_epi f_rimifull_tramp_call f_rimifull_tramp_ret f_rimifull_nop
           f_rimifull_ret
  && ties_for BFixer true f_fixer_pro_leaf f_fixer_pro_call f_fixer_epi_leaf f_fixer_epi_call f_fixer_int_pro
           f_fixer_int_epi f_fixer_tramp_call f_fixer_tramp_ret f_fixer_nop f_fixer_ret = true.
Proof. exact fragment_ties. Qed.

(* every fragment word is an instruction of the variant's set, none custom for
   the unprotected variants; fragment memory accesses go through sp (and the
   shadow pointer) only *)
Theorem C01_fragments_legal_partial :
  frags_decode_ok ExtNone "base" [SP] true && frags_decode_ok ExtNone "tramp" [SP] true
  && frags_decode_ok ExtRimi "rimiss" [SP; c_RIMI_SSP_REG] false
  && frags_decode_ok ExtRimi "rimifull" [SP; c_RIMI_SSP_REG] false
  && frags_decode_ok ExtFixer "fixer" [SP] false = true.
Proof. exact fragments_well_formed. Qed.

(* every random instruction a body can contain decodes to the intended RV64IM
   (or duplicated RIMI) instruction, for all operands *)
Theorem C01_body_instructions_legal_partial : forall c, In c all_ctors -> ctor_faithful c.
Proof. exact all_ctors_faithful. Qed.

(* the callee draw of phase 2 is always possible (never an empty population) *)
Theorem C01_callees_available_partial : forall d dp id0,
  0 < dp -> In id0 (flat_map (fun kv => if fst kv =? 0 then snd kv else []) d) -> possible_callees d dp <> [].
Proof. exact possible_callees_nonempty. Qed.

Theorem C01_offset_choice_never_empty_partial : forall mo, 4 <= mo -> 1 <= size_offset_len mo.
Proof. exact size_offset_len_pos. Qed.

(* PROVED (Layer B, leaf methods; GenWF6 / FrameExec / CodeMem / BodyExec /
   BodyBridge) for the four non-FIXER variants, every accepted configuration,
   decision script and emitted image: take any method without call sites; put
   its EMITTED WORDS anywhere 4-aligned in the code region (RIMI full: on the JIT
   side, in the JIT domain), the data section and the stack anywhere disjoint
   from the code, enter at its first instruction with ANY register contents such
   that the data register holds the data base and sp is 8-aligned with its
   24-byte frame inside the stack region: the reference machine - fetching,
   decoding (independent decoder) and executing those bytes - makes exactly
   |method| steps without any fault and arrives at ra (low bit cleared) with
   sp, s0, the data register and every other non-usable register equal to
   their entry values, dom and the CFI stack unchanged, and memory untouched
   outside the data image and the method's own frame slot [sp-24, sp-16).
   `_partial`: methods without call sites only; the induction along the call
   graph (call stubs + callee contracts), PICs, trampolines and the interpreter
   loop are not composed. *)
Theorem C01_leaf_methods_run_partial : forall c script img,
  successful c script img -> non_fixer (c_variant c) ->
  Forall (fun m => m_depth m = 0 -> m_calls m = 0 ->
    forall L s,
      let A := pc s in let n := List.length (m_instrs m) in let S := rget s 2 in
      CodeMem.regions_ok L -> placement c L -> stack_placement L ->
      CodeMem.code_at (mem s) A (map generate (m_instrs m)) ->
      A mod 4 = 0 -> code_lo L <= A -> A + 4 * Z.of_nat n <= code_hi L -> A + 4 * Z.of_nat n < W64 ->
      (halt_at L < A \/ A + 4 * Z.of_nat n <= halt_at L) ->
      CodeMem.side_ok (gv c) L A (Z.of_nat n) (dom s) ->
      env_ok (gv c) L (c_data_reg c) s ->
      S mod 8 = 0 -> 24 <= S < W64 -> stk_lo L <= S - 24 -> S <= stk_hi L -> 0 <= rget s 8 < W64 ->
      exists s', run (gv c) L n s = (Next s', n) /\
        pc s' = (u64 (rget s 1 + 0) / 2) * 2 /\
        (forall r, 0 <= r -> wr c r = false -> rget s' r = rget s r) /\
        same_outside L (dsz c) s s' S /\ dom s' = dom s /\ cfi s' = cfi s /\
        env_ok (gv c) L (c_data_reg c) s')
    (im_methods img).
Proof. exact leaf_methods_run. Qed.

(* PROVED (Layer B, the method contract along the call graph; MethodContract /
   Walk / CallFrame / GenWF9 + the pieces above) for the two variants without
   isolation (with and without trampolines), every accepted configuration,
   decision script and emitted image, every placement of the image in a code
   region smaller than 2 GiB with the data section and the stack disjoint from
   it:  EVERY method of the image - whatever its call depth - entered at its
   first instruction with the image's words loaded at the recorded addresses,
   any register contents such that the data register holds the data base, sp
   8-aligned with  need  bytes of stack below it (need = the bound computed from
   the call DAG, ImageSem.need_method):
     - the reference machine, fetching and decoding the emitted bytes, executes
       the method AND, RECURSIVELY, ALL ITS CALLEES without any fault and
       returns to ra (low bit cleared);
     - sp, s0, ra, the data register and every register outside the usable list
       hold their entry values at the return;
     - memory is unchanged outside the data image and outside the stack window
       [sp - need, sp): total stack use never exceeds the DAG bound;
     - dom and the CFI stack are unchanged.
   Proof: induction on the call depth; a method that makes calls is walked
   position by position (random instruction: one step; call site: call edge,
   callee contract, return two positions later), between its frame prologue and
   epilogue.  `_partial`: plain variants only (RIMI shadow-stack frames and FIXER
   tagged calls are not composed), PIC switches (C05_pic_dispatch), trampolines
   and the interpreter loop are not composed into a whole-image run. *)
Theorem C01_every_method_returns_partial : forall c script img,
  successful c script img -> plain c ->
  forall L, placed c img L ->
  forall id m, nth_error (im_methods img) id = Some m ->
  contract c img L (need_method c (im_methods img) (max_depth (im_methods img)) id)
           (steps_method (im_methods img) (max_depth (im_methods img)) id) m.
Proof. exact every_method_returns. Qed.

(* PROVED: PROPERTY C01 FOR THE TWO VARIANTS WITHOUT ISOLATION - without and with
   the call / return trampolines (WholeImage.plain_image_returns), for every
   accepted configuration, every decision script (hence every seed) and every
   emitted image - no bound on the number of elements, sizes, depths:
   with the interpreter loop, the trampolines, the PIC switch tables and the
   methods loaded at their recorded addresses in a code region (< 2 GiB)
   disjoint from the data section and the stack, PIC switch offsets within
   +-1 MiB (finding F6 outside) and fewer than 2047 cases per PIC; entered at
   the interpreter entry with ANY register contents such that the data register
   holds the data base, sp is 8-aligned with
      Ntot = 88 + (8 with trampolines) + max over methods of the call-DAG stack bound
   bytes of stack below it:
     - the reference machine, fetching and decoding the emitted bytes, RUNS TO
       THE CALLER'S RETURN ADDRESS: `run` ends in `Next` at ra (low bit
       cleared) - no fetch outside the code, no illegal instruction, no
       misaligned / unmapped / code-writing access ever occurs (each is a Fault
       outcome of the machine);
     - it executes the interpreter prologue, then for EVERY top-level element, in
       the shuffled order, its call stub, (with trampolines: the call trampoline,
       which pushes the interpreter's return point and enters the element through
       t1,) the element (a method with all its callees; or the PIC dispatch of the
       loaded hit case followed by that case method), (the return trampoline,) and
       the return to the next stub, then the epilogue;
     - the number of machine steps is EXACTLY  image_steps c img eh = 12 + sum over
       the elements e, with the hit case h the interpreter loaded for e (eh pairs
       every element of the image with it: 1 <= h <= cases for a PIC), of
       elem_cost e h + 13, where elem_cost is 2 + steps(method) for a method and
       3 + (2(h-1)+3) + steps(case h) for a PIC, plus 10 with trampolines (two more
       stub instructions, 5 + 3 trampoline instructions), steps = |method| + sum
       over its callees (steps_method, = ImageSem.count_method);
     - sp, s0-s9 and ra (restored from the frame), and every other register
       outside the usable list except the PIC temporaries and (with trampolines)
       t1 - `clob` -, hold their entry values; memory is unchanged outside the
       data image and the stack window [sp - Ntot, sp); dom and the CFI stack are
       unchanged.
   The hypothesis on the data register: with trampolines the interpreter's stubs
   load the call target into t1, so a configuration whose data register is t1
   destroys its own data base (DESIGN 6.2: not an accepted configuration).
   The other three variants: see the `_partial` theorems. *)
Theorem C01_plain_image_returns : forall c script img,
  successful c script img -> plain c ->
  (uses_tramp (c_variant c) = true -> c_data_reg c <> 6) ->
  forall L, placed c img L -> placed2 c img L ->
  forall s0,
    rget s0 2 mod 8 = 0 -> Ntot c img <= rget s0 2 < W64 ->
    stk_lo L <= rget s0 2 - Ntot c img -> rget s0 2 <= stk_hi L ->
    (forall r o, In (r, o) int_slots -> 0 <= rget s0 r < W64) ->
    pc s0 = int_start_al c -> image_loaded c img s0 -> env_ok (gv c) L (c_data_reg c) s0 ->
    exists s' eh, map fst eh = im_elements img /\ Forall (fun x => hit_ok (fst x) (snd x)) eh /\
      run (gv c) L (image_steps c img eh) s0 = (Next s', image_steps c img eh) /\
      pc s' = (u64 (rget s0 1 + 0) / 2) * 2 /\
      (forall r, 0 <= r -> wr c r = false -> ~ clob c r -> rget s' r = rget s0 r) /\
      mem_frame c L s0 s' (rget s0 2 - Ntot c img) (rget s0 2) /\ dom s' = dom s0 /\ cfi s' = cfi s0.
Proof. exact plain_image_returns. Qed.

(* PROVED: PROPERTY C01 STATED OVER THE EMITTED FILES, same two variants
   (Loader.plain_image_from_files): the hypotheses `placed`, `placed2` and
   `image_loaded` of the previous theorem are DERIVED from the entry conditions
   `Init` of ImageSem: the words of int.bin followed by the words of jit.bin in
   code memory from the interpreter's generation address on (the loader lemma
   uses Layer A: exact tiling, element address = file position, interpreter
   padding, data file size, the recorded trampolines), pc at the first word, sp
   at the top of a stack of Ntot bytes, ra = the halt address outside the image,
   the data register at the data section, dom 0, empty CFI stack; every other
   register, the data contents and all other memory arbitrary.  Remaining side
   conditions: image smaller than 2 GiB - 2 KiB, PIC switch offsets encodable
   (F6) and PICs of fewer than 2047 cases, callee-saved register VALUES within 64
   bits (a well-formed state).  Conclusion: the machine halts at the halt
   address after exactly image_steps steps with dom = 0 and the CFI stack empty;
   no fault. *)
Theorem C01_plain_image_from_files : forall c script img,
  successful c script img -> plain c ->
  (uses_tramp (c_variant c) = true -> c_data_reg c <> 6) ->
  forall L s0, Init c img (Ntot c img) L s0 -> code_lo L = int_start_al c ->
    code_hi L - code_lo L < 2147483648 - 2048 -> pics_encodable img ->
    (forall r o, In (r, o) int_slots -> 0 <= rget s0 r < W64) ->
    exists s' eh, map fst eh = im_elements img /\ Forall (fun x => hit_ok (fst x) (snd x)) eh /\
      run (gv c) L (image_steps c img eh) s0 = (Next s', image_steps c img eh) /\ pc s' = halt_at L /\
      (forall r, 0 <= r -> wr c r = false -> ~ clob c r -> rget s' r = rget s0 r) /\
      mem_frame c L s0 s' (stk_hi L - Ntot c img) (stk_hi L) /\ dom s' = 0 /\ cfi s' = [].
Proof. intros c script img Hs Hp H6 L s0 HI. exact (plain_image_from_files c script img Hs Hp H6 L s0 _ HI eq_refl). Qed.

(* non-vacuity, per variant: a concrete state (the witness image stored word by word
   into an empty memory) meets every hypothesis; the images have PICs and call-making methods *)
Theorem C01_plain_image_from_files_nonvacuous :
  ((exists s' n, run (gv wcfg_base) wL n ws0 = (Next s', n) /\ pc s' = halt_at wL /\ dom s' = 0 /\ cfi s' = []) /\
   Init wcfg_base wimg (Ntot wcfg_base wimg) wL ws0 /\
   existsb (fun e => match e with EPic _ => true | _ => false end) (im_elements wimg) = true /\
   existsb (fun m => negb (m_is_leaf m)) (im_methods wimg) = true) /\
  ((exists s' n, run (gv wcfg_tramp) wL_t n ws0_t = (Next s', n) /\ pc s' = halt_at wL_t /\ dom s' = 0 /\ cfi s' = []) /\
   Init wcfg_tramp wimg_t (Ntot wcfg_tramp wimg_t) wL_t ws0_t /\
   existsb (fun e => match e with EPic _ => true | _ => false end) (im_elements wimg_t) = true /\
   existsb (fun m => negb (m_is_leaf m)) (im_methods wimg_t) = true).
Proof.
  split; (split; [first [exact base_image_from_files_nonvacuous|exact tramp_image_from_files_nonvacuous]|]);
  (split; [first [exact ws0_init|exact ws0_init_t]|first [exact wimg_shape|exact wimg_shape_t]]).
Qed.

(* PROVED (Layer B), both RIMI variants: the method contract along the call graph
   with the return addresses on the shadow stack (statement and reading:
   Properties/C09.v, C09_every_rimi_method_contract_partial): every method of
   every image returns to its caller without any fault in exactly steps_method
   steps; sp, s0, ra, t3, the data register and every non-usable register are
   restored; memory changes only in the data image, the main-stack window
   [sp - need, sp) and the shadow window [t3 - ss_need, t3). *)
Theorem C01_every_rimi_method_returns_partial : forall c script img,
  successful c script img -> rimi c ->
  forall L, rplaced c img L ->
  forall id m, nth_error (im_methods img) id = Some m ->
  rcontract c img L (need_method c (im_methods img) (max_depth (im_methods img)) id)
            (ss_need (im_methods img) (max_depth (im_methods img)) id)
            (steps_method (im_methods img) (max_depth (im_methods img)) id) m.
Proof. exact every_rimi_method_returns. Qed.

(* PROVED: PROPERTY C01 OVER THE EMITTED FILES FOR THE RIMI SHADOW-STACK VARIANT
   (LoaderRimi.rimiss_image_from_files; WholeImageRimi.rimiss_image_returns): same
   statement as C01_plain_image_from_files with, in addition, the shadow stack:
   `Init` places t3 at the top of the emitted shadow-stack image; for call chains
   within its capacity (SSmax img = 8 x the largest number of call-making methods
   live at once, from the call DAG, <= |ss.bin|) the image runs from the
   interpreter entry to the halt address without any fault in exactly
   rimage_steps steps; the interpreter's return points go through the trampoline
   pair (main stack), the return addresses of JIT methods only through the shadow
   stack; t3 is back at its entry value; memory changes only in the data image,
   the main-stack window and the shadow window [ss_hi - SSmax, ss_hi). *)
Theorem C01_rimiss_image_from_files : forall c script img,
  successful c script img -> c_variant c = GRimiSS -> c_data_reg c <> 6 ->
  forall L s0, Init c img (rNtot c img) L s0 -> code_lo L = int_start_al c ->
    code_hi L - code_lo L < 2147483648 - 2048 -> pics_encodable img ->
    SSmax img <= zlen (im_ss img) ->
    (forall r o, In (r, o) int_slots -> 0 <= rget s0 r < W64) ->
    exists s' eh, map fst eh = im_elements img /\ Forall (fun x => rhit_ok (fst x) (snd x)) eh /\
      run (gv c) L (rimage_steps img eh) s0 = (Next s', rimage_steps img eh) /\ pc s' = halt_at L /\
      (forall r, 0 <= r -> wr c r = false -> ~ rclob c r -> rget s' r = rget s0 r) /\
      rget s' 28 = ss_hi L /\
      rmem_frame c L s0 s' (stk_hi L - rNtot c img) (stk_hi L) (ss_hi L - SSmax img) (ss_hi L) /\ dom s' = 0 /\ cfi s' = [].
Proof. exact rimiss_image_from_files. Qed.

Theorem C01_rimiss_image_from_files_nonvacuous :
  (exists s' n, run (gv wcfg_rimiss) wL_r n ws0_r = (Next s', n) /\ pc s' = halt_at wL_r /\ rget s' 28 = ss_hi wL_r /\ dom s' = 0 /\ cfi s' = []) /\
  Init wcfg_rimiss wimg_r (rNtot wcfg_rimiss wimg_r) wL_r ws0_r /\
  existsb (fun e => match e with EPic _ => true | _ => false end) (im_elements wimg_r) = true /\
  existsb (fun m => negb (m_is_leaf m)) (im_methods wimg_r) = true /\ 0 < SSmax wimg_r.
Proof. split; [exact rimiss_image_from_files_nonvacuous|]. split; [exact ws0_init_r|exact wimg_shape_r]. Qed.

(* PROVED: PROPERTY C01 OVER THE EMITTED FILES FOR THE RIMI FULL VARIANT
   (LoaderRimiFull.rimifull_image_from_files; WholeImageRimiFull): the interpreter
   runs in domain 0 on the interpreter side of the image; every interpreter call
   enters the JIT side through a chdom into the call trampoline (domain 1) and
   comes back through the retdom of the return trampoline; the interpreter's
   return point and the return addresses of JIT methods live on the shadow stack
   (FSW img = SSmax + 8 bytes, within the emitted shadow-stack image); JIT code
   reaches the data section through duplicated accesses in domain 1 only.  From
   ImageSem.Init the machine - whose monitors fault on a fetch in the wrong
   domain, a duplicated access outside domain 1 / outside the data section, a
   base access to the data section, a domain switch from the wrong domain or to
   the wrong side - runs to the halt address WITHOUT ANY FAULT in exactly
   fimage_steps steps, back in domain 0, t3 at its entry value. *)
Theorem C01_rimifull_image_from_files : forall c script img,
  successful c script img -> c_variant c = GRimiFull -> c_data_reg c <> 6 ->
  forall L s0, Init c img (fNtot c img) L s0 -> code_lo L = int_start_al c ->
    code_hi L - code_lo L < 2147483648 - 2048 -> pics_encodable img ->
    FSW img <= zlen (im_ss img) ->
    (forall r o, In (r, o) int_slots -> 0 <= rget s0 r < W64) ->
    exists s' eh, map fst eh = im_elements img /\ Forall (fun x => fhit_ok (fst x) (snd x)) eh /\
      run (gv c) L (fimage_steps img eh) s0 = (Next s', fimage_steps img eh) /\ pc s' = halt_at L /\
      (forall r, 0 <= r -> wr c r = false -> ~ fclob c r -> rget s' r = rget s0 r) /\
      rget s' 28 = ss_hi L /\
      rmem_frame c L s0 s' (stk_hi L - fNtot c img) (stk_hi L) (ss_hi L - FSW img) (ss_hi L) /\ dom s' = 0 /\ cfi s' = [].
Proof. exact rimifull_image_from_files. Qed.

Theorem C01_rimifull_image_from_files_nonvacuous :
  (exists s' n, run (gv wcfg_rimifull) wL_f n ws0_f = (Next s', n) /\ pc s' = halt_at wL_f /\ rget s' 28 = ss_hi wL_f /\ dom s' = 0 /\ cfi s' = []) /\
  Init wcfg_rimifull wimg_f (fNtot wcfg_rimifull wimg_f) wL_f ws0_f /\
  existsb (fun e => match e with EPic _ => true | _ => false end) (im_elements wimg_f) = true /\
  existsb (fun m => negb (m_is_leaf m)) (im_methods wimg_f) = true /\ 8 < FSW wimg_f.
Proof. split; [exact rimifull_image_from_files_nonvacuous|]. split; [exact ws0_init_f|exact wimg_shape_f]. Qed.

(* PROVED: PROPERTY C01 OVER THE EMITTED FILES FOR THE FIXER VARIANT
   (LoaderFixer.fixer_image_from_files; WholeImageFixer; MethodContractFixer): from
   ImageSem.Init (empty CFI stack) the image runs from the interpreter entry to
   the halt address without any fault and WITHOUT REACHING THE TRAP, in exactly
   ximage_steps steps: every call executed from the call trampoline or from JIT
   code is a tagged call (cficall registers exactly the return address), every
   JIT method return goes through the check sequence, which passes; the CFI stack
   is empty again at exit.  With this theorem C01 is proved, over the emitted
   files, for ALL FIVE generator variants. *)
Theorem C01_fixer_image_from_files : forall c script img,
  successful c script img -> c_variant c = GFixer -> c_data_reg c <> 6 ->
  forall L s0, Init c img (xNtot c img) L s0 -> code_lo L = int_start_al c ->
    code_hi L - code_lo L < 2147483648 - 2048 -> pics_encodable img ->
    (forall r o, In (r, o) int_slots -> 0 <= rget s0 r < W64) ->
    exists s' eh, map fst eh = im_elements img /\ Forall (fun x => xhit_ok (fst x) (snd x)) eh /\
      run (gv c) L (ximage_steps img eh) s0 = (Next s', ximage_steps img eh) /\ pc s' = halt_at L /\
      (forall r, 0 <= r -> wr c r = false -> ~ xclob c r -> rget s' r = rget s0 r) /\
      mem_frame c L s0 s' (stk_hi L - xNtot c img) (stk_hi L) /\ dom s' = 0 /\ cfi s' = [].
Proof. exact fixer_image_from_files. Qed.

Theorem C01_fixer_image_from_files_nonvacuous :
  (exists s' n, run (gv wcfg_fixer2) wL_x n ws0_x = (Next s', n) /\ pc s' = halt_at wL_x /\ dom s' = 0 /\ cfi s' = []) /\
  Init wcfg_fixer2 wimg_x (xNtot wcfg_fixer2 wimg_x) wL_x ws0_x /\
  existsb (fun e => match e with EPic _ => true | _ => false end) (im_elements wimg_x) = true /\
  existsb (fun m => negb (m_is_leaf m)) (im_methods wimg_x) = true.
Proof. split; [exact fixer_image_from_files_nonvacuous|]. split; [exact ws0_init_x|exact wimg_shape_x]. Qed.

(* PROVED: the wording of the property for the plain variants, from the whole-image
   theorem and the generic trace lemma (Trace.clean_run_trace): the executed pc
   sequence of the whole run has exactly image_steps entries, every one of them is
   4-aligned, lies inside the emitted image [code_lo, code_hi) and is not the halt
   address; the run then sits at the caller's return address.  (Trace.v's lemma is
   generic in the variant: the same reading applies to the conclusions of the
   rimiss / rimifull / fixer whole-image theorems.) *)
Theorem C01_plain_run_fetches_inside_code : forall c script img,
  successful c script img -> plain c ->
  (uses_tramp (c_variant c) = true -> c_data_reg c <> 6) ->
  forall L s0, Init c img (Ntot c img) L s0 -> code_lo L = int_start_al c ->
    code_hi L - code_lo L < 2147483648 - 2048 -> pics_encodable img ->
    (forall r o, In (r, o) int_slots -> 0 <= rget s0 r < W64) ->
    exists s' n, run (gv c) L n s0 = (Next s', n) /\ pc s' = halt_at L /\
      List.length (run_pcs (gv c) L n s0) = n /\
      Forall (fun p => p <> halt_at L /\ p mod 4 = 0 /\ code_lo L <= p /\ p + 4 <= code_hi L)
             (run_pcs (gv c) L n s0).
Proof.
  intros c script img Hs Hp H6 L s0 HI Hlo Hsz Hpe Hr.
  destruct (C01_plain_image_from_files c script img Hs Hp H6 L s0 HI Hlo Hsz Hpe Hr)
    as (s' & eh & _ & _ & Hrun & Hpc & _).
  exists s', (image_steps c img eh). split; [exact Hrun|]. split; [exact Hpc|].
  exact (clean_run_trace _ _ _ _ _ Hrun).
Qed.

(* PROVED, every variant and layout: the same reading for ANY run whose n steps are
   all Next - in particular the runs concluded by C01_rimiss_image_from_files,
   C01_rimifull_image_from_files and C01_fixer_image_from_files (their conclusion
   contains run (gv c) L n s0 = (Next s', n)). *)
Theorem C01_all_next_run_fetches_inside_code : forall v L n s s',
  run v L n s = (Next s', n) ->
  List.length (run_pcs v L n s) = n /\
  Forall (fun p => p <> halt_at L /\ p mod 4 = 0 /\ code_lo L <= p /\ p + 4 <= code_hi L)
         (run_pcs v L n s).
Proof. exact clean_run_trace. Qed.

Print Assumptions C01_all_next_run_fetches_inside_code.
Print Assumptions C01_plain_run_fetches_inside_code.
Print Assumptions C01_fixer_image_from_files.
Print Assumptions C01_fixer_image_from_files_nonvacuous.
Print Assumptions C01_rimifull_image_from_files.
Print Assumptions C01_rimifull_image_from_files_nonvacuous.
Print Assumptions C01_rimiss_image_from_files.
Print Assumptions C01_rimiss_image_from_files_nonvacuous.
Print Assumptions C01_every_rimi_method_returns_partial.
Print Assumptions C01_plain_image_returns.
Print Assumptions C01_plain_image_from_files.
Print Assumptions C01_plain_image_from_files_nonvacuous.
Print Assumptions C01_every_method_returns_partial.
Print Assumptions C01_leaf_methods_run_partial.
Print Assumptions C01_fragments_tied_partial.
Print Assumptions C01_fragments_legal_partial.
Print Assumptions C01_body_instructions_legal_partial.
Print Assumptions C01_callees_available_partial.
Print Assumptions C01_offset_choice_never_empty_partial.
