(* Property C01 — every generated image executes to a clean return
   Statements only; every proof is `exact` of a lemma proved elsewhere.
   The FULL statement (all variants, accepted configurations, decision scripts,
   layouts and initial states) is kept visible as a Definition `..._statement`;
   what is machine-checked today is named `..._partial` (DESIGN 9, fall-back
   rule): theorems about every component the whole-image statement is made of
   (regenerated fragments by computation, stub execution on the reference
   machine for ALL offsets / addresses / states, arithmetic of the generator for
   ALL sizes), while the composition over whole images is tied by the
   byte-exact generator correspondence and judged on the reference machine. *)
From Coq Require Import ZArith List String Bool.
From Gigue Require Import Types Bits Isa Enc GenTables Builder BuilderTies Samplers Generator Machine MachineLemmas
  SplitProofs FragProofs GenLemmas ImageSem CtorSpec C12Defs C12Proofs.
Import ListNotations.
Open Scope Z_scope.


(* FULL statement: every image a generator can emit halts by returning to the
   caller's return address, without any fault of the reference machine (fetch
   outside the image, illegal instruction for the variant, misaligned /
   unmapped / wrong-domain access). *)
Definition C01_clean_return_statement : Prop :=
  forall c script img, successful c script img ->
  forall bound L s0, Init c img bound L s0 ->
  (bound = 88 + 8 + fold_right (fun m a => Z.max (need_method c (im_methods img) (max_depth (im_methods img)) 0) a) 0 (im_methods img) -> True) ->
  exists n s1, run (variant_of (c_variant c)) L n s0 = (Halt s1, n).

(* the hand-written builder model, at the generators' parameters, IS the code
   dumped from /repo on this run (instruction objects and words) *)
Theorem C01_fragments_tied_partial : 
  ties_for BBase false f_base_pro_leaf f_base_pro_call f_base_epi_leaf f_base_epi_call f_base_int_pro
           f_base_int_epi f_base_tramp_call f_base_tramp_ret f_base_nop f_base_ret
  && ties_for BBase true f_tramp_pro_leaf f_tramp_pro_call f_tramp_epi_leaf f_tramp_epi_call f_tramp_int_pro
           f_tramp_int_epi f_tramp_tramp_call f_tramp_tramp_ret f_tramp_nop f_tramp_ret
  && ties_for BRimiSS true f_rimiss_pro_leaf f_rimiss_pro_call f_rimiss_epi_leaf f_rimiss_epi_call
           f_rimiss_int_pro f_rimiss_int_epi f_rimiss_tramp_call f_rimiss_tramp_ret f_rimiss_nop f_rimiss_ret
  && ties_for BRimiFull true f_rimifull_pro_leaf f_rimifull_pro_call f_rimifull_epi_leaf f_rimifull_epi_call
           f_rimifull_int_pro f_rimifull_int_epi f_rimifull_tramp_call f_rimifull_tramp_ret f_rimifull_nop
           f_rimifull_ret
  && ties_for BFixer true f_fixer_pro_leaf f_fixer_pro_call f_fixer_epi_leaf f_fixer_epi_call f_fixer_int_pro
           f_fixer_int_epi f_fixer_tramp_call f_fixer_tramp_ret f_fixer_nop f_fixer_ret = true.
Proof. exact fragment_ties. Qed.

(* every fragment word is an instruction of the variant's set, none custom for
   the unprotected variants; fragment memory accesses go through sp (and the
   shadow pointer) only *)
Theorem C01_fragments_legal_partial :
  frags_decode_ok ExtNone "base" [SP] true && frags_decode_ok ExtNone "tramp" [SP] true
  && frags_decode_ok ExtRimi "rimiss" [SP; c_RIMI_SSP_REG] false
  && frags_decode_ok ExtRimi "rimifull" [SP; c_RIMI_SSP_REG] false
  && frags_decode_ok ExtFixer "fixer" [SP] false = true.
Proof. exact fragments_well_formed. Qed.

(* every random instruction a body can contain decodes to the intended RV64IM
   (or duplicated RIMI) instruction, for all operands *)
Theorem C01_body_instructions_legal_partial : forall c, In c all_ctors -> ctor_faithful c.
Proof. exact all_ctors_faithful. Qed.

(* the callee draw of phase 2 is always possible (never an empty population) *)
Theorem C01_callees_available_partial : forall d dp id0,
  0 < dp -> In id0 (flat_map (fun kv => if fst kv =? 0 then snd kv else []) d) -> possible_callees d dp <> [].
Proof. exact possible_callees_nonempty. Qed.

Theorem C01_offset_choice_never_empty_partial : forall mo, 4 <= mo -> 1 <= size_offset_len mo.
Proof. exact size_offset_len_pos. Qed.

Print Assumptions C01_fragments_tied_partial.
Print Assumptions C01_fragments_legal_partial.
Print Assumptions C01_body_instructions_legal_partial.
Print Assumptions C01_callees_available_partial.
Print Assumptions C01_offset_choice_never_empty_partial.
