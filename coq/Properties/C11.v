(* Property C11 — FIXER: every call tagged, every return checked, tampering trapped
   Statements only; every proof is `exact` of a lemma proved elsewhere.
   Theorems without suffix are proved at the strength stated in their comment
   (Layer A: every accepted configuration and decision script; Layer B:
   machine-level method contracts and whole-image theorems, DESIGN 10.3).
   `..._partial` marks a theorem that covers part of a clause (its comment says
   what is missing); a `Definition ..._statement` keeps a clause visible that is
   stated but not proved.  Clauses not proved are decided on every run by the
   judges on implementation images (byte-exact generator correspondence +
   extracted reference machine). *)
From Coq Require Import ZArith List String Bool.
From Gigue Require Import Types Bits Isa Enc GenTables Builder BuilderTies Samplers Generator Machine MachineLemmas
  SplitProofs FragProofs GenLemmas ImageSem CtorSpec C12Defs C12Proofs GenWF GenWFProps SliceLemmas FloatSign GenWF2 BodyExec BodyBridge GenWF5 FrameExec CodeMem SwitchExec GenWF6 CallFrame FixerTamper MethodContract SaveRestore WholeImage Loader
  GenWF9F WalkK FixerCall MethodContractFixer WholeImageFixer LoaderFixer Witness WitnessFixer LoaderWitnessFixer GenWF3.
Import ListNotations.
Open Scope Z_scope.


(* FULL statement (dynamic part): an untampered run never reaches the trap and
   leaves the CFI stack empty. *)
Definition C11_untampered_statement : Prop :=
  forall c script img, successful c script img -> c_variant c = GFixer ->
  forall b L s0, Init c img b L s0 ->
  forall n s1, run VFixer L n s0 = (Halt s1, n) -> cfi s1 = [].

(* every JIT method epilogue ends with  cfiret t3 ; beq ra,t3,+8 ; ecall ; ret
   and the call trampoline tags before its jump *)
Theorem C11_returns_checked_partial :
  with_frag ExtFixer f_fixer_epi_leaf (checked_return c_FIXER_CMP_REG) false
  && with_frag ExtFixer f_fixer_epi_call (checked_return c_FIXER_CMP_REG) false
  && with_frag ExtFixer f_fixer_tramp_call
       (fun l => has_instr (fun i => match i with Cficall _ r _ => r =? c_FIXER_CMP_REG | _ => false end) l
                 && last_is (fun i => match i with Jalr 0 r 0 => r =? c_CALL_TMP_REG | _ => false end) l) false
  = true.
Proof. exact fixer_checked_returns. Qed.

(* a tagged method call: the value pushed on the CFI stack is EXACTLY the
   return address the following jalr writes into ra (A + 20), for every
   offset, address and state *)
Theorem C11_method_call_tagged_partial : forall L s A off,
  in_pair_range (off - 12) -> 20 <= Z.abs off -> (A + off) mod 2 = 0 -> pc s = A ->
  exists stub is,
    fixer_method_base_call off = OK stub /\ List.length stub = 5%nat /\
    decode_all ExtFixer stub = Some is /\
    exists s', exec_at VFixer L A is s = Next s' /\
    call_effect s s' (u64 (A + off)) (u64 (A + 20)) /\
    cfi s' = u64 (A + 20) :: cfi s /\
    (forall r, 0 <= r -> r <> 1 -> r <> c_FIXER_CMP_REG -> rget s' r = rget s r).
Proof. exact fixer_method_call_reaches. Qed.

Theorem C11_pic_call_tagged_partial : forall L s A off h hit,
  in_pair_range (off - 16) -> 24 <= Z.abs off -> 12 <= Z.abs (off - 16) -> (A + off) mod 2 = 0 ->
  0 <= h < 2048 -> 0 < hit < 32 -> hit <> 1 -> hit <> c_FIXER_CMP_REG -> pc s = A ->
  exists stub is,
    fixer_pic_base_call off h hit = OK stub /\ List.length stub = 6%nat /\
    decode_all ExtFixer stub = Some is /\
    exists s', exec_at VFixer L A is s = Next s' /\
    call_effect s s' (u64 (A + off)) (u64 (A + 24)) /\ rget s' hit = h /\
    cfi s' = u64 (A + 24) :: cfi s /\
    (forall r, 0 <= r -> r <> 1 -> r <> c_FIXER_CMP_REG -> r <> hit -> rget s' r = rget s r).
Proof. exact fixer_pic_call_reaches. Qed.

(* PROVED (Layer B, FIXER leaf methods; GenWF6): every FIXER image, every method
   without call sites: its EMITTED WORDS placed anywhere in the code region,
   entered with its return address registered on top of the CFI stack (what the
   tagged call leaves) and any other register contents (data register = data
   base, sp 8-aligned with its frame in the stack region): the reference machine
   runs exactly |method| - 1 steps - the check passes, the trap (ecall) is NOT
   reached - pops exactly that tag, and returns to ra with sp, s0, the data
   register and every non-usable register but t3 restored, memory untouched
   outside the data image and its own frame slot.  `_partial`: methods without
   call sites; the tagged call stubs are executed by C13_fixer_* for all offsets;
   the composition along the call graph and tamper-trapping are not composed. *)
Theorem C11_leaf_methods_checked_partial : forall c script img,
  successful c script img -> c_variant c = GFixer ->
  Forall (fun m => m_depth m = 0 -> m_calls m = 0 ->
    forall L s rest,
      let A := pc s in let n := List.length (m_instrs m) in let S := rget s 2 in
      regions_ok L -> placement c L -> stack_placement L ->
      code_at (mem s) A (map generate (m_instrs m)) ->
      A mod 4 = 0 -> code_lo L <= A -> A + 4 * Z.of_nat n <= code_hi L -> A + 4 * Z.of_nat n < W64 ->
      (halt_at L < A \/ A + 4 * Z.of_nat n <= halt_at L) ->
      env_ok (gv c) L (c_data_reg c) s ->
      cfi s = rget s 1 :: rest -> 0 <= rget s 1 < W64 ->
      S mod 8 = 0 -> 24 <= S < W64 -> stk_lo L <= S - 24 -> S <= stk_hi L -> 0 <= rget s 8 < W64 ->
      exists s', run (gv c) L (n - 1) s = (Next s', (n - 1)%nat) /\
        pc s' = (u64 (rget s 1 + 0) / 2) * 2 /\
        (forall r, 0 <= r -> wr c r = false -> r <> 28 -> rget s' r = rget s r) /\
        same_outside L (dsz c) s s' S /\ dom s' = dom s /\ cfi s' = rest /\
        env_ok (gv c) L (c_data_reg c) s')
    (im_methods img).
Proof. exact fixer_leaf_methods_run. Qed.

(* PROVED (Layer B, machine level, every state): TAMPERING IS TRAPPED at the checked
   return of a call-making method.  The regenerated epilogue of FIXER call-making
   methods decodes to
       ld s0,0(sp) ; ld ra,8(sp) ; addi sp,sp,32 ; cfiret t3 ; beq ra,t3,+8 ; ecall ; ret
   (first theorem, by computation on the regenerated fragment and the builder).
   Executed on the reference machine from ANY state whose frame lies in the stack
   region and whose CFI stack holds the tag `top` of this activation: if the
   saved-ra slot holds a value `forged <> top` - whatever wrote it, whenever -
   the outcome is `Trap` at the ecall (pc = A + 20): the `ret` is not executed,
   so there is NO control transfer to the forged address; the tag is consumed.
   If the slot still holds `top`, the check passes, the ecall is skipped and the
   `ret` goes to `top`.
   `_partial`: stated for one return; that every activation's tag is on top of
   the CFI stack when its epilogue starts is the whole-run invariant (LIFO
   matching of cficall / cfiret along the call DAG), proved only for leaf methods
   (C11_leaf_methods_checked_partial) and judged on every image otherwise. *)
Theorem C11_checked_epilogue_is_regenerated_partial :
  exists epi, build_epilogue BFixer m_used_s_regs m_local_vars_nb true = OK epi /\
              decode_all ExtFixer epi = Some fixer_epi_call /\
              map fst f_fixer_epi_call = epi.
Proof. exact fixer_epi_call_eq. Qed.

Theorem C11_forged_return_trapped_partial : forall L,
  (code_hi L <= stk_lo L \/ stk_hi L <= code_lo L) ->
  forall s A S s0e forged top rest,
  pc s = A -> rget s 2 = S - 32 ->
  S mod 8 = 0 -> 32 <= S < W64 -> stk_lo L <= S - 32 -> S <= stk_hi L ->
  load_bytes (mem s) (S - 32) 8 = s0e -> load_bytes (mem s) (S - 24) 8 = forged ->
  0 <= s0e < W64 -> 0 <= forged < W64 -> cfi s = top :: rest -> 0 <= top < W64 ->
  0 <= A -> A + 28 < W64 ->
  forged <> top ->
  exists s', exec_at VFixer L A fixer_epi_call s = Trap s' /\ pc s' = A + 20 /\ cfi s' = rest.
Proof. exact fixer_forged_return_traps. Qed.

Theorem C11_checked_return_passes_partial : forall L,
  (code_hi L <= stk_lo L \/ stk_hi L <= code_lo L) ->
  forall s A S s0e top rest,
  pc s = A -> rget s 2 = S - 32 ->
  S mod 8 = 0 -> 32 <= S < W64 -> stk_lo L <= S - 32 -> S <= stk_hi L ->
  load_bytes (mem s) (S - 32) 8 = s0e -> load_bytes (mem s) (S - 24) 8 = top ->
  0 <= s0e < W64 -> cfi s = top :: rest -> 0 <= top < W64 ->
  0 <= A -> A + 28 < W64 ->
  exists s', exec_at VFixer L A (firstn 5 fixer_epi_call) s = Next s' /\ pc s' = A + 24 /\
    exec VFixer L s' (Jalr 0 1 0) = Next (set_pc s' ((u64 (top + 0) / 2) * 2)) /\
    cfi s' = rest /\ rget s' 2 = S /\ rget s' 8 = s0e /\ rget s' 1 = top /\
    mem s' = mem s /\ dom s' = dom s /\
    (forall r, 0 <= r -> r <> 1 -> r <> 2 -> r <> 8 -> r <> 28 -> rget s' r = rget s r).
Proof. exact fixer_checked_return_passes. Qed.

(* PROVED (Layer B), FIXER, WHOLE IMAGE over the emitted files
   (LoaderFixer.fixer_image_from_files): THE UNTAMPERED RUN.  For every accepted
   configuration, decision script and emitted image, from ImageSem.Init (CFI stack
   empty) the run - interpreter loop, call trampoline (which registers the address
   of the return trampoline, the return address of the element it enters), PIC
   dispatch, every method with all its callees - ends at the halt address with
   outcome `Next` at every step: the trap (ecall) is never reached, no cfiret
   finds the CFI stack empty (FCfiEmpty is a machine fault), and `cfi s' = []` at
   exit.  The structure of the proof is exactly the clause: every call executed
   from JIT code or the call trampoline is immediately preceded by the cficall
   registering that call's return address (FixerCall.fixer_method_call_shape /
   fx_tramp_call; C11_method_call_tagged_partial), and every JIT method return is
   the check sequence (MethodContractFixer: leaf and call-making epilogues),
   which passes because the tag on top of the CFI stack is the activation's own
   return address (LIFO matching along the call DAG, by induction on the call depth). *)
Theorem C11_untampered_run : forall c script img,
  successful c script img -> c_variant c = GFixer -> c_data_reg c <> 6 ->
  forall L s0, Init c img (xNtot c img) L s0 -> code_lo L = int_start_al c ->
    code_hi L - code_lo L < 2147483648 - 2048 -> pics_encodable img ->
    (forall r o, In (r, o) int_slots -> 0 <= rget s0 r < W64) ->
    exists s' eh, map fst eh = im_elements img /\ Forall (fun x => xhit_ok (fst x) (snd x)) eh /\
      run (gv c) L (ximage_steps img eh) s0 = (Next s', ximage_steps img eh) /\ pc s' = halt_at L /\
      (forall r, 0 <= r -> wr c r = false -> ~ xclob c r -> rget s' r = rget s0 r) /\
      mem_frame c L s0 s' (stk_hi L - xNtot c img) (stk_hi L) /\ dom s' = 0 /\ cfi s' = [].
Proof. exact fixer_image_from_files. Qed.

(* the method contract behind it: every FIXER method entered with its return address
   registered on top of the CFI stack returns to it, pops exactly that tag, in
   exactly steps_fixer steps (the trap instruction is skipped: |method| - 1 + callees) *)
Theorem C11_every_method_checked : forall c script img,
  successful c script img -> c_variant c = GFixer ->
  forall L, placed c img L ->
  forall id m, nth_error (im_methods img) id = Some m ->
  fcontract c img L (need_method c (im_methods img) (max_depth (im_methods img)) id)
            (steps_fixer (im_methods img) (max_depth (im_methods img)) id) m.
Proof. exact every_fixer_method_returns. Qed.

(* PROVED (Layer B), FIXER, every accepted configuration, decision script and emitted
   image, EVERY CALL-MAKING METHOD of any call depth, every placement and entry
   state as in C11_every_method_checked: THE TAMPERED FRAME IS TRAPPED.
   Let idx be the positions of the method's call stubs (site_ok: the slot holds the
   tagged stub of its callee).  For EVERY position p of the method's own body that
   is not strictly inside a stub - before / after each of its own instructions,
   immediately before each of its calls, immediately after each return from a
   callee - the untampered run reaches p after some k steps with the frame live (the
   saved-ra slot holds the return address).  If AT THAT MOMENT the slot is
   overwritten with ANY other 64-bit value X, the continued run - the rest of the
   body and all the callees still to be called, each with all its callees - arrives
   at the method's own check sequence, and the machine's next step is the TRAP of
   its ecall (pc = method + 4 (3 + body + 5)): the `ret` through the forged address
   is never executed - execution reaches the trap before any control transfer to X.
   `_partial`: moments strictly inside a callee's execution (tampering the CALLER's
   slot while a callee runs) and inside the 5-instruction stubs / the epilogue are
   not positions of this theorem; the return instant itself is
   C11_forged_return_trapped_partial (every state).  Those moments are decided on
   implementation images by the tamper judge on every run. *)
Theorem C11_tampered_frame_traps_partial : forall c script img,
  successful c script img -> c_variant c = GFixer ->
  forall L, placed c img L ->
  forall id m, nth_error (im_methods img) id = Some m -> m_is_leaf m = false ->
  forall s rest, code_loaded img s -> pc s = m_addr m -> env_ok (gv c) L (c_data_reg c) s ->
    let N := need_method c (im_methods img) (max_depth (im_methods img)) id in
    let S := rget s 2 in
    S mod 8 = 0 -> N <= S < W64 -> stk_lo L <= S - N -> S <= stk_hi L ->
    0 <= rget s 8 < W64 -> 0 <= rget s 1 < W64 -> cfi s = rget s 1 :: rest ->
    exists idx, Forall2 (site_ok c (im_methods img) m) idx (m_callees m) /\
    forall p : nat, (p <= Z.to_nat (m_body m))%nat ->
      (forall i, In i idx -> ~ (Z.to_nat i - 3 < p < Z.to_nat i - 3 + 5)%nat) ->
      exists k sk, run (gv c) L k s = (Next sk, k) /\ pc sk = m_addr m + 4 * (3 + Z.of_nat p) /\
        load_bytes (mem sk) (S - 24) 8 = rget s 1 /\
        forall X, 0 <= X < W64 -> X <> rget s 1 ->
          exists n st, run (gv c) L n (set_mem sk (store_bytes (mem sk) (S - 24) 8 X)) = (Next st, n) /\
            pc st = m_addr m + 4 * (3 + m_body m + 5) /\ step (gv c) L st = Trap st.
Proof. exact every_fixer_method_tamper_traps. Qed.

(* the hypotheses of C11_tampered_frame_traps_partial are met by a concrete machine state: method
   wid_x of the witness image (it makes three calls; body of 40 instructions), entered at its first
   instruction with its return address registered on the CFI stack, the image loaded word by word *)
Theorem C11_tampered_frame_nonvacuous :
  nth_error (im_methods wimg_x) wid_x = Some wm_x /\ m_is_leaf wm_x = false /\ m_callees wm_x <> [] /\ 0 < m_body wm_x /\
  placed wcfg_fixer2 wimg_x wL_x /\ code_loaded wimg_x ws1_x /\ pc ws1_x = m_addr wm_x /\
  env_ok (gv wcfg_fixer2) wL_x (c_data_reg wcfg_fixer2) ws1_x /\
  (let N := need_method wcfg_fixer2 (im_methods wimg_x) (max_depth (im_methods wimg_x)) wid_x in
   let S := rget ws1_x 2 in
   S mod 8 = 0 /\ N <= S < W64 /\ stk_lo wL_x <= S - N /\ S <= stk_hi wL_x) /\
  0 <= rget ws1_x 8 < W64 /\ 0 <= rget ws1_x 1 < W64 /\ cfi ws1_x = rget ws1_x 1 :: [].
Proof. exact fixer_tamper_nonvacuous. Qed.

Theorem C11_nonvacuous : exists img, successful wcfg_fixer wscript_fixer img.
Proof. exact witness_fixer. Qed.

Print Assumptions C11_leaf_methods_checked_partial.
Print Assumptions C11_checked_epilogue_is_regenerated_partial.
Print Assumptions C11_forged_return_trapped_partial.
Print Assumptions C11_checked_return_passes_partial.
Print Assumptions C11_untampered_run.
Print Assumptions C11_every_method_checked.
Print Assumptions C11_tampered_frame_traps_partial.
Print Assumptions C11_tampered_frame_nonvacuous.
Print Assumptions C11_nonvacuous.
Print Assumptions C11_returns_checked_partial.
Print Assumptions C11_method_call_tagged_partial.
Print Assumptions C11_pic_call_tagged_partial.
