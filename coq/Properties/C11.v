(* Property C11 — FIXER: every call tagged, every return checked, tampering trapped
   Statements only; every proof is `exact` of a lemma proved elsewhere.
   The FULL statement (all variants, accepted configurations, decision scripts,
   layouts and initial states) is kept visible as a Definition `..._statement`;
   what is machine-checked today is named `..._partial` (DESIGN 9, fall-back
   rule): theorems about every component the whole-image statement is made of
   (regenerated fragments by computation, stub execution on the reference
   machine for ALL offsets / addresses / states, arithmetic of the generator for
   ALL sizes), while the composition over whole images is tied by the
   byte-exact generator correspondence and judged on the reference machine. *)
From Coq Require Import ZArith List String Bool.
From Gigue Require Import Types Bits Isa Enc GenTables Builder BuilderTies Samplers Generator Machine MachineLemmas
  SplitProofs FragProofs GenLemmas ImageSem CtorSpec C12Defs C12Proofs.
Import ListNotations.
Open Scope Z_scope.


(* FULL statement (dynamic part): an untampered run never reaches the trap and
   leaves the CFI stack empty. *)
Definition C11_untampered_statement : Prop :=
  forall c script img, successful c script img -> c_variant c = GFixer ->
  forall b L s0, Init c img b L s0 ->
  forall n s1, run VFixer L n s0 = (Halt s1, n) -> cfi s1 = [].

(* every JIT method epilogue ends with  cfiret t3 ; beq ra,t3,+8 ; ecall ; ret
   and the call trampoline tags before its jump *)
Theorem C11_returns_checked_partial :
  with_frag ExtFixer f_fixer_epi_leaf (checked_return c_FIXER_CMP_REG) false
  && with_frag ExtFixer f_fixer_epi_call (checked_return c_FIXER_CMP_REG) false
  && with_frag ExtFixer f_fixer_tramp_call
       (fun l => has_instr (fun i => match i with Cficall _ r _ => r =? c_FIXER_CMP_REG | _ => false end) l
                 && last_is (fun i => match i with Jalr 0 r 0 => r =? c_CALL_TMP_REG | _ => false end) l) false
  = true.
Proof. exact fixer_checked_returns. Qed.

(* a tagged method call: the value pushed on the CFI stack is EXACTLY the
   return address the following jalr writes into ra (A + 20), for every
   offset, address and state *)
Theorem C11_method_call_tagged_partial : forall L s A off,
  in_pair_range (off - 12) -> 20 <= Z.abs off -> (A + off) mod 2 = 0 -> pc s = A ->
  exists stub is,
    fixer_method_base_call off = OK stub /\ List.length stub = 5%nat /\
    decode_all ExtFixer stub = Some is /\
    exists s', exec_at VFixer L A is s = Next s' /\
    call_effect s s' (u64 (A + off)) (u64 (A + 20)) /\
    cfi s' = u64 (A + 20) :: cfi s /\
    (forall r, 0 <= r -> r <> 1 -> r <> c_FIXER_CMP_REG -> rget s' r = rget s r).
Proof. exact fixer_method_call_reaches. Qed.

Theorem C11_pic_call_tagged_partial : forall L s A off h hit,
  in_pair_range (off - 16) -> 24 <= Z.abs off -> 12 <= Z.abs (off - 16) -> (A + off) mod 2 = 0 ->
  0 <= h < 2048 -> 0 < hit < 32 -> hit <> 1 -> hit <> c_FIXER_CMP_REG -> pc s = A ->
  exists stub is,
    fixer_pic_base_call off h hit = OK stub /\ List.length stub = 6%nat /\
    decode_all ExtFixer stub = Some is /\
    exists s', exec_at VFixer L A is s = Next s' /\
    call_effect s s' (u64 (A + off)) (u64 (A + 24)) /\ rget s' hit = h /\
    cfi s' = u64 (A + 24) :: cfi s /\
    (forall r, 0 <= r -> r <> 1 -> r <> c_FIXER_CMP_REG -> r <> hit -> rget s' r = rget s r).
Proof. exact fixer_pic_call_reaches. Qed.

Print Assumptions C11_returns_checked_partial.
Print Assumptions C11_method_call_tagged_partial.
Print Assumptions C11_pic_call_tagged_partial.
