(* Property C15 — generation parameters mean what the documentation says.
   Samplers over bit-exact binary64 (Coq's SpecFloat, no axioms); math.exp and
   the Gaussian variates are inputs.  Statements only. *)
From Coq Require Import ZArith List Bool SpecFloat.
From Gigue Require Import Samplers SamplerProofs.
Import ListNotations.
Open Scope Z_scope.

(* truncated normal: the FIRST draw inside [lo, hi] is returned unchanged and
   every earlier draw was out of bounds — re-draw, never clamp *)
Theorem C15_truncnorm_redraws : forall lo hi draws x rest,
  trunc_norm lo hi draws = Some (x, rest) ->
  exists pre, draws = pre ++ x :: rest /\ in_bounds lo hi x = true /\
              Forall (fun d => in_bounds lo hi d = false) pre.
Proof. exact trunc_norm_first. Qed.

(* Poisson and zero-truncated Poisson (same loop, different start state): the
   value returned is the first index k whose computed partial sum is not below
   the ONE uniform draw: u <= S_k and u > S_j for all j < k *)
Theorem C15_poisson_inverse_cdf : forall fuel lam u st k,
  poisson_loop fuel lam u st = Some k ->
  exists n, (n <= fuel)%nat /\ k = ps_x st + Z.of_nat n /\
            flt (ps_s (iter lam n st)) u = false /\
            forall j, (j < n)%nat -> flt (ps_s (iter lam j st)) u = true.
Proof. exact poisson_loop_inverse. Qed.

Theorem C15_poisson_terminates_if_reachable : forall fuel lam u st,
  (exists n, (n <= fuel)%nat /\ flt (ps_s (iter lam n st)) u = false) ->
  poisson_loop fuel lam u st <> None.
Proof. exact poisson_loop_terminates. Qed.

(* PIC ratio 0 gives no PIC and ratio 1 only PICs, for EVERY uniform draw
   (CPython's choices: cumulative weights + bisect, modelled) *)
Theorem C15_ratio_0_no_pic : forall u, valid_uniform u -> kind_is_pic fzero u = false.
Proof. exact ratio_zero_only_methods. Qed.
Theorem C15_ratio_1_only_pics : forall u, valid_uniform u -> kind_is_pic fone u = true.
Proof. exact ratio_one_only_pics. Qed.

(* multiplication by 1.0 is exact on every canonical binary64 (used above) *)
Theorem C15_fmul_one_exact : forall s m e,
  bounded prec emax m e = true -> fmul (S754_finite s m e) fone = S754_finite s m e.
Proof. exact fmul_one_exact. Qed.

(* Known finding F5, machine-checked: TOTALITY IS FALSE.  For lambda = 4 and
   u = 1 - 2^-53 the term underflows to +0 while the partial sum is still below
   u (state after 400 iterations), and 30000 iterations later there is still
   no answer; likewise the zero-truncated sampler with lambda = 7. *)
Theorem C15_poisson_refuted_total_partial :
  (ps_p (iter 4 400 (poisson_init exp_m4)) = S754_zero false /\
   flt (ps_s (iter 4 400 (poisson_init exp_m4))) u_top = true) /\
  generate_poisson 30000 4 exp_m4 u_top = None /\
  generate_ztp 30000 7 exp_m7 u_top = None.
Proof. exact (conj poisson4_stuck_state (conj poisson4_no_answer_30000 ztp7_no_answer_30000)). Qed.

(* ... and, given that lambda / x never rounds to an infinity or NaN, no amount
   of fuel ever yields an answer from such a state (the loop body has a fixed
   point).  The hypothesis on the quotients is the part NOT proved here. *)
Theorem C15_poisson_diverges_from_stuck : forall lam u st,
  (forall x, 1 <= x -> quotient_tame (fdiv (of_Z lam) (of_Z x)) = true) ->
  0 <= ps_x st -> is_zero (ps_p st) = true -> (exists b m e, ps_s st = S754_finite b m e) ->
  flt (ps_s st) u = true ->
  forall fuel, poisson_loop fuel lam u st = None.
Proof. exact poisson_diverges_from_stuck. Qed.

Example C15_nonvacuous : valid_uniform u_top /\ valid_uniform fhalf.
Proof. exact valid_uniform_inhabited. Qed.

Print Assumptions C15_truncnorm_redraws.
Print Assumptions C15_poisson_inverse_cdf.
Print Assumptions C15_poisson_terminates_if_reachable.
Print Assumptions C15_ratio_0_no_pic.
Print Assumptions C15_ratio_1_only_pics.
Print Assumptions C15_fmul_one_exact.
Print Assumptions C15_poisson_refuted_total_partial.
Print Assumptions C15_poisson_diverges_from_stuck.
