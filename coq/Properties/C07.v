(* Property C07 — generated code is position independent
   Statements only; every proof is `exact` of a lemma proved elsewhere.
   Theorems without suffix are proved at the strength stated in their comment
   (Layer A: every accepted configuration and decision script; Layer B:
   machine-level method contracts and whole-image theorems, DESIGN 10.3).
   `..._partial` marks a theorem that covers part of a clause (its comment says
   what is missing); a `Definition ..._statement` keeps a clause visible that is
   stated but not proved.  Clauses not proved are decided on every run by the
   judges on implementation images (byte-exact generator correspondence +
   extracted reference machine). *)
From Coq Require Import ZArith List String Bool.
From Gigue Require Import Types Bits Isa Enc GenTables Builder BuilderTies Samplers Generator Machine MachineLemmas
  SplitProofs FragProofs GenLemmas ImageSem CtorSpec C12Defs C12Proofs
  GenWF GenWFProps SliceLemmas GenWF2 GenWF2Props BodyExec GenWF5 CodeMem MethodContract SaveRestore WholeImage Loader Reloc
  CallFrameRimi MethodContractRimi WholeImageRimi LoaderRimi RimiFullExec WholeImageRimiFull LoaderRimiFull
  GenWF9F WalkK FixerTamper FixerCall MethodContractFixer WholeImageFixer LoaderFixer RelocRun.
Import ListNotations.
Open Scope Z_scope.


(* FULL statement: two runs of the same image at two layouts fetch the same
   sequence of image offsets. *)
Definition C07_relocation_statement : Prop :=
  forall c script img, successful c script img ->
  forall b L1 L2 s1 s2, Init c img b L1 s1 -> Init c img b L2 s2 ->
  forall n, (exists t, run (variant_of (c_variant c)) L1 n s1 = (Halt t, n)) <->
            (exists t, run (variant_of (c_variant c)) L2 n s2 = (Halt t, n)).

(* PROVED for every accepted configuration, EVERY decision script (hence every
   seed) and every multiple d of 4 (Reloc.run_gen_equivariant): THE GENERATOR IS
   TRANSLATION-EQUIVARIANT.  Generating with both start addresses shifted by d
   (`shc d c`) consumes the script identically, fails with the same error when
   the original does, and otherwise produces `shi d img`: EXACTLY THE SAME WORDS
   in int.bin, jit.bin, data.bin and ss.bin, every recorded method / PIC address
   shifted by d.  Hence no generated instruction materialises an absolute code
   or data address: the emitted bytes do not depend on where the image is meant
   to be loaded (only on the distance between the two start addresses).
   By a relational Hoare logic over the generator monad (`rel`), through all
   phases: element generation, call patching (offsets are differences of
   addresses), the interpreter loop (using the Layer-A invariant that every
   element refers to an existing method), padding and data. *)
Theorem C07_generator_translation_equivariant : forall d, d mod 4 = 0 ->
  forall c script, cfg_ok c = true ->
  run_gen (shc d c) script =
  match run_gen c script with OK (img, rest) => OK (shi d img, rest) | Err e => Err e end.
Proof. exact run_gen_equivariant. Qed.

Theorem C07_files_do_not_depend_on_load_address : forall d, d mod 4 = 0 ->
  forall c script img rest, cfg_ok c = true -> run_gen c script = OK (img, rest) ->
  exists img', run_gen (shc d c) script = OK (img', rest) /\
    im_int img' = im_int img /\ im_jit img' = im_jit img /\ im_data img' = im_data img /\ im_ss img' = im_ss img /\
    im_int_instrs img' = im_int_instrs img /\ im_tramps img' = im_tramps img /\
    im_methods img' = map (shm d) (im_methods img) /\ im_elements img' = map (she d) (im_elements img).
Proof. exact files_position_independent. Qed.

(* PROVED (Layer B), the two plain variants: THE SAME FILES RUN AT ANY 4-ALIGNED LOAD
   ADDRESS.  The image generated for (I0, J0), placed at (I0 + d, J0 + d) with the data
   section and the stack at any suitably aligned addresses (`Init` for the
   relocated layout), runs from the interpreter entry to the halt address
   without any fault in EXACTLY THE SAME NUMBER OF STEPS `image_steps c img eh`
   (computed from the ORIGINAL image) - by the whole-image theorem applied to
   the shifted configuration, whose image is the same words (theorem above).
   `_partial`: equality of the executed instruction SEQUENCE (not only of its
   length, the structure of the run and its final state) and of the sequence of
   data offsets is not stated; the three protected variants: theorems below. *)
Theorem C07_plain_image_runs_relocated_partial : forall d, d mod 4 = 0 ->
  forall c script img,
  successful c script img -> plain c -> (uses_tramp (c_variant c) = true -> c_data_reg c <> 6) ->
  cfg_ok (shc d c) = true ->
  forall L s0, Init (shc d c) (shi d img) (Ntot c img) L s0 -> code_lo L = int_start_al c + d ->
    code_hi L - code_lo L < 2147483648 - 2048 -> pics_encodable (shi d img) ->
    (forall r o, In (r, o) int_slots -> 0 <= rget s0 r < W64) ->
    exists s' eh, map fst eh = im_elements img /\
      run (gv c) L (image_steps c img eh) s0 = (Next s', image_steps c img eh) /\ pc s' = halt_at L /\
      dom s' = 0 /\ cfi s' = [].
Proof. exact plain_image_runs_relocated. Qed.

(* the same for the three protected variants (RelocRun.v): the relocated files run to the
   halt address in exactly the number of steps computed from the ORIGINAL image *)
Theorem C07_rimiss_image_runs_relocated_partial : forall d, d mod 4 = 0 ->
  forall c script img,
  successful c script img -> c_variant c = GRimiSS -> c_data_reg c <> 6 -> cfg_ok (shc d c) = true ->
  forall L s0, Init (shc d c) (shi d img) (WholeImageRimi.rNtot c img) L s0 -> code_lo L = int_start_al c + d ->
    code_hi L - code_lo L < 2147483648 - 2048 -> pics_encodable (shi d img) ->
    WholeImageRimi.SSmax img <= zlen (im_ss img) ->
    (forall r o, In (r, o) int_slots -> 0 <= rget s0 r < W64) ->
    exists s' eh, map fst eh = im_elements img /\
      run (gv c) L (WholeImageRimi.rimage_steps img eh) s0 = (Next s', WholeImageRimi.rimage_steps img eh) /\ pc s' = halt_at L /\
      rget s' 28 = ss_hi L /\ dom s' = 0 /\ cfi s' = [].
Proof. exact rimiss_image_runs_relocated. Qed.

Theorem C07_rimifull_image_runs_relocated_partial : forall d, d mod 4 = 0 ->
  forall c script img,
  successful c script img -> c_variant c = GRimiFull -> c_data_reg c <> 6 -> cfg_ok (shc d c) = true ->
  forall L s0, Init (shc d c) (shi d img) (WholeImageRimiFull.fNtot c img) L s0 -> code_lo L = int_start_al c + d ->
    code_hi L - code_lo L < 2147483648 - 2048 -> pics_encodable (shi d img) ->
    WholeImageRimiFull.FSW img <= zlen (im_ss img) ->
    (forall r o, In (r, o) int_slots -> 0 <= rget s0 r < W64) ->
    exists s' eh, map fst eh = im_elements img /\
      run (gv c) L (WholeImageRimiFull.fimage_steps img eh) s0 = (Next s', WholeImageRimiFull.fimage_steps img eh) /\ pc s' = halt_at L /\
      rget s' 28 = ss_hi L /\ dom s' = 0 /\ cfi s' = [].
Proof. exact rimifull_image_runs_relocated. Qed.

Theorem C07_fixer_image_runs_relocated_partial : forall d, d mod 4 = 0 ->
  forall c script img,
  successful c script img -> c_variant c = GFixer -> c_data_reg c <> 6 -> cfg_ok (shc d c) = true ->
  forall L s0, Init (shc d c) (shi d img) (WholeImageFixer.xNtot c img) L s0 -> code_lo L = int_start_al c + d ->
    code_hi L - code_lo L < 2147483648 - 2048 -> pics_encodable (shi d img) ->
    (forall r o, In (r, o) int_slots -> 0 <= rget s0 r < W64) ->
    exists s' eh, map fst eh = im_elements img /\
      run (gv c) L (WholeImageFixer.ximage_steps img eh) s0 = (Next s', WholeImageFixer.ximage_steps img eh) /\ pc s' = halt_at L /\
      dom s' = 0 /\ cfi s' = [].
Proof. exact fixer_image_runs_relocated. Qed.

(* accepted configurations stay accepted under any shift that keeps the start address non-negative *)
Theorem C07_shifted_configuration_accepted : forall d c,
  cfg_ok c = true -> 0 <= c_int_start c + d -> cfg_ok (shc d c) = true.
Proof. intros d c. exact (cfg_ok_sh d c). Qed.

(* every stub is position independent: executed at ANY address A it reaches
   A + offset (the theorems quantify over A and over the whole register file) *)
Theorem C07_call_stub_relative_partial : forall v L s A off,
  in_pair_range off -> 8 <= Z.abs off -> (A + off) mod 2 = 0 -> pc s = A ->
  exists stub is,
    build_method_base_call off = OK stub /\ List.length stub = 2%nat /\
    decode_all ExtNone stub = Some is /\
    exists s', exec_at v L A is s = Next s' /\
    call_effect s s' (u64 (A + off)) (u64 (A + 8)) /\ cfi s' = cfi s /\
    (forall r, 0 <= r -> r <> 1 -> rget s' r = rget s r).
Proof. exact method_base_call_reaches. Qed.

Theorem C07_address_save_relative_partial : forall v L s A off r,
  in_pair_range off -> 8 <= Z.abs off -> 0 < r < 32 -> pc s = A ->
  exists stub is,
    build_pc_relative_reg_save off r = OK stub /\ List.length stub = 2%nat /\
    decode_all ExtNone stub = Some is /\
    exists s', exec_at v L A is s = Next s' /\
    pc s' = A + 8 /\ rget s' r = u64 (A + off) /\ mem s' = mem s /\ cfi s' = cfi s /\ dom s' = dom s /\
    (forall r', 0 <= r' -> r' <> r -> rget s' r' = rget s r').
Proof. exact reg_save_reaches. Qed.

(* fragments address memory only through sp and the shadow pointer: no
   absolute base; data is reached only through the data register (C03) *)
Theorem C07_fragment_bases_partial :
  frags_decode_ok ExtNone "base" [SP] true && frags_decode_ok ExtNone "tramp" [SP] true
  && frags_decode_ok ExtRimi "rimiss" [SP; c_RIMI_SSP_REG] false
  && frags_decode_ok ExtRimi "rimifull" [SP; c_RIMI_SSP_REG] false
  && frags_decode_ok ExtFixer "fixer" [SP] false = true.
Proof. exact fragments_well_formed. Qed.

Print Assumptions C07_generator_translation_equivariant.
Print Assumptions C07_files_do_not_depend_on_load_address.
Print Assumptions C07_plain_image_runs_relocated_partial.
Print Assumptions C07_rimiss_image_runs_relocated_partial.
Print Assumptions C07_rimifull_image_runs_relocated_partial.
Print Assumptions C07_fixer_image_runs_relocated_partial.
Print Assumptions C07_shifted_configuration_accepted.
Print Assumptions C07_call_stub_relative_partial.
Print Assumptions C07_address_save_relative_partial.
Print Assumptions C07_fragment_bases_partial.
