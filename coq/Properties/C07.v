(* Property C07 — generated code is position independent
   Statements only; every proof is `exact` of a lemma proved elsewhere.
   The FULL statement (all variants, accepted configurations, decision scripts,
   layouts and initial states) is kept visible as a Definition `..._statement`;
   what is machine-checked today is named `..._partial` (DESIGN 9, fall-back
   rule): theorems about every component the whole-image statement is made of
   (regenerated fragments by computation, stub execution on the reference
   machine for ALL offsets / addresses / states, arithmetic of the generator for
   ALL sizes), while the composition over whole images is tied by the
   byte-exact generator correspondence and judged on the reference machine. *)
From Coq Require Import ZArith List String Bool.
From Gigue Require Import Types Bits Isa Enc GenTables Builder BuilderTies Samplers Generator Machine MachineLemmas
  SplitProofs FragProofs GenLemmas ImageSem CtorSpec C12Defs C12Proofs.
Import ListNotations.
Open Scope Z_scope.


(* FULL statement: two runs of the same image at two layouts fetch the same
   sequence of image offsets. *)
Definition C07_relocation_statement : Prop :=
  forall c script img, successful c script img ->
  forall b L1 L2 s1 s2, Init c img b L1 s1 -> Init c img b L2 s2 ->
  forall n, (exists t, run (variant_of (c_variant c)) L1 n s1 = (Halt t, n)) <->
            (exists t, run (variant_of (c_variant c)) L2 n s2 = (Halt t, n)).

(* every stub is position independent: executed at ANY address A it reaches
   A + offset (the theorems quantify over A and over the whole register file) *)
Theorem C07_call_stub_relative_partial : forall v L s A off,
  in_pair_range off -> 8 <= Z.abs off -> (A + off) mod 2 = 0 -> pc s = A ->
  exists stub is,
    build_method_base_call off = OK stub /\ List.length stub = 2%nat /\
    decode_all ExtNone stub = Some is /\
    exists s', exec_at v L A is s = Next s' /\
    call_effect s s' (u64 (A + off)) (u64 (A + 8)) /\ cfi s' = cfi s /\
    (forall r, 0 <= r -> r <> 1 -> rget s' r = rget s r).
Proof. exact method_base_call_reaches. Qed.

Theorem C07_address_save_relative_partial : forall v L s A off r,
  in_pair_range off -> 8 <= Z.abs off -> 0 < r < 32 -> pc s = A ->
  exists stub is,
    build_pc_relative_reg_save off r = OK stub /\ List.length stub = 2%nat /\
    decode_all ExtNone stub = Some is /\
    exists s', exec_at v L A is s = Next s' /\
    pc s' = A + 8 /\ rget s' r = u64 (A + off) /\ mem s' = mem s /\ cfi s' = cfi s /\ dom s' = dom s /\
    (forall r', 0 <= r' -> r' <> r -> rget s' r' = rget s r').
Proof. exact reg_save_reaches. Qed.

(* fragments address memory only through sp and the shadow pointer: no
   absolute base; data is reached only through the data register (C03) *)
Theorem C07_fragment_bases_partial :
  frags_decode_ok ExtNone "base" [SP] true && frags_decode_ok ExtNone "tramp" [SP] true
  && frags_decode_ok ExtRimi "rimiss" [SP; c_RIMI_SSP_REG] false
  && frags_decode_ok ExtRimi "rimifull" [SP; c_RIMI_SSP_REG] false
  && frags_decode_ok ExtFixer "fixer" [SP] false = true.
Proof. exact fragments_well_formed. Qed.

Print Assumptions C07_call_stub_relative_partial.
Print Assumptions C07_address_save_relative_partial.
Print Assumptions C07_fragment_bases_partial.
