(* Property C08 — seeded generation is reproducible across runs, histories and
   front-ends.  Statements only.  PARTIAL by nature (DESIGN 4 C08 B): that
   CPython's random.seed(int) yields the same stream in every process, and that
   no code path reads another entropy source (clock, os.urandom, id(), hash
   randomised iteration order), cannot be exhibited by any Gallina model; those
   parts are exercised by the front-ends correspondence (subprocesses under
   several hash seeds, histories, deep snapshots of module-level state). *)
From Coq Require Import ZArith List String Bool.
From Gigue Require Import Types Bits Enc GenTables Builder Samplers Generator FrontEnds.
Import ListNotations.
Open Scope Z_scope.

(* for EVERY seed -> stream map and every type of global state *)
Theorem C08_constructor_pure : forall (globals : Type) c (p : pstate globals), construct globals c p = p.
Proof. exact constructor_pure. Qed.

Theorem C08_globals_frame : forall stream globals j (p : pstate globals),
  glob globals (snd (run_job stream globals j p)) = glob globals p.
Proof. exact globals_frame. Qed.

Theorem C08_front_ends_agree : forall stream globals c s (p p' : pstate globals),
  fst (cli stream globals c s p) = fst (runner stream globals c s p') /\
  fst (runner stream globals c s p) = fst (api stream globals c s p').
Proof. exact front_ends_agree. Qed.

Theorem C08_history_independent : forall stream globals h j (p : pstate globals),
  fst (run_job stream globals j (run_history stream globals h p)) = fst (run_job stream globals j p).
Proof. exact history_independent. Qed.

Print Assumptions C08_constructor_pure.
Print Assumptions C08_globals_frame.
Print Assumptions C08_front_ends_agree.
Print Assumptions C08_history_independent.
