(* Property C17 — measurement window and instruction accounting are exact.
   Statements only. *)
From Coq Require Import ZArith List String Ascii Bool.
From Gigue Require Import Types GenTables LogParse LogProofs C17Cover.
Import ListNotations.
Open Scope Z_scope.

(* noise lines are irrelevant: the scan depends only on the matched events *)
Theorem C17_noise_irrelevant : forall matcher sa ra ls st,
  log_lines matcher sa ra st ls = log_events sa ra st (events_of matcher ls).
Proof. exact log_lines_events. Qed.

(* For any event sequence  pre ++ [start] ++ mid ++ [ret] ++ post  with no
   fetch of the start or ret address in pre / mid (DESIGN 6.7) and any post:
   cycles = stamp(ret) - stamp(start) come from exactly those two events, and
   the instructions are start :: mid (1 + |mid| of them, ret excluded). *)
Theorem C17_window : forall sa ra seed pre es mid er post,
  sa <> ra -> 0 <= ev_cycle es -> 0 <= ev_cycle er ->
  Forall (quiet sa ra) pre -> ev_pc es = sa -> Forall (quiet sa ra) mid -> ev_pc er = ra ->
  finish_log seed (log_events sa ra init_ls (pre ++ es :: mid ++ er :: post)) =
  Ret (seed, ev_cycle es, ev_cycle er, ev_mnem es :: map ev_mnem mid).
Proof. exact window_result. Qed.

(* per-type and per-class histograms each sum to the instruction count, and
   nb_cycles is the difference of the two stamps *)
Theorem C17_histograms_sum : forall ex t tk ck d,
  parse_core_log ex t tk ck = Ret d -> e_tracing_ok d = 1 ->
  hist_sum (e_instrs_type d) = e_instrs_nb d /\ hist_sum (e_instrs_class d) = e_instrs_nb d /\
  e_nb_cycles d = e_end_cycle d - e_start_cycle d.
Proof. exact parse_core_log_sums. Qed.

(* for every isolation solution, everything the variant's generator can emit is
   classifiable by the table the runner selects (under canonical and
   pseudo-instruction names, truncated at '.' as the log regexes do) *)
Theorem C17_tables_cover :
  covers t_runner_table_base emitted_base && covers t_runner_table_tramp emitted_tramp
  && covers t_runner_table_rimiss emitted_rimiss && covers t_runner_table_rimifull emitted_rimifull
  && covers t_runner_table_fixer emitted_fixer = true.
Proof. exact all_tables_cover. Qed.

Example C17_nonvacuous :
  finish_log 7 (log_events 16 32 init_ls
     ([(1, 8, lit "li")] ++ (5, 16, lit "addi") :: [(6, 20, lit "sd"); (9, 24, lit "jal")] ++ (11, 32, lit "ret") :: [(12, 16, lit "x")]))
  = Ret (7, 5, 11, [lit "addi"; lit "sd"; lit "jal"]).
Proof. reflexivity. Qed.

Print Assumptions C17_noise_irrelevant.
Print Assumptions C17_window.
Print Assumptions C17_histograms_sum.
Print Assumptions C17_tables_cover.
