(* Property C06 — termination by construction: acyclic calls, no backward transfers
   Statements only; every proof is `exact` of a lemma proved elsewhere.
   The FULL statement (all variants, accepted configurations, decision scripts,
   layouts and initial states) is kept visible as a Definition `..._statement`;
   what is machine-checked today is named `..._partial` (DESIGN 9, fall-back
   rule): theorems about every component the whole-image statement is made of
   (regenerated fragments by computation, stub execution on the reference
   machine for ALL offsets / addresses / states, arithmetic of the generator for
   ALL sizes), while the composition over whole images is tied by the
   byte-exact generator correspondence and judged on the reference machine. *)
From Coq Require Import ZArith List String Bool.
From Gigue Require Import Types Bits Isa Enc GenTables Builder BuilderTies Samplers Generator Machine MachineLemmas
  SplitProofs FragProofs GenLemmas ImageSem CtorSpec C12Defs C12Proofs GenWF GenWFProps SliceLemmas GenWF2 GenWF3 GenWF2Props Witness.
Import ListNotations.
Open Scope Z_scope.


(* PROVED (Layer A) for every accepted configuration, decision script and
   emitted image: every callee of every method exists and has strictly smaller
   call depth; hence the call graph is acyclic - no method reaches itself
   directly or transitively.
     reaches ms a b : b is a callee of a, or reachable through callees *)
Theorem C06_calls_decrease_depth : forall c script img, successful c script img ->
  Forall (fun m => Forall (fun cal => match nth_error (im_methods img) cal with
                                      | Some cm => m_depth cm < m_depth m | None => False end) (m_callees m))
         (im_methods img).
Proof. exact calls_decrease_depth. Qed.

Theorem C06_call_graph_acyclic : forall c script img,
  successful c script img -> forall id, ~ reaches (im_methods img) id id.
Proof. exact call_graph_acyclic. Qed.

(* PROVED for every accepted configuration, decision script and emitted image
   (Layer A): every direct jump and every branch of every method instruction
   (bodies, frames, patched stubs) goes strictly forward, to pc+4 or pc+8; the
   only other control transfers of a method are the jalr of call stubs and the
   ret of the epilogue.
     forward (GJ .. imm) = forward (GB .. imm) := imm = 4 \/ imm = 8 *)
Theorem C06_no_backward_transfer : forall c script img, successful c script img ->
  Forall (fun m => Forall (fun g => forward g = true) (m_instrs m)) (im_methods img).
Proof. exact methods_forward_only. Qed.

Theorem C06_nonvacuous : exists img, successful wcfg_tramp wscript_tramp img.
Proof. exact witness_tramp. Qed.

(* callees are drawn from the buckets of strictly smaller depth: whenever the
   depth dictionary files every method under its own depth (an invariant of
   registration, next theorem), every possible callee is strictly shallower *)
Theorem C06_possible_callees_lower_partial : forall depth_of d dp id,
  depths_consistent depth_of d -> In id (possible_callees d dp) -> depth_of id < dp.
Proof. exact possible_callees_lower. Qed.

Theorem C06_registration_keeps_consistency_partial : forall depth_of d dp id,
  depths_consistent depth_of d -> depth_of id = dp -> depths_consistent depth_of (depths_add d dp id).
Proof. exact depths_add_consistent. Qed.

(* switch jumps and compare-branches go forward: the miss branch skips exactly
   the jal (+8), the hit jal goes to its case method *)
Theorem C06_switch_forward_partial : forall v L s P n moff hit cmp,
  0 < n < 2048 -> 0 < hit < 32 -> 0 < cmp < 32 -> hit <> cmp -> pc s = P -> rget s hit <> n ->
  exists s', exec_at v L P (firstn 2 (switch_decoded n moff hit cmp)) s = Next s' /\
    pc s' = u64 (P + 12) /\ mem s' = mem s /\ cfi s' = cfi s /\ dom s' = dom s /\
    (forall r, 0 <= r -> r <> cmp -> rget s' r = rget s r).
Proof. exact switch_case_miss. Qed.

Print Assumptions C06_calls_decrease_depth.
Print Assumptions C06_call_graph_acyclic.
Print Assumptions C06_no_backward_transfer.
Print Assumptions C06_nonvacuous.
Print Assumptions C06_possible_callees_lower_partial.
Print Assumptions C06_registration_keeps_consistency_partial.
Print Assumptions C06_switch_forward_partial.
