(* Property C06 — termination by construction: acyclic calls, no backward transfers
   Statements only; every proof is `exact` of a lemma proved elsewhere.
   Theorems without suffix are proved at the strength stated in their comment
   (Layer A: every accepted configuration and decision script; Layer B:
   machine-level method contracts and whole-image theorems, DESIGN 10.3).
   `..._partial` marks a theorem that covers part of a clause (its comment says
   what is missing); a `Definition ..._statement` keeps a clause visible that is
   stated but not proved.  Clauses not proved are decided on every run by the
   judges on implementation images (byte-exact generator correspondence +
   extracted reference machine). *)
From Coq Require Import ZArith List String Bool.
From Gigue Require Import Types Bits Isa Enc GenTables Builder BuilderTies Samplers Generator Machine MachineLemmas
  SplitProofs FragProofs GenLemmas ImageSem CtorSpec C12Defs C12Proofs GenWF GenWFProps SliceLemmas GenWF2 GenWF3 GenWF2Props
  GenWF5 GenWF6 MethodContract WholeImage Loader Witness LoaderWitness CallFrameRimi MethodContractRimi WholeImageRimi LoaderRimi RimiFullExec WholeImageRimiFull LoaderRimiFull GenWF9F WalkK FixerTamper FixerCall MethodContractFixer WholeImageFixer LoaderFixer.
Import ListNotations.
Open Scope Z_scope.


(* PROVED (Layer A) for every accepted configuration, decision script and
   emitted image: every callee of every method exists and has strictly smaller
   call depth; hence the call graph is acyclic - no method reaches itself
   directly or transitively.
     reaches ms a b : b is a callee of a, or reachable through callees *)
Theorem C06_calls_decrease_depth : forall c script img, successful c script img ->
  Forall (fun m => Forall (fun cal => match nth_error (im_methods img) cal with
                                      | Some cm => m_depth cm < m_depth m | None => False end) (m_callees m))
         (im_methods img).
Proof. exact calls_decrease_depth. Qed.

Theorem C06_call_graph_acyclic : forall c script img,
  successful c script img -> forall id, ~ reaches (im_methods img) id id.
Proof. exact call_graph_acyclic. Qed.

(* PROVED for every accepted configuration, decision script and emitted image
   (Layer A): every direct jump and every branch of every method instruction
   (bodies, frames, patched stubs) goes strictly forward, to pc+4 or pc+8; the
   only other control transfers of a method are the jalr of call stubs and the
   ret of the epilogue.
     forward (GJ .. imm) = forward (GB .. imm) := imm = 4 \/ imm = 8 *)
Theorem C06_no_backward_transfer : forall c script img, successful c script img ->
  Forall (fun m => Forall (fun g => forward g = true) (m_instrs m)) (im_methods img).
Proof. exact methods_forward_only. Qed.

(* PROVED (Layer B), the two variants without isolation (without / with trampolines), for every
   accepted configuration, decision script, emitted image and entry state
   (ImageSem.Init, files at the generation address; side conditions as in
   C01_base_image_from_files): THE NUMBER OF INSTRUCTIONS THE IMAGE EXECUTES IS
   FINITE AND EQUALS THE VALUE COMPUTED STATICALLY FROM THE CALL DAG AND THE
   SELECTED PIC CASES:  the machine halts at the halt address after exactly
     image_steps c img eh = 12 + sum_{(e,h) in eh} elem_cost e h + 13
   steps, where eh pairs every element of the image (in element order) with the
   hit case the interpreter loads for it.  The list eh is a STATIC datum of the
   image: the theorem fixes ONE eh before any layout or entry state is chosen
   (exists eh, forall L s0), so every run of the image - whatever the load
   state, register and data contents - executes the same number of instructions,
     elem_cost (method id) _ = 2 + steps id
     elem_cost (PIC p) h     = 3 + (2 (h-1) + 3) + steps (case h of p)
     (each plus 10 with trampolines: 2 more stub instructions, 5 + 3 trampoline instructions)
     steps id = |method id| + sum of steps over its callees  (steps_method). *)
Theorem C06_executed_count_plain : forall c script img,
  successful c script img -> plain c ->
  (uses_tramp (c_variant c) = true -> c_data_reg c <> 6) ->
  exists eh, map fst eh = im_elements img /\ Forall (fun x => hit_ok (fst x) (snd x)) eh /\
  forall L s0, Init c img (Ntot c img) L s0 -> code_lo L = int_start_al c ->
    code_hi L - code_lo L < 2147483648 - 2048 -> pics_encodable img ->
    (forall r o, In (r, o) int_slots -> 0 <= rget s0 r < W64) ->
    exists s', run (gv c) L (image_steps c img eh) s0 = (Next s', image_steps c img eh) /\ pc s' = halt_at L.
Proof.
  intros c script img Hs Hb H6.
  destruct (plain_image_from_files_static c script img Hs Hb H6) as (eh & E1 & E2 & H).
  exists eh. split; [exact E1|]. split; [exact E2|].
  intros L s0 HI Hat Hsm Hp Hr.
  destruct (H L s0 HI Hat Hsm Hp Hr) as (s' & R & P & _).
  exists s'. auto.
Qed.

(* the same for the RIMI shadow-stack variant (call chains within the shadow-stack capacity) *)
Theorem C06_executed_count_rimiss : forall c script img,
  successful c script img -> c_variant c = GRimiSS -> c_data_reg c <> 6 ->
  exists eh, map fst eh = im_elements img /\ Forall (fun x => rhit_ok (fst x) (snd x)) eh /\
  forall L s0, Init c img (rNtot c img) L s0 -> code_lo L = int_start_al c ->
    code_hi L - code_lo L < 2147483648 - 2048 -> pics_encodable img ->
    SSmax img <= zlen (im_ss img) ->
    (forall r o, In (r, o) int_slots -> 0 <= rget s0 r < W64) ->
    exists s', run (gv c) L (rimage_steps img eh) s0 = (Next s', rimage_steps img eh) /\ pc s' = halt_at L.
Proof.
  intros c script img Hs Hb H6.
  destruct (rimiss_image_from_files_static c script img Hs Hb H6) as (eh & E1 & E2 & H).
  exists eh. split; [exact E1|]. split; [exact E2|].
  intros L s0 HI Hat Hsm Hp Hc Hr.
  destruct (H L s0 HI Hat Hsm Hp Hc Hr) as (s' & R & P & _).
  exists s'. auto.
Qed.

(* the same for the RIMI full variant *)
Theorem C06_executed_count_rimifull : forall c script img,
  successful c script img -> c_variant c = GRimiFull -> c_data_reg c <> 6 ->
  exists eh, map fst eh = im_elements img /\ Forall (fun x => fhit_ok (fst x) (snd x)) eh /\
  forall L s0, Init c img (fNtot c img) L s0 -> code_lo L = int_start_al c ->
    code_hi L - code_lo L < 2147483648 - 2048 -> pics_encodable img ->
    FSW img <= zlen (im_ss img) ->
    (forall r o, In (r, o) int_slots -> 0 <= rget s0 r < W64) ->
    exists s', run (gv c) L (fimage_steps img eh) s0 = (Next s', fimage_steps img eh) /\ pc s' = halt_at L.
Proof.
  intros c script img Hs Hb H6.
  destruct (rimifull_image_from_files_static c script img Hs Hb H6) as (eh & E1 & E2 & H).
  exists eh. split; [exact E1|]. split; [exact E2|].
  intros L s0 HI Hat Hsm Hp Hc Hr.
  destruct (H L s0 HI Hat Hsm Hp Hc Hr) as (s' & R & P & _).
  exists s'. auto.
Qed.

(* the same for the FIXER variant (the trap instruction of every checked return is skipped) *)
Theorem C06_executed_count_fixer : forall c script img,
  successful c script img -> c_variant c = GFixer -> c_data_reg c <> 6 ->
  exists eh, map fst eh = im_elements img /\ Forall (fun x => xhit_ok (fst x) (snd x)) eh /\
  forall L s0, Init c img (xNtot c img) L s0 -> code_lo L = int_start_al c ->
    code_hi L - code_lo L < 2147483648 - 2048 -> pics_encodable img ->
    (forall r o, In (r, o) int_slots -> 0 <= rget s0 r < W64) ->
    exists s', run (gv c) L (ximage_steps img eh) s0 = (Next s', ximage_steps img eh) /\ pc s' = halt_at L.
Proof.
  intros c script img Hs Hb H6.
  destruct (fixer_image_from_files_static c script img Hs Hb H6) as (eh & E1 & E2 & H).
  exists eh. split; [exact E1|]. split; [exact E2|].
  intros L s0 HI Hat Hsm Hp Hr.
  destruct (H L s0 HI Hat Hsm Hp Hr) as (s' & R & P & _).
  exists s'. auto.
Qed.

(* the per-method count is ImageSem.count_method (the quantity the dynamic judge
   computes from the structured image), for the non-FIXER variants *)
Theorem C06_steps_is_static_count : forall c script img,
  successful c script img -> non_fixer (c_variant c) ->
  forall f id, Z.of_nat (steps_method (im_methods img) f id) = count_method c (im_methods img) f id.
Proof.
  intros c script img Hs Hnf. apply steps_method_count; [exact Hnf|].
  destruct (successful_wf c script img Hs) as [W _]. destruct (iw_layout c img W) as (e' & d & HP).
  apply (Forall_len_total c). apply (p2_methods _ _ _ _ _ _ HP).
Qed.

(* PROVED (Layer B), plain variants: every method, entered as in
   C01_every_method_returns_partial, takes EXACTLY steps_method machine steps -
   whatever the register and data contents. *)
Theorem C06_method_steps_partial : forall c script img,
  successful c script img -> plain c ->
  forall L, placed c img L ->
  forall id m, nth_error (im_methods img) id = Some m ->
  contract c img L (need_method c (im_methods img) (max_depth (im_methods img)) id)
           (steps_method (im_methods img) (max_depth (im_methods img)) id) m.
Proof. exact every_method_returns. Qed.

Theorem C06_nonvacuous : exists img, successful wcfg_tramp wscript_tramp img.
Proof. exact witness_tramp. Qed.

(* callees are drawn from the buckets of strictly smaller depth: whenever the
   depth dictionary files every method under its own depth (an invariant of
   registration, next theorem), every possible callee is strictly shallower *)
Theorem C06_possible_callees_lower_partial : forall depth_of d dp id,
  depths_consistent depth_of d -> In id (possible_callees d dp) -> depth_of id < dp.
Proof. exact possible_callees_lower. Qed.

Theorem C06_registration_keeps_consistency_partial : forall depth_of d dp id,
  depths_consistent depth_of d -> depth_of id = dp -> depths_consistent depth_of (depths_add d dp id).
Proof. exact depths_add_consistent. Qed.

(* switch jumps and compare-branches go forward: the miss branch skips exactly
   the jal (+8), the hit jal goes to its case method *)
Theorem C06_switch_forward_partial : forall v L s P n moff hit cmp,
  0 < n < 2048 -> 0 < hit < 32 -> 0 < cmp < 32 -> hit <> cmp -> pc s = P -> rget s hit <> n ->
  exists s', exec_at v L P (firstn 2 (switch_decoded n moff hit cmp)) s = Next s' /\
    pc s' = u64 (P + 12) /\ mem s' = mem s /\ cfi s' = cfi s /\ dom s' = dom s /\
    (forall r, 0 <= r -> r <> cmp -> rget s' r = rget s r).
Proof. exact switch_case_miss. Qed.

Print Assumptions C06_calls_decrease_depth.
Print Assumptions C06_call_graph_acyclic.
Print Assumptions C06_no_backward_transfer.
Print Assumptions C06_executed_count_plain.
Print Assumptions C06_executed_count_rimiss.
Print Assumptions C06_executed_count_rimifull.
Print Assumptions C06_executed_count_fixer.
Print Assumptions C06_steps_is_static_count.
Print Assumptions C06_method_steps_partial.
Print Assumptions C06_nonvacuous.
Print Assumptions C06_possible_callees_lower_partial.
Print Assumptions C06_registration_keeps_consistency_partial.
Print Assumptions C06_switch_forward_partial.
