(* Property C02 — calling convention: SP, callee-saved and reserved registers, frames
   Statements only; every proof is `exact` of a lemma proved elsewhere.
   The FULL statement (all variants, accepted configurations, decision scripts,
   layouts and initial states) is kept visible as a Definition `..._statement`;
   what is machine-checked today is named `..._partial` (DESIGN 9, fall-back
   rule): theorems about every component the whole-image statement is made of
   (regenerated fragments by computation, stub execution on the reference
   machine for ALL offsets / addresses / states, arithmetic of the generator for
   ALL sizes), while the composition over whole images is tied by the
   byte-exact generator correspondence and judged on the reference machine. *)
From Coq Require Import ZArith List String Bool.
From Gigue Require Import Types Bits Isa Enc GenTables Builder BuilderTies Samplers Generator Machine MachineLemmas
  SplitProofs FragProofs GenLemmas ImageSem CtorSpec C12Defs C12Proofs GenWF GenWFProps Witness.
Import ListNotations.
Open Scope Z_scope.


Definition callee_saved_and_reserved (c : config) : list Z :=
  2 :: c_CALLEE_SAVED_REG ++ [c_data_reg c] ++
  (match c_variant c with GRimiSS | GRimiFull => [c_special_reg c] | _ => [] end).

(* FULL statement (register part): at the halt, sp, s0-s11, the data register
   and (RIMI) the shadow pointer hold their entry values, for arbitrary initial
   register and stack contents. *)
Definition C02_registers_restored_statement : Prop :=
  forall c script img, successful c script img ->
  forall bound L s0, Init c img bound L s0 ->
  forall n s1, run (variant_of (c_variant c)) L n s0 = (Halt s1, n) ->
  Forall (fun r => rget s1 r = rget s0 r) (callee_saved_and_reserved c).

(* PROVED (Layer A) for every accepted configuration, decision script and
   emitted image: no instruction of any method has the data-base register as
   its destination (so the register holds its entry value throughout). *)
Theorem C02_data_reg_never_written : forall c script img, successful c script img ->
  Forall (fun m => Forall (fun g => mem_discipline c g = true /\ negb (dest_of g =? c_data_reg c) = true)
                          (m_instrs m)) (im_methods img).
Proof. exact methods_access_discipline. Qed.

(* every prologue / epilogue pair of the five variants (leaf, call-making and
   interpreter): one allocation, one release, equal amounts; the same
   (register, slot) pairs saved and restored; every slot 8-aligned inside the
   frame; sp written by nothing else; epilogues end with ret *)
Theorem C02_frames_symmetric_partial :
  frames_ok ExtNone f_base_pro_leaf f_base_pro_call f_base_epi_leaf f_base_epi_call f_base_int_pro f_base_int_epi
  && frames_ok ExtNone f_tramp_pro_leaf f_tramp_pro_call f_tramp_epi_leaf f_tramp_epi_call f_tramp_int_pro f_tramp_int_epi
  && frames_ok ExtRimi f_rimiss_pro_leaf f_rimiss_pro_call f_rimiss_epi_leaf f_rimiss_epi_call f_rimiss_int_pro f_rimiss_int_epi
  && frames_ok ExtRimi f_rimifull_pro_leaf f_rimifull_pro_call f_rimifull_epi_leaf f_rimifull_epi_call f_rimifull_int_pro f_rimifull_int_epi
  && frames_ok ExtFixer f_fixer_pro_leaf f_fixer_pro_call f_fixer_epi_leaf f_fixer_epi_call f_fixer_int_pro f_fixer_int_epi
  = true.
Proof. exact all_frames_symmetric. Qed.

(* the call / return trampoline pair pushes and pops one 8-byte slot *)
Theorem C02_trampoline_frames_partial :
  with_frag ExtNone f_tramp_tramp_call (fun c => with_frag ExtNone f_tramp_tramp_ret (fun r => frame_symmetric c r) false) false
  && with_frag ExtRimi f_rimiss_tramp_call (fun c => with_frag ExtRimi f_rimiss_tramp_ret (fun r => frame_symmetric c r) false) false
  && with_frag ExtFixer f_fixer_tramp_call (fun c => with_frag ExtFixer f_fixer_tramp_ret (fun r => frame_symmetric c r) false) false
  = true.
Proof. exact trampoline_frames. Qed.

(* random bodies draw their destination registers from lists that exclude sp,
   ra, x0, every callee-saved register, the data register and the variant's
   reserved register *)
Theorem C02_reserved_registers_filtered_partial :
  forallb (fun a => not_in c_DATA_REG (ga_registers a) && not_in c_SP (ga_registers a) && not_in c_RA (ga_registers a)
                    && not_in c_X0 (ga_registers a)
                    && forallb (fun s => not_in s (ga_registers a)) c_CALLEE_SAVED_REG)
          [ga_base; ga_tramp; ga_rimiss; ga_rimifull; ga_fixer]
  && not_in c_RIMI_SSP_REG (ga_registers ga_rimiss) && not_in c_RIMI_SSP_REG (ga_registers ga_rimifull)
  && not_in c_FIXER_CMP_REG (ga_registers ga_fixer) = true.
Proof. exact reserved_registers_filtered. Qed.

(* call stubs leave every register but ra (and the PIC hit register) untouched
   and do not write memory: method calls, for all offsets, addresses, states *)
Theorem C02_call_stub_frame_partial : forall v L s A off,
  in_pair_range off -> 8 <= Z.abs off -> (A + off) mod 2 = 0 -> pc s = A ->
  exists stub is,
    build_method_base_call off = OK stub /\ List.length stub = 2%nat /\
    decode_all ExtNone stub = Some is /\
    exists s', exec_at v L A is s = Next s' /\
    call_effect s s' (u64 (A + off)) (u64 (A + 8)) /\ cfi s' = cfi s /\
    (forall r, 0 <= r -> r <> 1 -> rget s' r = rget s r).
Proof. exact method_base_call_reaches. Qed.

Print Assumptions C02_data_reg_never_written.
Print Assumptions C02_frames_symmetric_partial.
Print Assumptions C02_trampoline_frames_partial.
Print Assumptions C02_reserved_registers_filtered_partial.
Print Assumptions C02_call_stub_frame_partial.
