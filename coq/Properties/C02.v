(* Property C02 — calling convention: SP, callee-saved and reserved registers, frames
   Statements only; every proof is `exact` of a lemma proved elsewhere.
   Theorems without suffix are proved at the strength stated in their comment
   (Layer A: every accepted configuration and decision script; Layer B:
   machine-level method contracts and whole-image theorems, DESIGN 10.3).
   `..._partial` marks a theorem that covers part of a clause (its comment says
   what is missing); a `Definition ..._statement` keeps a clause visible that is
   stated but not proved.  Clauses not proved are decided on every run by the
   judges on implementation images (byte-exact generator correspondence +
   extracted reference machine). *)
From Coq Require Import ZArith List String Bool.
From Gigue Require Import Types Bits Isa Enc GenTables Builder BuilderTies Samplers Generator Machine MachineLemmas
  SplitProofs FragProofs GenLemmas ImageSem CtorSpec C12Defs C12Proofs GenWF GenWFProps SliceLemmas FloatSign GenWF2 BodyExec BodyBridge GenWF5 FrameExec CodeMem SwitchExec GenWF6 GenWF8 GenWF9 Walk CallFrame MethodContract CallFrameRimi MethodContractRimi Witness.
Import ListNotations.
Open Scope Z_scope.


Definition callee_saved_and_reserved (c : config) : list Z :=
  2 :: c_CALLEE_SAVED_REG ++ [c_data_reg c] ++
  (match c_variant c with GRimiSS | GRimiFull => [c_special_reg c] | _ => [] end).

(* FULL statement (register part): at the halt, sp, s0-s11, the data register
   and (RIMI) the shadow pointer hold their entry values, for arbitrary initial
   register and stack contents. *)
Definition C02_registers_restored_statement : Prop :=
  forall c script img, successful c script img ->
  forall bound L s0, Init c img bound L s0 ->
  forall n s1, run (variant_of (c_variant c)) L n s0 = (Halt s1, n) ->
  Forall (fun r => rget s1 r = rget s0 r) (callee_saved_and_reserved c).

(* PROVED (Layer A) for every accepted configuration, decision script and
   emitted image: no instruction of any method has the data-base register as
   its destination (so the register holds its entry value throughout). *)
Theorem C02_data_reg_never_written : forall c script img, successful c script img ->
  Forall (fun m => Forall (fun g => mem_discipline c g = true /\ negb (dest_of g =? c_data_reg c) = true)
                          (m_instrs m)) (im_methods img).
Proof. exact methods_access_discipline. Qed.

(* every prologue / epilogue pair of the five variants (leaf, call-making and
   interpreter): one allocation, one release, equal amounts; the same
   (register, slot) pairs saved and restored; every slot 8-aligned inside the
   frame; sp written by nothing else; epilogues end with ret *)
Theorem C02_frames_symmetric_partial :
  frames_ok ExtNone f_base_pro_leaf f_base_pro_call f_base_epi_leaf f_base_epi_call f_base_int_pro f_base_int_epi
  && frames_ok ExtNone f_tramp_pro_leaf f_tramp_pro_call f_tramp_epi_leaf f_tramp_epi_call f_tramp_int_pro f_tramp_int_epi
  && frames_ok ExtRimi f_rimiss_pro_leaf f_rimiss_pro_call f_rimiss_epi_leaf f_rimiss_epi_call f_rimiss_int_pro f_rimiss_int_epi
  && frames_ok ExtRimi f_rimifull_pro_leaf f_rimifull_pro_call f_rimifull_epi_leaf f_rimifull_epi_call f_rimifull_int_pro f_rimifull_int_epi
  && frames_ok ExtFixer f_fixer_pro_leaf f_fixer_pro_call f_fixer_epi_leaf f_fixer_epi_call f_fixer_int_pro f_fixer_int_epi
  = true.
Proof. exact all_frames_symmetric. Qed.

(* the call / return trampoline pair pushes and pops one 8-byte slot *)
Theorem C02_trampoline_frames_partial :
  with_frag ExtNone f_tramp_tramp_call (fun c => with_frag ExtNone f_tramp_tramp_ret (fun r => frame_symmetric c r) false) false
  && with_frag ExtRimi f_rimiss_tramp_call (fun c => with_frag ExtRimi f_rimiss_tramp_ret (fun r => frame_symmetric c r) false) false
  && with_frag ExtFixer f_fixer_tramp_call (fun c => with_frag ExtFixer f_fixer_tramp_ret (fun r => frame_symmetric c r) false) false
  = true.
Proof. exact trampoline_frames. Qed.

(* random bodies draw their destination registers from lists that exclude sp,
   ra, x0, every callee-saved register, the data register and the variant's
   reserved register *)
Theorem C02_reserved_registers_filtered_partial :
  forallb (fun a => not_in c_DATA_REG (ga_registers a) && not_in c_SP (ga_registers a) && not_in c_RA (ga_registers a)
                    && not_in c_X0 (ga_registers a)
                    && forallb (fun s => not_in s (ga_registers a)) c_CALLEE_SAVED_REG)
          [ga_base; ga_tramp; ga_rimiss; ga_rimifull; ga_fixer]
  && not_in c_RIMI_SSP_REG (ga_registers ga_rimiss) && not_in c_RIMI_SSP_REG (ga_registers ga_rimifull)
  && not_in c_FIXER_CMP_REG (ga_registers ga_fixer) = true.
Proof. exact reserved_registers_filtered. Qed.

(* call stubs leave every register but ra (and the PIC hit register) untouched
   and do not write memory: method calls, for all offsets, addresses, states *)
Theorem C02_call_stub_frame_partial : forall v L s A off,
  in_pair_range off -> 8 <= Z.abs off -> (A + off) mod 2 = 0 -> pc s = A ->
  exists stub is,
    build_method_base_call off = OK stub /\ List.length stub = 2%nat /\
    decode_all ExtNone stub = Some is /\
    exists s', exec_at v L A is s = Next s' /\
    call_effect s s' (u64 (A + off)) (u64 (A + 8)) /\ cfi s' = cfi s /\
    (forall r, 0 <= r -> r <> 1 -> rget s' r = rget s r).
Proof. exact method_base_call_reaches. Qed.

(* PROVED (Layer B, leaf methods; GenWF6 / FrameExec / CodeMem / BodyExec /
   BodyBridge) for the four non-FIXER variants, every accepted configuration,
   decision script and emitted image: take any method without call sites; put
   its EMITTED WORDS anywhere 4-aligned in the code region (RIMI full: on the JIT
   side, in the JIT domain), the data section and the stack anywhere disjoint
   from the code, enter at its first instruction with ANY register contents such
   that the data register holds the data base and sp is 8-aligned with its
   24-byte frame inside the stack region: the reference machine - fetching,
   decoding (independent decoder) and executing those bytes - makes exactly
   |method| steps without any fault and arrives at ra (low bit cleared) with
   sp, s0, the data register and every other non-usable register equal to
   their entry values, dom and the CFI stack unchanged, and memory untouched
   outside the data image and the method's own frame slot [sp-24, sp-16).
   `_partial`: methods without call sites only; the induction along the call
   graph (call stubs + callee contracts), PICs, trampolines and the interpreter
   loop are not composed. *)
Theorem C02_leaf_methods_contract_partial : forall c script img,
  successful c script img -> non_fixer (c_variant c) ->
  Forall (fun m => m_depth m = 0 -> m_calls m = 0 ->
    forall L s,
      let A := pc s in let n := List.length (m_instrs m) in let S := rget s 2 in
      CodeMem.regions_ok L -> placement c L -> stack_placement L ->
      CodeMem.code_at (mem s) A (map generate (m_instrs m)) ->
      A mod 4 = 0 -> code_lo L <= A -> A + 4 * Z.of_nat n <= code_hi L -> A + 4 * Z.of_nat n < W64 ->
      (halt_at L < A \/ A + 4 * Z.of_nat n <= halt_at L) ->
      CodeMem.side_ok (gv c) L A (Z.of_nat n) (dom s) ->
      env_ok (gv c) L (c_data_reg c) s ->
      S mod 8 = 0 -> 24 <= S < W64 -> stk_lo L <= S - 24 -> S <= stk_hi L -> 0 <= rget s 8 < W64 ->
      exists s', run (gv c) L n s = (Next s', n) /\
        pc s' = (u64 (rget s 1 + 0) / 2) * 2 /\
        (forall r, 0 <= r -> wr c r = false -> rget s' r = rget s r) /\
        same_outside L (dsz c) s s' S /\ dom s' = dom s /\ cfi s' = cfi s /\
        env_ok (gv c) L (c_data_reg c) s')
    (im_methods img).
Proof. exact leaf_methods_run. Qed.

(* PROVED (Layer B, the method contract along the call graph; MethodContract /
   Walk / CallFrame / GenWF9 + the pieces above) for the two variants without
   isolation (with and without trampolines), every accepted configuration,
   decision script and emitted image, every placement of the image in a code
   region smaller than 2 GiB with the data section and the stack disjoint from
   it:  EVERY method of the image - whatever its call depth - entered at its
   first instruction with the image's words loaded at the recorded addresses,
   any register contents such that the data register holds the data base, sp
   8-aligned with  need  bytes of stack below it (need = the bound computed from
   the call DAG, ImageSem.need_method):
     - the reference machine, fetching and decoding the emitted bytes, executes
       the method AND, RECURSIVELY, ALL ITS CALLEES without any fault and
       returns to ra (low bit cleared);
     - sp, s0, ra, the data register and every register outside the usable list
       hold their entry values at the return;
     - memory is unchanged outside the data image and outside the stack window
       [sp - need, sp): total stack use never exceeds the DAG bound;
     - dom and the CFI stack are unchanged.
   Proof: induction on the call depth; a method that makes calls is walked
   position by position (random instruction: one step; call site: call edge,
   callee contract, return two positions later), between its frame prologue and
   epilogue.  `_partial`: plain variants only (RIMI shadow-stack frames and FIXER
   tagged calls are not composed), PIC switches (C05_pic_dispatch), trampolines
   and the interpreter loop are not composed into a whole-image run. *)
Theorem C02_every_method_contract_partial : forall c script img,
  successful c script img -> plain c ->
  forall L, placed c img L ->
  forall id m, nth_error (im_methods img) id = Some m ->
  contract c img L (need_method c (im_methods img) (max_depth (im_methods img)) id)
           (steps_method (im_methods img) (max_depth (im_methods img)) id) m.
Proof. exact every_method_returns. Qed.

(* PROVED (Layer B), both RIMI variants: the method contract along the call graph
   with the return addresses on the shadow stack (statement and reading:
   Properties/C09.v, C09_every_rimi_method_contract_partial): every method of
   every image returns to its caller without any fault in exactly steps_method
   steps; sp, s0, ra, t3, the data register and every non-usable register are
   restored; memory changes only in the data image, the main-stack window
   [sp - need, sp) and the shadow window [t3 - ss_need, t3). *)
Theorem C02_every_rimi_method_contract_partial : forall c script img,
  successful c script img -> rimi c ->
  forall L, rplaced c img L ->
  forall id m, nth_error (im_methods img) id = Some m ->
  rcontract c img L (need_method c (im_methods img) (max_depth (im_methods img)) id)
            (ss_need (im_methods img) (max_depth (im_methods img)) id)
            (steps_method (im_methods img) (max_depth (im_methods img)) id) m.
Proof. exact every_rimi_method_returns. Qed.

Print Assumptions C02_every_rimi_method_contract_partial.
Print Assumptions C02_every_method_contract_partial.
Print Assumptions C02_leaf_methods_contract_partial.
Print Assumptions C02_data_reg_never_written.
Print Assumptions C02_frames_symmetric_partial.
Print Assumptions C02_trampoline_frames_partial.
Print Assumptions C02_reserved_registers_filtered_partial.
Print Assumptions C02_call_stub_frame_partial.
