(* Property C09 — RIMI: return addresses live only on the shadow stack
   Statements only; every proof is `exact` of a lemma proved elsewhere.
   Theorems without suffix are proved at the strength stated in their comment
   (Layer A: every accepted configuration and decision script; Layer B:
   machine-level method contracts and whole-image theorems, DESIGN 10.3).
   `..._partial` marks a theorem that covers part of a clause (its comment says
   what is missing); a `Definition ..._statement` keeps a clause visible that is
   stated but not proved.  Clauses not proved are decided on every run by the
   judges on implementation images (byte-exact generator correspondence +
   extracted reference machine). *)
From Coq Require Import ZArith List String Bool.
From Gigue Require Import Types Bits Isa Enc GenTables Builder BuilderTies Samplers Generator Machine MachineLemmas
  SplitProofs FragProofs GenLemmas ImageSem CtorSpec C12Defs C12Proofs GenWF GenWFProps
  BodyExec FrameExec CodeMem GenWF5 GenWF6 CallFrame MethodContract CallFrameRimi MethodContractRimi SaveRestore TrampExec TrampsInv TrampStubs WholeImage Loader
  WholeImageRimi LoaderRimi RimiFullExec WholeImageRimiFull LoaderRimiFull Witness LoaderWitness LoaderWitnessRimi GenWF3.
Import ListNotations.
Open Scope Z_scope.


(* PROVED for both RIMI variants, every accepted configuration, decision script
   and emitted image (Layer A): no instruction of any JIT method stores ra
   through sp or loads ra through sp - by any store / load mnemonic.
     ra_on_main (GS _ .. rs1 rs2 _) := rs1 = sp /\ rs2 = ra
     ra_on_main (GI name .. rd rs1 _) := is_any_load name /\ rd = ra /\ rs1 = sp *)
Theorem C09_no_ra_on_main_stack : forall c script img, successful c script img ->
  (c_variant c = GRimiSS \/ c_variant c = GRimiFull) ->
  Forall (fun m => Forall (fun g => ra_on_main g = false) (m_instrs m)) (im_methods img).
Proof. exact rimi_methods_no_ra_on_main. Qed.

(* PROVED (Layer B), both RIMI variants: THE METHOD CONTRACT ALONG THE CALL GRAPH
   (MethodContractRimi.every_rimi_method_returns).  For every accepted
   configuration, decision script and emitted image, with the image's words
   loaded at the recorded addresses (code region < 2 GiB; data, stack and
   shadow-stack regions pairwise disjoint and disjoint from it; methods on the
   JIT side), EVERY method, of any call depth, entered at its first instruction
   with sp 8-aligned and need_method bytes of main stack below it, t3 8-aligned
   with ss_need bytes of shadow stack below it (8 per call-making method on the
   deepest chain below this method: "within its capacity"), in the JIT domain for
   RIMI full, is executed by the machine - fetching and decoding the emitted
   bytes - with, recursively, all its callees, WITHOUT ANY FAULT, in exactly
   steps_method steps, and returns to ra:
     - call-making methods push ra with sst through t3 and pop it with lst: the
       pushes and pops are LIFO-matched, ONE slot per live call-making method,
       all inside the shadow window [t3 - ss_need, t3) (the machine's AShadow
       accessor faults outside the shadow region: no fault occurs);
     - t3 (not a usable register: `wr c 28 = false`), sp, s0, ra, the data
       register and every non-usable register hold their entry values on return;
     - memory changes only inside the data image, the main-stack window
       [sp - need, sp) and the shadow window; dom and the CFI stack unchanged.
   No return address of a JIT method is written to or read from the main stack
   (C09_no_ra_on_main_stack); the return target of a call-making method is the
   content of its shadow slot (next theorem).
   `_partial`: the interpreter loop / trampolines are not composed (whole image),
   and the corruption clause is stated for one return (next theorem), not as a
   two-run statement. *)
Theorem C09_every_rimi_method_contract_partial : forall c script img,
  successful c script img -> rimi c ->
  forall L, rplaced c img L ->
  forall id m, nth_error (im_methods img) id = Some m ->
  rcontract c img L (need_method c (im_methods img) (max_depth (im_methods img)) id)
            (ss_need (im_methods img) (max_depth (im_methods img)) id)
            (steps_method (im_methods img) (max_depth (im_methods img)) id) m.
Proof. exact every_rimi_method_returns. Qed.

(* PROVED (machine level, every state): the return of a RIMI call-making method
       ld s0,0(sp) ; addi sp,sp,24 ; lst ra,0(t3) ; addi t3,t3,8 ; ret
   goes to the content `rae` of its SHADOW slot, whatever the main stack holds
   (the only main-stack value read is the s0 slot, which does not influence
   control): corrupting the method's main-stack frame cannot redirect its return. *)
Theorem C09_return_target_is_shadow_slot_partial : forall v L,
  (code_hi L <= stk_lo L \/ stk_hi L <= code_lo L) -> (code_hi L <= ss_lo L \/ ss_hi L <= code_lo L) ->
  forall s A S P s0e rae,
  pc s = A -> rget s 2 = S - 24 -> rget s 28 = P - 8 ->
  S mod 8 = 0 -> 24 <= S < W64 -> stk_lo L <= S - 24 -> S <= stk_hi L ->
  P mod 8 = 0 -> 8 <= P < W64 -> ss_lo L <= P - 8 -> P <= ss_hi L ->
  load_bytes (mem s) (S - 24) 8 = s0e -> load_bytes (mem s) (P - 8) 8 = rae ->
  0 <= s0e < W64 -> 0 <= rae < W64 ->
  exists s', exec_at v L A rimi_call_epi s = Next s' /\ pc s' = (u64 (rae + 0) / 2) * 2 /\
    rget s' 2 = S /\ rget s' 28 = P /\ rget s' 8 = s0e /\ rget s' 1 = rae /\
    (forall r, 0 <= r -> r <> 1 -> r <> 2 -> r <> 8 -> r <> 28 -> rget s' r = rget s r) /\
    mem s' = mem s /\ dom s' = dom s /\ cfi s' = cfi s.
Proof. exact rimi_call_epi_exec. Qed.

(* PROVED (Layer B), both RIMI variants, every accepted configuration, decision script and
   emitted image, EVERY CALL-MAKING METHOD of any call depth, every placement and entry state
   as in C09_every_rimi_method_contract_partial: CORRUPTING THE MAIN-STACK FRAME DOES NOT CHANGE
   THE METHOD'S CONTROL FLOW.  Let idx be the positions of the method's call stubs.  For EVERY
   position p of the method's own body that is not the second instruction of a stub - before /
   after each of its own instructions, immediately before each call, immediately after each
   return from a callee - the untampered run reaches p after some k steps.  If AT THAT MOMENT
   the method's own 24-byte main-stack frame [S - 24, S) is overwritten ARBITRARILY (any memory
   mem' that agrees with the current one outside the frame; the saved-s0 slot must still read as a
   64-bit value), the continued run - the rest of the body, every callee still to be called with
   all its callees, the epilogue - takes EXACTLY as many steps as the untampered continuation and
   returns to the SAME address, the one saved on the shadow stack; the shadow-stack pointer, sp
   and ra are back at their entry values.
   `_partial`: this is the method's own activation up to and including its return (length and
   target of the run, not the pc sequence itself, which Walk does not record); what the CALLER
   does afterwards with a corrupted s0, and corruption of a caller's frame while a callee runs,
   are not covered - they are decided on implementation images by the corruption judge. *)
Theorem C09_frame_corruption_keeps_control_flow_partial : forall c script img,
  successful c script img -> rimi c ->
  forall L, rplaced c img L ->
  forall id m, nth_error (im_methods img) id = Some m -> m_is_leaf m = false ->
  forall s, rcode_loaded img s -> pc s = m_addr m -> env_ok (gv c) L (c_data_reg c) s ->
    let N := need_method c (im_methods img) (max_depth (im_methods img)) id in
    let SSN := ss_need (im_methods img) (max_depth (im_methods img)) id in
    let S := rget s 2 in let P := rget s 28 in
    S mod 8 = 0 -> N <= S < W64 -> stk_lo L <= S - N -> S <= stk_hi L ->
    P mod 8 = 0 -> SSN <= P < W64 -> ss_lo L <= P - SSN -> P <= ss_hi L ->
    0 <= rget s 8 < W64 -> 0 <= rget s 1 < W64 ->
    exists idx, Forall2 (site_ok c (im_methods img) m) idx (m_callees m) /\
    forall p : nat, (p <= Z.to_nat (m_body m))%nat ->
      (forall i, In i idx -> p <> (Z.to_nat i - 4 + 1)%nat) ->
      exists k sk, run (gv c) L k s = (Next sk, k) /\ pc sk = m_addr m + 4 * (4 + Z.of_nat p) /\
        forall mem', (forall a, a < S - 24 \/ S <= a -> mget mem' a = mget (mem sk) a) ->
          0 <= load_bytes mem' (S - 24) 8 < W64 ->
          exists n s1 s2, run (gv c) L n sk = (Next s1, n) /\ run (gv c) L n (set_mem sk mem') = (Next s2, n) /\
            pc s1 = (u64 (rget s 1 + 0) / 2) * 2 /\ pc s2 = pc s1 /\
            rget s2 28 = P /\ rget s2 2 = S /\ rget s2 1 = rget s 1.
Proof. exact every_rimi_method_frame_corruption. Qed.

(* its hypotheses are met by a concrete machine state: a method of the RIMI witness image that
   has callees, the image loaded word by word *)
Theorem C09_frame_corruption_nonvacuous :
  nth_error (im_methods wimg_r) wid_r = Some wm_r /\ m_is_leaf wm_r = false /\ m_callees wm_r <> [] /\ 0 < m_body wm_r /\
  rimi wcfg_rimiss /\ rplaced wcfg_rimiss wimg_r wL_r /\ rcode_loaded wimg_r ws1_r /\ pc ws1_r = m_addr wm_r /\
  env_ok (gv wcfg_rimiss) wL_r (c_data_reg wcfg_rimiss) ws1_r /\
  (let N := need_method wcfg_rimiss (im_methods wimg_r) (max_depth (im_methods wimg_r)) wid_r in
   let SSN := ss_need (im_methods wimg_r) (max_depth (im_methods wimg_r)) wid_r in
   let S := rget ws1_r 2 in let P := rget ws1_r 28 in
   S mod 8 = 0 /\ N <= S < W64 /\ stk_lo wL_r <= S - N /\ S <= stk_hi wL_r /\
   P mod 8 = 0 /\ SSN <= P < W64 /\ ss_lo wL_r <= P - SSN /\ P <= ss_hi wL_r) /\
  0 <= rget ws1_r 8 < W64 /\ 0 <= rget ws1_r 1 < W64.
Proof. exact rimi_frame_corruption_nonvacuous. Qed.

(* PROVED (Layer B), RIMI shadow-stack variant, WHOLE IMAGE over the emitted files
   (LoaderRimi.rimiss_image_from_files): from ImageSem.Init - t3 at the top of the
   emitted shadow-stack image - and for call chains within its capacity
   (SSmax img <= |ss.bin|), the whole run (interpreter loop, trampolines, PIC
   dispatch, every method with its callees) ends at the halt address with t3 BACK AT
   ITS ENTRY VALUE (`rget s' 28 = ss_hi L`), every shadow push / pop inside the
   window [ss_hi - SSmax, ss_hi) of the emitted image (a shadow access outside the
   shadow region is a machine fault; none occurs), and no JIT return address on
   the main stack (C09_no_ra_on_main_stack). *)
Theorem C09_rimiss_whole_image : forall c script img,
  successful c script img -> c_variant c = GRimiSS -> c_data_reg c <> 6 ->
  forall L s0, Init c img (rNtot c img) L s0 -> code_lo L = int_start_al c ->
    code_hi L - code_lo L < 2147483648 - 2048 -> pics_encodable img ->
    SSmax img <= zlen (im_ss img) ->
    (forall r o, In (r, o) int_slots -> 0 <= rget s0 r < W64) ->
    exists s' eh, map fst eh = im_elements img /\ Forall (fun x => rhit_ok (fst x) (snd x)) eh /\
      run (gv c) L (rimage_steps img eh) s0 = (Next s', rimage_steps img eh) /\ pc s' = halt_at L /\
      (forall r, 0 <= r -> wr c r = false -> ~ rclob c r -> rget s' r = rget s0 r) /\
      rget s' 28 = ss_hi L /\
      rmem_frame c L s0 s' (stk_hi L - rNtot c img) (stk_hi L) (ss_hi L - SSmax img) (ss_hi L) /\ dom s' = 0 /\ cfi s' = [].
Proof. exact rimiss_image_from_files. Qed.

(* the same for RIMI full, where the interpreter's return point is on the shadow stack
   as well (one more slot: FSW = SSmax + 8) *)
Theorem C09_rimifull_whole_image : forall c script img,
  successful c script img -> c_variant c = GRimiFull -> c_data_reg c <> 6 ->
  forall L s0, Init c img (fNtot c img) L s0 -> code_lo L = int_start_al c ->
    code_hi L - code_lo L < 2147483648 - 2048 -> pics_encodable img ->
    FSW img <= zlen (im_ss img) ->
    (forall r o, In (r, o) int_slots -> 0 <= rget s0 r < W64) ->
    exists s' eh, map fst eh = im_elements img /\ Forall (fun x => fhit_ok (fst x) (snd x)) eh /\
      run (gv c) L (fimage_steps img eh) s0 = (Next s', fimage_steps img eh) /\ pc s' = halt_at L /\
      (forall r, 0 <= r -> wr c r = false -> ~ fclob c r -> rget s' r = rget s0 r) /\
      rget s' 28 = ss_hi L /\
      rmem_frame c L s0 s' (stk_hi L - fNtot c img) (stk_hi L) (ss_hi L - FSW img) (ss_hi L) /\ dom s' = 0 /\ cfi s' = [].
Proof. exact rimifull_image_from_files. Qed.

Theorem C09_nonvacuous :
  (exists img, successful wcfg_rimiss wscript_rimiss img) /\ (exists img, successful wcfg_rimifull wscript_rimifull img).
Proof. exact (conj witness_rimiss witness_rimifull). Qed.

(* prologues / epilogues of both RIMI variants never spill ra to the main
   stack; call-making methods push / pop it through the shadow pointer, which
   moves only in matched 8-byte steps; the RIMI-full trampolines keep the
   interpreter's ra on the shadow stack as well *)
Theorem C09_shadow_discipline_partial :
  rimi_method_frags_ok f_rimiss_pro_leaf f_rimiss_pro_call f_rimiss_epi_leaf f_rimiss_epi_call
  && rimi_method_frags_ok f_rimifull_pro_leaf f_rimifull_pro_call f_rimifull_epi_leaf f_rimifull_epi_call
  && with_frag ExtRimi f_rimifull_tramp_call
       (fun l => negb (ra_on_main_stack l) && ssp_discipline c_RIMI_SSP_REG None l && has_instr (is_push_ra c_RIMI_SSP_REG) l) false
  && with_frag ExtRimi f_rimifull_tramp_ret
       (fun l => negb (ra_on_main_stack l) && ssp_discipline c_RIMI_SSP_REG None l && has_instr (is_pop_ra c_RIMI_SSP_REG) l) false
  = true.
Proof. exact rimi_shadow_discipline. Qed.

(* the shadow pointer and ra are not destinations of random instructions *)
Theorem C09_registers_reserved_partial :
  forallb (fun a => not_in c_DATA_REG (ga_registers a) && not_in c_SP (ga_registers a) && not_in c_RA (ga_registers a)
                    && not_in c_X0 (ga_registers a)
                    && forallb (fun s => not_in s (ga_registers a)) c_CALLEE_SAVED_REG)
          [ga_base; ga_tramp; ga_rimiss; ga_rimifull; ga_fixer]
  && not_in c_RIMI_SSP_REG (ga_registers ga_rimiss) && not_in c_RIMI_SSP_REG (ga_registers ga_rimifull)
  && not_in c_FIXER_CMP_REG (ga_registers ga_fixer) = true.
Proof. exact reserved_registers_filtered. Qed.

(* call stubs do not touch memory at all: control flow of a call never
   depends on main-stack contents *)
Theorem C09_calls_do_not_read_stack_partial : forall v L s A off,
  in_pair_range off -> 8 <= Z.abs off -> (A + off) mod 2 = 0 -> pc s = A ->
  exists stub is,
    build_method_base_call off = OK stub /\ List.length stub = 2%nat /\
    decode_all ExtNone stub = Some is /\
    exists s', exec_at v L A is s = Next s' /\
    call_effect s s' (u64 (A + off)) (u64 (A + 8)) /\ cfi s' = cfi s /\
    (forall r, 0 <= r -> r <> 1 -> rget s' r = rget s r).
Proof. exact method_base_call_reaches. Qed.

Print Assumptions C09_no_ra_on_main_stack.
Print Assumptions C09_every_rimi_method_contract_partial.
Print Assumptions C09_return_target_is_shadow_slot_partial.
Print Assumptions C09_frame_corruption_keeps_control_flow_partial.
Print Assumptions C09_frame_corruption_nonvacuous.
Print Assumptions C09_rimiss_whole_image.
Print Assumptions C09_rimifull_whole_image.
Print Assumptions C09_nonvacuous.
Print Assumptions C09_shadow_discipline_partial.
Print Assumptions C09_registers_reserved_partial.
Print Assumptions C09_calls_do_not_read_stack_partial.
