(* Walk.v — Layer B: walking through a method body that contains call sites.
   Abstract in the invariant: plain positions take one step, a site takes
   cost(i) steps (call edge + callee + return) and resumes two positions later.
   (Specification side: Machine only.) *)
From Coq Require Import ZArith List Bool Lia.
From Gigue Require Import Isa Machine MachineLemmas SwitchExec.
Import ListNotations.
Open Scope Z_scope.

Section Walk.
Variable v : variant.
Variable L : layout.
Variable Inv : mstate -> Prop.
Variable addr : nat -> Z.                 (* address of position p *)
Variable sites : list nat.                (* positions where a call stub starts *)
Variable cost : nat -> nat.               (* steps taken by the site at position i *)
Variable P1 : nat.                        (* end of the body *)

Definition is_site (p : nat) : bool := existsb (Nat.eqb p) sites.
Definition second (p : nat) : bool := existsb (fun i => Nat.eqb p (i + 1)) sites.

(* sites are at least 3 apart and fit *)
Hypothesis sites_apart : forall i j, In i sites -> In j sites -> i <> j -> (i + 3 <= j \/ j + 3 <= i)%nat.
Hypothesis sites_fit : forall i, In i sites -> (i + 2 <= P1)%nat.

Hypothesis step_plain : forall p s, (p < P1)%nat -> is_site p = false -> second p = false ->
  Inv s -> pc s = addr p ->
  exists s', run v L 1 s = (Next s', 1%nat) /\ pc s' = addr (p + 1) /\ Inv s'.
Hypothesis step_site : forall i s, In i sites -> Inv s -> pc s = addr i ->
  exists s', run v L (cost i) s = (Next s', cost i) /\ pc s' = addr (i + 2) /\ Inv s'.

Fixpoint total (k : nat) (p : nat) : nat :=      (* steps from p over k positions *)
  match k with
  | O => O
  | S k' => if is_site p then (cost p + match k' with O => O | S k'' => total k'' (p + 2) end)%nat
            else (1 + total k' (p + 1))%nat
  end.

Lemma is_site_In p : is_site p = true -> In p sites.
Proof. unfold is_site. intros H. apply existsb_exists in H. destruct H as (x & Hx & E). apply Nat.eqb_eq in E. subst. exact Hx. Qed.
Lemma In_is_site p : In p sites -> is_site p = true.
Proof. intros H. unfold is_site. apply existsb_exists. exists p. split; [exact H|apply Nat.eqb_refl]. Qed.

Lemma second_after_site i : In i sites -> second (i + 2) = false.
Proof.
  intros Hi. unfold second. destruct (existsb _ sites) eqn:E; [|reflexivity].
  apply existsb_exists in E. destruct E as (j & Hj & E). apply Nat.eqb_eq in E.
  destruct (Nat.eq_dec i j) as [->|Hne]; [lia|]. destruct (sites_apart i j Hi Hj Hne); lia.
Qed.

Lemma second_after_plain p : is_site p = false -> second (p + 1) = false.
Proof.
  intros Hp. unfold second. destruct (existsb _ sites) eqn:E; [|reflexivity].
  apply existsb_exists in E. destruct E as (j & Hj & E). apply Nat.eqb_eq in E.
  assert (j = p) by lia. subst j. rewrite (In_is_site p Hj) in Hp. discriminate.
Qed.

Theorem walk : forall k p s,
  (p + k = P1)%nat -> second p = false -> Inv s -> pc s = addr p ->
  exists s', run v L (total k p) s = (Next s', total k p) /\ pc s' = addr P1 /\ Inv s'.
Proof.
  induction k as [k IH] using lt_wf_ind. intros p s Hk Hsec HI Hpc.
  destruct k as [|k'].
  - exists s. replace P1 with p by lia. split; [reflexivity|auto].
  - cbn [total]. destruct (is_site p) eqn:Es.
    + apply is_site_In in Es. pose proof (sites_fit p Es) as Hfit.
      destruct (step_site p s Es HI Hpc) as (s1 & R1 & P1' & I1).
      destruct k' as [|k'']; [lia|].
      destruct (IH k'' ltac:(lia) (p + 2)%nat s1 ltac:(lia) (second_after_site p Es) I1 P1') as (s' & R & Pf & If).
      exists s'. split; [|auto].
      rewrite (run_app v L (cost p) (total k'' (p + 2)) s s1 R1). rewrite R. reflexivity.
    + destruct (step_plain p s ltac:(lia) Es Hsec HI Hpc) as (s1 & R1 & P1' & I1).
      destruct (IH k' ltac:(lia) (p + 1)%nat s1 ltac:(lia) (second_after_plain p Es) I1 P1') as (s' & R & Pf & If).
      exists s'. split; [|auto].
      rewrite (run_app v L 1 (total k' (p + 1)) s s1 R1). rewrite R. reflexivity.
Qed.
End Walk.

(* the same walk when the number of steps a site takes is only known to exist
   (it depends on the callee, not on the data, but that is not needed here) *)
Section WalkEx.
Variable v : variant.
Variable L : layout.
Variable Inv : mstate -> Prop.
Variable addr : nat -> Z.
Variable sites : list nat.
Variable P1 : nat.
Hypothesis sites_apart : forall i j, In i sites -> In j sites -> i <> j -> (i + 3 <= j \/ j + 3 <= i)%nat.
Hypothesis sites_fit : forall i, In i sites -> (i + 2 <= P1)%nat.
Hypothesis step_plain : forall p s, (p < P1)%nat -> is_site sites p = false -> second sites p = false ->
  Inv s -> pc s = addr p ->
  exists s', run v L 1 s = (Next s', 1%nat) /\ pc s' = addr (p + 1) /\ Inv s'.
Hypothesis step_site : forall i s, In i sites -> Inv s -> pc s = addr i ->
  exists s' n, run v L n s = (Next s', n) /\ pc s' = addr (i + 2) /\ Inv s'.

Theorem walk_ex : forall k p s,
  (p + k = P1)%nat -> second sites p = false -> Inv s -> pc s = addr p ->
  exists s' n, run v L n s = (Next s', n) /\ pc s' = addr P1 /\ Inv s'.
Proof.
  induction k as [k IH] using lt_wf_ind. intros p s Hk Hsec HI Hpc.
  destruct k as [|k'].
  - exists s, O. replace P1 with p by lia. split; [reflexivity|auto].
  - destruct (is_site sites p) eqn:Es.
    + apply is_site_In in Es. pose proof (sites_fit p Es) as Hfit.
      destruct (step_site p s Es HI Hpc) as (s1 & n1 & R1 & P1' & I1).
      destruct k' as [|k'']; [lia|].
      destruct (IH k'' ltac:(lia) (p + 2)%nat s1 ltac:(lia) (second_after_site sites sites_apart p Es) I1 P1') as (s' & n & R & Pf & If).
      exists s', (n1 + n)%nat. split; [|auto].
      rewrite (run_app v L n1 n s s1 R1). rewrite R. reflexivity.
    + destruct (step_plain p s ltac:(lia) Es Hsec HI Hpc) as (s1 & R1 & P1' & I1).
      destruct (IH k' ltac:(lia) (p + 1)%nat s1 ltac:(lia) (second_after_plain sites p Es) I1 P1') as (s' & n & R & Pf & If).
      exists s', (1 + n)%nat. split; [|auto].
      rewrite (run_app v L 1 n s s1 R1). rewrite R. reflexivity.
Qed.
End WalkEx.
