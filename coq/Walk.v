(* Walk.v — Layer B: walking through a method body that contains call sites.
   Abstract in the invariant: plain positions take one step, a site takes
   cost(i) steps (call edge + callee + return) and resumes two positions later.
   (Specification side: Machine only.) *)
From Coq Require Import ZArith List Bool Lia.
From Gigue Require Import Isa Machine MachineLemmas SwitchExec.
Import ListNotations.
Open Scope Z_scope.

Section Walk.
Variable v : variant.
Variable L : layout.
Variable Inv : mstate -> Prop.
Variable addr : nat -> Z.                 (* address of position p *)
Variable sites : list nat.                (* positions where a call stub starts *)
Variable cost : nat -> nat.               (* steps taken by the site at position i *)
Variable P1 : nat.                        (* end of the body *)

Definition is_site (p : nat) : bool := existsb (Nat.eqb p) sites.
Definition second (p : nat) : bool := existsb (fun i => Nat.eqb p (i + 1)) sites.

(* sites are at least 3 apart and fit *)
Hypothesis sites_apart : forall i j, In i sites -> In j sites -> i <> j -> (i + 3 <= j \/ j + 3 <= i)%nat.
Hypothesis sites_fit : forall i, In i sites -> (i + 2 <= P1)%nat.

Hypothesis step_plain : forall p s, (p < P1)%nat -> is_site p = false -> second p = false ->
  Inv s -> pc s = addr p ->
  exists s', run v L 1 s = (Next s', 1%nat) /\ pc s' = addr (p + 1) /\ Inv s'.
Hypothesis step_site : forall i s, In i sites -> Inv s -> pc s = addr i ->
  exists s', run v L (cost i) s = (Next s', cost i) /\ pc s' = addr (i + 2) /\ Inv s'.

Fixpoint total (k : nat) (p : nat) : nat :=      (* steps from p over k positions *)
  match k with
  | O => O
  | S k' => if is_site p then (cost p + match k' with O => O | S k'' => total k'' (p + 2) end)%nat
            else (1 + total k' (p + 1))%nat
  end.

Lemma is_site_In p : is_site p = true -> In p sites.
Proof. unfold is_site. intros H. apply existsb_exists in H. destruct H as (x & Hx & E). apply Nat.eqb_eq in E. subst. exact Hx. Qed.
Lemma In_is_site p : In p sites -> is_site p = true.
Proof. intros H. unfold is_site. apply existsb_exists. exists p. split; [exact H|apply Nat.eqb_refl]. Qed.

Lemma second_after_site i : In i sites -> second (i + 2) = false.
Proof.
  intros Hi. unfold second. destruct (existsb _ sites) eqn:E; [|reflexivity].
  apply existsb_exists in E. destruct E as (j & Hj & E). apply Nat.eqb_eq in E.
  destruct (Nat.eq_dec i j) as [->|Hne]; [lia|]. destruct (sites_apart i j Hi Hj Hne); lia.
Qed.

Lemma second_after_plain p : is_site p = false -> second (p + 1) = false.
Proof.
  intros Hp. unfold second. destruct (existsb _ sites) eqn:E; [|reflexivity].
  apply existsb_exists in E. destruct E as (j & Hj & E). apply Nat.eqb_eq in E.
  assert (j = p) by lia. subst j. rewrite (In_is_site p Hj) in Hp. discriminate.
Qed.

Theorem walk : forall k p s,
  (p + k = P1)%nat -> second p = false -> Inv s -> pc s = addr p ->
  exists s', run v L (total k p) s = (Next s', total k p) /\ pc s' = addr P1 /\ Inv s'.
Proof.
  induction k as [k IH] using lt_wf_ind. intros p s Hk Hsec HI Hpc.
  destruct k as [|k'].
  - exists s. replace P1 with p by lia. split; [reflexivity|auto].
  - cbn [total]. destruct (is_site p) eqn:Es.
    + apply is_site_In in Es. pose proof (sites_fit p Es) as Hfit.
      destruct (step_site p s Es HI Hpc) as (s1 & R1 & P1' & I1).
      destruct k' as [|k'']; [lia|].
      destruct (IH k'' ltac:(lia) (p + 2)%nat s1 ltac:(lia) (second_after_site p Es) I1 P1') as (s' & R & Pf & If).
      exists s'. split; [|auto].
      rewrite (run_app v L (cost p) (total k'' (p + 2)) s s1 R1). rewrite R. reflexivity.
    + destruct (step_plain p s ltac:(lia) Es Hsec HI Hpc) as (s1 & R1 & P1' & I1).
      destruct (IH k' ltac:(lia) (p + 1)%nat s1 ltac:(lia) (second_after_plain p Es) I1 P1') as (s' & R & Pf & If).
      exists s'. split; [|auto].
      rewrite (run_app v L 1 (total k' (p + 1)) s s1 R1). rewrite R. reflexivity.
Qed.
End Walk.

(* the same walk when the number of steps a site takes is only known to exist
   (it depends on the callee, not on the data, but that is not needed here) *)
Section WalkEx.
Variable v : variant.
Variable L : layout.
Variable Inv : mstate -> Prop.
Variable addr : nat -> Z.
Variable sites : list nat.
Variable P1 : nat.
Hypothesis sites_apart : forall i j, In i sites -> In j sites -> i <> j -> (i + 3 <= j \/ j + 3 <= i)%nat.
Hypothesis sites_fit : forall i, In i sites -> (i + 2 <= P1)%nat.
Hypothesis step_plain : forall p s, (p < P1)%nat -> is_site sites p = false -> second sites p = false ->
  Inv s -> pc s = addr p ->
  exists s', run v L 1 s = (Next s', 1%nat) /\ pc s' = addr (p + 1) /\ Inv s'.
Hypothesis step_site : forall i s, In i sites -> Inv s -> pc s = addr i ->
  exists s' n, run v L n s = (Next s', n) /\ pc s' = addr (i + 2) /\ Inv s'.

Theorem walk_ex : forall k p s,
  (p + k = P1)%nat -> second sites p = false -> Inv s -> pc s = addr p ->
  exists s' n, run v L n s = (Next s', n) /\ pc s' = addr P1 /\ Inv s'.
Proof.
  induction k as [k IH] using lt_wf_ind. intros p s Hk Hsec HI Hpc.
  destruct k as [|k'].
  - exists s, O. replace P1 with p by lia. split; [reflexivity|auto].
  - destruct (is_site sites p) eqn:Es.
    + apply is_site_In in Es. pose proof (sites_fit p Es) as Hfit.
      destruct (step_site p s Es HI Hpc) as (s1 & n1 & R1 & P1' & I1).
      destruct k' as [|k'']; [lia|].
      destruct (IH k'' ltac:(lia) (p + 2)%nat s1 ltac:(lia) (second_after_site sites sites_apart p Es) I1 P1') as (s' & n & R & Pf & If).
      exists s', (n1 + n)%nat. split; [|auto].
      rewrite (run_app v L n1 n s s1 R1). rewrite R. reflexivity.
    + destruct (step_plain p s ltac:(lia) Es Hsec HI Hpc) as (s1 & R1 & P1' & I1).
      destruct (IH k' ltac:(lia) (p + 1)%nat s1 ltac:(lia) (second_after_plain sites p Es) I1 P1') as (s' & n & R & Pf & If).
      exists s', (1 + n)%nat. split; [|auto].
      rewrite (run_app v L 1 n s s1 R1). rewrite R. reflexivity.
Qed.
End WalkEx.

(* ---------------------------------------------------------------- the exact step count *)
(* sums over the sites at or after a position *)
Fixpoint wsum (sc : list (nat * nat)) (p : nat) : nat :=
  match sc with
  | [] => O
  | (i, k) :: tl => ((if (p <=? i)%nat then k else O) + wsum tl p)%nat
  end.

Lemma wsum_none sc p : (forall i k, In (i, k) sc -> (i < p)%nat) -> wsum sc p = O.
Proof.
  induction sc as [|[i k] tl IH]; intros H; cbn [wsum]; [reflexivity|].
  pose proof (H i k (or_introl eq_refl)) as Hi. destruct (Nat.leb_spec p i); [lia|].
  rewrite IH; [reflexivity|]. intros i' k' Hin. apply (H i' k'). right. exact Hin.
Qed.

Lemma wsum_shift sc p q :
  (p <= q)%nat -> (forall i k, In (i, k) sc -> (i < p \/ q <= i)%nat) -> wsum sc p = wsum sc q.
Proof.
  intros Hpq. induction sc as [|[i k] tl IH]; intros H; cbn [wsum]; [reflexivity|].
  pose proof (H i k (or_introl eq_refl)) as Hi.
  rewrite IH by (intros i' k' Hin; apply (H i' k'); right; exact Hin).
  destruct (Nat.leb_spec p i), (Nat.leb_spec q i); lia.
Qed.

Lemma wsum_at sc p k :
  NoDup (map fst sc) -> In (p, k) sc ->
  (forall j kj, In (j, kj) sc -> j <> p -> (j + 3 <= p \/ p + 3 <= j)%nat) ->
  wsum sc p = (k + wsum sc (p + 2))%nat.
Proof.
  induction sc as [|[i ki] tl IH]; intros Hnd Hin Hap; [destruct Hin|].
  cbn [map fst] in Hnd. inversion Hnd as [|? ? Hni Hnd']; subst. cbn [wsum].
  destruct Hin as [E|Hin].
  - inversion E; subst i ki. rewrite Nat.leb_refl. destruct (Nat.leb_spec (p + 2) p); [lia|].
    rewrite (wsum_shift tl p (p + 2)); [lia|lia|].
    intros j kj Hj. assert (j <> p).
    { intros ->. apply Hni. apply in_map_iff. exists (p, kj). split; [reflexivity|exact Hj]. }
    destruct (Hap j kj (or_intror Hj) H0); lia.
  - assert (Hne : i <> p).
    { intros ->. apply Hni. apply in_map_iff. exists (p, k). split; [reflexivity|exact Hin]. }
    rewrite (IH Hnd' Hin) by (intros j kj Hj; apply (Hap j kj); right; exact Hj).
    destruct (Hap i ki (or_introl eq_refl) Hne); destruct (Nat.leb_spec p i), (Nat.leb_spec (p + 2) i); lia.
Qed.

Lemma wsum_zero_all sc : wsum sc 0 = fold_right (fun x a => (snd x + a)%nat) O sc.
Proof. induction sc as [|[i k] tl IH]; cbn [wsum fold_right snd]; [reflexivity|]. rewrite IH. reflexivity. Qed.

(* the walk with the exact number of steps: sc lists (site position, steps of that site) *)
Section WalkCnt.
Variable v : variant.
Variable L : layout.
Variable Inv : mstate -> Prop.
Variable addr : nat -> Z.
Variable sc : list (nat * nat).
Variable P1 : nat.
Let sites := map fst sc.
Hypothesis sites_nodup : NoDup sites.
Hypothesis sites_apart : forall i j, In i sites -> In j sites -> i <> j -> (i + 3 <= j \/ j + 3 <= i)%nat.
Hypothesis sites_fit : forall i, In i sites -> (i + 2 <= P1)%nat.
Hypothesis step_plain : forall p s, (p < P1)%nat -> is_site sites p = false -> second sites p = false ->
  Inv s -> pc s = addr p ->
  exists s', run v L 1 s = (Next s', 1%nat) /\ pc s' = addr (p + 1) /\ Inv s'.
Hypothesis step_site : forall i k s, In (i, k) sc -> Inv s -> pc s = addr i ->
  exists s', run v L k s = (Next s', k) /\ pc s' = addr (i + 2) /\ Inv s'.

Lemma site_pair i : In i sites -> exists k, In (i, k) sc.
Proof. intros H. unfold sites in H. apply in_map_iff in H. destruct H as ([i' k] & E & H). cbn in E. subst. eauto. Qed.

Lemma pair_site i k : In (i, k) sc -> In i sites.
Proof. intros H. unfold sites. apply in_map_iff. exists (i, k). auto. Qed.

Theorem walk_cnt : forall k p s,
  (p + k = P1)%nat -> second sites p = false -> Inv s -> pc s = addr p ->
  exists s' n, run v L n s = (Next s', n) /\ pc s' = addr P1 /\ Inv s' /\
               (n + 2 * wsum (map (fun x => (fst x, 1%nat)) sc) p = k + wsum sc p)%nat.
Proof.
  induction k as [k IH] using lt_wf_ind. intros p s Hk Hsec HI Hpc.
  set (sc1 := map (fun x => (fst x, 1%nat)) sc).
  assert (Hsc1 : forall i k1, In (i, k1) sc1 -> In i sites /\ k1 = 1%nat).
  { intros i k1 H. unfold sc1 in H. apply in_map_iff in H. destruct H as ([i' k'] & E & H). cbn in E. inversion E; subst.
    split; [eapply pair_site; exact H|reflexivity]. }
  assert (Hnd1 : NoDup (map fst sc1)).
  { unfold sc1. rewrite map_map. cbn [fst]. exact sites_nodup. }
  destruct k as [|k'].
  - exists s, O. replace P1 with p by lia. split; [reflexivity|]. split; [exact Hpc|]. split; [exact HI|].
    rewrite !wsum_none; [reflexivity| |].
    + intros i k0 H. pose proof (sites_fit i (pair_site i k0 H)). lia.
    + intros i k0 H. destruct (Hsc1 i k0 H) as [Hi _]. pose proof (sites_fit i Hi). lia.
  - destruct (is_site sites p) eqn:Es.
    + apply is_site_In in Es. pose proof (sites_fit p Es) as Hfit.
      destruct (site_pair p Es) as (kp & Hkp).
      destruct (step_site p kp s Hkp HI Hpc) as (s1 & R1 & P1' & I1).
      destruct k' as [|k'']; [lia|].
      destruct (IH k'' ltac:(lia) (p + 2)%nat s1 ltac:(lia) (second_after_site sites sites_apart p Es) I1 P1')
        as (s' & n & R & Pf & If & Hn).
      exists s', (kp + n)%nat. split; [|split; [exact Pf|split; [exact If|]]].
      { rewrite (run_app v L kp n s s1 R1). rewrite R. reflexivity. }
      rewrite (wsum_at sc p kp sites_nodup Hkp).
      2:{ intros j kj Hj Hne. destruct (sites_apart p j Es (pair_site j kj Hj) ltac:(lia)); lia. }
      rewrite (wsum_at sc1 p 1 Hnd1).
      2:{ unfold sc1. apply in_map_iff. exists (p, kp). split; [reflexivity|exact Hkp]. }
      2:{ intros j kj Hj Hne. destruct (Hsc1 j kj Hj) as [Hjs _]. destruct (sites_apart p j Es Hjs ltac:(lia)); lia. }
      fold sc1 in Hn. lia.
    + destruct (step_plain p s ltac:(lia) Es Hsec HI Hpc) as (s1 & R1 & P1' & I1).
      destruct (IH k' ltac:(lia) (p + 1)%nat s1 ltac:(lia) (second_after_plain sites p Es) I1 P1')
        as (s' & n & R & Pf & If & Hn).
      exists s', (1 + n)%nat. split; [|split; [exact Pf|split; [exact If|]]].
      { rewrite (run_app v L 1 n s s1 R1). rewrite R. reflexivity. }
      assert (Hnp : forall i (k0 : nat), In i sites -> (i < p \/ p + 1 <= i)%nat).
      { intros i _ Hi. destruct (Nat.eq_dec i p) as [->|]; [|lia]. rewrite (In_is_site sites p Hi) in Es. discriminate. }
      rewrite (wsum_shift sc p (p + 1)) by (try lia; intros i k0 H; apply (Hnp i k0); eapply pair_site; exact H).
      rewrite (wsum_shift sc1 p (p + 1)) by (try lia; intros i k0 H; apply (Hnp i k0); apply (Hsc1 i k0 H)).
      fold sc1 in Hn. lia.
Qed.
End WalkCnt.
