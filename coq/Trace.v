(* Trace.v — the executed pc sequence of the reference machine, and the generic
   fact that turns "every step is Next" (the conclusion of the whole-image
   theorems) into the property wording "never fetches outside the emitted code,
   never fetches a misaligned pc, never executes an undecodable word".
   Specification side: imports Isa and Machine only. *)
From Coq Require Import ZArith List Bool Lia.
From Gigue Require Import Isa Machine.
Import ListNotations.
Open Scope Z_scope.

(* the pcs of the instructions executed by [run] (one per counted step) *)
Fixpoint run_pcs (v : variant) (L : layout) (n : nat) (s : mstate) : list Z :=
  match n with
  | O => []
  | S k =>
      match step v L s with
      | Next s' => pc s :: run_pcs v L k s'
      | _ => []
      end
  end.

Lemma run_pcs_length : forall v L n s, length (run_pcs v L n s) = snd (run v L n s).
Proof.
  intros v L n; induction n as [|k IH]; intros s; cbn [run_pcs run]; [reflexivity|].
  destruct (step v L s) as [s'| | |] eqn:Hs; try reflexivity.
  specialize (IH s'). destruct (run v L k s') as [o c]. cbn [snd length] in *. now rewrite IH.
Qed.

(* what one counted step says about the fetched pc *)
Definition fetch_ok (v : variant) (L : layout) (s : mstate) : Prop :=
  pc s <> halt_at L /\ pc s mod 4 = 0 /\ code_lo L <= pc s /\ pc s + 4 <= code_hi L /\
  exists i, decode (variant_ext v) (fetch_word s) = Some i.

Lemma step_next_fetch_ok : forall v L s s', step v L s = Next s' -> fetch_ok v L s.
Proof.
  intros v L s s' H. unfold step in H.
  destruct (pc s =? halt_at L) eqn:Hh; [discriminate|].
  destruct (pc s mod 4 =? 0) eqn:Ha; cbn [negb] in H; [|discriminate].
  destruct (inr (code_lo L) (code_hi L) (pc s) 4) eqn:Hr; cbn [negb] in H; [|discriminate].
  match type of H with (if ?b then _ else _) = _ => destruct b; [discriminate|] end.
  destruct (decode (variant_ext v) (fetch_word s)) as [i|] eqn:Hd; [|discriminate].
  unfold inr in Hr. apply andb_true_iff in Hr. destruct Hr as [Hlo Hhi].
  apply Z.eqb_neq in Hh. apply Z.eqb_eq in Ha. apply Z.leb_le in Hlo. apply Z.leb_le in Hhi.
  repeat split; try assumption. now exists i.
Qed.

(* the pcs of the trace are pcs of states whose fetch was legal *)
Theorem run_pcs_inside_code : forall v L n s p,
  In p (run_pcs v L n s) ->
  p <> halt_at L /\ p mod 4 = 0 /\ code_lo L <= p /\ p + 4 <= code_hi L.
Proof.
  intros v L n; induction n as [|k IH]; intros s p Hin; cbn [run_pcs] in Hin; [contradiction|].
  destruct (step v L s) as [s'| | |] eqn:Hs; try contradiction.
  destruct Hin as [Heq|Hin].
  - subst p. destruct (step_next_fetch_ok _ _ _ _ Hs) as (H1 & H2 & H3 & H4 & _). auto.
  - exact (IH s' p Hin).
Qed.

(* a run that counts n steps executed exactly n instructions: the trace has n entries *)
Corollary run_full_trace : forall v L n s o,
  run v L n s = (o, n) -> length (run_pcs v L n s) = n.
Proof. intros v L n s o H. rewrite run_pcs_length, H. reflexivity. Qed.

(* RIMI full: every counted step was fetched in the domain of its side *)
Lemma step_next_domain : forall L s s', step VRimiFull L s = Next s' ->
  (if pc s <? jit_lo L then dom s =? 0 else dom s =? 1) = true.
Proof.
  intros L s s' H. unfold step in H.
  destruct (pc s =? halt_at L); [discriminate|].
  destruct (negb (pc s mod 4 =? 0)); [discriminate|].
  destruct (negb (inr (code_lo L) (code_hi L) (pc s) 4)); [discriminate|].
  destruct (if pc s <? jit_lo L then dom s =? 0 else dom s =? 1); [reflexivity|].
  cbn [negb] in H. discriminate.
Qed.

(* the reading used by Properties/C01.v: a run whose n steps were all Next executed
   n instructions, each fetched 4-aligned inside [code_lo, code_hi), none at the halt address *)
Theorem clean_run_trace : forall v L n s s',
  run v L n s = (Next s', n) ->
  length (run_pcs v L n s) = n /\
  Forall (fun p => p <> halt_at L /\ p mod 4 = 0 /\ code_lo L <= p /\ p + 4 <= code_hi L)
         (run_pcs v L n s).
Proof.
  intros v L n s s' H. split; [exact (run_full_trace v L n s _ H)|].
  apply Forall_forall. intros p Hin. exact (run_pcs_inside_code v L n s p Hin).
Qed.
