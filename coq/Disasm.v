(* Disasm.v — model of gigue/disassembler.py (look-up and field / immediate
   extractors) and of the numeric part of prelude/proc_helper.py.
   Mirrors the Python definition by definition. *)
From Coq Require Import ZArith List String Bool.
From Gigue Require Import Types Bits Enc.
Import ListNotations.
Open Scope Z_scope.

(* Disassembler.sign_extend *)
Definition sign_extend (value bits : Z) : Z :=
  let sign_bit := Z.shiftl 1 (bits - 1) in
  Z.land value (sign_bit - 1) - Z.land value sign_bit.

(* Disassembler.extract_info *)
Definition extract_info (w size shift : Z) : Z :=
  let mask := Z.shiftl 1 size - 1 in
  Z.shiftr (Z.land w (Z.shiftl mask shift)) shift.

(* Disassembler.get_instruction_info: first match in dictionary order;
   None = UnknownInstructionException *)
Definition matches (e : iinfo) (w : Z) : bool := Z.land (ii_mask e) w =? ii_val e.

Fixpoint get_instruction_info (tbl : list iinfo) (w : Z) : option iinfo :=
  match tbl with
  | [] => None
  | e :: tl => if matches e w then Some e else get_instruction_info tl w
  end.

Definition extract_opcode w := extract_info w 7 0.
Definition extract_funct3 w := extract_info w 3 12.
Definition extract_xd w := extract_info w 1 14.
Definition extract_xs1 w := extract_info w 1 13.
Definition extract_xs2 w := extract_info w 1 12.
Definition extract_rd w := extract_info w 5 7.
Definition extract_rs1 w := extract_info w 5 15.
Definition extract_rs2 w := extract_info w 5 20.
Definition extract_funct7 w := extract_info w 7 25.

Definition extract_imm_b (w : Z) (sign : bool) : Z :=
  let i := Z.shiftl (extract_info w 4 8) 1 in
  let i := Z.lor i (Z.shiftl (extract_info w 6 25) 5) in
  let i := Z.lor i (Z.shiftl (extract_info w 1 7) 11) in
  let i := Z.lor i (Z.shiftl (extract_info w 1 31) 12) in
  if sign then to_signed i 13 else i.

Definition extract_imm_i (w : Z) (sign : bool) : Z :=
  let i := extract_info w 12 20 in
  if sign then to_signed i 12 else i.

Definition extract_imm_j (w : Z) (sign : bool) : Z :=
  let i := Z.shiftl (extract_info w 10 21) 1 in
  let i := Z.lor i (Z.shiftl (extract_info w 1 20) 11) in
  let i := Z.lor i (Z.shiftl (extract_info w 8 12) 12) in
  let i := Z.lor i (Z.shiftl (extract_info w 1 31) 20) in
  if sign then to_signed i 21 else i.

Definition extract_imm_s (w : Z) (sign : bool) : Z :=
  let i := extract_info w 5 7 in
  let i := Z.lor i (Z.shiftl (extract_info w 7 25) 5) in
  if sign then to_signed i 12 else i.

Definition extract_imm_u (w : Z) (sign : bool) : Z :=
  let i := Z.shiftl (extract_info w 20 12) 12 in
  if sign then to_signed i 32 else i.

(* instructions = [auipc word, jalr/addi word] *)
Definition extract_pc_relative_offset (w_auipc w_low : Z) : Z :=
  let offset_low := extract_imm_i w_low false in
  let offset_high := extract_imm_u w_auipc false in
  sign_extend offset_low 12 + sign_extend offset_high 32.

(* ---- prelude/proc_helper.py, numeric part ------------------------------ *)

(* GNUHelper.get_gnu_match_mask: (MASK, MATCH) printed with hex() *)
Definition gnu_mask_match (e : iinfo) : Z * Z := (ii_mask e, Z.land (ii_val e) (ii_mask e)).

(* GNUHelper.get_rvo_opcode: the "6..2=" and "1..0=" fields *)
Definition rvo_6_2 (e : iinfo) : Z := Z.shiftr (Z.land (ii_opcode e) 124) 2.
Definition rvo_1_0 (e : iinfo) : Z := Z.land (ii_opcode e) 3.

(* RocketHelper.get_bitpats: format(x, "#034b") is "0b" + at least 32 binary
   digits (more if x >= 2^32); the loop runs over the characters of the MASK
   string and indexes the VALUE string at the same position.  Modelled on
   most-significant-first bit lists; None = IndexError. *)
Fixpoint bits_msb (n : nat) (x : Z) : list bool :=    (* the n low bits of x, MSB first *)
  match n with
  | O => []
  | S k => Z.testbit x (Z.of_nat k) :: bits_msb k x
  end.

Definition nbits (x : Z) : nat := Z.to_nat (Z.log2 x + 1).   (* len(bin(x)) - 2 for x > 0 *)

Definition fmt034b (x : Z) : list bool := bits_msb (Nat.max 32 (if x =? 0 then 1%nat else nbits x)) x.

Inductive patbit := P0 | P1 | PQ.

Fixpoint zip_bitpat (mask val : list bool) : option (list patbit) :=
  match mask with
  | [] => Some []
  | m :: mt =>
      match val with
      | [] => None                      (* cmp_val[bit]: IndexError *)
      | v :: vt =>
          match zip_bitpat mt vt with
          | Some r => Some ((if m then (if v then P1 else P0) else PQ) :: r)
          | None => None
          end
      end
  end.

Definition rocket_bitpat (e : iinfo) : option (list patbit) :=
  zip_bitpat (fmt034b (ii_mask e)) (fmt034b (ii_val e)).

(* what a Chisel BitPat("b...") of 32 characters denotes *)
Fixpoint bitpat_matches_msb (p : list patbit) (w : list bool) : bool :=
  match p, w with
  | [], [] => true
  | P0 :: pt, b :: wt => negb b && bitpat_matches_msb pt wt
  | P1 :: pt, b :: wt => b && bitpat_matches_msb pt wt
  | PQ :: pt, _ :: wt => bitpat_matches_msb pt wt
  | _, _ => false
  end.

Definition bitpat_matches (p : list patbit) (w : Z) : bool :=
  Nat.eqb (List.length p) 32 && bitpat_matches_msb p (bits_msb 32 w).

(* CVA6Helper.get_opcode: format(opcode, "#09b")[2:9] as 7 bits *)
Definition cva6_bits (e : iinfo) : list bool := bits_msb 7 (ii_opcode e).
