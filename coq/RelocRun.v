(* RelocRun.v — position independence of whole images (plain variants): the image
   generated for shifted start addresses is the same words at shifted recorded
   addresses (Reloc.v), so the whole-image theorem holds at ANY 4-aligned load
   address, with the same number of executed instructions. *)
From Coq Require Import ZArith List String Bool Lia Permutation.
From Gigue Require Import Types Bits Isa Enc GenTables Builder Samplers Generator GenLemmas Machine MachineLemmas ImageSem
  GenWF GenWFProps SliceLemmas GenWF2 GenWF2Props BodyExec GenWF5 CodeMem MethodContract SaveRestore TrampExec TrampsInv TrampStubs
  WholeImage Loader Reloc CallFrameRimi MethodContractRimi WholeImageRimi LoaderRimi RimiFullExec WholeImageRimiFull LoaderRimiFull
  GenWF9F WalkK FixerTamper FixerCall MethodContractFixer WholeImageFixer LoaderFixer.
Import ListNotations.
Open Scope list_scope.
Open Scope Z_scope.

Section RR.
Variable d : Z.
Hypothesis Hd4 : d mod 4 = 0.

Lemma successful_sh c script img :
  successful c script img -> cfg_ok (shc d c) = true -> successful (shc d c) script (shi d img).
Proof.
  intros [Hc Hr] Hc'. split; [exact Hc'|]. rewrite (run_gen_equivariant d Hd4 c script Hc), Hr. reflexivity.
Qed.

Lemma steps_method_sh ms : forall f id, steps_method (map (shm d) ms) f id = steps_method ms f id.
Proof.
  induction f as [|f IH]; intros id; cbn [steps_method]; [reflexivity|].
  rewrite nth_error_map. destruct (nth_error ms id) as [m|]; cbn [option_map]; [|reflexivity].
  change (m_instrs (shm d m)) with (m_instrs m). change (m_callees (shm d m)) with (m_callees m).
  f_equal. induction (m_callees m) as [|x tl IHl]; cbn [fold_right]; [reflexivity|]. rewrite IH, IHl. reflexivity.
Qed.

Lemma max_depth_sh ms : max_depth (map (shm d) ms) = max_depth ms.
Proof. unfold max_depth. f_equal. f_equal. induction ms as [|m tl IH]; cbn [fold_right map]; [reflexivity|]. rewrite IH. reflexivity. Qed.

Lemma elem_cost_sh c img e h : elem_cost (shc d c) (shi d img) (she d e) h = elem_cost c img e h.
Proof.
  unfold elem_cost, msteps, tramp_steps. cbn [shi im_methods shc c_variant].
  rewrite max_depth_sh. destruct e as [id|p]; cbn [she shp p_methods]; rewrite steps_method_sh; reflexivity.
Qed.

Lemma image_steps_sh c img eh :
  image_steps (shc d c) (shi d img) (map (fun x => (she d (fst x), snd x)) eh) = image_steps c img eh.
Proof.
  unfold image_steps, chain_cost. f_equal. f_equal.
  induction eh as [|[e h] tl IH]; cbn [map fold_right fst snd]; [reflexivity|]. rewrite elem_cost_sh, IH. reflexivity.
Qed.

Lemma need_method_sh c ms : forall f id, need_method (shc d c) (map (shm d) ms) f id = need_method c ms f id.
Proof.
  induction f as [|f IH]; intros id; cbn [need_method]; [reflexivity|].
  rewrite nth_error_map. destruct (nth_error ms id) as [m|]; cbn [option_map]; [|reflexivity].
  change (m_callees (shm d m)) with (m_callees m). change (frame_of (shc d c) (shm d m)) with (frame_of c m).
  f_equal. induction (m_callees m) as [|x tl IHl]; cbn [fold_right]; [reflexivity|]. rewrite IH, IHl. reflexivity.
Qed.

Lemma Ntot_sh c img : Ntot (shc d c) (shi d img) = Ntot c img.
Proof.
  unfold Ntot, tb, Nmax, need_id. cbn [shi im_methods shc c_variant]. rewrite max_depth_sh, map_length.
  f_equal. induction (seq 0 (List.length (im_methods img))) as [|x tl IH]; cbn [fold_right]; [reflexivity|].
  rewrite need_method_sh, IH. reflexivity.
Qed.

(* THE THEOREM (plain variants): the files emitted for the generation addresses (I0, J0), loaded
   at (I0 + d, J0 + d) for ANY multiple d of 4 (the same relative layout; data and stacks anywhere),
   run to the halt address in exactly the same number of steps as at the generation address:
   the entry conditions below speak about the ORIGINAL image's files *)
Theorem plain_image_runs_relocated c script img :
  successful c script img -> plain c -> (uses_tramp (c_variant c) = true -> c_data_reg c <> 6) ->
  cfg_ok (shc d c) = true ->
  forall L s0, Init (shc d c) (shi d img) (Ntot c img) L s0 -> code_lo L = int_start_al c + d ->
    code_hi L - code_lo L < 2147483648 - 2048 -> pics_encodable (shi d img) ->
    (forall r o, In (r, o) int_slots -> 0 <= rget s0 r < W64) ->
    exists s' eh, map fst eh = im_elements img /\
      run (gv c) L (image_steps c img eh) s0 = (Next s', image_steps c img eh) /\ pc s' = halt_at L /\
      dom s' = 0 /\ cfi s' = [].
Proof.
  intros Hs Hp H6 Hc' L s0 HI Hat Hsm Hpe Hr.
  pose proof (successful_sh c script img Hs Hc') as Hs'.
  assert (Hp' : plain (shc d c)) by exact Hp.
  assert (H6' : uses_tramp (c_variant (shc d c)) = true -> c_data_reg (shc d c) <> 6) by exact H6.
  rewrite <- (Ntot_sh c img) in HI.
  assert (Hat' : code_lo L = int_start_al (shc d c)) by (rewrite (int_start_sh d Hd4 c); exact Hat).
  destruct (plain_image_from_files (shc d c) script (shi d img) Hs' Hp' H6' L s0 _ HI eq_refl Hat' Hsm Hpe Hr)
    as (s' & eh' & E1 & _ & R & P & _ & _ & D & C).
  cbn [shi im_elements] in E1.
  (* eh' pairs the shifted elements; un-shift them *)
  assert (Hex : exists eh, map fst eh = im_elements img /\ eh' = map (fun x => (she d (fst x), snd x)) eh).
  { clear - E1. revert eh' E1. induction (im_elements img) as [|e tl IH]; intros eh' E1.
    - destruct eh'; [|discriminate]. exists []. split; reflexivity.
    - destruct eh' as [|[e' h] tl']; [discriminate|]. cbn [map fst] in E1. inversion E1 as [[E2 E3]].
      destruct (IH tl' E3) as (eh & F1 & F2). exists ((e, h) :: eh). cbn [map fst snd]. rewrite F1, F2. split; reflexivity. }
  destruct Hex as (eh & F1 & F2). subst eh'. rewrite image_steps_sh in R.
  exists s', eh. change (gv (shc d c)) with (gv c) in R. auto.
Qed.

Lemma cfg_ok_sh c : cfg_ok c = true -> 0 <= c_int_start c + d -> cfg_ok (shc d c) = true.
Proof.
  intros Hc H0. unfold cfg_ok in *. apply andb_prop in Hc. destruct Hc as [Hc Hw]. apply andb_prop in Hc. destruct Hc as [Hc Hp].
  apply andb_prop in Hc. destruct Hc as [Hs Hr].
  change (cfg_registers (shc d c)) with (cfg_registers c). change (cfg_pic_regs (shc d c)) with (cfg_pic_regs c).
  change (cfg_weights (shc d c)) with (cfg_weights c). rewrite Hr, Hp, Hw, !andb_true_r.
  unfold cfg_sizes in *. cbn [shc c_nb_methods c_jit_size c_data_size c_var_mean c_occ_mean c_pics_ratio c_mean_case c_depth_mean c_int_start c_jit_start].
  repeat (apply andb_prop in Hs; destruct Hs as [Hs ?]).
  apply Z.leb_le in H1. rewrite Hs, H8, H7, H6, H5, H4, H3, H2. cbn [andb].
  apply andb_true_intro; split; apply Z.leb_le; lia.
Qed.

(* ---- the same for the three protected variants ---- *)
Lemma ss_need_sh ms : forall f id, MethodContractRimi.ss_need (map (shm d) ms) f id = MethodContractRimi.ss_need ms f id.
Proof.
  induction f as [|f IH]; intros id; cbn [MethodContractRimi.ss_need]; [reflexivity|].
  rewrite nth_error_map. destruct (nth_error ms id) as [m|]; cbn [option_map]; [|reflexivity].
  change (m_callees (shm d m)) with (m_callees m). change (m_is_leaf (shm d m)) with (m_is_leaf m).
  f_equal. induction (m_callees m) as [|x tl IHl]; cbn [fold_right]; [reflexivity|]. rewrite IH, IHl. reflexivity.
Qed.

Lemma unshift_eh (es : list elt) : forall eh' : list (elt * Z), map fst eh' = map (she d) es ->
  exists eh, map fst eh = es /\ eh' = map (fun x => (she d (fst x), snd x)) eh.
Proof.
  induction es as [|e tl IH]; intros eh' E1.
  - destruct eh'; [|discriminate]. exists []. split; reflexivity.
  - destruct eh' as [|[e' h] tl']; [discriminate|]. cbn [map fst] in E1. inversion E1 as [[E2 E3]].
    destruct (IH tl' E3) as (eh & F1 & F2). exists ((e, h) :: eh). cbn [map fst snd]. rewrite F1, F2. split; reflexivity.
Qed.

(* RIMI shadow-stack *)
Lemma rNtot_sh c img : WholeImageRimi.rNtot (shc d c) (shi d img) = WholeImageRimi.rNtot c img.
Proof.
  unfold WholeImageRimi.rNtot, WholeImageRimi.rtb, WholeImageRimi.rNmax, WholeImageRimi.rneed_id. cbn [shi im_methods]. rewrite max_depth_sh, map_length.
  f_equal. induction (seq 0 (List.length (im_methods img))) as [|x tl IH]; cbn [fold_right]; [reflexivity|].
  rewrite need_method_sh, IH. reflexivity.
Qed.
Lemma SSmax_sh img : WholeImageRimi.SSmax (shi d img) = WholeImageRimi.SSmax img.
Proof.
  unfold WholeImageRimi.SSmax, WholeImageRimi.ssn_id. cbn [shi im_methods]. rewrite max_depth_sh, map_length.
  induction (seq 0 (List.length (im_methods img))) as [|x tl IH]; cbn [fold_right]; [reflexivity|].
  rewrite ss_need_sh, IH. reflexivity.
Qed.
Lemma rimage_steps_sh img eh :
  WholeImageRimi.rimage_steps (shi d img) (map (fun x => (she d (fst x), snd x)) eh) = WholeImageRimi.rimage_steps img eh.
Proof.
  unfold WholeImageRimi.rimage_steps, WholeImageRimi.rchain_cost. f_equal. f_equal.
  induction eh as [|[e h] tl IH]; cbn [map fold_right fst snd]; [reflexivity|]. rewrite IH. f_equal.
  unfold WholeImageRimi.relem_cost, WholeImageRimi.rmsteps. cbn [shi im_methods]. rewrite max_depth_sh.
  destruct e as [id|p]; cbn [she shp p_methods]; rewrite steps_method_sh; reflexivity.
Qed.

Theorem rimiss_image_runs_relocated c script img :
  successful c script img -> c_variant c = GRimiSS -> c_data_reg c <> 6 -> cfg_ok (shc d c) = true ->
  forall L s0, Init (shc d c) (shi d img) (WholeImageRimi.rNtot c img) L s0 -> code_lo L = int_start_al c + d ->
    code_hi L - code_lo L < 2147483648 - 2048 -> pics_encodable (shi d img) ->
    WholeImageRimi.SSmax img <= zlen (im_ss img) ->
    (forall r o, In (r, o) int_slots -> 0 <= rget s0 r < W64) ->
    exists s' eh, map fst eh = im_elements img /\
      run (gv c) L (WholeImageRimi.rimage_steps img eh) s0 = (Next s', WholeImageRimi.rimage_steps img eh) /\ pc s' = halt_at L /\
      rget s' 28 = ss_hi L /\ dom s' = 0 /\ cfi s' = [].
Proof.
  intros Hs Hv H6 Hc' L s0 HI Hat Hsm Hpe Hcap Hr.
  pose proof (successful_sh c script img Hs Hc') as Hs'.
  rewrite <- (rNtot_sh c img) in HI. rewrite <- (SSmax_sh img) in Hcap.
  assert (Hat' : code_lo L = int_start_al (shc d c)) by (rewrite (int_start_sh d Hd4 c); exact Hat).
  destruct (LoaderRimi.rimiss_image_from_files (shc d c) script (shi d img) Hs' Hv H6 L s0 HI Hat' Hsm Hpe Hcap Hr)
    as (s' & eh' & E1 & _ & R & P & _ & P28 & _ & D & C).
  cbn [shi im_elements] in E1. destruct (unshift_eh _ _ E1) as (eh & F1 & F2). subst eh'. rewrite rimage_steps_sh in R.
  exists s', eh. change (gv (shc d c)) with (gv c) in R. auto 10.
Qed.

(* RIMI full *)
Lemma fNtot_sh c img : WholeImageRimiFull.fNtot (shc d c) (shi d img) = WholeImageRimiFull.fNtot c img.
Proof.
  unfold WholeImageRimiFull.fNtot, WholeImageRimiFull.ftb, WholeImageRimiFull.fNmax, WholeImageRimiFull.fneed_id. cbn [shi im_methods]. rewrite max_depth_sh, map_length.
  f_equal. induction (seq 0 (List.length (im_methods img))) as [|x tl IH]; cbn [fold_right]; [reflexivity|].
  rewrite need_method_sh, IH. reflexivity.
Qed.
Lemma FSW_sh img : WholeImageRimiFull.FSW (shi d img) = WholeImageRimiFull.FSW img.
Proof.
  unfold WholeImageRimiFull.FSW, WholeImageRimiFull.FSSmax, WholeImageRimiFull.fssn_id. cbn [shi im_methods]. rewrite max_depth_sh, map_length. f_equal.
  induction (seq 0 (List.length (im_methods img))) as [|x tl IH]; cbn [fold_right]; [reflexivity|].
  rewrite ss_need_sh, IH. reflexivity.
Qed.
Lemma fimage_steps_sh img eh :
  WholeImageRimiFull.fimage_steps (shi d img) (map (fun x => (she d (fst x), snd x)) eh) = WholeImageRimiFull.fimage_steps img eh.
Proof.
  unfold WholeImageRimiFull.fimage_steps, WholeImageRimiFull.fchain_cost. f_equal. f_equal.
  induction eh as [|[e h] tl IH]; cbn [map fold_right fst snd]; [reflexivity|]. rewrite IH. f_equal.
  unfold WholeImageRimiFull.felem_cost, WholeImageRimiFull.fmsteps. cbn [shi im_methods]. rewrite max_depth_sh.
  destruct e as [id|p]; cbn [she shp p_methods]; rewrite steps_method_sh; reflexivity.
Qed.

Theorem rimifull_image_runs_relocated c script img :
  successful c script img -> c_variant c = GRimiFull -> c_data_reg c <> 6 -> cfg_ok (shc d c) = true ->
  forall L s0, Init (shc d c) (shi d img) (WholeImageRimiFull.fNtot c img) L s0 -> code_lo L = int_start_al c + d ->
    code_hi L - code_lo L < 2147483648 - 2048 -> pics_encodable (shi d img) ->
    WholeImageRimiFull.FSW img <= zlen (im_ss img) ->
    (forall r o, In (r, o) int_slots -> 0 <= rget s0 r < W64) ->
    exists s' eh, map fst eh = im_elements img /\
      run (gv c) L (WholeImageRimiFull.fimage_steps img eh) s0 = (Next s', WholeImageRimiFull.fimage_steps img eh) /\ pc s' = halt_at L /\
      rget s' 28 = ss_hi L /\ dom s' = 0 /\ cfi s' = [].
Proof.
  intros Hs Hv H6 Hc' L s0 HI Hat Hsm Hpe Hcap Hr.
  pose proof (successful_sh c script img Hs Hc') as Hs'.
  rewrite <- (fNtot_sh c img) in HI. rewrite <- (FSW_sh img) in Hcap.
  assert (Hat' : code_lo L = int_start_al (shc d c)) by (rewrite (int_start_sh d Hd4 c); exact Hat).
  destruct (LoaderRimiFull.rimifull_image_from_files (shc d c) script (shi d img) Hs' Hv H6 L s0 HI Hat' Hsm Hpe Hcap Hr)
    as (s' & eh' & E1 & _ & R & P & _ & P28 & _ & D & C).
  cbn [shi im_elements] in E1. destruct (unshift_eh _ _ E1) as (eh & F1 & F2). subst eh'. rewrite fimage_steps_sh in R.
  exists s', eh. change (gv (shc d c)) with (gv c) in R. auto 10.
Qed.

(* FIXER *)
Lemma steps_fixer_sh ms : forall f id, MethodContractFixer.steps_fixer (map (shm d) ms) f id = MethodContractFixer.steps_fixer ms f id.
Proof.
  induction f as [|f IH]; intros id; cbn [MethodContractFixer.steps_fixer]; [reflexivity|].
  rewrite nth_error_map. destruct (nth_error ms id) as [m|]; cbn [option_map]; [|reflexivity].
  change (m_instrs (shm d m)) with (m_instrs m). change (m_callees (shm d m)) with (m_callees m).
  f_equal. induction (m_callees m) as [|x tl IHl]; cbn [fold_right]; [reflexivity|]. rewrite IH, IHl. reflexivity.
Qed.
Lemma xNtot_sh c img : WholeImageFixer.xNtot (shc d c) (shi d img) = WholeImageFixer.xNtot c img.
Proof.
  unfold WholeImageFixer.xNtot, WholeImageFixer.xtb, WholeImageFixer.xNmax, WholeImageFixer.xneed_id. cbn [shi im_methods]. rewrite max_depth_sh, map_length.
  f_equal. induction (seq 0 (List.length (im_methods img))) as [|x tl IH]; cbn [fold_right]; [reflexivity|].
  rewrite need_method_sh, IH. reflexivity.
Qed.
Lemma ximage_steps_sh img eh :
  WholeImageFixer.ximage_steps (shi d img) (map (fun x => (she d (fst x), snd x)) eh) = WholeImageFixer.ximage_steps img eh.
Proof.
  unfold WholeImageFixer.ximage_steps, WholeImageFixer.xchain_cost. f_equal. f_equal.
  induction eh as [|[e h] tl IH]; cbn [map fold_right fst snd]; [reflexivity|]. rewrite IH. f_equal.
  unfold WholeImageFixer.xelem_cost, WholeImageFixer.xmsteps. cbn [shi im_methods]. rewrite max_depth_sh.
  destruct e as [id|p]; cbn [she shp p_methods]; rewrite steps_fixer_sh; reflexivity.
Qed.

Theorem fixer_image_runs_relocated c script img :
  successful c script img -> c_variant c = GFixer -> c_data_reg c <> 6 -> cfg_ok (shc d c) = true ->
  forall L s0, Init (shc d c) (shi d img) (WholeImageFixer.xNtot c img) L s0 -> code_lo L = int_start_al c + d ->
    code_hi L - code_lo L < 2147483648 - 2048 -> pics_encodable (shi d img) ->
    (forall r o, In (r, o) int_slots -> 0 <= rget s0 r < W64) ->
    exists s' eh, map fst eh = im_elements img /\
      run (gv c) L (WholeImageFixer.ximage_steps img eh) s0 = (Next s', WholeImageFixer.ximage_steps img eh) /\ pc s' = halt_at L /\
      dom s' = 0 /\ cfi s' = [].
Proof.
  intros Hs Hv H6 Hc' L s0 HI Hat Hsm Hpe Hr.
  pose proof (successful_sh c script img Hs Hc') as Hs'.
  rewrite <- (xNtot_sh c img) in HI.
  assert (Hat' : code_lo L = int_start_al (shc d c)) by (rewrite (int_start_sh d Hd4 c); exact Hat).
  destruct (LoaderFixer.fixer_image_from_files (shc d c) script (shi d img) Hs' Hv H6 L s0 HI Hat' Hsm Hpe Hr)
    as (s' & eh' & E1 & _ & R & P & _ & _ & D & C).
  cbn [shi im_elements] in E1. destruct (unshift_eh _ _ E1) as (eh & F1 & F2). subst eh'. rewrite ximage_steps_sh in R.
  exists s', eh. change (gv (shc d c)) with (gv c) in R. auto 10.
Qed.
End RR.

Print Assumptions plain_image_runs_relocated.
Print Assumptions rimiss_image_runs_relocated.
Print Assumptions rimifull_image_runs_relocated.
Print Assumptions fixer_image_runs_relocated.
