(* CallFrameRimi.v — Layer B (specification side): the call-making frame of the two
   RIMI variants.  The return address never touches the main stack:
       addi sp,sp,-24 ; sd s0,0(sp) ; addi t3,t3,-8 ; sst ra,0(t3)        ...
       ld s0,0(sp) ; addi sp,sp,24 ; lst ra,0(t3) ; addi t3,t3,8 ; ret
   (t3 = x28 is the shadow-stack pointer; sst / lst reach the shadow-stack region only) *)
From Coq Require Import ZArith List Bool Lia FMapPositive.
From Gigue Require Import Isa Machine MachineLemmas BodyExec FrameExec CodeMem CallFrame.
Import ListNotations.
Open Scope Z_scope.

Definition rimi_call_pro : list instr := [Iop ADDI 2 2 (-24); Store SD 2 8 0; Iop ADDI 28 28 (-8); Sst 28 1 0].
Definition rimi_call_epi : list instr := [Load LD 8 2 0; Iop ADDI 2 2 24; Lst 1 28 0; Iop ADDI 28 28 8; Jalr 0 1 0].

Section CFR.
Variable v : variant.
Variable L : layout.
Hypothesis Hstk_code : code_hi L <= stk_lo L \/ stk_hi L <= code_lo L.
Hypothesis Hss_code : code_hi L <= ss_lo L \/ ss_hi L <= code_lo L.
Hypothesis Hss_pos : 0 <= ss_lo L.

Lemma shadow_ok s a st :
  a mod 8 = 0 -> ss_lo L <= a -> a + 8 <= ss_hi L -> access_ok v L AShadow (dom s) a 8 st = None.
Proof.
  intros Hm Hlo Hhi. unfold access_ok, inr. rewrite Hm, Z.eqb_refl. cbn [negb].
  destruct ((code_lo L <=? a) && (a + 8 <=? code_hi L)) eqn:Ec.
  { apply andb_prop in Ec. destruct Ec as [E1 E2]. apply Z.leb_le in E1. apply Z.leb_le in E2. lia. }
  assert (Es : (ss_lo L <=? a) && (a + 8 <=? ss_hi L) = true).
  { apply andb_true_intro. split; apply Z.leb_le; lia. }
  rewrite Es. reflexivity.
Qed.

(* prologue: four steps; s0 goes to the main stack, ra to the shadow stack *)
Lemma rimi_call_pro_exec s A :
  pc s = A -> let S := rget s 2 in let P := rget s 28 in
  S mod 8 = 0 -> 24 <= S < W64 -> stk_lo L <= S - 24 -> S <= stk_hi L ->
  P mod 8 = 0 -> 8 <= P < W64 -> ss_lo L <= P - 8 -> P <= ss_hi L ->
  exists s', exec_at v L A rimi_call_pro s = Next s' /\ pc s' = A + 16 /\
    rget s' 2 = S - 24 /\ rget s' 28 = P - 8 /\
    (forall r, 0 <= r -> r <> 2 -> r <> 28 -> rget s' r = rget s r) /\
    mem s' = store_bytes (store_bytes (mem s) (S - 24) 8 (rget s 8)) (P - 8) 8 (rget s 1) /\
    dom s' = dom s /\ cfi s' = cfi s.
Proof.
  intros Hpc S P Hal Hr Hlo Hhi HPal HPr HPlo HPhi. unfold rimi_call_pro. cbn [exec_at]. rewrite Hpc, Z.eqb_refl. cbn [exec alui]. rewrite !Hpc.
  set (s1 := set_pc (rset s 2 (u64 (rget s 2 + -24))) (A + 4)).
  assert (Hsp1 : rget s1 2 = S - 24).
  { unfold s1. rewrite rget_set_pc, rget_rset_same by lia. rewrite u64_idem. apply u64_small. fold S. lia. }
  assert (Hr1 : forall r, 0 <= r -> r <> 2 -> rget s1 r = rget s r).
  { intros r Hr0 Hne. unfold s1. rewrite rget_set_pc. apply rget_rset_other; lia. }
  change (pc s1) with (A + 4). rewrite Z.eqb_refl. unfold do_store. cbn [swidth]. change (Z.of_nat 8) with 8.
  replace (u64 (rget s1 2 + 0)) with (S - 24) by (rewrite Hsp1, Z.add_0_r; symmetry; apply u64_small; lia).
  rewrite (stack_ok v L Hstk_code s1 (S - 24) true) by (try lia; Z.div_mod_to_equations; lia).
  set (s2 := set_pc (set_mem s1 (store_bytes (mem s1) (S - 24) 8 (rget s1 8))) (pc s1 + 4)).
  change (pc s2) with (A + 4 + 4). rewrite Z.eqb_refl.
  set (s3 := set_pc (rset s2 28 (u64 (rget s2 28 + -8))) (A + 4 + 4 + 4)).
  change (pc s3) with (A + 4 + 4 + 4). rewrite Z.eqb_refl.
  assert (Hr2 : forall r, rget s2 r = rget s1 r) by (intros r; reflexivity).
  assert (Hp3 : rget s3 28 = P - 8).
  { unfold s3. rewrite rget_set_pc, rget_rset_same by lia. rewrite u64_idem, Hr2, Hr1 by lia. apply u64_small. fold P. lia. }
  assert (Hr3 : forall r, 0 <= r -> r <> 28 -> rget s3 r = rget s2 r).
  { intros r Hr0 Hne. unfold s3. rewrite rget_set_pc. apply rget_rset_other; lia. }
  replace (u64 (rget s3 28 + 0)) with (P - 8) by (rewrite Hp3, Z.add_0_r; symmetry; apply u64_small; lia).
  assert (Hd3 : dom s3 = dom s).
  { unfold s3. cbn [set_pc dom]. rewrite dom_rset. unfold s2, s1. cbn [set_pc set_mem dom]. apply dom_rset. }
  rewrite (shadow_ok s3 (P - 8) true) by (try lia; Z.div_mod_to_equations; lia).
  eexists. split; [reflexivity|]. cbn [set_pc set_mem pc mem dom cfi].
  split; [lia|].
  split; [rewrite rget_set_pc, rget_set_mem, Hr3, Hr2 by lia; exact Hsp1|].
  split; [rewrite rget_set_pc, rget_set_mem; exact Hp3|].
  split.
  { intros r Hr0 N2 N28. rewrite rget_set_pc, rget_set_mem, Hr3, Hr2 by assumption. apply Hr1; assumption. }
  split.
  { rewrite (Hr3 1), (Hr2 1), (Hr1 1) by lia. unfold s3. cbn [set_pc mem]. rewrite mem_rset.
    unfold s2. cbn [set_pc set_mem mem]. rewrite (Hr1 8) by lia. unfold s1. cbn [set_pc mem]. rewrite mem_rset. reflexivity. }
  split; [exact Hd3|].
  unfold s3. cbn [set_pc cfi]. rewrite cfi_rset. unfold s2, s1. cbn [set_pc set_mem cfi]. apply cfi_rset.
Qed.

(* epilogue: five steps, from a state whose main-stack slot holds s0e and whose
   shadow slot holds rae; the return target is the SHADOW slot's content *)
Lemma rimi_call_epi_exec s A S P s0e rae :
  pc s = A -> rget s 2 = S - 24 -> rget s 28 = P - 8 ->
  S mod 8 = 0 -> 24 <= S < W64 -> stk_lo L <= S - 24 -> S <= stk_hi L ->
  P mod 8 = 0 -> 8 <= P < W64 -> ss_lo L <= P - 8 -> P <= ss_hi L ->
  load_bytes (mem s) (S - 24) 8 = s0e -> load_bytes (mem s) (P - 8) 8 = rae ->
  0 <= s0e < W64 -> 0 <= rae < W64 ->
  exists s', exec_at v L A rimi_call_epi s = Next s' /\ pc s' = (u64 (rae + 0) / 2) * 2 /\
    rget s' 2 = S /\ rget s' 28 = P /\ rget s' 8 = s0e /\ rget s' 1 = rae /\
    (forall r, 0 <= r -> r <> 1 -> r <> 2 -> r <> 8 -> r <> 28 -> rget s' r = rget s r) /\
    mem s' = mem s /\ dom s' = dom s /\ cfi s' = cfi s.
Proof.
  intros Hpc Hsp Hssp Hal Hr Hlo Hhi HPal HPr HPlo HPhi Hl0 Hl1 H0 H1. unfold rimi_call_epi. cbn [exec_at]. rewrite Hpc, Z.eqb_refl. cbn [exec].
  unfold do_load. cbn [lwidth lext]. change (Z.of_nat 8) with 8.
  replace (u64 (rget s 2 + 0)) with (S - 24) by (rewrite Hsp, Z.add_0_r; symmetry; apply u64_small; lia).
  rewrite (stack_ok v L Hstk_code s (S - 24) false) by (try lia; Z.div_mod_to_equations; lia). rewrite Hl0.
  set (s1 := set_pc (rset s 8 s0e) (pc s + 4)).
  assert (Hpc1 : pc s1 = A + 4) by (unfold s1; cbn [set_pc pc]; lia).
  rewrite Hpc1, Z.eqb_refl. cbn [alui].
  assert (Hsp1 : rget s1 2 = S - 24) by (unfold s1; rewrite rget_set_pc, rget_rset_other by lia; exact Hsp).
  set (s2 := set_pc (rset s1 2 (u64 (rget s1 2 + 24))) (A + 4 + 4)).
  assert (Hpc2 : pc s2 = A + 4 + 4) by reflexivity.
  rewrite Hpc2, Z.eqb_refl.
  assert (Hp2 : rget s2 28 = P - 8).
  { unfold s2. rewrite rget_set_pc, rget_rset_other by lia. unfold s1. rewrite rget_set_pc, rget_rset_other by lia. exact Hssp. }
  replace (u64 (rget s2 28 + 0)) with (P - 8) by (rewrite Hp2, Z.add_0_r; symmetry; apply u64_small; lia).
  assert (Hm2 : mem s2 = mem s) by (unfold s2, s1; cbn [set_pc mem]; rewrite !mem_rset; reflexivity).
  rewrite (shadow_ok s2 (P - 8) false) by (try lia; Z.div_mod_to_equations; lia).
  rewrite Hm2, Hl1.
  set (s3 := set_pc (rset s2 1 rae) (A + 4 + 4 + 4)).
  assert (Hpc3 : pc s3 = A + 4 + 4 + 4) by reflexivity.
  rewrite Hpc3, Z.eqb_refl.
  set (s4 := set_pc (rset s3 28 (u64 (rget s3 28 + 8))) (A + 4 + 4 + 4 + 4)).
  assert (Hpc4 : pc s4 = A + 4 + 4 + 4 + 4) by reflexivity.
  rewrite Hpc4, Z.eqb_refl.
  eexists. split; [reflexivity|]. rewrite rset_zero.
  assert (R42 : rget s4 2 = S).
  { unfold s4. rewrite rget_set_pc, rget_rset_other by lia. unfold s3. rewrite rget_set_pc, rget_rset_other by lia.
    unfold s2. rewrite rget_set_pc, rget_rset_same by lia. rewrite u64_idem, Hsp1. replace (S - 24 + 24) with S by lia. apply u64_small; lia. }
  assert (R41 : rget s4 1 = rae).
  { unfold s4. rewrite rget_set_pc, rget_rset_other by lia. unfold s3. rewrite rget_set_pc, rget_rset_same by lia. apply u64_small; lia. }
  assert (R48 : rget s4 8 = s0e).
  { unfold s4. rewrite rget_set_pc, rget_rset_other by lia. unfold s3. rewrite rget_set_pc, rget_rset_other by lia.
    unfold s2. rewrite rget_set_pc, rget_rset_other by lia. unfold s1. rewrite rget_set_pc, rget_rset_same by lia. apply u64_small; lia. }
  assert (R428 : rget s4 28 = P).
  { unfold s4. rewrite rget_set_pc, rget_rset_same by lia. rewrite u64_idem.
    unfold s3. rewrite rget_set_pc, rget_rset_other by lia. rewrite Hp2. replace (P - 8 + 8) with P by lia. apply u64_small; lia. }
  split; [cbn [set_pc pc]; rewrite R41; reflexivity|].
  split; [rewrite rget_set_pc; exact R42|]. split; [rewrite rget_set_pc; exact R428|].
  split; [rewrite rget_set_pc; exact R48|]. split; [rewrite rget_set_pc; exact R41|].
  split.
  { intros r Hr0 N1 N2 N8 N28. rewrite rget_set_pc. unfold s4. rewrite rget_set_pc, rget_rset_other by lia.
    unfold s3. rewrite rget_set_pc, rget_rset_other by lia. unfold s2. rewrite rget_set_pc, rget_rset_other by lia.
    unfold s1. rewrite rget_set_pc, rget_rset_other by lia. reflexivity. }
  split; [cbn [set_pc mem]; unfold s4, s3; cbn [set_pc mem]; rewrite !mem_rset; exact Hm2|].
  split; [cbn [set_pc dom]; unfold s4, s3, s2, s1; cbn [set_pc dom]; rewrite !dom_rset; reflexivity|].
  cbn [set_pc cfi]; unfold s4, s3, s2, s1; cbn [set_pc cfi]; rewrite !cfi_rset; reflexivity.
Qed.
End CFR.
