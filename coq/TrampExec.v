(* TrampExec.v — Layer B (specification side): the call / return trampoline pair
   of the trampoline variant without isolation:
     call_jit_elt:      addi sp,sp,-8 ; sd ra,0(sp) ; auipc ra,0 ; addi ra,ra,12 ; jr t1
     ret_from_jit_elt:  ld ra,0(sp) ; addi sp,sp,8 ; ret
   (the return trampoline starts right after the call trampoline: ra = call + 20) *)
From Coq Require Import ZArith List Bool Lia FMapPositive.
From Gigue Require Import Isa Machine MachineLemmas BodyExec FrameExec CodeMem CallFrame.
Import ListNotations.
Open Scope Z_scope.

Definition tramp_call : list instr := [Iop ADDI 2 2 (-8); Store SD 2 1 0; Auipc 1 0; Iop ADDI 1 1 12; Jalr 0 6 0].
Definition tramp_ret : list instr := [Load LD 1 2 0; Iop ADDI 2 2 8; Jalr 0 1 0].

Section TE.
Variable v : variant.
Variable L : layout.
Hypothesis Hstk_code : code_hi L <= stk_lo L \/ stk_hi L <= code_lo L.
Hypothesis Hstk_pos : 0 <= stk_lo L.

(* call trampoline: five steps; the caller's ra is pushed, ra := the return trampoline, jump to t1 *)
Lemma tramp_call_exec s T :
  pc s = T -> let S := rget s 2 in
  S mod 8 = 0 -> 8 <= S < W64 -> stk_lo L <= S - 8 -> S <= stk_hi L -> 0 <= T -> T + 20 < W64 ->
  exists s', exec_at v L T tramp_call s = Next s' /\ pc s' = (u64 (rget s 6 + 0) / 2) * 2 /\
    rget s' 2 = S - 8 /\ rget s' 1 = T + 20 /\
    (forall r, 0 <= r -> r <> 1 -> r <> 2 -> rget s' r = rget s r) /\
    mem s' = store_bytes (mem s) (S - 8) 8 (rget s 1) /\ dom s' = dom s /\ cfi s' = cfi s.
Proof.
  intros Hpc S Hal Hr Hlo Hhi HT0 HT1. unfold tramp_call. cbn [exec_at]. rewrite Hpc, Z.eqb_refl. cbn [exec alui]. rewrite !Hpc.
  set (s1 := set_pc (rset s 2 (u64 (rget s 2 + -8))) (T + 4)).
  assert (Hsp1 : rget s1 2 = S - 8).
  { unfold s1. rewrite rget_set_pc, rget_rset_same by lia. rewrite u64_idem. apply u64_small. fold S. lia. }
  assert (Hr1 : forall r, 0 <= r -> r <> 2 -> rget s1 r = rget s r).
  { intros r Hr0 Hne. unfold s1. rewrite rget_set_pc. apply rget_rset_other; lia. }
  change (pc s1) with (T + 4). rewrite Z.eqb_refl. unfold do_store. cbn [swidth]. change (Z.of_nat 8) with 8.
  replace (u64 (rget s1 2 + 0)) with (S - 8) by (rewrite Hsp1, Z.add_0_r; symmetry; apply u64_small; lia).
  rewrite (stack_ok v L Hstk_code s1 (S - 8) true) by (try lia; Z.div_mod_to_equations; lia).
  set (s2 := set_pc (set_mem s1 (store_bytes (mem s1) (S - 8) 8 (rget s1 1))) (pc s1 + 4)).
  change (pc s2) with (T + 4 + 4). rewrite Z.eqb_refl.
  set (s3 := set_pc (rset s2 1 (T + 4 + 4 + 0 * 4096)) (T + 4 + 4 + 4)).
  change (pc s3) with (T + 4 + 4 + 4). rewrite Z.eqb_refl.
  set (s4 := set_pc (rset s3 1 (u64 (rget s3 1 + 12))) (T + 4 + 4 + 4 + 4)).
  change (pc s4) with (T + 4 + 4 + 4 + 4). rewrite Z.eqb_refl. rewrite rset_zero.
  eexists. split; [reflexivity|].
  assert (R31 : rget s3 1 = T + 8).
  { unfold s3. rewrite rget_set_pc, rget_rset_same by lia. rewrite u64_small by lia. lia. }
  assert (R41 : rget s4 1 = T + 20).
  { unfold s4. rewrite rget_set_pc, rget_rset_same by lia. rewrite u64_idem, R31. rewrite u64_small by lia. lia. }
  assert (Hr4 : forall r, 0 <= r -> r <> 1 -> rget s4 r = rget s1 r).
  { intros r Hr0 Hne. unfold s4. rewrite rget_set_pc, rget_rset_other by lia. unfold s3. rewrite rget_set_pc, rget_rset_other by lia.
    reflexivity. }
  split; [cbn [set_pc pc]; rewrite (Hr4 6), (Hr1 6) by lia; reflexivity|].
  split; [rewrite rget_set_pc, (Hr4 2) by lia; exact Hsp1|].
  split; [rewrite rget_set_pc; exact R41|].
  split; [intros r Hr0 N1 N2; rewrite rget_set_pc, (Hr4 r), (Hr1 r) by lia; reflexivity|].
  split.
  { cbn [set_pc mem]. unfold s4, s3. cbn [set_pc mem]. rewrite !mem_rset. unfold s2. cbn [set_pc set_mem mem].
    rewrite (Hr1 1) by lia. unfold s1. cbn [set_pc mem]. rewrite mem_rset. reflexivity. }
  split; [cbn [set_pc dom]; unfold s4, s3; cbn [set_pc dom]; rewrite !dom_rset; unfold s2, s1; cbn [set_pc set_mem dom]; rewrite ?dom_rset; reflexivity|].
  cbn [set_pc cfi]; unfold s4, s3; cbn [set_pc cfi]; rewrite !cfi_rset; unfold s2, s1; cbn [set_pc set_mem cfi]; rewrite ?cfi_rset; reflexivity.
Qed.

(* return trampoline: three steps; the saved ra is popped and jumped to *)
Lemma tramp_ret_exec s A S rae :
  pc s = A -> rget s 2 = S - 8 ->
  S mod 8 = 0 -> 8 <= S < W64 -> stk_lo L <= S - 8 -> S <= stk_hi L ->
  load_bytes (mem s) (S - 8) 8 = rae -> 0 <= rae < W64 ->
  exists s', exec_at v L A tramp_ret s = Next s' /\ pc s' = (u64 (rae + 0) / 2) * 2 /\
    rget s' 2 = S /\ rget s' 1 = rae /\
    (forall r, 0 <= r -> r <> 1 -> r <> 2 -> rget s' r = rget s r) /\
    mem s' = mem s /\ dom s' = dom s /\ cfi s' = cfi s.
Proof.
  intros Hpc Hsp Hal Hr Hlo Hhi Hl0 H0. unfold tramp_ret. cbn [exec_at]. rewrite Hpc, Z.eqb_refl. cbn [exec].
  unfold do_load. cbn [lwidth lext]. change (Z.of_nat 8) with 8.
  replace (u64 (rget s 2 + 0)) with (S - 8) by (rewrite Hsp, Z.add_0_r; symmetry; apply u64_small; lia).
  rewrite (stack_ok v L Hstk_code s (S - 8) false) by (try lia; Z.div_mod_to_equations; lia). rewrite Hl0.
  set (s1 := set_pc (rset s 1 rae) (pc s + 4)).
  assert (Hpc1 : pc s1 = A + 4) by (unfold s1; cbn [set_pc pc]; lia).
  rewrite Hpc1, Z.eqb_refl. cbn [alui].
  assert (Hsp1 : rget s1 2 = S - 8) by (unfold s1; rewrite rget_set_pc, rget_rset_other by lia; exact Hsp).
  set (s2 := set_pc (rset s1 2 (u64 (rget s1 2 + 8))) (A + 4 + 4)).
  change (pc s2) with (A + 4 + 4). rewrite Z.eqb_refl.
  eexists. split; [reflexivity|]. rewrite rset_zero.
  assert (R2 : rget s2 2 = S).
  { unfold s2. rewrite rget_set_pc, rget_rset_same by lia. rewrite u64_idem, Hsp1. replace (S - 8 + 8) with S by lia. apply u64_small; lia. }
  assert (R1 : rget s2 1 = rae).
  { unfold s2. rewrite rget_set_pc, rget_rset_other by lia. unfold s1. rewrite rget_set_pc, rget_rset_same by lia. apply u64_small; lia. }
  split; [cbn [set_pc pc]; rewrite R1; reflexivity|].
  split; [rewrite rget_set_pc; exact R2|]. split; [rewrite rget_set_pc; exact R1|].
  split.
  { intros r Hr0 N1 N2. rewrite rget_set_pc. unfold s2. rewrite rget_set_pc, rget_rset_other by lia.
    unfold s1. rewrite rget_set_pc, rget_rset_other by lia. reflexivity. }
  split; [cbn [set_pc mem]; unfold s2, s1; cbn [set_pc mem]; rewrite !mem_rset; reflexivity|].
  split; [cbn [set_pc dom]; unfold s2, s1; cbn [set_pc dom]; rewrite !dom_rset; reflexivity|].
  cbn [set_pc cfi]; unfold s2, s1; cbn [set_pc cfi]; rewrite !cfi_rset; reflexivity.
Qed.
End TE.
