(* FloatSign.v — sign facts about the binary64 operations of Samplers.v, derived
   directly from Coq's SpecFloat definitions (no real numbers, no axioms):
   a method body length  ceil(size * (1 +/- v))  with 0 <= v <= 1 is never negative. *)
From Coq Require Import ZArith List Bool Lia SpecFloat Zpower.
From Gigue Require Import Samplers SamplerProofs.
Open Scope Z_scope.

(* "not negative": +-0, positive finite, +inf (nan is tolerated: ceil rejects it) *)
Definition nn (x : fl) : bool :=
  match x with
  | S754_zero _ => true
  | S754_finite s _ _ => negb s
  | S754_infinity s => negb s
  | S754_nan => true
  end.

Lemma bra_sign s m e l :
  match binary_round_aux prec emax s m e l with
  | S754_zero s' | S754_infinity s' | S754_finite s' _ _ => s' = s
  | S754_nan => True
  end.
Proof.
  unfold binary_round_aux.
  destruct (shr_fexp prec emax m e l) as [mrs' e'].
  destruct (shr_fexp prec emax _ e' loc_Exact) as [mrs'' e''].
  destruct (shr_m mrs''); [reflexivity| |exact I].
  destruct (Zle_bool e'' (emax - prec)); reflexivity.
Qed.

Lemma bra_nn m e l : nn (binary_round_aux prec emax false m e l) = true.
Proof.
  pose proof (bra_sign false m e l) as H. destruct (binary_round_aux prec emax false m e l); cbn [nn]; try rewrite H; reflexivity.
Qed.

Lemma binary_round_nn m e : nn (binary_round prec emax false m e) = true.
Proof. unfold binary_round. destruct (shl_align _ _ _). apply bra_nn. Qed.

Lemma binary_normalize_nn z e sz : 0 <= z -> nn (binary_normalize prec emax z e sz) = true.
Proof. intros H. destruct z as [|p|p]; cbn [binary_normalize]; [reflexivity|apply binary_round_nn|lia]. Qed.

Lemma of_Z_nn z : 0 <= z -> nn (of_Z z) = true.
Proof. intros H. apply binary_normalize_nn. exact H. Qed.

(* the product of two non-negative values is non-negative (or nan) *)
Lemma fmul_nn a b : nn a = true -> nn b = true -> nn (fmul a b) = true.
Proof.
  unfold fmul, SFmul. destruct a as [[]|[]| |[] ma ea], b as [[]|[]| |[] mb eb]; cbn [nn negb xorb];
    intros Ha Hb; try discriminate; try reflexivity; apply bra_nn.
Qed.

Lemma fceil_finite_pos m e :
  fceil (S754_finite false m e) = Some (if 0 <=? e then Zpos m * 2 ^ e else - ((- Zpos m) / 2 ^ (- e))).
Proof. unfold fceil. destruct (0 <=? e); reflexivity. Qed.

Lemma fceil_nn x b : nn x = true -> fceil x = Some b -> 0 <= b.
Proof.
  destruct x as [s|s| |s m e]; intros Hn H.
  - cbn in H. injection H as <-. lia.
  - discriminate.
  - discriminate.
  - cbn [nn] in Hn. apply negb_true_iff in Hn. subst s. rewrite fceil_finite_pos in H.
    assert (Hb : (if 0 <=? e then Zpos m * 2 ^ e else - ((- Zpos m) / 2 ^ (- e))) = b) by congruence.
    rewrite <- Hb. clear H Hb. destruct (Z.leb_spec 0 e) as [E|E].
    + apply Z.mul_nonneg_nonneg; [lia|apply Z.pow_nonneg; lia].
    + assert (0 < 2 ^ (- e)) by (apply Z.pow_pos_nonneg; lia).
      assert ((- Zpos m) / 2 ^ (- e) <= 0); [|lia].
      apply Z.div_le_upper_bound; [assumption|lia].
Qed.

(* ---- 1 - v for a binary64 v in [0, 1] ---- *)
Lemma digits2_pos_bound m : Zpos m < 2 ^ Zpos (digits2_pos m).
Proof.
  induction m as [p IH|p IH|]; cbn [digits2_pos].
  - rewrite Pos2Z.inj_succ, Z.pow_succ_r by lia. lia.
  - rewrite Pos2Z.inj_succ, Z.pow_succ_r by lia. lia.
  - reflexivity.
Qed.

Lemma bounded_lt_2p53 m e : bounded prec emax m e = true -> Zpos m < 2 ^ 53.
Proof.
  unfold bounded, canonical_mantissa. intros H. apply andb_prop in H. destruct H as [H _].
  apply Zeq_bool_eq in H. unfold fexp, emin, prec, emax in H.
  pose proof (digits2_pos_bound m) as B.
  assert (Zpos (digits2_pos m) <= 53) by lia.
  eapply Z.lt_le_trans; [exact B|]. apply Z.pow_le_mono_r; lia.
Qed.

Lemma shl_align_val mx ex ez : ez <= ex -> Zpos (fst (shl_align mx ex ez)) = Zpos mx * 2 ^ (ex - ez).
Proof.
  intros H. unfold shl_align. destruct (ez - ex) as [|d|d] eqn:E; cbn [fst].
  - replace (ex - ez) with 0 by lia. cbn. lia.
  - lia.
  - rewrite shift_pos_correct. rewrite Zpower_pos_nat, Zpower_nat_Z, positive_nat_Z.
    replace (ex - ez) with (Zpos d) by lia. lia.
Qed.

Definition unit_float (v : fl) : Prop :=
  (exists s, v = S754_zero s) \/
  (exists m e, v = S754_finite false m e /\ bounded prec emax m e = true /\ fle v fone = true).

Lemma sub_nonneg_lt (P M d : Z) : 0 < P -> M < 2 * P -> 1 <= d -> 0 <= P * 2 ^ d + - (M * 1).
Proof.
  intros HP HM Hd. assert (2 ^ 1 <= 2 ^ d) by (apply Z.pow_le_mono_r; lia). change (2 ^ 1) with 2 in H. nia.
Qed.

Lemma one_m_val : Zpos one_m = 2 ^ 52.
Proof. reflexivity. Qed.

Lemma fone_minus_nn m e :
  bounded prec emax m e = true -> fle (S754_finite false m e) fone = true ->
  nn (fadd fone (S754_finite true m e)) = true.
Proof.
  intros Hb Hle. pose proof (bounded_lt_2p53 m e Hb) as Hm.
  rewrite fone_eq in Hle. rewrite fone_eq. pose proof one_m_val as Hone. remember one_m as P eqn:EP. clear EP.
  unfold fadd, SFadd.
  apply binary_normalize_nn. cbn [cond_Zopp].
  unfold fle, SFleb, SFcompare in Hle.
  destruct (Z.compare_spec e (-52)) as [E|E|E].
  - subst e. rewrite Z.min_id. rewrite !shl_align_val by lia.
    replace (-52 - -52) with 0 by lia. change (2 ^ 0) with 1. rewrite !Z.mul_1_r.
    destruct (Pos.compare_cont Eq m P) eqn:C; try discriminate.
    + apply Pos.compare_eq in C. subst m. lia.
    + change (Pos.compare_cont Eq m P) with (Pos.compare m P) in C. change (m < P)%positive in C. lia.
  - rewrite Z.min_r by lia. rewrite !shl_align_val by lia.
    replace (e - e) with 0 by lia. change (2 ^ 0) with 1.
    apply sub_nonneg_lt; [lia| |lia]. rewrite Hone. change (2 * 2 ^ 52) with (2 ^ 53). exact Hm.
  - discriminate.
Qed.

Lemma fmul_pm_one s1 s m e :
  bounded prec emax m e = true ->
  fmul (S754_finite s1 one_m (-52)) (S754_finite s m e) = S754_finite (xorb s1 s) m e.
Proof.
  intros Hb. unfold bounded in Hb. apply andb_prop in Hb. destruct Hb as [Hc He].
  unfold canonical_mantissa in Hc. apply Zeq_bool_eq in Hc.
  unfold fmul, SFmul.
  unfold binary_round_aux, shr_fexp.
  unfold Zdigits2. rewrite shift52_digits.
  replace (Zpos (digits2_pos m) + 52 + (-52 + e)) with (Zpos (digits2_pos m) + e) by lia.
  rewrite Hc. replace (e - (-52 + e)) with 52 by lia.
  cbn [shr shr_record_of_loc]. rewrite shr52.
  cbn [shr_m loc_of_shr_record round_nearest_even].
  replace (-52 + e + 52) with e by lia.
  unfold Zdigits2. rewrite Hc. rewrite Z.sub_diag. cbn [shr shr_record_of_loc shr_m].
  rewrite He. reflexivity.
Qed.

Lemma sign_of_cases u : sign_of u = S754_finite false one_m (-52) \/ sign_of u = S754_finite true one_m (-52).
Proof. unfold sign_of. destruct (flt fhalf u); [left|right]; vm_compute; reflexivity. Qed.

(* 1 + sign * v  is not negative *)
Lemma one_pm_v_nn u v : unit_float v -> nn (fadd fone (fmul (sign_of u) v)) = true.
Proof.
  intros [[s ->]|(m & e & -> & Hb & Hle)].
  - destruct (sign_of_cases u) as [-> | ->]; rewrite fone_eq; destruct s; vm_compute; reflexivity.
  - destruct (sign_of_cases u) as [-> | ->]; rewrite fmul_pm_one by exact Hb; cbn [xorb].
    + rewrite fone_eq. unfold fadd, SFadd. apply binary_normalize_nn. cbn [cond_Zopp]. lia.
    + apply fone_minus_nn; assumption.
Qed.

Theorem body_size_nonneg msz u v b :
  0 <= msz -> unit_float v -> body_size_of msz u v = Some b -> 0 <= b.
Proof.
  intros Hm Hv H. unfold body_size_of in H. eapply fceil_nn; [|exact H].
  apply fmul_nn; [apply of_Z_nn; exact Hm|apply one_pm_v_nn; exact Hv].
Qed.
