(* LoaderWitnessFixer.v — non-vacuity of LoaderFixer.fixer_image_from_files: a concrete
   machine state built from the FIXER witness image satisfies every
   hypothesis of the theorem. *)
From Coq Require Import ZArith List String Bool Lia.
From Gigue Require Import Types Bits Isa Enc GenTables Builder Samplers Generator Machine MachineLemmas ImageSem
  BodyExec FrameExec CodeMem GenWF5 GenWF7 MethodContract SaveRestore TrampExec TrampsInv TrampStubs WholeImage Loader Witness
  LoaderWitness GenWF9F WalkK FixerTamper FixerCall MethodContractFixer WholeImageFixer LoaderFixer WitnessFixer.
Import ListNotations.
Open Scope list_scope.
Open Scope Z_scope.

(* ---- the witness state ---- *)
Definition wimg_x : image :=
  match run_gen wcfg_fixer2 wscript_fixer2 with
  | OK (img, _) => img
  | Err _ => mk_image [] [] [] [] [] [] [] []
  end.

Lemma wimg_successful_x : successful wcfg_fixer2 wscript_fixer2 wimg_x.
Proof.
  unfold successful, wimg_x. split; [vm_compute; reflexivity|].
  destruct (run_gen wcfg_fixer2 wscript_fixer2) as [[img rest]|e] eqn:E.
  - assert (R : rest = []).
    { assert (X : match run_gen wcfg_fixer2 wscript_fixer2 with OK (_, []) => true | _ => false end = true)
        by (vm_compute; reflexivity).
      rewrite E in X. destruct rest; [reflexivity|discriminate]. }
    rewrite R. reflexivity.
  - assert (X : match run_gen wcfg_fixer2 wscript_fixer2 with OK _ => true | Err _ => false end = true)
      by (vm_compute; reflexivity).
    rewrite E in X. discriminate.
Qed.

Definition wwords_x : list Z := im_int wimg_x ++ im_jit wimg_x.

Definition wL_x : layout :=
  mk_layout 4096 5120 (5120 + 4 * zlen (im_jit wimg_x))
            1048576 (1048576 + zlen (im_data wimg_x))      (* data *)
            2097152 3145728                               (* stack: 1 MiB *)
            4194304 (4194304 + zlen (im_ss wimg_x))         (* shadow stack (unused by this variant) *)
            5242880.                                      (* the caller's return address *)

Definition ws0_x : mstate :=
  rset (rset (rset (rset (mk_mstate 4096 (PM.empty Z) (load_words (PM.empty Z) 4096 wwords_x) 0 []) 1 5242880) 2 3145728) 31 1048576)
       28 (4194304 + zlen (im_ss wimg_x)).

Lemma wwords_range_x : Forall (fun w => 0 <= w < 4294967296) wwords_x.
Proof.
  apply Forall_forall. intros w Hw.
  assert (H : forallb (fun w => (0 <=? w) && (w <? 4294967296)) wwords_x = true) by (vm_compute; reflexivity).
  rewrite forallb_forall in H. specialize (H w Hw). apply andb_prop in H. destruct H as [H1 H2].
  apply Z.leb_le in H1. apply Z.ltb_lt in H2. lia.
Qed.

Lemma ws0_init_x : Init wcfg_fixer2 wimg_x (xNtot wcfg_fixer2 wimg_x) wL_x ws0_x.
Proof.
  constructor.
  - vm_compute. split; [reflexivity|discriminate].
  - change (mem ws0_x) with (load_words (PM.empty Z) 4096 wwords_x). change (code_lo wL_x) with 4096.
    apply load_words_code_at; [lia|exact wwords_range_x].
  - vm_compute. reflexivity.
  - split; [reflexivity|]. vm_compute. reflexivity.
  - reflexivity.
  - split; [vm_compute; reflexivity|]. split; [vm_compute; reflexivity|].
    split; [vm_compute; discriminate|]. split; [vm_compute; discriminate|vm_compute; reflexivity].
  - split; [vm_compute; reflexivity|]. split; [vm_compute; reflexivity|].
    split; [vm_compute; split; [discriminate|reflexivity]|]. right. vm_compute. discriminate.
  - split; [vm_compute; reflexivity|]. split; [vm_compute; reflexivity|].
    split; [vm_compute; discriminate|]. split; [reflexivity|vm_compute; reflexivity].
  - exact I.
  - split; reflexivity.
  - unfold disjoint. repeat split; vm_compute; (left; discriminate) || (right; discriminate).
Qed.

(* every hypothesis of Loader.base_image_from_files is met by a concrete state,
   so its conclusion holds of it: the witness image runs to the halt address *)
Theorem fixer_image_from_files_nonvacuous :
  exists s' n, run (gv wcfg_fixer2) wL_x n ws0_x = (Next s', n) /\ pc s' = halt_at wL_x /\ dom s' = 0 /\ cfi s' = [].
Proof.
  destruct (fixer_image_from_files wcfg_fixer2 wscript_fixer2 wimg_x wimg_successful_x eq_refl ltac:(vm_compute; discriminate) wL_x ws0_x ws0_init_x)
    as (s' & eh & _ & _ & R & P & _ & _ & D & C).
  - reflexivity.
  - vm_compute. reflexivity.
  - apply pics_encodableb_sound. vm_compute. reflexivity.
  - intros r o Hin. unfold int_slots in Hin. cbn [In] in Hin.
    repeat (destruct Hin as [Hin|Hin]; [inversion Hin; subst; vm_compute; split; [discriminate|reflexivity]|]).
    destruct Hin.
  - exists s', (ximage_steps wimg_x eh). auto 10.
Qed.

(* the witness image does contain PICs and call-making methods (tagged calls, checked returns) *)
Example wimg_shape_x :
  existsb (fun e => match e with EPic _ => true | _ => false end) (im_elements wimg_x) = true /\
  existsb (fun m => negb (m_is_leaf m)) (im_methods wimg_x) = true.
Proof. repeat split; vm_compute; reflexivity. Qed.


(* ---- non-vacuity of the tamper theorem (MethodContractFixer.every_fixer_method_tamper_traps):
   a method of the witness image that makes three calls, entered with its return address registered ---- *)
Fixpoint first_nonleaf (ms : list method) (i : nat) : option (nat * method) :=
  match ms with
  | [] => None
  | m :: tl => match m_callees m with [] => first_nonleaf tl (Datatypes.S i) | _ => Some (i, m) end
  end.

Definition wid_x : nat := match first_nonleaf (im_methods wimg_x) 0 with Some (i, _) => i | None => O end.
Definition wm_x : method :=
  match first_nonleaf (im_methods wimg_x) 0 with Some (_, m) => m | None => mk_method 0 0 0 0 0 0 0 [] [] end.
Definition ws1_x : mstate := set_cfi (set_pc ws0_x (m_addr wm_x)) [5242880].

Theorem fixer_tamper_nonvacuous :
  nth_error (im_methods wimg_x) wid_x = Some wm_x /\ m_is_leaf wm_x = false /\ m_callees wm_x <> [] /\ 0 < m_body wm_x /\
  placed wcfg_fixer2 wimg_x wL_x /\ code_loaded wimg_x ws1_x /\ pc ws1_x = m_addr wm_x /\
  env_ok (gv wcfg_fixer2) wL_x (c_data_reg wcfg_fixer2) ws1_x /\
  (let N := need_method wcfg_fixer2 (im_methods wimg_x) (max_depth (im_methods wimg_x)) wid_x in
   let S := rget ws1_x 2 in
   S mod 8 = 0 /\ N <= S < W64 /\ stk_lo wL_x <= S - N /\ S <= stk_hi wL_x) /\
  0 <= rget ws1_x 8 < W64 /\ 0 <= rget ws1_x 1 < W64 /\ cfi ws1_x = rget ws1_x 1 :: [].
Proof.
  split; [vm_compute; reflexivity|]. split; [vm_compute; reflexivity|].
  split; [vm_compute; discriminate|]. split; [vm_compute; reflexivity|].
  split.
  { apply (xflat_placed wcfg_fixer2 wscript_fixer2 wimg_x wimg_successful_x wL_x ws0_x ws0_init_x); [reflexivity|vm_compute; reflexivity]. }
  split.
  { destruct (xflat_loaded wcfg_fixer2 wscript_fixer2 wimg_x wimg_successful_x wL_x ws0_x ws0_init_x eq_refl) as (H & _).
    assert (Em : mem ws1_x = mem ws0_x) by (unfold ws1_x, set_cfi, set_pc; cbn [mem]; reflexivity).
    unfold code_loaded in *. rewrite Em. exact H. }
  split; [unfold ws1_x, set_cfi, set_pc; cbn [pc]; reflexivity|].
  split; [constructor; [vm_compute; reflexivity|exact I]|].
  split; [vm_compute; repeat split; discriminate || reflexivity|].
  split; [vm_compute; split; [discriminate|reflexivity]|].
  split; [vm_compute; split; [discriminate|reflexivity]|].
  vm_compute. reflexivity.
Qed.


Print Assumptions fixer_image_from_files_nonvacuous.
Print Assumptions fixer_tamper_nonvacuous.
