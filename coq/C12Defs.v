(* C12Defs.v — the constructor universe and the statement of encoder fidelity.
   Definitions only. *)
From Coq Require Import ZArith List String Bool.
From Gigue Require Import Types Bits Isa Enc GenTables.
From Gigue Require Export CtorSpec.
Import ListNotations.
Open Scope string_scope.
Open Scope Z_scope.

Definition all_ctors : list ctor :=
  map (fun n => ("RInstruction", n)) r_ctor_names
  ++ map (fun n => ("IInstruction", n))
       (i_plain_names ++ ["slli"; "srli"; "srai"; "slliw"; "srliw"; "sraiw"; "jr"; "ret"; "nop"; "ebreak"; "ecall"])
  ++ [("UInstruction", "auipc"); ("UInstruction", "lui"); ("JInstruction", "jal"); ("JInstruction", "j")]
  ++ map (fun n => ("SInstruction", n)) s_ctor_names
  ++ map (fun n => ("BInstruction", n)) b_ctor_names
  ++ map (fun n => ("RIMIIInstruction", n)) (rimi_i_names ++ ["retdom"])
  ++ map (fun n => ("RIMISInstruction", n)) rimi_s_names
  ++ [("FIXERCustomInstruction", "cficall"); ("FIXERCustomInstruction", "cfiret")].

Definition apply_c (c : ctor) (args : list Z) : option gi :=
  apply_ctor base_table rimi_table fixer_table (fst c) (snd c) args.

(* Encoder fidelity for one constructor: on every in-range operand tuple the
   constructor succeeds, the word it emits is a 32-bit value whose
   little-endian bytes are what generate_bytes returns, and the independent
   decoder reads back exactly the intended instruction. *)
Definition ctor_faithful (c : ctor) : Prop :=
  forall args, wf_args c args = true ->
  exists g i,
    apply_c c args = Some g /\ meaning c args = Some i /\
    decode (ctor_ext c) (generate g) = Some i /\
    0 <= generate g < 4294967296 /\
    of_le_bytes32 (generate_bytes g) = generate g.
