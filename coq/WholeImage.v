(* WholeImage.v — Layer B, the whole image of the two variants without isolation
   (without and with the call / return trampolines): running the emitted
   interpreter + JIT image from the interpreter entry returns to the caller's
   return address after exactly the statically computed number of steps. *)
From Coq Require Import ZArith List String Bool Lia Permutation.
From Gigue Require Import Types Bits Isa IsaProofs Enc EncProofs GenTables Builder Samplers Generator GenLemmas
  Machine MachineLemmas ImageSem GenWF GenWFProps SliceLemmas GenWF2 GenWF3 GenWF4 GenWF2Props SplitProofs
  BodyExec BodyBridge GenWF5 FrameExec CodeMem SwitchExec GenWF6 GenWF7 GenWF8 GenWF9 Walk CallFrame MethodContract SaveRestore
  TrampExec TrampsInv TrampStubs Hits.
Import ListNotations.
Open Scope list_scope.
Open Scope Z_scope.

(* the interpreter frame *)
Definition int_slots : list (Z * Z) :=
  [(8, 0); (9, 8); (18, 16); (19, 24); (20, 32); (21, 40); (22, 48); (23, 56); (24, 64); (25, 72); (1, 80)].
Definition int_pro : list instr := Iop ADDI 2 2 (-88) :: stores int_slots.
Definition int_epi : list instr := loads int_slots ++ [Iop ADDI 2 2 88; Jalr 0 1 0].

Lemma int_frames_eq :
  exists pro epi, base_prologue 10 0 true = OK pro /\ base_epilogue 10 0 true = OK epi /\
                  decode_all ExtNone pro = Some int_pro /\ decode_all ExtNone epi = Some int_epi.
Proof. eexists; eexists; (split; [vm_compute; reflexivity|]); (split; [vm_compute; reflexivity|]); split; vm_compute; reflexivity. Qed.

(* the two-instruction method call and the three-instruction PIC call, with their decoded form exposed *)
Theorem pic_base_call_reaches_x x v L s A off h hit :
  in_pair_range (off - 4) -> 12 <= Z.abs (off - 4) -> (A + off) mod 2 = 0 ->
  0 <= h < 2048 -> 0 < hit < 32 -> hit <> 1 -> pc s = A ->
  exists stub i1 k j,
    build_pic_base_call off h hit = OK stub /\ List.length stub = 3%nat /\
    decode_all x stub = Some [Iop ADDI hit 0 i1; Auipc 1 k; Jalr 1 1 j] /\
    exists s', exec_at v L A [Iop ADDI hit 0 i1; Auipc 1 k; Jalr 1 1 j] s = Next s' /\
    call_effect s s' (u64 (A + off)) (u64 (A + 12)) /\ rget s' hit = h /\ cfi s' = cfi s /\
    (forall r, 0 <= r -> r <> 1 -> r <> hit -> rget s' r = rget s r).
Proof.
  intros Hr Hmin Hev Hh Hhit Hne1 Hpc.
  unfold build_pic_base_call. rewrite split_offset_spec.
  destruct (Z.ltb_spec (Z.abs (off - 4)) 12); [lia|].
  pose proof (split_lo_range (off - 4)) as Hlo. pose proof (split_hi_range (off - 4)) as Hhi.
  cbn. unfold c_RA, c_X0 in *.
  eexists. eexists. eexists. eexists. split; [reflexivity|]. split; [reflexivity|].
  unfold decode_all. cbn [fold_right].
  rewrite decode_auipc_wide by lia. rewrite decode_jalr_any by lia. rewrite decode_addi_any by lia.
  split; [reflexivity|].
  rewrite Hpc, !Z.eqb_refl. eexists. split; [reflexivity|].
  split; [constructor|split; [|split]].
  - fields_simpl. regs_simpl. rewrite pair_sum by assumption.
    replace (A + 4 + (off - 4)) with (A + off) by lia. apply jalr_target. assumption.
  - regs_simpl. f_equal. lia.
  - fields_simpl. reflexivity.
  - fields_simpl. reflexivity.
  - regs_simpl. cbn [alui]. regs_simpl. change (rget s 0) with 0. rewrite u64_idem. apply u64_sext_small. assumption.
  - fields_simpl. reflexivity.
  - intros r Hr0 Hn1 Hnh. regs_simpl. reflexivity.
Qed.

Section WI.
Variable c : config.
Variable script : list draw.
Variable img : image.
Hypothesis Hsucc : successful c script img.
Hypothesis Hplain : plain c.
(* the trampoline variant loads call targets into t1: a configuration whose data register is t1 destroys its own data base *)
Hypothesis Hdr6 : uses_tramp (c_variant c) = true -> c_data_reg c <> 6.
Variable L : layout.
Hypothesis HP : placed c img L.

Let ms := im_methods img.
Let es := im_elements img.
Let ints := im_int_instrs img.
Let v := gv c.
Let dr := c_data_reg c.
Let hit := c_hit_reg c.
Let cmp := c_cmp_reg c.
Let I0 := int_start_al c.
Let TA := jit_start_al c.            (* the call trampoline (trampoline variant); the return trampoline is at TA + 20 *)

Definition pic_placed (p : pic) : Prop :=
  p_addr p mod 4 = 0 /\ code_lo L <= p_addr p /\ p_addr p + 4 * zlen (p_switch p) <= code_hi L /\
  (halt_at L < p_addr p \/ p_addr p + 4 * zlen (p_switch p) <= halt_at L) /\
  Z.of_nat (List.length (p_methods p)) < 2047 /\
  (forall addrs, Forall2 (fun id a => exists m, nth_error ms id = Some m /\ m_addr m = a) (p_methods p) addrs ->
                 Forall (fun mo => -1048576 <= mo < 1048576 /\ mo mod 2 = 0) (moffs_of (p_addr p) 0 addrs)).

Record placed2 : Prop := {
  q_int : code_lo L <= I0 /\ I0 + 4 * zlen ints <= code_hi L /\ (halt_at L < I0 \/ I0 + 4 * zlen ints <= halt_at L);
  q_pics : Forall (fun e => match e with EMethod _ => True | EPic p => pic_placed p end) es;
  q_tramps : code_lo L <= TA /\ TA + 4 * zlen (List.concat (im_tramps img)) <= code_hi L /\
             (halt_at L < TA \/ TA + 4 * zlen (List.concat (im_tramps img)) <= halt_at L)
}.
Hypothesis HQ : placed2.

Definition image_loaded (s : mstate) : Prop :=
  code_loaded img s /\ code_at (mem s) I0 (map generate ints) /\
  Forall (fun e => match e with EPic p => code_at (mem s) (p_addr p) (map generate (p_switch p)) | EMethod _ => True end) es /\
  code_at (mem s) TA (map generate (List.concat (im_tramps img))).

Lemma image_loaded_same s s' : same_code L s s' -> image_loaded s -> image_loaded s'.
Proof.
  intros Hs (H1 & H2 & H3 & H4). split; [eapply code_loaded_same; eassumption|]. split; [|split].
  3:{ destruct (q_tramps HQ) as (T1 & T2 & _).
      eapply (code_at_same L (mem s) (mem s')); [exact Hs|exact T1| |exact H4]. rewrite map_length. unfold zlen in T2. exact T2. }
  - destruct (q_int HQ) as (A1 & A2 & _).
    eapply (code_at_same L (mem s) (mem s')); [exact Hs|exact A1| |exact H2]. rewrite map_length. unfold zlen in A2. exact A2.
  - pose proof (q_pics HQ) as QP. rewrite Forall_forall in *. intros e He. specialize (H3 e He). specialize (QP e He).
    destruct e as [id|p]; [exact I|]. destruct QP as (_ & B1 & B2 & _).
    eapply (code_at_same L (mem s) (mem s')); [exact Hs|exact B1| |exact H3]. rewrite map_length. unfold zlen in B2. exact B2.
Qed.

(* the stack bound of the whole image *)
Definition need_id (id : nat) : Z := need_method c ms (max_depth ms) id.
Definition Nmax : Z := fold_right (fun id a => Z.max (need_id id) a) 0 (seq 0 (List.length ms)).
Definition tb : Z := if uses_tramp (c_variant c) then 8 else 0.   (* the trampoline's slot for the interpreter's ra *)
Definition Ntot : Z := 88 + tb + Nmax.

Lemma tb_range : 0 <= tb <= 8 /\ tb mod 8 = 0.
Proof. unfold tb. destruct (uses_tramp (c_variant c)); split; (lia || reflexivity). Qed.

Lemma need_le_Nmax id : (id < List.length ms)%nat -> need_id id <= Nmax.
Proof. intros H. unfold Nmax. apply (fold_max_ge c need_id). apply in_seq. lia. Qed.
Lemma Nmax_nonneg : 0 <= Nmax.
Proof. unfold Nmax. apply (fold_max_nonneg c). Qed.

Lemma need_id_bounds id m : nth_error ms id = Some m -> 24 <= need_id id.
Proof.
  intros H. unfold need_id, max_depth. rewrite Nat.add_1_r. cbn [need_method]. rewrite H.
  pose proof (fold_max_nonneg c (need_method c ms (Z.to_nat (fold_right (fun m0 a => Z.max (m_depth m0) a) 0 ms))) (m_callees m)).
  assert (24 <= frame_of c m); [|lia].
  unfold frame_of. destruct Hplain as [E|E]; rewrite E; destruct (m_is_leaf m); vm_compute; discriminate.
Qed.

(* ---- the number of executed instructions, computed from the call DAG and the selected PIC cases ---- *)
Definition msteps (id : nat) : nat := steps_method ms (max_depth ms) id.

Definition hit_ok (e : elt) (h : Z) : Prop :=
  match e with EMethod _ => h = 0 | EPic p => 1 <= h <= p_cases p end.

(* one interpreter call: the stub, (the PIC dispatch of case h,) the method with all its callees *)
Definition tramp_steps : nat := if uses_tramp (c_variant c) then 10%nat else O.  (* 2 more stub instructions + 5 + 3 *)
Definition elem_cost (e : elt) (h : Z) : nat :=
  match e with
  | EMethod id => (2 + msteps id + tramp_steps)%nat
  | EPic p => let k := Z.to_nat (h - 1) in (3 + ((2 * k + 3) + msteps (nth k (p_methods p) O)) + tramp_steps)%nat
  end.

Definition chain_cost (eh : list (elt * Z)) : nat := fold_right (fun x a => (elem_cost (fst x) (snd x) + a)%nat) O eh.

Definition image_steps (eh : list (elt * Z)) : nat := (12 + (chain_cost eh + 13))%nat.

Lemma chain_cost_perm eh eh' : Permutation eh eh' -> chain_cost eh = chain_cost eh'.
Proof. intros H. unfold chain_cost. induction H; cbn [fold_right] in *; lia. Qed.

(* ---- elements are made of existing methods ---- *)
Lemma mtiles_exist ids : forall a b, mtiles ms ids a b -> Forall (fun id => exists m, nth_error ms id = Some m) ids.
Proof. intros a b H. induction H; constructor; eauto. Qed.

Lemma tiles_exist : forall l a b, GenWF2.tiles ms l a b ->
  Forall (fun e => match e with
                   | EMethod id => exists m, nth_error ms id = Some m
                   | EPic p => p_cases p = zlen (p_methods p) /\ Forall (fun id => exists m, nth_error ms id = Some m) (p_methods p)
                   end) l.
Proof.
  intros l a b H. induction H; constructor; try assumption.
  - pose proof (mtiles_exist _ _ _ H) as F. inversion F; assumption.
  - split; [assumption|eapply mtiles_exist; eassumption].
Qed.

Lemma elements_exist :
  Forall (fun e => match e with
                   | EMethod id => exists m, nth_error ms id = Some m
                   | EPic p => p_cases p = zlen (p_methods p) /\ Forall (fun id => exists m, nth_error ms id = Some m) (p_methods p)
                   end) es.
Proof.
  destruct (successful_wf c script img Hsucc) as [W _]. destruct (iw_layout c img W) as (e & d & HPo).
  eapply tiles_exist. exact (p2_tiles _ _ _ _ _ _ HPo).
Qed.

Lemma addrs_exist ids :
  Forall (fun id => exists m, nth_error ms id = Some m) ids ->
  exists addrs, Forall2 (fun id a => exists m, nth_error ms id = Some m /\ m_addr m = a) ids addrs.
Proof.
  induction 1 as [|id tl (m & Hm) _ (addrs & IH)]; [exists []; constructor|].
  exists (m_addr m :: addrs). constructor; [exists m; auto|exact IH].
Qed.

(* ---- the run ---- *)
Variable s0 : mstate.                 (* the state at the interpreter entry *)
Let S := rget s0 2.
Hypothesis HSal : S mod 8 = 0.
Hypothesis HSr : Ntot <= S < W64.
Hypothesis HSlo : stk_lo L <= S - Ntot.
Hypothesis HShi : S <= stk_hi L.
Hypothesis Hsaved : forall r o, In (r, o) int_slots -> 0 <= rget s0 r < W64.

(* registers the interpreter's calls clobber without restoring: the PIC temporaries and,
   with trampolines, the call-target register t1 *)
Definition clob (r : Z) : Prop := r = hit \/ r = cmp \/ (uses_tramp (c_variant c) = true /\ r = 6).

Lemma nclob r : r <> hit -> r <> cmp -> r <> 6 -> ~ clob r.
Proof. intros H1 H2 H3 [E|[E|[_ E]]]; contradiction. Qed.

Definition Inv (s' : mstate) : Prop :=
  image_loaded s' /\ env_ok v L dr s' /\ rget s' 2 = S - 88 /\
  (forall r, 0 <= r -> wr c r = false -> r <> 1 -> r <> 2 -> ~ clob r -> rget s' r = rget s0 r) /\
  (forall r o, In (r, o) int_slots -> load_bytes (mem s') (S - 88 + o) 8 = rget s0 r) /\
  mem_frame c L s0 s' (S - Ntot) S /\ dom s' = dom s0 /\ cfi s' = cfi s0.

Lemma pic_regs : 0 < hit < 32 /\ 0 < cmp < 32 /\ hit <> cmp /\ hit <> 1 /\ hit <> 2 /\ hit <> 8 /\ cmp <> 1 /\ cmp <> 2 /\ cmp <> 8
                 /\ hit <> dr /\ cmp <> dr /\ (uses_tramp (c_variant c) = true -> hit <> 6).
Proof.
  destruct Hsucc as [Hc _]. unfold cfg_ok in Hc. apply andb_prop in Hc. destruct Hc as [Hc _]. apply andb_prop in Hc. destruct Hc as [_ Hp].
  unfold cfg_pic_regs in Hp. repeat (apply andb_prop in Hp; destruct Hp as [Hp ?]).
  apply in_list_In in Hp.
  match goal with Hx : in_list (c_cmp_reg c) c_CALLER_SAVED_REG = true |- _ => apply in_list_In in Hx;
    destruct (caller_saved_facts _ Hx) as (Rc & Cc1 & Cc2 & Cc8) end.
  destruct (caller_saved_facts _ Hp) as (Rh & Ch1 & Ch2 & Ch8).
  match goal with Hx : negb (c_hit_reg c =? c_cmp_reg c) = true |- _ => apply negb_true_iff in Hx; apply Z.eqb_neq in Hx end.
  assert (Hres : forall r, negb (in_list r (reserved_of c)) = true -> r <> c_data_reg c).
  { intros r Hr E. apply negb_true_iff in Hr. unfold in_list, reserved_of in Hr. cbn [existsb] in Hr. rewrite E, Z.eqb_refl in Hr. discriminate. }
  assert (Ht : uses_tramp (c_variant c) = true -> c_hit_reg c <> 6).
  { intros Hu. match goal with Hx : (if uses_tramp (c_variant c) then _ else true) = true |- _ => rewrite Hu in Hx;
      apply negb_true_iff in Hx; apply Z.eqb_neq in Hx; exact Hx end. }
  unfold hit, cmp, dr. repeat split; try lia; try assumption; try (apply Hres; assumption).
Qed.

Lemma wrf : wr c 1 = false /\ wr c 2 = false /\ wr c 8 = false /\ wr c dr = false /\ dr <> 1 /\ dr <> 2 /\ dr <> 8 /\ 0 < dr.
Proof. exact (wr_facts c script img Hsucc L HP). Qed.

Lemma nclob_dr : ~ clob dr.
Proof.
  destruct pic_regs as (_ & _ & _ & _ & _ & _ & _ & _ & _ & Hhd & Hcd & _).
  intros [E|[E|[Hu E]]]; [congruence|congruence|]. apply (Hdr6 Hu). exact E.
Qed.

Lemma nclob_8 : ~ clob 8.
Proof.
  destruct pic_regs as (_ & _ & _ & _ & _ & Hh8 & _ & _ & Hc8 & _).
  intros [E|[E|[_ E]]]; [congruence|congruence|discriminate].
Qed.

(* a method run from any state with the image loaded: the contract plus preservation of the loaded image *)
Lemma method_run s1 id m ret :
  image_loaded s1 -> env_ok v L dr s1 -> nth_error ms id = Some m -> pc s1 = m_addr m ->
  let sp1 := rget s1 2 in
  sp1 mod 8 = 0 -> need_id id <= sp1 < W64 -> stk_lo L <= sp1 - need_id id -> sp1 <= stk_hi L ->
  0 <= rget s1 8 < W64 -> rget s1 1 = ret -> 0 <= ret < W64 -> ret mod 2 = 0 ->
  exists s3, run v L (msteps id) s1 = (Next s3, msteps id) /\ pc s3 = ret /\
    image_loaded s3 /\ env_ok v L dr s3 /\
    (forall r, 0 <= r -> wr c r = false -> rget s3 r = rget s1 r) /\
    mem_frame c L s1 s3 (sp1 - need_id id) sp1 /\ dom s3 = dom s1 /\ cfi s3 = cfi s1.
Proof.
  intros Hl He Hid Hpc sp1 Hal Hr Hlo Hhi H8 Hra Hret Hev.
  pose proof (every_method_returns c script img Hsucc Hplain L HP id m Hid) as Hcon.
  destruct Hl as (L1 & L2 & L3 & L4).
  destruct (Hcon s1 L1 Hpc He) as (s3 & R3 & Pc3 & Rg3 & Mf3 & D3 & C3 & He3); try assumption.
  { rewrite Hra. exact Hret. }
  exists s3. split; [exact R3|]. split.
  { rewrite Pc3, Hra, Z.add_0_r, u64_small by exact Hret. Z.div_mod_to_equations; lia. }
  pose proof (need_id_bounds id m Hid) as Hn0.
  split.
  { apply (image_loaded_same s1 s3); [|exact (conj L1 (conj L2 (conj L3 L4)))].
    eapply (frame_same_code c img L HP); [exact Mf3|exact Hlo|exact Hhi]. }
  auto.
Qed.

(* back to the loop invariant after a call *)
Lemma inv_back s' s4 :
  Inv s' -> image_loaded s4 -> env_ok v L dr s4 -> rget s4 2 = S - 88 ->
  (forall r, 0 <= r -> wr c r = false -> r <> 1 -> r <> 2 -> ~ clob r -> rget s4 r = rget s' r) ->
  (forall a, 0 <= a -> (a < data_lo L \/ data_lo L + dsz c <= a) -> (a < S - Ntot \/ S - 88 <= a) ->
             mget (mem s4) a = mget (mem s') a) ->
  dom s4 = dom s' -> cfi s4 = cfi s' -> Inv s4.
Proof.
  intros (I1 & I2 & I3 & I4 & I5 & I6 & I7 & I8) Hl He Hsp Hrg Hm Hd Hc.
  pose proof Nmax_nonneg as Hn2. pose proof tb_range as Htb.
  unfold Inv. split; [exact Hl|]. split; [exact He|]. split; [exact Hsp|].
  split; [intros r Hr0 Hw N1 N2 Nc; rewrite Hrg by assumption; apply I4; assumption|].
  split.
  { intros r o Hin.
    assert (Ho : 0 <= o <= 80) by (cbn in Hin; repeat (destruct Hin as [Hin|Hin]; [inversion Hin; lia|]); destruct Hin).
    rewrite (load_bytes_ext 8 (mem s4) (mem s')); [apply I5; exact Hin|].
    intros b Hb. change (Z.of_nat 8) with 8 in Hb.
    pose proof (pl_stack c L (pd_data c img L HP)) as Hps. pose proof (pl_fit c L (pd_data c img L HP)) as Hpf.
    apply Hm; clear - Hps Hpf Hb Ho HSlo HShi HSr Hn2 Htb; unfold Ntot in *; lia. }
  split.
  { intros a Ha Hd' Hrg'. rewrite Hm by (try assumption; lia). apply I6; assumption. }
  split; congruence.
Qed.

Lemma Forall2_nth {A B} (R : A -> B -> Prop) la lb k a : Forall2 R la lb -> nth_error la k = Some a -> exists b, nth_error lb k = Some b /\ R a b.
Proof.
  intros F. revert k. induction F as [|x y la' lb' Hxy _ IH]; intros k Hk; [destruct k; discriminate|].
  destruct k as [|k]; cbn [nth_error] in *; [inversion Hk; subst; eauto|apply IH; exact Hk].
Qed.

(* the case method a PIC dispatches to *)
Lemma pic_case p h :
  In (EPic p) es -> 1 <= h <= p_cases p ->
  exists addrs idk cm, Forall2 (fun id a => exists m, nth_error ms id = Some m /\ m_addr m = a) (p_methods p) addrs /\
    nth_error addrs (Z.to_nat (h - 1)) = Some (m_addr cm) /\ nth_error (p_methods p) (Z.to_nat (h - 1)) = Some idk /\
    nth_error ms idk = Some cm /\ Z.of_nat (List.length (p_methods p)) = p_cases p.
Proof.
  intros He Hh. pose proof elements_exist as EX. rewrite Forall_forall in EX. specialize (EX _ He). cbn in EX.
  destruct EX as (Hcases & Hex). destruct (addrs_exist _ Hex) as (addrs & Haddrs).
  assert (Hla : List.length addrs = List.length (p_methods p)) by (symmetry; apply (Forall2_len' _ _ _ Haddrs)).
  unfold zlen in Hcases. set (k := Z.to_nat (h - 1)).
  assert (Hk : (k < List.length addrs)%nat) by (unfold k; lia).
  destruct (nth_error addrs k) as [a|] eqn:Ea; [|apply nth_error_None in Ea; lia].
  destruct (nth_error (p_methods p) k) as [idk|] eqn:Eidk; [|apply nth_error_None in Eidk; lia].
  destruct (Forall2_nth _ _ _ k idk Haddrs Eidk) as (a' & Ea' & (cm & Hcm & Hcma)).
  assert (Haa : a' = a) by congruence. rewrite Haa in Hcma. clear Haa Ea'. rewrite <- Hcma in Ea.
  exists addrs, idk, cm. repeat split; try assumption. symmetry. exact Hcases.
Qed.

(* facts shared by the two forms of an interpreter call *)
Lemma stack_facts : S mod 8 = 0 /\ 0 <= tb <= 8 /\ tb mod 8 = 0 /\ 0 <= Nmax /\ Ntot = 88 + tb + Nmax /\
  (S - 88) mod 8 = 0 /\ (S - 88 - tb) mod 8 = 0.
Proof.
  pose proof tb_range as [H1 H2]. pose proof Nmax_nonneg.
  repeat split; try lia; try assumption; try reflexivity; clear - HSal H2; Z.div_mod_to_equations; lia.
Qed.

(* one interpreter call, variant without trampolines: the stub, the element, and back *)
Lemma step_elem_base e cur stub h s' :
  c_variant c = GBase ->
  In e es -> stub_hit c ms (jit_start_al c) e cur stub h -> Inv s' -> pc s' = cur ->
  code_at (mem s') cur (map generate stub) ->
  cur mod 4 = 0 -> code_lo L <= cur -> cur + 4 * zlen stub <= code_hi L ->
  (halt_at L < cur \/ cur + 4 * zlen stub <= halt_at L) ->
  hit_ok e h /\ exists s3, run v L (elem_cost e h) s' = (Next s3, elem_cost e h) /\ pc s3 = cur + 4 * zlen stub /\ Inv s3.
Proof.
  intros Hbase He Hstub HI Hpc Hcode Hal Hlo Hhi Hh.
  pose proof (pd_regions c img L HP) as RO. pose proof (pd_code64 c img L HP) as H64. pose proof (ro_code L RO) as Hc0.
  pose proof (pd_small c img L HP) as Hsmall. pose proof (zlen_nonneg stub) as Hzs.
  destruct pic_regs as (Hh' & Hc' & Hne & Hh1 & Hh2 & Hh8 & Hc1 & Hc2 & Hc8 & Hhd & Hcd & _).
  destruct wrf as (W1 & W2 & W8 & Wd & D1' & D2' & D8' & D0').
  destruct stack_facts as (_ & Htb & _ & Hnm & HNt & HS88 & _).
  assert (Htb0 : tb = 0) by (unfold tb; rewrite Hbase; reflexivity).
  assert (Hts : tramp_steps = O) by (unfold tramp_steps; rewrite Hbase; reflexivity).
  pose proof elements_exist as EX. rewrite Forall_forall in EX. specialize (EX e He).
  unfold stub_hit in Hstub. rewrite Hbase in Hstub. cbn [uses_tramp bvariant_of] in Hstub.
  pose proof HI as HI'. destruct HI' as (I1 & I2 & I3 & I4 & I5 & I6 & I7 & I8).
  destruct e as [id|p].
  - (* a method *)
    destruct Hstub as [-> Hstub].
    destruct EX as (m & Hid). cbn [elt_addr] in Hstub. fold ms in Hstub. rewrite Hid in Hstub. unfold method_base_call in Hstub.
    assert (Hm : In m ms) by (eapply nth_error_In; exact Hid).
    destruct (img_placed c img L HP m Hm) as (Ma & Mlo & Mhi & Mh).
    pose proof (zlen_nonneg (m_instrs m)) as Hz.
    pose proof (base_call_min _ _ Hstub) as Hmin.
    destruct (method_base_call_reaches_x ExtNone v L s' cur (m_addr m - cur)) as (stub' & kk & jj & Hb' & Hl & Hdec & s1 & Ex & [Cpc Cra Cmem Cdom] & Ccfi & Creg);
      try assumption.
    { unfold in_pair_range. lia. }
    { replace (cur + (m_addr m - cur)) with (m_addr m) by lia. clear - Ma. Z.div_mod_to_equations; lia. }
    rewrite Hstub in Hb'. inversion Hb'; subst stub'.
    assert (Hzl : zlen stub = 2) by (unfold zlen; rewrite Hl; reflexivity).
    assert (R1 : run v L 2 s' = (Next s1, 2%nat)).
    { change 2%nat with (List.length [Auipc 1 kk; Jalr 1 1 jj]).
      apply (run_block v L [Auipc 1 kk; Jalr 1 1 jj] (map generate stub) cur s' s1 RO); try assumption.
      - unfold v. rewrite (plain_ext c Hplain). apply Forall2_map_generate. apply decode_all_Forall2. exact Hdec.
      - reflexivity.
      - rewrite map_length, Hl. lia.
      - rewrite map_length, Hl. lia.
      - apply plain_side. exact Hplain. }
    replace (cur + (m_addr m - cur)) with (m_addr m) in Cpc by lia.
    assert (Hidlt : (id < List.length ms)%nat) by (apply nth_error_Some; congruence).
    pose proof (need_le_Nmax id Hidlt) as Hn1. pose proof (need_id_bounds id m Hid) as Hn0.
    assert (Hsp1 : rget s1 2 = S - 88) by (rewrite Creg by lia; exact I3).
    destruct (method_run s1 id m (cur + 8)) as (s3 & R3 & Pc3 & Il3 & He3 & Rg3 & Mf3 & D3 & C3); try assumption.
    { apply (image_loaded_same s' s1); [intros a _; rewrite Cmem; reflexivity|exact I1]. }
    { destruct I2 as [X1 X2]. constructor; [rewrite Creg by (unfold dr in *; lia); exact X1|rewrite Cdom; exact X2]. }
    { rewrite Cpc. apply u64_small. lia. }
    { rewrite Hsp1. exact HS88. }
    { rewrite Hsp1. lia. }
    { rewrite Hsp1. lia. }
    { rewrite Hsp1. lia. }
    { rewrite Creg by lia. rewrite I4 by (try lia; try assumption; apply nclob_8). apply (Hsaved 8 0). left. reflexivity. }
    { rewrite Cra. apply u64_small. lia. }
    { lia. }
    { clear - Hal. Z.div_mod_to_equations; lia. }
    split; [reflexivity|]. exists s3. cbn [elem_cost]. rewrite Hts, Nat.add_0_r.
    split; [rewrite (run_app v L 2 (msteps id) s' s1 R1), R3; reflexivity|]. split; [rewrite Pc3, Hzl; lia|].
    rewrite Hsp1 in Mf3.
    apply (inv_back s' s3 HI Il3 He3).
    + rewrite Rg3 by (lia || assumption). exact Hsp1.
    + intros r Hr0 Hw N1 N2 Nc. rewrite Rg3 by assumption. apply Creg; assumption.
    + intros a Ha Hd' Hrg. rewrite Mf3 by (try assumption; lia). rewrite Cmem. reflexivity.
    + congruence.
    + congruence.
  - (* a PIC *)
    destruct EX as (Hcases & Hex). destruct Hstub as (Hh0 & Hstub). cbn [elt_addr] in Hstub. unfold pic_base_call in Hstub.
    pose proof (q_pics HQ) as QP. rewrite Forall_forall in QP. specialize (QP _ He). cbn in QP.
    destruct QP as (Pa & Plo & Phi & Ph & Pn & Prng).
    destruct (pic_case p h He Hh0) as (addrs & idk & cm & Haddrs & Ea & Eidk & Hcm & Hlen).
    assert (Hla : List.length addrs = List.length (p_methods p)) by (symmetry; apply (Forall2_len' _ _ _ Haddrs)).
    pose proof (zlen_nonneg (p_switch p)) as Hz.
    assert (Hmin : 12 <= Z.abs (p_addr p - cur - 4)).
    { destruct (Z_lt_le_dec (Z.abs (p_addr p - cur - 4)) 12) as [Hlt|]; [|assumption].
      unfold build_pic_base_call in Hstub. rewrite (split_rejects _ 12 Hlt) in Hstub. discriminate. }
    destruct (pic_base_call_reaches_x ExtNone v L s' cur (p_addr p - cur) h hit) as (stub' & i1 & kk & jj & Hb' & Hl & Hdec & s1 & Ex & [Cpc Cra Cmem Cdom] & Chit & Ccfi & Creg);
      try assumption.
    { unfold in_pair_range. lia. }
    { replace (cur + (p_addr p - cur)) with (p_addr p) by lia. clear - Pa. Z.div_mod_to_equations; lia. }
    { lia. }
    fold hit in Hstub. rewrite Hstub in Hb'. inversion Hb'; subst stub'.
    assert (Hzl : zlen stub = 3) by (unfold zlen; rewrite Hl; reflexivity).
    assert (R1 : run v L 3 s' = (Next s1, 3%nat)).
    { change 3%nat with (List.length [Iop ADDI hit 0 i1; Auipc 1 kk; Jalr 1 1 jj]).
      apply (run_block v L [Iop ADDI hit 0 i1; Auipc 1 kk; Jalr 1 1 jj] (map generate stub) cur s' s1 RO); try assumption.
      - unfold v. rewrite (plain_ext c Hplain). apply Forall2_map_generate. apply decode_all_Forall2. exact Hdec.
      - reflexivity.
      - rewrite map_length, Hl. lia.
      - rewrite map_length, Hl. lia.
      - apply plain_side. exact Hplain. }
    replace (cur + (p_addr p - cur)) with (p_addr p) in Cpc by lia.
    (* the dispatch *)
    set (k := Z.to_nat (h - 1)) in *.
    assert (Hcmin : In cm ms) by (eapply nth_error_In; exact Hcm).
    destruct (img_placed c img L HP cm Hcmin) as (Ma & Mlo & Mhi & Mh).
    pose proof (zlen_nonneg (m_instrs cm)) as Hzc.
    pose proof (pic_dispatch c script img Hsucc) as PD. rewrite Forall_forall in PD. specialize (PD _ He). cbn in PD.
    destruct I1 as (L1 & L2 & L3 & L4). pose proof L3 as L3'. rewrite Forall_forall in L3'. specialize (L3' _ He). cbn in L3'.
    destruct (PD addrs Haddrs ltac:(lia) (Prng addrs Haddrs) L s1 k (m_addr cm) RO H64) as (s2 & R2 & Pc2 & M2 & C2 & D2 & Rg2);
      try assumption.
    { rewrite Cmem. exact L3'. }
    { rewrite Cpc. apply u64_small. lia. }
    { rewrite map_length. unfold zlen in Phi. exact Phi. }
    { rewrite map_length. unfold zlen in Ph. exact Ph. }
    { apply plain_side. exact Hplain. }
    { lia. }
    { fold hit. rewrite Chit. unfold k. lia. }
    (* the case method *)
    assert (Hidlt : (idk < List.length ms)%nat) by (apply nth_error_Some; congruence).
    pose proof (need_le_Nmax idk Hidlt) as Hn1. pose proof (need_id_bounds idk cm Hcm) as Hn0.
    assert (Hreg2 : forall r, 0 <= r -> r <> 1 -> r <> hit -> r <> cmp -> rget s2 r = rget s' r).
    { intros r Hr0 N1 Nh Nc. rewrite Rg2 by (fold cmp; assumption). apply Creg; assumption. }
    assert (Hsp2 : rget s2 2 = S - 88) by (rewrite Hreg2 by lia; exact I3).
    destruct (method_run s2 idk cm (cur + 12)) as (s3 & R3 & Pc3 & Il3 & He3 & Rg3 & Mf3 & D3 & C3); try assumption.
    { apply (image_loaded_same s' s2); [intros a _; rewrite M2, Cmem; reflexivity|exact (conj L1 (conj L2 (conj L3 L4)))]. }
    { destruct I2 as [X1 X2]. constructor; [rewrite Hreg2 by (unfold dr in *; lia || congruence); exact X1|rewrite D2, Cdom; exact X2]. }
    { rewrite Hsp2. exact HS88. }
    { rewrite Hsp2. lia. }
    { rewrite Hsp2. lia. }
    { rewrite Hsp2. lia. }
    { rewrite Hreg2 by lia. rewrite I4 by (try lia; try assumption; apply nclob_8). apply (Hsaved 8 0). left. reflexivity. }
    { rewrite Rg2 by (fold cmp; lia). rewrite Cra. apply u64_small. lia. }
    { lia. }
    { clear - Hal. Z.div_mod_to_equations; lia. }
    split; [exact Hh0|]. exists s3. cbn [elem_cost]. fold k. rewrite (nth_error_nth _ _ O Eidk). rewrite Hts, Nat.add_0_r.
    split; [|split; [rewrite Pc3, Hzl; lia|]].
    { rewrite (run_app v L 3 _ s' s1 R1). rewrite (run_app v L (2 * k + 3) (msteps idk) s1 s2 R2). rewrite R3. reflexivity. }
    rewrite Hsp2 in Mf3.
    apply (inv_back s' s3 HI Il3 He3).
    + rewrite Rg3 by (lia || assumption). exact Hsp2.
    + intros r Hr0 Hw N1 N2 Nc. rewrite Rg3 by assumption. apply Hreg2; try assumption; intros ->; apply Nc; unfold clob; auto.
    + intros a Ha Hd' Hrg. rewrite Mf3 by (try assumption; lia). rewrite M2, Cmem. reflexivity.
    + congruence.
    + congruence.
Qed.

(* ---- the trampoline variant ---- *)
Lemma tramps_code s :
  uses_tramp (c_variant c) = true -> image_loaded s ->
  exists t1 t2, decode_all ExtNone t1 = Some tramp_call /\ decode_all ExtNone t2 = Some tramp_ret /\
    List.length t1 = 5%nat /\ List.length t2 = 3%nat /\
    code_at (mem s) TA (map generate t1) /\ code_at (mem s) (TA + 20) (map generate t2) /\
    zlen (List.concat (im_tramps img)) = 8.
Proof.
  intros Hu (_ & _ & _ & L4).
  pose proof (successful_tramps c script img Hsucc) as T. unfold tramps_spec in T. rewrite Hu in T.
  destruct T as (t1 & t2 & B1 & B2 & Et).
  assert (Hv : c_variant c = GTramp) by (destruct Hplain as [E|E]; [rewrite E in Hu; discriminate|exact E]).
  rewrite Hv in B1, B2. cbn [bvariant_of] in B1, B2.
  destruct tramp_pair_eq as (t1' & t2' & B1' & B2' & D1 & D2 & Ln1 & Ln2).
  rewrite B1 in B1'. rewrite B2 in B2'. inversion B1'; inversion B2'; subst t1' t2'.
  exists t1, t2. rewrite Et in L4. cbn [List.concat] in L4. rewrite app_nil_r, map_app in L4.
  repeat split; try assumption.
  - intros j w Hj. apply L4. apply nth_error_app_l. exact Hj.
  - replace (TA + 20) with (TA + 4 * Z.of_nat (List.length (map generate t1))) by (rewrite map_length, Ln1; lia).
    replace (map generate t2) with (skipn (List.length (map generate t1)) (map generate t1 ++ map generate t2))
      by (apply skipn_app_exact; reflexivity).
    apply code_at_skip. exact L4.
  - rewrite Et. cbn [List.concat]. rewrite app_nil_r, zlen_app. unfold zlen. rewrite Ln1, Ln2. reflexivity.
Qed.

(* from the entry of the call trampoline (t1 = the element's first instruction, ra = the
   interpreter's return point) to the interpreter's return point: call trampoline, `mid`
   (the element: reaches the return trampoline with the stack below S - 96 used only), return trampoline *)
Lemma through_tramps s' s1 ret target :
  uses_tramp (c_variant c) = true -> Inv s' ->
  pc s1 = TA -> mem s1 = mem s' -> dom s1 = dom s' -> cfi s1 = cfi s' ->
  rget s1 1 = ret -> 0 <= ret < W64 -> ret mod 2 = 0 ->
  rget s1 6 = target -> 0 <= target < W64 -> target mod 2 = 0 ->
  (forall r, 0 <= r -> r <> 1 -> r <> 6 -> r <> hit -> rget s1 r = rget s' r) ->
  forall nmid,
  (forall s2, pc s2 = target -> image_loaded s2 -> env_ok v L dr s2 -> rget s2 2 = S - 96 -> rget s2 1 = TA + 20 ->
     rget s2 hit = rget s1 hit ->
     (forall r, 0 <= r -> wr c r = false -> r <> 1 -> r <> 2 -> ~ clob r -> rget s2 r = rget s' r) ->
     exists s3, run v L nmid s2 = (Next s3, nmid) /\ pc s3 = TA + 20 /\ image_loaded s3 /\ env_ok v L dr s3 /\
       (forall r, 0 <= r -> wr c r = false -> ~ clob r -> rget s3 r = rget s2 r) /\
       mem_frame c L s2 s3 (S - Ntot) (S - 96) /\ dom s3 = dom s2 /\ cfi s3 = cfi s2) ->
  exists s4, run v L (5 + (nmid + 3)) s1 = (Next s4, (5 + (nmid + 3))%nat) /\ pc s4 = ret /\ Inv s4.
Proof.
  intros Hu HI Hpc M1 D1 C1 Hra Hret Hrev Ht Htr Htev Hreg nmid Hmid.
  pose proof (pd_regions c img L HP) as RO. pose proof (pd_code64 c img L HP) as H64. pose proof (ro_code L RO) as Hc0.
  destruct (pd_stack c img L HP) as [Hsc Hsp0].
  pose proof (pl_stack c L (pd_data c img L HP)) as Hps. pose proof (pl_fit c L (pd_data c img L HP)) as Hpf.
  pose proof (pl_pos c L (pd_data c img L HP)) as Hd0.
  destruct pic_regs as (Hh' & Hc' & Hne & Hh1 & Hh2 & Hh8 & Hc1 & Hc2 & Hc8 & Hhd & Hcd & Hh6).
  specialize (Hh6 Hu).
  destruct wrf as (W1 & W2 & W8 & Wd & D1' & D2' & D8' & D0').
  destruct stack_facts as (_ & Htb & _ & Hnm & HNt & HS88 & HS96).
  assert (Htb8 : tb = 8) by (unfold tb; rewrite Hu; reflexivity). rewrite Htb8 in HS96, HNt.
  replace (S - 88 - 8) with (S - 96) in HS96 by lia.
  pose proof HI as HI'. destruct HI' as (I1 & I2 & I3 & I4 & I5 & I6 & I7 & I8).
  destruct (q_tramps HQ) as (T1 & T2 & T3).
  assert (Hl1 : image_loaded s1) by (apply (image_loaded_same s' s1); [intros a _; rewrite M1; reflexivity|exact I1]).
  destruct (tramps_code s1 Hu Hl1) as (t1 & t2 & Dt1 & Dt2 & Ln1 & Ln2 & Ct1 & Ct2 & Zt).
  rewrite Zt in T2, T3.
  assert (HTal : TA mod 4 = 0) by (unfold TA, jit_start_al, align; clear; Z.div_mod_to_equations; lia).
  assert (Hdr6' : dr <> 6) by (apply Hdr6; exact Hu).
  assert (Hsp1 : rget s1 2 = S - 88) by (rewrite Hreg by lia; exact I3).
  (* ---------- call trampoline ---------- *)
  destruct (tramp_call_exec v L Hsc s1 TA Hpc) as (s2 & E2 & P2 & Sp2 & Ra2 & R2 & M2 & Dm2 & C2).
  { rewrite Hsp1. exact HS88. }
  { rewrite Hsp1. lia. }
  { rewrite Hsp1. lia. }
  { rewrite Hsp1. lia. }
  { lia. }
  { lia. }
  rewrite Hsp1 in Sp2, M2. replace (S - 88 - 8) with (S - 96) in Sp2, M2 by lia.
  assert (Run2 : run v L 5 s1 = (Next s2, 5%nat)).
  { change 5%nat with (List.length tramp_call).
    apply (run_block v L tramp_call (map generate t1) TA s1 s2 RO); try assumption.
    - unfold v. rewrite (plain_ext c Hplain). apply Forall2_map_generate. apply decode_all_Forall2. exact Dt1.
    - reflexivity.
    - rewrite map_length, Ln1. lia.
    - rewrite map_length, Ln1. destruct T3; [left; lia|right; lia].
    - apply plain_side. exact Hplain. }
  assert (Pc2 : pc s2 = target).
  { rewrite P2, Ht, Z.add_0_r, u64_small by exact Htr. clear - Htev. Z.div_mod_to_equations; lia. }
  assert (Mo2 : forall a, 0 <= a -> (a < S - 96 \/ S - 88 <= a) -> mget (mem s2) a = mget (mem s') a).
  { intros a Ha Ho. rewrite M2. rewrite mget_store_other by lia. rewrite M1. reflexivity. }
  assert (Hl2 : image_loaded s2).
  { apply (image_loaded_same s' s2); [|exact I1]. intros a Ha. apply Mo2; lia. }
  assert (He2 : env_ok v L dr s2).
  { destruct I2 as [X1 X2]. constructor; [rewrite R2, Hreg by (unfold dr in *; lia || congruence); exact X1|rewrite Dm2, D1; exact X2]. }
  (* ---------- the element ---------- *)
  destruct (Hmid s2 Pc2 Hl2 He2 Sp2) as (s3 & R3 & Pc3 & Il3 & He3 & Rg3 & Mf3 & D3 & C3).
  { rewrite Ra2. reflexivity. }
  { apply R2; lia. }
  { intros r Hr0 Hw N1 N2 Nc. rewrite R2 by assumption.
    apply Hreg; try assumption; intros ->; apply Nc; unfold clob; auto. }
  (* ---------- return trampoline ---------- *)
  assert (Hsp3 : rget s3 2 = S - 96).
  { rewrite Rg3; [exact Sp2|lia|exact W2|]. apply nclob; lia. }
  assert (Hld : load_bytes (mem s3) (S - 96) 8 = ret).
  { rewrite (load_bytes_ext 8 (mem s3) (mem s2)).
    - rewrite M2. rewrite load_store_same by lia. rewrite Hra. change (2 ^ (8 * Z.of_nat 8)) with W64. apply Z.mod_small. exact Hret.
    - intros b Hb. change (Z.of_nat 8) with 8 in Hb. apply Mf3; lia. }
  destruct (tramp_ret_exec v L Hsc s3 (TA + 20) (S - 88) ret Pc3) as (s4 & E4 & P4 & Sp4 & Ra4 & R4 & M4 & Dm4 & C4); try assumption.
  { rewrite Hsp3. lia. }
  { lia. }
  { lia. }
  { lia. }
  { replace (S - 88 - 8) with (S - 96) by lia. exact Hld. }
  assert (Run4 : run v L 3 s3 = (Next s4, 3%nat)).
  { change 3%nat with (List.length tramp_ret).
    destruct (tramps_code s3 Hu Il3) as (t1' & t2' & _ & Dt2' & _ & Ln2' & _ & Ct2' & _).
    apply (run_block v L tramp_ret (map generate t2') (TA + 20) s3 s4 RO); try assumption.
    - unfold v. rewrite (plain_ext c Hplain). apply Forall2_map_generate. apply decode_all_Forall2. exact Dt2'.
    - reflexivity.
    - clear - HTal. Z.div_mod_to_equations; lia.
    - lia.
    - rewrite map_length, Ln2'. lia.
    - rewrite map_length, Ln2'. destruct T3; [left; lia|right; lia].
    - apply plain_side. exact Hplain. }
  exists s4. split.
  { rewrite (run_app v L 5 (nmid + 3) s1 s2 Run2). rewrite (run_app v L nmid 3 s2 s3 R3). rewrite Run4. reflexivity. }
  split.
  { rewrite P4, Z.add_0_r, u64_small by exact Hret. clear - Hrev. Z.div_mod_to_equations; lia. }
  apply (inv_back s' s4 HI).
  - apply (image_loaded_same s3 s4); [intros a _; rewrite M4; reflexivity|exact Il3].
  - destruct He3 as [X1 X2]. constructor; [rewrite R4 by (unfold dr in *; lia); exact X1|rewrite Dm4; exact X2].
  - exact Sp4.
  - intros r Hr0 Hw N1 N2 Nc. rewrite R4 by assumption. rewrite Rg3 by assumption. rewrite R2 by assumption.
    apply Hreg; try assumption; intros ->; apply Nc; unfold clob; auto.
  - intros a Ha Hd' Hrg. rewrite M4. rewrite Mf3 by (try assumption; lia). apply Mo2; [exact Ha|lia].
  - congruence.
  - congruence.
Qed.

Lemma step_elem_tramp e cur stub h s' :
  c_variant c = GTramp ->
  In e es -> stub_hit c ms (jit_start_al c) e cur stub h -> Inv s' -> pc s' = cur ->
  code_at (mem s') cur (map generate stub) ->
  cur mod 4 = 0 -> code_lo L <= cur -> cur + 4 * zlen stub <= code_hi L ->
  (halt_at L < cur \/ cur + 4 * zlen stub <= halt_at L) ->
  hit_ok e h /\ exists s3, run v L (elem_cost e h) s' = (Next s3, elem_cost e h) /\ pc s3 = cur + 4 * zlen stub /\ Inv s3.
Proof.
  intros Hvar He Hstub HI Hpc Hcode Hal Hlo Hhi Hh.
  assert (Hu : uses_tramp (c_variant c) = true) by (rewrite Hvar; reflexivity).
  pose proof (pd_regions c img L HP) as RO. pose proof (pd_code64 c img L HP) as H64. pose proof (ro_code L RO) as Hc0.
  pose proof (pd_small c img L HP) as Hsmall. pose proof (zlen_nonneg stub) as Hzs.
  destruct pic_regs as (Hh' & Hc' & Hne & Hh1 & Hh2 & Hh8 & Hc1 & Hc2 & Hc8 & Hhd & Hcd & Hh6).
  specialize (Hh6 Hu).
  destruct wrf as (W1 & W2 & W8 & Wd & D1' & D2' & D8' & D0').
  destruct stack_facts as (_ & Htb & _ & Hnm & HNt & HS88 & HS96).
  assert (Htb8 : tb = 8) by (unfold tb; rewrite Hu; reflexivity). rewrite Htb8 in HS96, HNt.
  replace (S - 88 - 8) with (S - 96) in HS96 by lia.
  assert (Hts : tramp_steps = 10%nat) by (unfold tramp_steps; rewrite Hu; reflexivity).
  destruct (q_tramps HQ) as (T1 & T2 & T3).
  assert (HTal : TA mod 4 = 0) by (unfold TA, jit_start_al, align; clear; Z.div_mod_to_equations; lia).
  pose proof (zlen_nonneg (List.concat (im_tramps img))) as Hzt.
  pose proof elements_exist as EX. rewrite Forall_forall in EX. specialize (EX e He).
  unfold stub_hit in Hstub. rewrite Hvar in Hstub. cbn [uses_tramp bvariant_of] in Hstub. fold TA in Hstub.
  pose proof HI as HI'. destruct HI' as (I1 & I2 & I3 & I4 & I5 & I6 & I7 & I8).
  destruct (tramps_code s' Hu I1) as (_ & _ & _ & _ & _ & _ & _ & _ & Zt). rewrite Zt in T2, T3.
  destruct e as [id|p].
  - (* a method *)
    destruct Hstub as [-> Hstub].
    destruct EX as (m & Hid). cbn [elt_addr] in Hstub. fold ms in Hstub. rewrite Hid in Hstub. unfold interp_method_call in Hstub.
    assert (Hm : In m ms) by (eapply nth_error_In; exact Hid).
    destruct (img_placed c img L HP m Hm) as (Ma & Mlo & Mhi & Mh).
    pose proof (zlen_nonneg (m_instrs m)) as Hz.
    destruct (interp_method_call_min _ _ _ Hstub) as [Hmin1 Hmin2].
    destruct (interp_method_call_reaches_x ExtNone v L s' cur (m_addr m - cur) (TA - cur))
      as (stub' & k1 & i1 & k2 & jj & Hb' & Hl & Hdec & s1 & Ex & [Cpc Cra Cmem Cdom] & Ct & Ccfi & Creg); try assumption.
    { unfold in_pair_range. lia. }
    { unfold in_pair_range. lia. }
    { replace (cur + (TA - cur)) with TA by lia. clear - HTal. Z.div_mod_to_equations; lia. }
    rewrite Hstub in Hb'. inversion Hb'; subst stub'.
    assert (Hzl : zlen stub = 4) by (unfold zlen; rewrite Hl; reflexivity).
    assert (R1 : run v L 4 s' = (Next s1, 4%nat)).
    { change 4%nat with (List.length [Auipc 6 k1; Iop ADDI 6 6 i1; Auipc 1 k2; Jalr 1 1 jj]).
      apply (run_block v L [Auipc 6 k1; Iop ADDI 6 6 i1; Auipc 1 k2; Jalr 1 1 jj] (map generate stub) cur s' s1 RO); try assumption.
      - unfold v. rewrite (plain_ext c Hplain). apply Forall2_map_generate. apply decode_all_Forall2. exact Hdec.
      - reflexivity.
      - rewrite map_length, Hl. lia.
      - rewrite map_length, Hl. lia.
      - apply plain_side. exact Hplain. }
    replace (cur + (TA - cur)) with TA in Cpc by lia.
    replace (cur + (m_addr m - cur)) with (m_addr m) in Ct by lia.
    assert (Hidlt : (id < List.length ms)%nat) by (apply nth_error_Some; congruence).
    pose proof (need_le_Nmax id Hidlt) as Hn1. pose proof (need_id_bounds id m Hid) as Hn0.
    assert (F1 : need_id id <= S - 96 < W64 /\ stk_lo L <= S - 96 - need_id id /\ S - 96 <= stk_hi L /\ S - Ntot <= S - 96 - need_id id)
      by (clear - Hn1 Hn0 HNt HSr HSlo HShi Hnm; lia).
    assert (F2 : 0 <= TA + 20 < W64 /\ (TA + 20) mod 2 = 0) by (split; [clear - T1 T2 Hc0 H64; lia|clear - HTal; Z.div_mod_to_equations; lia]).
    assert (F3 : 0 <= cur + 16 < W64 /\ (cur + 16) mod 2 = 0 /\ 0 <= m_addr m < W64 /\ m_addr m mod 2 = 0 /\ 0 <= TA < W64).
    { split; [clear - Hlo Hhi Hzl Hc0 H64; lia|]. split; [clear - Hal; Z.div_mod_to_equations; lia|].
      split; [clear - Mlo Mhi Hz Hc0 H64; lia|]. split; [clear - Ma; Z.div_mod_to_equations; lia|clear - T1 T2 Hc0 H64; lia]. }
    clear Hmin1 Hmin2 Hh Mh T3 Hdec Ex Hcode.
    destruct (through_tramps s' s1 (cur + 16) (m_addr m) Hu HI) with (nmid := msteps id) as (s4 & R4 & P4 & I4'); try assumption.
    { rewrite Cpc. apply u64_small. apply F3. }
    { rewrite Cra. apply u64_small. apply F3. }
    { apply F3. }
    { apply F3. }
    { rewrite Ct. apply u64_small. apply F3. }
    { apply F3. }
    { apply F3. }
    { intros r Hr0 N1 N6 _. apply Creg; assumption. }
    { intros s2 Pc2 Hl2 He2 Sp2 Ra2 _ Hrg2.
      destruct (method_run s2 id m (TA + 20) Hl2 He2 Hid Pc2) as (s3 & R3 & Pc3 & Il3 & He3 & Rg3 & Mf3 & D3 & C3).
      { rewrite Sp2. exact HS96. }
      { rewrite Sp2. apply F1. }
      { rewrite Sp2. apply F1. }
      { rewrite Sp2. apply F1. }
      { rewrite Hrg2 by (try (clear; lia); try assumption; apply nclob_8). rewrite I4 by (try (clear; lia); try assumption; apply nclob_8).
        apply (Hsaved 8 0). left. reflexivity. }
      { exact Ra2. }
      { apply F2. }
      { apply F2. }
      exists s3. split; [exact R3|]. split; [exact Pc3|]. split; [exact Il3|]. split; [exact He3|].
      split; [intros r Hr0 Hw _; apply Rg3; assumption|]. rewrite Sp2 in Mf3.
      split; [eapply (mem_frame_widen c L); [exact Mf3|apply F1|apply Z.le_refl]|]. split; assumption. }
    split; [reflexivity|]. exists s4. cbn [elem_cost]. rewrite Hts.
    replace (2 + msteps id + 10)%nat with (4 + (5 + (msteps id + 3)))%nat by lia.
    split; [rewrite (run_app v L 4 _ s' s1 R1), R4; reflexivity|]. split; [rewrite P4, Hzl; clear; lia|exact I4'].
  - (* a PIC *)
    destruct EX as (Hcases & Hex). destruct Hstub as (Hh0 & Hstub). cbn [elt_addr] in Hstub. unfold interp_pic_call in Hstub.
    pose proof (q_pics HQ) as QP. rewrite Forall_forall in QP. specialize (QP _ He). cbn in QP.
    destruct QP as (Pa & Plo & Phi & Ph & Pn & Prng).
    destruct (pic_case p h He Hh0) as (addrs & idk & cm & Haddrs & Ea & Eidk & Hcm & Hlen).
    assert (Hla : List.length addrs = List.length (p_methods p)) by (symmetry; apply (Forall2_len' _ _ _ Haddrs)).
    pose proof (zlen_nonneg (p_switch p)) as Hz.
    destruct (interp_pic_call_min _ _ _ _ _ Hstub) as [Hmin1 Hmin2].
    destruct (interp_pic_call_reaches_x ExtNone v L s' cur (p_addr p - cur) (TA - cur) h hit)
      as (stub' & k1 & i1 & ih & k2 & jj & Hb' & Hl & Hdec & s1 & Ex & [Cpc Cra Cmem Cdom] & Ct & Chit & Ccfi & Creg); try assumption.
    { unfold in_pair_range. lia. }
    { unfold in_pair_range. lia. }
    { replace (cur + (TA - cur)) with TA by lia. clear - HTal. Z.div_mod_to_equations; lia. }
    { lia. }
    fold hit in Hstub. rewrite Hstub in Hb'. inversion Hb'; subst stub'.
    assert (Hzl : zlen stub = 5) by (unfold zlen; rewrite Hl; reflexivity).
    assert (R1 : run v L 5 s' = (Next s1, 5%nat)).
    { change 5%nat with (List.length [Auipc 6 k1; Iop ADDI 6 6 i1; Iop ADDI hit 0 ih; Auipc 1 k2; Jalr 1 1 jj]).
      apply (run_block v L [Auipc 6 k1; Iop ADDI 6 6 i1; Iop ADDI hit 0 ih; Auipc 1 k2; Jalr 1 1 jj] (map generate stub) cur s' s1 RO); try assumption.
      - unfold v. rewrite (plain_ext c Hplain). apply Forall2_map_generate. apply decode_all_Forall2. exact Hdec.
      - reflexivity.
      - rewrite map_length, Hl. lia.
      - rewrite map_length, Hl. lia.
      - apply plain_side. exact Hplain. }
    replace (cur + (TA - cur)) with TA in Cpc by lia.
    replace (cur + (p_addr p - cur)) with (p_addr p) in Ct by lia.
    set (k := Z.to_nat (h - 1)) in *.
    assert (Hcmin : In cm ms) by (eapply nth_error_In; exact Hcm).
    destruct (img_placed c img L HP cm Hcmin) as (Ma & Mlo & Mhi & Mh).
    pose proof (zlen_nonneg (m_instrs cm)) as Hzc.
    pose proof (pic_dispatch c script img Hsucc) as PD. rewrite Forall_forall in PD. specialize (PD _ He). cbn in PD.
    assert (Hidlt : (idk < List.length ms)%nat) by (apply nth_error_Some; congruence).
    pose proof (need_le_Nmax idk Hidlt) as Hn1. pose proof (need_id_bounds idk cm Hcm) as Hn0.
    assert (F1 : need_id idk <= S - 96 < W64 /\ stk_lo L <= S - 96 - need_id idk /\ S - 96 <= stk_hi L /\ S - Ntot <= S - 96 - need_id idk)
      by (clear - Hn1 Hn0 HNt HSr HSlo HShi Hnm; lia).
    assert (F2 : 0 <= TA + 20 < W64 /\ (TA + 20) mod 2 = 0) by (split; [clear - T1 T2 Hc0 H64; lia|clear - HTal; Z.div_mod_to_equations; lia]).
    assert (F3 : 0 <= cur + 20 < W64 /\ (cur + 20) mod 2 = 0 /\ 0 <= p_addr p < W64 /\ p_addr p mod 2 = 0 /\ 0 <= TA < W64).
    { split; [clear - Hlo Hhi Hzl Hc0 H64; lia|]. split; [clear - Hal; Z.div_mod_to_equations; lia|].
      split; [clear - Plo Phi Hz Hc0 H64; lia|]. split; [clear - Pa; Z.div_mod_to_equations; lia|clear - T1 T2 Hc0 H64; lia]. }
    assert (F4 : 0 <= m_addr cm < W64 /\ Z.of_nat (List.length addrs) < 2047 /\ h = 1 + Z.of_nat k)
      by (split; [clear - Mlo Mhi Hzc Hc0 H64; lia|split; [clear - Hla Pn; lia|clear - Hh0; unfold k; lia]]).
    clear Hmin1 Hmin2 Hh Mh T3 Hdec Ex Hcode.
    destruct (through_tramps s' s1 (cur + 20) (p_addr p) Hu HI) with (nmid := ((2 * k + 3) + msteps idk)%nat) as (s4 & R4 & P4 & I4'); try assumption.
    { rewrite Cpc. apply u64_small. apply F3. }
    { rewrite Cra. apply u64_small. apply F3. }
    { apply F3. }
    { apply F3. }
    { rewrite Ct. apply u64_small. apply F3. }
    { apply F3. }
    { apply F3. }
    { intros s2 Pc2 Hl2 He2 Sp2 Ra2 Hhit2 Hrg2.
      destruct Hl2 as (L1 & L2 & L3 & L4). pose proof L3 as L3'. rewrite Forall_forall in L3'. specialize (L3' _ He). cbn in L3'.
      destruct (PD addrs Haddrs (proj1 (proj2 F4)) (Prng addrs Haddrs) L s2 k (m_addr cm) RO H64) as (s2' & R2 & Pc2' & M2 & C2 & D2 & Rg2);
        try assumption.
      { rewrite map_length. unfold zlen in Phi. exact Phi. }
      { rewrite map_length. unfold zlen in Ph. exact Ph. }
      { apply plain_side. exact Hplain. }
      { apply F4. }
      { fold hit. rewrite Hhit2, Chit. apply F4. }
      clear PD Prng L3' Haddrs.
      assert (N2c : 2 <> c_cmp_reg c) by (fold cmp; clear - Hc2; lia).
      assert (N1c : 1 <> c_cmp_reg c) by (fold cmp; clear - Hc1; lia).
      assert (N8c : 8 <> c_cmp_reg c) by (fold cmp; clear - Hc8; lia).
      destruct (method_run s2' idk cm (TA + 20)) as (s3 & R3 & Pc3 & Il3 & He3 & Rg3 & Mf3 & D3 & C3); try assumption.
      { apply (image_loaded_same s2 s2'); [intros a _; rewrite M2; reflexivity|exact (conj L1 (conj L2 (conj L3 L4)))]. }
      { destruct He2 as [X1 X2]. constructor; [rewrite Rg2 by (fold cmp; unfold dr in *; (clear - D0'; lia) || congruence); exact X1|rewrite D2; exact X2]. }
      { rewrite Rg2 by (try exact N2c; clear; lia). rewrite Sp2. exact HS96. }
      { rewrite Rg2 by (try exact N2c; clear; lia). rewrite Sp2. apply F1. }
      { rewrite Rg2 by (try exact N2c; clear; lia). rewrite Sp2. apply F1. }
      { rewrite Rg2 by (try exact N2c; clear; lia). rewrite Sp2. apply F1. }
      { rewrite Rg2 by (try exact N8c; clear; lia). rewrite Hrg2 by (try (clear; lia); try assumption; apply nclob_8).
        rewrite I4 by (try (clear; lia); try assumption; apply nclob_8). apply (Hsaved 8 0). left. reflexivity. }
      { rewrite Rg2 by (try exact N1c; clear; lia). exact Ra2. }
      { apply F2. }
      { apply F2. }
      exists s3. split; [rewrite (run_app v L (2 * k + 3) (msteps idk) s2 s2' R2), R3; reflexivity|].
      split; [exact Pc3|]. split; [exact Il3|]. split; [exact He3|].
      split.
      { intros r Hr0 Hw Nc. rewrite Rg3 by assumption. apply Rg2; [exact Hr0|]. fold cmp. intros ->. apply Nc. unfold clob. auto. }
      rewrite Rg2 in Mf3 by (try exact N2c; clear; lia). rewrite Sp2 in Mf3.
      split.
      { intros a Ha Hd' Hrg. rewrite Mf3; [rewrite M2; reflexivity|exact Ha|exact Hd'|]. destruct F1 as (_ & _ & _ & F1). clear - Hrg F1. lia. }
      split; congruence. }
    split; [exact Hh0|]. exists s4. cbn [elem_cost]. fold k. rewrite (nth_error_nth _ _ O Eidk). rewrite Hts.
    replace (3 + (2 * k + 3 + msteps idk) + 10)%nat with (5 + (5 + ((2 * k + 3 + msteps idk) + 3)))%nat by lia.
    split; [rewrite (run_app v L 5 _ s' s1 R1), R4; reflexivity|]. split; [rewrite P4, Hzl; clear; lia|exact I4'].
Qed.

(* one interpreter call, both plain variants *)
Lemma step_elem e cur stub h s' :
  In e es -> stub_hit c ms (jit_start_al c) e cur stub h -> Inv s' -> pc s' = cur ->
  code_at (mem s') cur (map generate stub) ->
  cur mod 4 = 0 -> code_lo L <= cur -> cur + 4 * zlen stub <= code_hi L ->
  (halt_at L < cur \/ cur + 4 * zlen stub <= halt_at L) ->
  hit_ok e h /\ exists s3, run v L (elem_cost e h) s' = (Next s3, elem_cost e h) /\ pc s3 = cur + 4 * zlen stub /\ Inv s3.
Proof. destruct Hplain as [E|E]; [apply step_elem_base|apply step_elem_tramp]; exact E. Qed.

(* all the interpreter calls, in their shuffled order *)
Lemma chain_run : forall shuffled cur calls hs,
  chain_h c ms (jit_start_al c) shuffled cur calls hs -> (forall e, In e shuffled -> In e es) ->
  (forall s'', Inv s'' -> code_at (mem s'') cur (map generate calls)) ->
  cur mod 4 = 0 -> code_lo L <= cur -> cur + 4 * zlen calls <= code_hi L ->
  (halt_at L < cur \/ cur + 4 * zlen calls <= halt_at L) ->
  forall s', Inv s' -> pc s' = cur ->
  Forall2 hit_ok shuffled hs /\
  exists s3,
    run v L (chain_cost (combine shuffled hs)) s' = (Next s3, chain_cost (combine shuffled hs)) /\
    pc s3 = cur + 4 * zlen calls /\ Inv s3.
Proof.
  intros shuffled cur calls hs H. induction H as [cur|e tl cur stub rest h1 hs Hstub Hch IH]; intros Hin Hcode Hal Hlo Hhi Hh s' HI Hpc.
  - split; [constructor|]. exists s'. split; [reflexivity|]. split; [unfold zlen; cbn; lia|exact HI].
  - rewrite zlen_app in Hhi, Hh. pose proof (zlen_nonneg stub) as Z1. pose proof (zlen_nonneg rest) as Z2.
    assert (Hc1 : code_at (mem s') cur (map generate stub)).
    { pose proof (Hcode s' HI) as Hc. rewrite map_app in Hc. intros j w Hj. apply Hc. apply nth_error_app_l. exact Hj. }
    assert (Hh1 : halt_at L < cur \/ cur + 4 * zlen stub <= halt_at L) by (destruct Hh; [left; lia|right; lia]).
    assert (Hhi1 : cur + 4 * zlen stub <= code_hi L) by lia.
    destruct (step_elem e cur stub h1 s' (Hin e (or_introl eq_refl)) Hstub HI Hpc Hc1 Hal Hlo Hhi1 Hh1) as (Hh1ok & s1 & R1 & P1 & I1).
    assert (Hc2 : forall s'', Inv s'' -> code_at (mem s'') (cur + zlen stub * 4) (map generate rest)).
    { intros s'' HI''. pose proof (Hcode s'' HI'') as Hc. rewrite map_app in Hc.
      replace (cur + zlen stub * 4) with (cur + 4 * Z.of_nat (List.length (map generate stub))) by (rewrite map_length; unfold zlen; lia).
      replace (map generate rest) with (skipn (List.length (map generate stub)) (map generate stub ++ map generate rest))
        by (apply skipn_app_exact; reflexivity).
      apply code_at_skip. exact Hc. }
    assert (Hal2 : (cur + zlen stub * 4) mod 4 = 0) by (Z.div_mod_to_equations; lia).
    assert (Hlo2 : code_lo L <= cur + zlen stub * 4) by lia.
    assert (Hhi2 : cur + zlen stub * 4 + 4 * zlen rest <= code_hi L) by lia.
    assert (Hh2 : halt_at L < cur + zlen stub * 4 \/ cur + zlen stub * 4 + 4 * zlen rest <= halt_at L) by (destruct Hh; [left; lia|right; lia]).
    assert (Hp2 : pc s1 = cur + zlen stub * 4) by (rewrite P1; lia).
    destruct (IH (fun e' He' => Hin e' (or_intror He')) Hc2 Hal2 Hlo2 Hhi2 Hh2 s1 I1 Hp2) as (Hhs & s3 & R3 & P3 & I3).
    split; [constructor; assumption|]. exists s3. cbn [combine chain_cost fold_right fst snd].
    split; [rewrite (run_app v L (elem_cost e h1) _ s' s1 R1); fold (chain_cost (combine tl hs)); rewrite R3; reflexivity|].
    split; [rewrite P3, zlen_app; lia|exact I3].
Qed.

Lemma int_slots_ok : Forall (slot_ok L (S - 88)) int_slots.
Proof.
  pose proof Nmax_nonneg. pose proof tb_range as [Htb _]. unfold Ntot in *.
  repeat constructor; unfold slot_ok; cbn [fst snd]; repeat split; try reflexivity; try lia.
Qed.

Lemma int_slots_apart : ForallOrdPairs (fun a b : Z * Z => snd a + 8 <= snd b \/ snd b + 8 <= snd a) int_slots.
Proof. repeat constructor; cbn [snd]; lia. Qed.

Lemma int_slots_regs : Forall (fun ro : Z * Z => 0 < fst ro /\ fst ro <> 2) int_slots /\ NoDup (map fst int_slots).
Proof.
  split; [repeat constructor; cbn [fst]; lia|].
  cbn. repeat constructor; cbn; intros H; repeat (destruct H as [H|H]; [discriminate|]); exact H.
Qed.

(* the run, for a GIVEN decomposition of the interpreter loop and GIVEN hit cases (static data of the image) *)
Lemma image_run_h pro epi shuffled calls hs :
  base_prologue 10 0 true = OK pro -> base_epilogue 10 0 true = OK epi -> Permutation es shuffled ->
  chain_h c ms (jit_start_al c) shuffled (int_start_al c + zlen pro * 4) calls hs -> ints = pro ++ calls ++ epi ->
  pc s0 = I0 -> image_loaded s0 -> env_ok v L dr s0 ->
  Forall2 hit_ok shuffled hs /\
  exists s', run v L (12 + (chain_cost (combine shuffled hs) + 13)) s0 = (Next s', (12 + (chain_cost (combine shuffled hs) + 13))%nat) /\
    pc s' = (u64 (rget s0 1 + 0) / 2) * 2 /\
    (forall r, 0 <= r -> wr c r = false -> ~ clob r -> rget s' r = rget s0 r) /\
    mem_frame c L s0 s' (S - Ntot) S /\ dom s' = dom s0 /\ cfi s' = cfi s0.
Proof.
  intros Hpro Hepi Hperm Hchain Hints Hpc Hload He.
  pose proof (pd_regions c img L HP) as RO. pose proof (pd_code64 c img L HP) as H64. pose proof (ro_code L RO) as Hc0.
  destruct (pd_stack c img L HP) as [Hsc Hsp0].
  destruct wrf as (W1 & W2 & W8 & Wd & D1 & D2 & D8 & D0).
  destruct pic_regs as (Hh' & Hc' & Hne & Hh1 & Hh2 & Hh8 & Hc1 & Hc2 & Hc8 & Hhd & Hcd & _).
  pose proof Nmax_nonneg as Hn0. pose proof tb_range as [Htb _].
  destruct (q_int HQ) as (Qlo & Qhi & Qh).
  assert (Hal0 : I0 mod 4 = 0) by (unfold I0, int_start_al, align; Z.div_mod_to_equations; lia).
  destruct int_frames_eq as (p' & e' & Hp' & He' & Dp & De).
  rewrite Hpro in Hp'. rewrite Hepi in He'. inversion Hp'; inversion He'; subst p' e'. clear Hp' He'.
  assert (Lpro : List.length pro = 12%nat) by (apply decode_all_Forall2 in Dp; rewrite (Forall2_len' _ _ _ Dp); reflexivity).
  assert (Lepi : List.length epi = 13%nat) by (apply decode_all_Forall2 in De; rewrite (Forall2_len' _ _ _ De); reflexivity).
  fold ints in Hints. fold ms es in Hchain, Hperm.
  assert (Hzi : zlen ints = 12 + zlen calls + 13).
  { rewrite Hints. rewrite !zlen_app. unfold zlen at 1 3. rewrite Lpro, Lepi. lia. }
  pose proof (zlen_nonneg calls) as Zc.
  assert (Ews : map generate ints = map generate pro ++ map generate calls ++ map generate epi) by (rewrite Hints, !map_app; reflexivity).
  unfold Ntot in *.
  (* ---------- prologue ---------- *)
  set (s1 := set_pc (rset s0 2 (u64 (rget s0 2 + -88))) (I0 + 4)).
  assert (Hsp1 : rget s1 2 = S - 88).
  { unfold s1. rewrite rget_set_pc, rget_rset_same by lia. rewrite u64_idem. apply u64_small. fold S. lia. }
  assert (Hr1 : forall r, 0 <= r -> r <> 2 -> rget s1 r = rget s0 r).
  { intros r Hr0 Hn. unfold s1. rewrite rget_set_pc. apply rget_rset_other; lia. }
  pose proof int_slots_ok as Hslots.
  destruct (save_exec v L Hsc Hsp0 int_slots s1 s1 (I0 + 4) eq_refl (fun r => eq_refl)) as (s2 & E2 & P2 & R2 & M2 & Dm2 & C2).
  { rewrite Hsp1. Z.div_mod_to_equations; lia. }
  { rewrite Hsp1. lia. }
  { rewrite Hsp1. exact Hslots. }
  rewrite Hsp1 in M2.
  assert (Ex1 : exec_at v L I0 int_pro s0 = Next s2).
  { unfold int_pro. cbn [exec_at]. rewrite Hpc, Z.eqb_refl. cbn [exec alui]. rewrite Hpc. fold s1. exact E2. }
  assert (Run1 : run v L 12 s0 = (Next s2, 12%nat)).
  { change 12%nat with (List.length int_pro).
    apply (run_block v L int_pro (map generate pro) I0 s0 s2 RO); try assumption.
    - unfold v. rewrite (plain_ext c Hplain). apply Forall2_map_generate. apply decode_all_Forall2. exact Dp.
    - reflexivity.
    - destruct Hload as (_ & Hl2 & _). rewrite Ews in Hl2. intros j w Hj. apply Hl2. apply nth_error_app_l. exact Hj.
    - rewrite map_length, Lpro. lia.
    - rewrite map_length, Lpro. destruct Qh; [left; lia|right; lia].
    - apply plain_side. exact Hplain. }
  assert (Mg2 : forall a, 0 <= a -> (a < S - 88 \/ S <= a) -> mget (mem s2) a = mget (mem s0) a).
  { intros a Ha Hout. rewrite M2. rewrite saved_mget_other; [unfold s1; cbn [set_pc mem]; rewrite mem_rset; reflexivity|lia|exact Ha|].
    apply Forall_forall. intros [r o] Hin. cbn in Hin.
    repeat (destruct Hin as [Hin|Hin]; [inversion Hin; subst; cbn [snd]; lia|]). destruct Hin. }
  assert (I2 : Inv s2).
  { unfold Inv. split.
    { apply (image_loaded_same s0 s2); [|exact Hload]. intros a Ha.
      pose proof (ro_stk L RO). apply Mg2; lia. }
    split.
    { destruct He as [X1 X2]. constructor; [rewrite R2, Hr1 by (unfold dr in *; lia); exact X1|rewrite Dm2; unfold s1; cbn [set_pc dom]; rewrite dom_rset; exact X2]. }
    split; [rewrite R2; exact Hsp1|].
    split; [intros r Hr0 _ _ N2 _; rewrite R2; apply Hr1; assumption|].
    split.
    { intros r o Hin. rewrite M2. rewrite saved_read with (r := r); [|lia| |exact int_slots_apart|exact Hin].
      - assert (r <> 2) by (cbn in Hin; repeat (destruct Hin as [Hin|Hin]; [inversion Hin; lia|]); destruct Hin).
        rewrite Hr1 by (try assumption; cbn in Hin; repeat (destruct Hin as [Hin|Hin]; [inversion Hin; lia|]); destruct Hin).
        apply Z.mod_small. apply (Hsaved r o Hin).
      - apply Forall_forall. intros [r' o'] Hin'. cbn in Hin'.
        repeat (destruct Hin' as [Hin'|Hin']; [inversion Hin'; subst; cbn [snd]; lia|]). destruct Hin'. }
    split; [intros a Ha _ Hrg; apply Mg2; [exact Ha|clear - Hrg Hn0 Htb; unfold S, Ntot in *; lia]|].
    split; [rewrite Dm2; unfold s1; cbn [set_pc dom]; apply dom_rset|rewrite C2; unfold s1; cbn [set_pc cfi]; apply cfi_rset]. }
  (* ---------- the calls ---------- *)
  set (cur := I0 + zlen pro * 4) in *.
  assert (Ecur : cur = I0 + 48) by (unfold cur, zlen; rewrite Lpro; lia).
  destruct (chain_run shuffled cur calls hs Hchain) with (s' := s2) as (Hhs & s3 & R3 & P3 & I3); try assumption.
  { intros e Hin. apply (Permutation_in e (Permutation_sym Hperm) Hin). }
  { intros s'' (( _ & Hl2 & _) & _). rewrite Ews in Hl2.
    replace cur with (I0 + 4 * Z.of_nat (List.length (map generate pro))) by (rewrite map_length, Lpro; lia).
    replace (map generate calls) with (firstn (List.length (map generate calls)) (skipn (List.length (map generate pro)) (map generate pro ++ map generate calls ++ map generate epi))).
    - apply code_at_firstn. apply code_at_skip. exact Hl2.
    - rewrite skipn_app_exact by reflexivity. apply firstn_app_exact. reflexivity. }
  { rewrite Ecur. Z.div_mod_to_equations; lia. }
  { lia. }
  { lia. }
  { destruct Qh; [left; lia|right; lia]. }
  { rewrite P2, Ecur. cbn. lia. }
  destruct I3 as (J1 & J2 & J3 & J4 & J5 & J6 & J7 & J8).
  (* ---------- epilogue ---------- *)
  set (A3 := cur + 4 * zlen calls) in *.
  destruct int_slots_regs as [Hregs Hnd].
  destruct (restore_exec v L Hsc int_slots s3 A3 (S - 88) P3 J3) as (s4 & E4 & P4 & M4 & D4 & C4 & Sp4 & Ro4 & Rl4); try assumption.
  { Z.div_mod_to_equations; lia. }
  { lia. }
  assert (Ex3 : exec_at v L A3 int_epi s3 = Next (set_pc (rset s4 2 (u64 (rget s4 2 + 88))) ((u64 (rget s4 1 + 0) / 2) * 2))).
  { unfold int_epi. rewrite exec_at_app. fold (loads int_slots). rewrite E4.
    cbn [exec_at exec alui]. change (List.length (loads int_slots)) with (List.length int_slots).
    rewrite P4, Z.eqb_refl. cbn [set_pc pc]. rewrite Z.eqb_refl. rewrite rset_zero.
    rewrite rget_set_pc, rget_rset_other by lia. unfold set_pc. cbn [pc regs mem dom cfi]. reflexivity. }
  set (s5 := set_pc (rset s4 2 (u64 (rget s4 2 + 88))) ((u64 (rget s4 1 + 0) / 2) * 2)) in *.
  assert (Run3 : run v L 13 s3 = (Next s5, 13%nat)).
  { change 13%nat with (List.length int_epi).
    apply (run_block v L int_epi (map generate epi) A3 s3 s5 RO); try assumption.
    - unfold v. rewrite (plain_ext c Hplain). apply Forall2_map_generate. apply decode_all_Forall2. exact De.
    - reflexivity.
    - destruct J1 as (_ & Hl2 & _). rewrite Ews in Hl2.
      replace A3 with (I0 + 4 * Z.of_nat (List.length (map generate pro ++ map generate calls)))
        by (rewrite app_length, !map_length, Lpro; unfold A3, zlen; lia).
      replace (map generate epi) with (skipn (List.length (map generate pro ++ map generate calls)) ((map generate pro ++ map generate calls) ++ map generate epi))
        by (apply skipn_app_exact; reflexivity).
      apply code_at_skip. rewrite <- app_assoc. exact Hl2.
    - unfold A3. rewrite Ecur. Z.div_mod_to_equations; lia.
    - unfold A3. lia.
    - rewrite map_length, Lepi. unfold A3. lia.
    - rewrite map_length, Lepi. unfold A3. destruct Qh; [left; lia|right; lia].
    - apply plain_side. exact Hplain. }
  split; [exact Hhs|]. exists s5. split.
  { set (n := chain_cost (combine shuffled hs)) in *.
    rewrite (run_app v L 12 (n + 13) s0 s2 Run1). rewrite (run_app v L n 13 s2 s3 R3). rewrite Run3. reflexivity. }
  assert (Hslotval : forall r o, In (r, o) int_slots -> rget s4 r = rget s0 r).
  { intros r o Hin. rewrite (Rl4 Hnd r o Hin). rewrite (J5 r o Hin). apply u64_small. apply (Hsaved r o Hin). }
  split.
  { unfold s5. cbn [set_pc pc]. rewrite (Hslotval 1 80) by (cbn; auto 20). reflexivity. }
  split.
  { intros r Hr0 Hw Nc. unfold s5. rewrite rget_set_pc.
    destruct (Z.eq_dec r 2) as [->|N2].
    - rewrite rget_rset_same by lia. rewrite u64_idem, Sp4. replace (S - 88 + 88) with S by lia. apply u64_small. lia.
    - rewrite rget_rset_other by lia.
      destruct (in_dec Z.eq_dec r (map fst int_slots)) as [Hin|Hnin].
      + apply in_map_iff in Hin. destruct Hin as ([r' o] & <- & Hin). cbn [fst]. apply (Hslotval r' o Hin).
      + rewrite Ro4 by assumption. apply J4; try assumption.
        intros ->. apply Hnin. cbn. auto 20. }
  split; [intros a Ha Hd' Hrg; unfold s5; cbn [set_pc mem]; rewrite mem_rset, M4; apply J6; assumption|].
  split; [unfold s5; cbn [set_pc dom]; rewrite dom_rset; congruence|unfold s5; cbn [set_pc cfi]; rewrite cfi_rset; congruence].
Qed.

(* THE THEOREM: the whole image of the two variants without isolation (with or without trampolines) returns *)
Theorem plain_image_returns :
  pc s0 = I0 -> image_loaded s0 -> env_ok v L dr s0 ->
  exists s' eh, map fst eh = es /\ Forall (fun x => hit_ok (fst x) (snd x)) eh /\
    run v L (image_steps eh) s0 = (Next s', image_steps eh) /\
    pc s' = (u64 (rget s0 1 + 0) / 2) * 2 /\
    (forall r, 0 <= r -> wr c r = false -> ~ clob r -> rget s' r = rget s0 r) /\
    mem_frame c L s0 s' (S - Ntot) S /\ dom s' = dom s0 /\ cfi s' = cfi s0.
Proof.
  intros Hpc Hload He.
  destruct (interpreter_calls_each_element_once c script img Hsucc) as (pro & epi & shuffled & calls & Hpro & Hepi & Hperm & Hchain & Hints).
  destruct (chain_has_hits _ _ _ _ _ _ Hchain) as (hs & Hch).
  destruct (image_run_h pro epi shuffled calls hs Hpro Hepi Hperm Hch Hints Hpc Hload He) as (Hhs & s' & R & Rest).
  assert (Hlsh : List.length shuffled = List.length hs) by (apply (Forall2_len' _ _ _ Hhs)).
  assert (Hperm' : Permutation es (map fst (combine shuffled hs))) by (rewrite (map_fst_combine shuffled hs Hlsh); exact Hperm).
  destruct (Permutation_map_inv fst _ Hperm') as (eh & Eeh & Peh).
  exists s', eh. split; [symmetry; exact Eeh|]. split.
  { apply Forall_forall. intros x Hx. apply (Permutation_in x (Permutation_sym Peh)) in Hx.
    destruct x as [e h]. cbn [fst snd]. exact (Forall2_combine_In _ _ _ _ _ Hhs Hx). }
  split; [|exact Rest].
  unfold image_steps. rewrite <- (chain_cost_perm _ _ Peh). exact R.
Qed.
End WI.

(* the hit cases are a STATIC datum of the image: there is ONE list eh - fixed by the
   configuration and the image, before any layout or initial state is chosen - such that
   EVERY run from admissible entry conditions takes exactly image_steps c img eh steps *)
Theorem plain_image_steps_static c script img :
  successful c script img -> plain c -> (uses_tramp (c_variant c) = true -> c_data_reg c <> 6) ->
  exists eh, map fst eh = im_elements img /\ Forall (fun x => hit_ok (fst x) (snd x)) eh /\
  forall L, placed c img L -> placed2 c img L ->
  forall s0,
    rget s0 2 mod 8 = 0 -> Ntot c img <= rget s0 2 < W64 ->
    stk_lo L <= rget s0 2 - Ntot c img -> rget s0 2 <= stk_hi L ->
    (forall r o, In (r, o) int_slots -> 0 <= rget s0 r < W64) ->
    pc s0 = int_start_al c -> image_loaded c img s0 -> env_ok (gv c) L (c_data_reg c) s0 ->
    exists s', run (gv c) L (image_steps c img eh) s0 = (Next s', image_steps c img eh) /\
      pc s' = (u64 (rget s0 1 + 0) / 2) * 2 /\
      (forall r, 0 <= r -> wr c r = false -> ~ clob c r -> rget s' r = rget s0 r) /\
      mem_frame c L s0 s' (rget s0 2 - Ntot c img) (rget s0 2) /\ dom s' = dom s0 /\ cfi s' = cfi s0.
Proof.
  intros Hs Hp H6.
  destruct (interpreter_calls_each_element_once c script img Hs) as (pro & epi & shuffled & calls & Hpro & Hepi & Hperm & Hchain & Hints).
  destruct (chain_has_hits _ _ _ _ _ _ Hchain) as (hs & Hch).
  pose proof (chain_h_len _ _ _ _ _ _ _ Hch) as Hlsh.
  assert (Hperm' : Permutation (im_elements img) (map fst (combine shuffled hs))) by (rewrite (map_fst_combine shuffled hs Hlsh); exact Hperm).
  destruct (Permutation_map_inv fst _ Hperm') as (eh & Eeh & Peh).
  (* hit_ok needs one run-independent argument: it is part of stub_hit *)
  assert (Hok : Forall2 hit_ok shuffled hs).
  { clear - Hch. induction Hch as [cur|e tl cur stub rest h hs Hs _ IH]; constructor; [|exact IH].
    unfold stub_hit in Hs. destruct (uses_tramp (c_variant c)); destruct e as [id|p]; cbn [hit_ok]; tauto. }
  exists eh. split; [symmetry; exact Eeh|]. split.
  { apply Forall_forall. intros x Hx. apply (Permutation_in x (Permutation_sym Peh)) in Hx.
    destruct x as [e h]. cbn [fst snd]. exact (Forall2_combine_In _ _ _ _ _ Hok Hx). }
  intros L HP HQ s0 HSal HSr HSlo HShi Hsaved Hpc Hload He.
  destruct (image_run_h c script img Hs Hp H6 L HP HQ s0 HSal HSr HSlo HShi Hsaved pro epi shuffled calls hs Hpro Hepi Hperm Hch Hints Hpc Hload He)
    as (_ & s' & R & Rest).
  exists s'. split; [|exact Rest].
  unfold image_steps. rewrite <- (chain_cost_perm c img _ _ Peh). exact R.
Qed.
