(* LogProofs.v — properties of the parser model (C17, C18). *)
From Coq Require Import ZArith List String Ascii Bool Lia.
From Gigue Require Import LogParse.
Import ListNotations.
Open Scope Z_scope.

(* ------------------------------------------------------------------ C18 *)

Lemma dump_line_raises st l e : dump_line st l = Raise e -> e = XValueError.
Proof.
  unfold dump_line.
  destruct (search_label start_label l) as [g|]; [destruct (py_int 16 g)|];
    try (intros H; inversion H; reflexivity).
  all: destruct (search_label end_label l) as [g'|]; [destruct (py_int 16 g')|];
    try (intros H; inversion H; reflexivity).
  all: match goal with |- context [if ?c then _ else _] => destruct c end;
    try (intros H; discriminate H).
  all: destruct (py_int 16 (split_colon_first l)); intros H; inversion H; reflexivity.
Qed.

Lemma dump_lines_raises ls : forall st e, dump_lines st ls = Raise e -> e = XValueError.
Proof.
  induction ls as [|l tl IH]; intros st e; cbn [dump_lines]; [discriminate|].
  destruct (dump_line st l) eqn:E.
  - apply IH.
  - intros H. inversion H; subst. eapply dump_line_raises; eassumption.
Qed.

Lemma extract_from_dump_raises f e :
  extract_from_dump f = Raise e -> e = XMissingAddress \/ e = XEnvironment \/ e = XValueError.
Proof.
  unfold extract_from_dump. destruct f as [| |s].
  - intros H; inversion H; auto.
  - intros H; inversion H; auto.
  - destruct (dump_lines _ _) eqn:E.
    + repeat match goal with |- context [if ?c then _ else _] => destruct c end;
        intros H; inversion H; auto.
    + intros H; inversion H; subst. apply dump_lines_raises in E. auto.
Qed.

(* every state of the dump file — absent, undecodable, any ASCII content —
   yields a record; the flag is cleared with default values unless extraction
   succeeded *)
Theorem parse_dump_total f :
  exists d, parse_dump f = Ret d /\
    ((dd_ok d = 1 /\ exists s r e, extract_from_dump f = Ret (s, r, e) /\ dd_start d = s /\ dd_ret d = r /\ dd_end d = e)
     \/ (d = mk_dd 0 0 0 0 0 /\ exists x, extract_from_dump f = Raise x)).
Proof.
  unfold parse_dump. destruct (extract_from_dump f) as [[[s r] e]|x] eqn:E.
  - eexists; split; [reflexivity|]. left. cbn. split; [reflexivity|]. exists s, r, e. auto.
  - destruct (extract_from_dump_raises f x E) as [->|[->| ->]];
      (eexists; split; [reflexivity|]; right; split; [reflexivity|]; eexists; reflexivity).
Qed.

Lemma finish_log_raises seed st e : finish_log seed st = Raise e -> e = XMissingCycle.
Proof.
  unfold finish_log. repeat match goal with |- context [if ?c then _ else _] => destruct c end;
    intros H; inversion H; reflexivity.
Qed.

Lemma rocket_extract_raises sa ra f e :
  rocket_extract sa ra f = Raise e -> e = XMissingCycle \/ e = XEnvironment \/ e = XValueError.
Proof.
  unfold rocket_extract. destruct f as [| |s]; try (intros H; inversion H; auto; fail).
  destruct (lines_of s) as [|l tl].
  - intros H. apply finish_log_raises in H. auto.
  - destruct (py_int 10 (last_token l)).
    + intros H. apply finish_log_raises in H. auto.
    + intros H; inversion H; auto.
Qed.

Lemma cva6_extract_raises sa ra f e :
  cva6_extract sa ra f = Raise e -> e = XMissingCycle \/ e = XEnvironment \/ e = XValueError.
Proof.
  unfold cva6_extract. destruct f as [| |s]; try (intros H; inversion H; auto; fail).
  intros H. apply finish_log_raises in H. auto.
Qed.

Definition default_emu (tk ck : list string) : emu_data :=
  mk_emu 0 0 0 0 0 0 0 (zero_hist tk) (zero_hist ck).

Theorem parse_core_log_total ex t tk ck :
  (forall e, ex = Raise e -> e = XMissingCycle \/ e = XEnvironment \/ e = XValueError) ->
  exists d, parse_core_log ex t tk ck = Ret d /\
    (e_emulation_ok d = 0 -> d = default_emu tk ck) /\
    (e_tracing_ok d = 0 -> e_instrs_nb d = 0 /\ e_instrs_type d = zero_hist tk /\ e_instrs_class d = zero_hist ck).
Proof.
  intros Hex. unfold parse_core_log. destruct ex as [[[[seed sc] ec] logged]|x].
  - cbn [Z.eqb Pos.eqb andb]. destruct (all_known t logged).
    + eexists; split; [reflexivity|]. cbn. split; intros H; discriminate H.
    + eexists; split; [reflexivity|]. cbn. split; [intros H; discriminate H|]. auto.
  - destruct (Hex x eq_refl) as [->|[->| ->]];
      (eexists; split; [reflexivity|]; cbn; split; [intros _; reflexivity|auto]).
Qed.

(* ------------------------------------------------------------------ C17 *)

Definition ev_cycle (e : event) : Z := fst (fst e).
Definition ev_pc (e : event) : Z := snd (fst e).
Definition ev_mnem (e : event) : str := snd e.

Fixpoint events_of (matcher : str -> option event) (ls : list str) : list event :=
  match ls with
  | [] => []
  | l :: tl => match matcher l with Some e => e :: events_of matcher tl | None => events_of matcher tl end
  end.

Fixpoint log_events (sa ra : Z) (st : log_state) (evs : list event) : log_state :=
  match evs with
  | [] => st
  | e :: tl => let st' := log_event sa ra st e in if ls_done st' then st' else log_events sa ra st' tl
  end.

(* noise lines (anything the line matcher rejects) are irrelevant *)
Lemma log_lines_events matcher sa ra ls : forall st,
  log_lines matcher sa ra st ls = log_events sa ra st (events_of matcher ls).
Proof.
  induction ls as [|l tl IH]; intros st; cbn [log_lines events_of]; [reflexivity|].
  destruct (matcher l) as [e|]; cbn [log_events]; [|apply IH].
  destruct (ls_done (log_event sa ra st e)); [reflexivity|apply IH].
Qed.

Definition quiet (sa ra : Z) (e : event) : Prop := ev_pc e <> sa /\ ev_pc e <> ra.

Lemma log_events_pre sa ra pre : forall st rest,
  Forall (quiet sa ra) pre -> ls_in st = false -> ls_done st = false ->
  log_events sa ra st (pre ++ rest) = log_events sa ra st rest.
Proof.
  induction pre as [|e tl IH]; intros st rest Hq Hin Hd; [reflexivity|].
  inversion Hq as [|? ? [H1 H2] Hq']; subst. cbn [app log_events].
  destruct e as [[cy p] m]. unfold ev_pc in *. cbn [fst snd] in *.
  unfold log_event. destruct (Z.eqb_spec p sa); [contradiction|]. destruct (Z.eqb_spec p ra); [contradiction|].
  rewrite Hin. rewrite Hd. apply IH; assumption.
Qed.

Lemma log_events_mid sa ra mid : forall st rest,
  Forall (quiet sa ra) mid -> ls_in st = true -> ls_done st = false ->
  log_events sa ra st (mid ++ rest) =
  log_events sa ra (mk_ls (ls_start st) (ls_end st) true (rev (map ev_mnem mid) ++ ls_exec st) false) rest.
Proof.
  induction mid as [|e tl IH]; intros st rest Hq Hin Hd.
  - cbn. destruct st; cbn in *; subst; reflexivity.
  - inversion Hq as [|? ? [H1 H2] Hq']; subst. cbn [app log_events].
    destruct e as [[cy p] m]. unfold ev_pc in *. cbn [fst snd] in *.
    unfold log_event. destruct (Z.eqb_spec p sa); [contradiction|]. destruct (Z.eqb_spec p ra); [contradiction|].
    rewrite Hin. cbn [ls_done]. rewrite IH by (try assumption; reflexivity).
    cbn [ls_start ls_end ls_exec map rev ev_mnem snd]. rewrite <- app_assoc. reflexivity.
Qed.

(* the measurement window: start = first fetch of the start address, end =
   first fetch of the ret address after it, instructions = those logged from
   start up to (not including) ret — whatever precedes, separates or follows *)
Lemma log_event_start sa ra cs ms :
  sa <> ra -> log_event sa ra init_ls (cs, sa, ms) = mk_ls cs (-1) true [ms] false.
Proof.
  intros Hne. unfold log_event. rewrite Z.eqb_refl. destruct (Z.eqb_spec sa ra); [contradiction|]. reflexivity.
Qed.

Lemma log_event_ret sa ra st cr mr :
  sa <> ra -> log_event sa ra st (cr, ra, mr) = mk_ls (ls_start st) cr false (ls_exec st) true.
Proof.
  intros Hne. unfold log_event. destruct (Z.eqb_spec ra sa); [congruence|]. rewrite Z.eqb_refl. reflexivity.
Qed.

Theorem window_exact sa ra pre es mid er post :
  sa <> ra ->
  Forall (quiet sa ra) pre -> ev_pc es = sa -> Forall (quiet sa ra) mid -> ev_pc er = ra ->
  log_events sa ra init_ls (pre ++ es :: mid ++ er :: post) =
  mk_ls (ev_cycle es) (ev_cycle er) false (rev (ev_mnem es :: map ev_mnem mid)) true.
Proof.
  intros Hne Hpre Hs Hmid Hr.
  rewrite log_events_pre by (try assumption; reflexivity).
  destruct es as [[cs ps] ms]. destruct er as [[cr pr] mr].
  unfold ev_pc, ev_cycle, ev_mnem in *. cbn [fst snd] in *. subst ps pr.
  cbn [log_events]. rewrite log_event_start by assumption. cbn [ls_done].
  rewrite log_events_mid by (try assumption; reflexivity).
  cbn [log_events]. rewrite log_event_ret by assumption. cbn [ls_done ls_start ls_end ls_exec].
  cbn [rev map]. reflexivity.
Qed.

Corollary window_result sa ra seed pre es mid er post :
  sa <> ra -> 0 <= ev_cycle es -> 0 <= ev_cycle er ->
  Forall (quiet sa ra) pre -> ev_pc es = sa -> Forall (quiet sa ra) mid -> ev_pc er = ra ->
  finish_log seed (log_events sa ra init_ls (pre ++ es :: mid ++ er :: post)) =
  Ret (seed, ev_cycle es, ev_cycle er, ev_mnem es :: map ev_mnem mid).
Proof.
  intros Hne Hcs Hcr Hpre Hs Hmid Hr. rewrite window_exact by assumption.
  unfold finish_log. cbn [ls_start ls_end ls_exec].
  destruct (Z.eqb_spec (ev_cycle es) (-1)) as [E|_]; [rewrite E in Hcs; exfalso; apply Hcs; reflexivity|].
  destruct (Z.eqb_spec (ev_cycle er) (-1)) as [E|_]; [rewrite E in Hcr; exfalso; apply Hcr; reflexivity|].
  rewrite rev_involutive. reflexivity.
Qed.

(* ---- histograms sum to the instruction count ---- *)

Fixpoint hget (h : hist) (k : string) : Z :=
  match h with [] => 0 | (k', v) :: tl => if String.eqb k' k then v else hget tl k end.

Lemma hist_sum_add h k : hist_sum (hist_add h k) = hist_sum h + 1.
Proof.
  induction h as [|[k' v] tl IH]; cbn [hist_add hist_sum fold_right snd]; [lia|].
  destruct (String.eqb k' k); cbn [hist_sum fold_right snd]; [lia|].
  change (fold_right (fun kv a => snd kv + a) 0 (hist_add tl k)) with (hist_sum (hist_add tl k)).
  rewrite IH. unfold hist_sum. lia.
Qed.

Lemma counter_sum_gen l : forall h, hist_sum (fold_left hist_add l h) = hist_sum h + Z.of_nat (List.length l).
Proof.
  induction l as [|x tl IH]; intros h; cbn [fold_left List.length]; [lia|].
  rewrite IH, hist_sum_add. lia.
Qed.

Lemma counter_sum l : hist_sum (counter l) = Z.of_nat (List.length l).
Proof. unfold counter. rewrite counter_sum_gen. reflexivity. Qed.

Lemma hist_sum_set h k v : hist_sum (hist_set h k v) = hist_sum h - hget h k + v.
Proof.
  induction h as [|[k' v'] tl IH]; cbn [hist_set hist_sum fold_right snd hget]; [lia|].
  destruct (String.eqb k' k); cbn [hist_sum fold_right snd]; [lia|].
  change (fold_right (fun kv a => snd kv + a) 0 (hist_set tl k v)) with (hist_sum (hist_set tl k v)).
  rewrite IH. unfold hist_sum. lia.
Qed.

Lemma hget_set_other h k k' v : k <> k' -> hget (hist_set h k v) k' = hget h k'.
Proof.
  intros Hne. induction h as [|[k0 v0] tl IH]; cbn.
  - destruct (String.eqb_spec k k'); [contradiction|reflexivity].
  - destruct (String.eqb_spec k0 k) as [->|].
    + cbn. destruct (String.eqb_spec k k'); [contradiction|reflexivity].
    + cbn. destruct (String.eqb k0 k'); [reflexivity|apply IH].
Qed.

Lemma keys_add_nodup h k : NoDup (map fst h) -> NoDup (map fst (hist_add h k)).
Proof.
  induction h as [|[k' v] tl IH]; cbn; intros Hn.
  - constructor; [intros []|constructor].
  - inversion Hn as [|? ? Hnotin Hn']; subst.
    destruct (String.eqb_spec k' k) as [->|Hne]; cbn; [constructor; assumption|].
    constructor; [|apply IH; assumption].
    intros Hin. apply Hnotin. clear -Hin Hne. induction tl as [|[k0 v0] tl IH]; cbn in *.
    + destruct Hin as [E|[]]. congruence.
    + destruct (String.eqb_spec k0 k) as [->|]; cbn in Hin; destruct Hin as [E|Hin]; auto.
Qed.

Lemma counter_nodup l : NoDup (map fst (counter l)).
Proof.
  unfold counter. assert (G : forall h, NoDup (map fst h) -> NoDup (map fst (fold_left hist_add l h))).
  { induction l as [|x tl IH]; intros h Hn; cbn; [assumption|]. apply IH. apply keys_add_nodup. assumption. }
  apply G. constructor.
Qed.

Lemma merge_sum c : forall h,
  NoDup (map fst c) -> (forall k, In k (map fst c) -> hget h k = 0) ->
  hist_sum (merge_counts h c) = hist_sum h + hist_sum c.
Proof.
  unfold merge_counts. induction c as [|[k v] tl IH]; intros h Hn Hz; cbn [fold_left]; [cbn; lia|].
  inversion Hn as [|? ? Hnotin Hn']; subst. rewrite IH.
  - cbn [fst snd]. rewrite hist_sum_set. rewrite (Hz k) by (left; reflexivity).
    change (hist_sum ((k, v) :: tl)) with (v + hist_sum tl). lia.
  - assumption.
  - intros k' Hin. cbn [fst snd]. rewrite hget_set_other.
    + apply Hz. right. assumption.
    + intros ->. contradiction.
Qed.

Lemma hget_zero keys k : hget (zero_hist keys) k = 0.
Proof. induction keys as [|x tl IH]; cbn; [reflexivity|]. destruct (String.eqb x k); [reflexivity|assumption]. Qed.

Lemma hist_sum_zero keys : hist_sum (zero_hist keys) = 0.
Proof.
  induction keys as [|x tl IH]; [reflexivity|].
  change (hist_sum (zero_hist (x :: tl))) with (0 + hist_sum (zero_hist tl)). lia.
Qed.

Theorem histogram_sums keys l :
  hist_sum (merge_counts (zero_hist keys) (counter l)) = Z.of_nat (List.length l).
Proof.
  rewrite merge_sum.
  - rewrite hist_sum_zero, counter_sum. lia.
  - apply counter_nodup.
  - intros k _. apply hget_zero.
Qed.

(* when tracing succeeded, both histograms sum to the reported count *)
Theorem parse_core_log_sums ex t tk ck d :
  parse_core_log ex t tk ck = Ret d -> e_tracing_ok d = 1 ->
  hist_sum (e_instrs_type d) = e_instrs_nb d /\ hist_sum (e_instrs_class d) = e_instrs_nb d /\
  e_nb_cycles d = e_end_cycle d - e_start_cycle d.
Proof.
  unfold parse_core_log. destruct ex as [[[[seed sc] ec] logged]|x].
  - cbn [Z.eqb Pos.eqb andb]. destruct (all_known t logged); intros H; inversion H; subst; cbn; intros Ht.
    + rewrite !histogram_sums, !map_length. auto.
    + discriminate Ht.
  - destruct x; intros H; inversion H; subst; cbn; intros Ht; discriminate Ht.
Qed.
