(* GenWF7.v — Layer A/B for PICs: the switch table of every PIC of every image
   is the table built for the RECORDED addresses of its case methods (A), hence
   a PIC entered with hit case h runs 2(h-1)+3 steps and lands on the first
   instruction of case method h (B, with SwitchExec.dispatch). *)
From Coq Require Import ZArith List String Bool Lia.
From Gigue Require Import Types Bits Isa IsaProofs Enc EncProofs GenTables Builder Samplers Generator GenLemmas
  Machine MachineLemmas ImageSem GenWF GenWFProps GenWF2 SplitProofs BodyExec BodyBridge GenWF5 FrameExec CodeMem SwitchExec.
Import ListNotations.
Open Scope list_scope.
Open Scope Z_scope.

(* switch_instrs only looks at the addresses of the case methods *)
Fixpoint switch_of (c : config) (pic_addr : Z) (case_nb : Z) (addrs : list Z) : res (list gi) :=
  match addrs with
  | [] => do r <- ret_; OK [r]
  | a :: tl =>
      let current := pic_addr + (case_nb * 3 + 2) * 4 in
      do sw <- build_switch_case (case_nb + 1) (a - current) (c_hit_reg c) (c_cmp_reg c);
      do rest <- switch_of c pic_addr (case_nb + 1) tl;
      OK (sw ++ rest)%list
  end.

Lemma switch_instrs_of c pa : forall ms n, switch_instrs c pa n ms = switch_of c pa n (map m_addr ms).
Proof. induction ms as [|m tl IH]; intros n; cbn [switch_instrs switch_of map]; [reflexivity|]. rewrite IH. reflexivity. Qed.

Definition switch_ok (c : config) (ms : list method) (p : pic) : Prop :=
  exists addrs,
    Forall2 (fun id a => exists m, nth_error ms id = Some m /\ m_addr m = a) (p_methods p) addrs /\
    switch_of c (p_addr p) 0 addrs = OK (p_switch p).

Definition InvS (c : config) (s : gstate) : Prop :=
  Forall (fun e => match e with EPic p => switch_ok c (g_methods s) p | EMethod _ => True end) (g_elements s).

Lemma switch_ok_ext c ms ms' p :
  (forall id m, nth_error ms id = Some m -> exists m', nth_error ms' id = Some m' /\ m_addr m' = m_addr m) ->
  switch_ok c ms p -> switch_ok c ms' p.
Proof.
  intros Hext (addrs & F2 & Hs). exists addrs. split; [|exact Hs].
  clear Hs. induction F2 as [|id a ids tl (m & Hn & Ha) _ IH]; constructor; [|exact IH].
  destruct (Hext _ _ Hn) as (m' & Hn' & Ea). exists m'. split; [exact Hn'|congruence].
Qed.

Lemma InvS_ext c s ms' :
  (forall id m, nth_error (g_methods s) id = Some m -> exists m', nth_error ms' id = Some m' /\ m_addr m' = m_addr m) ->
  InvS c s -> Forall (fun e => match e with EPic p => switch_ok c ms' p | EMethod _ => True end) (g_elements s).
Proof.
  intros Hext H. unfold InvS in H. eapply Forall_impl; [|exact H]. intros [id|p] He; [exact I|].
  eapply switch_ok_ext; eassumption.
Qed.

Lemma InvS_stable c : stable (InvS c).
Proof. intros s s' H (E1 & _ & E3) _. unfold InvS in *. rewrite E1, E3. exact H. Qed.

Lemma ext_app_addr (ms : list method) new :
  forall id m, nth_error ms id = Some m -> exists m', nth_error (ms ++ new) id = Some m' /\ m_addr m' = m_addr m.
Proof. intros id m H. exists m. split; [apply nth_error_app_l; exact H|reflexivity]. Qed.

Lemma InvS_add_method c s m e :
  InvS c s -> (match e with EPic p => False | EMethod _ => True end) ->
  InvS c (mk_gs (g_script s) (g_methods s ++ [m]) (g_depths s) (g_elements s ++ [e])).
Proof.
  intros H He. unfold InvS. cbn [g_methods g_elements]. apply Forall_app. split.
  - apply InvS_ext; [apply ext_app_addr|exact H].
  - constructor; [destruct e; [exact I|contradiction]|constructor].
Qed.

Lemma seq_addrs_gen (all : list method) : forall (l : list method) k,
  (forall i m, nth_error l i = Some m -> nth_error all (k + i) = Some m) ->
  Forall2 (fun id a => exists m, nth_error all id = Some m /\ m_addr m = a) (seq k (List.length l)) (map m_addr l).
Proof.
  induction l as [|x tl IH]; intros k Hn; cbn [List.length seq map]; constructor.
  - exists x. split; [|reflexivity]. specialize (Hn O x eq_refl). rewrite Nat.add_0_r in Hn. exact Hn.
  - apply IH. intros i m Hi. specialize (Hn (S i) m Hi). rewrite <- Nat.add_succ_comm in Hn. exact Hn.
Qed.

Lemma seq_addrs (ms ms' : list method) :
  Forall2 (fun id a => exists m, nth_error (ms ++ ms') id = Some m /\ m_addr m = a)
          (seq (List.length ms) (List.length ms')) (map m_addr ms').
Proof.
  apply seq_addrs_gen. intros i m Hi. rewrite nth_error_app2 by lia.
  replace (List.length ms + i - List.length ms)%nat with i by lia. exact Hi.
Qed.

Lemma add_element_InvS c addr remaining :
  cfg_facts c -> hoare (InvS c) (add_element c addr remaining) (fun _ s => InvS c s).
Proof.
  intros F. unfold add_element. pose proof (InvS_stable c) as St.
  eapply hoare_bind; [apply draw_choices_spec; exact St|]. intros ks. apply hoare_pure_pre2. intros _ _.
  destruct ks as [|k [|? ?]]; cbv beta iota; [apply hoare_fail| |destruct k; apply hoare_fail].
  assert (PIC : hoare (InvS c)
      (let* z := m_ztp c in
       let cases := Z.min z remaining in
       let maddr := addr + switch_size cases * 4 in
       let* ms := size_cases c (Z.to_nat cases) maddr in
       let* ms' := fill_cases c ms in
       let* sw := lift (switch_instrs c addr 0 ms') in
       let* ids := add_methods ms' in
       let* _ := push_element (EPic (mk_pic addr cases ids sw)) in
       let* _ := register_methods ids ms' in
       ret (switch_size cases + sum_totals ms', cases)) (fun _ s => InvS c s)).
  { eapply hoare_bind; [apply m_ztp_spec; exact St|]. intros z. cbv zeta.
    eapply hoare_bind; [apply size_cases_spec; exact St|]. intros ms.
    eapply hoare_bind; [apply fill_cases_spec; assumption|]. intros ms'. apply hoare_pure_pre. intros _.
    eapply hoare_bind; [apply hoare_lift|]. intros sw. apply hoare_pure_pre. intros Hsw.
    intros s H. unfold mbind. rewrite add_methods_eq. unfold push_element at 1.
    cbn [g_script g_methods g_depths g_elements].
    match goal with |- context [register_methods ?ids ms' ?st] =>
      destruct (register_methods_eq ids ms' st) as (d' & E & _) end.
    rewrite E. unfold ret. cbn [fst snd]. unfold InvS. cbn [g_methods g_elements].
    apply Forall_app. split; [apply InvS_ext; [apply ext_app_addr|exact H]|].
    constructor; [|constructor]. exists (map m_addr ms'). cbn [p_methods p_addr p_switch].
    split; [apply seq_addrs|]. rewrite <- switch_instrs_of. exact Hsw. }
  destruct k as [|p|p]; [|exact PIC|exact PIC].
  eapply hoare_bind; [apply size_method_spec; exact St|]. intros m. apply hoare_pure_pre. intros _.
  eapply hoare_bind; [apply fill_method_ok'; assumption|]. intros m'. apply hoare_pure_pre. intros _.
  intros s H. unfold mbind, add_method, push_element, register_method, ret. cbn [fst snd g_script g_methods g_depths g_elements].
  apply (InvS_add_method c s m' (EMethod (List.length (g_methods s))) H I).
Qed.

Lemma fill_loop_InvS c fuel : forall addr count,
  cfg_facts c -> hoare (InvS c) (fill_loop c fuel addr count) (fun _ s => InvS c s).
Proof.
  induction fuel as [|k IH]; intros addr count F; cbn [fill_loop].
  - destruct (c_nb_methods c <=? count); [intros s H; cbn; exact H|apply hoare_fail].
  - destruct (c_nb_methods c <=? count); [intros s H; cbn; exact H|].
    eapply hoare_bind; [apply add_element_InvS; exact F|]. intros [size nm]. apply IH. exact F.
Qed.

Lemma fill_jit_code_InvS c start :
  cfg_facts c -> hoare (InvS c) (fill_jit_code c start) (fun _ s => InvS c s).
Proof.
  intros F. unfold fill_jit_code. pose proof (InvS_stable c) as St.
  eapply hoare_bind; [apply size_method_spec; exact St|]. intros m. apply hoare_pure_pre. intros _.
  eapply hoare_bind; [apply fill_method_ok'; assumption|]. intros m'. apply hoare_pure_pre. intros _.
  intros s H. unfold mbind at 1 2 3. unfold add_method, push_element, register_method.
  cbn [fst snd g_script g_methods g_depths g_elements].
  refine (fill_loop_InvS c _ _ _ F _ _). apply (InvS_add_method c s m' (EMethod (List.length (g_methods s))) H I).
Qed.

(* patching keeps every method's address *)
Lemma patch_method_InvS c id : hoare (InvS c) (patch_method c id) (fun _ s => InvS c s).
Proof.
  pose proof (InvS_stable c) as St. intros s HI. unfold patch_method, mbind at 1, get_method.
  destruct (nth_error (g_methods s) id) as [m|] eqn:En; [|exact I].
  destruct (m_depth m =? 0); [cbn; exact HI|].
  cbv beta zeta.
  assert (G : hoare (fun s0 => InvS c s0 /\ nth_error (g_methods s0) id = Some m)
    (let* picks := draw_choices (zlen (possible_callees (g_depths s) (m_depth m))) (m_calls m) WNone in
     let callee_ids := map (fun i => nth (Z.to_nat i) (possible_callees (g_depths s) (m_depth m)) O) picks in
     if nat_mem id callee_ids then fail ERecursive else
     let* cms := get_methods callee_ids in
     if existsb (fun cm => nat_mem id (m_callees cm)) cms then fail EMutual else
     let cs := m_call_size m in
     let* idx := draw_sample (m_pro m + m_body m - cs) (m_pro m - 1) (- cs) (zlen callee_ids) in
     let* ins := lift (patch_calls c (m_addr m) (m_instrs m) idx cms) in
     set_method id (mk_method (m_addr m) (m_body m) (m_calls m) (m_depth m) (m_call_size m) (m_pro m)
                      (m_epi m) ins callee_ids)) (fun _ s' => InvS c s')).
  { assert (St' : stable (fun s0 => InvS c s0 /\ nth_error (g_methods s0) id = Some m)).
    { intros a b [H1 H2] E Sx. split; [eapply St; eassumption|]. destruct E as (E & _). rewrite E. exact H2. }
    eapply hoare_bind; [apply draw_choices_spec; exact St'|]. intros picks. apply hoare_pure_pre2. intros _ _.
    cbv zeta. destruct (nat_mem id _); [apply hoare_fail|].
    eapply hoare_bind with (Q := fun _ s0 => InvS c s0 /\ nth_error (g_methods s0) id = Some m).
    { set (ids := map _ picks). clearbody ids. induction ids as [|x tl IHl]; cbn [get_methods].
      - intros s0 H0. cbn. exact H0.
      - eapply hoare_bind with (Q := fun _ s0 => InvS c s0 /\ nth_error (g_methods s0) id = Some m).
        + intros s0 H0. unfold get_method. destruct (nth_error (g_methods s0) x); [exact H0|exact I].
        + intros m0. eapply hoare_bind; [exact IHl|]. intros rest s0 H0. cbn. exact H0. }
    intros cms. destruct (existsb _ cms); [apply hoare_fail|].
    eapply hoare_bind; [apply draw_sample_spec; exact St'|]. intros idx. apply hoare_pure_pre. intros _.
    eapply hoare_bind; [apply hoare_lift|]. intros ins. apply hoare_pure_pre. intros _.
    intros s0 [H0 Hn0]. unfold set_method. cbn [fst snd]. unfold InvS. cbn [g_methods g_elements].
    fold (set_nth (g_methods s0) id (mk_method (m_addr m) (m_body m) (m_calls m) (m_depth m) (m_call_size m)
                     (m_pro m) (m_epi m) ins (map (fun i => nth (Z.to_nat i) (possible_callees (g_depths s) (m_depth m)) O) picks))).
    apply InvS_ext; [|exact H0].
    assert (Hlt : (id < List.length (g_methods s0))%nat) by (apply nth_error_Some; congruence).
    intros j x Hj. rewrite nth_error_set_nth by exact Hlt. destruct (Nat.eqb_spec j id) as [->|Hne].
    - eexists. split; [reflexivity|]. rewrite Hn0 in Hj. inversion Hj; subst. reflexivity.
    - exists x. auto. }
  exact (G s (conj HI En)).
Qed.

Lemma patch_ids_InvS c ids : hoare (InvS c) (patch_ids c ids) (fun _ s => InvS c s).
Proof.
  induction ids as [|id tl IH]; cbn [patch_ids].
  - intros s H. cbn. exact H.
  - eapply hoare_bind; [apply patch_method_InvS|]. intro. exact IH.
Qed.

Theorem gen_main_switches c :
  cfg_facts c -> hoare (InvS c) (gen_main c)
    (fun img _ => Forall (fun e => match e with EPic p => switch_ok c (im_methods img) p | EMethod _ => True end)
                         (im_elements img)).
Proof.
  intros F. pose proof (InvS_stable c) as St. unfold gen_main.
  destruct (c_jit_start c <? c_int_start c); [apply hoare_fail|].
  destruct (c_nb_methods c =? 0); [apply hoare_fail|].
  eapply hoare_bind with (Q := fun _ s => InvS c s).
  { destruct (uses_tramp (c_variant c)).
    - eapply hoare_bind; [apply hoare_lift|]. intros t1. apply hoare_pure_pre. intros _.
      eapply hoare_bind; [apply hoare_lift|]. intros t2. apply hoare_pure_pre. intros _.
      intros s H. cbn. exact H.
    - intros s H. cbn. exact H. }
  intros tramps. cbv zeta.
  eapply hoare_bind; [apply fill_jit_code_InvS; exact F|]. intros e.
  eapply hoare_bind with (Q := fun _ s => InvS c s).
  { intros s H. unfold patch_jit_calls. exact (patch_ids_InvS c _ s H). }
  intro.
  eapply hoare_bind; [apply fill_interpretation_loop_stable; exact St|]. intros ints.
  apply hoare_pure_pre. intros _.
  intros s HS. cbv beta zeta.
  assert (G : hoare (objs_are (g_methods s) (g_depths s) (g_elements s))
    (let* nop := lift nop_ in
     let* data := generate_data (c_data_strategy c) (c_data_size c) in
     let ss := match c_variant c with
               | GRimiSS | GRimiFull => zeros (Z.to_nat (align (c_ss_size c) 8))
               | _ => zeros 8
               end in
     ret (mk_image (map generate ints ++ repeat_z (generate nop)
                      (Z.to_nat ((jit_start_al c - (int_start_al c + zlen (map generate ints) * 4)) / 4)))
            (map generate (List.concat tramps) ++ flat_map (elt_words (g_methods s)) (g_elements s)) data ss
            (g_methods s) (g_elements s) tramps ints))
    (fun img _ => Forall (fun e => match e with EPic p => switch_ok c (im_methods img) p | EMethod _ => True end)
                         (im_elements img))).
  { eapply hoare_bind; [apply hoare_lift|]. intros nop. apply hoare_pure_pre. intros _.
    eapply hoare_bind; [apply generate_data_spec; apply objs_are_stable|]. intros data.
    intros s0 _. cbn. exact HS. }
  exact (G s (conj eq_refl (conj eq_refl eq_refl))).
Qed.

Theorem run_gen_switches c script img rest :
  cfg_facts c -> run_gen c script = OK (img, rest) ->
  Forall (fun e => match e with EPic p => switch_ok c (im_methods img) p | EMethod _ => True end) (im_elements img).
Proof.
  intros F H. unfold run_gen in H.
  pose proof (gen_main_switches c F (mk_gs script [] [] []) ltac:(constructor)) as G.
  destruct (gen_main c (mk_gs script [] [] [])) as [[im s]|e]; [|discriminate].
  inversion H; subst. exact G.
Qed.

Lemma decode_all_Forall2' x : forall l is,
  decode_all x l = Some is -> Forall2 (fun g i => decode x (generate g) = Some i) l is.
Proof.
  induction l as [|g tl IH]; intros is H; cbn [decode_all fold_right] in H.
  - inversion H. constructor.
  - fold (decode_all x tl) in H. destruct (decode x (generate g)) as [i|] eqn:E; [|discriminate].
    destruct (decode_all x tl) as [l'|] eqn:E'; [|discriminate]. inversion H; subst.
    constructor; [exact E|apply IH; reflexivity].
Qed.

(* ------------------------------------------------------------------ decoding the table *)
Lemma switch_case_decodes_x x n moff hit cmp :
  0 < n < 2048 -> -1048576 <= moff < 1048576 -> moff mod 2 = 0 ->
  0 < hit < 32 -> 0 < cmp < 32 ->
  exists stub,
    build_switch_case n moff hit cmp = OK stub /\
    decode_all x stub = Some (switch_decoded n moff hit cmp).
Proof.
  intros Hn Hm Hev Hhit Hcmp.
  unfold build_switch_case. cbn. unfold c_X0 in *.
  eexists. split; [reflexivity|].
  unfold decode_all. cbn [fold_right].
  rewrite decode_addi_any by lia. rewrite decode_bne_any by (try lia; reflexivity).
  rewrite decode_jal_any by lia. reflexivity.
Qed.

Lemma ret_decodes x : match ret_ with OK r => decode x (generate r) = Some (Jalr 0 1 0) | Err _ => False end.
Proof. destruct x; vm_compute; reflexivity. Qed.

Lemma decode_all_app x a b da db :
  decode_all x a = Some da -> decode_all x b = Some db -> decode_all x (a ++ b) = Some (da ++ db).
Proof.
  revert da. induction a as [|g tl IH]; intros da Ha Hb; cbn [decode_all fold_right app] in *.
  - inversion Ha; subst. exact Hb.
  - fold (decode_all x tl) in Ha. fold (decode_all x (tl ++ b)).
    destruct (decode x (generate g)) as [i|]; [|discriminate].
    destruct (decode_all x tl) as [l|] eqn:El; [|discriminate]. inversion Ha; subst.
    rewrite (IH l eq_refl Hb). reflexivity.
Qed.

(* offsets of the jal of each case, as the switch builder computes them *)
Fixpoint moffs_of (pa : Z) (n : Z) (addrs : list Z) : list Z :=
  match addrs with
  | [] => []
  | a :: tl => (a - (pa + (n * 3 + 2) * 4)) :: moffs_of pa (n + 1) tl
  end.

Lemma switch_of_decodes x c pa : forall addrs n sw,
  0 <= n -> n + Z.of_nat (List.length addrs) < 2048 ->
  0 < c_hit_reg c < 32 -> 0 < c_cmp_reg c < 32 ->
  Forall (fun mo => -1048576 <= mo < 1048576 /\ mo mod 2 = 0) (moffs_of pa n addrs) ->
  switch_of c pa n addrs = OK sw ->
  decode_all x sw = Some (table n (moffs_of pa n addrs) (c_hit_reg c) (c_cmp_reg c)).
Proof.
  induction addrs as [|a tl IH]; intros n sw Hn0 Hn Hh Hc Hr H; cbn [switch_of moffs_of table] in *.
  - pose proof (ret_decodes x) as R. destruct ret_ as [r|e]; [|contradiction]. cbn [bind] in H. inversion H; subst.
    cbn [decode_all fold_right]. rewrite R. reflexivity.
  - cbn [List.length] in Hn. rewrite Nat2Z.inj_succ in Hn.
    inversion Hr as [|? ? [Hm1 Hm2] Hr']; subst.
    destruct (switch_case_decodes_x x (n + 1) (a - (pa + (n * 3 + 2) * 4)) (c_hit_reg c) (c_cmp_reg c)
                ltac:(lia) Hm1 Hm2 Hh Hc) as (stub & Es & Ds).
    rewrite Es in H. cbn [bind] in H.
    destruct (switch_of c pa (n + 1) tl) as [rest|e] eqn:Er; cbn [bind] in H; [|discriminate].
    inversion H; subst. apply decode_all_app; [exact Ds|].
    apply IH; try assumption; lia.
Qed.

Lemma moffs_nth pa : forall addrs n k a,
  nth_error addrs k = Some a -> nth_error (moffs_of pa n addrs) k = Some (a - (pa + ((n + Z.of_nat k) * 3 + 2) * 4)).
Proof.
  induction addrs as [|x tl IH]; intros n k a H; [destruct k; discriminate|].
  destruct k as [|k']; cbn [nth_error moffs_of] in *.
  - inversion H; subst. replace (n + Z.of_nat 0) with n by lia. reflexivity.
  - rewrite (IH (n + 1) k' a H). rewrite Nat2Z.inj_succ. f_equal. lia.
Qed.

Lemma moffs_length pa : forall addrs n, List.length (moffs_of pa n addrs) = List.length addrs.
Proof. induction addrs as [|x tl IH]; intros n; cbn; [reflexivity|]. rewrite IH. reflexivity. Qed.

(* THE THEOREM (PIC dispatch at machine level) *)
Theorem pic_dispatch c script img :
  successful c script img ->
  Forall (fun e => match e with
    | EMethod _ => True
    | EPic p =>
      forall addrs,
        Forall2 (fun id a => exists m, nth_error (im_methods img) id = Some m /\ m_addr m = a) (p_methods p) addrs ->
        (* the PIC is small enough for its jal offsets (F6 excluded) and has fewer than 2047 cases *)
        Z.of_nat (List.length addrs) < 2047 ->
        Forall (fun mo => -1048576 <= mo < 1048576 /\ mo mod 2 = 0) (moffs_of (p_addr p) 0 addrs) ->
        forall L s k a,
          regions_ok L -> code_hi L < W64 ->
          let P := p_addr p in let ws := map generate (p_switch p) in
          code_at (mem s) P ws -> pc s = P -> P mod 4 = 0 -> code_lo L <= P ->
          P + 4 * Z.of_nat (List.length ws) <= code_hi L ->
          (halt_at L < P \/ P + 4 * Z.of_nat (List.length ws) <= halt_at L) ->
          side_ok (gv c) L P (Z.of_nat (List.length ws)) (dom s) ->
          nth_error addrs k = Some a -> 0 <= a < W64 -> rget s (c_hit_reg c) = 1 + Z.of_nat k ->
          exists s', run (gv c) L (2 * k + 3) s = (Next s', (2 * k + 3)%nat) /\
                     pc s' = a /\ mem s' = mem s /\ cfi s' = cfi s /\ dom s' = dom s /\
                     (forall r, 0 <= r -> r <> c_cmp_reg c -> rget s' r = rget s r)
    end) (im_elements img).
Proof.
  intros [Hc Hr]. destruct (cfg_ok_facts c Hc) as [F R].
  pose proof (run_gen_switches c script img [] F Hr) as HS.
  (* admissible PIC registers *)
  assert (Hregs : 0 < c_hit_reg c < 32 /\ 0 < c_cmp_reg c < 32 /\ c_hit_reg c <> c_cmp_reg c).
  { unfold cfg_ok in Hc. apply andb_prop in Hc. destruct Hc as [Hc _]. apply andb_prop in Hc. destruct Hc as [_ Hp].
    unfold cfg_pic_regs in Hp. repeat (apply andb_prop in Hp; destruct Hp as [Hp ?]).
    apply in_list_In in Hp.
    match goal with Hx : in_list (c_cmp_reg c) c_CALLER_SAVED_REG = true |- _ => apply in_list_In in Hx;
      destruct (caller_saved_facts _ Hx) as (Rc & _) end.
    destruct (caller_saved_facts _ Hp) as (Rh & _).
    match goal with Hx : negb (c_hit_reg c =? c_cmp_reg c) = true |- _ => apply negb_true_iff in Hx; apply Z.eqb_neq in Hx end.
    auto. }
  destruct Hregs as (Hh & Hcm & Hne).
  eapply Forall_impl; [|exact HS]. intros [id|p] He; [exact I|].
  intros addrs F2 Hn Hrng L s k a RO H64 P ws Hcode Hpc Hal Hlo Hhi Hhalt Hside Hk Ha Hv.
  destruct He as (addrs' & F2' & Hsw).
  assert (addrs' = addrs).
  { clear - F2 F2'. revert addrs F2. induction F2' as [|id0 a0 ids tl (m & Hn & Hm) _ IH]; intros addrs F2; inversion F2; subst; [reflexivity|].
    f_equal; [|apply IH; assumption]. destruct H1 as (m' & Hn' & Hm'). congruence. }
  subst addrs'.
  pose proof (switch_of_decodes (variant_ext (gv c)) c (p_addr p) addrs 0 (p_switch p) ltac:(lia) ltac:(lia) Hh Hcm Hrng Hsw) as Hdec.
  apply decode_all_Forall2' in Hdec.
  destruct (dispatch (gv c) L RO H64 (c_hit_reg c) (c_cmp_reg c) Hh Hcm Hne (moffs_of (p_addr p) 0 addrs) 0 ws s P k
              (a - (p_addr p + ((0 + Z.of_nat k) * 3 + 2) * 4)))
    as (s' & Er & Pc & (M & C & D & Rg)); try assumption; try lia.
  - unfold ws. clear - Hdec. induction Hdec; cbn [map]; constructor; assumption.
  - rewrite moffs_length. lia.
  - apply moffs_nth. exact Hk.
  - exists s'. split; [exact Er|]. split; [|auto].
    rewrite Pc. fold P. replace (P + 12 * Z.of_nat k + 8 + (a - (P + ((0 + Z.of_nat k) * 3 + 2) * 4))) with a by lia.
    apply u64_small. exact Ha.
Qed.
