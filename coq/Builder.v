(* Builder.v — model of gigue/builder.py (stubs, switch, prologue/epilogue,
   trampolines), gigue/rimi/rimi_builder.py and gigue/fixer/fixer_builder.py.
   Mirrors the Python; exceptions become an error value. *)
From Coq Require Import ZArith List String Bool.
From Gigue Require Import Types Bits Enc GenTables.
Import ListNotations.
Open Scope string_scope.
Open Scope Z_scope.
Open Scope list_scope.

Inductive err :=
| EWrongOffset | EKeyError | EWrongAddress | ECallNumber | ERecursive | EMutual
| EScript (what : string) | EZeroDivision | EIndexError | EAlignment | EEmptyPopulation | EValueError.

Inductive res (A : Type) := OK (a : A) | Err (e : err).
Arguments OK {A} a.
Arguments Err {A} e.

Definition bind {A B} (r : res A) (f : A -> res B) : res B :=
  match r with OK a => f a | Err e => Err e end.
Notation "'do' x <- r ; k" := (bind r (fun x => k)) (at level 200, x pattern, r at level 100, k at level 200).

Definition of_opt {A} (o : option A) : res A :=
  match o with Some a => OK a | None => Err EKeyError end.

Fixpoint sequence {A} (l : list (res A)) : res (list A) :=
  match l with
  | [] => OK []
  | r :: tl => do a <- r; do rest <- sequence tl; OK (a :: rest)
  end.

(* builder variants *)
Inductive bvariant := BBase | BRimiSS | BRimiFull | BFixer.

(* ------------------------------------------------ constructor shorthands *)
Definition I_ (name : string) (rd rs1 imm : Z) := of_opt (i_instr base_table name rd rs1 imm).
Definition U_ (name : string) (rd imm : Z) := of_opt (u_instr base_table name rd imm).
Definition S_ (name : string) (rs1 rs2 imm : Z) := of_opt (s_instr base_table name rs1 rs2 imm).
Definition B_ (name : string) (rs1 rs2 imm : Z) := of_opt (b_instr base_table name rs1 rs2 imm).
Definition J_ (rd imm : Z) := of_opt (j_instr base_table "jal" rd imm).
Definition R_ (name : string) (rd rs1 rs2 : Z) := of_opt (r_instr base_table name rd rs1 rs2).
Definition RI_ (name : string) (rd rs1 imm : Z) := of_opt (i_instr rimi_table name rd rs1 imm).
Definition RS_ (name : string) (rs1 rs2 imm : Z) := of_opt (s_instr rimi_table name rs1 rs2 imm).
Definition FX_ (name : string) (rd rs1 rs2 : Z) := of_opt (custom_instr fixer_table name rd rs1 rs2).
Definition ret_ := I_ "jalr" 0 1 0.
Definition nop_ := I_ "addi" 0 0 0.
Definition jr_ (rs1 : Z) := I_ "jalr" 0 rs1 0.
Definition ecall_ := I_ "ecall" 0 0 0.

(* --------------------------------------------------------- split_offset *)
Definition split_offset (offset min_offset : Z) : res (Z * Z) :=
  if Z.abs offset <? min_offset then Err EWrongOffset
  else OK (Z.land offset 4095,
           Z.land offset 4294963200 + Z.shiftl (Z.land offset 2048) 1).

(* ---------------------------------------------------------- base stubs *)
Definition build_method_base_call (offset : Z) : res (list gi) :=
  do lh <- split_offset offset 8;
  let '(lo, hi) := lh in
  sequence [U_ "auipc" c_RA hi; I_ "jalr" c_RA c_RA lo].

Definition build_pic_base_call (offset hit_case hit_case_reg : Z) : res (list gi) :=
  do lh <- split_offset (offset - 4) 12;
  let '(lo, hi) := lh in
  sequence [I_ "addi" hit_case_reg c_X0 hit_case; U_ "auipc" c_RA hi; I_ "jalr" c_RA c_RA lo].

Definition build_interpreter_trampoline_method_call (full : bool) (offset call_trampoline_offset : Z)
  : res (list gi) :=
  do t <- split_offset offset 12;
  do tr <- split_offset (call_trampoline_offset - 8) 12;
  let '(lo_t, hi_t) := t in let '(lo_tr, hi_tr) := tr in
  sequence [U_ "auipc" c_CALL_TMP_REG hi_t; I_ "addi" c_CALL_TMP_REG c_CALL_TMP_REG lo_t;
            U_ "auipc" c_RA hi_tr;
            if full then RI_ "chdom" c_RA c_RA lo_tr else I_ "jalr" c_RA c_RA lo_tr].

Definition build_interpreter_trampoline_pic_call (full : bool)
  (offset call_trampoline_offset hit_case hit_case_reg : Z) : res (list gi) :=
  do t <- split_offset offset 20;
  do tr <- split_offset (call_trampoline_offset - 12) 20;
  let '(lo_t, hi_t) := t in let '(lo_tr, hi_tr) := tr in
  sequence [U_ "auipc" c_CALL_TMP_REG hi_t; I_ "addi" c_CALL_TMP_REG c_CALL_TMP_REG lo_t;
            I_ "addi" hit_case_reg c_X0 hit_case;
            U_ "auipc" c_RA hi_tr;
            if full then RI_ "chdom" c_RA c_RA lo_tr else I_ "jalr" c_RA c_RA lo_tr].

Definition build_switch_case (case_number method_offset hit_case_reg cmp_reg : Z) : res (list gi) :=
  sequence [I_ "addi" cmp_reg c_X0 case_number; B_ "bne" cmp_reg hit_case_reg 8; J_ c_X0 method_offset].

Definition build_pc_relative_reg_save (offset register : Z) : res (list gi) :=
  do lh <- split_offset offset 8;
  let '(lo, hi) := lh in
  sequence [U_ "auipc" register hi; I_ "addi" register register lo].

(* --------------------------------------------------------- FIXER stubs *)
Definition fixer_method_base_call (offset : Z) : res (list gi) :=
  if Z.abs offset <? 20 then Err EWrongOffset else
  do pre <- sequence [U_ "auipc" c_FIXER_CMP_REG 0; I_ "addi" c_FIXER_CMP_REG c_FIXER_CMP_REG 20;
                      FX_ "cficall" 0 c_FIXER_CMP_REG 0];
  do call <- build_method_base_call (offset - 12);
  OK (pre ++ call).

Definition fixer_pic_base_call (offset hit_case hit_case_reg : Z) : res (list gi) :=
  if Z.abs offset <? 24 then Err EWrongOffset else
  do pre <- sequence [U_ "auipc" c_FIXER_CMP_REG 0; I_ "addi" c_FIXER_CMP_REG c_FIXER_CMP_REG 24;
                      FX_ "cficall" 0 c_FIXER_CMP_REG 0];
  do call <- build_pic_base_call (offset - 12) hit_case hit_case_reg;
  OK (pre ++ call).

(* dispatch as the builder classes do *)
Definition method_base_call (b : bvariant) (offset : Z) : res (list gi) :=
  match b with BFixer => fixer_method_base_call offset | _ => build_method_base_call offset end.
Definition pic_base_call (b : bvariant) (offset hit_case hit_case_reg : Z) : res (list gi) :=
  match b with BFixer => fixer_pic_base_call offset hit_case hit_case_reg
             | _ => build_pic_base_call offset hit_case hit_case_reg end.
Definition interp_method_call (b : bvariant) (offset tramp_offset : Z) : res (list gi) :=
  build_interpreter_trampoline_method_call (match b with BRimiFull => true | _ => false end) offset tramp_offset.
Definition interp_pic_call (b : bvariant) (offset tramp_offset hit_case hit_case_reg : Z) : res (list gi) :=
  build_interpreter_trampoline_pic_call (match b with BRimiFull => true | _ => false end)
    offset tramp_offset hit_case hit_case_reg.

(* ------------------------------------------------ prologue / epilogue *)
Definition bool_z (b : bool) : Z := if b then 1 else 0.

Fixpoint seqZ (n : nat) : list Z :=       (* range(n) *)
  match n with O => [] | S k => seqZ k ++ [Z.of_nat k] end.

Definition nthZ (l : list Z) (i : Z) : res Z :=     (* l[i], IndexError outside *)
  if (0 <=? i) && (i <? Z.of_nat (List.length l)) then OK (nth (Z.to_nat i) l 0) else Err EIndexError.

Definition base_prologue (used_s_regs local_var_nb : Z) (contains_call : bool) : res (list gi) :=
  let stack_space := (used_s_regs + local_var_nb + bool_z contains_call) * 8 in
  do first <- I_ "addi" c_SP c_SP (- stack_space);
  do saves <- sequence (map (fun i => do r <- nthZ c_CALLEE_SAVED_REG i; S_ "sd" c_SP r (i * 8))
                            (seqZ (Z.to_nat used_s_regs)));
  do ra <- (if contains_call then do x <- S_ "sd" c_SP c_RA (used_s_regs * 8); OK [x] else OK []);
  OK (first :: saves ++ ra).

Definition base_epilogue (used_s_regs local_var_nb : Z) (contains_call : bool) : res (list gi) :=
  let stack_space := (used_s_regs + local_var_nb + bool_z contains_call) * 8 in
  do loads <- sequence (map (fun i => do r <- nthZ c_CALLEE_SAVED_REG i; I_ "ld" r c_SP (i * 8))
                            (seqZ (Z.to_nat used_s_regs)));
  do ra <- (if contains_call then do x <- I_ "ld" c_RA c_SP (used_s_regs * 8); OK [x] else OK []);
  do sp <- I_ "addi" c_SP c_SP stack_space;
  do r <- ret_;
  OK (loads ++ ra ++ [sp; r]).

(* list.insert(-1, x): before the last element *)
Definition insert_before_last {A} (l : list A) (x : A) : list A :=
  match rev l with
  | [] => [x]
  | last :: front => rev front ++ [x; last]
  end.

Definition build_prologue (b : bvariant) (used_s_regs local_var_nb : Z) (contains_call : bool) : res (list gi) :=
  match b with
  | BBase | BFixer => base_prologue used_s_regs local_var_nb contains_call
  | BRimiSS | BRimiFull =>
      do p <- base_prologue used_s_regs local_var_nb false;
      if contains_call then
        do a <- I_ "addi" c_RIMI_SSP_REG c_RIMI_SSP_REG (-8);
        do s <- RS_ "sst" c_RIMI_SSP_REG c_RA 0;
        OK (p ++ [a; s])
      else OK p
  end.

Definition build_epilogue (b : bvariant) (used_s_regs local_var_nb : Z) (contains_call : bool) : res (list gi) :=
  match b with
  | BBase => base_epilogue used_s_regs local_var_nb contains_call
  | BRimiSS | BRimiFull =>
      do e <- base_epilogue used_s_regs local_var_nb false;
      if contains_call then
        do l <- RI_ "lst" c_RA c_RIMI_SSP_REG 0;
        do a <- I_ "addi" c_RIMI_SSP_REG c_RIMI_SSP_REG 8;
        OK (insert_before_last (insert_before_last e l) a)
      else OK e
  | BFixer =>
      do e <- base_epilogue used_s_regs local_var_nb contains_call;
      do c <- FX_ "cfiret" c_FIXER_CMP_REG 0 0;
      do q <- B_ "beq" c_RA c_FIXER_CMP_REG 8;
      do x <- ecall_;
      OK (insert_before_last (insert_before_last (insert_before_last e c) q) x)
  end.

(* ---------------------------------------------------------- trampolines *)
Definition build_call_jit_elt_trampoline (b : bvariant) : res (list gi) :=
  match b with
  | BBase | BRimiSS =>
      sequence [I_ "addi" c_SP c_SP (-8); S_ "sd" c_SP c_RA 0; U_ "auipc" c_RA 0; I_ "addi" c_RA c_RA 12;
                jr_ c_CALL_TMP_REG]
  | BRimiFull =>
      sequence [I_ "addi" c_RIMI_SSP_REG c_RIMI_SSP_REG (-8); RS_ "sst" c_RIMI_SSP_REG c_RA 0;
                U_ "auipc" c_RA 0; I_ "addi" c_RA c_RA 12; jr_ c_CALL_TMP_REG]
  | BFixer =>
      sequence [I_ "addi" c_SP c_SP (-8); S_ "sd" c_SP c_RA 0; U_ "auipc" c_RA 0; I_ "addi" c_RA c_RA 24;
                U_ "auipc" c_FIXER_CMP_REG 0; I_ "addi" c_FIXER_CMP_REG c_FIXER_CMP_REG 16;
                FX_ "cficall" 0 c_FIXER_CMP_REG 0; jr_ c_CALL_TMP_REG]
  end.

Definition build_ret_from_jit_elt_trampoline (b : bvariant) : res (list gi) :=
  match b with
  | BRimiFull =>
      sequence [RI_ "lst" c_RA c_RIMI_SSP_REG 0; I_ "addi" c_RIMI_SSP_REG c_RIMI_SSP_REG 8;
                RI_ "retdom" 0 1 0]
  | _ => sequence [I_ "ld" c_RA c_SP 0; I_ "addi" c_SP c_SP 8; ret_]
  end.
