(* TrampsInv.v — Layer A: the trampolines recorded in the image are exactly the
   pair built by the variant's builders (none for the variant without
   trampolines); for the trampoline variant without isolation they decode to
   TrampExec.tramp_call / tramp_ret. *)
From Coq Require Import ZArith List String Bool Lia.
From Gigue Require Import Types Bits Isa Enc GenTables Builder Samplers Generator GenLemmas Machine ImageSem GenWF
  SplitProofs BodyExec FrameExec CodeMem CallFrame TrampExec.
Import ListNotations.
Open Scope list_scope.
Open Scope Z_scope.

Definition tramps_spec (c : config) (tr : list (list gi)) : Prop :=
  if uses_tramp (c_variant c)
  then exists t1 t2, build_call_jit_elt_trampoline (bvariant_of (c_variant c)) = OK t1 /\
                     build_ret_from_jit_elt_trampoline (bvariant_of (c_variant c)) = OK t2 /\ tr = [t1; t2]
  else tr = [].

Lemma hoare_top' {A} P (m : M A) : hoare P m (fun _ _ => True).
Proof. intros s _. destruct (m s) as [[a s']|e]; exact I. Qed.

Theorem gen_main_tramps c : hoare (fun _ => True) (gen_main c) (fun img _ => tramps_spec c (im_tramps img)).
Proof.
  unfold gen_main.
  destruct (c_jit_start c <? c_int_start c); [apply hoare_fail|].
  destruct (c_nb_methods c =? 0); [apply hoare_fail|].
  eapply hoare_bind with (Q := fun tr _ => True /\ tramps_spec c tr).
  { unfold tramps_spec. destruct (uses_tramp (c_variant c)).
    - intros s _. unfold mbind, lift.
      destruct (build_call_jit_elt_trampoline _) as [t1|e]; [|exact I].
      destruct (build_ret_from_jit_elt_trampoline _) as [t2|e]; [|exact I].
      cbn. split; [exact I|]. exists t1, t2. auto.
    - intros s _. cbn. auto. }
  intros tramps. apply hoare_pure_pre. intros Htr.
  eapply hoare_bind; [apply hoare_top'|]. intro.
  eapply hoare_bind; [apply hoare_top'|]. intro.
  eapply hoare_bind; [apply hoare_top'|]. intros ints.
  intros s _. cbv beta zeta.
  unfold mbind at 1. destruct (lift nop_ s) as [[nop s1]|e]; [|exact I].
  unfold mbind at 1.
  destruct (generate_data (c_data_strategy c) (c_data_size c) s1) as [[data s2]|e]; [|exact I].
  cbn. exact Htr.
Qed.

Lemma successful_tramps c script img : successful c script img -> tramps_spec c (im_tramps img).
Proof.
  intros [Hc Hr]. unfold run_gen in Hr.
  pose proof (gen_main_tramps c (mk_gs script [] [] []) I) as G.
  destruct (gen_main c (mk_gs script [] [] [])) as [[im s]|e]; [|discriminate].
  inversion Hr; subst. exact G.
Qed.

(* the pair of the trampoline variant without isolation *)
Lemma tramp_pair_eq :
  exists t1 t2, build_call_jit_elt_trampoline BBase = OK t1 /\ build_ret_from_jit_elt_trampoline BBase = OK t2 /\
                decode_all ExtNone t1 = Some tramp_call /\ decode_all ExtNone t2 = Some tramp_ret /\
                List.length t1 = 5%nat /\ List.length t2 = 3%nat.
Proof. eexists; eexists. repeat split; vm_compute; reflexivity. Qed.
