(* MethodContractFixer.v — Layer B, the method contract along the call graph for the
   FIXER variant: EVERY method of EVERY image, entered at its first instruction with
   its return address registered on top of the CFI stack (as the tagged call that
   reaches it does), returns to its caller; every call it makes is a tagged call
   (cficall registers exactly the return address the following jalr writes into ra),
   every return goes through the check sequence, which passes - the trap is never
   reached - and pops exactly the activation's tag: the CFI stack is LIFO-matched
   along the call DAG and is back to its entry content (minus the own tag) on return. *)
From Coq Require Import ZArith List String Bool Lia.
From Gigue Require Import Types Bits Isa IsaProofs Enc EncProofs GenTables Builder Samplers Generator GenLemmas
  Machine MachineLemmas ImageSem GenWF GenWFProps SliceLemmas GenWF2 GenWF3 GenWF2Props SplitProofs
  BodyExec BodyBridge GenWF5 FrameExec CodeMem SwitchExec GenWF6 GenWF8 GenWF9 GenWF9F Walk WalkK CallFrame MethodContract
  TrampExec FixerTamper FixerCall.
Import ListNotations.
Open Scope list_scope.
Open Scope Z_scope.

(* steps of one activation: the check sequence skips the trap instruction *)
Fixpoint steps_fixer (ms : list method) (fuel : nat) (id : nat) : nat :=
  match fuel with
  | O => O
  | S k =>
      match nth_error ms id with
      | None => O
      | Some m => (List.length (m_instrs m) - 1 + fold_right (fun cal a => (steps_fixer ms k cal + a)%nat) O (m_callees m))%nat
      end
  end.

Lemma sum_sites5 {A} (h : A * nat -> nat) (g : nat -> nat) (l : list (A * nat)) :
  fold_right (fun x a => (snd x + a)%nat) O (map (fun x => (h x, (5 + g (snd x))%nat)) l) =
  (5 * List.length l + fold_right (fun cal a => (g cal + a)%nat) O (map snd l))%nat.
Proof. induction l as [|x tl IH]; cbn [map fold_right snd List.length]; [reflexivity|]. rewrite IH. lia. Qed.

Lemma fixer_call_frames_eq :
  exists pro epi,
    build_prologue BFixer m_used_s_regs m_local_vars_nb true = OK pro /\
    build_epilogue BFixer m_used_s_regs m_local_vars_nb true = OK epi /\
    decode_all ExtFixer pro = Some call_pro /\ decode_all ExtFixer epi = Some fixer_epi_call.
Proof. eexists; eexists; (split; [vm_compute; reflexivity|]); (split; [vm_compute; reflexivity|]); split; vm_compute; reflexivity. Qed.

Section MCF.
Variable c : config.
Variable script : list draw.
Variable img : image.
Hypothesis Hsucc : successful c script img.
Hypothesis Hfx : c_variant c = GFixer.
Variable L : layout.
Hypothesis HP : placed c img L.

Let ms := im_methods img.
Let v := gv c.
Let dr := c_data_reg c.

Lemma Hbv : bvariant_of (c_variant c) = BFixer.
Proof. rewrite Hfx. reflexivity. Qed.
Lemma gv_fx : gv c = VFixer.
Proof. unfold gv. rewrite Hfx. reflexivity. Qed.
Lemma fx_ext : variant_ext (gv c) = ExtFixer.
Proof. rewrite gv_fx. reflexivity. Qed.
Lemma fx_side A n d : side_ok (gv c) L A n d.
Proof. rewrite gv_fx. exact I. Qed.

Definition fcontract (need : Z) (cnt : nat) (m : method) : Prop :=
  forall s rest, code_loaded img s -> pc s = m_addr m -> env_ok v L dr s ->
    let S := rget s 2 in
    S mod 8 = 0 -> need <= S < W64 -> stk_lo L <= S - need -> S <= stk_hi L ->
    0 <= rget s 8 < W64 -> 0 <= rget s 1 < W64 ->
    cfi s = rget s 1 :: rest ->
    exists s', run v L cnt s = (Next s', cnt) /\ pc s' = (u64 (rget s 1 + 0) / 2) * 2 /\
      (forall r, 0 <= r -> wr c r = false -> r <> 28 -> rget s' r = rget s r) /\
      mem_frame c L s s' (S - need) S /\ dom s' = dom s /\ cfi s' = rest /\ env_ok v L dr s'.

Lemma fimg_struct : Forall (method_structF c ms) ms.
Proof.
  destruct Hsucc as [Hc Hr]. destruct (cfg_ok_facts c Hc) as [F R]. destruct (cfg_ok_sizes c Hc) as [Hnb Hms].
  exact (run_gen_structF c script img [] Hfx F Hms Hnb Hr).
Qed.

Lemma fimg_wf : image_wf c img.
Proof. exact (proj1 (successful_wf c script img Hsucc)). Qed.

Lemma fimg_mok2 m : In m ms -> mok2 c m.
Proof.
  intros Hm. destruct (iw_layout c img fimg_wf) as (e & d & HPo).
  pose proof (p2_methods _ _ _ _ _ _ HPo) as Ms. rewrite Forall_forall in Ms. apply Ms. exact Hm.
Qed.

Lemma fframe_leaf m : m_is_leaf m = true -> frame_of c m = 24.
Proof. intros H. unfold frame_of. rewrite H. reflexivity. Qed.
Lemma fframe_call m : m_is_leaf m = false -> frame_of c m = 32.
Proof. intros H. unfold frame_of. rewrite H, Hfx. reflexivity. Qed.

Lemma fx28 : wr c 28 = false /\ dr <> 28.
Proof.
  destruct Hsucc as [Hc _]. destruct (cfg_ok_facts c Hc) as [F R].
  assert (Hprot : is_protected (c_variant c) = true) by (rewrite Hfx; reflexivity).
  pose proof (cr_special c R Hprot) as D28. split; [|exact D28].
  unfold wr, in_zlist. destruct (existsb (Z.eqb 28) (usable_registers c)) eqn:E; [|reflexivity].
  apply existsb_exists in E. destruct E as (y & Hy & Ey). apply Z.eqb_eq in Ey. subst y.
  exfalso. unfold usable_registers in Hy. rewrite Hfx in Hy. apply filter_In in Hy. destruct Hy as [_ Hy].
  unfold cfg_ok in Hc. apply andb_prop in Hc. destruct Hc as [Hc _]. apply andb_prop in Hc. destruct Hc as [Hc _].
  apply andb_prop in Hc. destruct Hc as [_ Hrg]. unfold cfg_registers in Hrg. rewrite Hprot in Hrg.
  apply andb_prop in Hrg. destruct Hrg as [_ Hsp]. apply andb_prop in Hsp. destruct Hsp as [Hsp _].
  apply Z.eqb_eq in Hsp. rewrite Hsp in Hy. cbn in Hy. discriminate.
Qed.

(* ---- leaf methods ---- *)
Lemma fleaf_case m : In m ms -> m_depth m = 0 -> m_calls m = 0 -> fcontract 24 (List.length (m_instrs m) - 1) m.
Proof.
  intros Hm Hd Hcalls s rest Hcode Hpc He S HSal HSr HSlo HShi Hs0 Hra Hcfi.
  pose proof (fixer_leaf_methods_run c script img Hsucc Hfx) as HL.
  rewrite Forall_forall in HL. specialize (HL m Hm Hd Hcalls L s rest).
  destruct (img_placed c img L HP m Hm) as (Hal & Hlo & Hhi & Hh).
  unfold code_loaded in Hcode. rewrite Forall_forall in Hcode. specialize (Hcode m Hm).
  cbv zeta in HL. rewrite Hpc in HL.
  destruct HL as (s' & Rn & Pc & Rg & M & D & C & He'); try assumption;
    try (apply (pd_regions c img L HP)); try (apply (pd_data c img L HP)); try (apply (pd_stack c img L HP));
    try (unfold zlen in *; pose proof (pd_code64 c img L HP); lia); try lia.
  exists s'. split; [exact Rn|]. split; [exact Pc|]. split; [exact Rg|].
  split; [|auto]. intros a Ha Hdta Hr. apply M; try assumption. fold S. lia.
Qed.

(* ---- methods that make calls ---- *)
(* TAMPERING: at every position p of the method's own body that is not strictly inside a call
   stub (before / after each of its own instructions, before each call, after each return from a
   callee), the untampered run reaches p with the frame live (the saved-ra slot holds ra); if at
   that moment the slot is overwritten with ANY other value X, the continued run - the rest of the
   body, all further callees - arrives at the method's own check sequence and the next step is the
   TRAP of its ecall: the `ret` through the forged address is never executed. *)
Definition ftamper_concl (m : method) (s : mstate) : Prop :=
  let S := rget s 2 in
  exists idx, Forall2 (site_ok c ms m) idx (m_callees m) /\
  forall p : nat, (p <= Z.to_nat (m_body m))%nat ->
    (forall i, In i idx -> ~ (Z.to_nat i - 3 < p < Z.to_nat i - 3 + 5)%nat) ->
    exists k sk, run v L k s = (Next sk, k) /\ pc sk = m_addr m + 4 * (3 + Z.of_nat p) /\
      load_bytes (mem sk) (S - 24) 8 = rget s 1 /\
      forall X, 0 <= X < W64 -> X <> rget s 1 ->
        exists n st, run v L n (set_mem sk (store_bytes (mem sk) (S - 24) 8 X)) = (Next st, n) /\
          pc st = m_addr m + 4 * (3 + m_body m + 5) /\ step v L st = Trap st.

Section CallCase.
Variable f : nat.
Variable id : nat.
Variable m : method.
Hypothesis Hid : nth_error ms id = Some m.
Hypothesis Hnl : m_is_leaf m = false.
Hypothesis IHc : forall cal cm, In cal (m_callees m) -> nth_error ms cal = Some cm ->
  fcontract (need_method c ms f cal) (steps_fixer ms f cal) cm.

Let N := need_method c ms (S f) id.

Lemma N_eq : N = 32 + fold_right (fun cal a => Z.max (need_method c ms f cal) a) 0 (m_callees m).
Proof. unfold N. cbn [need_method]. rewrite Hid, (fframe_call m Hnl). reflexivity. Qed.

Lemma fcall_both : forall s rest, code_loaded img s -> pc s = m_addr m -> env_ok v L dr s ->
    let S := rget s 2 in
    S mod 8 = 0 -> N <= S < W64 -> stk_lo L <= S - N -> S <= stk_hi L ->
    0 <= rget s 8 < W64 -> 0 <= rget s 1 < W64 ->
    cfi s = rget s 1 :: rest ->
    (exists s', run v L (steps_fixer ms (Datatypes.S f) id) s = (Next s', steps_fixer ms (Datatypes.S f) id) /\ pc s' = (u64 (rget s 1 + 0) / 2) * 2 /\
      (forall r, 0 <= r -> wr c r = false -> r <> 28 -> rget s' r = rget s r) /\
      mem_frame c L s s' (S - N) S /\ dom s' = dom s /\ cfi s' = rest /\ env_ok v L dr s') /\
    ftamper_concl m s.
Proof.
  intros s rest Hcode Hpc He S HSal HSr HSlo HShi Hs0 Hra Hcfi.
  assert (Hm : In m ms) by (eapply nth_error_In; exact Hid).
  destruct (wr_facts c script img Hsucc L HP) as (W1 & W2 & W8 & Wd & D1 & D2 & D8 & D0). fold dr in Wd, D1, D2, D8, D0.
  destruct fx28 as (W28 & D28).
  destruct Hsucc as [Hc Hr]. destruct (cfg_ok_facts c Hc) as [F R].
  pose proof (placement_layout_ok c L Hc (pd_data c img L HP)) as LO.
  pose proof (pd_regions c img L HP) as RO. destruct (pd_stack c img L HP) as [Hsc Hsp0].
  pose proof (pl_stack c L (pd_data c img L HP)) as Hsd. pose proof (pl_fit c L (pd_data c img L HP)) as Hdf.
  pose proof (pl_pos c L (pd_data c img L HP)) as Hd0.
  pose proof N_eq as HN. pose proof (fold_max_nonneg c (need_method c ms f) (m_callees m)) as Hmx.
  (* structure *)
  pose proof fimg_struct as HS. rewrite Forall_forall in HS.
  destruct (HS m Hm) as (pro & body & epi & body0 & idx & Ei & Hpro & Hepi & Hdec & Hl0 & Hlb & Hsites & Hdis & Hunc).
  rewrite Hnl in Hpro, Hepi. cbn [negb] in Hpro, Hepi.
  destruct fixer_call_frames_eq as (p' & e' & Hp' & He' & Dp & De). rewrite <- Hbv in Hp', He'.
  rewrite Hpro in Hp'. rewrite Hepi in He'. inversion Hp'; inversion He'; subst p' e'. clear Hp' He'.
  assert (Lpro : List.length pro = 3%nat) by (apply decode_all_Forall2 in Dp; rewrite (Forall2_len' _ _ _ Dp); reflexivity).
  assert (Lepi : List.length epi = 7%nat) by (apply decode_all_Forall2 in De; rewrite (Forall2_len' _ _ _ De); reflexivity).
  destruct (fimg_mok2 m Hm) as (Sh & Len & Hb0).
  assert (Ecs : m_call_size m = 6).
  { rewrite (sh_cs c m Sh). rewrite Hfx; reflexivity. }
  assert (Epro : m_pro m = 3).
  { rewrite (sh_pro c m Sh), Hnl. rewrite Hfx; reflexivity. }
  assert (Lbody : Z.of_nat (List.length body) = m_body m) by (rewrite Hlb, Hl0; apply Z2Nat.id; exact Hb0).
  destruct (img_placed c img L HP m Hm) as (Hal & Hlo & Hhi & Hh).
  set (A := m_addr m) in *.
  set (nb := List.length body).
  assert (Hlen : zlen (m_instrs m) = 3 + Z.of_nat nb + 7).
  { unfold zlen. rewrite Ei, !app_length, Lpro, Lepi. unfold nb. lia. }
  pose proof (ro_code L RO) as Hc0. pose proof (pd_code64 c img L HP) as Hc64.
  unfold code_loaded in Hcode. pose proof Hcode as Hcode_all. rewrite Forall_forall in Hcode. pose proof (Hcode m Hm) as Hcm.
  set (ws := map generate (m_instrs m)) in *.
  assert (Ews : ws = map generate pro ++ map generate body ++ map generate epi) by (unfold ws; rewrite Ei, !map_app; reflexivity).
  (* ---------- prologue ---------- *)
  destruct (call_pro_exec v L Hsc s A Hpc HSal ltac:(fold S; lia) ltac:(fold S; lia) HShi)
    as (s2 & E2 & P2 & Sp2 & R2 & M2 & Dm2 & C2).
  assert (Run1 : run v L 3 s = (Next s2, 3%nat)).
  { change 3%nat with (List.length call_pro).
    apply (run_block v L call_pro (map generate pro) A s s2 RO); try assumption.
    - unfold v. rewrite fx_ext. apply Forall2_map_generate. apply decode_all_Forall2. exact Dp.
    - reflexivity.
    - rewrite Ews in Hcm. intros j w Hj. apply Hcm. apply nth_error_app_l. exact Hj.
    - rewrite map_length, Lpro. lia.
    - rewrite map_length, Lpro. lia.
    - apply fx_side. }
  (* ---------- the invariant of the body walk ---------- *)
  set (InvX := fun (X : Z) (s' : mstate) =>
     code_loaded img s' /\ env_ok v L dr s' /\ rget s' 2 = S - 32 /\
     (forall r, 0 <= r -> wr c r = false -> r <> 1 -> r <> 2 -> r <> 28 -> rget s' r = rget s r) /\
     load_bytes (mem s') (S - 32) 8 = rget s 8 /\ load_bytes (mem s') (S - 24) 8 = X /\
     mem_frame c L s s' (S - N) S /\ dom s' = dom s /\ cfi s' = cfi s).
  set (Inv := InvX (rget s 1)).
  assert (Mf2 : mem_frame c L s s2 (S - N) S).
  { intros a Ha Hdta Hrg. rewrite M2. rewrite !mget_store_other by lia. reflexivity. }
  assert (I2 : Inv s2).
  { unfold Inv, InvX. split.
    { apply (code_loaded_same c img L HP s s2); [|exact Hcode_all]. eapply (frame_same_code c img L HP); [exact Mf2|lia|lia]. }
    split.
    { destruct He as [E1 E2']. constructor; [rewrite R2 by lia; exact E1|rewrite Dm2; exact E2']. }
    split; [exact Sp2|]. split; [intros r Hr0 _ _ Hn2 _; apply R2; assumption|].
    split.
    { rewrite M2. rewrite load_store_other by lia. rewrite load_store_same by lia.
      change (2 ^ (8 * Z.of_nat 8)) with W64. apply Z.mod_small. exact Hs0. }
    split.
    { rewrite M2. rewrite load_store_same by lia. change (2 ^ (8 * Z.of_nat 8)) with W64. apply Z.mod_small. exact Hra. }
    split; [exact Mf2|]. split; assumption. }
  (* ---------- the body walk ---------- *)
  set (addr := fun j : nat => A + 4 * (3 + Z.of_nat j)).
  set (sites := map (fun i => (Z.to_nat i - 3)%nat) idx).
  set (sc := map (fun x : Z * nat => ((Z.to_nat (fst x) - 3)%nat, (5 + steps_fixer ms f (snd x))%nat)) (combine idx (m_callees m))).
  assert (Hlenic : List.length idx = List.length (m_callees m)) by (apply (Forall2_len' _ _ _ Hsites)).
  assert (Esites : map fst sc = sites).
  { unfold sc, sites. rewrite map_map. cbn [fst].
    rewrite <- (map_fst_combine idx (m_callees m) Hlenic) at 2. rewrite map_map. reflexivity. }
  assert (Hidx : forall i, In i idx -> 3 <= i /\ i + 6 <= 3 + Z.of_nat nb).
  { intros i Hi. destruct (Forall2_In_l _ _ _ i Hsites Hi) as (cal & _ & (cm & stub & _ & _ & _ & B1 & B2)).
    rewrite Epro, Ecs in *. unfold nb. lia. }
  assert (Hsite_in : forall j, In j sites -> exists i, In i idx /\ Z.of_nat j = i - 3).
  { intros j Hj. unfold sites in Hj. apply in_map_iff in Hj. destruct Hj as (i & <- & Hi).
    exists i. split; [exact Hi|]. specialize (Hidx i Hi). lia. }
  assert (Hapart : forall i j, In i sites -> In j sites -> i <> j -> (i + 5 + 1 <= j \/ j + 5 + 1 <= i)%nat).
  { intros i j Hi Hj Hne. destruct (Hsite_in i Hi) as (zi & Hzi & Ei'). destruct (Hsite_in j Hj) as (zj & Hzj & Ej').
    unfold disjoint_slots in Hdis. rewrite Ecs in Hdis.
    destruct (ForallOrdPairs_In Hdis zi zj Hzi Hzj) as [E|[H|H]]; [lia|lia|lia]. }
  assert (Hfit : forall i, In i sites -> (i + 5 <= nb)%nat).
  { intros i Hi. destruct (Hsite_in i Hi) as (zi & Hzi & Ei'). specialize (Hidx zi Hzi). lia. }
  assert (Hnd : NoDup sites).
  { unfold sites. apply NoDup_map_sub3; [|intros i Hi; apply (Hidx i Hi)].
    unfold disjoint_slots in Hdis. rewrite Ecs in Hdis. apply (slots_NoDup 6); [lia|exact Hdis]. }
  assert (Hplain_step : forall X j s', (j < nb)%nat -> is_site sites j = false -> inside 5 sc j = false ->
            InvX X s' -> pc s' = addr j ->
            exists s1, run v L 1 s' = (Next s1, 1%nat) /\ pc s1 = addr (j + 1)%nat /\ InvX X s1).
  { intros X j s' Hj Hns Hnsec (I1 & I2' & I3 & I4 & I5 & I6 & I7 & I8 & I9) Hpcj.
    (* the position is not covered by a stub *)
    assert (Hnc : ~ coveredF idx (List.length pro + j)).
    { intros (i & Hi & Hc'). specialize (Hidx i Hi). rewrite Lpro in Hc'.
      assert (Hin : In (Z.to_nat i - 3)%nat sites) by (unfold sites; apply in_map_iff; exists i; auto).
      destruct (Nat.eq_dec j (Z.to_nat i - 3)) as [->|Hne].
      - rewrite (In_is_site sites _ Hin) in Hns. discriminate.
      - assert (Hins : inside 5 sc j = true).
        { unfold inside. rewrite Esites. apply existsb_exists. exists (Z.to_nat i - 3)%nat. split; [exact Hin|].
          apply andb_true_intro. split; apply Nat.ltb_lt; lia. }
        congruence. }
    assert (Hjb : (j < List.length body)%nat) by exact Hj.
    pose proof (Hunc j Hjb Hnc) as Hnth.
    destruct (nth_error body0 j) as [g|] eqn:Eg; [|exfalso; apply nth_error_None in Eg; lia].
    rewrite Forall_forall in Hdec. destruct (Hdec g (nth_error_In _ _ Eg)) as (i & Hdi & Hbi).
    (* one machine step *)
    destruct (step_body v L dr (dsz c) (wr c) LO s' i I2' ltac:(rewrite Hpcj; unfold addr; lia)
                ltac:(rewrite Hpcj; unfold addr; lia) Hbi) as (s1 & Ex & Pc1 & Fr & He1).
    assert (Hcj : code_at (mem s') (addr j) [generate g]).
    { pose proof I1 as I1'. unfold code_loaded in I1'. rewrite Forall_forall in I1'. pose proof (I1' m Hm) as Hcm'. fold A in Hcm'. fold ws in Hcm'.
      intros k w Hk. destruct k as [|k]; [|destruct k; discriminate]. cbn in Hk. inversion Hk; subst w.
      replace (addr j + 4 * Z.of_nat 0) with (A + 4 * Z.of_nat (3 + j)%nat) by (unfold addr; lia).
      apply Hcm'. rewrite Ews. rewrite nth_error_app2 by (rewrite map_length; lia).
      rewrite map_length, Lpro. replace (3 + j - 3)%nat with j by lia.
      rewrite nth_error_app1 by (rewrite map_length; exact Hjb).
      rewrite nth_error_map, Hnth. reflexivity. }
    exists s1. split; [|split].
    - change 1%nat with (List.length [i]).
      apply (run_block v L [i] [generate g] (addr j) s' s1 RO).
      + constructor; [|constructor]. unfold v. exact Hdi.
      + cbn. rewrite (body_instr_no_domsw _ _ _ _ _ Hbi). reflexivity.
      + exact Hcj.
      + unfold addr. Z.div_mod_to_equations; lia.
      + unfold addr. lia.
      + unfold addr. cbn [List.length]. lia.
      + unfold addr. cbn [List.length]. destruct Hh; [left; lia|right; lia].
      + apply fx_side.
      + cbn [exec_at]. rewrite Hpcj, Z.eqb_refl, Ex. reflexivity.
    - rewrite Pc1, Hpcj. unfold addr. lia.
    - destruct Fr as (Rf & Mf & Df & Cf). unfold InvX.
      assert (Mf' : mem_frame c L s' s1 (S - N) S) by (intros a Ha Hd' _; apply Mf; assumption).
      split; [apply (code_loaded_same c img L HP s' s1); [|exact I1]; eapply (frame_same_code c img L HP); [exact Mf'|lia|lia]|].
      split; [exact He1|]. split; [rewrite Rf by (lia || assumption); exact I3|].
      split; [intros r Hr0 Hw N1' N2' N28'; rewrite Rf by assumption; apply I4; assumption|].
      split; [rewrite (load_bytes_ext 8 (mem s1) (mem s')); [exact I5|]; intros b Hb; apply Mf; lia|].
      split; [rewrite (load_bytes_ext 8 (mem s1) (mem s')); [exact I6|]; intros b Hb; apply Mf; lia|].
      split; [eapply (mem_frame_trans c L); [exact I7|exact Mf'|lia|lia]|]. split; congruence. }
  assert (Hsite_step : forall X j k s', In (j, k) sc -> InvX X s' -> pc s' = addr j ->
            exists s1, run v L k s' = (Next s1, k) /\ pc s1 = addr (j + 5)%nat /\ InvX X s1).
  { intros X j k s' Hjk (I1 & I2' & I3 & I4 & I5 & I6 & I7 & I8 & I9) Hpcj.
    unfold sc in Hjk. apply in_map_iff in Hjk. destruct Hjk as ([i cal] & Ejk & Hic). cbn [fst snd] in Ejk.
    inversion Ejk as [[Ej Ek]]. clear Ejk.
    assert (Hi : In i idx) by (eapply in_combine_l; exact Hic).
    assert (Hcal : In cal (m_callees m)) by (eapply in_combine_r; exact Hic).
    pose proof (Forall2_combine_In _ _ _ _ _ Hsites Hic) as Hso.
    pose proof (Hidx i Hi) as Hib.
    assert (Eji : Z.of_nat j = i - 3) by lia.
    (* the tagged call *)
    destruct Hso as (cm & stub & Hcm' & Hstub & Hwin & Hb1 & Hb2). fold ms in Hcm'.
    rewrite Hbv in Hstub. unfold method_base_call in Hstub.
    assert (Hcmin : In cm ms) by (eapply nth_error_In; exact Hcm').
    destruct (img_placed c img L HP cm Hcmin) as (Hal' & Hlo' & Hhi' & Hh').
    pose proof I1 as I1'. unfold code_loaded in I1'. rewrite Forall_forall in I1'.
    assert (EA : addr j = A + i * 4) by (unfold addr; lia).
    pose proof (pd_small c img L HP) as Hsmall. pose proof (zlen_nonneg (m_instrs cm)) as Hzc.
    destruct (fixer_method_call_shape _ _ Hstub) as ([Hmin1 Hmin2] & k2 & jj & Hshape).
    destruct (fixer_method_call_reaches L s' (A + i * 4) (m_addr cm - (A + i * 4)))
      as (stub' & is & Hb' & Hl & Hdecs & s1 & Ex & [Cpc Cra Cmem Cdom] & Ccfi & Creg); try assumption.
    { unfold in_pair_range. clear - Hlo Hhi Hlo' Hhi' Hsmall Hzc Hib Hlen Hc0. lia. }
    { replace (A + i * 4 + (m_addr cm - (A + i * 4))) with (m_addr cm) by (clear; lia). clear - Hal'. Z.div_mod_to_equations; lia. }
    { rewrite Hpcj. exact EA. }
    fold A in Hstub. rewrite Hstub in Hb'. inversion Hb'; subst stub'. rewrite Hshape in Hdecs. inversion Hdecs; subst is. clear Hdecs.
    replace (A + i * 4 + (m_addr cm - (A + i * 4))) with (m_addr cm) in Cpc by (clear; lia).
    assert (Hws : code_at (mem s') (A + i * 4) (map generate stub)).
    { rewrite <- Hwin, map_window. replace (i * 4) with (4 * Z.of_nat (Z.to_nat i)) by lia.
      apply code_at_window. exact (I1' m Hm). }
    assert (R1 : run v L 5 s' = (Next s1, 5%nat)).
    { change 5%nat with (List.length [Auipc 28 0; Iop ADDI 28 28 20; Cficall 0 28 0; Auipc 1 k2; Jalr 1 1 jj]). unfold v. rewrite gv_fx.
      apply (run_block VFixer L [Auipc 28 0; Iop ADDI 28 28 20; Cficall 0 28 0; Auipc 1 k2; Jalr 1 1 jj] (map generate stub) (A + i * 4) s' s1 RO); try assumption.
      - apply Forall2_map_generate. apply decode_all_Forall2. exact Hshape.
      - reflexivity.
      - clear - Hal. Z.div_mod_to_equations; lia.
      - clear - Hlo Hib. lia.
      - rewrite map_length, Hl. clear - Hhi Hib Hlen. lia.
      - rewrite map_length, Hl. clear - Hh Hib Hlen. lia.
      - exact I. }
    (* the callee *)
    pose proof (IHc cal cm Hcal Hcm') as Hcon.
    pose proof (fold_max_ge c (need_method c ms f) (m_callees m) cal Hcal) as Hge.
    assert (Hneed0 : 0 <= need_method c ms f cal).
    { destruct f as [|f']; cbn [need_method]; [lia|]. rewrite Hcm'.
      pose proof (fold_max_nonneg c (need_method c ms f') (m_callees cm)).
      assert (0 <= frame_of c cm); [|lia].
      unfold frame_of. rewrite Hfx. destruct (m_is_leaf cm); vm_compute; discriminate. }
    assert (I1s : code_loaded img s1).
    { apply (code_loaded_same c img L HP s' s1); [|exact I1]. intros a _. rewrite Cmem. reflexivity. }
    unfold c_FIXER_CMP_REG in Creg.
    assert (Hsp1 : rget s1 2 = S - 32) by (rewrite Creg by (clear; lia); exact I3).
    assert (Hra1 : rget s1 1 = A + i * 4 + 20) by (rewrite Cra; apply u64_small; clear - Hlo Hhi Hib Hlen Hc0 Hc64; lia).
    destruct (Hcon s1 (cfi s') I1s) as (s3 & R3 & Pc3 & Rg3 & Mf3 & D3 & C3 & He3).
    { rewrite Cpc. apply u64_small. clear - Hlo' Hhi' Hzc Hc0 Hc64. lia. }
    { destruct I2' as [X1 X2]. constructor; [rewrite Creg by (unfold dr in *; clear - D0 D1 D28; lia); exact X1|rewrite Cdom; exact X2]. }
    { rewrite Hsp1. clear - HSal. Z.div_mod_to_equations; lia. }
    { rewrite Hsp1. lia. }
    { rewrite Hsp1. lia. }
    { rewrite Hsp1. lia. }
    { rewrite Creg by (clear; lia). rewrite I4 by (try (clear; lia); assumption). exact Hs0. }
    { rewrite Hra1. clear - Hlo Hhi Hib Hlen Hc0 Hc64. lia. }
    { rewrite Ccfi, Hra1. f_equal. apply u64_small. clear - Hlo Hhi Hib Hlen Hc0 Hc64. lia. }
    exists s3. split; [|split].
    - change (run v L (5 + steps_fixer ms f cal) s' = (Next s3, (5 + steps_fixer ms f cal)%nat)).
      rewrite (run_app v L 5 (steps_fixer ms f cal) s' s1 R1). rewrite R3. reflexivity.
    - rewrite Pc3, Hra1. rewrite Z.add_0_r. rewrite u64_small by (clear - Hlo Hhi Hib Hlen Hc0 Hc64; lia).
      unfold addr. rewrite Nat2Z.inj_add. clear - Hal Eji Hib. Z.div_mod_to_equations; lia.
    - rewrite Hsp1 in Mf3. unfold InvX.
      assert (Mf' : mem_frame c L s' s3 (S - N) S).
      { intros a Ha Hd' Hrg. rewrite Mf3; [rewrite Cmem; reflexivity|exact Ha|exact Hd'|]. clear - Hrg HN Hmx Hge Hneed0. lia. }
      split; [apply (code_loaded_same c img L HP s' s3); [|exact I1]; eapply (frame_same_code c img L HP); [exact Mf'|lia|lia]|].
      split; [exact He3|]. split; [rewrite Rg3 by (try (clear; lia); assumption); exact Hsp1|].
      split.
      { intros r Hr0 Hw N1' N2' N28'. rewrite Rg3 by assumption. rewrite Creg by assumption. apply I4; assumption. }
      split.
      { rewrite (load_bytes_ext 8 (mem s3) (mem s')); [exact I5|]. intros b Hb. change (Z.of_nat 8) with 8 in Hb.
        rewrite Mf3; [rewrite Cmem; reflexivity| | |]; clear - Hb Hsd Hdf HSr HSlo HShi Hsp0 HN Hmx Hge Hneed0; lia. }
      split.
      { rewrite (load_bytes_ext 8 (mem s3) (mem s')); [exact I6|]. intros b Hb. change (Z.of_nat 8) with 8 in Hb.
        rewrite Mf3; [rewrite Cmem; reflexivity| | |]; clear - Hb Hsd Hdf HSr HSlo HShi Hsp0 HN Hmx Hge Hneed0; lia. }
      split; [eapply (mem_frame_trans c L); [exact I7|exact Mf'|lia|lia]|]. split; congruence. }
  (* walk the body *)
  rewrite <- Esites in Hnd, Hapart, Hfit, Hplain_step.
  assert (Tamper : ftamper_concl m s).
  { unfold ftamper_concl. exists idx. split; [exact Hsites|]. fold S. intros p Hp Hnin.
    assert (Hpnb : (p <= nb)%nat) by (unfold nb; rewrite Hlb, Hl0; exact Hp).
    assert (Hinp : inside 5 sc p = false).
    { unfold inside. destruct (existsb (fun i => Nat.ltb i p && Nat.ltb p (i + 5)) (map fst sc)) eqn:E; [|reflexivity].
      apply existsb_exists in E. destruct E as (j & Hj & E). apply andb_prop in E. destruct E as [Eq1 Eq2].
      apply Nat.ltb_lt in Eq1. apply Nat.ltb_lt in Eq2. rewrite Esites in Hj.
      destruct (Hsite_in j Hj) as (zi & Hzi & Ezi). exfalso. apply (Hnin zi Hzi). specialize (Hidx zi Hzi). lia. }
    destruct (walk_reach_k v L Inv addr 5 sc nb ltac:(lia) Hapart (Hplain_step (rget s 1)) (Hsite_step (rget s 1)) p s2 Hpnb Hinp I2)
      as (sk & k & Rk & Pk & Ik).
    { rewrite P2. unfold addr. lia. }
    exists (3 + k)%nat, sk. split; [rewrite (run_app v L 3 k s s2 Run1), Rk; reflexivity|].
    split; [rewrite Pk; unfold addr; reflexivity|].
    pose proof Ik as (K1 & K2 & K3 & K4 & K5 & K6 & K7 & K8 & K9).
    split; [exact K6|].
    intros X HX HneX.
    set (sk' := set_mem sk (store_bytes (mem sk) (S - 24) 8 X)).
    assert (Mfk : mem_frame c L sk sk' (S - N) S).
    { intros a Ha Hdta Hrg. unfold sk'. cbn [set_mem mem]. rewrite mget_store_other by (clear - Ha Hrg HN Hmx HSr HSlo Hsp0; lia). reflexivity. }
    assert (Ik' : InvX X sk').
    { unfold InvX. split.
      { apply (code_loaded_same c img L HP sk sk'); [|exact K1]. eapply (frame_same_code c img L HP); [exact Mfk|lia|lia]. }
      split; [destruct K2 as [Ke1 Ke2]; constructor; [exact Ke1|exact Ke2]|].
      split; [exact K3|]. split; [exact K4|].
      split; [unfold sk'; cbn [set_mem mem]; rewrite load_store_other by lia; exact K5|].
      split.
      { unfold sk'. cbn [set_mem mem]. rewrite load_store_same by lia. change (2 ^ (8 * Z.of_nat 8)) with W64. apply Z.mod_small. exact HX. }
      split; [eapply (mem_frame_trans c L); [exact K7|exact Mfk|lia|lia]|]. split; [exact K8|exact K9]. }
    destruct (walk_cnt_k v L (InvX X) addr 5 sc nb ltac:(lia) Hnd Hapart Hfit (Hplain_step X) (Hsite_step X) (nb - p)%nat p sk')
      as (s4 & n & R4 & P4 & I4' & _).
    { lia. }
    { exact Hinp. }
    { exact Ik'. }
    { exact Pk. }
    destruct I4' as (J1 & J2 & J3 & J4 & J5 & J6 & J7 & J8 & J9).
    assert (HAend : 0 <= addr nb /\ addr nb + 28 < W64) by (unfold addr; clear - Hlo Hhi Hlen Hc0 Hc64; lia).
    destruct (fixer_forged_return_prefix L Hsc s4 (addr nb) S (rget s 8) X (rget s 1) rest P4 J3 HSal ltac:(fold S; lia) ltac:(lia) HShi J5 J6 Hs0 HX)
      as (s5 & E5 & P5 & C5 & M5 & D5); try (apply HAend); try assumption.
    { rewrite J9. exact Hcfi. }
    pose proof J1 as J1'. unfold code_loaded in J1'. rewrite Forall_forall in J1'. pose proof (J1' m Hm) as Hcm4.
    fold A in Hcm4. fold ws in Hcm4. rewrite Ews in Hcm4.
    assert (Hce : code_at (mem s4) (addr nb) (map generate epi)).
    { intros k0 w Hk. replace (addr nb + 4 * Z.of_nat k0) with (A + 4 * Z.of_nat (3 + nb + k0)%nat) by (unfold addr; lia).
      apply Hcm4. rewrite nth_error_app2 by (rewrite map_length; lia). rewrite map_length, Lpro.
      rewrite nth_error_app2 by (rewrite map_length; unfold nb; lia). rewrite map_length.
      replace (3 + nb + k0 - 3 - List.length body)%nat with k0 by (unfold nb; clear; lia). exact Hk. }
    pose proof (decode_all_Forall2 _ _ _ De) as FDe.
    assert (Hepi7 : exists e1 e2 e3 e4 e5 e6 e7, epi = [e1; e2; e3; e4; e5; e6; e7]).
    { destruct epi as [|e1 [|e2 [|e3 [|e4 [|e5 [|e6 [|e7 [|e8 tl]]]]]]]]; try discriminate Lepi. eauto 10. }
    destruct Hepi7 as (e1 & e2 & e3 & e4 & e5 & e6 & e7 & Eepi). rewrite Eepi in Hce, FDe. cbn [map] in Hce, FDe.
    inversion FDe as [|? ? ? ? F1 FD1]; subst. inversion FD1 as [|? ? ? ? F2 FD2]; subst.
    inversion FD2 as [|? ? ? ? F3 FD3]; subst. inversion FD3 as [|? ? ? ? F4 FD4]; subst. inversion FD4 as [|? ? ? ? F5 FD5]; subst.
    inversion FD5 as [|? ? ? ? F6 FD6]; subst.
    assert (Run3 : run v L 5 s4 = (Next s5, 5%nat)).
    { change 5%nat with (List.length (firstn 5 fixer_epi_call)). unfold v. rewrite gv_fx.
      apply (run_block VFixer L (firstn 5 fixer_epi_call) (map generate [e1; e2; e3; e4; e5]) (addr nb) s4 s5 RO); try assumption.
      - cbn [map firstn fixer_epi_call]. repeat constructor; assumption.
      - reflexivity.
      - intros k0 w Hk. apply Hce. cbn [map] in Hk.
        destruct k0 as [|[|[|[|[|k0]]]]]; cbn [nth_error] in *; try exact Hk. destruct k0; discriminate.
      - unfold addr. clear - Hal. Z.div_mod_to_equations; lia.
      - unfold addr. clear - Hlo. lia.
      - cbn [map List.length]. unfold addr. clear - Hhi Hlen. lia.
      - cbn [map List.length]. unfold addr. clear - Hh Hlen. lia.
      - exact I. }
    exists (n + 5)%nat, s5. split; [rewrite (run_app v L n 5 sk' s4 R4), Run3; reflexivity|].
    split; [rewrite P5; unfold addr; rewrite <- Lbody; fold nb; lia|].
    rewrite (step_exec v L s5 (generate e6) Ecall); [reflexivity| | | | | | |].
    - rewrite P5. unfold addr. clear - Hh Hlen. lia.
    - rewrite P5. unfold addr. clear - Hal. Z.div_mod_to_equations; lia.
    - rewrite P5. unfold addr. clear - Hlo. lia.
    - rewrite P5. unfold addr. clear - Hhi Hlen. lia.
    - unfold fetch_dom_ok, v. rewrite gv_fx. exact I.
    - rewrite P5, M5. replace (addr nb + 20) with (addr nb + 4 * Z.of_nat 5) by (clear; lia). apply Hce. reflexivity.
    - unfold v. rewrite gv_fx. exact F6. }
  destruct (walk_cnt_k v L Inv addr 5 sc nb ltac:(lia) Hnd Hapart Hfit (Hplain_step (rget s 1)) (Hsite_step (rget s 1)) nb O s2) as (s4 & n & R4 & P4 & I4' & Hn).
  { lia. }
  { unfold inside. destruct (existsb _ (map fst sc)) eqn:Ex; [|reflexivity].
    apply existsb_exists in Ex. destruct Ex as (x & _ & Ex). apply andb_prop in Ex. destruct Ex as [Ex _]. apply Nat.ltb_lt in Ex. lia. }
  { exact I2. }
  { rewrite P2. unfold addr. lia. }
  destruct I4' as (J1 & J2 & J3 & J4 & J5 & J6 & J7 & J8 & J9).
  (* ---------- the checked return ---------- *)
  assert (HAend : 0 <= addr nb /\ addr nb + 28 < W64) by (unfold addr; clear - Hlo Hhi Hlen Hc0 Hc64; lia).
  destruct (fixer_checked_return_passes L Hsc s4 (addr nb) S (rget s 8) (rget s 1) rest P4 J3 HSal ltac:(fold S; lia) ltac:(lia) HShi J5 J6 Hs0)
    as (s5 & E5 & P5 & Ej & C5 & Sp5 & S05 & Ra5 & M5 & D5 & R5); try (apply HAend); try assumption.
  { rewrite J9. exact Hcfi. }
  pose proof J1 as J1'. unfold code_loaded in J1'. rewrite Forall_forall in J1'. pose proof (J1' m Hm) as Hcm4.
  fold A in Hcm4. fold ws in Hcm4. rewrite Ews in Hcm4.
  assert (Hce : code_at (mem s4) (addr nb) (map generate epi)).
  { intros k w Hk. replace (addr nb + 4 * Z.of_nat k) with (A + 4 * Z.of_nat (3 + nb + k)%nat) by (unfold addr; lia).
    apply Hcm4. rewrite nth_error_app2 by (rewrite map_length; lia). rewrite map_length, Lpro.
    rewrite nth_error_app2 by (rewrite map_length; unfold nb; lia). rewrite map_length.
    replace (3 + nb + k - 3 - List.length body)%nat with k by (unfold nb; clear; lia). exact Hk. }
  pose proof (decode_all_Forall2 _ _ _ De) as FDe.
  assert (Hepi7 : exists e1 e2 e3 e4 e5 e6 e7, epi = [e1; e2; e3; e4; e5; e6; e7]).
  { destruct epi as [|e1 [|e2 [|e3 [|e4 [|e5 [|e6 [|e7 [|e8 tl]]]]]]]]; try discriminate Lepi. eauto 10. }
  destruct Hepi7 as (e1 & e2 & e3 & e4 & e5 & e6 & e7 & Eepi). rewrite Eepi in Hce, FDe. cbn [map] in Hce, FDe.
  assert (Run3 : run v L 5 s4 = (Next s5, 5%nat)).
  { change 5%nat with (List.length (firstn 5 fixer_epi_call)). unfold v. rewrite gv_fx.
    apply (run_block VFixer L (firstn 5 fixer_epi_call) (map generate [e1; e2; e3; e4; e5]) (addr nb) s4 s5 RO); try assumption.
    - cbn [map firstn fixer_epi_call]. inversion FDe as [|? ? ? ? F1 FD1]; subst. inversion FD1 as [|? ? ? ? F2 FD2]; subst.
      inversion FD2 as [|? ? ? ? F3 FD3]; subst. inversion FD3 as [|? ? ? ? F4 FD4]; subst. inversion FD4 as [|? ? ? ? F5 FD5]; subst.
      repeat constructor; assumption.
    - reflexivity.
    - intros k w Hk. apply Hce. cbn [map] in Hk.
      destruct k as [|[|[|[|[|k]]]]]; cbn [nth_error] in *; try exact Hk. destruct k; discriminate.
    - unfold addr. clear - Hal. Z.div_mod_to_equations; lia.
    - unfold addr. clear - Hlo. lia.
    - cbn [map List.length]. unfold addr. clear - Hhi Hlen. lia.
    - cbn [map List.length]. unfold addr. clear - Hh Hlen. lia.
    - exact I. }
  set (s6 := set_pc s5 ((u64 (rget s 1 + 0) / 2) * 2)) in *.
  assert (Run4 : run v L 1 s5 = (Next s6, 1%nat)).
  { change 1%nat with (List.length [Jalr 0 1 0]). unfold v. rewrite gv_fx.
    apply (run_block VFixer L [Jalr 0 1 0] [generate e7] (addr nb + 24) s5 s6 RO).
    - constructor; [|constructor]. inversion FDe as [|? ? ? ? F1 FD1]; subst. inversion FD1 as [|? ? ? ? F2 FD2]; subst.
      inversion FD2 as [|? ? ? ? F3 FD3]; subst. inversion FD3 as [|? ? ? ? F4 FD4]; subst. inversion FD4 as [|? ? ? ? F5 FD5]; subst.
      inversion FD5 as [|? ? ? ? F6 FD6]; subst. inversion FD6 as [|? ? ? ? F7 FD7]; subst. exact F7.
    - reflexivity.
    - intros k w Hk. destruct k as [|k]; [|destruct k; discriminate]. cbn in Hk. inversion Hk; subst w.
      replace (addr nb + 24 + 4 * Z.of_nat 0) with (addr nb + 4 * Z.of_nat 6) by (clear; lia).
      assert (Hce5 : code_at (mem s5) (addr nb) [generate e1; generate e2; generate e3; generate e4; generate e5; generate e6; generate e7]).
      { eapply (code_at_same L (mem s4) (mem s5)); [exact (exec_at_same_code VFixer L _ _ _ _ RO E5)| | |exact Hce].
        - unfold addr. clear - Hlo. lia.
        - cbn [List.length]. unfold addr. clear - Hhi Hlen. lia. }
      apply Hce5. reflexivity.
    - unfold addr. clear - Hal. Z.div_mod_to_equations; lia.
    - unfold addr. clear - Hlo. lia.
    - cbn [List.length]. unfold addr. clear - Hhi Hlen. lia.
    - cbn [List.length]. unfold addr. clear - Hh Hlen. lia.
    - exact I.
    - cbn [exec_at]. rewrite P5, Z.eqb_refl, Ej. reflexivity. }
  assert (Hcount : steps_fixer ms (Datatypes.S f) id = (3 + (n + (5 + 1)))%nat).
  { cbn [steps_fixer]. rewrite Hid.
    assert (Ws1 : wsum sc 0 = (5 * List.length (m_callees m) + fold_right (fun cal a => (steps_fixer ms f cal + a)%nat) O (m_callees m))%nat).
    { rewrite wsum_zero_all. unfold sc. rewrite sum_sites5. rewrite (map_snd_combine idx (m_callees m) Hlenic).
      rewrite combine_length, Hlenic, Nat.min_id. reflexivity. }
    assert (Ws2 : wsum (map (fun x : nat * nat => (fst x, 1%nat)) sc) 0 = List.length (m_callees m)).
    { rewrite wsum_zero_all. unfold sc. rewrite map_map. rewrite sum_ones.
      rewrite combine_length, Hlenic, Nat.min_id. reflexivity. }
    rewrite Ws1, Ws2 in Hn. unfold zlen in Hlen. lia. }
  split; [|exact Tamper].
  rewrite Hcount.
  exists s6. split; [|split].
  { rewrite (run_app v L 3 (n + (5 + 1)) s s2 Run1). rewrite (run_app v L n (5 + 1) s2 s4 R4).
    rewrite (run_app v L 5 1 s4 s5 Run3). rewrite Run4. reflexivity. }
  { reflexivity. }
  split.
  { intros r Hr0 Hw N28. unfold s6. rewrite rget_set_pc.
    destruct (Z.eq_dec r 1) as [->|N1']; [exact Ra5|].
    destruct (Z.eq_dec r 2) as [->|N2']; [exact Sp5|]. destruct (Z.eq_dec r 8) as [->|N8']; [exact S05|].
    rewrite R5 by assumption. apply J4; assumption. }
  split; [intros a Ha Hd' Hrg; unfold s6; cbn [set_pc mem]; rewrite M5; apply J7; assumption|].
  split; [unfold s6; cbn [set_pc dom]; congruence|]. split; [unfold s6; cbn [set_pc cfi]; exact C5|].
  destruct J2 as [X1 X2]. constructor; [unfold s6; rewrite rget_set_pc; rewrite R5 by (unfold dr in *; clear - D0 D1 D2 D8 D28; lia); exact X1|unfold s6; cbn [set_pc dom]; rewrite D5; exact X2].
Qed.

Lemma fcall_case : fcontract N (steps_fixer ms (S f) id) m.
Proof.
  intros s rest H1 H2 H3 S0 H4 H5 H6 H7 H8 H9 H10. exact (proj1 (fcall_both s rest H1 H2 H3 H4 H5 H6 H7 H8 H9 H10)).
Qed.

Lemma fcall_tamper : forall s rest, code_loaded img s -> pc s = m_addr m -> env_ok v L dr s ->
    rget s 2 mod 8 = 0 -> N <= rget s 2 < W64 -> stk_lo L <= rget s 2 - N -> rget s 2 <= stk_hi L ->
    0 <= rget s 8 < W64 -> 0 <= rget s 1 < W64 ->
    cfi s = rget s 1 :: rest -> ftamper_concl m s.
Proof.
  intros s rest H1 H2 H3 H4 H5 H6 H7 H8 H9 H10. exact (proj2 (fcall_both s rest H1 H2 H3 H4 H5 H6 H7 H8 H9 H10)).
Qed.
End CallCase.

(* ---- every method, by induction on the call depth ---- *)
Theorem fmethod_contract_all : forall f id m,
  nth_error ms id = Some m -> (Z.to_nat (m_depth m) < f)%nat -> fcontract (need_method c ms f id) (steps_fixer ms f id) m.
Proof.
  induction f as [|f IH]; intros id m Hid Hd; [lia|].
  assert (Hm : In m ms) by (eapply nth_error_In; exact Hid).
  destruct (fimg_mok2 m Hm) as (Sh & _ & _).
  destruct (Z.eq_dec (m_calls m) 0) as [Hc0|Hc0].
  - assert (Hd0 : m_depth m = 0) by (apply (sh_nocall c m Sh); lia).
    assert (Hcal : m_callees m = []).
    { pose proof (iw_done c img fimg_wf) as Dn. rewrite Forall_forall in Dn. specialize (Dn m Hm).
      unfold done in Dn. rewrite Hd0 in Dn. exact Dn. }
    assert (Hleaf : m_is_leaf m = true) by (unfold m_is_leaf; rewrite Hc0; reflexivity).
    cbn [need_method steps_fixer]. rewrite Hid, Hcal, (fframe_leaf m Hleaf). cbn [fold_right].
    replace (24 + 0) with 24 by lia. rewrite Nat.add_0_r. apply fleaf_case; assumption.
  - assert (Hnl : m_is_leaf m = false) by (unfold m_is_leaf; apply Z.eqb_neq; exact Hc0).
    apply (fcall_case f id m Hid Hnl).
    intros cal cm Hcal Hcm. apply IH; [exact Hcm|].
    pose proof (calls_decrease_depth c script img Hsucc) as CD. rewrite Forall_forall in CD.
    specialize (CD m Hm). rewrite Forall_forall in CD. specialize (CD cal Hcal). fold ms in CD. rewrite Hcm in CD.
    assert (Hcmin : In cm ms) by (eapply nth_error_In; exact Hcm).
    destruct (fimg_mok2 cm Hcmin) as (Shc & _ & _).
    pose proof (sh_depth c cm Shc). pose proof (sh_depth c m Sh). lia.
Qed.

(* THE THEOREM: every method of a FIXER image satisfies its contract *)
Theorem every_fixer_method_returns : forall id m,
  nth_error ms id = Some m -> fcontract (need_method c ms (max_depth ms) id) (steps_fixer ms (max_depth ms) id) m.
Proof.
  intros id m Hid. apply fmethod_contract_all; [exact Hid|].
  assert (Hm : In m ms) by (eapply nth_error_In; exact Hid).
  destruct (fimg_mok2 m Hm) as (Sh & _ & _). apply (depth_lt_max c img); [exact Hm|apply (sh_depth c m Sh)].
Qed.

(* THE TAMPER THEOREM: every call-making method of every FIXER image, at every position of its own
   body outside the stubs: a forged saved return address is trapped by the method's own check *)
Theorem every_fixer_method_tamper_traps : forall id m,
  nth_error ms id = Some m -> m_is_leaf m = false ->
  forall s rest, code_loaded img s -> pc s = m_addr m -> env_ok v L dr s ->
    rget s 2 mod 8 = 0 -> need_method c ms (max_depth ms) id <= rget s 2 < W64 ->
    stk_lo L <= rget s 2 - need_method c ms (max_depth ms) id -> rget s 2 <= stk_hi L ->
    0 <= rget s 8 < W64 -> 0 <= rget s 1 < W64 -> cfi s = rget s 1 :: rest ->
    ftamper_concl m s.
Proof.
  intros id m Hid Hnl.
  assert (Hm : In m ms) by (eapply nth_error_In; exact Hid).
  destruct (fimg_mok2 m Hm) as (Sh & _ & _).
  assert (Hdm : (Z.to_nat (m_depth m) < max_depth ms)%nat) by (apply (depth_lt_max c img); [exact Hm|apply (sh_depth c m Sh)]).
  destruct (max_depth ms) as [|f] eqn:Emd; [lia|].
  apply (fcall_tamper f id m Hid Hnl).
  intros cal cm Hcal Hcm. apply fmethod_contract_all; [exact Hcm|].
  pose proof (calls_decrease_depth c script img Hsucc) as CD. rewrite Forall_forall in CD.
  specialize (CD m Hm). rewrite Forall_forall in CD. specialize (CD cal Hcal). fold ms in CD. rewrite Hcm in CD.
  assert (Hcmin : In cm ms) by (eapply nth_error_In; exact Hcm).
  destruct (fimg_mok2 cm Hcmin) as (Shc & _ & _).
  pose proof (sh_depth c cm Shc). pose proof (sh_depth c m Sh). lia.
Qed.
End MCF.

(* the per-method count is ImageSem.count_method (fixer_skip = 1: the trap instruction is not executed) *)
Lemma steps_fixer_count c ms : c_variant c = GFixer ->
  Forall (fun m => zlen (m_instrs m) = m_total m) ms -> Forall (fun m => 1 <= m_total m) ms ->
  forall f id, Z.of_nat (steps_fixer ms f id) = count_method c ms f id.
Proof.
  intros Hfx Hl Hp. induction f as [|f IH]; intros id; cbn [steps_fixer count_method]; [reflexivity|].
  destruct (nth_error ms id) as [m|] eqn:E; [|reflexivity].
  rewrite Forall_forall in Hl, Hp. specialize (Hl m (nth_error_In _ _ E)). specialize (Hp m (nth_error_In _ _ E)). unfold zlen in Hl.
  assert (Hs : fixer_skip c = 1) by (unfold fixer_skip; rewrite Hfx; reflexivity). rewrite Hs.
  assert (Hsum : Z.of_nat (fold_right (fun cal a => (steps_fixer ms f cal + a)%nat) O (m_callees m)) =
                 fold_right (fun cal a => count_method c ms f cal + a) 0 (m_callees m)).
  { induction (m_callees m) as [|x tl IHl]; cbn [fold_right]; [reflexivity|]. rewrite Nat2Z.inj_add, IH, IHl. reflexivity. }
  rewrite Nat2Z.inj_add, Hsum. lia.
Qed.
