(* FixerTamper.v — Layer B (FIXER): the checked return of a call-making method,
       ld s0,0(sp) ; ld ra,8(sp) ; addi sp,sp,32 ; cfiret t3 ; beq ra,t3,+8 ; ecall ; ret
   executed on the reference machine from ANY state: if the saved return address in
   the frame differs from the tag on top of the CFI stack the machine reaches the
   trap (ecall) - the ret is never executed, so no control transfer to the forged
   address happens; if it equals the tag, the method returns to it and the tag is popped. *)
From Coq Require Import ZArith List String Bool Lia.
From Gigue Require Import Types Bits Isa Enc GenTables Builder Machine MachineLemmas SplitProofs BodyExec FrameExec CodeMem CallFrame.
Import ListNotations.
Open Scope list_scope.
Open Scope Z_scope.

Definition fixer_epi_call : list instr :=
  [Load LD 8 2 0; Load LD 1 2 8; Iop ADDI 2 2 32; Cfiret 28 0 0; Branch BEQ 1 28 8; Ecall; Jalr 0 1 0].

(* the regenerated FIXER epilogue of call-making methods is this sequence *)
Lemma fixer_epi_call_eq :
  exists epi, build_epilogue BFixer m_used_s_regs m_local_vars_nb true = OK epi /\
              decode_all ExtFixer epi = Some fixer_epi_call /\
              map fst f_fixer_epi_call = epi.
Proof. eexists. split; [vm_compute; reflexivity|]. split; vm_compute; reflexivity. Qed.

Section FT.
Variable L : layout.
Hypothesis Hstk_code : code_hi L <= stk_lo L \/ stk_hi L <= code_lo L.

(* the first four instructions: s0 and ra reloaded, frame released, tag popped into t3 *)
Lemma fixer_epi_prefix s A S s0e rae top rest :
  pc s = A -> rget s 2 = S - 32 ->
  S mod 8 = 0 -> 32 <= S < W64 -> stk_lo L <= S - 32 -> S <= stk_hi L ->
  load_bytes (mem s) (S - 32) 8 = s0e -> load_bytes (mem s) (S - 24) 8 = rae ->
  0 <= s0e < W64 -> 0 <= rae < W64 -> cfi s = top :: rest ->
  exists s', exec_at VFixer L A [Load LD 8 2 0; Load LD 1 2 8; Iop ADDI 2 2 32; Cfiret 28 0 0] s = Next s' /\
    pc s' = A + 16 /\ rget s' 1 = rae /\ rget s' 28 = u64 top /\ rget s' 2 = S /\ rget s' 8 = s0e /\
    cfi s' = rest /\ mem s' = mem s /\ dom s' = dom s /\
    (forall r, 0 <= r -> r <> 1 -> r <> 2 -> r <> 8 -> r <> 28 -> rget s' r = rget s r).
Proof.
  intros Hpc Hsp Hal Hr Hlo Hhi Hl0 Hl1 H0 H1 Hcfi. cbn [exec_at]. rewrite Hpc, Z.eqb_refl. cbn [exec].
  unfold do_load. cbn [lwidth lext]. change (Z.of_nat 8) with 8.
  replace (u64 (rget s 2 + 0)) with (S - 32) by (rewrite Hsp, Z.add_0_r; symmetry; apply u64_small; lia).
  rewrite (stack_ok VFixer L Hstk_code s (S - 32) false) by (try lia; Z.div_mod_to_equations; lia). rewrite Hl0.
  set (s1 := set_pc (rset s 8 s0e) (pc s + 4)).
  assert (Hpc1 : pc s1 = A + 4) by (unfold s1; cbn [set_pc pc]; lia).
  rewrite Hpc1, Z.eqb_refl.
  assert (Hsp1 : rget s1 2 = S - 32) by (unfold s1; rewrite rget_set_pc, rget_rset_other by lia; exact Hsp).
  replace (u64 (rget s1 2 + 8)) with (S - 24) by (rewrite Hsp1; symmetry; rewrite u64_small by lia; lia).
  rewrite (stack_ok VFixer L Hstk_code s1 (S - 24) false) by (try lia; Z.div_mod_to_equations; lia).
  assert (Hm1 : mem s1 = mem s) by (unfold s1; cbn [set_pc mem]; apply mem_rset).
  rewrite Hm1, Hl1.
  set (s2 := set_pc (rset s1 1 rae) (A + 4 + 4)).
  assert (Hpc2 : pc s2 = A + 4 + 4) by reflexivity.
  rewrite Hpc2, Z.eqb_refl. cbn [alui].
  assert (Hsp2 : rget s2 2 = S - 32) by (unfold s2; rewrite rget_set_pc, rget_rset_other by lia; exact Hsp1).
  set (s3 := set_pc (rset s2 2 (u64 (rget s2 2 + 32))) (A + 4 + 4 + 4)).
  assert (Hpc3 : pc s3 = A + 4 + 4 + 4) by reflexivity.
  rewrite Hpc3, Z.eqb_refl.
  assert (Hcfi3 : cfi s3 = top :: rest).
  { unfold s3. cbn [set_pc cfi]. rewrite cfi_rset. unfold s2. cbn [set_pc cfi]. rewrite cfi_rset.
    unfold s1. cbn [set_pc cfi]. rewrite cfi_rset. exact Hcfi. }
  rewrite Hcfi3.
  eexists. split; [reflexivity|].
  assert (R32 : rget s3 2 = S).
  { unfold s3. rewrite rget_set_pc, rget_rset_same by lia. rewrite u64_idem, Hsp2. replace (S - 32 + 32) with S by lia. apply u64_small; lia. }
  assert (R31 : rget s3 1 = rae).
  { unfold s3. rewrite rget_set_pc, rget_rset_other by lia. unfold s2. rewrite rget_set_pc, rget_rset_same by lia. apply u64_small; lia. }
  assert (R38 : rget s3 8 = s0e).
  { unfold s3. rewrite rget_set_pc, rget_rset_other by lia. unfold s2. rewrite rget_set_pc, rget_rset_other by lia.
    unfold s1. rewrite rget_set_pc, rget_rset_same by lia. apply u64_small; lia. }
  split; [cbn [set_pc pc]; lia|].
  split; [rewrite rget_set_pc, rget_rset_other by lia; exact R31|].
  split; [rewrite rget_set_pc, rget_rset_same by lia; reflexivity|].
  split; [rewrite rget_set_pc, rget_rset_other by lia; exact R32|].
  split; [rewrite rget_set_pc, rget_rset_other by lia; exact R38|].
  split; [cbn [set_pc cfi]; rewrite cfi_rset; reflexivity|].
  split; [cbn [set_pc mem]; rewrite mem_rset; cbn [set_cfi mem]; unfold s3, s2; cbn [set_pc mem]; rewrite !mem_rset; exact Hm1|].
  split; [cbn [set_pc dom]; rewrite dom_rset; cbn [set_cfi dom]; unfold s3, s2, s1; cbn [set_pc dom]; rewrite !dom_rset; reflexivity|].
  intros r Hr0 N1 N2 N8 N28. rewrite rget_set_pc, rget_rset_other by lia.
  change (rget (set_cfi s3 rest) r) with (rget s3 r).
  unfold s3. rewrite rget_set_pc, rget_rset_other by lia. unfold s2. rewrite rget_set_pc, rget_rset_other by lia.
  unfold s1. rewrite rget_set_pc, rget_rset_other by lia. reflexivity.
Qed.

(* TAMPERED: the slot holds a value different from the tag: the machine traps at the ecall *)
Theorem fixer_forged_return_traps s A S s0e forged top rest :
  pc s = A -> rget s 2 = S - 32 ->
  S mod 8 = 0 -> 32 <= S < W64 -> stk_lo L <= S - 32 -> S <= stk_hi L ->
  load_bytes (mem s) (S - 32) 8 = s0e -> load_bytes (mem s) (S - 24) 8 = forged ->
  0 <= s0e < W64 -> 0 <= forged < W64 -> cfi s = top :: rest -> 0 <= top < W64 ->
  0 <= A -> A + 28 < W64 ->
  forged <> top ->
  exists s', exec_at VFixer L A fixer_epi_call s = Trap s' /\ pc s' = A + 20 /\ cfi s' = rest.
Proof.
  intros Hpc Hsp Hal Hr Hlo Hhi Hl0 Hl1 H0 H1 Hcfi Htop HA0 HA1 Hne.
  destruct (fixer_epi_prefix s A S s0e forged top rest Hpc Hsp Hal Hr Hlo Hhi Hl0 Hl1 H0 H1 Hcfi)
    as (s4 & E4 & P4 & R1 & R28 & R2 & R8 & C4 & M4 & D4 & Ro).
  change fixer_epi_call with ([Load LD 8 2 0; Load LD 1 2 8; Iop ADDI 2 2 32; Cfiret 28 0 0] ++ [Branch BEQ 1 28 8; Ecall; Jalr 0 1 0]).
  rewrite exec_at_app, E4. cbn [List.length exec_at]. change (4 * Z.of_nat 4) with 16.
  rewrite P4, Z.eqb_refl. cbn [exec btaken]. rewrite R1, R28, (u64_small top) by exact Htop.
  destruct (Z.eqb_spec forged top) as [E|_]; [contradiction|].
  cbn [set_pc pc]. rewrite P4. replace (A + 16 + 4) with (A + 16 + 4) by lia. rewrite Z.eqb_refl.
  eexists. split; [reflexivity|]. split; [cbn [set_pc pc]; lia|exact C4].
Qed.

(* UNTAMPERED: the slot holds the tag: the check passes, the trap is skipped, the method returns to the tag *)
Theorem fixer_checked_return_passes s A S s0e top rest :
  pc s = A -> rget s 2 = S - 32 ->
  S mod 8 = 0 -> 32 <= S < W64 -> stk_lo L <= S - 32 -> S <= stk_hi L ->
  load_bytes (mem s) (S - 32) 8 = s0e -> load_bytes (mem s) (S - 24) 8 = top ->
  0 <= s0e < W64 -> cfi s = top :: rest -> 0 <= top < W64 ->
  0 <= A -> A + 28 < W64 ->
  exists s', exec_at VFixer L A (firstn 5 fixer_epi_call) s = Next s' /\ pc s' = A + 24 /\
    exec VFixer L s' (Jalr 0 1 0) = Next (set_pc s' ((u64 (top + 0) / 2) * 2)) /\
    cfi s' = rest /\ rget s' 2 = S /\ rget s' 8 = s0e /\ rget s' 1 = top /\
    mem s' = mem s /\ dom s' = dom s /\
    (forall r, 0 <= r -> r <> 1 -> r <> 2 -> r <> 8 -> r <> 28 -> rget s' r = rget s r).
Proof.
  intros Hpc Hsp Hal Hr Hlo Hhi Hl0 Hl1 H0 Hcfi Htop HA0 HA1.
  destruct (fixer_epi_prefix s A S s0e top top rest Hpc Hsp Hal Hr Hlo Hhi Hl0 Hl1 H0 Htop Hcfi)
    as (s4 & E4 & P4 & R1 & R28 & R2 & R8 & C4 & M4 & D4 & Ro).
  change (firstn 5 fixer_epi_call) with ([Load LD 8 2 0; Load LD 1 2 8; Iop ADDI 2 2 32; Cfiret 28 0 0] ++ [Branch BEQ 1 28 8]).
  rewrite exec_at_app, E4. cbn [List.length exec_at]. change (4 * Z.of_nat 4) with 16.
  rewrite P4, Z.eqb_refl. cbn [exec btaken]. rewrite R1, R28, (u64_small top) by exact Htop. rewrite Z.eqb_refl.
  eexists. split; [reflexivity|]. cbn [set_pc pc]. rewrite P4.
  split; [rewrite u64_small by lia; lia|].
  split.
  { cbn [exec]. rewrite rset_zero. rewrite rget_set_pc, R1. reflexivity. }
  split; [exact C4|]. rewrite !rget_set_pc. split; [exact R2|]. split; [exact R8|]. split; [exact R1|].
  split; [exact M4|]. split; [exact D4|]. intros r Hr0 N1 N2 N8 N28. rewrite rget_set_pc. apply Ro; assumption.
Qed.

(* TAMPERED, as a prefix of a run: the first five instructions execute, the branch is NOT taken:
   the next instruction is the ecall *)
Theorem fixer_forged_return_prefix s A S s0e forged top rest :
  pc s = A -> rget s 2 = S - 32 ->
  S mod 8 = 0 -> 32 <= S < W64 -> stk_lo L <= S - 32 -> S <= stk_hi L ->
  load_bytes (mem s) (S - 32) 8 = s0e -> load_bytes (mem s) (S - 24) 8 = forged ->
  0 <= s0e < W64 -> 0 <= forged < W64 -> cfi s = top :: rest -> 0 <= top < W64 ->
  0 <= A -> A + 28 < W64 ->
  forged <> top ->
  exists s', exec_at VFixer L A (firstn 5 fixer_epi_call) s = Next s' /\ pc s' = A + 20 /\ cfi s' = rest /\
    mem s' = mem s /\ dom s' = dom s.
Proof.
  intros Hpc Hsp Hal Hr Hlo Hhi Hl0 Hl1 H0 H1 Hcfi Htop HA0 HA1 Hne.
  destruct (fixer_epi_prefix s A S s0e forged top rest Hpc Hsp Hal Hr Hlo Hhi Hl0 Hl1 H0 H1 Hcfi)
    as (s4 & E4 & P4 & R1 & R28 & R2 & R8 & C4 & M4 & D4 & Ro).
  change (firstn 5 fixer_epi_call) with ([Load LD 8 2 0; Load LD 1 2 8; Iop ADDI 2 2 32; Cfiret 28 0 0] ++ [Branch BEQ 1 28 8]).
  rewrite exec_at_app, E4. cbn [List.length exec_at]. change (4 * Z.of_nat 4) with 16.
  rewrite P4, Z.eqb_refl. cbn [exec btaken]. rewrite R1, R28, (u64_small top) by exact Htop.
  destruct (Z.eqb_spec forged top) as [E|_]; [contradiction|].
  eexists. split; [reflexivity|]. cbn [set_pc pc cfi mem dom]. rewrite P4.
  split; [lia|]. split; [exact C4|]. split; [exact M4|exact D4].
Qed.
End FT.
