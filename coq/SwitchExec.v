(* SwitchExec.v — Layer B: a PIC switch table in code memory, entered with the
   hit-case register holding h (1 <= h <= number of cases), makes the machine
   run exactly 2*(h-1)+3 steps - two per missed case, three for the hit - and
   arrive at the target of case h's jal; it never reaches the trailing ret. *)
From Coq Require Import ZArith List Bool Lia FMapPositive.
From Gigue Require Import Types Bits Isa IsaProofs Enc EncProofs GenTables Builder Machine MachineLemmas SplitProofs
  BodyExec FrameExec CodeMem.
Import ListNotations.
Open Scope Z_scope.

Lemma run_app v L : forall n1 n2 s s1,
  run v L n1 s = (Next s1, n1) -> run v L (n1 + n2) s = (let '(o, c) := run v L n2 s1 in (o, (n1 + c)%nat)).
Proof.
  induction n1 as [|k IH]; intros n2 s s1 H.
  - cbn in H. inversion H; subst. cbn. destruct (run v L n2 s1). reflexivity.
  - cbn [run] in H. cbn [plus run]. destruct (step v L s) as [s'|s'|s'|f s'] eqn:Es; try (inversion H; fail).
    destruct (run v L k s') as [o c] eqn:Er. inversion H; subst.
    rewrite (IH n2 s' s1 Er). destruct (run v L n2 s1). reflexivity.
Qed.

Lemma nth_error_firstn_lt' {A} : forall (l : list A) n i, (i < n)%nat -> nth_error (firstn n l) i = nth_error l i.
Proof.
  induction l as [|x tl IH]; intros n i H.
  - rewrite firstn_nil. reflexivity.
  - destruct n as [|n]; [lia|]. destruct i as [|i]; [reflexivity|]. cbn [firstn nth_error]. apply IH. lia.
Qed.
Lemma nth_error_firstn_ge {A} : forall (l : list A) n i, (n <= i)%nat -> nth_error (firstn n l) i = None.
Proof. intros l n i H. apply nth_error_None. rewrite firstn_length. lia. Qed.
Lemma nth_error_skipn' {A} : forall (l : list A) n i, nth_error (skipn n l) i = nth_error l (n + i).
Proof.
  induction l as [|x tl IH]; intros n i.
  - rewrite skipn_nil. destruct i, n; reflexivity.
  - destruct n as [|n]; [reflexivity|]. cbn [skipn plus nth_error]. apply IH.
Qed.

Lemma Forall2_length {A B} (R : A -> B -> Prop) la lb : Forall2 R la lb -> List.length la = List.length lb.
Proof. intros F. induction F; cbn; congruence. Qed.

Lemma firstn_app_exact {A} (l1 l2 : list A) n : List.length l1 = n -> firstn n (l1 ++ l2) = l1.
Proof. intros <-. rewrite firstn_app, Nat.sub_diag, firstn_all. cbn. apply app_nil_r. Qed.
Lemma skipn_app_exact {A} (l1 l2 : list A) n : List.length l1 = n -> skipn n (l1 ++ l2) = l2.
Proof. intros <-. rewrite skipn_app, Nat.sub_diag, skipn_all. reflexivity. Qed.

Lemma code_at_skip m A ws j : code_at m A ws -> code_at m (A + 4 * Z.of_nat j) (skipn j ws).
Proof.
  intros H k w Hk. rewrite nth_error_skipn' in Hk. specialize (H (j + k)%nat w Hk).
  rewrite Nat2Z.inj_add in H. replace (A + 4 * Z.of_nat j + 4 * Z.of_nat k) with (A + 4 * (Z.of_nat j + Z.of_nat k)) by lia.
  exact H.
Qed.

Lemma code_at_firstn m A ws j : code_at m A ws -> code_at m A (firstn j ws).
Proof.
  intros H k w Hk. apply H. destruct (Nat.lt_ge_cases k j) as [Hlt|Hge].
  - rewrite nth_error_firstn_lt' in Hk by exact Hlt. exact Hk.
  - rewrite nth_error_firstn_ge in Hk by exact Hge. discriminate.
Qed.

(* the decoded table: case numbers n0+1, n0+2, ... with their jal offsets, then ret *)
Fixpoint table (n0 : Z) (moffs : list Z) (hit cmp : Z) : list instr :=
  match moffs with
  | [] => [Jalr 0 1 0]
  | mo :: tl => switch_decoded (n0 + 1) mo hit cmp ++ table (n0 + 1) tl hit cmp
  end.

Lemma table_length n0 moffs hit cmp : List.length (table n0 moffs hit cmp) = (3 * List.length moffs + 1)%nat.
Proof. revert n0. induction moffs as [|mo tl IH]; intros n0; cbn [table]; [reflexivity|]. rewrite app_length, IH. cbn. lia. Qed.

Section Dispatch.
Variable v : variant.
Variable L : layout.
Hypothesis RO : regions_ok L.
Hypothesis Hcode64 : code_hi L < W64.
Variables hit cmp : Z.
Hypothesis Hhit : 0 < hit < 32.
Hypothesis Hcmp : 0 < cmp < 32.
Hypothesis Hne : hit <> cmp.

Definition frame_sw (s s' : mstate) : Prop :=
  mem s' = mem s /\ cfi s' = cfi s /\ dom s' = dom s /\ (forall r, 0 <= r -> r <> cmp -> rget s' r = rget s r).

Lemma switch_no_domsw n mo : forallb (fun i => negb (is_domsw i)) (switch_decoded n mo hit cmp) = true.
Proof. reflexivity. Qed.

Theorem dispatch : forall moffs n0 ws s P k mo,
  Forall2 (fun w i => decode (variant_ext v) w = Some i) ws (table n0 moffs hit cmp) ->
  code_at (mem s) P ws -> pc s = P -> P mod 4 = 0 -> code_lo L <= P ->
  P + 4 * Z.of_nat (List.length ws) <= code_hi L ->
  (halt_at L < P \/ P + 4 * Z.of_nat (List.length ws) <= halt_at L) ->
  side_ok v L P (Z.of_nat (List.length ws)) (dom s) ->
  0 <= n0 -> n0 + Z.of_nat (List.length moffs) < 2048 ->
  nth_error moffs k = Some mo -> rget s hit = n0 + 1 + Z.of_nat k ->
  exists s', run v L (2 * k + 3) s = (Next s', (2 * k + 3)%nat) /\
             pc s' = u64 (P + 12 * Z.of_nat k + 8 + mo) /\ frame_sw s s'.
Proof.
  induction moffs as [|m0 tl IH]; intros n0 ws s P k mo F2 Hc Hpc Hal Hlo Hhi Hh Hside Hn0 Hn Hk Hv;
    [destruct k; discriminate|].
  cbn [table] in F2. cbn [List.length] in Hn. rewrite Nat2Z.inj_succ in Hn.
  assert (Hlen : List.length ws = (3 + (3 * List.length tl + 1))%nat).
  { rewrite (Forall2_length _ _ _ F2), app_length, table_length. reflexivity. }
  assert (F2a : Forall2 (fun w i => decode (variant_ext v) w = Some i) (firstn 3 ws) (switch_decoded (n0 + 1) m0 hit cmp)
                /\ Forall2 (fun w i => decode (variant_ext v) w = Some i) (skipn 3 ws) (table (n0 + 1) tl hit cmp)).
  { apply Forall2_app_inv_r in F2. destruct F2 as (l1 & l2 & A1 & A2 & E).
    assert (H3 : List.length l1 = 3%nat) by (rewrite (Forall2_length _ _ _ A1); reflexivity).
    subst ws. rewrite (firstn_app_exact l1 l2 3 H3), (skipn_app_exact l1 l2 3 H3). auto. }
  destruct F2a as [Fa Fb].
  destruct k as [|k'].
  - (* hit on the first case *)
    cbn [nth_error] in Hk. inversion Hk; subst m0.
    destruct (switch_case_hit v L s P (n0 + 1) mo hit cmp ltac:(lia) Hhit Hcmp Hne Hpc ltac:(cbn in Hv; lia))
      as (s' & E & Pc & M & C & D & R).
    exists s'. split; [|split; [cbn; rewrite Pc; f_equal; lia|repeat split; assumption]].
    apply (run_block v L (switch_decoded (n0 + 1) mo hit cmp) (firstn 3 ws) P s s' RO Fa (switch_no_domsw _ _));
      try assumption.
    + apply code_at_firstn. exact Hc.
    + rewrite firstn_length. lia.
    + rewrite firstn_length. lia.
    + unfold side_ok in *. destruct v; try exact I. rewrite firstn_length. lia.
  - (* miss: two steps, then the rest of the table *)
    cbn [nth_error] in Hk.
    destruct (switch_case_miss v L s P (n0 + 1) m0 hit cmp ltac:(lia) Hhit Hcmp Hne Hpc ltac:(rewrite Hv; lia))
      as (s1 & E1 & Pc1 & M1 & C1 & D1 & R1).
    assert (Hrun1 : run v L 2 s = (Next s1, 2%nat)).
    { apply (run_block v L (firstn 2 (switch_decoded (n0 + 1) m0 hit cmp)) (firstn 2 ws) P s s1 RO); try assumption.
      - replace (firstn 2 ws) with (firstn 2 (firstn 3 ws)) by (rewrite firstn_firstn; reflexivity).
        clear - Fa. unfold switch_decoded in *. remember (firstn 3 ws) as f3 eqn:E3. clear E3.
        inversion Fa as [|w1 i1 t1 t1' H1 Fa1]; subst. inversion Fa1 as [|w2 i2 t2 t2' H2 Fa2]; subst.
        cbn [firstn]. constructor; [exact H1|constructor; [exact H2|]].
        destruct t2; constructor.
      - reflexivity.
      - apply code_at_firstn. exact Hc.
      - rewrite firstn_length. lia.
      - rewrite firstn_length. lia.
      - unfold side_ok in *. destruct v; try exact I. rewrite firstn_length. lia. }
    assert (Hp1 : pc s1 = P + 12) by (rewrite Pc1; apply u64_small; pose proof (ro_code L RO); lia).
    destruct (IH (n0 + 1) (skipn 3 ws) s1 (P + 12) k' mo Fb) as (s' & Er & Pc' & Fr); try assumption; try lia.
    + replace (P + 12) with (P + 4 * Z.of_nat 3) by lia. rewrite M1. apply code_at_skip. exact Hc.
    + Z.div_mod_to_equations; lia.
    + rewrite skipn_length. lia.
    + rewrite skipn_length. lia.
    + unfold side_ok in *. destruct v; try exact I. rewrite skipn_length, D1. lia.
    + rewrite R1 by lia. rewrite Hv. lia.
    + exists s'. split; [|split].
      * replace (2 * S k' + 3)%nat with (2 + (2 * k' + 3))%nat by lia.
        rewrite (run_app v L 2 (2 * k' + 3) s s1 Hrun1). rewrite Er. reflexivity.
      * rewrite Pc'. f_equal. lia.
      * destruct Fr as (M & C & D & R). repeat split; try congruence.
        intros r Hr Hnr. rewrite R, R1 by assumption. reflexivity.
Qed.
End Dispatch.
