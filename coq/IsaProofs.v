(* IsaProofs.v — the specification decoder is a left inverse of the
   specification encoder on well-formed instructions (so it is injective on
   the image and usable as a judge). *)
From Coq Require Import ZArith List Bool Lia.
From Gigue Require Import Isa.
Open Scope Z_scope.

Lemma word_fields a0 a1 a2 a3 a4 a5 :
  0 <= a0 < 128 -> 0 <= a1 < 32 -> 0 <= a2 < 8 -> 0 <= a3 < 32 -> 0 <= a4 < 32 -> 0 <= a5 < 128 ->
  let w := mkword a0 a1 a2 a3 a4 a5 in
  f_op w = a0 /\ f_rd w = a1 /\ f_f3 w = a2 /\ f_rs1 w = a3 /\ f_rs2 w = a4 /\ f_f7 w = a5
  /\ 0 <= w < 4294967296.
Proof.
  intros. subst w. unfold f_op, f_rd, f_f3, f_rs1, f_rs2, f_f7, mkword.
  repeat split; try (Z.div_mod_to_equations; lia).
Qed.

Lemma decode_mkword x a0 a1 a2 a3 a4 a5 :
  0 <= a0 < 128 -> 0 <= a1 < 32 -> 0 <= a2 < 8 -> 0 <= a3 < 32 -> 0 <= a4 < 32 -> 0 <= a5 < 128 ->
  decode x (mkword a0 a1 a2 a3 a4 a5) = decode_f x (mkword a0 a1 a2 a3 a4 a5) a0 a1 a2 a3 a4 a5.
Proof.
  intros H0 H1 H2 H3 H4 H5.
  destruct (word_fields a0 a1 a2 a3 a4 a5 H0 H1 H2 H3 H4 H5) as (E0 & E1 & E2 & E3 & E4 & E5 & Hw).
  unfold decode. rewrite E0, E1, E2, E3, E4, E5.
  replace ((0 <=? mkword a0 a1 a2 a3 a4 a5) && (mkword a0 a1 a2 a3 a4 a5 <? 4294967296)) with true; [reflexivity|].
  symmetry; apply andb_true_intro; split; [apply Z.leb_le|apply Z.ltb_lt]; lia.
Qed.

(* usig/sext round trips for each immediate format *)
Lemma sext_usig v n : 0 < n -> - 2 ^ (n - 1) <= v < 2 ^ (n - 1) -> sext (usig v n) n = v.
Proof.
  intros Hn Hv. unfold sext, usig.
  assert (E : 2 ^ n = 2 * 2 ^ (n - 1)).
  { replace n with (1 + (n - 1)) at 1 by lia. rewrite Z.pow_add_r by lia. reflexivity. }
  assert (0 < 2 ^ (n - 1)) by (apply Z.pow_pos_nonneg; lia).
  destruct (Z.ltb_spec (v mod 2 ^ n) (2 ^ (n - 1))) as [Hlt|Hge].
  - destruct (Z_lt_le_dec v 0).
    + rewrite <- (Z.mod_add v 1 (2 ^ n)) in Hlt by lia. rewrite Z.mod_small in Hlt by lia. lia.
    + apply Z.mod_small; lia.
  - destruct (Z_lt_le_dec v 0).
    + rewrite <- (Z.mod_add v 1 (2 ^ n)) by lia. rewrite Z.mod_small by lia. lia.
    + rewrite Z.mod_small in Hge by lia. lia.
Qed.

Lemma usig_range v n : 0 <= n -> 0 <= usig v n < 2 ^ n.
Proof. intros; unfold usig; apply Z.mod_pos_bound; apply Z.pow_pos_nonneg; lia. Qed.

Ltac bools :=
  repeat match goal with
  | H : _ && _ = true |- _ => apply andb_prop in H; destruct H
  | H : isreg _ = true |- _ => unfold isreg in H
  | H : simm _ _ = true |- _ => unfold simm in H
  | H : (_ <=? _) = true |- _ => apply Z.leb_le in H
  | H : (_ <? _) = true |- _ => apply Z.ltb_lt in H
  | H : (_ =? _) = true |- _ => apply Z.eqb_eq in H
  end.

Lemma dec_enc_I x op f3 rd rs1 imm :
  0 <= op < 128 -> 0 <= f3 < 8 -> 0 <= rd < 32 -> 0 <= rs1 < 32 -> -2048 <= imm < 2048 ->
  decode x (enc_I op f3 rd rs1 imm) =
  decode_f x (enc_I op f3 rd rs1 imm) op rd f3 rs1 (usig imm 12 mod 32) (usig imm 12 / 32)
  /\ immf_i (usig imm 12 mod 32) (usig imm 12 / 32) = imm.
Proof.
  intros. pose proof (usig_range imm 12 ltac:(lia)) as Hu. change (2 ^ 12) with 4096 in Hu.
  split.
  - unfold enc_I. apply decode_mkword; try lia; Z.div_mod_to_equations; lia.
  - unfold immf_i. rewrite <- (sext_usig imm 12) at 3 by (change (2 ^ (12 - 1)) with 2048; lia).
    f_equal. Z.div_mod_to_equations; lia.
Qed.

Lemma dec_enc_S x op f3 rs1 rs2 imm :
  0 <= op < 128 -> 0 <= f3 < 8 -> 0 <= rs1 < 32 -> 0 <= rs2 < 32 -> -2048 <= imm < 2048 ->
  decode x (enc_S op f3 rs1 rs2 imm) =
  decode_f x (enc_S op f3 rs1 rs2 imm) op (usig imm 12 mod 32) f3 rs1 rs2 (usig imm 12 / 32)
  /\ immf_s (usig imm 12 mod 32) (usig imm 12 / 32) = imm.
Proof.
  intros. pose proof (usig_range imm 12 ltac:(lia)) as Hu. change (2 ^ 12) with 4096 in Hu.
  split.
  - unfold enc_S. apply decode_mkword; try lia; Z.div_mod_to_equations; lia.
  - unfold immf_s. rewrite <- (sext_usig imm 12) at 3 by (change (2 ^ (12 - 1)) with 2048; lia).
    f_equal. Z.div_mod_to_equations; lia.
Qed.

Lemma dec_enc_B x op f3 rs1 rs2 off :
  0 <= op < 128 -> 0 <= f3 < 8 -> 0 <= rs1 < 32 -> 0 <= rs2 < 32 -> -4096 <= off < 4096 ->
  off mod 2 = 0 ->
  let u := usig off 13 in
  let a1 := 2 * ((u / 2) mod 16) + (u / 2048) mod 2 in
  let a5 := (u / 32) mod 64 + 64 * ((u / 4096) mod 2) in
  decode x (enc_B op f3 rs1 rs2 off) = decode_f x (enc_B op f3 rs1 rs2 off) op a1 f3 rs1 rs2 a5
  /\ immf_b a1 a5 = off.
Proof.
  intros Hop Hf3 H1 H2 Hoff Hev u a1 a5.
  pose proof (usig_range off 13 ltac:(lia)) as Hu. change (2 ^ 13) with 8192 in Hu. fold u in Hu.
  assert (Hue : u mod 2 = 0).
  { subst u. unfold usig. change (2 ^ 13) with 8192. Z.div_mod_to_equations; lia. }
  split.
  - unfold enc_B. fold u. fold a1. fold a5. apply decode_mkword; try lia; subst a1 a5;
      Z.div_mod_to_equations; lia.
  - unfold immf_b. rewrite <- (sext_usig off 13) at 1 by (change (2 ^ (13 - 1)) with 4096; lia).
    fold u. f_equal. subst a1 a5. Z.div_mod_to_equations; lia.
Qed.

Lemma dec_enc_U x op rd imm :
  0 <= op < 128 -> 0 <= rd < 32 -> -524288 <= imm < 524288 ->
  let u := usig imm 20 in
  decode x (enc_U op rd imm) =
  decode_f x (enc_U op rd imm) op rd (u mod 8) ((u / 8) mod 32) ((u / 256) mod 32) (u / 8192)
  /\ immf_u (u mod 8) ((u / 8) mod 32) ((u / 256) mod 32) (u / 8192) = imm.
Proof.
  intros Hop Hrd Himm u.
  pose proof (usig_range imm 20 ltac:(lia)) as Hu. change (2 ^ 20) with 1048576 in Hu. fold u in Hu.
  split.
  - unfold enc_U. fold u. apply decode_mkword; try lia; Z.div_mod_to_equations; lia.
  - unfold immf_u. rewrite <- (sext_usig imm 20) at 1 by (change (2 ^ (20 - 1)) with 524288; lia).
    fold u. f_equal. Z.div_mod_to_equations; lia.
Qed.

Lemma dec_enc_J x op rd off :
  0 <= op < 128 -> 0 <= rd < 32 -> -1048576 <= off < 1048576 -> off mod 2 = 0 ->
  let u := usig off 21 in
  let a2 := (u / 4096) mod 8 in
  let a3 := (u / 32768) mod 32 in
  let a4 := 2 * ((u / 2) mod 16) + (u / 2048) mod 2 in
  let a5 := (u / 32) mod 64 + 64 * ((u / 1048576) mod 2) in
  decode x (enc_J op rd off) = decode_f x (enc_J op rd off) op rd a2 a3 a4 a5
  /\ immf_j a2 a3 a4 a5 = off.
Proof.
  intros Hop Hrd Hoff Hev u a2 a3 a4 a5.
  pose proof (usig_range off 21 ltac:(lia)) as Hu. change (2 ^ 21) with 2097152 in Hu. fold u in Hu.
  assert (Hue : u mod 2 = 0).
  { subst u. unfold usig. change (2 ^ 21) with 2097152. Z.div_mod_to_equations; lia. }
  split.
  - unfold enc_J. fold u. fold a2. fold a3. fold a4. fold a5.
    apply decode_mkword; try lia; subst a2 a3 a4 a5; Z.div_mod_to_equations; lia.
  - unfold immf_j. rewrite <- (sext_usig off 21) at 1 by (change (2 ^ (21 - 1)) with 1048576; lia).
    fold u. f_equal. subst a2 a3 a4 a5. Z.div_mod_to_equations; lia.
Qed.

Ltac pow_norm :=
  change (2 ^ (12 - 1)) with 2048 in *; change (2 ^ (13 - 1)) with 4096 in *;
  change (2 ^ (20 - 1)) with 524288 in *; change (2 ^ (21 - 1)) with 1048576 in *.

Theorem decode_encode_spec x i :
  wf i = true -> ext_ok x i = true -> decode x (encode_spec i) = Some i.
Proof.
  intros Hwf Hx.
  destruct i as [o rd rs1 rs2|o rd rs1 imm|o rd rs1 sh|o rd rs1 imm|o rs1 rs2 imm|o rs1 rs2 off
                |rd imm|rd imm|rd off|rd rs1 imm| | |rd rs1 imm|rd rs1 imm|o rd rs1 csr
                |o rd rs1 imm|o rs1 rs2 imm|rd rs1 imm|rs1 rs2 imm|rd rs1 imm|rd rs1 imm
                |rd rs1 rs2|rd rs1 rs2];
    cbn [wf] in Hwf; bools; pow_norm; cbn [encode_spec].
  - (* Rop *)
    destruct o; cbn [enc_rop]; (rewrite decode_mkword by lia); reflexivity.
  - (* Iop *)
    destruct o; cbn [enc_iop];
      (destruct (dec_enc_I x 19 0 rd rs1 imm) as [E1 E2] ||
       idtac); try lia.
    all: match goal with
         | |- decode _ (enc_I ?op ?f3 _ _ _) = _ =>
             destruct (dec_enc_I x op f3 rd rs1 imm ltac:(lia) ltac:(lia) ltac:(lia) ltac:(lia) ltac:(lia)) as [E1' E2'];
             rewrite E1'; cbn [decode_f]; rewrite E2'; reflexivity
         end.
  - (* Shift *)
    assert (Hsh : 0 <= sh < 64) by (destruct o; cbn [is_w_shift] in *; lia).
    destruct o; cbn [enc_shop is_w_shift] in *;
      (rewrite decode_mkword by (try lia; Z.div_mod_to_equations; lia));
      cbn [decode_f].
    + replace ((0 + sh / 32) / 2 =? 0) with true by (symmetry; apply Z.eqb_eq; Z.div_mod_to_equations; lia).
      do 2 f_equal. Z.div_mod_to_equations; lia.
    + replace ((0 + sh / 32) / 2 =? 0) with true by (symmetry; apply Z.eqb_eq; Z.div_mod_to_equations; lia).
      do 2 f_equal. Z.div_mod_to_equations; lia.
    + replace ((32 + sh / 32) / 2 =? 0) with false by (symmetry; apply Z.eqb_neq; Z.div_mod_to_equations; lia).
      replace ((32 + sh / 32) / 2 =? 16) with true by (symmetry; apply Z.eqb_eq; Z.div_mod_to_equations; lia).
      do 2 f_equal. Z.div_mod_to_equations; lia.
    + replace (0 + sh / 32 =? 0) with true by (symmetry; apply Z.eqb_eq; Z.div_mod_to_equations; lia).
      do 2 f_equal. Z.div_mod_to_equations; lia.
    + replace (0 + sh / 32 =? 0) with true by (symmetry; apply Z.eqb_eq; Z.div_mod_to_equations; lia).
      do 2 f_equal. Z.div_mod_to_equations; lia.
    + replace (32 + sh / 32 =? 0) with false by (symmetry; apply Z.eqb_neq; Z.div_mod_to_equations; lia).
      replace (32 + sh / 32 =? 32) with true by (symmetry; apply Z.eqb_eq; Z.div_mod_to_equations; lia).
      do 2 f_equal. Z.div_mod_to_equations; lia.
  - (* Load *)
    destruct (dec_enc_I x 3 (enc_lop o) rd rs1 imm) as [E1 E2]; try lia; [destruct o; cbn; lia|].
    rewrite E1. destruct o; cbn [decode_f enc_lop dec_load omap]; rewrite E2; reflexivity.
  - (* Store *)
    destruct (dec_enc_S x 35 (enc_sop o) rs1 rs2 imm) as [E1 E2]; try lia; [destruct o; cbn; lia|].
    rewrite E1. destruct o; cbn [decode_f enc_sop dec_store omap]; rewrite E2; reflexivity.
  - (* Branch *)
    destruct (dec_enc_B x 99 (enc_bop o) rs1 rs2 off) as [E1 E2]; try lia; [destruct o; cbn; lia|].
    rewrite E1. destruct o; cbn [decode_f enc_bop dec_branch omap]; rewrite E2; reflexivity.
  - (* Lui *)
    destruct (dec_enc_U x 55 rd imm) as [E1 E2]; try lia.
    rewrite E1. cbn [decode_f]. rewrite E2. reflexivity.
  - (* Auipc *)
    destruct (dec_enc_U x 23 rd imm) as [E1 E2]; try lia.
    rewrite E1. cbn [decode_f]. rewrite E2. reflexivity.
  - (* Jal *)
    destruct (dec_enc_J x 111 rd off) as [E1 E2]; try lia.
    rewrite E1. cbn [decode_f]. rewrite E2. reflexivity.
  - (* Jalr *)
    destruct (dec_enc_I x 103 0 rd rs1 imm) as [E1 E2]; try lia.
    rewrite E1. cbn [decode_f Z.eqb]. rewrite E2. reflexivity.
  - reflexivity.
  - reflexivity.
  - (* Fence *)
    destruct (dec_enc_I x 15 0 rd rs1 imm) as [E1 E2]; try lia.
    rewrite E1. cbn [decode_f]. rewrite E2. reflexivity.
  - destruct (dec_enc_I x 15 1 rd rs1 imm) as [E1 E2]; try lia.
    rewrite E1. cbn [decode_f]. rewrite E2. reflexivity.
  - (* Csr *)
    assert (Hf3 : 1 <= enc_csrop o < 8) by (destruct o; cbn; lia).
    rewrite decode_mkword by (try lia; Z.div_mod_to_equations; lia).
    cbn [decode_f].
    replace (mkword 115 rd (enc_csrop o) rs1 (csr mod 32) (csr / 32) =? 115) with false
      by (symmetry; apply Z.eqb_neq; unfold mkword; Z.div_mod_to_equations; lia).
    replace (mkword 115 rd (enc_csrop o) rs1 (csr mod 32) (csr / 32) =? 1048691) with false
      by (symmetry; apply Z.eqb_neq; unfold mkword; Z.div_mod_to_equations; lia).
    destruct o; cbn [enc_csrop dec_csr omap]; do 2 f_equal; Z.div_mod_to_equations; lia.
  - (* Load1 *)
    destruct x; try discriminate.
    destruct (dec_enc_I ExtRimi 11 (enc_lop o) rd rs1 imm) as [E1 E2]; try lia; [destruct o; cbn; lia|].
    rewrite E1. destruct o; cbn [decode_f enc_lop dec_load omap Z.eqb Pos.eqb]; rewrite E2; reflexivity.
  - (* Store1 *)
    destruct x; try discriminate.
    destruct (dec_enc_S ExtRimi 43 (enc_sop o) rs1 rs2 imm) as [E1 E2]; try lia; [destruct o; cbn; lia|].
    rewrite E1. destruct o; cbn [decode_f enc_sop dec_store omap Z.eqb Pos.eqb]; rewrite E2; reflexivity.
  - (* Lst *)
    destruct x; try discriminate.
    destruct (dec_enc_I ExtRimi 11 7 rd rs1 imm) as [E1 E2]; try lia.
    rewrite E1. cbn [decode_f Z.eqb Pos.eqb]. rewrite E2. reflexivity.
  - (* Sst *)
    destruct x; try discriminate.
    destruct (dec_enc_S ExtRimi 43 7 rs1 rs2 imm) as [E1 E2]; try lia.
    rewrite E1. cbn [decode_f Z.eqb Pos.eqb]. rewrite E2. reflexivity.
  - (* Chdom *)
    destruct x; try discriminate.
    destruct (dec_enc_I ExtRimi 91 1 rd rs1 imm) as [E1 E2]; try lia.
    rewrite E1. cbn [decode_f Z.eqb Pos.eqb]. rewrite E2. reflexivity.
  - (* Retdom *)
    destruct x; try discriminate.
    destruct (dec_enc_I ExtRimi 91 0 rd rs1 imm) as [E1 E2]; try lia.
    rewrite E1. cbn [decode_f Z.eqb Pos.eqb]. rewrite E2. reflexivity.
  - (* Cficall *)
    destruct x; try discriminate. rewrite decode_mkword by lia. reflexivity.
  - destruct x; try discriminate. rewrite decode_mkword by lia. reflexivity.
Qed.
