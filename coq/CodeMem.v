(* CodeMem.v — Layer B, third step (specification side): from straight-line
   blocks of decoded instructions (exec_at) to the machine itself (step / run):
   when the words of a block lie in code memory at A, and the block executes
   (exec_at) without leaving the straight line, then the machine, fetching and
   decoding those very bytes, makes exactly one step per instruction and reaches
   the same state.  Code memory is never modified by a non-faulting step. *)
From Coq Require Import ZArith List Bool Lia FMapPositive.
From Gigue Require Import Isa Machine MachineLemmas BodyExec FrameExec.
Import ListNotations.
Open Scope Z_scope.

Definition code_at (m : PM.t Z) (A : Z) (ws : list Z) : Prop :=
  forall j w, nth_error ws j = Some w -> load_bytes m (A + 4 * Z.of_nat j) 4 = w.

Lemma code_at_tail m A w ws : code_at m A (w :: ws) -> load_bytes m A 4 = w /\ code_at m (A + 4) ws.
Proof.
  intros H. split.
  - specialize (H O w eq_refl). replace (A + 4 * Z.of_nat 0) with A in H by lia. exact H.
  - intros j x Hj. specialize (H (S j) x Hj). rewrite Nat2Z.inj_succ in H.
    replace (A + 4 + 4 * Z.of_nat j) with (A + 4 * Z.succ (Z.of_nat j)) by lia. exact H.
Qed.

(* regions other than code do not overlap the code image *)
Record regions_ok (L : layout) : Prop := {
  ro_code : 0 <= code_lo L;
  ro_stk : code_hi L <= stk_lo L \/ stk_hi L <= code_lo L;
  ro_data : code_hi L <= data_lo L \/ data_hi L <= code_lo L;
  ro_ss : code_hi L <= ss_lo L \/ ss_hi L <= code_lo L
}.

Definition same_code (L : layout) (s s' : mstate) : Prop :=
  forall a, code_lo L <= a < code_hi L -> mget (mem s') a = mget (mem s) a.

Lemma access_none_outside_code v L k d a n st :
  regions_ok L -> 0 < n -> access_ok v L k d a n st = None ->
  a + n <= code_lo L \/ code_hi L <= a.
Proof.
  intros [R0 R1 R2 R3] Hn H. unfold access_ok, inr in H.
  destruct (negb (a mod n =? 0)); [discriminate|].
  destruct ((code_lo L <=? a) && (a + n <=? code_hi L)) eqn:Ec; [destruct st; discriminate|].
  destruct k.
  - destruct ((stk_lo L <=? a) && (a + n <=? stk_hi L)) eqn:E1.
    { apply andb_prop in E1. destruct E1 as [A1 A2]. apply Z.leb_le in A1. apply Z.leb_le in A2. clear - A1 A2 R1 R2 R3; lia. }
    destruct ((data_lo L <=? a) && (a + n <=? data_hi L)) eqn:E2.
    { apply andb_prop in E2. destruct E2 as [A1 A2]. apply Z.leb_le in A1. apply Z.leb_le in A2. clear - A1 A2 R1 R2 R3; lia. }
    destruct ((ss_lo L <=? a) && (a + n <=? ss_hi L)); [destruct v; discriminate|discriminate].
  - destruct (negb (d =? 1)); [discriminate|].
    destruct ((data_lo L <=? a) && (a + n <=? data_hi L)) eqn:E2; [|discriminate].
    apply andb_prop in E2. destruct E2 as [A1 A2]. apply Z.leb_le in A1. apply Z.leb_le in A2. clear - A1 A2 R1 R2 R3; lia.
  - destruct ((ss_lo L <=? a) && (a + n <=? ss_hi L)) eqn:E3; [|discriminate].
    apply andb_prop in E3. destruct E3 as [A1 A2]. apply Z.leb_le in A1. apply Z.leb_le in A2. clear - A1 A2 R1 R2 R3; lia.
Qed.

Lemma do_store_same_code v L k s o rs1 rs2 imm s' :
  regions_ok L -> do_store v L k s o rs1 rs2 imm = Next s' -> same_code L s s'.
Proof.
  intros RO H. unfold do_store in H.
  destruct (access_ok v L k (dom s) _ _ true) eqn:Ea; [discriminate|]. inversion H; subst s'.
  assert (Hw : 0 < Z.of_nat (swidth o)) by (destruct o; cbn; lia).
  pose proof (access_none_outside_code _ _ _ _ _ _ _ RO Hw Ea) as Hout.
  intros a Ha. cbn [set_pc set_mem mem]. apply mget_store_other.
  - apply u64_range.
  - pose proof (ro_code L RO). lia.
  - lia.
Qed.

Lemma exec_same_code v L s i s' : regions_ok L -> exec v L s i = Next s' -> same_code L s s'.
Proof.
  intros RO H. destruct i; cbn [exec] in H;
    try (inversion H; subst s'; intros a _; cbn [set_pc set_dom set_cfi mem]; rewrite ?mem_rset; reflexivity);
    try discriminate;
    try (eapply do_store_same_code; eassumption).
  - unfold do_load in H. destruct (access_ok _ _ _ _ _ _ _); [discriminate|]. inversion H; subst s'.
    intros a _. cbn [set_pc mem]. rewrite mem_rset. reflexivity.
  - unfold do_load in H. destruct (access_ok _ _ _ _ _ _ _); [discriminate|]. inversion H; subst s'.
    intros a _. cbn [set_pc mem]. rewrite mem_rset. reflexivity.
  - unfold do_load in H. destruct (access_ok _ _ _ _ _ _ _); [discriminate|]. inversion H; subst s'.
    intros a _. cbn [set_pc mem]. rewrite mem_rset. reflexivity.
  - destruct (negb (dom s =? 0)); [discriminate|]. destruct (negb (inr _ _ _ _)); [discriminate|].
    inversion H; subst s'. intros a _. cbn [set_dom set_pc mem]. rewrite mem_rset. reflexivity.
  - destruct (negb (dom s =? 1)); [discriminate|]. destruct (negb _); [discriminate|].
    inversion H; subst s'. intros a _. cbn [set_dom set_pc mem]. rewrite mem_rset. reflexivity.
  - destruct (cfi s); [discriminate|]. inversion H; subst s'. intros a _. cbn [set_pc mem]. rewrite mem_rset. reflexivity.
Qed.

(* ---------------------------------------------------------------- one step *)
Definition fetch_dom_ok (v : variant) (L : layout) (s : mstate) : Prop :=
  match v with
  | VRimiFull => (if pc s <? jit_lo L then dom s =? 0 else dom s =? 1) = true
  | _ => True
  end.

Lemma step_exec v L s w i :
  pc s <> halt_at L -> pc s mod 4 = 0 -> code_lo L <= pc s -> pc s + 4 <= code_hi L ->
  fetch_dom_ok v L s -> load_bytes (mem s) (pc s) 4 = w -> decode (variant_ext v) w = Some i ->
  step v L s = exec v L s i.
Proof.
  intros Hh Hal Hlo Hhi Hd Hw Hdec. unfold step.
  destruct (Z.eqb_spec (pc s) (halt_at L)); [contradiction|].
  rewrite Hal, Z.eqb_refl. cbn [negb].
  unfold inr. replace ((code_lo L <=? pc s) && (pc s + 4 <=? code_hi L)) with true
    by (symmetry; apply andb_true_intro; split; apply Z.leb_le; lia).
  cbn [negb].
  assert (Hdf : match v with VRimiFull => negb (if pc s <? jit_lo L then dom s =? 0 else dom s =? 1) | _ => false end = false).
  { unfold fetch_dom_ok in Hd. destruct v; try reflexivity. rewrite Hd. reflexivity. }
  rewrite Hdf. unfold fetch_word. rewrite Hw, Hdec. reflexivity.
Qed.

Definition is_domsw (i : instr) : bool := match i with Chdom _ _ _ | Retdom _ _ _ => true | _ => false end.

Lemma exec_same_dom v L s i s' : is_domsw i = false -> exec v L s i = Next s' -> dom s' = dom s.
Proof.
  intros Hn H. destruct i; cbn [exec is_domsw] in *; try discriminate;
    try (inversion H; subst s'; cbn [set_pc set_cfi dom]; rewrite ?dom_rset; reflexivity).
  - unfold do_load in H. destruct (access_ok _ _ _ _ _ _ _); [discriminate|]. inversion H; subst s'. cbn [set_pc dom]. apply dom_rset.
  - unfold do_store in H. destruct (access_ok _ _ _ _ _ _ _); [discriminate|]. inversion H; subst s'. reflexivity.
  - unfold do_load in H. destruct (access_ok _ _ _ _ _ _ _); [discriminate|]. inversion H; subst s'. cbn [set_pc dom]. apply dom_rset.
  - unfold do_store in H. destruct (access_ok _ _ _ _ _ _ _); [discriminate|]. inversion H; subst s'. reflexivity.
  - unfold do_load in H. destruct (access_ok _ _ _ _ _ _ _); [discriminate|]. inversion H; subst s'. cbn [set_pc dom]. apply dom_rset.
  - unfold do_store in H. destruct (access_ok _ _ _ _ _ _ _); [discriminate|]. inversion H; subst s'. reflexivity.
  - destruct (cfi s); [discriminate|]. inversion H; subst s'. cbn [set_pc dom]. rewrite dom_rset. reflexivity.
Qed.

Lemma code_at_same L m m' A ws :
  (forall a, code_lo L <= a < code_hi L -> mget m' a = mget m a) ->
  code_lo L <= A -> A + 4 * Z.of_nat (List.length ws) <= code_hi L ->
  code_at m A ws -> code_at m' A ws.
Proof.
  intros Hs Hlo Hhi Hc j w Hj. rewrite <- (Hc j w Hj).
  assert (Hlt : (j < List.length ws)%nat) by (apply nth_error_Some; congruence).
  apply load_bytes_ext. intros b Hb. apply Hs. change (Z.of_nat 4) with 4 in Hb. lia.
Qed.

(* ---------------------------------------------------------------- a block *)
(* the block lies entirely on one side of the JIT boundary and the domain matches *)
Definition side_ok (v : variant) (L : layout) (A n : Z) (d : Z) : Prop :=
  match v with
  | VRimiFull => (A + 4 * n <= jit_lo L /\ d = 0) \/ (jit_lo L <= A /\ d = 1)
  | _ => True
  end.

Theorem run_block v L : forall is ws A s s',
  regions_ok L ->
  Forall2 (fun w i => decode (variant_ext v) w = Some i) ws is ->
  forallb (fun i => negb (is_domsw i)) is = true ->
  code_at (mem s) A ws -> A mod 4 = 0 -> code_lo L <= A -> A + 4 * Z.of_nat (List.length ws) <= code_hi L ->
  (halt_at L < A \/ A + 4 * Z.of_nat (List.length ws) <= halt_at L) ->
  side_ok v L A (Z.of_nat (List.length ws)) (dom s) ->
  exec_at v L A is s = Next s' ->
  run v L (List.length is) s = (Next s', List.length is).
Proof.
  induction is as [|i tl IH]; intros ws A s s' RO F2 Hnd Hc Hal Hlo Hhi Hh Hside He.
  - cbn [exec_at] in He. inversion He; subst. reflexivity.
  - inversion F2 as [|w ? ws' ? Hdec F2']; subst. cbn [exec_at] in He.
    destruct (Z.eqb_spec (pc s) A) as [Hpc|]; [|discriminate].
    cbn [forallb] in Hnd. apply andb_prop in Hnd. destruct Hnd as [Hni Hnd']. apply negb_true_iff in Hni.
    destruct (code_at_tail _ _ _ _ Hc) as [Hw Hc'].
    cbn [List.length] in *. rewrite Nat2Z.inj_succ in *.
    assert (Hst : step v L s = exec v L s i).
    { apply (step_exec v L s w i); rewrite ?Hpc; try lia; try assumption.
      unfold fetch_dom_ok, side_ok in *. destruct v; try exact I. rewrite Hpc.
      destruct Hside as [[H1 H2]|[H1 H2]]; rewrite H2.
      - destruct (Z.ltb_spec A (jit_lo L)); [reflexivity|lia].
      - destruct (Z.ltb_spec A (jit_lo L)); [lia|reflexivity]. }
    destruct (exec v L s i) as [s1|s1|s1|f s1] eqn:Ex; try discriminate.
    cbn [run]. rewrite Hst.
    pose proof (exec_same_code v L s i s1 RO Ex) as Hsc.
    pose proof (exec_same_dom v L s i s1 Hni Ex) as Hsd.
    rewrite (IH ws' (A + 4) s1 s' RO F2' Hnd'); try lia; try assumption.
    + reflexivity.
    + eapply code_at_same; [exact Hsc|lia|lia|exact Hc'].
    + Z.div_mod_to_equations; lia.
    + unfold side_ok in *. destruct v; try exact I. rewrite Hsd. lia.
Qed.

Lemma exec_at_same_code v L : forall is A s s',
  regions_ok L -> exec_at v L A is s = Next s' -> same_code L s s'.
Proof.
  induction is as [|i tl IH]; intros A s s' RO H; cbn [exec_at] in H.
  - inversion H; subst. intros a _. reflexivity.
  - destruct (pc s =? A); [|discriminate]. destruct (exec v L s i) as [s1|s1|s1|f s1] eqn:E; try discriminate.
    pose proof (exec_same_code v L s i s1 RO E) as H1. pose proof (IH _ _ _ RO H) as H2.
    intros a Ha. rewrite H2, H1 by exact Ha. reflexivity.
Qed.
