(* BodyBridge.v — from the generator's instruction objects to decoded
   instructions: every kind of random body instruction, built by the builders
   from register operands in 0..31 and the immediates the generator draws, emits
   a word that the independent decoder reads back as the intended instruction,
   for every extension set (the base encodings do not depend on it).  The
   (opcode, funct3, funct7) of every mnemonic come from the REGENERATED tables:
   the table facts below are re-checked by computation on every run. *)
From Coq Require Import ZArith List String Bool Lia.
From Gigue Require Import Types Bits Isa IsaProofs Enc EncProofs GenTables Builder CtorSpec C12Defs C12Proofs SplitProofs.
Import ListNotations.
Open Scope string_scope.
Open Scope Z_scope.

Ltac wf_regs :=
  unfold wf, isreg, simm; change (2 ^ (12 - 1)) with 2048; change (2 ^ (13 - 1)) with 4096;
  change (2 ^ (20 - 1)) with 524288; change (2 ^ (21 - 1)) with 1048576;
  repeat (apply andb_true_intro; split); try apply Z.leb_le; try apply Z.ltb_lt; try apply Z.eqb_eq; try lia; try reflexivity.

Definition fields (e : iinfo) : Z * Z * Z := (ii_opcode e, ii_funct3 e, ii_funct7 e).
Definition t3_eqb (a b : Z * Z * Z) : bool :=
  let '(a1, a2, a3) := a in let '(b1, b2, b3) := b in (a1 =? b1) && (a2 =? b2) && (a3 =? b3).
Lemma t3_eqb_eq a b : t3_eqb a b = true -> a = b.
Proof.
  destruct a as [[a1 a2] a3], b as [[b1 b2] b3]. cbn. intros H.
  repeat (apply andb_prop in H; destruct H as [H ?]).
  repeat match goal with H : (_ =? _) = true |- _ => apply Z.eqb_eq in H end. congruence.
Qed.

(* generic: names of a list all resolve in a table to fields some spec operation has *)
Definition names_match {O} (tbl : list iinfo) (names : list string) (ops : list O) (enc : O -> Z * Z * Z) : bool :=
  forallb (fun n => match lookup_info tbl n with
                    | Some e => existsb (fun o => t3_eqb (enc o) (fields e)) ops
                    | None => false end) names.

Lemma names_match_spec {O} tbl names (ops : list O) enc name :
  names_match tbl names ops enc = true -> In name names ->
  exists e o, lookup_info tbl name = Some e /\ enc o = fields e.
Proof.
  intros H Hin. unfold names_match in H. rewrite forallb_forall in H. specialize (H name Hin).
  destruct (lookup_info tbl name) as [e|]; [|discriminate]. apply existsb_exists in H.
  destruct H as (o & _ & Ho). exists e, o. split; [reflexivity|apply t3_eqb_eq; exact Ho].
Qed.

Definition all_rop := [ADD; SUB; SLL; SLT; SLTU; XOR; SRL; SRA; OR; AND; MUL; MULH; MULHSU; MULHU; DIV; DIVU; REM; REMU;
                       ADDW; SUBW; SLLW; SRLW; SRAW; MULW; DIVW; DIVUW; REMW; REMUW].
Definition all_iop := [ADDI; SLTI; SLTIU; XORI; ORI; ANDI; ADDIW].
Definition all_lop := [LB; LH; LW; LD; LBU; LHU; LWU].
Definition all_sop := [SB; SH; SW; SD].
Definition all_bop := [BEQ; BNE; BLT; BGE; BLTU; BGEU].

(* ---- the table facts (recomputed from the regenerated tables) ---- *)
Lemma R_table : names_match base_table b_R_INSTRUCTIONS all_rop enc_rop = true.
Proof. vm_compute. reflexivity. Qed.
Lemma I_table : names_match base_table b_I_INSTRUCTIONS all_iop (fun o => let '(a, b) := enc_iop o in (a, b, 0)) = true.
Proof. vm_compute. reflexivity. Qed.
Lemma L_table : names_match base_table b_I_INSTRUCTIONS_LOAD all_lop (fun o => (3, enc_lop o, 0)) = true.
Proof. vm_compute. reflexivity. Qed.
Lemma S_table : names_match base_table b_S_INSTRUCTIONS all_sop (fun o => (35, enc_sop o, 0)) = true.
Proof. vm_compute. reflexivity. Qed.
Lemma B_table : names_match base_table b_B_INSTRUCTIONS all_bop (fun o => (99, enc_bop o, 0)) = true.
Proof. vm_compute. reflexivity. Qed.
Lemma L1_table : names_match rimi_table b_RIMI_I_INSTRUCTIONS_LOAD all_lop (fun o => (11, enc_lop o, 0)) = true.
Proof. vm_compute. reflexivity. Qed.
Lemma S1_table : names_match rimi_table b_RIMI_S_INSTRUCTIONS all_sop (fun o => (43, enc_sop o, 0)) = true.
Proof. vm_compute. reflexivity. Qed.
Lemma U_table :
  match lookup_info base_table "lui", lookup_info base_table "auipc", lookup_info base_table "jal" with
  | Some l, Some a, Some j => (ii_opcode l =? 55) && (ii_opcode a =? 23) && (ii_opcode j =? 111)
  | _, _, _ => false end = true.
Proof. vm_compute. reflexivity. Qed.

Lemma sext_imm12 imm : 0 <= imm < 4096 -> -2048 <= sext (imm mod 4096) 12 < 2048.
Proof. intros. apply sext12_range. apply Z.mod_pos_bound. lia. Qed.

(* ---- R ---- *)
Lemma R_bridge x name rd rs1 rs2 g :
  In name b_R_INSTRUCTIONS -> 0 <= rd < 32 -> 0 <= rs1 < 32 -> 0 <= rs2 < 32 ->
  R_ name rd rs1 rs2 = OK g -> exists o, decode x (generate g) = Some (Rop o rd rs1 rs2).
Proof.
  intros Hin Hd H1 H2 H. destruct (names_match_spec _ _ _ _ _ R_table Hin) as (e & o & El & Eo).
  unfold R_, r_instr in H. rewrite El in H. cbn [of_opt] in H. inversion H; subst g. exists o.
  unfold fields in Eo.
  destruct o; cbn [enc_rop] in Eo; injection Eo as E1 E2 E3; rewrite <- E1, <- E2, <- E3;
    (rewrite generate_mkR by lia); (apply via_spec; [wf_regs|reflexivity|reflexivity]).
Qed.

(* ---- I (arithmetic): the generator draws imm in 0..4095; the field holds imm mod 4096 ---- *)
Lemma I_bridge x name rd rs1 imm g :
  In name b_I_INSTRUCTIONS -> 0 <= rd < 32 -> 0 <= rs1 < 32 -> 0 <= imm < 4096 ->
  I_ name rd rs1 imm = OK g -> exists o, decode x (generate g) = Some (Iop o rd rs1 (sext (imm mod 4096) 12)).
Proof.
  intros Hin Hd H1 Hi H. destruct (names_match_spec _ _ _ _ _ I_table Hin) as (e & o & El & Eo).
  unfold I_, i_instr in H. rewrite El in H. cbn [of_opt] in H. inversion H; subst g. exists o.
  pose proof (sext_imm12 imm Hi). unfold fields in Eo.
  destruct o; cbn [enc_iop] in Eo; injection Eo as E1 E2 E3; rewrite <- E1, <- E2, <- E3;
    (rewrite generate_mkI by lia); rewrite enc_I_sext; (apply via_spec; [wf_regs|reflexivity|reflexivity]).
Qed.

(* ---- loads / stores: imm in 0..2047 ---- *)
Lemma L_bridge x name rd rs1 imm g :
  In name b_I_INSTRUCTIONS_LOAD -> 0 <= rd < 32 -> 0 <= rs1 < 32 -> 0 <= imm < 2048 ->
  I_ name rd rs1 imm = OK g ->
  exists e o, lookup_info base_table name = Some e /\ (3, enc_lop o, 0) = fields e /\
              decode x (generate g) = Some (Load o rd rs1 imm).
Proof.
  intros Hin Hd H1 Hi H. destruct (names_match_spec _ _ _ _ _ L_table Hin) as (e & o & El & Eo).
  unfold I_, i_instr in H. rewrite El in H. cbn [of_opt] in H. inversion H; subst g. exists e, o.
  split; [exact El|]. split; [exact Eo|]. unfold fields in Eo. injection Eo as E1 E2 E3. rewrite <- E1, <- E2, <- E3.
  rewrite generate_mkI by (destruct o; cbn; lia). apply via_spec; [wf_regs|reflexivity|reflexivity].
Qed.

Lemma S_bridge x name rs1 rs2 imm g :
  In name b_S_INSTRUCTIONS -> 0 <= rs1 < 32 -> 0 <= rs2 < 32 -> 0 <= imm < 2048 ->
  S_ name rs1 rs2 imm = OK g ->
  exists e o, lookup_info base_table name = Some e /\ (35, enc_sop o, 0) = fields e /\
              decode x (generate g) = Some (Store o rs1 rs2 imm).
Proof.
  intros Hin H1 H2 Hi H. destruct (names_match_spec _ _ _ _ _ S_table Hin) as (e & o & El & Eo).
  unfold S_, s_instr in H. rewrite El in H. cbn [of_opt] in H. inversion H; subst g. exists e, o.
  split; [exact El|]. split; [exact Eo|]. unfold fields in Eo. injection Eo as E1 E2 E3. rewrite <- E1, <- E2.
  rewrite generate_mkS by (destruct o; cbn; lia). apply via_spec; [wf_regs|reflexivity|reflexivity].
Qed.

Lemma L1_bridge name rd rs1 imm g :
  In name b_RIMI_I_INSTRUCTIONS_LOAD -> 0 <= rd < 32 -> 0 <= rs1 < 32 -> 0 <= imm < 2048 ->
  RI_ name rd rs1 imm = OK g ->
  exists e o, lookup_info rimi_table name = Some e /\ (11, enc_lop o, 0) = fields e /\
              decode ExtRimi (generate g) = Some (Load1 o rd rs1 imm).
Proof.
  intros Hin Hd H1 Hi H. destruct (names_match_spec _ _ _ _ _ L1_table Hin) as (e & o & El & Eo).
  unfold RI_, i_instr in H. rewrite El in H. cbn [of_opt] in H. inversion H; subst g. exists e, o.
  split; [exact El|]. split; [exact Eo|]. unfold fields in Eo. injection Eo as E1 E2 E3. rewrite <- E1, <- E2, <- E3.
  rewrite generate_mkI by (destruct o; cbn; lia). apply via_spec; [wf_regs|reflexivity|reflexivity].
Qed.

Lemma S1_bridge name rs1 rs2 imm g :
  In name b_RIMI_S_INSTRUCTIONS -> 0 <= rs1 < 32 -> 0 <= rs2 < 32 -> 0 <= imm < 2048 ->
  RS_ name rs1 rs2 imm = OK g ->
  exists e o, lookup_info rimi_table name = Some e /\ (43, enc_sop o, 0) = fields e /\
              decode ExtRimi (generate g) = Some (Store1 o rs1 rs2 imm).
Proof.
  intros Hin H1 H2 Hi H. destruct (names_match_spec _ _ _ _ _ S1_table Hin) as (e & o & El & Eo).
  unfold RS_, s_instr in H. rewrite El in H. cbn [of_opt] in H. inversion H; subst g. exists e, o.
  split; [exact El|]. split; [exact Eo|]. unfold fields in Eo. injection Eo as E1 E2 E3. rewrite <- E1, <- E2.
  rewrite generate_mkS by (destruct o; cbn; lia). apply via_spec; [wf_regs|reflexivity|reflexivity].
Qed.

(* ---- branches and jumps of a body: always +4 ---- *)
Lemma B_bridge x name rs1 rs2 g :
  In name b_B_INSTRUCTIONS -> 0 <= rs1 < 32 -> 0 <= rs2 < 32 ->
  B_ name rs1 rs2 4 = OK g -> exists o, decode x (generate g) = Some (Branch o rs1 rs2 4).
Proof.
  intros Hin H1 H2 H. destruct (names_match_spec _ _ _ _ _ B_table Hin) as (e & o & El & Eo).
  unfold B_, b_instr in H. rewrite El in H. cbn [of_opt] in H. inversion H; subst g. exists o.
  unfold fields in Eo. injection Eo as E1 E2 E3. rewrite <- E1, <- E2.
  rewrite generate_mkB by (try reflexivity; destruct o; cbn; lia). apply via_spec; [wf_regs|reflexivity|reflexivity].
Qed.

Lemma J_bridge x rd g :
  0 <= rd < 32 -> J_ rd 4 = OK g -> decode x (generate g) = Some (Jal rd 4).
Proof.
  intros Hd H. pose proof U_table as T. unfold J_, j_instr in H.
  destruct (lookup_info base_table "lui") as [l|]; [|discriminate].
  destruct (lookup_info base_table "auipc") as [a|]; [|discriminate].
  destruct (lookup_info base_table "jal") as [j|]; [|discriminate].
  repeat (apply andb_prop in T; destruct T as [T ?]).
  match goal with Hj : (ii_opcode j =? 111) = true |- _ => apply Z.eqb_eq in Hj; rewrite Hj in H end.
  cbn [of_opt] in H. inversion H; subst g.
  rewrite generate_mkJ by (try reflexivity; lia). apply via_spec; [wf_regs|reflexivity|reflexivity].
Qed.

(* ---- U: the generator draws imm in 0..2^32-1; the field holds bits 31..12 ---- *)
Lemma decode_lui_wide x name rd hi :
  0 <= rd < 32 -> 0 <= hi ->
  decode x (generate (mkU name 55 rd hi)) = Some (Lui rd (sext ((hi mod 4294967296) / 4096) 20)).
Proof.
  intros Hrd Hhi.
  assert (Hq : 0 <= (hi mod 4294967296) / 4096 < 2 ^ 20).
  { change (2 ^ 20) with 1048576. Z.div_mod_to_equations; lia. }
  set (k := sext ((hi mod 4294967296) / 4096) 20).
  assert (Hk : -524288 <= k < 524288).
  { subst k. unfold sext. change (2 ^ (20 - 1)) with 524288. change (2 ^ 20) with 1048576 in *.
    destruct (Z.ltb_spec (hi mod 4294967296 / 4096) 524288); lia. }
  rewrite generate_mkU_wide by lia.
  apply via_spec.
  - wf_regs.
  - reflexivity.
  - cbn [encode_spec]. rewrite enc_U_sum. subst k. rewrite usig_sext by lia. reflexivity.
Qed.

Lemma U_bridge x name rd imm g :
  In name b_U_INSTRUCTIONS -> 0 <= rd < 32 -> 0 <= imm ->
  U_ name rd imm = OK g -> exists k, decode x (generate g) = Some (Lui rd k) \/ decode x (generate g) = Some (Auipc rd k).
Proof.
  intros Hin Hd Hi H. pose proof U_table as T. unfold U_, u_instr in H.
  cbn [In b_U_INSTRUCTIONS] in Hin.
  destruct (lookup_info base_table "lui") as [l|] eqn:El; [|discriminate].
  destruct (lookup_info base_table "auipc") as [a|] eqn:Ea; [|discriminate].
  destruct (lookup_info base_table "jal") as [j|]; [|discriminate].
  repeat (apply andb_prop in T; destruct T as [T ?]).
  repeat match goal with Hx : (_ =? _) = true |- _ => apply Z.eqb_eq in Hx end.
  destruct Hin as [<-|[<-|[]]].
  - rewrite Ea in H. cbn [of_opt] in H. inversion H; subst g.
    match goal with Hx : ii_opcode a = 23 |- _ => rewrite Hx end.
    eexists. right. apply decode_auipc_wide; assumption.
  - rewrite El in H. cbn [of_opt] in H. inversion H; subst g. rewrite T.
    eexists. left. apply decode_lui_wide; assumption.
Qed.
