(* LogParse.v — model of toccata/parser.py over ASCII text files:
   DumpParser.parse_dump / extract_from_dump, LogParser.parse_core_log,
   RocketLogParser / CVA6LogParser.extract_from_core_log.
   Python's unbound-variable and exception semantics are kept explicit:
   every function returns  Ret value | Raise exception-class.
   The regular expressions are modelled by hand-written scanners (their
   leftmost / greedy / lazy semantics is spelled out at each scanner) and tied
   to Python's `re` by the parsers correspondence. *)
From Coq Require Import ZArith List String Ascii Bool.
Import ListNotations.
Open Scope Z_scope.

Definition str := list ascii.

Inductive exn :=
| XMissingAddress | XMissingCycle | XEnvironment | XValueError | XKeyError | XUnboundLocal.

Inductive pres (A : Type) := Ret (a : A) | Raise (e : exn).
Arguments Ret {A} a.
Arguments Raise {A} e.

Definition code (c : ascii) : Z := Z.of_N (N_of_ascii c).
Definition chr (z : Z) : ascii := ascii_of_N (Z.to_N z).
Definition lit (s : string) : str := list_ascii_of_string s.

(* ------------------------------------------------------ character classes *)
Definition is_digit (c : ascii) : bool := let k := code c in (48 <=? k) && (k <=? 57).
Definition is_hex (c : ascii) : bool :=
  let k := code c in
  ((48 <=? k) && (k <=? 57)) || ((97 <=? k) && (k <=? 102)) || ((65 <=? k) && (k <=? 70)).
Definition is_word (c : ascii) : bool :=       (* \w on ASCII *)
  let k := code c in
  ((48 <=? k) && (k <=? 57)) || ((97 <=? k) && (k <=? 122)) || ((65 <=? k) && (k <=? 90)) || (k =? 95).
Definition is_space (c : ascii) : bool :=      (* \s and str.isspace on ASCII *)
  let k := code c in ((9 <=? k) && (k <=? 13)) || ((28 <=? k) && (k <=? 32)).
Definition is_nl (c : ascii) : bool := code c =? 10.

(* ------------------------------------------------------------- list utils *)
Fixpoint span (p : ascii -> bool) (s : str) : str * str :=     (* maximal prefix satisfying p *)
  match s with
  | c :: tl => if p c then let '(a, b) := span p tl in (c :: a, b) else ([], s)
  | [] => ([], [])
  end.

Fixpoint prefix (p s : str) : option str :=       (* s = p ++ rest -> Some rest *)
  match p, s with
  | [], _ => Some s
  | a :: pt, b :: st => if Ascii.eqb a b then prefix pt st else None
  | _ :: _, [] => None
  end.

Fixpoint find_sub (p s : str) : option (str * str) :=    (* first occurrence: (before, after) *)
  match prefix p s with
  | Some rest => Some ([], rest)
  | None =>
      match s with
      | [] => None
      | c :: tl => match find_sub p tl with Some (b, a) => Some (c :: b, a) | None => None end
      end
  end.

Definition contains (p s : str) : bool := match find_sub p s with Some _ => true | None => false end.

(* trailing maximal run of chars satisfying p *)
Definition rspan (p : ascii -> bool) (s : str) : str := rev (fst (span p (rev s))).

(* --------------------------------------------------------------- int(s, b) *)
Definition digit_val (c : ascii) : option Z :=
  let k := code c in
  if (48 <=? k) && (k <=? 57) then Some (k - 48)
  else if (97 <=? k) && (k <=? 122) then Some (k - 87)
  else if (65 <=? k) && (k <=? 90) then Some (k - 55)
  else None.

(* digits with single underscores strictly between digits; [lead] says whether
   an underscore is allowed at the current position (after a digit or prefix) *)
Fixpoint digits_val (base : Z) (s : str) (acc : Z) (prev_digit : bool) (any : bool) : option Z :=
  match s with
  | [] => if prev_digit && any then Some acc else None
  | c :: tl =>
      if code c =? 95 then (if prev_digit then digits_val base tl acc false any else None)
      else match digit_val c with
           | Some d => if d <? base then digits_val base tl (acc * base + d) true true else None
           | None => None
           end
  end.

Definition strip (s : str) : str :=
  let s1 := snd (span is_space s) in rev (snd (span is_space (rev s1))).

(* Python int(s, base) for base 10 or 16; None = ValueError *)
Definition py_int (base : Z) (s : str) : option Z :=
  let s := strip s in
  let '(neg, s) := match s with
                   | c :: tl => if code c =? 45 then (true, tl) else if code c =? 43 then (false, tl) else (false, s)
                   | [] => (false, s)
                   end in
  let body :=
    if base =? 16 then
      match s with
      | z :: x :: tl =>
          if (code z =? 48) && ((code x =? 120) || (code x =? 88))
          then digits_val 16 tl 0 true false        (* '0x_1f' is accepted *)
          else digits_val 16 s 0 false false
      | _ => digits_val 16 s 0 false false
      end
    else digits_val 10 s 0 false false in
  match body with Some v => Some (if neg then - v else v) | None => None end.

(* ------------------------------------------------------------- text lines *)
(* text mode, universal newlines: \r\n and lone \r become \n; iteration keeps
   the trailing \n of each line *)
Fixpoint universal_nl (s : str) : str :=
  match s with
  | c :: tl =>
      if code c =? 13 then
        match tl with
        | d :: tl' => if code d =? 10 then chr 10 :: universal_nl tl' else chr 10 :: universal_nl tl
        | [] => [chr 10]
        end
      else c :: universal_nl tl
  | [] => []
  end.

Fixpoint lines_aux (s : str) (cur : str) : list str :=     (* cur reversed *)
  match s with
  | [] => match cur with [] => [] | _ => [rev cur] end
  | c :: tl => if is_nl c then rev (c :: cur) :: lines_aux tl [] else lines_aux tl (c :: cur)
  end.
Definition lines_of (s : str) : list str := lines_aux (universal_nl s) [].

Definition no_nl (line : str) : str := fst (span (fun c => negb (is_nl c)) line).   (* what '.' can cross *)

(* ------------------------------------------------------------ dump scanner *)
(* re.search(r'(\w* ) <label>:', line).group(1): the maximal \w run that ends
   at the FIRST occurrence of " <label>:" *)
Definition search_label (label : str) (line : str) : option str :=
  match find_sub label line with
  | Some (before, _) => Some (rspan is_word before)
  | None => None
  end.

Definition split_colon_first (line : str) : str := fst (span (fun c => negb (code c =? 58)) line).

Record dump_state := mk_ds { ds_start : Z; ds_end : Z; ds_ret : Z; ds_in : bool }.

Definition start_label := lit " <gigue_int_start>:".
Definition end_label := lit " <main>:".
Definition ret_word := lit "ret".

Definition of_int (o : option Z) : pres Z := match o with Some v => Ret v | None => Raise XValueError end.

Definition dump_line (st : dump_state) (line : str) : pres dump_state :=
  let r1 := match search_label start_label line with
            | Some g => match py_int 16 g with
                        | Some v => Ret (mk_ds v (ds_end st) (ds_ret st) true)
                        | None => Raise XValueError
                        end
            | None => Ret st
            end in
  match r1 with
  | Raise e => Raise e
  | Ret st1 =>
      let r2 := match search_label end_label line with
                | Some g => match py_int 16 g with
                            | Some v => Ret (mk_ds (ds_start st1) (v - 4) (ds_ret st1) false)
                            | None => Raise XValueError
                            end
                | None => Ret st1
                end in
      match r2 with
      | Raise e => Raise e
      | Ret st2 =>
          if ds_in st2 && contains ret_word line then
            match py_int 16 (split_colon_first line) with
            | Some v => Ret (mk_ds (ds_start st2) (ds_end st2) v false)
            | None => Raise XValueError
            end
          else Ret st2
      end
  end.

Fixpoint dump_lines (st : dump_state) (ls : list str) : pres dump_state :=
  match ls with
  | [] => Ret st
  | l :: tl => match dump_line st l with Ret st' => dump_lines st' tl | Raise e => Raise e end
  end.

Inductive file := FAbsent | FNotText | FText (content : str).

(* (start, ret, end) *)
Definition extract_from_dump (f : file) : pres (Z * Z * Z) :=
  match f with
  | FAbsent => Raise XEnvironment
  | FNotText => Raise XValueError              (* UnicodeDecodeError *)
  | FText s =>
      match dump_lines (mk_ds (-1) (-1) (-1) false) (lines_of s) with
      | Raise e => Raise e
      | Ret st =>
          if ds_start st =? -1 then Raise XMissingAddress
          else if ds_end st =? -1 then Raise XMissingAddress
          else if ds_ret st =? -1 then Raise XMissingAddress
          else Ret (ds_start st, ds_ret st, ds_end st)
      end
  end.

Record dump_data := mk_dd { dd_ok : Z; dd_start : Z; dd_end : Z; dd_ret : Z; dd_bin_size : Z }.

(* DumpParser.parse_dump: the except clause catches MissingAddressException,
   EnvironmentError and ValueError; the default record is bound before the try *)
Definition parse_dump (f : file) : pres dump_data :=
  match extract_from_dump f with
  | Ret (s, r, e) => Ret (mk_dd 1 s e r 0)
  | Raise XMissingAddress | Raise XEnvironment | Raise XValueError => Ret (mk_dd 0 0 0 0 0)
  | Raise e => Raise e
  end.

(* ------------------------------------------------------------ log scanners *)
(* one matched log line: cycle, pc, mnemonic *)
Definition event := (Z * Z * str)%type.

(* after 'inst=[' : lazy  .*?\] (\w* )  — first "] " then maximal \w run *)
Definition after_inst (rest : str) : option str :=
  match find_sub (lit "] ") rest with
  | Some (_, a) => Some (fst (span is_word a))
  | None => None
  end.

(* greedy  .*inst=\[  — the LAST occurrence of 'inst=[' that still allows the tail *)
Fixpoint last_inst (rest : str) : option str :=
  match rest with
  | [] => None
  | c :: tl =>
      match last_inst tl with
      | Some m => Some m
      | None => match prefix (lit "inst=[") rest with
                | Some a => after_inst a
                | None => None
                end
      end
  end.

(* the Rocket regex anchored at one position *)
Definition rocket_at (s : str) : option event :=
  match prefix (lit "C0:") s with
  | None => None
  | Some s1 =>
      let s2 := snd (span is_space s1) in
      let '(d, s3) := span is_digit s2 in
      match d with
      | [] => None
      | _ =>
          match prefix (lit " [1] pc=[") s3 with
          | None => None
          | Some s4 =>
              let '(h, s5) := span is_hex s4 in
              match h with
              | [] => None
              | _ =>
                  match prefix (lit "]") s5 with
                  | None => None
                  | Some s6 =>
                      match last_inst (no_nl s6) with
                      | Some m =>
                          match py_int 10 d, py_int 16 h with
                          | Some cy, Some pcv => Some (cy, pcv, m)
                          | _, _ => None
                          end
                      | None => None
                      end
                  end
              end
          end
      end
  end.

(* re.search: leftmost position at which the anchored match succeeds.  The
   \s* after 'C0:' may cross a newline only if the line had one, which only
   occurs at its end, so lines are scanned whole. *)
Fixpoint rocket_match (s : str) : option event :=
  match rocket_at s with
  | Some e => Some e
  | None => match s with [] => None | _ :: tl => rocket_match tl end
  end.

(* greedy  .* \) (\w* )  — the LAST ") " *)
Fixpoint last_paren (rest : str) : option str :=
  match rest with
  | [] => None
  | c :: tl =>
      match last_paren tl with
      | Some m => Some m
      | None => match prefix (lit ") ") rest with
                | Some a => Some (fst (span is_word a))
                | None => None
                end
      end
  end.

Definition cva6_match (line : str) : option event :=
  let s1 := snd (span is_space line) in
  let '(d, s2) := span is_digit s1 in
  match d with
  | [] => None
  | _ =>
      match prefix (lit " 0x") s2 with
      | None => None
      | Some s3 =>
          let '(h, s4) := span is_hex s3 in
          match h with
          | [] => None
          | _ =>
              match last_paren (no_nl s4) with
              | Some m =>
                  match py_int 10 d, py_int 16 h with
                  | Some cy, Some pcv => Some (cy, pcv, m)
                  | _, _ => None
                  end
              | None => None
              end
          end
      end
  end.

(* -------------------------------------------------------- window extraction *)
Record log_state := mk_ls { ls_start : Z; ls_end : Z; ls_in : bool; ls_exec : list str (* reversed *);
                            ls_done : bool }.

Definition log_event (start_address ret_address : Z) (st : log_state) (ev : event) : log_state :=
  let '(cy, pcv, m) := ev in
  let st1 := if pcv =? start_address then mk_ls cy (ls_end st) true (ls_exec st) false else st in
  if pcv =? ret_address then mk_ls (ls_start st1) cy false (ls_exec st1) true
  else if ls_in st1 then mk_ls (ls_start st1) (ls_end st1) true (m :: ls_exec st1) false
  else st1.

(* the for loop over lines, with its `break` *)
Fixpoint log_lines (matcher : str -> option event) (sa ra : Z) (st : log_state) (ls : list str) : log_state :=
  match ls with
  | [] => st
  | l :: tl =>
      match matcher l with
      | Some ev =>
          let st' := log_event sa ra st ev in
          if ls_done st' then st' else log_lines matcher sa ra st' tl
      | None => log_lines matcher sa ra st tl
      end
  end.

Definition last_token (line : str) : str :=      (* line.split(' ')[-1] *)
  rspan (fun c => negb (code c =? 32)) line.

(* (seed, start_cycle, end_cycle, executed) *)
Definition log_parsing := (Z * Z * Z * list str)%type.

Definition finish_log (seed : Z) (st : log_state) : pres log_parsing :=
  if ls_start st =? -1 then Raise XMissingCycle
  else if ls_end st =? -1 then Raise XMissingCycle
  else Ret (seed, ls_start st, ls_end st, rev (ls_exec st)).

Definition init_ls := mk_ls (-1) (-1) false [] false.

Definition rocket_extract (sa ra : Z) (f : file) : pres log_parsing :=
  match f with
  | FAbsent => Raise XEnvironment
  | FNotText => Raise XValueError
  | FText s =>
      let ls := lines_of s in
      match ls with
      | [] => finish_log (-1) init_ls
      | first :: _ =>
          match py_int 10 (last_token first) with
          | None => Raise XValueError
          | Some seed => finish_log seed (log_lines rocket_match sa ra init_ls ls)
          end
      end
  end.

Definition cva6_extract (sa ra : Z) (f : file) : pres log_parsing :=
  match f with
  | FAbsent => Raise XEnvironment
  | FNotText => Raise XValueError
  | FText s => finish_log 0 (log_lines cva6_match sa ra init_ls (lines_of s))
  end.

(* -------------------------------------------------------------- histograms *)
Definition info_table := list (string * (string * string)).    (* key -> (type, class) *)

Fixpoint table_get (t : info_table) (k : string) : option (string * string) :=
  match t with
  | [] => None
  | (k', v) :: tl => if String.eqb k' k then Some v else table_get tl k
  end.

Definition hist := list (string * Z).

Fixpoint hist_add (h : hist) (k : string) : hist :=          (* Counter increment, insertion order *)
  match h with
  | [] => [(k, 1)]
  | (k', v) :: tl => if String.eqb k' k then (k', v + 1) :: tl else (k', v) :: hist_add tl k
  end.

Fixpoint hist_set (h : hist) (k : string) (v : Z) : hist :=  (* dict[key] = val *)
  match h with
  | [] => [(k, v)]
  | (k', v') :: tl => if String.eqb k' k then (k', v) :: tl else (k', v') :: hist_set tl k v
  end.

Definition counter (l : list string) : hist := fold_left hist_add l [].
Definition merge_counts (defaults : hist) (c : hist) : hist :=
  fold_left (fun h kv => hist_set h (fst kv) (snd kv)) c defaults.
Definition hist_sum (h : hist) : Z := fold_right (fun kv a => snd kv + a) 0 h.

Record emu_data := mk_emu {
  e_emulation_ok : Z; e_seed : Z; e_start_cycle : Z; e_end_cycle : Z; e_nb_cycles : Z;
  e_tracing_ok : Z; e_instrs_nb : Z; e_instrs_type : hist; e_instrs_class : hist
}.

Definition zero_hist (keys : list string) : hist := map (fun k => (k, 0)) keys.

Definition all_known (t : info_table) (l : list str) : bool :=
  forallb (fun m => match table_get t (string_of_list_ascii m) with Some _ => true | None => false end) l.

(* LogParser.parse_core_log (repaired form: defaults bound before the try,
   ValueError caught, histograms only when every mnemonic is classifiable) *)
Definition parse_core_log (extract : pres log_parsing) (t : info_table) (type_keys class_keys : list string)
  : pres emu_data :=
  let defaults := (0, 0, 0, ([] : list str)) in
  let '(ok, parsed, err) :=
    match extract with
    | Ret p => (1, p, None)
    | Raise XMissingCycle | Raise XEnvironment | Raise XValueError => (0, defaults, None)
    | Raise e => (0, defaults, Some e)
    end in
  match err with
  | Some e => Raise e
  | None =>
      let '(seed, sc, ec, logged) := parsed in
      if (ok =? 1) && all_known t logged then
        let names := map string_of_list_ascii logged in
        let types := map (fun n => match table_get t n with Some (ty, _) => ty | None => EmptyString end) names in
        let classes := map (fun n => match table_get t n with Some (_, cl) => cl | None => EmptyString end) names in
        Ret (mk_emu ok seed sc ec (ec - sc) 1 (Z.of_nat (List.length logged))
               (merge_counts (zero_hist type_keys) (counter types))
               (merge_counts (zero_hist class_keys) (counter classes)))
      else
        Ret (mk_emu ok seed sc ec (ec - sc) 0 0 (zero_hist type_keys) (zero_hist class_keys))
  end.
