(* BuilderTies.v — the hand-written builder model, at the parameters the
   generators use, equals the fragments DUMPED from /repo on this run
   (instruction objects and words).  Proved by computation: model drift in a
   parametric builder function is a build failure. *)
From Coq Require Import ZArith List String Bool.
From Gigue Require Import Types Bits Enc GenTables Builder.
Import ListNotations.
Open Scope Z_scope.

Definition gi_eqb (a b : gi) : bool :=
  match a, b with
  | GR n o f3 f7 rd r1 r2, GR n' o' f3' f7' rd' r1' r2' =>
      String.eqb n n' && (o =? o') && (f3 =? f3') && (f7 =? f7') && (rd =? rd') && (r1 =? r1') && (r2 =? r2')
  | GI n o f3 f7 rd r1 im, GI n' o' f3' f7' rd' r1' im' =>
      String.eqb n n' && (o =? o') && (f3 =? f3') && (f7 =? f7') && (rd =? rd') && (r1 =? r1') && (im =? im')
  | GU n o rd im, GU n' o' rd' im' => String.eqb n n' && (o =? o') && (rd =? rd') && (im =? im')
  | GJ n o rd im, GJ n' o' rd' im' => String.eqb n n' && (o =? o') && (rd =? rd') && (im =? im')
  | GS n o f3 r1 r2 im, GS n' o' f3' r1' r2' im' =>
      String.eqb n n' && (o =? o') && (f3 =? f3') && (r1 =? r1') && (r2 =? r2') && (im =? im')
  | GB n o f3 r1 r2 im, GB n' o' f3' r1' r2' im' =>
      String.eqb n n' && (o =? o') && (f3 =? f3') && (r1 =? r1') && (r2 =? r2') && (im =? im')
  | _, _ => false
  end.

Fixpoint frag_matches (model : list gi) (f : fragment) : bool :=
  match model, f with
  | [], [] => true
  | g :: mt, (g', w) :: ft => gi_eqb g g' && (generate g =? w) && frag_matches mt ft
  | _, _ => false
  end.

Definition tie (r : res (list gi)) (f : fragment) : bool :=
  match r with OK l => frag_matches l f | Err _ => false end.

Definition ties_for (b : bvariant) (uses_tramp : bool)
  (pro_leaf pro_call epi_leaf epi_call int_pro int_epi tcall tret nop ret : fragment) : bool :=
  tie (build_prologue b m_used_s_regs m_local_vars_nb false) pro_leaf
  && tie (build_prologue b m_used_s_regs m_local_vars_nb true) pro_call
  && tie (build_epilogue b m_used_s_regs m_local_vars_nb false) epi_leaf
  && tie (build_epilogue b m_used_s_regs m_local_vars_nb true) epi_call
  && tie (base_prologue 10 0 true) int_pro
  && tie (base_epilogue 10 0 true) int_epi
  && (if uses_tramp then tie (build_call_jit_elt_trampoline b) tcall
                         && tie (build_ret_from_jit_elt_trampoline b) tret
      else match tcall, tret with [], [] => true | _, _ => false end)
  && tie (sequence [nop_]) nop && tie (sequence [ret_]) ret.

Lemma fragment_ties :
  ties_for BBase false f_base_pro_leaf f_base_pro_call f_base_epi_leaf f_base_epi_call f_base_int_pro
           f_base_int_epi f_base_tramp_call f_base_tramp_ret f_base_nop f_base_ret
  && ties_for BBase true f_tramp_pro_leaf f_tramp_pro_call f_tramp_epi_leaf f_tramp_epi_call f_tramp_int_pro
           f_tramp_int_epi f_tramp_tramp_call f_tramp_tramp_ret f_tramp_nop f_tramp_ret
  && ties_for BRimiSS true f_rimiss_pro_leaf f_rimiss_pro_call f_rimiss_epi_leaf f_rimiss_epi_call
           f_rimiss_int_pro f_rimiss_int_epi f_rimiss_tramp_call f_rimiss_tramp_ret f_rimiss_nop f_rimiss_ret
  && ties_for BRimiFull true f_rimifull_pro_leaf f_rimifull_pro_call f_rimifull_epi_leaf f_rimifull_epi_call
           f_rimifull_int_pro f_rimifull_int_epi f_rimifull_tramp_call f_rimifull_tramp_ret f_rimifull_nop
           f_rimifull_ret
  && ties_for BFixer true f_fixer_pro_leaf f_fixer_pro_call f_fixer_epi_leaf f_fixer_epi_call f_fixer_int_pro
           f_fixer_int_epi f_fixer_tramp_call f_fixer_tramp_ret f_fixer_nop f_fixer_ret
  = true.
Proof. vm_compute. reflexivity. Qed.
