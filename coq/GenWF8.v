(* GenWF8.v — Layer B, call edges: every call site of every method of every
   image (non-FIXER variants), executed by the machine from the emitted words
   in place, transfers control in two steps to the recorded address of its
   callee with ra just past the stub and nothing else changed. *)
From Coq Require Import ZArith List String Bool Lia.
From Gigue Require Import Types Bits Isa IsaProofs Enc EncProofs GenTables Builder Samplers Generator GenLemmas
  Machine MachineLemmas ImageSem GenWF GenWFProps SliceLemmas GenWF2 GenWF3 GenWF2Props SplitProofs
  BodyExec BodyBridge GenWF5 FrameExec CodeMem SwitchExec GenWF6.
Import ListNotations.
Open Scope list_scope.
Open Scope Z_scope.

Theorem method_base_call_reaches_x x v L s A off :
  in_pair_range off -> 8 <= Z.abs off -> (A + off) mod 2 = 0 -> pc s = A ->
  exists stub k j,
    build_method_base_call off = OK stub /\ List.length stub = 2%nat /\
    decode_all x stub = Some [Auipc 1 k; Jalr 1 1 j] /\
    exists s', exec_at v L A [Auipc 1 k; Jalr 1 1 j] s = Next s' /\
    call_effect s s' (u64 (A + off)) (u64 (A + 8)) /\ cfi s' = cfi s /\
    (forall r, 0 <= r -> r <> 1 -> rget s' r = rget s r).
Proof.
  intros Hr Hmin Hev Hpc.
  unfold build_method_base_call. rewrite split_offset_spec.
  destruct (Z.ltb_spec (Z.abs off) 8); [lia|].
  pose proof (split_lo_range off) as Hlo. pose proof (split_hi_range off) as Hhi.
  cbn. unfold c_RA, c_X0 in *.
  eexists. eexists. eexists. split; [reflexivity|]. split; [reflexivity|].
  unfold decode_all. cbn [fold_right].
  rewrite decode_auipc_wide by lia. rewrite decode_jalr_any by lia.
  split; [reflexivity|].
  rewrite Hpc, !Z.eqb_refl. eexists. split; [reflexivity|].
  split; [constructor|split].
  - fields_simpl. regs_simpl. rewrite pair_sum by assumption. apply jalr_target. assumption.
  - regs_simpl. f_equal. lia.
  - fields_simpl. reflexivity.
  - fields_simpl. reflexivity.
  - fields_simpl. reflexivity.
  - intros r Hr0 Hne. regs_simpl. reflexivity.
Qed.

Lemma base_call_min off stub : build_method_base_call off = OK stub -> 8 <= Z.abs off.
Proof.
  intros H. destruct (Z_lt_le_dec (Z.abs off) 8) as [Hlt|]; [|assumption].
  unfold build_method_base_call in H. rewrite (split_rejects off 8 Hlt) in H. discriminate.
Qed.

Lemma map_window {A B} (f : A -> B) (l : list A) i n : map f (window l i n) = window (map f l) i n.
Proof. unfold window. rewrite <- firstn_map, <- skipn_map. reflexivity. Qed.

Lemma code_at_window m A ws i n :
  code_at m A ws -> code_at m (A + 4 * Z.of_nat i) (window ws i n).
Proof. intros H. unfold window. apply code_at_firstn. apply code_at_skip. exact H. Qed.

Lemma no_domsw_call is : (exists a b c d, is = [Auipc a b; Jalr c 1 d]) -> forallb (fun i => negb (is_domsw i)) is = true.
Proof. intros (a & b & c & d & ->). reflexivity. Qed.

Theorem call_sites_run c script img :
  successful c script img -> non_fixer (c_variant c) ->
  Forall (fun m => forall i cal, site_ok c (im_methods img) m i cal ->
    exists cm, nth_error (im_methods img) cal = Some cm /\
      forall L s,
        let A := m_addr m + i * 4 in
        regions_ok L -> 0 <= i ->
        code_at (mem s) (m_addr m) (map generate (m_instrs m)) ->
        pc s = A -> A mod 4 = 0 -> code_lo L <= A -> A + 8 <= code_hi L ->
        (halt_at L < A \/ A + 8 <= halt_at L) ->
        side_ok (gv c) L A 2 (dom s) ->
        in_pair_range (m_addr cm - A) -> m_addr cm mod 2 = 0 -> 0 <= m_addr cm < W64 -> A + 8 < W64 -> 0 <= A ->
        exists s', run (gv c) L 2 s = (Next s', 2%nat) /\
          pc s' = m_addr cm /\ rget s' 1 = A + 8 /\ mem s' = mem s /\ dom s' = dom s /\ cfi s' = cfi s /\
          (forall r, 0 <= r -> r <> 1 -> rget s' r = rget s r))
    (im_methods img).
Proof.
  intros Hs Hv. apply Forall_forall. intros m Hm i cal (cm & stub & Hn & Hstub & Hwin & Hb1 & Hb2).
  exists cm. split; [exact Hn|].
  intros L s A RO Hi0 Hcode Hpc Hal Hlo Hhi Hhalt Hside Hrange Hev Hcm HA8 HA0.
  assert (Hbase : build_method_base_call (m_addr cm - A) = OK stub).
  { unfold method_base_call in Hstub. destruct Hv as [E|[E|[E|E]]]; rewrite E in Hstub; cbn [bvariant_of] in Hstub; exact Hstub. }
  pose proof (base_call_min _ _ Hbase) as Hmin.
  destruct (method_base_call_reaches_x (variant_ext (gv c)) (gv c) L s A (m_addr cm - A) Hrange Hmin
              ltac:(replace (A + (m_addr cm - A)) with (m_addr cm) by lia; exact Hev) Hpc)
    as (stub' & kk & jj & Hb' & Hl & Hdec & s' & Ex & [Cpc Cra Cmem Cdom] & Ccfi & Creg).
  rewrite Hbase in Hb'. inversion Hb'; subst stub'.
  exists s'. replace (A + (m_addr cm - A)) with (m_addr cm) in Cpc by lia.
  split; [|rewrite Cpc, Cra, (u64_small (m_addr cm)), (u64_small (A + 8)) by lia; auto 10].
  assert (Hws : code_at (mem s) A (map generate stub)).
  { rewrite <- Hwin, map_window. unfold A. replace (i * 4) with (4 * Z.of_nat (Z.to_nat i)) by lia.
    apply code_at_window. exact Hcode. }
  change 2%nat with (List.length [Auipc 1 kk; Jalr 1 1 jj]).
  apply (run_block (gv c) L [Auipc 1 kk; Jalr 1 1 jj] (map generate stub) A s s' RO); try assumption.
  - apply Forall2_map_generate. apply decode_all_Forall2. exact Hdec.
  - reflexivity.
  - rewrite map_length, Hl. lia.
  - rewrite map_length, Hl. lia.
  - rewrite map_length, Hl. exact Hside.
Qed.
