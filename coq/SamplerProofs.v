(* SamplerProofs.v — the samplers are what the documentation says (C15). *)
From Coq Require Import ZArith List Bool Lia SpecFloat.
From Gigue Require Import Samplers.
Import ListNotations.
Open Scope Z_scope.

(* ---------------------------------------------------- truncated normal *)
Definition in_bounds (lo hi x : fl) : bool := fle lo x && fle x hi.

(* the loop returns the FIRST draw inside the bounds, UNCHANGED; every
   earlier draw is out of bounds (re-drawn, never clamped) *)
Theorem trunc_norm_first lo hi draws x rest :
  trunc_norm lo hi draws = Some (x, rest) ->
  exists pre, draws = pre ++ x :: rest /\ in_bounds lo hi x = true /\
              Forall (fun d => in_bounds lo hi d = false) pre.
Proof.
  revert x rest. induction draws as [|d tl IH]; intros x rest; cbn [trunc_norm]; [discriminate|].
  destruct (fle lo d && fle d hi) eqn:E.
  - intros H; inversion H; subst. exists []. repeat split; [exact E|constructor].
  - intros H. destruct (IH _ _ H) as (pre & -> & Hb & Hp).
    exists (d :: pre). repeat split; [exact Hb|constructor; [exact E|exact Hp]].
Qed.

Theorem trunc_norm_total lo hi draws :
  Exists (fun d => in_bounds lo hi d = true) draws -> exists x rest, trunc_norm lo hi draws = Some (x, rest).
Proof.
  induction draws as [|d tl IH]; intros H; [inversion H|]. cbn [trunc_norm].
  destruct (fle lo d && fle d hi) eqn:E; [eauto|].
  apply IH. inversion H as [? ? Hd|? ? Ht]; subst; [unfold in_bounds in Hd; congruence|exact Ht].
Qed.

(* ------------------------------------------------- inverse-CDF samplers *)
Fixpoint iter (lam : Z) (n : nat) (st : pstate) : pstate :=
  match n with O => st | S k => iter lam k (pstep lam st) end.

Lemma iter_x lam n : forall st, ps_x (iter lam n st) = ps_x st + Z.of_nat n.
Proof.
  induction n as [|k IH]; intros st; cbn [iter]; [lia|].
  rewrite IH. cbn [pstep ps_x]. lia.
Qed.

Lemma iter_S lam n st : iter lam (S n) st = pstep lam (iter lam n st).
Proof. revert st. induction n as [|k IH]; intros st; [reflexivity|]. cbn [iter] in *. apply IH. Qed.

(* The sampler returns k  iff  k is the FIRST index whose partial sum S_k (as
   computed: S_0 = p_0, p_i = p_{i-1} * (lambda / i), S_i = S_{i-1} + p_i in
   binary64) is not below the single uniform draw u:  u <= S_k and u > S_j for
   all j < k — the exact inverse of the computed CDF, from one uniform. *)
Theorem poisson_loop_inverse fuel lam u : forall st k,
  poisson_loop fuel lam u st = Some k ->
  exists n, (n <= fuel)%nat /\ k = ps_x st + Z.of_nat n /\
            flt (ps_s (iter lam n st)) u = false /\
            forall j, (j < n)%nat -> flt (ps_s (iter lam j st)) u = true.
Proof.
  induction fuel as [|f IH]; intros st k; cbn [poisson_loop].
  - destruct (flt (ps_s st) u) eqn:E; [discriminate|].
    intros H; inversion H; subst. exists O. repeat split; [lia|cbn; lia|exact E|intros j Hj; lia].
  - destruct (flt (ps_s st) u) eqn:E.
    + intros H. destruct (IH _ _ H) as (n & Hn & Hk & Hs & Hj).
      exists (S n). repeat split; [lia| |exact Hs|].
      * rewrite Hk. cbn [pstep ps_x]. lia.
      * intros j Hlt. destruct j as [|j]; [exact E|]. cbn [iter]. apply Hj. lia.
    + intros H; inversion H; subst. exists O. repeat split; [lia|cbn; lia|exact E|intros j Hj; lia].
Qed.

(* no fuel exhaustion when the search can stop within the fuel *)
Theorem poisson_loop_terminates fuel lam u : forall st,
  (exists n, (n <= fuel)%nat /\ flt (ps_s (iter lam n st)) u = false) ->
  poisson_loop fuel lam u st <> None.
Proof.
  induction fuel as [|f IH]; intros st (n & Hn & Hs); cbn [poisson_loop].
  - assert (n = O) by lia. subst n. cbn [iter] in Hs. rewrite Hs. discriminate.
  - destruct (flt (ps_s st) u) eqn:E; [|discriminate].
    apply IH. destruct n as [|n]; [cbn [iter] in Hs; congruence|].
    exists n. split; [lia|exact Hs].
Qed.

Lemma poisson_loop_mono fuel lam u : forall st k m,
  poisson_loop fuel lam u st = Some k -> poisson_loop (fuel + m) lam u st = Some k.
Proof.
  induction fuel as [|f IH]; intros st k m; cbn [poisson_loop].
  - destruct (flt (ps_s st) u) eqn:E; [discriminate|]. intros H.
    destruct m; cbn [plus poisson_loop]; rewrite E; exact H.
  - destruct (flt (ps_s st) u) eqn:E.
    + intros H. cbn [plus poisson_loop]. rewrite E. apply IH. exact H.
    + intros H. cbn [plus poisson_loop]. rewrite E. exact H.
Qed.

(* ---- totality is FALSE (known finding F5) ---- *)
Definition exp_m4 : fl := S754_finite false 5279123486358772 (-58).     (* math.exp(-4) *)
Definition exp_m7 : fl := S754_finite false 8410626622007695 (-63).     (* math.exp(-7) *)
Definition u_top : fl := S754_finite false 9007199254740991 (-53).      (* 1 - 2^-53 *)

(* after 400 iterations the term p has underflowed to +0 while the partial
   sum is still below u ... *)
Lemma poisson4_stuck_state :
  ps_p (iter 4 400 (poisson_init exp_m4)) = S754_zero false /\
  flt (ps_s (iter 4 400 (poisson_init exp_m4))) u_top = true.
Proof. vm_compute. split; reflexivity. Qed.

(* ... and 30000 iterations later the search still has not stopped *)
Lemma poisson4_no_answer_30000 : generate_poisson 30000 4 exp_m4 u_top = None.
Proof. vm_compute. reflexivity. Qed.

Lemma ztp7_no_answer_30000 : generate_ztp 30000 7 exp_m7 u_top = None.
Proof. vm_compute. reflexivity. Qed.

(* Unbounded form, under the (unproved here, see DESIGN) fact that lambda / x
   never rounds to an infinity or NaN: once p = +-0 and S < u the state is a
   fixed point of the loop body up to x, so NO amount of fuel yields an answer. *)
Definition is_zero (x : fl) : bool := match x with S754_zero _ => true | _ => false end.
Definition quotient_tame (q : fl) : bool :=
  match q with S754_zero _ | S754_finite _ _ _ => true | _ => false end.

Lemma fmul_zero_tame p q : is_zero p = true -> quotient_tame q = true -> is_zero (fmul p q) = true.
Proof. destruct p; try discriminate. destruct q; try discriminate; reflexivity. Qed.

Lemma fadd_zero s p : is_zero p = true -> (exists b m e, s = S754_finite b m e) -> fadd s p = s.
Proof. intros Hp (b & m & e & ->). destruct p; try discriminate. reflexivity. Qed.

Theorem poisson_diverges_from_stuck lam u st :
  (forall x, 1 <= x -> quotient_tame (fdiv (of_Z lam) (of_Z x)) = true) ->
  0 <= ps_x st -> is_zero (ps_p st) = true -> (exists b m e, ps_s st = S754_finite b m e) ->
  flt (ps_s st) u = true ->
  forall fuel, poisson_loop fuel lam u st = None.
Proof.
  intros Hq Hx Hp Hs Hlt fuel. revert st Hx Hp Hs Hlt.
  induction fuel as [|f IH]; intros st Hx Hp Hs Hlt; cbn [poisson_loop]; rewrite Hlt; [reflexivity|].
  assert (Hp' : is_zero (ps_p (pstep lam st)) = true).
  { cbn [pstep ps_p]. apply fmul_zero_tame; [exact Hp|apply Hq; lia]. }
  assert (Es : ps_s (pstep lam st) = ps_s st).
  { cbn [pstep ps_s]. apply fadd_zero; [exact Hp'|exact Hs]. }
  apply IH.
  - cbn [pstep ps_x]. lia.
  - exact Hp'.
  - rewrite Es. exact Hs.
  - rewrite Es. exact Hlt.
Qed.

(* ------------------------------------------------ multiplying by 1.0 is exact *)
Definition one_m : positive := 4503599627370496.     (* 2^52 *)
Lemma fone_eq : fone = S754_finite false one_m (-52).
Proof. vm_compute. reflexivity. Qed.

Lemma shift52_digits m :
  Zpos (digits2_pos (Pos.mul one_m m)) = Zpos (digits2_pos m) + 52.
Proof.
  unfold one_m. cbn [Pos.mul digits2_pos]. rewrite !Pos2Z.inj_succ. lia.
Qed.

Lemma shr52 m :
  iter_pos shr_1 52 (Build_shr_record (Zpos (Pos.mul one_m m)) false false)
  = Build_shr_record (Zpos m) false false.
Proof. unfold one_m. cbn [Pos.mul]. reflexivity. Qed.

Theorem fmul_one_exact s m e :
  bounded prec emax m e = true -> fmul (S754_finite s m e) fone = S754_finite s m e.
Proof.
  intros Hb. unfold bounded in Hb. apply andb_prop in Hb. destruct Hb as [Hc He].
  unfold canonical_mantissa in Hc. apply Zeq_bool_eq in Hc.
  rewrite fone_eq. unfold fmul, SFmul. rewrite xorb_false_r.
  rewrite (Pos.mul_comm m one_m).
  unfold binary_round_aux, shr_fexp.
  unfold Zdigits2. rewrite shift52_digits.
  replace (Zpos (digits2_pos m) + 52 + (e + -52)) with (Zpos (digits2_pos m) + e) by lia.
  rewrite Hc. replace (e - (e + -52)) with 52 by lia.
  cbn [shr shr_record_of_loc]. rewrite shr52.
  cbn [shr_m loc_of_shr_record round_nearest_even].
  replace (e + -52 + 52) with e by lia.
  unfold Zdigits2. rewrite Hc. rewrite Z.sub_diag. cbn [shr shr_record_of_loc shr_m].
  rewrite He. reflexivity.
Qed.

(* the element-kind draw: CPython's choices algorithm on [1-r, r] *)
Definition valid_uniform (u : fl) : Prop :=          (* a finite u with 0 <= u < 1 *)
  u = S754_zero false \/ exists m e, u = S754_finite false m e /\ bounded prec emax m e = true /\ flt u fone = true.

Theorem ratio_zero_only_methods u : valid_uniform u -> kind_is_pic fzero u = false.
Proof.
  intros [->|(m & e & -> & Hb & Hlt)].
  - vm_compute. reflexivity.
  - unfold kind_is_pic.
    change (fsub fone fzero) with fone. change (fadd (fadd fone fzero) fzero) with fone.
    rewrite fmul_one_exact by exact Hb. rewrite Hlt. reflexivity.
Qed.

Theorem ratio_one_only_pics u : valid_uniform u -> kind_is_pic fone u = true.
Proof.
  intros [->|(m & e & -> & Hb & Hlt)].
  - vm_compute. reflexivity.
  - unfold kind_is_pic.
    change (fsub fone fone) with (S754_zero false).
    change (fadd (fadd (S754_zero false) fone) fzero) with fone.
    rewrite fmul_one_exact by exact Hb. reflexivity.
Qed.

Example valid_uniform_inhabited : valid_uniform u_top /\ valid_uniform fhalf.
Proof. split; right; do 2 eexists; (split; [reflexivity|split; vm_compute; reflexivity]). Qed.
