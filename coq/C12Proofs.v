(* C12Proofs.v — every constructor classmethod is faithful (C12Defs.ctor_faithful),
   re-proved against the regenerated tables on every run. *)
From Coq Require Import ZArith List String Bool Lia.
From Gigue Require Import Types Bits Isa IsaProofs Enc EncProofs GenTables C12Defs.
Import ListNotations.
Open Scope string_scope.
Open Scope Z_scope.

Arguments mkR : simpl never.
Arguments mkI : simpl never.
Arguments mkU : simpl never.
Arguments mkJ : simpl never.
Arguments mkS : simpl never.
Arguments mkB : simpl never.
Arguments mkRoCC : simpl never.
Arguments generate : simpl never.
Arguments generate_bytes : simpl never.
Arguments decode : simpl never.
Arguments wf : simpl never.
Arguments Z.land : simpl never.
Arguments Z.testbit : simpl never.
Arguments Z.div : simpl never.
Arguments Z.modulo : simpl never.
Arguments of_le_bytes32 : simpl never.

Lemma decode_range x w i : decode x w = Some i -> 0 <= w < 4294967296.
Proof.
  unfold decode. destruct (Z.leb_spec 0 w); destruct (Z.ltb_spec w 4294967296);
    cbn [andb]; intros; try discriminate; lia.
Qed.

(* finishing step shared by all constructors *)
Lemma finish x g i :
  decode x (generate g) = Some i ->
  decode x (generate g) = Some i /\ 0 <= generate g < 4294967296 /\
  of_le_bytes32 (generate_bytes g) = generate g.
Proof.
  intros H. pose proof (decode_range _ _ _ H). repeat split; try lia; try assumption.
  unfold generate_bytes. apply le_bytes32_inv. assumption.
Qed.

Lemma via_spec x w i : wf i = true -> ext_ok x i = true -> w = encode_spec i -> decode x w = Some i.
Proof. intros; subst; apply decode_encode_spec; assumption. Qed.

(* finite sweep lifted to an interval *)
Lemma sweep (P : Z -> bool) (n : nat) :
  forallb P (map Z.of_nat (seq 0 n)) = true -> forall z, 0 <= z < Z.of_nat n -> P z = true.
Proof.
  intros H z Hz. rewrite forallb_forall in H. apply H.
  apply in_map_iff. exists (Z.to_nat z). split; [lia|]. apply in_seq. lia.
Qed.

Lemma land47_id sh : 0 <= sh < 64 -> Z.testbit sh 4 = false -> Z.land sh 47 = sh.
Proof.
  intros H Hb.
  pose proof (sweep (fun z => Z.testbit z 4 || (Z.land z 47 =? z)) 64 eq_refl sh ltac:(lia)) as S.
  cbv beta in S. rewrite Hb in S. cbn [orb] in S. apply Z.eqb_eq. exact S.
Qed.

Lemma land31_id sh : 0 <= sh < 32 -> Z.land sh 31 = sh.
Proof. intros; rewrite land_31; apply Z.mod_small; lia. Qed.

Lemma usig_sext q n : 0 < n -> 0 <= q < 2 ^ n -> usig (sext q n) n = q.
Proof.
  intros Hn Hq. unfold usig, sext. destruct (Z.ltb_spec q (2 ^ (n - 1))).
  - apply Z.mod_small; lia.
  - rewrite <- (Z.mod_add (q - 2 ^ n) 1 (2 ^ n)) by lia.
    replace (q - 2 ^ n + 1 * 2 ^ n) with q by lia. apply Z.mod_small; lia.
Qed.

Ltac wfb :=
  repeat match goal with
  | H : _ && _ = true |- _ => apply andb_prop in H; destruct H
  | H : negb _ = true |- _ => apply negb_true_iff in H
  | H : isreg _ = true |- _ => unfold isreg in H
  | H : simm _ _ = true |- _ => unfold simm in H
  | H : (_ <=? _) = true |- _ => apply Z.leb_le in H
  | H : (_ <? _) = true |- _ => apply Z.ltb_lt in H
  | H : (_ =? _) = true |- _ => apply Z.eqb_eq in H
  end;
  change (2 ^ (12 - 1)) with 2048 in *; change (2 ^ (13 - 1)) with 4096 in *;
  change (2 ^ (20 - 1)) with 524288 in *; change (2 ^ (21 - 1)) with 1048576 in *.

(* destruct the argument list to the arity wf_args accepts, discarding the rest *)
Ltac arity H :=
  match type of H with
  | wf_args _ ?args = true =>
      destruct args as [|a1 [|a2 [|a3 [|a4 rest]]]]; try (exfalso; cbn in H; discriminate H)
  end.

Ltac start :=
  let args := fresh "args" in let H := fresh "Hwf" in
  intros args H; arity H;
  unfold wf_args in H; cbn in H;
  unfold apply_c; cbn.

Ltac close_with L :=
  wfb; eexists; eexists; split; [reflexivity|]; split; [reflexivity|];
  apply finish; apply via_spec; [assumption | reflexivity | L].

Ltac solve_R :=
  start; close_with ltac:(unfold wf in *; wfb; rewrite generate_mkR by lia; reflexivity).

Ltac solve_I :=
  start; close_with ltac:(unfold wf in *; wfb; rewrite generate_mkI by lia; reflexivity).

Ltac solve_S :=
  start; close_with ltac:(unfold wf in *; wfb; rewrite generate_mkS by lia; reflexivity).

Ltac solve_B :=
  start; close_with ltac:(unfold wf in *; wfb; rewrite generate_mkB by lia; reflexivity).

Ltac solve_J :=
  start; close_with ltac:(unfold wf in *; wfb; rewrite generate_mkJ by (cbn; lia); reflexivity).

Ltac solve_const :=
  start; eexists; eexists; split; [reflexivity|]; split; [reflexivity|];
  apply finish; vm_compute; reflexivity.

Lemma R_faithful : Forall ctor_faithful (map (fun n => ("RInstruction", n)) r_ctor_names).
Proof. repeat constructor; solve_R. Qed.

Lemma I_plain_faithful : Forall ctor_faithful (map (fun n => ("IInstruction", n)) i_plain_names).
Proof. repeat constructor; solve_I. Qed.

Lemma S_faithful : Forall ctor_faithful (map (fun n => ("SInstruction", n)) s_ctor_names).
Proof. repeat constructor; solve_S. Qed.

Lemma B_faithful : Forall ctor_faithful (map (fun n => ("BInstruction", n)) b_ctor_names).
Proof. repeat constructor; solve_B. Qed.

Lemma RIMI_I_faithful : Forall ctor_faithful (map (fun n => ("RIMIIInstruction", n)) rimi_i_names).
Proof. repeat constructor; solve_I. Qed.

Lemma RIMI_S_faithful : Forall ctor_faithful (map (fun n => ("RIMISInstruction", n)) rimi_s_names).
Proof. repeat constructor; solve_S. Qed.

Lemma const_faithful :
  Forall ctor_faithful [("IInstruction", "ret"); ("IInstruction", "nop"); ("IInstruction", "ebreak");
                        ("IInstruction", "ecall"); ("RIMIIInstruction", "retdom")].
Proof. repeat constructor; solve_const. Qed.

Lemma jr_faithful : ctor_faithful ("IInstruction", "jr").
Proof. solve_I. Qed.

Lemma J_faithful : Forall ctor_faithful [("JInstruction", "jal"); ("JInstruction", "j")].
Proof. repeat constructor; solve_J. Qed.

Ltac solve_shift :=
  start; wfb; eexists; eexists; split; [reflexivity|]; split; [reflexivity|];
  apply finish; apply via_spec; [assumption | reflexivity |];
  unfold wf in *; cbn [is_w_shift] in *; wfb;
  first [ rewrite land47_id by (assumption || lia) | rewrite land31_id by lia ];
  rewrite generate_mkI_shift by (try lia; auto); reflexivity.

Lemma shift_faithful :
  Forall ctor_faithful (map (fun n => ("IInstruction", n)) ["slli"; "srli"; "srai"; "slliw"; "srliw"; "sraiw"]).
Proof. repeat constructor; solve_shift. Qed.

Lemma generate_mkRoCC name xd xs1 xs2 op rd rs1 rs2 f7 :
  0 <= xd < 2 -> 0 <= xs1 < 2 -> 0 <= xs2 < 2 -> 0 <= op < 128 ->
  0 <= rd < 32 -> 0 <= rs1 < 32 -> 0 <= rs2 < 32 -> 0 <= f7 < 128 ->
  generate (mkRoCC name xd xs1 xs2 op rd rs1 rs2 f7) = mkword op rd (4 * xd + 2 * xs1 + xs2) rs1 rs2 f7.
Proof.
  intros. unfold mkRoCC.
  rewrite (format_to_small xd 1), (format_to_small xs1 1), (format_to_small xs2 1) by (cbn; lia).
  rewrite !shiftl_mul by lia. change (2 ^ 2) with 4. change (2 ^ 1) with 2.
  rewrite (format_to_small (xd * 4 + xs1 * 2 + xs2) 3) by (cbn; lia).
  rewrite generate_mkR by lia. f_equal; lia.
Qed.

Lemma FIXER_faithful :
  Forall ctor_faithful [("FIXERCustomInstruction", "cficall"); ("FIXERCustomInstruction", "cfiret")].
Proof.
  repeat constructor; start; wfb; eexists; eexists; (split; [reflexivity|]); (split; [reflexivity|]);
    apply finish; (apply via_spec; [assumption | reflexivity |]);
    unfold wf in *; wfb; rewrite generate_mkRoCC by lia; reflexivity.
Qed.

(* U format: the constructor takes the full 32-bit value whose upper 20 bits
   are encoded (DESIGN §6.4).  General form first. *)
Lemma decode_mkU x name op rd imm :
  (op = 23 \/ op = 55) -> 0 <= rd < 32 -> -2147483648 <= imm < 4294967296 ->
  let k := sext ((imm mod 4294967296) / 4096) 20 in
  decode x (generate (mkU name op rd imm)) = Some (if op =? 23 then Auipc rd k else Lui rd k).
Proof.
  intros Hop Hrd Himm k.
  assert (Hq : 0 <= (imm mod 4294967296) / 4096 < 2 ^ 20).
  { change (2 ^ 20) with 1048576. Z.div_mod_to_equations; lia. }
  assert (Hk : -524288 <= k < 524288).
  { subst k. unfold sext. change (2 ^ (20 - 1)) with 524288. change (2 ^ 20) with 1048576 in *.
    destruct (Z.ltb_spec (imm mod 4294967296 / 4096) 524288); lia. }
  rewrite generate_mkU by lia.
  destruct Hop as [-> | ->]; cbn [Z.eqb Pos.eqb].
  - apply via_spec.
    + unfold wf, isreg, simm. change (2 ^ (20 - 1)) with 524288.
      repeat (apply andb_true_intro; split); try apply Z.leb_le; try apply Z.ltb_lt; lia.
    + reflexivity.
    + cbn [encode_spec]. rewrite enc_U_sum. subst k. rewrite usig_sext by lia. reflexivity.
  - apply via_spec.
    + unfold wf, isreg, simm. change (2 ^ (20 - 1)) with 524288.
      repeat (apply andb_true_intro; split); try apply Z.leb_le; try apply Z.ltb_lt; lia.
    + reflexivity.
    + cbn [encode_spec]. rewrite enc_U_sum. subst k. rewrite usig_sext by lia. reflexivity.
Qed.

Lemma U_faithful : Forall ctor_faithful [("UInstruction", "auipc"); ("UInstruction", "lui")].
Proof.
  repeat constructor; start; wfb; unfold wf in *; wfb;
    eexists; eexists; (split; [reflexivity|]); (split; [reflexivity|]); apply finish.
  - rewrite (decode_mkU ExtNone "auipc" 23 a1 a2) by (try lia; Z.div_mod_to_equations; lia). cbn [Z.eqb Pos.eqb]. do 2 f_equal.
    unfold sext. change (2 ^ (20 - 1)) with 524288. change (2 ^ 20) with 1048576.
    destruct (Z.ltb_spec (a2 mod 4294967296 / 4096) 524288); Z.div_mod_to_equations; lia.
  - rewrite (decode_mkU ExtNone "lui" 55 a1 a2) by (try lia; Z.div_mod_to_equations; lia). cbn [Z.eqb Pos.eqb]. do 2 f_equal.
    unfold sext. change (2 ^ (20 - 1)) with 524288. change (2 ^ 20) with 1048576.
    destruct (Z.ltb_spec (a2 mod 4294967296 / 4096) 524288); Z.div_mod_to_equations; lia.
Qed.

Theorem all_ctors_faithful : forall c, In c all_ctors -> ctor_faithful c.
Proof.
  intros c Hin. unfold all_ctors in Hin.
  repeat (apply in_app_or in Hin; destruct Hin as [Hin|Hin]).
  - exact (proj1 (Forall_forall _ _) R_faithful c Hin).
  - rewrite map_app in Hin. apply in_app_or in Hin. destruct Hin as [Hin|Hin].
    + exact (proj1 (Forall_forall _ _) I_plain_faithful c Hin).
    + cbn [map] in Hin.
      assert (Hsh := proj1 (Forall_forall _ _) shift_faithful c).
      assert (Hco := proj1 (Forall_forall _ _) const_faithful c).
      cbn [map In] in Hsh, Hco.
      destruct Hin as [E|[E|[E|[E|[E|[E|[E|[E|[E|[E|[E|[]]]]]]]]]]]];
        try (apply Hsh; tauto); try (apply Hco; tauto).
      subst c. apply jr_faithful.
  - assert (HU := proj1 (Forall_forall _ _) U_faithful c).
    assert (HJ := proj1 (Forall_forall _ _) J_faithful c).
    cbn [In] in HU, HJ, Hin.
    destruct Hin as [E|[E|[E|[E|[]]]]]; try (apply HU; tauto); apply HJ; tauto.
  - exact (proj1 (Forall_forall _ _) S_faithful c Hin).
  - exact (proj1 (Forall_forall _ _) B_faithful c Hin).
  - rewrite map_app in Hin. apply in_app_or in Hin. destruct Hin as [Hin|Hin].
    + exact (proj1 (Forall_forall _ _) RIMI_I_faithful c Hin).
    + assert (Hco := proj1 (Forall_forall _ _) const_faithful c). cbn [map In] in Hco, Hin.
      destruct Hin as [E|[]]. apply Hco; tauto.
  - exact (proj1 (Forall_forall _ _) RIMI_S_faithful c Hin).
  - exact (proj1 (Forall_forall _ _) FIXER_faithful c Hin).
Qed.

(* non-vacuity: a concrete in-range tuple for a non-trivial constructor *)
Example wf_args_inhabited :
  wf_args ("BInstruction", "bne") [5; 6; -4094] = true /\
  wf_args ("IInstruction", "srai") [31; 1; 47] = true /\
  wf_args ("RIMISInstruction", "sst") [28; 1; -2048] = true.
Proof. vm_compute. auto. Qed.

(* Known finding F1: slli / srli / srai drop bit 4 of the shift amount. *)
Definition shift_refuted (name : string) (o : shop) : Prop :=
  exists rd rs1 sh g,
    isreg rd = true /\ isreg rs1 = true /\ 0 <= sh < 64 /\
    apply_c ("IInstruction", name) [rd; rs1; sh] = Some g /\
    decode ExtNone (generate g) <> Some (Shift o rd rs1 sh).

Lemma slli_refuted : shift_refuted "slli" SLLI.
Proof. exists 5, 6, 16. eexists. repeat split; try reflexivity; try lia. vm_compute. discriminate. Qed.
Lemma srli_refuted : shift_refuted "srli" SRLI.
Proof. exists 5, 6, 16. eexists. repeat split; try reflexivity; try lia. vm_compute. discriminate. Qed.
Lemma srai_refuted : shift_refuted "srai" SRAI.
Proof. exists 5, 6, 16. eexists. repeat split; try reflexivity; try lia. vm_compute. discriminate. Qed.

(* ... and it is exactly bit 4: every in-range tuple with bit 4 set is mis-encoded *)
Lemma masked_shift_wrong name o rd rs1 sh :
  In (name, o) [("slli", SLLI); ("srli", SRLI); ("srai", SRAI)] ->
  0 <= rd < 32 -> 0 <= rs1 < 32 -> 0 <= sh < 64 -> Z.testbit sh 4 = true ->
  exists g, apply_c ("IInstruction", name) [rd; rs1; sh] = Some g /\
            decode ExtNone (generate g) = Some (Shift o rd rs1 (sh - 16)).
Proof.
  intros Hin Hrd Hrs1 Hsh Hb.
  assert (E : Z.land sh 47 = sh - 16).
  { pose proof (sweep (fun z => negb (Z.testbit z 4) || (Z.land z 47 =? z - 16)) 64 eq_refl sh ltac:(lia)) as S.
    cbv beta in S. rewrite Hb in S. cbn [negb orb] in S. apply Z.eqb_eq. exact S. }
  assert (Hlo : 16 <= sh).
  { destruct (Z_lt_le_dec sh 16); [|assumption].
    rewrite (testbit_small sh 4 4) in Hb by (change (2 ^ 4) with 16; lia). discriminate. }
  cbn [In] in Hin. destruct Hin as [E'|[E'|[E'|[]]]]; inversion E'; subst name o;
    unfold apply_c; cbn; rewrite E; eexists; (split; [reflexivity|]);
    (apply via_spec;
     [ unfold wf, isreg; cbn [is_w_shift];
       repeat (apply andb_true_intro; split); try apply Z.leb_le; try apply Z.ltb_lt; lia
     | reflexivity
     | rewrite generate_mkI_shift by (try lia; auto); reflexivity ]).
Qed.

(* tie: the constructor universe of the theorem is exactly the set of public
   constructor classmethods the classes define now *)
Definition ctor_eqb (a b : ctor) : bool := (fst a ==s fst b) && (snd a ==s snd b).
Definition same_ctor_sets (l1 l2 : list ctor) : bool :=
  forallb (fun c => existsb (ctor_eqb c) l2) l1 && forallb (fun c => existsb (ctor_eqb c) l1) l2.
Lemma ctor_universe_tie : same_ctor_sets dumped_ctors all_ctors = true.
Proof. vm_compute. reflexivity. Qed.
