(* GenWF6.v — Layer B, leaf methods: every method without call sites of every
   image of the four non-FIXER variants, decoded word by word from what was
   emitted, is  leaf prologue ++ body ++ leaf epilogue  and satisfies the
   method contract on the reference machine: entered at its first instruction
   with any 8-aligned sp whose 24-byte frame lies in the stack region, it
   returns to ra with sp, s0 and every non-usable register restored, having
   written only its own frame slot and the data section. *)
From Coq Require Import ZArith List String Bool Lia.
From Gigue Require Import Types Bits Isa IsaProofs Enc EncProofs GenTables Builder Samplers Generator GenLemmas
  Machine MachineLemmas ImageSem GenWF GenWFProps GenWF2 BodyExec BodyBridge GenWF5 FrameExec CodeMem SwitchExec SplitProofs.
Import ListNotations.
Open Scope list_scope.
Open Scope Z_scope.

Lemma decode_all_Forall2 x : forall l is,
  decode_all x l = Some is -> Forall2 (fun g i => decode x (generate g) = Some i) l is.
Proof.
  induction l as [|g tl IH]; intros is H; cbn [decode_all fold_right] in H.
  - inversion H. constructor.
  - fold (decode_all x tl) in H. destruct (decode x (generate g)) as [i|] eqn:E; [|discriminate].
    destruct (decode_all x tl) as [l'|] eqn:E'; [|discriminate]. inversion H; subst.
    constructor; [exact E|apply IH; reflexivity].
Qed.

Lemma Forall2_app' {A B} (R : A -> B -> Prop) a1 b1 a2 b2 :
  Forall2 R a1 b1 -> Forall2 R a2 b2 -> Forall2 R (a1 ++ a2) (b1 ++ b2).
Proof. intros H1 H2. induction H1; cbn [app]; [exact H2|constructor; assumption]. Qed.

Definition non_fixer (v : gvariant) : Prop := v = GBase \/ v = GTramp \/ v = GRimiSS \/ v = GRimiFull.

(* regenerated builders: the leaf frames of the four non-FIXER variants decode to the leaf frame *)
Lemma leaf_frames_eq v :
  non_fixer v ->
  exists pro epi,
    build_prologue (bvariant_of v) m_used_s_regs m_local_vars_nb false = OK pro /\
    build_epilogue (bvariant_of v) m_used_s_regs m_local_vars_nb false = OK epi /\
    decode_all (variant_ext (variant_of v)) pro = Some leaf_pro /\
    decode_all (variant_ext (variant_of v)) epi = Some leaf_epi.
Proof.
  intros [->|[->|[->| ->]]]; eexists; eexists; (split; [vm_compute; reflexivity|]); (split; [vm_compute; reflexivity|]);
    split; vm_compute; reflexivity.
Qed.

Lemma leaf_frames_at v pro epi :
  non_fixer v ->
  build_prologue (bvariant_of v) m_used_s_regs m_local_vars_nb false = OK pro ->
  build_epilogue (bvariant_of v) m_used_s_regs m_local_vars_nb false = OK epi ->
  decode_all (variant_ext (variant_of v)) pro = Some leaf_pro /\
  decode_all (variant_ext (variant_of v)) epi = Some leaf_epi.
Proof.
  intros Hv Hp He. destruct (leaf_frames_eq v Hv) as (p' & e' & Hp' & He' & D1 & D2).
  rewrite Hp in Hp'. rewrite He in He'. inversion Hp'; inversion He'; subst. auto.
Qed.

Lemma wr_not_caller_saved c r : cfg_regs c -> ~ In r c_CALLER_SAVED_REG -> wr c r = false.
Proof.
  intros R Hn. unfold wr, in_zlist. destruct (existsb (Z.eqb r) (usable_registers c)) eqn:E; [|reflexivity].
  apply existsb_exists in E. destruct E as (y & Hy & Ey). apply Z.eqb_eq in Ey. subst y.
  destruct (usable_subset c r Hy) as [Hin _]. exfalso. apply Hn. apply (cr_regs c R). exact Hin.
Qed.

Lemma reserved_not_caller_saved : ~ In 1 c_CALLER_SAVED_REG /\ ~ In 2 c_CALLER_SAVED_REG /\ ~ In 8 c_CALLER_SAVED_REG.
Proof.
  repeat split; intros H; destruct (caller_saved_facts _ H) as (_ & H1 & H2 & H8); lia.
Qed.

Definition stack_placement (L : layout) : Prop :=
  (code_hi L <= stk_lo L \/ stk_hi L <= code_lo L) /\ 0 <= stk_lo L.

(* THE THEOREM (leaf methods): see the header of this file *)
Theorem leaf_methods_return c script img :
  successful c script img -> non_fixer (c_variant c) ->
  Forall (fun m => m_depth m = 0 -> m_calls m = 0 ->
    exists is,
      Forall2 (fun g i => decode (variant_ext (gv c)) (generate g) = Some i) (m_instrs m) (leaf_pro ++ is ++ leaf_epi) /\
      List.length is = Z.to_nat (m_body m) /\
      Forall (body_instr (gv c) (c_data_reg c) (dsz c) (wr c)) is /\
      forall L s A,
        placement c L -> stack_placement L -> env_ok (gv c) L (c_data_reg c) s -> pc s = A -> 0 <= A ->
        A + 4 * (Z.of_nat (List.length is) + 5) < W64 ->
        let S := rget s 2 in
        S mod 8 = 0 -> 24 <= S < W64 -> stk_lo L <= S - 24 -> S <= stk_hi L -> 0 <= rget s 8 < W64 ->
        exists s', exec_at (gv c) L A (leaf_pro ++ is ++ leaf_epi) s = Next s' /\
          pc s' = (u64 (rget s 1 + 0) / 2) * 2 /\
          (forall r, 0 <= r -> wr c r = false -> rget s' r = rget s r) /\
          same_outside L (dsz c) s s' S /\ dom s' = dom s /\ cfi s' = cfi s /\
          env_ok (gv c) L (c_data_reg c) s')
    (im_methods img).
Proof.
  intros [Hc Hr] Hv. destruct (cfg_ok_facts c Hc) as [F R].
  pose proof (run_gen_bodies c script img [] F Hr) as HB.
  destruct reserved_not_caller_saved as (N1 & N2 & N8).
  destruct (caller_saved_facts _ (cr_data c R)) as (_ & D1 & D2 & D8).
  eapply Forall_impl; [|exact HB]. intros m Hm Hd Hcalls.
  destruct (Hm Hd) as (pro & body & epi & Ei & Hpro & Hepi & Hbody & Hl).
  assert (Hleaf : m_is_leaf m = true) by (unfold m_is_leaf; rewrite Hcalls; reflexivity).
  rewrite Hleaf in Hpro, Hepi. cbn [negb] in Hpro, Hepi.
  destruct (leaf_frames_at (c_variant c) pro epi Hv Hpro Hepi) as [Dp De].
  destruct (Forall_decoded c body Hbody) as (is & F2 & Fb).
  exists is. split; [|split; [|split; [exact Fb|]]].
  - rewrite Ei. apply Forall2_app'; [apply decode_all_Forall2; exact Dp|].
    apply Forall2_app'; [exact F2|apply decode_all_Forall2; exact De].
  - rewrite <- Hl. symmetry. apply (Forall2_len' _ _ _ F2).
  - intros L s A Hpl [Hsc Hsp] He Hpc HA Hend S HSal HSr HSlo HShi Hs0.
    pose proof (wr_not_caller_saved c 1 R N1) as W1. pose proof (wr_not_caller_saved c 2 R N2) as W2.
    pose proof (wr_not_caller_saved c 8 R N8) as W8.
    eapply leaf_contract; try eassumption; try (apply placement_layout_ok; assumption); auto.
Qed.

(* ------------------------------------------------------------------ at the level of the machine *)
Lemma Forall2_map_generate x (l : list gi) is :
  Forall2 (fun g i => decode x (generate g) = Some i) l is ->
  Forall2 (fun w i => decode x w = Some i) (map generate l) is.
Proof. intros F. induction F; cbn [map]; constructor; assumption. Qed.

Lemma body_instr_no_domsw v dr dsize w i : body_instr v dr dsize w i -> CodeMem.is_domsw i = false.
Proof. destruct i; cbn; intros H; try reflexivity; contradiction. Qed.

Lemma leaf_block_no_domsw v dr dsize w is :
  Forall (body_instr v dr dsize w) is ->
  forallb (fun i => negb (CodeMem.is_domsw i)) (leaf_pro ++ is ++ leaf_epi) = true.
Proof.
  intros H. rewrite !forallb_app. cbn [leaf_pro leaf_epi forallb CodeMem.is_domsw negb andb].
  rewrite andb_true_r. apply forallb_forall. intros i Hi. rewrite Forall_forall in H.
  rewrite (body_instr_no_domsw _ _ _ _ _ (H i Hi)). reflexivity.
Qed.

(* THE THEOREM at machine level: the method's emitted words, loaded anywhere
   (4-aligned) in the code region - on the JIT side with the JIT domain in RIMI
   full - are fetched, decoded and executed by the machine: |method| steps from
   the entry to the return address, with the contract of leaf_methods_return. *)
Theorem leaf_methods_run c script img :
  successful c script img -> non_fixer (c_variant c) ->
  Forall (fun m => m_depth m = 0 -> m_calls m = 0 ->
    forall L s,
      let A := pc s in let n := List.length (m_instrs m) in let S := rget s 2 in
      CodeMem.regions_ok L -> placement c L -> stack_placement L ->
      CodeMem.code_at (mem s) A (map generate (m_instrs m)) ->
      A mod 4 = 0 -> code_lo L <= A -> A + 4 * Z.of_nat n <= code_hi L -> A + 4 * Z.of_nat n < W64 ->
      (halt_at L < A \/ A + 4 * Z.of_nat n <= halt_at L) ->
      CodeMem.side_ok (gv c) L A (Z.of_nat n) (dom s) ->
      env_ok (gv c) L (c_data_reg c) s ->
      S mod 8 = 0 -> 24 <= S < W64 -> stk_lo L <= S - 24 -> S <= stk_hi L -> 0 <= rget s 8 < W64 ->
      exists s', run (gv c) L n s = (Next s', n) /\
        pc s' = (u64 (rget s 1 + 0) / 2) * 2 /\
        (forall r, 0 <= r -> wr c r = false -> rget s' r = rget s r) /\
        same_outside L (dsz c) s s' S /\ dom s' = dom s /\ cfi s' = cfi s /\
        env_ok (gv c) L (c_data_reg c) s')
    (im_methods img).
Proof.
  intros Hs Hv. pose proof (leaf_methods_return c script img Hs Hv) as H.
  eapply Forall_impl; [|exact H].
  intros m Hm Hd Hcalls L s A n S RO Hpl Hsp Hcode Hal Hlo Hhi Hw Hh Hside He HSal HSr HSlo HShi Hs0.
  destruct (Hm Hd Hcalls) as (is & F2 & Hl & Fb & Hexec).
  assert (Hn : n = List.length (leaf_pro ++ is ++ leaf_epi)).
  { unfold n. apply (Forall2_len' _ _ _ F2). }
  assert (Hn' : Z.of_nat n = Z.of_nat (List.length is) + 5).
  { rewrite Hn, !app_length. cbn [leaf_pro leaf_epi List.length]. lia. }
  assert (Hlw : List.length (map generate (m_instrs m)) = n) by (rewrite map_length; reflexivity).
  pose proof (CodeMem.ro_code L RO) as Hc0.
  assert (HA0 : 0 <= A) by lia. assert (HAend : A + 4 * (Z.of_nat (List.length is) + 5) < W64) by lia.
  destruct (Hexec L s A Hpl Hsp He eq_refl HA0 HAend HSal HSr HSlo HShi Hs0)
    as (s' & E & P & Rg & M & D & C & He').
  exists s'. split; [|auto 10].
  rewrite Hn.
  apply (CodeMem.run_block (gv c) L (leaf_pro ++ is ++ leaf_epi) (map generate (m_instrs m)) A s s' RO);
    try assumption; rewrite ?Hlw; try lia; try assumption.
  - apply Forall2_map_generate. exact F2.
  - eapply leaf_block_no_domsw. exact Fb.
Qed.

(* ------------------------------------------------------------------ FIXER leaf methods *)
Lemma fixer_leaf_frames :
  exists pro epi,
    build_prologue (bvariant_of GFixer) m_used_s_regs m_local_vars_nb false = OK pro /\
    build_epilogue (bvariant_of GFixer) m_used_s_regs m_local_vars_nb false = OK epi /\
    decode_all ExtFixer pro = Some leaf_pro /\
    decode_all ExtFixer epi = Some (fixer_epi4 ++ [Ecall; Jalr 0 1 0]).
Proof.
  eexists; eexists; (split; [vm_compute; reflexivity|]); (split; [vm_compute; reflexivity|]); split; vm_compute; reflexivity.
Qed.

Lemma fixer_block_no_domsw v dr dsize w is :
  Forall (body_instr v dr dsize w) is ->
  forallb (fun i => negb (is_domsw i)) (leaf_pro ++ is ++ fixer_epi4) = true.
Proof.
  intros H. rewrite !forallb_app. cbn [leaf_pro fixer_epi4 forallb is_domsw negb andb].
  rewrite andb_true_r. apply forallb_forall. intros i Hi. rewrite Forall_forall in H.
  rewrite (body_instr_no_domsw _ _ _ _ _ (H i Hi)). reflexivity.
Qed.

(* FIXER: a method without call sites, entered with its return address registered on
   the CFI stack (what the tagged call does), runs |method| - 1 steps (the trap is
   skipped), pops the tag and returns to ra; the trap is not reached *)
Theorem fixer_leaf_methods_run c script img :
  successful c script img -> c_variant c = GFixer ->
  Forall (fun m => m_depth m = 0 -> m_calls m = 0 ->
    forall L s rest,
      let A := pc s in let n := List.length (m_instrs m) in let S := rget s 2 in
      regions_ok L -> placement c L -> stack_placement L ->
      code_at (mem s) A (map generate (m_instrs m)) ->
      A mod 4 = 0 -> code_lo L <= A -> A + 4 * Z.of_nat n <= code_hi L -> A + 4 * Z.of_nat n < W64 ->
      (halt_at L < A \/ A + 4 * Z.of_nat n <= halt_at L) ->
      env_ok (gv c) L (c_data_reg c) s ->
      cfi s = rget s 1 :: rest -> 0 <= rget s 1 < W64 ->
      S mod 8 = 0 -> 24 <= S < W64 -> stk_lo L <= S - 24 -> S <= stk_hi L -> 0 <= rget s 8 < W64 ->
      exists s', run (gv c) L (n - 1) s = (Next s', (n - 1)%nat) /\
        pc s' = (u64 (rget s 1 + 0) / 2) * 2 /\
        (forall r, 0 <= r -> wr c r = false -> r <> 28 -> rget s' r = rget s r) /\
        same_outside L (dsz c) s s' S /\ dom s' = dom s /\ cfi s' = rest /\
        env_ok (gv c) L (c_data_reg c) s')
    (im_methods img).
Proof.
  intros [Hc Hr] Hv. destruct (cfg_ok_facts c Hc) as [F R].
  pose proof (run_gen_bodies c script img [] F Hr) as HB.
  destruct reserved_not_caller_saved as (N1 & N2 & N8).
  destruct (caller_saved_facts _ (cr_data c R)) as (_ & D1 & D2 & D8).
  assert (Hgv : gv c = VFixer) by (unfold gv; rewrite Hv; reflexivity).
  assert (Hprot : is_protected (c_variant c) = true) by (rewrite Hv; reflexivity).
  pose proof (cr_special c R Hprot) as D28.
  assert (W28 : wr c 28 = false).
  { unfold wr, in_zlist. destruct (existsb (Z.eqb 28) (usable_registers c)) eqn:E; [|reflexivity].
    apply existsb_exists in E. destruct E as (y & Hy & Ey). apply Z.eqb_eq in Ey. subst y.
    exfalso. unfold usable_registers in Hy. rewrite Hv in Hy. apply filter_In in Hy. destruct Hy as [_ Hy].
    unfold cfg_ok in Hc. apply andb_prop in Hc. destruct Hc as [Hc _]. apply andb_prop in Hc. destruct Hc as [Hc _].
    apply andb_prop in Hc. destruct Hc as [_ Hrg]. unfold cfg_registers in Hrg. rewrite Hprot in Hrg.
    apply andb_prop in Hrg. destruct Hrg as [_ Hsp]. apply andb_prop in Hsp. destruct Hsp as [Hsp _].
    apply Z.eqb_eq in Hsp. rewrite Hsp in Hy. cbn in Hy. discriminate. }
  eapply Forall_impl; [|exact HB]. intros m Hm Hd Hcalls L s rest A n S RO Hpl [Hsc Hsp] Hcode Hal Hlo Hhi Hw Hh He Hcfi Hra HSal HSr HSlo HShi Hs0.
  destruct (Hm Hd) as (pro & body & epi & Ei & Hpro & Hepi & Hbody & Hl).
  assert (Hleaf : m_is_leaf m = true) by (unfold m_is_leaf; rewrite Hcalls; reflexivity).
  rewrite Hleaf, Hv in Hpro, Hepi. cbn [negb] in Hpro, Hepi.
  destruct fixer_leaf_frames as (p' & e' & Hp' & He' & Dp & De).
  rewrite Hpro in Hp'. rewrite Hepi in He'. inversion Hp'; inversion He'; subst p' e'.
  destruct (Forall_decoded c body Hbody) as (is & F2 & Fb). rewrite Hgv in F2.
  set (blk := leaf_pro ++ is ++ fixer_epi4).
  assert (Fall : Forall2 (fun g i => decode ExtFixer (generate g) = Some i) (m_instrs m) (blk ++ [Ecall; Jalr 0 1 0])).
  { rewrite Ei. unfold blk. rewrite <- !app_assoc. apply Forall2_app'; [apply decode_all_Forall2; exact Dp|].
    apply Forall2_app'; [exact F2|]. apply decode_all_Forall2. exact De. }
  assert (Hn : n = (List.length blk + 2)%nat).
  { unfold n. rewrite (Forall2_len' _ _ _ Fall), app_length. reflexivity. }
  assert (Hblk : Z.of_nat (List.length blk) = Z.of_nat (List.length is) + 6).
  { unfold blk. rewrite !app_length. cbn [leaf_pro fixer_epi4 List.length]. lia. }
  pose proof (ro_code L RO) as Hc0.
  pose proof (wr_not_caller_saved c 1 R N1) as W1. pose proof (wr_not_caller_saved c 2 R N2) as W2.
  pose proof (wr_not_caller_saved c 8 R N8) as W8.
  assert (Hex : exists s1, exec_at (gv c) L A (leaf_pro ++ is ++ fixer_epi4) s = Next s1 /\
    pc s1 = A + 4 * (Z.of_nat (List.length is) + 5) + 8 /\
    (forall r, 0 <= r -> wr c r = false -> r <> 28 -> rget s1 r = rget s r) /\ rget s1 28 = rget s 1 /\
    same_outside L (dsz c) s s1 S /\ dom s1 = dom s /\ cfi s1 = rest /\ env_ok (gv c) L (c_data_reg c) s1).
  { eapply leaf_contract_fixer; try eassumption; try (apply placement_layout_ok; assumption); auto; try lia. }
  destruct Hex as (s1 & E1 & P1 & Rg1 & R28 & M1 & Dm1 & C1 & He1).
  fold blk in E1.
  (* the words: the method's words split as blk-words ++ [ecall; jalr] *)
  set (ws := map generate (m_instrs m)) in *.
  assert (Fws : Forall2 (fun w i => decode ExtFixer w = Some i) ws (blk ++ [Ecall; Jalr 0 1 0])).
  { apply Forall2_map_generate. exact Fall. }
  assert (Hlws : List.length ws = n) by (unfold ws; rewrite map_length; reflexivity).
  assert (F1 : Forall2 (fun w i => decode ExtFixer w = Some i) (firstn (List.length blk) ws) blk).
  { apply Forall2_app_inv_r in Fws. destruct Fws as (l1 & l2 & A1 & A2 & E).
    rewrite E. rewrite (firstn_app_exact l1 l2 _ (Forall2_len' _ _ _ A1)). exact A1. }
  assert (Hrun1 : run (gv c) L (List.length blk) s = (Next s1, List.length blk)).
  { rewrite Hgv. apply (run_block VFixer L blk (firstn (List.length blk) ws) A s s1 RO F1); try assumption.
    - unfold blk. eapply fixer_block_no_domsw. exact Fb.
    - apply code_at_firstn. exact Hcode.
    - rewrite firstn_length. lia.
    - rewrite firstn_length. lia.
    - exact I.
    - rewrite <- Hgv. exact E1. }
  (* the final jalr *)
  set (A2 := A + 4 * Z.of_nat (List.length blk + 1)).
  assert (HP1 : pc s1 = A2) by (rewrite P1; unfold A2; lia).
  assert (Hj : exec_at (gv c) L A2 [Jalr 0 1 0] s1 = Next (set_pc s1 ((u64 (rget s1 1 + 0) / 2) * 2))).
  { cbn [exec_at exec]. rewrite HP1, Z.eqb_refl. reflexivity. }
  assert (F3 : Forall2 (fun w i => decode ExtFixer w = Some i) (skipn (List.length blk + 1) ws) [Jalr 0 1 0]).
  { apply Forall2_app_inv_r in Fws. destruct Fws as (l1 & l2 & A1 & A2' & E).
    rewrite E. replace (List.length blk + 1)%nat with (List.length l1 + 1)%nat by (rewrite (Forall2_len' _ _ _ A1); reflexivity).
    rewrite skipn_app. replace (List.length l1 + 1 - List.length l1)%nat with 1%nat by lia.
    rewrite skipn_all2 by lia. cbn [app]. inversion A2' as [|? ? ? ? H1 A3]; subst. cbn [skipn]. exact A3. }
  pose proof (exec_at_same_code (gv c) L blk A s s1 RO E1) as Hsc1.
  assert (Hcode1 : code_at (mem s1) A ws).
  { eapply (code_at_same L (mem s) (mem s1) A ws); [exact Hsc1|lia|rewrite Hlws; lia|exact Hcode]. }
  assert (Hrun2 : run (gv c) L 1 s1 = (Next (set_pc s1 ((u64 (rget s1 1 + 0) / 2) * 2)), 1%nat)).
  { rewrite Hgv. apply (run_block VFixer L [Jalr 0 1 0] (skipn (List.length blk + 1) ws) A2 s1 _ RO F3); try reflexivity.
    - unfold A2. apply code_at_skip. exact Hcode1.
    - unfold A2. rewrite Nat2Z.inj_add. Z.div_mod_to_equations; lia.
    - unfold A2. lia.
    - unfold A2. rewrite skipn_length, Hlws. lia.
    - unfold A2. rewrite skipn_length, Hlws. lia.
    - rewrite <- Hgv. exact Hj. }
  exists (set_pc s1 ((u64 (rget s1 1 + 0) / 2) * 2)).
  split.
  { replace (n - 1)%nat with (List.length blk + 1)%nat by lia.
    rewrite (run_app (gv c) L (List.length blk) 1 s s1 Hrun1). rewrite Hrun2. reflexivity. }
  split; [cbn [set_pc pc]; rewrite (Rg1 1) by (lia || assumption); reflexivity|].
  split; [intros r Hr0 Hwr Hn28; rewrite rget_set_pc; apply Rg1; assumption|].
  split; [intros a Ha Ho Hs; cbn [set_pc mem]; apply M1; assumption|].
  split; [exact Dm1|]. split; [exact C1|].
  destruct He1 as [X1 X2]. constructor; [rewrite rget_set_pc; exact X1|exact X2].
Qed.
