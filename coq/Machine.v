(* Machine.v — the reference machine: RV64IM small-step semantics on 64-bit
   registers (values kept in [0, 2^64)), byte-addressed memory, plus the RIMI
   and FIXER custom semantics (from the repo's own Unicorn handlers and the
   PMP/DMP layout of resources/common/templates/rimi.S), with fault monitors.
   Specification side: imports Isa only. *)
From Coq Require Import ZArith List Bool FMapPositive.
From Gigue Require Import Isa.
Import ListNotations.
Open Scope Z_scope.

Definition W64 := 18446744073709551616.   (* 2^64 *)
Definition u64 (x : Z) : Z := x mod W64.
Definition s64 (x : Z) : Z := if x <? 9223372036854775808 then x else x - W64.
Definition u32 (x : Z) : Z := x mod 4294967296.
Definition sx32 (x : Z) : Z :=           (* sign-extend the low 32 bits, as an unsigned 64-bit value *)
  let y := x mod 4294967296 in if y <? 2147483648 then y else y + (W64 - 4294967296).
Definition s32 (x : Z) : Z :=
  let y := x mod 4294967296 in if y <? 2147483648 then y else y - 4294967296.

(* ------------------------------------------------------------ state *)

Module PM := PositiveMap.

Definition key (a : Z) : positive := Z.to_pos (a + 1).

Record mstate := mk_mstate {
  pc   : Z;
  regs : PM.t Z;          (* x1..x31, missing = 0; x0 is never stored *)
  mem  : PM.t Z;          (* bytes, key (address); missing = 0 *)
  dom  : Z;               (* RIMI current domain: 0 interpreter, 1 JIT *)
  cfi  : list Z           (* FIXER shadow stack, top first *)
}.

Definition rget (s : mstate) (r : Z) : Z :=
  if r =? 0 then 0 else match PM.find (key r) (regs s) with Some v => v | None => 0 end.

Definition rset (s : mstate) (r v : Z) : mstate :=
  if r =? 0 then s
  else mk_mstate (pc s) (PM.add (key r) (u64 v) (regs s)) (mem s) (dom s) (cfi s).

Definition set_pc (s : mstate) (p : Z) : mstate := mk_mstate p (regs s) (mem s) (dom s) (cfi s).
Definition set_dom (s : mstate) (d : Z) : mstate := mk_mstate (pc s) (regs s) (mem s) d (cfi s).
Definition set_cfi (s : mstate) (c : list Z) : mstate := mk_mstate (pc s) (regs s) (mem s) (dom s) c.

Definition mget (m : PM.t Z) (a : Z) : Z :=
  match PM.find (key a) m with Some b => b | None => 0 end.

Fixpoint load_bytes (m : PM.t Z) (a : Z) (n : nat) : Z :=     (* little endian *)
  match n with
  | O => 0
  | S k => mget m a + 256 * load_bytes m (a + 1) k
  end.

Fixpoint store_bytes (m : PM.t Z) (a : Z) (n : nat) (v : Z) : PM.t Z :=
  match n with
  | O => m
  | S k => store_bytes (PM.add (key a) (v mod 256) m) (a + 1) k (v / 256)
  end.

Definition set_mem (s : mstate) (m : PM.t Z) : mstate := mk_mstate (pc s) (regs s) m (dom s) (cfi s).

(* ------------------------------------------------------------ layout *)

Inductive variant := VBase | VTramp | VRimiSS | VRimiFull | VFixer.

Definition variant_ext (v : variant) : ext :=
  match v with VRimiSS | VRimiFull => ExtRimi | VFixer => ExtFixer | _ => ExtNone end.

Record layout := mk_layout {
  code_lo : Z;      (* interpreter start = image base *)
  jit_lo  : Z;      (* JIT start = end of the interpreter region *)
  code_hi : Z;      (* end of the image *)
  data_lo : Z; data_hi : Z;
  stk_lo  : Z; stk_hi  : Z;
  ss_lo   : Z; ss_hi   : Z;
  halt_at : Z       (* the caller's return address *)
}.

Definition inr (lo hi a n : Z) : bool := (lo <=? a) && (a + n <=? hi).

Inductive fault :=
| FFetchOutside | FFetchMisaligned | FIllegal | FMisaligned | FUnmapped | FStoreCode
| FDomainFetch | FDomainAccess | FDomainSwitch | FShadowAccess | FCfiEmpty | FUnsupported.

Inductive outcome :=
| Next (s : mstate)
| Halt (s : mstate)
| Trap (s : mstate)            (* ecall / ebreak *)
| Fault (f : fault) (s : mstate).

(* which accessor reaches which memory *)
Inductive acc_kind := ABase | ADup | AShadow.

Definition access_ok (v : variant) (L : layout) (k : acc_kind) (d a n : Z) (is_store : bool) : option fault :=
  if negb (a mod n =? 0) then Some FMisaligned
  else if inr (code_lo L) (code_hi L) a n then (if is_store then Some FStoreCode else Some FUnmapped)
  else
    match k with
    | AShadow => if inr (ss_lo L) (ss_hi L) a n then None else Some FShadowAccess
    | ADup =>
        if negb (d =? 1) then Some FDomainAccess
        else if inr (data_lo L) (data_hi L) a n then None else Some FDomainAccess
    | ABase =>
        if inr (stk_lo L) (stk_hi L) a n then None
        else if inr (data_lo L) (data_hi L) a n then
          (match v with VRimiFull => Some FDomainAccess | _ => None end)
        else if inr (ss_lo L) (ss_hi L) a n then
          (match v with VRimiSS | VRimiFull => Some FShadowAccess | _ => Some FUnmapped end)
        else Some FUnmapped
    end.

(* ------------------------------------------------------------ ALU *)

Definition shamt6 (x : Z) := x mod 64.
Definition shamt5 (x : Z) := x mod 32.

Definition alu (o : rop) (a b : Z) : Z :=
  match o with
  | ADD => u64 (a + b) | SUB => u64 (a - b)
  | SLL => u64 (a * 2 ^ shamt6 b)
  | SLT => if s64 a <? s64 b then 1 else 0
  | SLTU => if a <? b then 1 else 0
  | XOR => Z.lxor a b | OR => Z.lor a b | AND => Z.land a b
  | SRL => a / 2 ^ shamt6 b
  | SRA => u64 (s64 a / 2 ^ shamt6 b)
  | MUL => u64 (a * b)
  | MULH => u64 ((s64 a * s64 b) / W64)
  | MULHSU => u64 ((s64 a * b) / W64)
  | MULHU => (a * b) / W64
  | DIV => if b =? 0 then W64 - 1 else u64 (Z.quot (s64 a) (s64 b))
  | DIVU => if b =? 0 then W64 - 1 else a / b
  | REM => if b =? 0 then a else u64 (Z.rem (s64 a) (s64 b))
  | REMU => if b =? 0 then a else a mod b
  | ADDW => sx32 (a + b) | SUBW => sx32 (a - b)
  | SLLW => sx32 (u32 a * 2 ^ shamt5 b)
  | SRLW => sx32 (u32 a / 2 ^ shamt5 b)
  | SRAW => sx32 (s32 a / 2 ^ shamt5 b)
  | MULW => sx32 (a * b)
  | DIVW => if u32 b =? 0 then W64 - 1 else sx32 (Z.quot (s32 a) (s32 b))
  | DIVUW => if u32 b =? 0 then W64 - 1 else sx32 (u32 a / u32 b)
  | REMW => if u32 b =? 0 then sx32 a else sx32 (Z.rem (s32 a) (s32 b))
  | REMUW => if u32 b =? 0 then sx32 a else sx32 (u32 a mod u32 b)
  end.

Definition alui (o : iop) (a imm : Z) : Z :=
  let b := u64 imm in
  match o with
  | ADDI => u64 (a + imm) | SLTI => if s64 a <? imm then 1 else 0
  | SLTIU => if a <? b then 1 else 0
  | XORI => Z.lxor a b | ORI => Z.lor a b | ANDI => Z.land a b
  | ADDIW => sx32 (a + imm)
  end.

Definition alush (o : shop) (a sh : Z) : Z :=
  match o with
  | SLLI => u64 (a * 2 ^ sh) | SRLI => a / 2 ^ sh | SRAI => u64 (s64 a / 2 ^ sh)
  | SLLIW => sx32 (u32 a * 2 ^ sh) | SRLIW => sx32 (u32 a / 2 ^ sh) | SRAIW => sx32 (s32 a / 2 ^ sh)
  end.

Definition lwidth (o : lop) : nat :=
  match o with LB | LBU => 1 | LH | LHU => 2 | LW | LWU => 4 | LD => 8 end%nat.
Definition swidth (o : sop) : nat := match o with SB => 1 | SH => 2 | SW => 4 | SD => 8 end%nat.

Definition lext (o : lop) (v : Z) : Z :=
  match o with
  | LB => if v <? 128 then v else v + (W64 - 256)
  | LH => if v <? 32768 then v else v + (W64 - 65536)
  | LW => if v <? 2147483648 then v else v + (W64 - 4294967296)
  | _ => v
  end.

Definition btaken (o : bop) (a b : Z) : bool :=
  match o with
  | BEQ => a =? b | BNE => negb (a =? b)
  | BLT => s64 a <? s64 b | BGE => negb (s64 a <? s64 b)
  | BLTU => a <? b | BGEU => negb (a <? b)
  end.

(* ------------------------------------------------------------ step *)

Definition fetch_word (s : mstate) : Z := load_bytes (mem s) (pc s) 4.

Definition do_load (v : variant) (L : layout) (k : acc_kind) (s : mstate) (o : lop) (rd rs1 imm : Z) : outcome :=
  let a := u64 (rget s rs1 + imm) in
  match access_ok v L k (dom s) a (Z.of_nat (lwidth o)) false with
  | Some f => Fault f s
  | None => Next (set_pc (rset s rd (lext o (load_bytes (mem s) a (lwidth o)))) (pc s + 4))
  end.

Definition do_store (v : variant) (L : layout) (k : acc_kind) (s : mstate) (o : sop) (rs1 rs2 imm : Z) : outcome :=
  let a := u64 (rget s rs1 + imm) in
  match access_ok v L k (dom s) a (Z.of_nat (swidth o)) true with
  | Some f => Fault f s
  | None => Next (set_pc (set_mem s (store_bytes (mem s) a (swidth o) (rget s rs2))) (pc s + 4))
  end.

Definition exec (v : variant) (L : layout) (s : mstate) (i : instr) : outcome :=
  let next := pc s + 4 in
  match i with
  | Rop o rd rs1 rs2 => Next (set_pc (rset s rd (alu o (rget s rs1) (rget s rs2))) next)
  | Iop o rd rs1 imm => Next (set_pc (rset s rd (alui o (rget s rs1) imm)) next)
  | Shift o rd rs1 sh => Next (set_pc (rset s rd (alush o (rget s rs1) sh)) next)
  | Load o rd rs1 imm => do_load v L ABase s o rd rs1 imm
  | Store o rs1 rs2 imm => do_store v L ABase s o rs1 rs2 imm
  | Branch o rs1 rs2 off =>
      Next (set_pc s (if btaken o (rget s rs1) (rget s rs2) then u64 (pc s + off) else next))
  | Lui rd imm => Next (set_pc (rset s rd (imm * 4096)) next)
  | Auipc rd imm => Next (set_pc (rset s rd (pc s + imm * 4096)) next)
  | Jal rd off => Next (set_pc (rset s rd next) (u64 (pc s + off)))
  | Jalr rd rs1 imm =>
      let t := (u64 (rget s rs1 + imm) / 2) * 2 in Next (set_pc (rset s rd next) t)
  | Ecall | Ebreak => Trap s
  | Fence _ _ _ | FenceI _ _ _ => Next (set_pc s next)
  | Csr _ _ _ _ => Fault FUnsupported s
  | Load1 o rd rs1 imm => do_load v L ADup s o rd rs1 imm
  | Store1 o rs1 rs2 imm => do_store v L ADup s o rs1 rs2 imm
  | Lst rd rs1 imm => do_load v L AShadow s LD rd rs1 imm
  | Sst rs1 rs2 imm => do_store v L AShadow s SD rs1 rs2 imm
  | Chdom rd rs1 imm =>
      let t := (u64 (rget s rs1 + imm) / 2) * 2 in
      if negb (dom s =? 0) then Fault FDomainSwitch s
      else if negb (inr (jit_lo L) (code_hi L) t 4) then Fault FDomainSwitch s
      else Next (set_dom (set_pc (rset s rd next) t) 1)
  | Retdom rd rs1 imm =>
      let t := (u64 (rget s rs1 + imm) / 2) * 2 in
      if negb (dom s =? 1) then Fault FDomainSwitch s
      else if negb (inr (code_lo L) (jit_lo L) t 4 || (t =? halt_at L)) then Fault FDomainSwitch s
      else Next (set_dom (set_pc (rset s rd next) t) 0)
  | Cficall _ rs1 _ => Next (set_pc (set_cfi s (rget s rs1 :: cfi s)) next)
  | Cfiret rd _ _ =>
      match cfi s with
      | [] => Fault FCfiEmpty s
      | top :: rest => Next (set_pc (rset (set_cfi s rest) rd top) next)
      end
  end.

Definition step (v : variant) (L : layout) (s : mstate) : outcome :=
  if pc s =? halt_at L then Halt s
  else if negb (pc s mod 4 =? 0) then Fault FFetchMisaligned s
  else if negb (inr (code_lo L) (code_hi L) (pc s) 4) then Fault FFetchOutside s
  else if (match v with
           | VRimiFull => negb (if pc s <? jit_lo L then dom s =? 0 else dom s =? 1)
           | _ => false end) then Fault FDomainFetch s
  else
    match decode (variant_ext v) (fetch_word s) with
    | None => Fault FIllegal s
    | Some i => exec v L s i
    end.

(* run for at most n steps; the result says how many steps were executed *)
Fixpoint run (v : variant) (L : layout) (n : nat) (s : mstate) : outcome * nat :=
  match n with
  | O => (Next s, O)
  | S k =>
      match step v L s with
      | Next s' => let '(o, c) := run v L k s' in (o, S c)
      | o => (o, O)
      end
  end.

(* plain-function constructors (convenient for the extracted drivers) *)
Definition make_layout (a b c d e f g h i j : Z) : layout := mk_layout a b c d e f g h i j.
Definition make_state (p : Z) (r m : PM.t Z) (d : Z) (c : list Z) : mstate := mk_mstate p r m d c.
Definition empty_map : PM.t Z := PM.empty Z.
Definition st_pc (s : mstate) := pc s.
Definition st_dom (s : mstate) := dom s.
Definition st_cfi (s : mstate) := cfi s.
Definition st_mem (s : mstate) := mem s.
Definition st_regs (s : mstate) := regs s.
