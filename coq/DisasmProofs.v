(* DisasmProofs.v — arithmetic characterisation of the disassembler model. *)
From Coq Require Import ZArith List String Bool Lia.
From Gigue Require Import Types Bits Isa IsaProofs Enc EncProofs Disasm.
Import ListNotations.
Open Scope Z_scope.

Lemma extract_info_spec w size shift :
  0 <= size -> 0 <= shift -> extract_info w size shift = (w / 2 ^ shift) mod 2 ^ size.
Proof.
  intros Hs Hh. unfold extract_info. rewrite shiftl1 by assumption.
  replace (2 ^ size - 1) with (Z.ones size) by (rewrite Z.ones_equiv; lia).
  rewrite land_field by assumption. rewrite shiftr_div by assumption.
  apply Z.div_mul. apply Z.pow_nonzero; lia.
Qed.

Lemma extract_fields w :
  extract_opcode w = f_op w /\ extract_rd w = f_rd w /\ extract_funct3 w = f_f3 w /\
  extract_rs1 w = f_rs1 w /\ extract_rs2 w = f_rs2 w /\ extract_funct7 w = f_f7 w.
Proof.
  unfold extract_opcode, extract_rd, extract_funct3, extract_rs1, extract_rs2, extract_funct7.
  rewrite !extract_info_spec by lia.
  unfold f_op, f_rd, f_f3, f_rs1, f_rs2, f_f7.
  change (2 ^ 0) with 1. rewrite Z.div_1_r. repeat split; reflexivity.
Qed.

(* the masks that occur in the tables, as field selectors *)
Lemma land_7F w : Z.land 127 w = f_op w.
Proof. rewrite Z.land_comm. unfold f_op. apply (land_ones_mod w 7). lia. Qed.

Lemma land_707F w : Z.land 28799 w = f_op w + f_f3 w * 4096.
Proof.
  rewrite Z.land_comm. change 28799 with (Z.lor (Z.ones 7) (Z.shiftl (Z.ones 3) 12)).
  rewrite Z.land_lor_distr_r. rewrite Z.land_ones by lia. rewrite land_field by lia.
  unfold f_op, f_f3. pows.
  lor_low 128 7. reflexivity.
Qed.

Lemma land_FE00707F w : Z.land 4261441663 w = f_op w + f_f3 w * 4096 + f_f7 w * 33554432.
Proof.
  rewrite Z.land_comm.
  change 4261441663 with (Z.lor (Z.lor (Z.ones 7) (Z.shiftl (Z.ones 3) 12)) (Z.shiftl (Z.ones 7) 25)).
  rewrite !Z.land_lor_distr_r. rewrite Z.land_ones by lia. rewrite !land_field by lia.
  unfold f_op, f_f3, f_f7. pows.
  lor_low 128 7. lor_low 32768 15. reflexivity.
Qed.

Lemma land_FC00707F w : Z.land 4227887231 w = f_op w + f_f3 w * 4096 + (f_f7 w / 2) * 67108864.
Proof.
  rewrite Z.land_comm.
  change 4227887231 with (Z.lor (Z.lor (Z.ones 7) (Z.shiftl (Z.ones 3) 12)) (Z.shiftl (Z.ones 6) 26)).
  rewrite !Z.land_lor_distr_r. rewrite Z.land_ones by lia. rewrite !land_field by lia.
  unfold f_op, f_f3, f_f7. pows. change (2 ^ 26) with 67108864.
  lor_low 128 7. lor_low 32768 15.
  Z.div_mod_to_equations; lia.
Qed.

Lemma land_FULL w : 0 <= w < 4294967296 -> Z.land 4294967295 w = w.
Proof.
  intros. rewrite Z.land_comm. change 4294967295 with (2 ^ 32 - 1).
  rewrite land_ones_mod by lia. apply Z.mod_small. pows. lia.
Qed.

(* A word whose fixed bits are (mA, vA) cannot match a pattern (mB, vB) that
   disagrees with them on a commonly fixed bit. *)
Definition conflict (mA vA mB vB : Z) : bool :=
  negb (Z.land (Z.lxor vA vB) (Z.land mA mB) =? 0).

Lemma conflict_sound w mA vA mB vB :
  Z.land mA w = vA -> conflict mA vA mB vB = true -> Z.land mB w <> vB.
Proof.
  intros HA Hc HB. unfold conflict in Hc. apply negb_true_iff in Hc. apply Z.eqb_neq in Hc.
  apply Hc. subst vA vB. apply Z.bits_inj'. intros i Hi.
  rewrite Z.bits_0, Z.land_spec, Z.lxor_spec, !Z.land_spec.
  destruct (Z.testbit mA i), (Z.testbit mB i), (Z.testbit w i); reflexivity.
Qed.

(* own entry: a pattern contained in the fixed bits *)
Definition covered (mA vA mB vB : Z) : bool :=
  (Z.land mB mA =? mB) && (Z.land mB vA =? vB).

Lemma covered_sound w mA vA mB vB :
  Z.land mA w = vA -> covered mA vA mB vB = true -> Z.land mB w = vB.
Proof.
  intros HA Hc. unfold covered in Hc. apply andb_prop in Hc. destruct Hc as [H1 H2].
  apply Z.eqb_eq in H1. apply Z.eqb_eq in H2. subst vA. rewrite <- H2.
  rewrite Z.land_assoc. rewrite H1. reflexivity.
Qed.

(* ---------------------------------------------------------- to_signed *)

Lemma to_signed_sext v n : 1 <= n -> 0 <= v < 2 ^ n -> to_signed v n = sext v n.
Proof.
  intros Hn Hv. unfold to_signed, sext. rewrite !shiftl1 by lia.
  rewrite land_ones_mod by lia. rewrite Z.mod_small by lia.
  assert (E : 2 ^ n = 2 * 2 ^ (n - 1)).
  { replace n with (1 + (n - 1)) at 1 by lia. rewrite Z.pow_add_r by lia. reflexivity. }
  assert (Hp : 0 < 2 ^ (n - 1)) by (apply Z.pow_pos_nonneg; lia).
  assert (LA : forall a, 0 <= a < 2 ^ (n - 1) -> Z.lxor a (2 ^ (n - 1)) = a + 2 ^ (n - 1)).
  { intros a Ha.
    assert (L : Z.land a (1 * 2 ^ (n - 1)) = 0) by (apply land_small_shifted; lia).
    rewrite Z.mul_1_l in L. rewrite Z.lxor_lor by exact L.
    pose proof (lor_add a 1 (n - 1) ltac:(lia) Ha) as LO. rewrite Z.mul_1_l in LO. exact LO. }
  destruct (Z.ltb_spec v (2 ^ (n - 1))) as [Hlt|Hge].
  - rewrite LA by lia. lia.
  - set (r := v - 2 ^ (n - 1)).
    assert (Hr : 0 <= r < 2 ^ (n - 1)) by (subst r; lia).
    assert (Ev : v = Z.lxor r (2 ^ (n - 1))) by (rewrite LA by lia; subst r; lia).
    rewrite Ev at 1. rewrite Z.lxor_assoc, Z.lxor_nilpotent, Z.lxor_0_r. subst r. lia.
Qed.

Ltac ei := rewrite !extract_info_spec by lia.

(* immediate extractors = the specification's immediates of the raw fields *)
Lemma extract_imm_i_spec w : 0 <= w < 4294967296 ->
  extract_imm_i w false = f_rs2 w + 32 * f_f7 w /\ extract_imm_i w true = immf_i (f_rs2 w) (f_f7 w).
Proof.
  intros Hw. unfold extract_imm_i, immf_i.
  assert (E : extract_info w 12 20 = f_rs2 w + 32 * f_f7 w).
  { ei. unfold f_rs2, f_f7. pows. Z.div_mod_to_equations; lia. }
  rewrite E. split; [reflexivity|]. apply to_signed_sext; [lia|].
  unfold f_rs2, f_f7. pows. Z.div_mod_to_equations; lia.
Qed.

Lemma extract_imm_s_spec w : 0 <= w < 4294967296 ->
  extract_imm_s w false = f_rd w + 32 * f_f7 w /\ extract_imm_s w true = immf_s (f_rd w) (f_f7 w).
Proof.
  intros Hw. unfold extract_imm_s, immf_s.
  assert (E : Z.lor (extract_info w 5 7) (Z.shiftl (extract_info w 7 25) 5) = f_rd w + 32 * f_f7 w).
  { ei. sh2mul. unfold f_rd, f_f7. pows. lor_low 32 5. lia. }
  rewrite E. split; [reflexivity|]. apply to_signed_sext; [lia|].
  unfold f_rd, f_f7. pows. Z.div_mod_to_equations; lia.
Qed.

Lemma extract_imm_b_spec w : 0 <= w < 4294967296 ->
  extract_imm_b w true = immf_b (f_rd w) (f_f7 w).
Proof.
  intros Hw. unfold extract_imm_b, immf_b.
  match goal with |- to_signed ?x 13 = sext ?y 13 => assert (E : x = y) end.
  { ei. sh2mul. unfold f_rd, f_f7. pows. change (2 ^ 4) with 16. change (2 ^ 31) with 2147483648.
    lor_low 32 5. lor_low 2048 11. lor_low 4096 12. Z.div_mod_to_equations; lia. }
  rewrite E. apply to_signed_sext; [lia|].
  unfold f_rd, f_f7. pows. Z.div_mod_to_equations; lia.
Qed.

Lemma extract_imm_j_spec w : 0 <= w < 4294967296 ->
  extract_imm_j w true = immf_j (f_f3 w) (f_rs1 w) (f_rs2 w) (f_f7 w).
Proof.
  intros Hw. unfold extract_imm_j, immf_j.
  match goal with |- to_signed ?x 21 = sext ?y 21 => assert (E : x = y) end.
  { ei. sh2mul. unfold f_f3, f_rs1, f_rs2, f_f7. pows.
    change (2 ^ 10) with 1024. change (2 ^ 31) with 2147483648.
    lor_low 2048 11. lor_low 4096 12. lor_low 1048576 20. Z.div_mod_to_equations; lia. }
  rewrite E. apply to_signed_sext; [lia|].
  unfold f_f3, f_rs1, f_rs2, f_f7. pows. Z.div_mod_to_equations; lia.
Qed.

Lemma extract_imm_u_spec w : 0 <= w < 4294967296 ->
  extract_imm_u w true = immf_u (f_f3 w) (f_rs1 w) (f_rs2 w) (f_f7 w) * 4096.
Proof.
  intros Hw. unfold extract_imm_u, immf_u.
  assert (E : Z.shiftl (extract_info w 20 12) 12 = (f_f3 w + 8 * f_rs1 w + 256 * f_rs2 w + 8192 * f_f7 w) * 4096).
  { ei. sh2mul. unfold f_f3, f_rs1, f_rs2, f_f7. pows. Z.div_mod_to_equations; lia. }
  rewrite E.
  assert (Hq : 0 <= f_f3 w + 8 * f_rs1 w + 256 * f_rs2 w + 8192 * f_f7 w < 1048576).
  { unfold f_f3, f_rs1, f_rs2, f_f7. Z.div_mod_to_equations; lia. }
  set (q := f_f3 w + 8 * f_rs1 w + 256 * f_rs2 w + 8192 * f_f7 w) in *.
  rewrite to_signed_sext by (pows; lia).
  unfold sext. change (2 ^ (32 - 1)) with 2147483648. change (2 ^ (20 - 1)) with 524288. pows.
  destruct (Z.ltb_spec (q * 4096) 2147483648); destruct (Z.ltb_spec q 524288); lia.
Qed.

(* pc-relative offset recovered from an auipc / (jalr|addi) pair *)
Lemma sign_extend_sext v n : 1 <= n -> 0 <= v < 2 ^ n -> sign_extend v n = sext v n.
Proof.
  intros Hn Hv. unfold sign_extend, sext. rewrite shiftl1 by lia.
  assert (E : 2 ^ n = 2 * 2 ^ (n - 1)).
  { replace n with (1 + (n - 1)) at 1 by lia. rewrite Z.pow_add_r by lia. reflexivity. }
  assert (Hp : 0 < 2 ^ (n - 1)) by (apply Z.pow_pos_nonneg; lia).
  rewrite land_ones_mod by lia.
  assert (F : Z.land v (2 ^ (n - 1)) = ((v / 2 ^ (n - 1)) mod 2) * 2 ^ (n - 1)).
  { pose proof (land_field v 1 (n - 1) ltac:(lia) ltac:(lia)) as F.
    rewrite shiftl_mul in F by lia. change (Z.ones 1) with 1 in F. rewrite Z.mul_1_l in F.
    change (2 ^ 1) with 2 in F. exact F. }
  rewrite F.
  destruct (Z.ltb_spec v (2 ^ (n - 1))).
  - rewrite (Z.div_small v) by lia. rewrite (Z.mod_small v) by lia. change (0 mod 2) with 0. lia.
  - assert (Q : v / 2 ^ (n - 1) = 1).
    { symmetry. apply (Z.div_unique v (2 ^ (n - 1)) 1 (v - 2 ^ (n - 1))); lia. }
    rewrite Q. change (1 mod 2) with 1.
    assert (R : v mod 2 ^ (n - 1) = v - 2 ^ (n - 1)).
    { symmetry. apply (Z.mod_unique v (2 ^ (n - 1)) 1 (v - 2 ^ (n - 1))); lia. }
    rewrite R. lia.
Qed.
