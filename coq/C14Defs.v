(* C14Defs.v — statements of C14 (identification sound and unambiguous). *)
From Coq Require Import ZArith List String Bool.
From Gigue Require Import Types Bits Isa Enc Disasm DisasmProofs GenTables CtorSpec C12Defs.
Import ListNotations.
Open Scope string_scope.
Open Scope Z_scope.

(* the table a user pairs with each constructor class ("the matching table"):
   INSTRUCTIONS_INFO, RIMI_INSTRUCTIONS_INFO | INSTRUCTIONS_INFO,
   FIXER_INSTRUCTIONS_INFO | INSTRUCTIONS_INFO *)
Definition table_for (c : ctor) : list iinfo :=
  match ctor_ext c with
  | ExtNone => base_table
  | ExtRimi => dict_union rimi_table base_table
  | ExtFixer => dict_union fixer_table base_table
  end.

(* name of the instruction definition a constructor emits *)
Definition own_key (c : ctor) : string :=
  let n := snd c in
  if fst c ==s "IInstruction" then
    (if (n ==s "jr") || (n ==s "ret") then "jalr" else if n ==s "nop" then "addi" else n)
  else if fst c ==s "JInstruction" then "jal" else n.

Definition class_type (c : ctor) : string :=
  let k := fst c in
  if (k ==s "RInstruction") || (k ==s "FIXERCustomInstruction") then "R"
  else if (k ==s "IInstruction") || (k ==s "RIMIIInstruction") then "I"
  else if k ==s "UInstruction" then "U" else if k ==s "JInstruction" then "J"
  else if (k ==s "SInstruction") || (k ==s "RIMISInstruction") then "S" else "B".

(* catch-all entries "to be redefined by subclasses" (DESIGN §6.1) *)
Definition placeholder (e : iinfo) : bool :=
  existsb (String.eqb (ii_name e)) ["custom0"; "custom1"; "custom2"; "custom3"; "unknown"].
Definition real_entries (tbl : list iinfo) : list iinfo :=
  filter (fun e => negb (ii_alias e) && negb (placeholder e)) tbl.

(* soundness of identification for one constructor *)
Definition ctor_identified (c : ctor) : Prop :=
  forall args g, in_range c args = true -> apply_c c args = Some g ->
  exists e, get_instruction_info (table_for c) (generate g) = Some e /\
            ii_name e = own_key c /\ ii_type e = class_type c.

(* no emitted word satisfies the pattern of a different non-alias definition *)
Definition ctor_unambiguous (c : ctor) : Prop :=
  forall args g, in_range c args = true -> apply_c c args = Some g ->
  forall B, In B (real_entries (table_for c)) -> ii_name B <> own_key c ->
  matches B (generate g) = false.

(* helper constants of a table entry fit in 32 bits and MATCH is the value
   under the mask *)
Definition helper_consts_ok (e : iinfo) : bool :=
  (0 <=? ii_mask e) && (ii_mask e <? 4294967296) && (0 <=? ii_val e) && (ii_val e <? 4294967296)
  && (Z.land (ii_val e) (ii_mask e) =? ii_val e).
