(* LoaderWitness.v — non-vacuity of Loader.base_image_from_files: a concrete
   machine state, built by storing the words of the witness image (Witness.v,
   the no-isolation variant) into an empty memory, satisfies every hypothesis
   of the theorem; hence the theorem's conclusion holds of it. *)
From Coq Require Import ZArith List String Bool Lia.
From Gigue Require Import Types Bits Isa Enc GenTables Builder Samplers Generator Machine MachineLemmas ImageSem
  BodyExec FrameExec CodeMem GenWF5 GenWF7 MethodContract SaveRestore TrampExec TrampsInv TrampStubs WholeImage Loader Witness.
Import ListNotations.
Open Scope list_scope.
Open Scope Z_scope.

(* ---- storing a list of words ---- *)
Fixpoint load_words (m : PM.t Z) (A : Z) (ws : list Z) : PM.t Z :=
  match ws with
  | [] => m
  | w :: tl => load_words (store_bytes m A 4 w) (A + 4) tl
  end.

Lemma load_words_other : forall ws m A b k,
  0 <= A -> 0 <= b -> b + Z.of_nat k <= A -> load_bytes (load_words m A ws) b k = load_bytes m b k.
Proof.
  induction ws as [|w tl IH]; intros m A b k HA Hb Hd; cbn [load_words]; [reflexivity|].
  rewrite IH by lia. apply load_store_other; try assumption. left. exact Hd.
Qed.

Lemma load_words_code_at : forall ws m A,
  0 <= A -> Forall (fun w => 0 <= w < 4294967296) ws -> code_at (load_words m A ws) A ws.
Proof.
  induction ws as [|w tl IH]; intros m A HA Hr j x Hj.
  - destruct j; discriminate.
  - inversion Hr as [|? ? Hw Hr']; subst. destruct j as [|j]; cbn [nth_error] in Hj.
    + inversion Hj; subst x. cbn [load_words]. replace (A + 4 * Z.of_nat 0) with A by lia.
      rewrite load_words_other by (try lia; cbn; lia).
      rewrite load_store_same by exact HA. change (2 ^ (8 * Z.of_nat 4)) with 4294967296.
      apply Z.mod_small. exact Hw.
    + cbn [load_words]. rewrite Nat2Z.inj_succ.
      replace (A + 4 * Z.succ (Z.of_nat j)) with (A + 4 + 4 * Z.of_nat j) by lia.
      apply (IH (store_bytes m A 4 w) (A + 4)); [lia|exact Hr'|exact Hj].
Qed.

(* ---- a decidable form of the PIC encodability side condition ---- *)
Definition addr_of (ms : list method) (id : nat) : Z :=
  match nth_error ms id with Some m => m_addr m | None => 0 end.

Definition pics_encodableb (img : image) : bool :=
  forallb (fun e => match e with
                    | EMethod _ => true
                    | EPic p =>
                        (Z.of_nat (List.length (p_methods p)) <? 2047) &&
                        forallb (fun mo => (-1048576 <=? mo) && (mo <? 1048576) && (mo mod 2 =? 0))
                                (moffs_of (p_addr p) 0 (map (addr_of (im_methods img)) (p_methods p)))
                    end) (im_elements img).

Lemma addrs_functional ms : forall ids addrs,
  Forall2 (fun id a => exists m, nth_error ms id = Some m /\ m_addr m = a) ids addrs -> addrs = map (addr_of ms) ids.
Proof.
  intros ids addrs H. induction H as [|id a ids addrs (m & Hn & Ha) _ IH]; [reflexivity|].
  cbn [map]. unfold addr_of at 1. rewrite Hn, Ha, IH. reflexivity.
Qed.

Lemma pics_encodableb_sound img : pics_encodableb img = true -> pics_encodable img.
Proof.
  unfold pics_encodableb, pics_encodable. intros H. rewrite forallb_forall in H. apply Forall_forall. intros e He.
  specialize (H e He). destruct e as [id|p]; [exact I|].
  apply andb_prop in H. destruct H as [H1 H2]. split; [apply Z.ltb_lt; exact H1|].
  intros addrs HF. rewrite (addrs_functional _ _ _ HF). apply Forall_forall. intros mo Hmo.
  rewrite forallb_forall in H2. specialize (H2 mo Hmo).
  apply andb_prop in H2. destruct H2 as [H2 H3]. apply andb_prop in H2. destruct H2 as [H2 H4].
  apply Z.leb_le in H2. apply Z.ltb_lt in H4. apply Z.eqb_eq in H3. lia.
Qed.

(* ---- the witness state ---- *)
Definition wimg : image :=
  match run_gen wcfg_base wscript_base with
  | OK (img, _) => img
  | Err _ => mk_image [] [] [] [] [] [] [] []
  end.

Lemma wimg_successful : successful wcfg_base wscript_base wimg.
Proof.
  unfold successful, wimg. split; [vm_compute; reflexivity|].
  destruct (run_gen wcfg_base wscript_base) as [[img rest]|e] eqn:E.
  - assert (R : rest = []).
    { assert (X : match run_gen wcfg_base wscript_base with OK (_, []) => true | _ => false end = true)
        by (vm_compute; reflexivity).
      rewrite E in X. destruct rest; [reflexivity|discriminate]. }
    rewrite R. reflexivity.
  - assert (X : match run_gen wcfg_base wscript_base with OK _ => true | Err _ => false end = true)
      by (vm_compute; reflexivity).
    rewrite E in X. discriminate.
Qed.

Definition wwords : list Z := im_int wimg ++ im_jit wimg.

Definition wL : layout :=
  mk_layout 4096 5120 (5120 + 4 * zlen (im_jit wimg))
            1048576 (1048576 + zlen (im_data wimg))      (* data *)
            2097152 3145728                               (* stack: 1 MiB *)
            4194304 (4194304 + zlen (im_ss wimg))         (* shadow stack (unused by this variant) *)
            5242880.                                      (* the caller's return address *)

Definition ws0 : mstate :=
  rset (rset (rset (mk_mstate 4096 (PM.empty Z) (load_words (PM.empty Z) 4096 wwords) 0 []) 1 5242880) 2 3145728) 31 1048576.

Lemma wwords_range : Forall (fun w => 0 <= w < 4294967296) wwords.
Proof.
  apply Forall_forall. intros w Hw.
  assert (H : forallb (fun w => (0 <=? w) && (w <? 4294967296)) wwords = true) by (vm_compute; reflexivity).
  rewrite forallb_forall in H. specialize (H w Hw). apply andb_prop in H. destruct H as [H1 H2].
  apply Z.leb_le in H1. apply Z.ltb_lt in H2. lia.
Qed.

Lemma ws0_init : Init wcfg_base wimg (Ntot wcfg_base wimg) wL ws0.
Proof.
  constructor.
  - vm_compute. split; [reflexivity|discriminate].
  - change (mem ws0) with (load_words (PM.empty Z) 4096 wwords). change (code_lo wL) with 4096.
    apply load_words_code_at; [lia|exact wwords_range].
  - vm_compute. reflexivity.
  - split; [reflexivity|]. vm_compute. reflexivity.
  - reflexivity.
  - split; [vm_compute; reflexivity|]. split; [vm_compute; reflexivity|].
    split; [vm_compute; discriminate|]. split; [vm_compute; discriminate|vm_compute; reflexivity].
  - split; [vm_compute; reflexivity|]. split; [vm_compute; reflexivity|].
    split; [vm_compute; split; [discriminate|reflexivity]|]. right. vm_compute. discriminate.
  - split; [vm_compute; reflexivity|]. split; [vm_compute; reflexivity|].
    split; [vm_compute; discriminate|]. split; [reflexivity|vm_compute; reflexivity].
  - exact I.
  - split; reflexivity.
  - unfold disjoint. repeat split; vm_compute; (left; discriminate) || (right; discriminate).
Qed.

(* every hypothesis of Loader.base_image_from_files is met by a concrete state,
   so its conclusion holds of it: the witness image runs to the halt address *)
Theorem base_image_from_files_nonvacuous :
  exists s' n, run (gv wcfg_base) wL n ws0 = (Next s', n) /\ pc s' = halt_at wL /\ dom s' = 0 /\ cfi s' = [].
Proof.
  destruct (plain_image_from_files wcfg_base wscript_base wimg wimg_successful (or_introl eq_refl) (fun H => ltac:(discriminate H)) wL ws0 _ ws0_init eq_refl)
    as (s' & eh & _ & _ & R & P & _ & _ & D & C).
  - reflexivity.
  - vm_compute. reflexivity.
  - apply pics_encodableb_sound. vm_compute. reflexivity.
  - intros r o Hin. unfold int_slots in Hin. cbn [In] in Hin.
    repeat (destruct Hin as [Hin|Hin]; [inversion Hin; subst; vm_compute; split; [discriminate|reflexivity]|]).
    destruct Hin.
  - exists s', (image_steps wcfg_base wimg eh). auto.
Qed.

(* the witness image does contain PICs and call-making methods *)
Example wimg_shape :
  existsb (fun e => match e with EPic _ => true | _ => false end) (im_elements wimg) = true /\
  existsb (fun m => negb (m_is_leaf m)) (im_methods wimg) = true.
Proof. split; vm_compute; reflexivity. Qed.


(* ---- the same for the trampoline variant ---- *)
Definition wimg_t : image :=
  match run_gen wcfg_tramp wscript_tramp with
  | OK (img, _) => img
  | Err _ => mk_image [] [] [] [] [] [] [] []
  end.

Lemma wimg_successful_t : successful wcfg_tramp wscript_tramp wimg_t.
Proof.
  unfold successful, wimg_t. split; [vm_compute; reflexivity|].
  destruct (run_gen wcfg_tramp wscript_tramp) as [[img rest]|e] eqn:E.
  - assert (R : rest = []).
    { assert (X : match run_gen wcfg_tramp wscript_tramp with OK (_, []) => true | _ => false end = true)
        by (vm_compute; reflexivity).
      rewrite E in X. destruct rest; [reflexivity|discriminate]. }
    rewrite R. reflexivity.
  - assert (X : match run_gen wcfg_tramp wscript_tramp with OK _ => true | Err _ => false end = true)
      by (vm_compute; reflexivity).
    rewrite E in X. discriminate.
Qed.

Definition wwords_t : list Z := im_int wimg_t ++ im_jit wimg_t.

Definition wL_t : layout :=
  mk_layout 4096 5120 (5120 + 4 * zlen (im_jit wimg_t))
            1048576 (1048576 + zlen (im_data wimg_t))      (* data *)
            2097152 3145728                               (* stack: 1 MiB *)
            4194304 (4194304 + zlen (im_ss wimg_t))         (* shadow stack (unused by this variant) *)
            5242880.                                      (* the caller's return address *)

Definition ws0_t : mstate :=
  rset (rset (rset (mk_mstate 4096 (PM.empty Z) (load_words (PM.empty Z) 4096 wwords_t) 0 []) 1 5242880) 2 3145728) 31 1048576.

Lemma wwords_range_t : Forall (fun w => 0 <= w < 4294967296) wwords_t.
Proof.
  apply Forall_forall. intros w Hw.
  assert (H : forallb (fun w => (0 <=? w) && (w <? 4294967296)) wwords_t = true) by (vm_compute; reflexivity).
  rewrite forallb_forall in H. specialize (H w Hw). apply andb_prop in H. destruct H as [H1 H2].
  apply Z.leb_le in H1. apply Z.ltb_lt in H2. lia.
Qed.

Lemma ws0_init_t : Init wcfg_tramp wimg_t (Ntot wcfg_tramp wimg_t) wL_t ws0_t.
Proof.
  constructor.
  - vm_compute. split; [reflexivity|discriminate].
  - change (mem ws0_t) with (load_words (PM.empty Z) 4096 wwords_t). change (code_lo wL_t) with 4096.
    apply load_words_code_at; [lia|exact wwords_range_t].
  - vm_compute. reflexivity.
  - split; [reflexivity|]. vm_compute. reflexivity.
  - reflexivity.
  - split; [vm_compute; reflexivity|]. split; [vm_compute; reflexivity|].
    split; [vm_compute; discriminate|]. split; [vm_compute; discriminate|vm_compute; reflexivity].
  - split; [vm_compute; reflexivity|]. split; [vm_compute; reflexivity|].
    split; [vm_compute; split; [discriminate|reflexivity]|]. right. vm_compute. discriminate.
  - split; [vm_compute; reflexivity|]. split; [vm_compute; reflexivity|].
    split; [vm_compute; discriminate|]. split; [reflexivity|vm_compute; reflexivity].
  - exact I.
  - split; reflexivity.
  - unfold disjoint. repeat split; vm_compute; (left; discriminate) || (right; discriminate).
Qed.

(* every hypothesis of Loader.base_image_from_files is met by a concrete state,
   so its conclusion holds of it: the witness image runs to the halt address *)
Theorem tramp_image_from_files_nonvacuous :
  exists s' n, run (gv wcfg_tramp) wL_t n ws0_t = (Next s', n) /\ pc s' = halt_at wL_t /\ dom s' = 0 /\ cfi s' = [].
Proof.
  destruct (plain_image_from_files wcfg_tramp wscript_tramp wimg_t wimg_successful_t (or_intror eq_refl) (fun _ => ltac:(vm_compute; discriminate)) wL_t ws0_t _ ws0_init_t eq_refl)
    as (s' & eh & _ & _ & R & P & _ & _ & D & C).
  - reflexivity.
  - vm_compute. reflexivity.
  - apply pics_encodableb_sound. vm_compute. reflexivity.
  - intros r o Hin. unfold int_slots in Hin. cbn [In] in Hin.
    repeat (destruct Hin as [Hin|Hin]; [inversion Hin; subst; vm_compute; split; [discriminate|reflexivity]|]).
    destruct Hin.
  - exists s', (image_steps wcfg_tramp wimg_t eh). auto.
Qed.

(* the witness image does contain PICs and call-making methods *)
Example wimg_shape_t :
  existsb (fun e => match e with EPic _ => true | _ => false end) (im_elements wimg_t) = true /\
  existsb (fun m => negb (m_is_leaf m)) (im_methods wimg_t) = true.
Proof. split; vm_compute; reflexivity. Qed.


Print Assumptions base_image_from_files_nonvacuous.
Print Assumptions tramp_image_from_files_nonvacuous.
