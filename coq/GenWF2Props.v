(* GenWF2Props.v — consequences of the structural invariant for whole images:
   the forms quoted by Properties/C04, C05, C06. *)
From Coq Require Import ZArith List String Bool Lia.
From Gigue Require Import Types Bits Isa Enc GenTables Builder Samplers Generator GenLemmas Machine ImageSem GenWF GenWFProps GenWF2 SliceLemmas GenWF3 GenWF4.
Import ListNotations.
Open Scope Z_scope.

Definition method_words (ms : list method) (id : nat) : list Z :=
  match nth_error ms id with Some m => map generate (m_instrs m) | None => [] end.

Lemma mtiles_words ms : forall ids a b,
  Forall (fun m => zlen (m_instrs m) = m_total m) ms ->
  mtiles ms ids a b -> zlen (flat_map (method_words ms) ids) * 4 = b - a.
Proof.
  intros ids a b Hl H. induction H as [a|id ids m a b Hn Ha Ht IH]; cbn [flat_map]; [unfold zlen; cbn; lia|].
  rewrite zlen_app, Z.mul_add_distr_r, IH. unfold method_words. rewrite Hn.
  rewrite Forall_forall in Hl. specialize (Hl m (nth_error_In _ _ Hn)).
  unfold zlen in *. rewrite map_length. lia.
Qed.

Lemma elt_words_eq ms e :
  elt_words ms e = match e with
                   | EMethod id => method_words ms id
                   | EPic p => map generate (p_switch p) ++ flat_map (method_words ms) (p_methods p)
                   end.
Proof. destruct e; reflexivity. Qed.

Lemma tiles_words ms : forall es a b,
  Forall (fun m => zlen (m_instrs m) = m_total m) ms ->
  tiles ms es a b -> zlen (flat_map (elt_words ms) es) * 4 = b - a.
Proof.
  intros es a b Hl H. induction H; cbn [flat_map].
  - unfold zlen; cbn; lia.
  - rewrite zlen_app, Z.mul_add_distr_r, IHtiles, elt_words_eq.
    pose proof (mtiles_words ms [id] a b Hl H) as W. cbn [flat_map] in W. rewrite app_nil_r in W. lia.
  - rewrite zlen_app, Z.mul_add_distr_r, IHtiles, elt_words_eq, zlen_app, Z.mul_add_distr_r.
    rewrite (mtiles_words ms _ _ _ Hl H2).
    assert (L : zlen (map generate (p_switch p)) = switch_size (p_cases p)).
    { unfold zlen in *. rewrite map_length. exact H1. }
    rewrite L. lia.
Qed.

Lemma tiles_split ms : forall es1 e es2 a c,
  tiles ms (es1 ++ e :: es2) a c ->
  exists b, tiles ms es1 a b /\ elt_addr ms e = b /\ tiles ms (e :: es2) b c.
Proof.
  induction es1 as [|x tl IH]; intros e es2 a c H; cbn [app] in H.
  - exists a. split; [constructor|]. split; [|exact H].
    inversion H; subst; cbn [elt_addr].
    + match goal with Hm : mtiles _ (_ :: nil) _ _ |- _ => inversion Hm; subst end.
      match goal with Hn : nth_error ms _ = Some _ |- _ => rewrite Hn end. reflexivity.
    + reflexivity.
  - inversion H; subst.
    + match goal with Ht : tiles ms (tl ++ _) _ _ |- _ => destruct (IH _ _ _ _ Ht) as (b' & T1 & E & T2) end.
      exists b'. split; [econstructor; eassumption|auto].
    + match goal with Ht : tiles ms (tl ++ _) _ _ |- _ => destruct (IH _ _ _ _ Ht) as (b' & T1 & E & T2) end.
      exists b'. split; [econstructor; try eassumption; reflexivity|auto].
Qed.

Lemma len_total c m : mok2 c m -> zlen (m_instrs m) = m_total m.
Proof. intros [_ [L Hb]]. rewrite L. unfold m_total. lia. Qed.

Lemma Forall_len_total c ms :
  Forall (mok2 c) ms -> Forall (fun m => zlen (m_instrs m) = m_total m) ms.
Proof. intros H. eapply Forall_impl; [|exact H]. intros m. apply len_total. Qed.

(* accepted configurations: the facts the structural theorems use *)
Lemma cfg_ok_sizes c : cfg_ok c = true -> 1 <= c_nb_methods c /\ 0 <= method_size c.
Proof.
  intros Hc. unfold cfg_ok in Hc. repeat (apply andb_prop in Hc; destruct Hc as [Hc ?]).
  unfold cfg_sizes in Hc. repeat (apply andb_prop in Hc; destruct Hc as [Hc ?]).
  apply Z.leb_le in Hc. unfold method_size.
  match goal with Hq : (1 <=? c_jit_size c / c_nb_methods c) = true |- _ => apply Z.leb_le in Hq end. lia.
Qed.

Lemma successful_wf c script img : successful c script img -> image_wf c img /\ Sites c (im_methods img).
Proof.
  intros [Hc Hr]. destruct (cfg_ok_facts c Hc) as [F R]. destruct (cfg_ok_sizes c Hc) as [Hnb Hms].
  split; [exact (run_gen_wf c script img [] F Hms Hnb Hr)|exact (run_gen_sites c script img [] F Hms Hnb Hr)].
Qed.

(* ---------------------------------------------------------------- C04 *)
(* every recorded element address equals the byte position of the element's
   first word in jit.bin *)
Theorem element_address_is_position c script img :
  successful c script img ->
  forall es1 e es2, im_elements img = es1 ++ e :: es2 ->
  exists pre rest, im_jit img = pre ++ elt_words (im_methods img) e ++ rest /\
                   jit_start_al c + zlen pre * 4 = elt_addr (im_methods img) e.
Proof.
  intros Hs es1 e es2 Hes. destruct (successful_wf c script img Hs) as [W _].
  destruct (iw_layout c img W) as (e' & d & HP).
  exists (map generate (List.concat (im_tramps img)) ++ flat_map (elt_words (im_methods img)) es1),
         (flat_map (elt_words (im_methods img)) es2).
  split.
  - rewrite (iw_jit c img W), Hes, flat_map_app. cbn [flat_map]. rewrite <- !app_assoc. reflexivity.
  - pose proof (p2_tiles _ _ _ _ _ _ HP) as T. rewrite Hes in T.
    destruct (tiles_split _ _ _ _ _ _ T) as (b & T1 & E & _).
    pose proof (tiles_words _ _ _ _ (Forall_len_total c _ (p2_methods _ _ _ _ _ _ HP)) T1) as L.
    rewrite zlen_app. rewrite E.
    assert (Lt : zlen (map generate (List.concat (im_tramps img))) = zlen (List.concat (im_tramps img)))
      by (unfold zlen; rewrite map_length; reflexivity).
    rewrite Lt. lia.
Qed.

(* the jit file is exactly trampolines ++ elements, gap-free: its length is the end of the tiling *)
Theorem jit_is_exact_tiling c script img :
  successful c script img ->
  exists e, tiles (im_methods img) (im_elements img) (jit_start_al c + zlen (List.concat (im_tramps img)) * 4) e /\
            jit_start_al c + zlen (im_jit img) * 4 = e /\
            flat_map element_method_ids (im_elements img) = seq 0 (List.length (im_methods img)).
Proof.
  intros Hs. destruct (successful_wf c script img Hs) as [W _].
  destruct (iw_layout c img W) as (e & d & HP). exists e.
  split; [apply (p2_tiles _ _ _ _ _ _ HP)|]. split; [|apply (p2_ids _ _ _ _ _ _ HP)].
  pose proof (tiles_words _ _ _ _ (Forall_len_total c _ (p2_methods _ _ _ _ _ _ HP)) (p2_tiles _ _ _ _ _ _ HP)) as L.
  rewrite (iw_jit c img W), zlen_app.
  assert (Lt : zlen (map generate (List.concat (im_tramps img))) = zlen (List.concat (im_tramps img)))
    by (unfold zlen; rewrite map_length; reflexivity).
  rewrite Lt. lia.
Qed.

(* the interpreter file is padded to exactly the distance between the two (aligned) start
   addresses, and a successful generation means the interpreter loop fits *)
Theorem interpreter_padding_exact c script img :
  successful c script img ->
  zlen (im_int img) * 4 = jit_start_al c - int_start_al c /\
  int_start_al c + zlen (im_int_instrs img) * 4 <= jit_start_al c /\
  exists fill, im_int img = map generate (im_int_instrs img) ++ fill.
Proof.
  intros Hs. destruct (successful_wf c script img Hs) as [W _].
  destruct (iw_int_pad c img W) as (fill & E & L).
  split; [exact L|]. split; [apply (iw_int_fits c img W)|]. exists fill. exact E.
Qed.

(* ---------------------------------------------------------------- C05 *)
Theorem method_count_exact c script img :
  successful c script img -> zlen (im_methods img) = c_nb_methods c.
Proof.
  intros Hs. destruct (successful_wf c script img Hs) as [W _].
  destruct (iw_layout c img W) as (e & d & HP). apply (p2_count _ _ _ _ _ _ HP).
Qed.

(* depth-0 methods have no callee, deeper ones exactly their declared number *)
Theorem callee_counts_exact c script img :
  successful c script img ->
  Forall (fun m => if m_depth m =? 0 then m_callees m = [] else zlen (m_callees m) = m_calls m) (im_methods img).
Proof.
  intros Hs. destruct (successful_wf c script img Hs) as [W _]. exact (iw_done c img W).
Qed.

(* ---------------------------------------------------------------- C06 *)
Theorem calls_decrease_depth c script img :
  successful c script img ->
  Forall (fun m => Forall (fun cal => match nth_error (im_methods img) cal with
                                      | Some cm => m_depth cm < m_depth m | None => False end) (m_callees m))
         (im_methods img).
Proof.
  intros Hs. destruct (successful_wf c script img Hs) as [W _].
  destruct (iw_layout c img W) as (e & d & HP). pose proof (p2_callees _ _ _ _ _ _ HP) as C.
  unfold callees_ok in C. eapply Forall_impl; [|exact C]. intros m Hm.
  eapply Forall_impl; [|exact Hm]. intros cal (cm & Hn & Hd). cbv beta. rewrite Hn. exact Hd.
Qed.

(* hence no method calls itself, directly: a callee is strictly shallower *)
Corollary no_direct_recursion c script img :
  successful c script img ->
  forall id m, nth_error (im_methods img) id = Some m -> ~ In id (m_callees m).
Proof.
  intros Hs id m Hn Hin. pose proof (calls_decrease_depth c script img Hs) as H.
  rewrite Forall_forall in H. specialize (H m (nth_error_In _ _ Hn)).
  rewrite Forall_forall in H. specialize (H id Hin). rewrite Hn in H. lia.
Qed.

(* the call graph is acyclic: no method reaches itself directly or transitively *)
Inductive reaches (ms : list method) : nat -> nat -> Prop :=
| r_step a m b : nth_error ms a = Some m -> In b (m_callees m) -> reaches ms a b
| r_trans a b c : reaches ms a b -> reaches ms b c -> reaches ms a c.

Lemma reaches_depth ms :
  Forall (fun m => Forall (fun cal => match nth_error ms cal with
                                      | Some cm => m_depth cm < m_depth m | None => False end) (m_callees m)) ms ->
  forall a b, reaches ms a b ->
  exists ma mb, nth_error ms a = Some ma /\ nth_error ms b = Some mb /\ m_depth mb < m_depth ma.
Proof.
  intros H a b R. induction R as [a m b Hn Hin|a b c R1 IH1 R2 IH2].
  - rewrite Forall_forall in H. specialize (H m (nth_error_In _ _ Hn)). rewrite Forall_forall in H.
    specialize (H b Hin). destruct (nth_error ms b) as [mb|] eqn:Eb; [|contradiction]. exists m, mb. auto.
  - destruct IH1 as (ma & mb & Ha & Hb & D1). destruct IH2 as (mb' & mc & Hb' & Hc & D2).
    rewrite Hb in Hb'. inversion Hb'; subst mb'. exists ma, mc. repeat split; try assumption. lia.
Qed.

Theorem call_graph_acyclic c script img :
  successful c script img -> forall id, ~ reaches (im_methods img) id id.
Proof.
  intros Hs id R. destruct (reaches_depth _ (calls_decrease_depth c script img Hs) id id R) as (ma & mb & Ha & Hb & D).
  rewrite Ha in Hb. inversion Hb; subst. lia.
Qed.

(* ---------------------------------------------------------------- C04 / C05: call sites *)
(* every callee of every method owns a slot inside the method's body; slots are
   pairwise a call-size apart; the slot holds exactly the call stub built for the
   offset from the slot's address to the callee's recorded address *)
Theorem call_sites_exact c script img :
  successful c script img -> Forall (sites_ok c (im_methods img)) (im_methods img).
Proof.
  intros Hs. exact (proj2 (successful_wf c script img Hs)).
Qed.

(* ---------------------------------------------------------------- C05: the interpreter loop *)
(* prologue ++ one call stub per top-level element (in an order that is a
   permutation of the element list) ++ epilogue; each stub is the one built for
   the offset from its own address to the element (and to the call trampoline) *)
Theorem interpreter_calls_each_element_once c script img :
  successful c script img -> int_ok c (im_methods img) (im_elements img) (im_int_instrs img).
Proof. intros [_ Hr]. exact (run_gen_int c script img [] Hr). Qed.
