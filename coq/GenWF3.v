(* GenWF3.v — Layer A: call sites.  After patching, every callee of every
   method has its own slot inside the method body, slots are pairwise disjoint,
   and the instructions in the slot are exactly the call stub for the offset
   from the slot's address to the callee's recorded address (C04 / C05). *)
From Coq Require Import ZArith List String Bool Lia.
From Gigue Require Import Types Bits Isa Enc EncProofs GenTables Builder Samplers Generator GenLemmas GenWF GenWF2 SliceLemmas.
Import ListNotations.
Open Scope Z_scope.

Definition site_ok (c : config) (ms : list method) (m : method) (i : Z) (cal : nat) : Prop :=
  exists cm stub, nth_error ms cal = Some cm /\
    method_base_call (bvariant_of (c_variant c)) (m_addr cm - (m_addr m + i * 4)) = OK stub /\
    window (m_instrs m) (Z.to_nat i) (List.length stub) = stub /\
    m_pro m <= i /\ i + m_call_size m <= m_pro m + m_body m.

Definition disjoint_slots (cs : Z) (idx : list Z) : Prop :=
  ForallOrdPairs (fun i j => i + cs <= j \/ j + cs <= i) idx.

Definition sites_ok (c : config) (ms : list method) (m : method) : Prop :=
  exists idx, Forall2 (site_ok c ms m) idx (m_callees m) /\ disjoint_slots (m_call_size m) idx.

Definition Sites (c : config) (ms : list method) : Prop := Forall (sites_ok c ms) ms.

Lemma site_ok_ext c ms ms' m i cal :
  (forall j x, nth_error ms j = Some x -> exists x', nth_error ms' j = Some x' /\ m_addr x' = m_addr x) ->
  site_ok c ms m i cal -> site_ok c ms' m i cal.
Proof.
  intros Hext (cm & stub & Hn & Hs & Hw & Hb). destruct (Hext _ _ Hn) as (cm' & Hn' & Ea).
  exists cm', stub. rewrite Ea. auto.
Qed.

Lemma Forall2_weaken {A B} (R R' : A -> B -> Prop) :
  (forall a b, R a b -> R' a b) -> forall la lb, Forall2 R la lb -> Forall2 R' la lb.
Proof. intros H la lb F. induction F; constructor; auto. Qed.

Lemma Forall2_len {A B} (R : A -> B -> Prop) la lb : Forall2 R la lb -> List.length la = List.length lb.
Proof. intros F. induction F; cbn; congruence. Qed.

Lemma sites_ok_ext c ms ms' m :
  (forall j x, nth_error ms j = Some x -> exists x', nth_error ms' j = Some x' /\ m_addr x' = m_addr x) ->
  sites_ok c ms m -> sites_ok c ms' m.
Proof.
  intros Hext (idx & F2 & D). exists idx. split; [|exact D].
  eapply Forall2_weaken; [|exact F2]. intros i cal. apply site_ok_ext. exact Hext.
Qed.

(* distinct sample values on the same residue class are a call-size apart *)
Lemma sample_disjoint start stop cs idx :
  0 < cs -> Forall (fun v => stop < v <= start /\ (start - v) mod cs = 0) idx -> distinct idx = true ->
  disjoint_slots cs idx.
Proof.
  intros Hcs. induction idx as [|x tl IH]; intros HF Hd; [constructor|].
  cbn [distinct] in Hd. apply andb_prop in Hd. destruct Hd as [Hx Hd]. apply negb_true_iff in Hx.
  inversion HF as [|? ? [_ Hmx] HF']; subst. constructor; [|apply IH; assumption].
  apply Forall_forall. intros y Hy. rewrite Forall_forall in HF'. destruct (HF' y Hy) as [_ Hmy].
  assert (Hne : x <> y).
  { intros ->. assert (E : existsb (Z.eqb y) tl = true) by (apply existsb_exists; exists y; split; [exact Hy|apply Z.eqb_refl]).
    congruence. }
  apply Z.mod_divide in Hmx; [|lia]. apply Z.mod_divide in Hmy; [|lia].
  destruct Hmx as (qx & Ex). destruct Hmy as (qy & Ey).
  assert (Ed : y - x = (qx - qy) * cs) by lia.
  destruct (Z_lt_le_dec x y) as [Hlt|Hge]; [left|right].
  - assert (0 < qx - qy) by nia. nia.
  - assert (x - y = (qy - qx) * cs) by lia. assert (0 < qy - qx) by nia. nia.
Qed.

Lemma window_len_stub (l : list gi) i (stub : list gi) :
  window l (Z.to_nat i) (Z.to_nat (zlen stub)) = window l (Z.to_nat i) (List.length stub).
Proof. unfold zlen. rewrite Nat2Z.id. reflexivity. Qed.

Lemma patch_calls_sites c self lo hi : forall idx cms instrs out,
  0 <= lo -> hi <= zlen instrs ->
  Forall (fun i => lo <= i /\ i + ga_call_size (attrs_of (c_variant c)) <= hi) idx ->
  disjoint_slots (ga_call_size (attrs_of (c_variant c))) idx ->
  List.length idx = List.length cms ->
  patch_calls c self instrs idx cms = OK out ->
  Forall2 (fun i cm => exists stub, method_base_call (bvariant_of (c_variant c)) (m_addr cm - (self + i * 4)) = OK stub /\
                                    window out (Z.to_nat i) (List.length stub) = stub) idx cms
  /\ (forall j n, 0 <= j -> 0 <= n ->
        Forall (fun i => j + n <= i \/ i + ga_call_size (attrs_of (c_variant c)) <= j) idx ->
        window out (Z.to_nat j) (Z.to_nat n) = window instrs (Z.to_nat j) (Z.to_nat n)).
Proof.
  set (cs := ga_call_size (attrs_of (c_variant c))).
  induction idx as [|i it IH]; intros cms instrs out Hlo Hhi Hidx Hdis Hlen; cbn [patch_calls].
  - destruct cms; [|discriminate]. intros H; inversion H; subst. split; [constructor|reflexivity].
  - destruct cms as [|cm ct]; [discriminate|].
    destruct (method_base_call _ _) as [stub|e] eqn:Es; cbn [bind]; [|discriminate].
    inversion Hidx as [|? ? [Hi1 Hi2] Hit]; subst.
    inversion Hdis as [|? ? Hhead Htail]; subst.
    pose proof (method_base_call_len _ _ _ Es) as Hs. fold cs in Hs.
    assert (Hb : (Z.to_nat i + List.length stub <= List.length instrs)%nat) by (unfold zlen in *; lia).
    assert (L : zlen (replace_slice instrs (Z.to_nat i) stub) = zlen instrs).
    { unfold zlen. rewrite replace_slice_len; [reflexivity|exact Hb]. }
    intros H. destruct (IH ct (replace_slice instrs (Z.to_nat i) stub) out Hlo ltac:(rewrite L; exact Hhi) Hit Htail
                           ltac:(cbn in Hlen; lia) H) as [F2 Frame].
    split.
    + constructor; [|exact F2]. exists stub. split; [exact Es|].
      rewrite <- window_len_stub. rewrite Frame; [| lia | unfold zlen; lia |].
      * rewrite window_len_stub. apply window_written. exact Hb.
      * eapply Forall_impl; [|exact Hhead]. intros i' Hi'. cbv beta. unfold zlen in *. lia.
    + intros j n Hj Hn Hall. inversion Hall as [|? ? Hji Hall']; subst.
      rewrite Frame by assumption. apply window_untouched; [exact Hb|]. unfold zlen in Hs. lia.
Qed.

(* ------------------------------------------------------------------ the invariant *)
Lemma get_methods_nth ms d es : forall ids,
  hoare (objs_are ms d es) (get_methods ids)
        (fun cms s => objs_are ms d es s /\ Forall2 (fun id cm => nth_error ms id = Some cm) ids cms).
Proof.
  induction ids as [|id tl IH]; cbn [get_methods].
  - intros s H. cbn. split; [exact H|constructor].
  - eapply hoare_bind with (Q := fun m s => objs_are ms d es s /\ nth_error ms id = Some m).
    + intros s H. unfold get_method. destruct H as (E1 & E2 & E3). rewrite E1.
      destruct (nth_error ms id) eqn:En; [|exact I]. split; [repeat split; assumption|reflexivity].
    + intros m. apply hoare_pure_pre. intros Hm. eapply hoare_bind; [exact IH|]. intros rest.
      intros s [H F2]. cbn. split; [exact H|constructor; assumption].
Qed.

Lemma Sites_set c ms id m m' :
  Sites c ms -> nth_error ms id = Some m -> m_addr m' = m_addr m -> sites_ok c ms m' -> Sites c (set_nth ms id m').
Proof.
  intros HS Hn Ha Hm'.
  assert (Hlt : (id < List.length ms)%nat) by (apply nth_error_Some; congruence).
  assert (Ext : forall j x, nth_error ms j = Some x ->
                exists x', nth_error (set_nth ms id m') j = Some x' /\ m_addr x' = m_addr x).
  { intros j x Hj. rewrite nth_error_set_nth by exact Hlt. destruct (Nat.eqb_spec j id) as [->|Hne].
    - exists m'. rewrite Hn in Hj. inversion Hj; subst x. auto.
    - exists x. auto. }
  unfold Sites, set_nth. apply Forall_app. split; [apply Forall_firstn|constructor; [|apply Forall_skipn]].
  - eapply Forall_impl; [|exact HS]. intros x. apply sites_ok_ext. exact Ext.
  - eapply sites_ok_ext; [exact Ext|exact Hm'].
  - eapply Forall_impl; [|exact HS]. intros x. apply sites_ok_ext. exact Ext.
Qed.

Lemma Forall2_compose {A B C} (R : A -> B -> Prop) (S : C -> B -> Prop) (T : A -> C -> Prop) :
  (forall a b c, R a b -> S c b -> T a c) ->
  forall la lb lc, Forall2 R la lb -> Forall2 S lc lb -> Forall2 T la lc.
Proof.
  intros H la lb lc H1. revert lc. induction H1; intros lc H2; inversion H2; subst; constructor; eauto.
Qed.

Lemma call_size_pos : forallb (fun v => 0 <? ga_call_size (attrs_of v)) [GBase; GTramp; GRimiSS; GRimiFull; GFixer] = true.
Proof. vm_compute. reflexivity. Qed.
Lemma call_size_pos_at v : 0 < ga_call_size (attrs_of v).
Proof.
  pose proof call_size_pos as W. cbn [forallb] in W. repeat (apply andb_prop in W; destruct W as [? W]).
  apply Z.ltb_lt. destruct v; assumption.
Qed.

Lemma patch_with_sites c start e ms d es id m :
  P2o c start e ms d es -> Sites c ms -> nth_error ms id = Some m ->
  hoare (objs_are ms d es)
    (let pc := possible_callees d (m_depth m) in
     let* picks := draw_choices (zlen pc) (m_calls m) WNone in
     let callee_ids := map (fun i => nth (Z.to_nat i) pc O) picks in
     if nat_mem id callee_ids then fail ERecursive else
     let* cms := get_methods callee_ids in
     if existsb (fun cm => nat_mem id (m_callees cm)) cms then fail EMutual else
     let cs := m_call_size m in
     let* idx := draw_sample (m_pro m + m_body m - cs) (m_pro m - 1) (- cs) (zlen callee_ids) in
     let* ins := lift (patch_calls c (m_addr m) (m_instrs m) idx cms) in
     set_method id (mk_method (m_addr m) (m_body m) (m_calls m) (m_depth m) (m_call_size m) (m_pro m)
                      (m_epi m) ins callee_ids))
    (fun _ s' => Sites c (g_methods s')).
Proof.
  intros HP HS Hn. pose proof (objs_are_stable ms d es) as St. cbv zeta.
  assert (Hm2 : mok2 c m).
  { pose proof (p2_methods _ _ _ _ _ _ HP) as Ms. rewrite Forall_forall in Ms. apply Ms. eapply nth_error_In. exact Hn. }
  destruct Hm2 as [Sh [Len Hbody]].
  eapply hoare_bind; [apply draw_choices_spec; exact St|]. intros picks. apply hoare_pure_pre2. intros _ _.
  destruct (nat_mem id _); [apply hoare_fail|].
  eapply hoare_bind; [apply get_methods_nth|]. intros cms. apply hoare_pure_pre. intros Hcms.
  destruct (existsb _ cms); [apply hoare_fail|].
  eapply hoare_bind; [apply draw_sample_spec; exact St|]. intros idx.
  apply hoare_pure_pre. intros (Hk & Hidx & Hdist).
  eapply hoare_bind; [apply hoare_lift|]. intros ins. apply hoare_pure_pre. intros Hins.
  intros s (E1 & E2 & E3). unfold set_method. cbn [fst snd g_methods]. rewrite E1.
  set (callee_ids := map (fun i => nth (Z.to_nat i) (possible_callees d (m_depth m)) O) picks) in *.
  fold (set_nth ms id (mk_method (m_addr m) (m_body m) (m_calls m) (m_depth m) (m_call_size m)
                                 (m_pro m) (m_epi m) ins callee_ids)).
  destruct (frame_lens_nonneg_at (c_variant c) (m_is_leaf m)) as [Hp0 He0].
  pose proof (call_size_pos_at (c_variant c)) as Hcs.
  assert (Ecs : m_call_size m = ga_call_size (attrs_of (c_variant c))) by apply (sh_cs c m Sh).
  assert (Hbounds : Forall (fun i => m_pro m <= i /\ i + ga_call_size (attrs_of (c_variant c)) <= m_pro m + m_body m) idx).
  { eapply Forall_impl; [|exact Hidx]. intros i [Hi _]. cbv beta. rewrite <- Ecs. lia. }
  assert (Hdis : disjoint_slots (ga_call_size (attrs_of (c_variant c))) idx).
  { eapply (sample_disjoint (m_pro m + m_body m - m_call_size m) (m_pro m - 1)); [exact Hcs| |exact Hdist].
    eapply Forall_impl; [|exact Hidx]. intros v [Hv Hm]. cbv beta. split; [exact Hv|].
    rewrite <- Ecs. replace (m_call_size m) with (- - m_call_size m) at 2 by lia. exact Hm. }
  assert (Hl : List.length idx = List.length cms).
  { apply Forall2_len in Hcms. unfold zlen in Hk. lia. }
  destruct (patch_calls_sites c (m_addr m) (m_pro m) (m_pro m + m_body m) idx cms (m_instrs m) ins
              ltac:(rewrite (sh_pro c m Sh); exact Hp0) ltac:(rewrite Len, (sh_epi c m Sh); lia)
              Hbounds Hdis Hl Hins) as [F2 _].
  eapply Sites_set; [exact HS|exact Hn|reflexivity|].
  exists idx. cbn [m_callees m_call_size]. split; [|rewrite Ecs; exact Hdis].
  assert (F2' : Forall2 (fun i cm => (exists stub, method_base_call (bvariant_of (c_variant c)) (m_addr cm - (m_addr m + i * 4)) = OK stub /\
                                      window ins (Z.to_nat i) (List.length stub) = stub) /\
                                     (m_pro m <= i /\ i + m_call_size m <= m_pro m + m_body m)) idx cms).
  { clear - F2 Hbounds Ecs. induction F2; inversion Hbounds; subst; constructor; [|auto].
    split; [assumption|]. rewrite Ecs. assumption. }
  eapply (Forall2_compose _ (fun id cm => nth_error ms id = Some cm)); [|exact F2'|exact Hcms].
  intros i cm cal ((stub & Hs & Hw) & Hb) Hcal. exists cm, stub. cbn [m_addr m_instrs m_pro m_call_size m_body]. auto.
Qed.

Lemma hoare_conj {A} (P : gstate -> Prop) (m : M A) Q1 Q2 :
  hoare P m Q1 -> hoare P m Q2 -> hoare P m (fun a s => Q1 a s /\ Q2 a s).
Proof.
  intros H1 H2 s HP. specialize (H1 s HP). specialize (H2 s HP). destruct (m s) as [[a s']|e]; [split; assumption|exact I].
Qed.

Lemma patch_method_sites c start e todo id :
  hoare (fun s => (P2 c start e s /\ pending (id :: todo) (g_methods s)) /\ Sites c (g_methods s)) (patch_method c id)
        (fun _ s => (P2 c start e s /\ pending todo (g_methods s)) /\ Sites c (g_methods s)).
Proof.
  apply hoare_conj.
  - eapply hoare_conseq; [|intros a s0 H0; exact H0|apply patch_method_spec2]. intros s [H _]. exact H.
  - intros s [[HP Hpend] HS]. unfold patch_method, mbind at 1, get_method.
    destruct (nth_error (g_methods s) id) as [m|] eqn:En; [|exact I].
    destruct (m_depth m =? 0); [cbn; exact HS|].
    exact (patch_with_sites c start e _ _ _ id m HP HS En s (conj eq_refl (conj eq_refl eq_refl))).
Qed.

Lemma patch_ids_sites c start e : forall ids,
  hoare (fun s => (P2 c start e s /\ pending ids (g_methods s)) /\ Sites c (g_methods s)) (patch_ids c ids)
        (fun _ s => (P2 c start e s /\ pending [] (g_methods s)) /\ Sites c (g_methods s)).
Proof.
  induction ids as [|id tl IH]; cbn [patch_ids].
  - intros s H. cbn. exact H.
  - eapply hoare_bind; [apply patch_method_sites|]. intro. exact IH.
Qed.

Lemma Sites_initial c ms : Forall (fun m => m_callees m = []) ms -> Sites c ms.
Proof.
  intros H. unfold Sites. eapply Forall_impl; [|exact H]. intros m Hc. exists []. rewrite Hc. split; constructor.
Qed.

Theorem gen_main_sites c :
  cfg_facts c -> 0 <= method_size c -> 1 <= c_nb_methods c ->
  hoare empty_objects (gen_main c) (fun img _ => Sites c (im_methods img)).
Proof.
  intros F Hms Hnb. unfold gen_main.
  destruct (c_jit_start c <? c_int_start c); [apply hoare_fail|].
  destruct (c_nb_methods c =? 0); [apply hoare_fail|].
  assert (St : stable empty_objects).
  { intros s s' (A & B & C) (E1 & E2 & E3) _. unfold empty_objects. rewrite E1, E2, E3. auto. }
  eapply hoare_bind with (Q := fun _ s => empty_objects s).
  { destruct (uses_tramp (c_variant c)).
    - eapply hoare_bind; [apply hoare_lift|]. intros t1. apply hoare_pure_pre. intros _.
      eapply hoare_bind; [apply hoare_lift|]. intros t2. apply hoare_pure_pre. intros _.
      intros s H. cbn. exact H.
    - intros s H. cbn. exact H. }
  intros tramps. cbv zeta.
  set (start := jit_start_al c + zlen (List.concat tramps) * 4).
  eapply hoare_bind; [apply fill_jit_code_spec2; assumption|]. intros e.
  eapply hoare_bind with (Q := fun _ s => Sites c (g_methods s)).
  { intros s [H1 H2]. unfold patch_jit_calls.
    destruct (P1_P2 c start e s H1 H2) as [HP Hpend]. rewrite (p2_ids _ _ _ _ _ _ HP).
    assert (HS : Sites c (g_methods s)).
    { apply Sites_initial. eapply Forall_impl; [|apply (p1_methods _ _ _ _ H1)]. intros m [_ [Ec _]]. exact Ec. }
    pose proof (patch_ids_sites c start e _ s (conj (conj HP Hpend) HS)) as G.
    destruct (patch_ids c _ s) as [[a s']|err]; [|exact I]. destruct G as [_ G]. exact G. }
  intro.
  assert (St2 : stable (fun s => Sites c (g_methods s))).
  { intros s s' A (E1 & _) _. rewrite E1. exact A. }
  eapply hoare_bind; [apply fill_interpretation_loop_stable; exact St2|]. intros ints.
  apply hoare_pure_pre. intros _.
  intros s HS. cbv beta zeta.
  assert (G : hoare (objs_are (g_methods s) (g_depths s) (g_elements s))
    (let* nop := lift nop_ in
     let* data := generate_data (c_data_strategy c) (c_data_size c) in
     let ss := match c_variant c with
               | GRimiSS | GRimiFull => zeros (Z.to_nat (align (c_ss_size c) 8))
               | _ => zeros 8
               end in
     ret (mk_image (map generate ints ++ repeat_z (generate nop)
                      (Z.to_nat ((jit_start_al c - (int_start_al c + zlen (map generate ints) * 4)) / 4)))
            (map generate (List.concat tramps) ++ flat_map (elt_words (g_methods s)) (g_elements s)) data ss
            (g_methods s) (g_elements s) tramps ints))
    (fun img _ => Sites c (im_methods img))).
  { eapply hoare_bind; [apply hoare_lift|]. intros nop. apply hoare_pure_pre. intros _.
    eapply hoare_bind; [apply generate_data_spec; apply objs_are_stable|]. intros data.
    intros s0 _. cbn. exact HS. }
  exact (G s (conj eq_refl (conj eq_refl eq_refl))).
Qed.

Theorem run_gen_sites c script img rest :
  cfg_facts c -> 0 <= method_size c -> 1 <= c_nb_methods c -> run_gen c script = OK (img, rest) -> Sites c (im_methods img).
Proof.
  intros F Hms Hnb H. unfold run_gen in H.
  pose proof (gen_main_sites c F Hms Hnb (mk_gs script [] [] []) (conj eq_refl (conj eq_refl eq_refl))) as G.
  destruct (gen_main c (mk_gs script [] [] [])) as [[im s]|e]; [|discriminate].
  inversion H; subst. exact G.
Qed.
