(* Hits.v — the hit cases the interpreter's stubs load, as a STATIC datum of the image:
   a version of GenWF4.calls_chain that records, per stub, the hit case it was built for
   (0 for a method call).  The whole-image theorems take this list as an input, so that
   the executed-instruction count is a quantity fixed by the image before any run. *)
From Coq Require Import ZArith List String Bool Lia Permutation.
From Gigue Require Import Types Bits Enc GenTables Builder Samplers Generator ImageSem GenWF2Props GenWF4 GenWF5 MethodContract.
Import ListNotations.
Open Scope list_scope.
Open Scope Z_scope.

Definition stub_hit (c : config) (ms : list method) (ta : Z) (e : elt) (cur : Z) (stub : list gi) (h : Z) : Prop :=
  let b := bvariant_of (c_variant c) in
  let off := elt_addr ms e - cur in
  if uses_tramp (c_variant c) then
    match e with
    | EMethod _ => h = 0 /\ interp_method_call b off (ta - cur) = OK stub
    | EPic p => 1 <= h <= p_cases p /\ interp_pic_call b off (ta - cur) h (c_hit_reg c) = OK stub
    end
  else
    match e with
    | EMethod _ => h = 0 /\ method_base_call b off = OK stub
    | EPic p => 1 <= h <= p_cases p /\ pic_base_call b off h (c_hit_reg c) = OK stub
    end.

Inductive chain_h (c : config) (ms : list method) (ta : Z) : list elt -> Z -> list gi -> list Z -> Prop :=
| ch_nil cur : chain_h c ms ta [] cur [] []
| ch_cons e tl cur stub rest h hs :
    stub_hit c ms ta e cur stub h -> chain_h c ms ta tl (cur + zlen stub * 4) rest hs ->
    chain_h c ms ta (e :: tl) cur (stub ++ rest) (h :: hs).

Lemma stub_has_hit c ms ta e cur stub : int_stub_for c ms ta e cur stub -> exists h, stub_hit c ms ta e cur stub h.
Proof.
  unfold int_stub_for, stub_hit. destruct (uses_tramp (c_variant c)); destruct e as [id|p]; intros H.
  - exists 0. auto.
  - destruct H as (h & H1 & H2). exists h. auto.
  - exists 0. auto.
  - destruct H as (h & H1 & H2). exists h. auto.
Qed.

Lemma stub_hit_stub c ms ta e cur stub h : stub_hit c ms ta e cur stub h -> int_stub_for c ms ta e cur stub.
Proof.
  unfold int_stub_for, stub_hit. destruct (uses_tramp (c_variant c)); destruct e as [id|p]; intros H.
  - exact (proj2 H).
  - exists h. exact H.
  - exact (proj2 H).
  - exists h. exact H.
Qed.

Lemma chain_has_hits c ms ta : forall l cur calls, calls_chain c ms ta l cur calls -> exists hs, chain_h c ms ta l cur calls hs.
Proof.
  intros l cur calls H. induction H as [cur|e tl cur stub rest Hs _ (hs & IH)].
  - exists []. constructor.
  - destruct (stub_has_hit _ _ _ _ _ _ Hs) as (h & Hh). exists (h :: hs). constructor; assumption.
Qed.

Lemma chain_h_len c ms ta : forall l cur calls hs, chain_h c ms ta l cur calls hs -> List.length l = List.length hs.
Proof. intros l cur calls hs H. induction H; cbn [List.length]; congruence. Qed.

(* the range of a hit case: 0 for a method, one of the PIC's cases otherwise (run-independent) *)
Definition hit_range (e : elt) (h : Z) : Prop :=
  match e with EMethod _ => h = 0 | EPic p => 1 <= h <= p_cases p end.

Lemma chain_h_range c ms ta : forall l cur calls hs, chain_h c ms ta l cur calls hs -> Forall2 hit_range l hs.
Proof.
  intros l cur calls hs H. induction H as [cur|e tl cur stub rest h hs Hs _ IH]; constructor; [|exact IH].
  unfold stub_hit in Hs. destruct (uses_tramp (c_variant c)); destruct e as [id|p]; cbn [hit_range]; tauto.
Qed.

(* every successfully generated image carries ONE list of (element, hit case) pairs, fixed by the
   image alone: the interpreter's stubs, in their shuffled order, were built for exactly these cases *)
Lemma static_hits c script img :
  successful c script img ->
  exists pro epi shuffled calls hs eh,
    base_prologue 10 0 true = OK pro /\ base_epilogue 10 0 true = OK epi /\
    Permutation (im_elements img) shuffled /\
    chain_h c (im_methods img) (jit_start_al c) shuffled (int_start_al c + zlen pro * 4) calls hs /\
    im_int_instrs img = pro ++ calls ++ epi /\
    map fst eh = im_elements img /\ Forall (fun x => hit_range (fst x) (snd x)) eh /\
    Permutation (combine shuffled hs) eh.
Proof.
  intros Hs.
  destruct (interpreter_calls_each_element_once c script img Hs) as (pro & epi & shuffled & calls & Hpro & Hepi & Hperm & Hchain & Hints).
  destruct (chain_has_hits _ _ _ _ _ _ Hchain) as (hs & Hch).
  pose proof (chain_h_len _ _ _ _ _ _ _ Hch) as Hlsh.
  assert (Hperm' : Permutation (im_elements img) (map fst (combine shuffled hs))) by (rewrite (map_fst_combine shuffled hs Hlsh); exact Hperm).
  destruct (Permutation_map_inv fst _ Hperm') as (eh & Eeh & Peh).
  exists pro, epi, shuffled, calls, hs, eh.
  repeat (split; [assumption|]). split; [symmetry; exact Eeh|]. split; [|exact Peh].
  apply Forall_forall. intros x Hx. apply (Permutation_in x (Permutation_sym Peh)) in Hx.
  destruct x as [e h]. cbn [fst snd]. exact (Forall2_combine_In _ _ _ _ _ (chain_h_range _ _ _ _ _ _ _ Hch) Hx).
Qed.
