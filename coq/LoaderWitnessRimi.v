(* LoaderWitnessRimi.v — non-vacuity of LoaderRimi.rimiss_image_from_files: a concrete
   machine state built from the RIMI shadow-stack witness image satisfies every
   hypothesis of the theorem (including: the call chains fit the emitted shadow stack). *)
From Coq Require Import ZArith List String Bool Lia.
From Gigue Require Import Types Bits Isa Enc GenTables Builder Samplers Generator Machine MachineLemmas ImageSem
  BodyExec FrameExec CodeMem GenWF5 GenWF7 MethodContract SaveRestore TrampExec TrampsInv TrampStubs WholeImage Loader Witness
  LoaderWitness CallFrameRimi MethodContractRimi WholeImageRimi LoaderRimi.
Import ListNotations.
Open Scope list_scope.
Open Scope Z_scope.

(* ---- the witness state ---- *)
Definition wimg_r : image :=
  match run_gen wcfg_rimiss wscript_rimiss with
  | OK (img, _) => img
  | Err _ => mk_image [] [] [] [] [] [] [] []
  end.

Lemma wimg_successful_r : successful wcfg_rimiss wscript_rimiss wimg_r.
Proof.
  unfold successful, wimg_r. split; [vm_compute; reflexivity|].
  destruct (run_gen wcfg_rimiss wscript_rimiss) as [[img rest]|e] eqn:E.
  - assert (R : rest = []).
    { assert (X : match run_gen wcfg_rimiss wscript_rimiss with OK (_, []) => true | _ => false end = true)
        by (vm_compute; reflexivity).
      rewrite E in X. destruct rest; [reflexivity|discriminate]. }
    rewrite R. reflexivity.
  - assert (X : match run_gen wcfg_rimiss wscript_rimiss with OK _ => true | Err _ => false end = true)
      by (vm_compute; reflexivity).
    rewrite E in X. discriminate.
Qed.

Definition wwords_r : list Z := im_int wimg_r ++ im_jit wimg_r.

Definition wL_r : layout :=
  mk_layout 4096 5120 (5120 + 4 * zlen (im_jit wimg_r))
            1048576 (1048576 + zlen (im_data wimg_r))      (* data *)
            2097152 3145728                               (* stack: 1 MiB *)
            4194304 (4194304 + zlen (im_ss wimg_r))         (* shadow stack (unused by this variant) *)
            5242880.                                      (* the caller's return address *)

Definition ws0_r : mstate :=
  rset (rset (rset (rset (mk_mstate 4096 (PM.empty Z) (load_words (PM.empty Z) 4096 wwords_r) 0 []) 1 5242880) 2 3145728) 31 1048576)
       28 (4194304 + zlen (im_ss wimg_r)).

Lemma wwords_range_r : Forall (fun w => 0 <= w < 4294967296) wwords_r.
Proof.
  apply Forall_forall. intros w Hw.
  assert (H : forallb (fun w => (0 <=? w) && (w <? 4294967296)) wwords_r = true) by (vm_compute; reflexivity).
  rewrite forallb_forall in H. specialize (H w Hw). apply andb_prop in H. destruct H as [H1 H2].
  apply Z.leb_le in H1. apply Z.ltb_lt in H2. lia.
Qed.

Lemma ws0_init_r : Init wcfg_rimiss wimg_r (rNtot wcfg_rimiss wimg_r) wL_r ws0_r.
Proof.
  constructor.
  - vm_compute. split; [reflexivity|discriminate].
  - change (mem ws0_r) with (load_words (PM.empty Z) 4096 wwords_r). change (code_lo wL_r) with 4096.
    apply load_words_code_at; [lia|exact wwords_range_r].
  - vm_compute. reflexivity.
  - split; [reflexivity|]. vm_compute. reflexivity.
  - reflexivity.
  - split; [vm_compute; reflexivity|]. split; [vm_compute; reflexivity|].
    split; [vm_compute; discriminate|]. split; [vm_compute; discriminate|vm_compute; reflexivity].
  - split; [vm_compute; reflexivity|]. split; [vm_compute; reflexivity|].
    split; [vm_compute; split; [discriminate|reflexivity]|]. right. vm_compute. discriminate.
  - split; [vm_compute; reflexivity|]. split; [vm_compute; reflexivity|].
    split; [vm_compute; discriminate|]. split; [reflexivity|vm_compute; reflexivity].
  - vm_compute. repeat split; discriminate || reflexivity.
  - split; reflexivity.
  - unfold disjoint. repeat split; vm_compute; (left; discriminate) || (right; discriminate).
Qed.

(* every hypothesis of Loader.base_image_from_files is met by a concrete state,
   so its conclusion holds of it: the witness image runs to the halt address *)
Theorem rimiss_image_from_files_nonvacuous :
  exists s' n, run (gv wcfg_rimiss) wL_r n ws0_r = (Next s', n) /\ pc s' = halt_at wL_r /\ rget s' 28 = ss_hi wL_r /\ dom s' = 0 /\ cfi s' = [].
Proof.
  destruct (rimiss_image_from_files wcfg_rimiss wscript_rimiss wimg_r wimg_successful_r eq_refl ltac:(vm_compute; discriminate) wL_r ws0_r ws0_init_r)
    as (s' & eh & _ & _ & R & P & _ & P28 & _ & D & C).
  - reflexivity.
  - vm_compute. reflexivity.
  - apply pics_encodableb_sound. vm_compute. reflexivity.
  - vm_compute. discriminate.
  - intros r o Hin. unfold int_slots in Hin. cbn [In] in Hin.
    repeat (destruct Hin as [Hin|Hin]; [inversion Hin; subst; vm_compute; split; [discriminate|reflexivity]|]).
    destruct Hin.
  - exists s', (rimage_steps wimg_r eh). auto 10.
Qed.

(* the witness image does contain PICs and call-making methods (which use the shadow stack) *)
Example wimg_shape_r :
  existsb (fun e => match e with EPic _ => true | _ => false end) (im_elements wimg_r) = true /\
  existsb (fun m => negb (m_is_leaf m)) (im_methods wimg_r) = true /\ 0 < SSmax wimg_r.
Proof. repeat split; vm_compute; reflexivity. Qed.


(* ---- non-vacuity of the frame-corruption theorem (MethodContractRimi.every_rimi_method_frame_corruption):
   a method of the witness image that has callees, entered at its first instruction ---- *)
Fixpoint first_caller (ms : list method) (i : nat) : option (nat * method) :=
  match ms with
  | [] => None
  | m :: tl => match m_callees m with [] => first_caller tl (Datatypes.S i) | _ => Some (i, m) end
  end.

Definition wid_r : nat := match first_caller (im_methods wimg_r) 0 with Some (i, _) => i | None => O end.
Definition wm_r : method :=
  match first_caller (im_methods wimg_r) 0 with Some (_, m) => m | None => mk_method 0 0 0 0 0 0 0 [] [] end.
Definition ws1_r : mstate := set_pc ws0_r (m_addr wm_r).

Theorem rimi_frame_corruption_nonvacuous :
  nth_error (im_methods wimg_r) wid_r = Some wm_r /\ m_is_leaf wm_r = false /\ m_callees wm_r <> [] /\ 0 < m_body wm_r /\
  rimi wcfg_rimiss /\ rplaced wcfg_rimiss wimg_r wL_r /\ rcode_loaded wimg_r ws1_r /\ pc ws1_r = m_addr wm_r /\
  env_ok (gv wcfg_rimiss) wL_r (c_data_reg wcfg_rimiss) ws1_r /\
  (let N := need_method wcfg_rimiss (im_methods wimg_r) (max_depth (im_methods wimg_r)) wid_r in
   let SSN := ss_need (im_methods wimg_r) (max_depth (im_methods wimg_r)) wid_r in
   let S := rget ws1_r 2 in let P := rget ws1_r 28 in
   S mod 8 = 0 /\ N <= S < W64 /\ stk_lo wL_r <= S - N /\ S <= stk_hi wL_r /\
   P mod 8 = 0 /\ SSN <= P < W64 /\ ss_lo wL_r <= P - SSN /\ P <= ss_hi wL_r) /\
  0 <= rget ws1_r 8 < W64 /\ 0 <= rget ws1_r 1 < W64.
Proof.
  split; [vm_compute; reflexivity|]. split; [vm_compute; reflexivity|].
  split; [vm_compute; discriminate|]. split; [vm_compute; reflexivity|].
  split; [left; reflexivity|].
  split.
  { apply (rflat_placed wcfg_rimiss wscript_rimiss wimg_r wimg_successful_r eq_refl wL_r ws0_r ws0_init_r); [reflexivity|vm_compute; reflexivity]. }
  split.
  { destruct (rflat_loaded wcfg_rimiss wscript_rimiss wimg_r wimg_successful_r wL_r ws0_r ws0_init_r eq_refl) as (H & _).
    assert (Em : mem ws1_r = mem ws0_r) by (unfold ws1_r, set_pc; cbn [mem]; reflexivity).
    unfold rcode_loaded in *. rewrite Em. exact H. }
  split; [unfold ws1_r, set_pc; cbn [pc]; reflexivity|].
  split; [constructor; [vm_compute; reflexivity|exact I]|].
  split; [vm_compute; repeat split; discriminate || reflexivity|].
  split; [vm_compute; split; [discriminate|reflexivity]|].
  vm_compute; split; [discriminate|reflexivity].
Qed.

Print Assumptions rimiss_image_from_files_nonvacuous.
Print Assumptions rimi_frame_corruption_nonvacuous.
