(* WalkK.v — Layer B: walking through a method body whose call stubs are k
   instructions long (k = 5 for FIXER's tagged calls): plain positions take one
   step, the site at position i takes its recorded number of steps (stub + callee +
   return) and resumes k positions later; exact step count.  Generalises Walk.v. *)
From Coq Require Import ZArith List Bool Lia.
From Gigue Require Import Isa Machine MachineLemmas SwitchExec Walk.
Import ListNotations.
Open Scope Z_scope.

Lemma wsum_at_k k sc p kp :
  (0 < k)%nat -> NoDup (map fst sc) -> In (p, kp) sc ->
  (forall j kj, In (j, kj) sc -> j <> p -> (j + k + 1 <= p \/ p + k + 1 <= j)%nat) ->
  wsum sc p = (kp + wsum sc (p + k))%nat.
Proof.
  intros Hk0. induction sc as [|[i ki] tl IH]; intros Hnd Hin Hap; [destruct Hin|].
  cbn [map fst] in Hnd. inversion Hnd as [|? ? Hni Hnd']; subst. cbn [wsum].
  destruct Hin as [E|Hin].
  - inversion E; subst i ki. rewrite Nat.leb_refl.
    destruct (Nat.leb_spec (p + k) p) as [Hle|Hgt].
    + lia.
    + rewrite (wsum_shift tl p (p + k)); [lia|lia|].
      intros j kj Hj. assert (j <> p).
      { intros ->. apply Hni. apply in_map_iff. exists (p, kj). split; [reflexivity|exact Hj]. }
      destruct (Hap j kj (or_intror Hj) H); lia.
  - assert (Hne : i <> p).
    { intros ->. apply Hni. apply in_map_iff. exists (p, kp). split; [reflexivity|exact Hin]. }
    rewrite (IH Hnd' Hin) by (intros j kj Hj; apply (Hap j kj); right; exact Hj).
    destruct (Hap i ki (or_introl eq_refl) Hne); destruct (Nat.leb_spec p i), (Nat.leb_spec (p + k) i); lia.
Qed.

Section WalkK.
Variable v : variant.
Variable L : layout.
Variable Inv : mstate -> Prop.
Variable addr : nat -> Z.
Variable k : nat.                          (* stub length *)
Variable sc : list (nat * nat).
Variable P1 : nat.
Hypothesis k_pos : (0 < k)%nat.
Let sites := map fst sc.
Definition inside (p : nat) : bool := existsb (fun i => Nat.ltb i p && Nat.ltb p (i + k)) sites.
Hypothesis sites_nodup : NoDup sites.
Hypothesis sites_apart : forall i j, In i sites -> In j sites -> i <> j -> (i + k + 1 <= j \/ j + k + 1 <= i)%nat.
Hypothesis sites_fit : forall i, In i sites -> (i + k <= P1)%nat.
Hypothesis step_plain : forall p s, (p < P1)%nat -> is_site sites p = false -> inside p = false ->
  Inv s -> pc s = addr p ->
  exists s', run v L 1 s = (Next s', 1%nat) /\ pc s' = addr (p + 1) /\ Inv s'.
Hypothesis step_site : forall i n s, In (i, n) sc -> Inv s -> pc s = addr i ->
  exists s', run v L n s = (Next s', n) /\ pc s' = addr (i + k) /\ Inv s'.

Lemma site_pair_k i : In i sites -> exists n, In (i, n) sc.
Proof. intros H. unfold sites in H. apply in_map_iff in H. destruct H as ([i' n] & E & H). cbn in E. subst. eauto. Qed.

Lemma pair_site_k i n : In (i, n) sc -> In i sites.
Proof. intros H. unfold sites. apply in_map_iff. exists (i, n). auto. Qed.

Lemma inside_after_site i : In i sites -> inside (i + k) = false.
Proof.
  intros Hi. unfold inside. destruct (existsb _ sites) eqn:E; [|reflexivity].
  apply existsb_exists in E. destruct E as (j & Hj & E). apply andb_prop in E. destruct E as [E1 E2].
  apply Nat.ltb_lt in E1. apply Nat.ltb_lt in E2.
  destruct (Nat.eq_dec i j) as [->|Hne]; [lia|]. destruct (sites_apart i j Hi Hj Hne); lia.
Qed.

Lemma inside_after_plain p : is_site sites p = false -> inside p = false -> inside (p + 1) = false.
Proof.
  intros Hp Hin. unfold inside in *.
  destruct (existsb (fun i => Nat.ltb i (p + 1) && Nat.ltb (p + 1) (i + k)) sites) eqn:E; [|reflexivity].
  apply existsb_exists in E. destruct E as (j & Hj & E). apply andb_prop in E. destruct E as [E1 E2].
  apply Nat.ltb_lt in E1. apply Nat.ltb_lt in E2.
  destruct (Nat.eq_dec j p) as [->|Hne]; [rewrite (In_is_site sites p Hj) in Hp; discriminate|].
  exfalso. assert (Hc : existsb (fun i => Nat.ltb i p && Nat.ltb p (i + k)) sites = true).
  { apply existsb_exists. exists j. split; [exact Hj|]. apply andb_true_intro. split; apply Nat.ltb_lt; lia. }
  rewrite Hc in Hin. discriminate.
Qed.

Theorem walk_cnt_k : forall n p s,
  (p + n = P1)%nat -> inside p = false -> Inv s -> pc s = addr p ->
  exists s' m, run v L m s = (Next s', m) /\ pc s' = addr P1 /\ Inv s' /\
               (m + k * wsum (map (fun x => (fst x, 1%nat)) sc) p = n + wsum sc p)%nat.
Proof.
  induction n as [n IH] using lt_wf_ind. intros p s Hk Hsec HI Hpc.
  set (sc1 := map (fun x => (fst x, 1%nat)) sc).
  assert (Hsc1 : forall i k1, In (i, k1) sc1 -> In i sites /\ k1 = 1%nat).
  { intros i k1 H. unfold sc1 in H. apply in_map_iff in H. destruct H as ([i' k'] & E & H). cbn in E. inversion E; subst.
    split; [eapply pair_site_k; exact H|reflexivity]. }
  assert (Hnd1 : NoDup (map fst sc1)).
  { unfold sc1. rewrite map_map. cbn [fst]. exact sites_nodup. }
  destruct n as [|n'].
  - exists s, O. replace P1 with p by lia. split; [reflexivity|]. split; [exact Hpc|]. split; [exact HI|].
    rewrite !wsum_none; [lia| |].
    + intros i k0 H. pose proof (sites_fit i (pair_site_k i k0 H)). lia.
    + intros i k0 H. destruct (Hsc1 i k0 H) as [Hi _]. pose proof (sites_fit i Hi). lia.
  - destruct (is_site sites p) eqn:Es.
    + apply is_site_In in Es. pose proof (sites_fit p Es) as Hfit.
      destruct (site_pair_k p Es) as (kp & Hkp).
      destruct (step_site p kp s Hkp HI Hpc) as (s1 & R1 & P1' & I1).
      assert (Hn' : exists n'', S n' = (k + n'')%nat) by (exists (S n' - k)%nat; lia).
      destruct Hn' as (n'' & En).
      destruct (IH n'' ltac:(lia) (p + k)%nat s1 ltac:(lia) (inside_after_site p Es) I1 P1')
        as (s' & m & R & Pf & If & Hn).
      exists s', (kp + m)%nat. split; [|split; [exact Pf|split; [exact If|]]].
      { rewrite (run_app v L kp m s s1 R1). rewrite R. reflexivity. }
      rewrite (wsum_at_k k sc p kp k_pos sites_nodup Hkp).
      2:{ intros j kj Hj Hne. destruct (sites_apart p j Es (pair_site_k j kj Hj) ltac:(lia)); lia. }
      rewrite (wsum_at_k k sc1 p 1 k_pos Hnd1).
      2:{ unfold sc1. apply in_map_iff. exists (p, kp). split; [reflexivity|exact Hkp]. }
      2:{ intros j kj Hj Hne. destruct (Hsc1 j kj Hj) as [Hjs _]. destruct (sites_apart p j Es Hjs ltac:(lia)); lia. }
      fold sc1 in Hn. lia.
    + destruct (step_plain p s ltac:(lia) Es Hsec HI Hpc) as (s1 & R1 & P1' & I1).
      destruct (IH n' ltac:(lia) (p + 1)%nat s1 ltac:(lia) (inside_after_plain p Es Hsec) I1 P1')
        as (s' & m & R & Pf & If & Hn).
      exists s', (1 + m)%nat. split; [|split; [exact Pf|split; [exact If|]]].
      { rewrite (run_app v L 1 m s s1 R1). rewrite R. reflexivity. }
      assert (Hnp : forall i (k0 : nat), In i sites -> (i < p \/ p + 1 <= i)%nat).
      { intros i _ Hi. destruct (Nat.eq_dec i p) as [->|]; [|lia]. rewrite (In_is_site sites p Hi) in Es. discriminate. }
      rewrite (wsum_shift sc p (p + 1)) by (try lia; intros i k0 H; apply (Hnp i k0); eapply pair_site_k; exact H).
      rewrite (wsum_shift sc1 p (p + 1)) by (try lia; intros i k0 H; apply (Hnp i k0); apply (Hsc1 i k0 H)).
      fold sc1 in Hn. lia.
Qed.

Lemma inside_site i : In i sites -> inside i = false.
Proof.
  intros Hi. unfold inside. destruct (existsb _ sites) eqn:E; [|reflexivity].
  apply existsb_exists in E. destruct E as (j & Hj & E). apply andb_prop in E. destruct E as [E1 E2].
  apply Nat.ltb_lt in E1. apply Nat.ltb_lt in E2.
  destruct (Nat.eq_dec i j) as [->|Hne]; [lia|]. destruct (sites_apart i j Hi Hj Hne); lia.
Qed.

(* every position that is not strictly inside a stub is reached from the start of the body *)
Theorem walk_reach_k : forall p s,
  (p <= P1)%nat -> inside p = false -> Inv s -> pc s = addr 0 ->
  exists s' m, run v L m s = (Next s', m) /\ pc s' = addr p /\ Inv s'.
Proof.
  induction p as [p IH] using lt_wf_ind. intros s Hp Hin HI Hpc.
  destruct p as [|q].
  - exists s, O. split; [reflexivity|]. split; assumption.
  - destruct (existsb (fun i => Nat.eqb (i + k) (S q)) sites) eqn:EA.
    + (* the position right after a stub *)
      apply existsb_exists in EA. destruct EA as (i & Hi & Ei). apply Nat.eqb_eq in Ei.
      destruct (IH i ltac:(lia) s ltac:(lia) (inside_site i Hi) HI Hpc) as (s1 & m1 & R1 & Pc1 & I1).
      destruct (site_pair_k i Hi) as (n & Hn).
      destruct (step_site i n s1 Hn I1 Pc1) as (s2 & R2 & Pc2 & I2).
      exists s2, (m1 + n)%nat. split; [rewrite (run_app v L m1 n s s1 R1), R2; reflexivity|].
      split; [rewrite Pc2, Ei; reflexivity|exact I2].
    + (* a plain position follows a plain position *)
      assert (HnA : forall i, In i sites -> (i + k)%nat <> S q).
      { intros i Hi E. assert (existsb (fun i => Nat.eqb (i + k) (S q)) sites = true); [|congruence].
        apply existsb_exists. exists i. split; [exact Hi|]. apply Nat.eqb_eq. exact E. }
      assert (Hinq : forall i, In i sites -> ~ (i < S q < i + k)%nat).
      { intros i Hi Hc. unfold inside in Hin.
        assert (existsb (fun i => Nat.ltb i (S q) && Nat.ltb (S q) (i + k)) sites = true); [|congruence].
        apply existsb_exists. exists i. split; [exact Hi|]. apply andb_true_intro. split; apply Nat.ltb_lt; lia. }
      assert (Hsq : is_site sites q = false).
      { destruct (is_site sites q) eqn:E; [|reflexivity]. apply is_site_In in E.
        pose proof (HnA q E). pose proof (Hinq q E). lia. }
      assert (Hiq : inside q = false).
      { clear EA. unfold inside. destruct (existsb (fun i => Nat.ltb i q && Nat.ltb q (i + k)) sites) eqn:E; [|reflexivity].
        apply existsb_exists in E. destruct E as (i & Hi & E). apply andb_prop in E. destruct E as [E1 E2].
        apply Nat.ltb_lt in E1. apply Nat.ltb_lt in E2.
        pose proof (HnA i Hi). pose proof (Hinq i Hi). lia. }
      destruct (IH q ltac:(lia) s ltac:(lia) Hiq HI Hpc) as (s1 & m1 & R1 & Pc1 & I1).
      destruct (step_plain q s1 ltac:(lia) Hsq Hiq I1 Pc1) as (s2 & R2 & Pc2 & I2).
      exists s2, (m1 + 1)%nat. split; [rewrite (run_app v L m1 1 s s1 R1), R2; reflexivity|].
      split; [rewrite Pc2; f_equal; lia|exact I2].
Qed.
End WalkK.

(* for stubs of length 2 "strictly inside a stub" is Walk.second *)
Lemma inside2_second sc p : inside 2 sc p = second (map fst sc) p.
Proof.
  unfold inside, second. induction (map fst sc) as [|i tl IH]; cbn [existsb]; [reflexivity|].
  rewrite IH. f_equal.
  destruct (Nat.ltb_spec i p), (Nat.ltb_spec p (i + 2)), (Nat.eqb_spec p (i + 1)); cbn; try reflexivity; lia.
Qed.
